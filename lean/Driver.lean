import Driver.Main

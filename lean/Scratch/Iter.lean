import RxModel.Props.LinkC14
namespace Rx
open OM

namespace OMx
/-- `len(self.keys)` -/
def lenKeys : OM Nat := do return (← get).keys.length
/-- `self.keys[i]` -/
def keysGet (i : Nat) : OM (Option Key) := do
  match (← get).keys[i]? with
  | some k => pure k
  | none => throw "IndexError"
end OMx

namespace GenX
def MemoryStore_iterate : OM (List (Option Key × Val × Bool)) := do
  let mut out : List (Option Key × Val × Bool) := []
  let t1 ← OMx.lenKeys
  for index in List.range t1 do
    let t2 ← OM.stateGet index
    if t2 ≠ Marker.cleared then
      let t3 ← OMx.keysGet index
      let t4 ← OM.valuesGet index
      let t5 ← OM.stateGet index
      out := out ++ [(t3, t4, decide (t5 = Marker.set))]
  return out
end GenX

def runO {α} (m : OM α) (s : PyStoreSt) : Except Err α × PyStoreSt := (ExceptT.run m).run s

theorem runO_bind {α β} (m : OM α) (f : α → OM β) (s : PyStoreSt) :
    runO (m >>= f) s = match runO m s with
      | (.ok a, s') => runO (f a) s'
      | (.error e, s') => (.error e, s') := by
  simp only [runO, ExceptT.run, bind, ExceptT.bind, ExceptT.mk, StateT.bind, StateT.run, ExceptT.bindCont]
  cases h : m s with
  | mk a s' => cases a <;> simp [pure, StateT.pure]

theorem runO_pure {α} (a : α) (s : PyStoreSt) : runO (pure a : OM α) s = (.ok a, s) := rfl
theorem runO_lenKeys (s : PyStoreSt) : runO OMx.lenKeys s = (.ok s.keys.length, s) := rfl

theorem runO_stateGet (i : Nat) (s : PyStoreSt) (m : Marker) (h : s.state[i]? = some m) : runO (OM.stateGet i) s = (.ok m, s) := by
  simp [runO, OM.stateGet, h, ExceptT.run, bind, ExceptT.bind, ExceptT.mk, ExceptT.bindCont, StateT.bind, get, getThe, MonadStateOf.get,
    StateT.get, liftM, monadLift, MonadLift.monadLift, ExceptT.lift, Functor.map, StateT.map, pure, ExceptT.pure, StateT.pure, StateT.run]
theorem runO_valuesGet (i : Nat) (s : PyStoreSt) (v : Val) (h : s.values[i]? = some v) : runO (OM.valuesGet i) s = (.ok v, s) := by
  simp [runO, OM.valuesGet, h, ExceptT.run, bind, ExceptT.bind, ExceptT.mk, ExceptT.bindCont, StateT.bind, get, getThe, MonadStateOf.get,
    StateT.get, liftM, monadLift, MonadLift.monadLift, ExceptT.lift, Functor.map, StateT.map, pure, ExceptT.pure, StateT.pure, StateT.run]
theorem runO_keysGet (i : Nat) (s : PyStoreSt) (k : Option Key) (h : s.keys[i]? = some k) : runO (OMx.keysGet i) s = (.ok k, s) := by
  simp [runO, OMx.keysGet, h, ExceptT.run, bind, ExceptT.bind, ExceptT.mk, ExceptT.bindCont, StateT.bind, get, getThe, MonadStateOf.get,
    StateT.get, liftM, monadLift, MonadLift.monadLift, ExceptT.lift, Functor.map, StateT.map, pure, ExceptT.pure, StateT.pure, StateT.run]

/-- one slot of `iterate()` -/
def iterSlot (s : MemStore) (i : Nat) : Option (Option Key × Val × Bool) :=
  match s.state[i]? with
  | some Marker.cleared => none
  | some m => some (s.keys.getD i none, s.values.getD i (.int 0), decide (m = Marker.set))
  | none => none

theorem iter_loop (s : MemStore) (h : s.Inv) : ∀ (l : List Nat) (acc : List (Option Key × Val × Bool)), (∀ i ∈ l, i < s.state.length) →
    runO (forIn l acc (fun index (r : List (Option Key × Val × Bool)) => do
        let t2 ← OM.stateGet index
        if t2 ≠ Marker.cleared then
          let t3 ← OMx.keysGet index
          let t4 ← OM.valuesGet index
          let t5 ← OM.stateGet index
          pure (ForInStep.yield (r ++ [(t3, t4, decide (t5 = Marker.set))]))
        else pure (ForInStep.yield r))) (objOf s)
      = (.ok (acc ++ l.filterMap (iterSlot s)), objOf s) := by
  obtain ⟨h1, h2, _⟩ := h
  intro l
  induction l with
  | nil => intro acc _; simp [runO_pure]
  | cons i l ih =>
    intro acc hl
    have hi : i < s.state.length := hl i (by simp)
    have hs : (objOf s).state[i]? = some s.state[i] := by simp [objOf, hi]
    have hv : (objOf s).values[i]? = some (s.values[i]'(by omega)) := by simp [objOf]
    have hk : (objOf s).keys[i]? = some (s.keys[i]'(by omega)) := by simp [objOf]
    rw [List.forIn_cons, runO_bind, runO_bind, runO_stateGet _ _ _ hs]
    simp only []
    by_cases hc : s.state[i] = Marker.cleared
    · simp only [hc, ne_eq, not_true_eq_false, if_false, runO_pure]
      rw [ih acc (fun j hj => hl j (by simp [hj]))]
      simp [iterSlot, hi, hc]
    · simp only [hc, ne_eq, not_false_eq_true, if_true, runO_bind, runO_keysGet _ _ _ hk, runO_valuesGet _ _ _ hv, runO_stateGet _ _ _ hs, runO_pure]
      rw [ih _ (fun j hj => hl j (by simp [hj]))]
      have : iterSlot s i = some (s.keys[i]'(by omega), s.values[i]'(by omega), decide (s.state[i] = Marker.set)) := by
        have hv' : s.values[i]? = some (s.values[i]'(by omega)) := by simp
        have hk' : s.keys[i]? = some (s.keys[i]'(by omega)) := by simp
        simp only [iterSlot, List.getElem?_eq_getElem hi]
        cases hm : s.state[i] with
        | cleared => exact absurd hm hc
        | notset => simp [List.getD, hv', hk']
        | set => simp [List.getD, hv', hk']
      simp [this]

/-- **`MemoryStore.iterate`** (a generator, generated from rxsci/state/memory_store.py as the list of what it yields) is the
model's `MemStore.iterate`: (key, raw value, is-set) of every slot whose marker is not CLEARED, in index order -/
theorem LinkS_iterate (s : MemStore) (h : s.Inv) :
    OM.run GenX.MemoryStore_iterate (objOf s) = (match s.iterate with | .dump l => .ok l | _ => .error "not-a-dump", objOf s) := by
  have hrun : ∀ {α} (m : OM α) st, OM.run m st = runO m st := fun _ _ => rfl
  rw [hrun]
  unfold GenX.MemoryStore_iterate
  simp only [runO_bind, runO_lenKeys]
  have hk : (objOf s).keys.length = s.keys.length := rfl
  obtain ⟨h1, h2, h3⟩ := h
  have := iter_loop s ⟨h1, h2, h3⟩ (List.range s.keys.length) [] (by intro i hi; simp at hi; omega)
  simp only [hk]
  rw [this]
  simp only [runO_pure, List.nil_append, MemStore.iterate]
  congr 2

end Rx

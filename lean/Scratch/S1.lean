import RxModel.Props.LinkC12
import RxModel.Lemmas.PlainDerived
namespace Rx

theorem gen_sqrt_result : Gen.stddev_result (V := Val) = (fun v => if v = .none then pure .none else Val.sqrt v) := by
  funext v
  by_cases h : v = .none <;> simp [Gen.stddev_result, PyAlg.isNone, PyAlg.sqrt, PyAlg.none, h]

theorem Link_variance (key : D.F1) (r : Bool) : genPipe (Gen.variance_stages key r) = D.variance key r := by
  simp only [genPipe, Gen.variance_stages, List.map, List.cons_append, List.nil_append, GStage.toStage, D.variance, Option.map,
    gen_variance_accumulate, gen_variance_result]
  rfl

theorem genPipe_append (a b : List (GStage Val)) : genPipe (a ++ b) = (genPipe a).append (genPipe b) := by
  induction a with
  | nil => rfl
  | cons s a ih => simp only [genPipe, List.cons_append, List.map, Pipe.ofList, Pipe.append] at *; rw [ih]

theorem Link_stddev (key : D.F1) (r : Bool) : genPipe (Gen.stddev_stages key r) = D.stddev key r := by
  simp only [Gen.stddev_stages, genPipe_append, Link_variance, D.stddev]
  simp only [genPipe, List.map, GStage.toStage, gen_sqrt_result, D.sqrtMap]

theorem ok_bind {ε α β} (a : α) (f : α → Except ε β) : (Except.ok a >>= f) = f a := rfl
theorem err_bind {ε α β} (e : ε) (f : α → Except ε β) : (Except.error e >>= f) = Except.error e := rfl

theorem append_lst (m0 : List Val) (v : Val) : (PyAlg.append (Val.lst m0) v : Except Err Val) = .ok (Val.lst (m0 ++ [v])) := by
  simp [PyAlg.append, toListAcc, Val.lst, VList.toList_ofList]

/-- the `for` loop of `_moment`: appending `(x_i - c) ** n` to `m` for every element -/
theorem moment_loop (c n : Val) (xs : List Val) (m0 : List Val) :
    (forIn xs (Val.lst m0) (fun x_i r => do
        let t2 ← PyAlg.sub x_i c
        let t3 ← PyAlg.pow t2 n
        let t4 ← PyAlg.append r t3
        pure (ForInStep.yield t4)) : Except Err Val)
      = (do let ms ← xs.mapM (fun x => do let d ← Val.sub x c; Val.pow d n); pure (Val.lst (m0 ++ ms))) := by
  induction xs generalizing m0 with
  | nil => simp
  | cons x xs ih =>
    simp only [List.forIn_cons, List.mapM_cons, bind_assoc]
    show ((Val.sub x c) >>= _) = _
    cases (Val.sub x c) with
    | error e => rfl
    | ok d =>
      simp only [ok_bind]
      show ((Val.pow d n) >>= _) = _
      cases (Val.pow d n) with
      | error e => rfl
      | ok p =>
        simp only [ok_bind, append_lst, pure_bind, ih, bind_assoc, List.append_assoc, List.singleton_append]

end Rx

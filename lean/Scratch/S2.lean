import RxGen.Kernels
import RxModel.PyVal
namespace Rx

theorem gen_duc_accumulate (key : D.F1) :
    Gen.duc_accumulate (V := Val) (some key) = (fun acc i => do
        let k ← key i
        if (acc.nth 0) = .none ∨ k ≠ acc.nth 2 then pure (Val.tup [.bool true, i, k])
        else pure (Val.tup [.bool false, i, k])) := by
  funext acc i
  simp only [Gen.duc_accumulate, Option.isSome_some, if_true]
  cases key i with
  | error e => rfl
  | ok k => simp [PyAlg.isNone, PyAlg.nth, PyAlg.eq, PyAlg.tup, PyAlg.bool]

/-- `key_mapper=None`: the item itself is the key -/
theorem gen_duc_accumulate_none :
    Gen.duc_accumulate (V := Val) none = (fun acc i =>
        if (acc.nth 0) = .none ∨ i ≠ acc.nth 2 then pure (Val.tup [.bool true, i, i])
        else pure (Val.tup [.bool false, i, i])) := by
  funext acc i
  simp [Gen.duc_accumulate, PyAlg.isNone, PyAlg.nth, PyAlg.eq, PyAlg.tup, PyAlg.bool]

theorem gen_duc_changed : Gen.duc_changed (V := Val) = (fun i => .ok (.bool ((i.nth 0) = .bool true))) := by
  funext i
  simp [Gen.duc_changed, PyAlg.isTrue, PyAlg.nth, PyAlg.bool, Val.isTrue]
  rfl

theorem gen_duc_item : Gen.duc_item (V := Val) = (fun i => .ok (i.nth 1)) := by
  funext i
  simp [Gen.duc_item, PyAlg.nth]
  rfl

theorem Link_duc (key : D.F1) : genPipe (Gen.duc_stages (some key)) = D.duc key := by
  simp only [genPipe, Gen.duc_stages, List.map, List.cons_append, List.nil_append, GStage.toStage, D.duc, Option.map,
    gen_duc_accumulate, gen_duc_changed, gen_duc_item]
  rfl

/-- rxsci/data/time_split.py `_session_has_expired` on integer timestamps and optional integer timeouts -/
def optInt : Option Int → Val
  | some a => .int a
  | none => .none

theorem ok_bind' {ε α β} (a : α) (f : α → Except ε β) : (Except.ok a >>= f) = f a := rfl
theorem int_beq_none (v : Int) : (Val.int v == Val.none) = false := by simp
theorem add_int (a b : Int) : (PyAlg.add (Val.int a) (Val.int b) : Except Err Val) = .ok (.int (a + b)) := rfl
theorem le_int (a b : Int) : (PyAlg.le (Val.int a) (Val.int b) : Except Err Bool) = .ok (decide (a ≤ b)) := rfl

theorem Link_session_has_expired {α} (c : TsCfg α) (start last new : Int) :
    Gen.session_has_expired (V := Val) (optInt c.active) (optInt c.inactive) (.int start) (.int last) (.int new)
      = .ok (.bool (tsExpired c start last new)) := by
  cases ha : c.active <;> cases hi : c.inactive <;>
    simp only [Gen.session_has_expired, tsExpired, optInt, ha, hi, PyAlg.isNone, add_int, le_int, ok_bind', PyAlg.bool,
      pure_bind, bind_pure, Bool.not_true, Bool.not_false, if_true, if_false, Bool.false_eq_true, Bool.or_false, Bool.false_or,
      beq_self_eq_true, ge_iff_le]
  · rfl
  · rename_i b
    cases h : decide (last + b ≤ new) <;> simp [int_beq_none, ok_bind', h] <;> rfl
  · rename_i a
    cases h : decide (start + a ≤ new) <;> simp [int_beq_none, ok_bind', h] <;> rfl
  · rename_i a b
    cases h : decide (start + a ≤ new) <;> cases h2 : decide (last + b ≤ new) <;>
      simp [int_beq_none, ok_bind', h, h2] <;> rfl

end Rx

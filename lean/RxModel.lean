import RxModel.Framing

import Driver.Json
import RxModel.Parquet
open Lean Drv Rx

namespace Drv

/-- {"cmd":"parquet","count":N,"n":dump batch,"b":load batch,"rg":null|k} →
{"file":[row ids],"groups":[row-group sizes],"load":[row ids]}; the batches come from running the
composed `batch(n)` operator of the model (the object of theorem C20_batch) -/
def cmdParquet (j : Json) : Except String Json := do
  let cnt ← getNat (← field j "count")
  let n ← getNat (← field j "n")
  let b ← getNat (← field j "b")
  let rg ← match j.getObjVal? "rg" with
    | .ok .null => pure none
    | .ok v => do pure (some (← getNat v))
    | .error _ => pure none
  if n = 0 ∨ b = 0 ∨ rg = some 0 then throw "bad-case: sizes must be positive"
  let rows := List.range cnt
  let batches := items ((batchG n).outL rows)
  let records := parquetRecords true [] batches
  let file := records.flatten
  pure <| jobj [("file", jarr (file.map jnat)), ("groups", jarr ((rowGroups rg records).map fun g => jnat g.length)),
                ("load", jarr ((parquetLoad b file).map jnat))]

end Drv

import Driver.Json
import RxModel.Desc
open Lean Drv Rx

namespace Drv

/-! ## values -/

def hexDigit (c : Char) : Nat :=
  if c.isDigit then c.toNat - '0'.toNat
  else if 'a' ≤ c ∧ c ≤ 'f' then c.toNat - 'a'.toNat + 10
  else if 'A' ≤ c ∧ c ≤ 'F' then c.toNat - 'A'.toNat + 10 else 0

def parseHex (s : String) : Nat := s.foldl (fun a c => a * 16 + hexDigit c) 0

def toHex16 (n : UInt64) : String :=
  let ds := (List.range 16).map fun i =>
    let d := ((n >>> (UInt64.ofNat (4 * (15 - i)))) &&& 0xF).toNat
    "0123456789abcdef".toList.getD d '0'
  String.ofList ds

partial def decVal (j : Json) : Except String Val :=
  match j with
  | .null => pure .none
  | .bool b => pure (.bool b)
  | .num n => if n.exponent = 0 then pure (.int n.mantissa) else throw "bad-case: non-integer number"
  | .str s => pure (.str s)
  | .arr _ => throw "bad-case: bare array value"
  | .obj _ =>
    match j.getObjVal? "f" with
    | .ok (.str h) => pure (.float (UInt64.ofNat (parseHex h)))
    | _ =>
      match j.getObjVal? "t" with
      | .ok (.arr a) => do let l ← a.toList.mapM decVal; pure (Val.tup l)
      | _ =>
        match j.getObjVal? "l" with
        | .ok (.arr a) => do let l ← a.toList.mapM decVal; pure (Val.lst l)
        | _ => throw "bad-case: value"

partial def encVal (v : Val) : Json :=
  match v with
  | .none => .null
  | .bool b => .bool b
  | .int i => jint i
  | .float b => jobj [("f", jstr (toHex16 b))]
  | .str s => jstr s
  | .tuple l => jobj [("t", jarr (l.toList.map encVal))]
  | .list l => jobj [("l", jarr (l.toList.map encVal))]

def encKey (k : Key) : Json := jarr (k.map jnat)
def decKey (j : Json) : Except String Key := natList j

def encEv (e : Ev Val) : Json :=
  match e with
  | .create k => jarr [jstr "c", encKey k]
  | .next k v => jarr [jstr "n", encKey k, encVal v]
  | .done k => jarr [jstr "d", encKey k]
  | .err k e => jarr [jstr "e", encKey k, jstr e]
  | .fatal e => jarr [jstr "x", jstr e]

def decEv (j : Json) : Except String (Ev Val) := do
  let a ← getArr j
  match a with
  | [.str "c", k] => pure (.create (← decKey k))
  | [.str "n", k, v] => pure (.next (← decKey k) (← decVal v))
  | [.str "d", k] => pure (.done (← decKey k))
  | [.str "e", k, .str e] => pure (.err (← decKey k) e)
  | [.str "x", .str e] => pure (.fatal e)
  | _ => throw "bad-case: event"

def encOut (o : LOut Val) : Json :=
  match o with
  | .item v => jobj [("i", encVal v)]
  | .err e => jobj [("e", jstr e)]
  | .fatal e => jobj [("x", jstr e)]

/-! ## functions -/

def decFn1 (j : Json) : Except String Fn1 := do
  let a ← getArr j
  match a with
  | [.str "id"] => pure .id
  | [.str "add", k] => pure (.add (← getInt k))
  | [.str "mul", k] => pure (.mul (← getInt k))
  | [.str "mod", k] => do let n ← getNat k; if n = 0 then throw "bad-case" else pure (.mod n)
  | [.str "neg"] => pure .neg
  | [.str "is_even"] => pure .isEven
  | [.str "lt", k] => pure (.lt (← getInt k))
  | [.str "gt", k] => pure (.gt (← getInt k))
  | [.str "mod_eq", k, r] => do let n ← getNat k; if n = 0 then throw "bad-case" else pure (.modEq n (← getNat r))
  | [.str "nth", i] => pure (.nth (← getNat i))
  | [.str "const", v] => pure (.const (← decVal v))
  | [.str "range_list"] => pure .rangeList
  | [.str "div_into", k] => pure (.divInto (← getInt k))
  | [.str "raise_if_mod", k, r] => do let n ← getNat k; if n = 0 then throw "bad-case" else pure (.raiseIfMod n (← getNat r))
  | [.str "raise_if_mod", k, r, .str exc] => do let n ← getNat k; if n = 0 then throw "bad-case" else pure (.raiseIfMod n (← getNat r) exc)
  | [.str "truthy_int"] => pure .truthyInt
  | [.str "floordiv", k] => do let n ← getNat k; if n = 0 then throw "bad-case" else pure (.floordiv n)
  | [.str "pair_self"] => pure .pairSelf
  | [.str "freeze"] => pure .freeze
  | [.str "len"] => pure .len
  | [.str "none_if_mod", k, r] => do let n ← getNat k; if n = 0 then throw "bad-case" else pure (.noneIfMod n (← getNat r))
  | [.str "str_of"] => pure .strOf
  | [.str "big_of"] => pure .bigOf
  | [.str "key_of"] => pure .keyOf
  | _ => throw "bad-case: fn1"

def decFn2 (j : Json) : Except String Fn2 := do
  let a ← getArr j
  match a with
  | [.str "add"] => pure .add
  | [.str "sub"] => pure .sub
  | [.str "max"] => pure .max
  | [.str "min"] => pure .min
  | [.str "append"] => pure .append
  | [.str "count"] => pure .count
  | [.str "last"] => pure .last
  | [.str "raise_if_mod", k, r] => do let n ← getNat k; if n = 0 then throw "bad-case" else pure (.raiseIfMod n (← getNat r))
  | [.str "raise_if_mod", k, r, .str exc] => do let n ← getNat k; if n = 0 then throw "bad-case" else pure (.raiseIfMod n (← getNat r) exc)
  | [.str "pair_last"] => pure .pairLast
  | [.str "append_fst"] => pure .appendFst
  | [.str "append_raise_if_mod", k, r] => do let n ← getNat k; if n = 0 then throw "bad-case" else pure (.appendRaiseIfMod n (← getNat r))
  | _ => throw "bad-case: fn2"

def decOptFn1 (j : Json) : Except String Fn1 :=
  match j with | .null => pure .id | _ => decFn1 j

def decJoin (j : Json) : Except String Join :=
  match j with
  | .str "merge" => pure .merge
  | .str "zip" => pure .zip
  | .str "combine_latest" => pure .combine
  | _ => throw "bad-case: join"

def decOptInt (j : Json) : Except String (Option Int) :=
  match j with | .null => pure none | _ => do pure (some (← getInt j))

/-! ## pipelines -/

mutual
partial def decStage (j : Json) : Except String SDesc := do
  let a ← getArr j
  match a with
  | [.str "map", f] => do pure (SDesc.map (← decFn1 f))
  | [.str "starmap", f] => do pure (SDesc.starmap (← decFn2 f))
  | [.str "filter", f] => do pure (SDesc.filter (← decFn1 f))
  | [.str "flat_map"] => pure SDesc.flatMap
  | [.str "scan", g, seed, r, t] => do
      let t ← match t with | .null => pure none | _ => do pure (some (← decFn1 t))
      pure (SDesc.scan (← decFn2 g) (← decVal seed) (← getBool r) t)
  | [.str "scan", g, seed, r, t, .str "factory"] => do
      let t ← match t with | .null => pure none | _ => do pure (some (← decFn1 t))
      pure (SDesc.scan (← decFn2 g) (← decVal seed) (← getBool r) t)
  | [.str "count", r] => do pure (SDesc.count (← getBool r))
  | [.str "sum", f, r] => do pure (SDesc.sum (← decOptFn1 f) (← getBool r))
  | [.str "mean", f, r] => do pure (SDesc.mean (← decOptFn1 f) (← getBool r))
  | [.str "min", f, r] => do pure (SDesc.min (← decOptFn1 f) (← getBool r))
  | [.str "max", f, r] => do pure (SDesc.max (← decOptFn1 f) (← getBool r))
  | [.str "variance", f, r] => do pure (SDesc.variance (← decOptFn1 f) (← getBool r))
  | [.str "stddev", f, r] => do pure (SDesc.stddev (← decOptFn1 f) (← getBool r))
  | [.str "fvariance", f, r] => do pure (SDesc.fvariance (← decOptFn1 f) (← getBool r))
  | [.str "fstddev", f, r] => do pure (SDesc.fstddev (← decOptFn1 f) (← getBool r))
  | [.str "first"] => pure SDesc.first
  | [.str "last"] => pure SDesc.last
  | [.str "take", n] => do pure (SDesc.take (← getNat n))
  | [.str "distinct", f] => do pure (SDesc.distinct (← decOptFn1 f))
  | [.str "duc", f] => do pure (SDesc.duc (← decOptFn1 f))
  | [.str "lag", n] => do pure (SDesc.lag (← getNat n))
  | [.str "pad_start", n, v] => do pure (SDesc.padStart (← getNat n) (← decVal v))
  | [.str "pad_end", n, v] => do pure (SDesc.padEnd (← getNat n) (← decVal v))
  | [.str "start_with", vs] => do pure (SDesc.startWith (← (← getArr vs).mapM decVal))
  | [.str "batch", n] => do pure (SDesc.batch (← getNat n))
  | [.str "to_list"] => pure SDesc.toList
  | [.str "clip", lo, hi] => do pure (SDesc.clip (← decVal lo) (← decVal hi))
  | [.str "fill_none", v] => do pure (SDesc.fillNone (← decVal v))
  | [.str "identity"] => pure SDesc.identity
  | [.str "do_action"] => pure SDesc.identity
  | [.str "assert", f] => do pure (SDesc.assert (← decFn1 f))
  | [.str "assert1", .str name] => pure (SDesc.assert1 name)
  | [.str "ignore"] => pure SDesc.ignore
  | [.str "route"] => pure SDesc.ignore
  | [.str "route", .str "late"] => pure SDesc.ignore
  | [.str "err_map", v] => do pure (SDesc.errMap (← decVal v))
  | [.str "err_map_name"] => pure SDesc.errMapName
  | [.str "group_by", f, p] => do pure (SDesc.groupBy (← decFn1 f) (← decPipe p))
  | [.str "roll", w, s, p] => do
      let w ← getNat w
      let s ← getNat s
      if w = 0 ∨ s = 0 then throw "bad-case: roll"
      pure (SDesc.roll w s (← decPipe p))
  | [.str "split", f, p] => do pure (SDesc.split (← decFn1 f) (← decPipe p))
  | [.str "time_split", cfg, p] => do
      let tm ← decFn1 (← field cfg "time")
      let active ← decOptInt (fieldD cfg "active" .null)
      let inactive ← decOptInt (fieldD cfg "inactive" .null)
      let closing ← match fieldD cfg "closing" .null with
        | .null => pure none
        | c => do pure (some (← decFn1 c))
      let incl ← getBool (fieldD cfg "include" (.bool true))
      pure (SDesc.timeSplit tm active inactive closing incl (← decPipe p))
  | [.str "tee", mode, bs] => do
      pure (SDesc.tee (← decJoin mode) (← (← getArr bs).mapM decPipe))
  | _ => throw s!"bad-case: stage {j.compress}"
partial def decPipe (j : Json) : Except String (List SDesc) := do
  (← getArr j).mapM decStage
end

/-! ## commands -/

def encChunks (cs : List (List (LOut Val))) : Json := jarr (cs.map fun c => jarr (c.map encOut))
def encEvChunks (cs : List (List (Ev Val))) : Json := jarr (cs.map fun c => jarr (c.map encEv))

/-- {"cmd":"mux","pipe":P,"items":[…]} → L1 chunks (subscription, items…, completion), L2 chunks -/
def cmdMux (j : Json) : Except String Json := do
  let P := descsToPipe (← decPipe (← field j "pipe"))
  let xs ← (← getArr (← field j "items")).mapM decVal
  let l1 := runMultiplex P xs
  let l2 := truncChunks (((refLift P.loc).run (rootTrace xs)).map demuxTop)
  let wantB ← getBool (fieldD j "bounds" (.bool false))
  let b := if wantB then
      jobj ((P.bounds "" 0 (rootTrace xs)).map fun p => (p.1, jarr (p.2.map encEv)))
    else .null
  pure <| jobj [("l1", encChunks l1), ("l2", encChunks l2), ("bounds", b)]

/-- {"cmd":"muxtrace","pipe":P,"trace":[ev…]} → raw mux chunks of L1 and of the keyed reference -/
def cmdMuxTrace (j : Json) : Except String Json := do
  let P := descsToPipe (← decPipe (← field j "pipe"))
  let t ← (← getArr (← field j "trace")).mapM decEv
  let l1 := P.mux.run t
  let l2 := (refLift P.loc).run t
  let wantB ← getBool (fieldD j "bounds" (.bool false))
  let b := if wantB then
      jobj ((P.bounds "" 0 t).map fun p => (p.1, jarr (p.2.map encEv)))
    else .null
  pure <| jobj [("l1", encEvChunks l1), ("l2", encEvChunks l2), ("wf", .bool (wfFrom [] t)), ("bounds", b)]

/-- {"cmd":"plain","pipe":P,"items":[…]} → per-item chunks and completion chunk of the plain path -/
def cmdPlain (j : Json) : Except String Json := do
  let P := descsToPipe (← decPipe (← field j "pipe"))
  let xs ← (← getArr (← field j "items")).mapM decVal
  match P.plain with
  | none => pure <| jobj [("plain", .null)]
  | some Q =>
    let r := Q.run xs
    let cs := truncChunks (r.1 ++ [r.2])
    pure <| jobj [("plain", encChunks cs)]

/-- {"cmd":"local","pipe":P,"items":[…]} → L2 on one lifetime: per-item chunks and completion chunk -/
def cmdLocal (j : Json) : Except String Json := do
  let P := descsToPipe (← decPipe (← field j "pipe"))
  let xs ← (← getArr (← field j "items")).mapM decVal
  let r := P.loc.runL P.loc.init xs
  pure <| jobj [("local", encChunks (r.1 ++ [r.2]))]

/-- {"cmd":"wf","trace":[ev…]} → the protocol monitor of the model -/
def cmdWf (j : Json) : Except String Json := do
  let t ← (← getArr (← field j "trace")).mapM decEv
  pure <| jobj [("wf", .bool (wfFrom [] t)), ("closed", .bool (wfLive [] t == some []))]

/-- {"cmd":"sort","items":[v…],"key":fn1|null,"reverse":b}: items are tagged pairs (value, position) -/
def cmdSort (j : Json) : Except String Json := do
  let xs ← (← getArr (← field j "items")).mapM decVal
  let key ← decOptFn1 (fieldD j "key" .null)
  let rev ← getBool (← field j "reverse")
  let tagged := xs.zipIdx.map fun p => Val.tup [p.1, .int p.2]
  let kf : Val → Val := fun p => total1 key (p.nth 0)
  let lt : Val → Val → Bool := fun a b => match Val.lt a b with | .ok r => r | .error _ => false
  pure <| jobj [("out", jarr ((sortBy kf lt rev tagged).map fun v => jobj [("l", jarr ((v.elems.getD []).map encVal))]))]

end Drv

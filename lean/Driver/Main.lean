import Driver.Json
import Driver.Framing
import Driver.Mux
import Driver.Store
import Driver.Codec
import Driver.Compress
import Driver.Csv
import Driver.Parquet
open Lean Drv

def dispatch (cmd : String) (j : Json) : Except String Json :=
  match cmd with
  | "line_unframe" => cmdLineUnframe j
  | "line_frame" => cmdLineFrame j
  | "lp_unframe" => cmdLpUnframe j
  | "lp_frame" => cmdLpFrame j
  | "mux" => cmdMux j
  | "muxtrace" => cmdMuxTrace j
  | "plain" => cmdPlain j
  | "local" => cmdLocal j
  | "wf" => cmdWf j
  | "sort" => cmdSort j
  | "store" => cmdStore j
  | "encode" => cmdEncode j
  | "decode" => cmdDecode j
  | "json_read" => cmdJsonRead j
  | "z_wrap" => cmdZWrap j
  | "csv_dump" => cmdCsvDump j
  | "csv_parse" => cmdCsvParse j
  | "parquet" => cmdParquet j
  | _ => throw "bad-case"

def handleLine (line : String) : String :=
  match Json.parse line with
  | .error _ => "{\"error\":\"bad-case\"}"
  | .ok j =>
    match j.getObjVal? "cmd" with
    | .ok (.str cmd) =>
      match dispatch cmd j with
      | .ok r => r.compress
      | .error e => (Json.mkObj [("error", Json.str e)]).compress
    | _ => "{\"error\":\"bad-case\"}"

partial def loop (hin : IO.FS.Stream) (hout : IO.FS.Stream) : IO Unit := do
  let line ← hin.getLine
  if line.isEmpty then return ()
  let l := line.trimAscii.toString
  if l.isEmpty then loop hin hout else
  hout.putStrLn (handleLine l)
  loop hin hout

def main : IO Unit := do
  let hin ← IO.getStdin
  let hout ← IO.getStdout
  loop hin hout
  hout.flush

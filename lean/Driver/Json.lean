import Lean.Data.Json
/-! JSON helpers for the line-protocol driver. -/
open Lean

namespace Drv

def jstr (s : String) : Json := Json.str s
def jnat (n : Nat) : Json := Json.num (JsonNumber.fromNat n)
def jint (n : Int) : Json := Json.num (JsonNumber.fromInt n)
def jarr (l : List Json) : Json := Json.arr l.toArray
def jobj (l : List (String × Json)) : Json := Json.mkObj l

def getArr (j : Json) : Except String (List Json) :=
  match j with
  | .arr a => pure a.toList
  | _ => throw "expected array"

def getNat (j : Json) : Except String Nat :=
  match j.getNat? with
  | .ok n => pure n
  | .error e => throw e

def getInt (j : Json) : Except String Int :=
  match j.getInt? with
  | .ok n => pure n
  | .error e => throw e

def getStr (j : Json) : Except String String :=
  match j.getStr? with
  | .ok n => pure n
  | .error e => throw e

def getBool (j : Json) : Except String Bool :=
  match j.getBool? with
  | .ok n => pure n
  | .error e => throw e

def field (j : Json) (k : String) : Except String Json :=
  match j.getObjVal? k with
  | .ok v => pure v
  | .error e => throw e

def fieldD (j : Json) (k : String) (d : Json) : Json :=
  match j.getObjVal? k with
  | .ok v => v
  | .error _ => d

def natList (j : Json) : Except String (List Nat) := do
  (← getArr j).mapM getNat

def chars (s : String) : List Char := s.toList
def ofChars (l : List Char) : String := String.ofList l

end Drv

import Driver.Mux
import RxModel.Store
open Lean Drv Rx

namespace Drv

def decDType (j : Json) : Except String DType :=
  match j with
  | .str "int" => pure .int | .str "uint" => pure .uint | .str "float" => pure .float
  | .str "bool" => pure .bool | .str "obj" => pure .obj | .str "mapper" => pure .mapper
  | _ => throw "bad-case: dtype"

def decSOp (j : Json) : Except String SOp := do
  let a ← getArr j
  match a with
  | [.str "add_key", k] => pure (.addKey (← decKey k))
  | [.str "del_key", k] => pure (.delKey (← decKey k))
  | [.str "set", k, v] => pure (.set (← decKey k) (← decVal v))
  | [.str "get", k] => pure (.get (← decKey k))
  | [.str "is_set", k] => pure (.isSet (← decKey k))
  | [.str "is_cleared", k] => pure (.isCleared (← decKey k))
  | [.str "iterate"] => pure .iterate
  | [.str "add_map", k, g] => pure (.addMap (← decKey k) (← decVal g))
  | [.str "get_map", k, g] => pure (.getMap (← decKey k) (← decVal g))
  | [.str "iterate_map", k] => pure (.iterateMap (← decKey k))
  | _ => throw "bad-case: store op"

def encSRes (r : SRes) : Json :=
  match r with
  | .unit => jstr "ok"
  | .val v => jobj [("v", encVal v)]
  | .notset => jstr "NotSet"
  | .bool b => .bool b
  | .idx i => jobj [("idx", jnat i)]
  | .exc e => jobj [("exc", jstr e)]
  | .dump l => jobj [("dump", jarr (l.map fun p =>
      jarr [match p.1 with | some k => encKey k | none => .null, encVal p.2.1, .bool p.2.2]))]
  | .keysOf l => jobj [("keys", jarr (l.map encVal))]

/-- {"cmd":"store","dtype":…,"default":v|null,"ops":[…]} → {"res":[…]} -/
def cmdStore (j : Json) : Except String Json := do
  let dt ← decDType (← field j "dtype")
  let d ← match fieldD j "default" .null with
    | .null => pure none
    | v => do pure (some (← decVal v))
  let ops ← (← getArr (← field j "ops")).mapM decSOp
  pure <| jobj [("res", jarr (((MemStore.new dt d).run ops).map encSRes))]

end Drv

import Driver.Json
import RxModel.Csv
open Lean Drv Rx

namespace Drv

def decCsvField (j : Json) : Except String CsvField :=
  match j with
  | .null => pure .none
  | .bool b => pure (.bool b)
  | .num n => if n.exponent = 0 then pure (.int n.mantissa) else throw "bad-case: csv number"
  | .str s => pure (.str s.toList)
  | _ => match j.getObjVal? "float" with
    | .ok (.str t) => pure (.float t.toList)
    | _ => throw "bad-case: csv field"

def encCsvField (f : CsvField) : Json :=
  match f with
  | .none => .null
  | .bool b => .bool b
  | .int i => jint i
  | .str s => jstr (String.ofList s)
  | .float t => jobj [("float", jstr (String.ofList t))]

def decCsvType (j : Json) : Except String CsvType :=
  match j with
  | .str "int" => pure .int | .str "float" => pure .float | .str "bool" => pure .bool | .str "str" => pure .str
  | _ => throw "bad-case: csv type"

/-- {"cmd":"csv_dump","sep":s,"esc":c,"rows":[[field…]…]} → {"lines":[str…]} -/
def cmdCsvDump (j : Json) : Except String Json := do
  let sep ← getStr (← field j "sep")
  let esc ← getStr (← field j "esc")
  let rows ← (← getArr (← field j "rows")).mapM fun r => do (← getArr r).mapM decCsvField
  match esc.toList with
  | [e] => pure <| jobj [("lines", jarr (rows.map fun r => jstr (String.ofList (dumpRow sep.toList e r))))]
  | _ => throw "bad-case: escapechar"

/-- {"cmd":"csv_parse","sep":s,"esc":c,"types":[…],"lines":[str…]} → {"rows":[[field…]|{"exc":…}…]} -/
def cmdCsvParse (j : Json) : Except String Json := do
  let sep ← getStr (← field j "sep")
  let esc ← getStr (← field j "esc")
  let types ← (← getArr (← field j "types")).mapM decCsvType
  let lines ← (← getArr (← field j "lines")).mapM getStr
  match esc.toList with
  | [e] =>
    pure <| jobj [("rows", jarr (lines.map fun l =>
      match parseLine sep.toList e types l.toList with
      | .ok fs => jarr (fs.map encCsvField)
      | .error x => jobj [("exc", jstr x)]))]
  | _ => throw "bad-case: escapechar"

end Drv

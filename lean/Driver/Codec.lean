import Driver.Json
import RxModel.Codec
import RxModel.Json
open Lean Drv Rx

namespace Drv

def decEnc (j : Json) : Except String Enc :=
  match j with
  | .str "utf8" => pure .utf8 | .str "utf-8" => pure .utf8 | .str "utf-16" => pure .utf16
  | .str "utf-32" => pure .utf32 | .str "latin-1" => pure .latin1
  | _ => throw "bad-case: encoding"

def cps (s : String) : List Nat := s.toList.map Char.toNat
def ofCps (l : List Nat) : String := String.ofList (l.map fun n => Char.ofNat n)

/-- {"cmd":"encode","enc":e,"items":[str…]} → {"out":[[byte…]…]} (last entry = final flush) -/
def cmdEncode (j : Json) : Except String Json := do
  let e ← decEnc (← field j "enc")
  let ss ← (← getArr (← field j "items")).mapM getStr
  if ss.any (fun s => (cps s).any (fun c => !e.ok c)) then
    pure <| jobj [("exc", jstr "UnicodeEncodeError")]
  else
    pure <| jobj [("out", jarr ((encodeRun e false (ss.map cps)).map fun b => jarr (b.map jnat)))]

/-- {"cmd":"decode","enc":e,"chunks":[[byte…]…]} → {"out":[str…]} | {"exc":name} -/
def cmdDecode (j : Json) : Except String Json := do
  let e ← decEnc (← field j "enc")
  let cs ← (← getArr (← field j "chunks")).mapM natList
  match decodeRun e (decInit e) cs with
  | .ok out => pure <| jobj [("out", jarr (out.map fun s => jstr (ofCps s)))]
  | .error x => pure <| jobj [("exc", jstr x)]

/-- {"cmd":"json_read","chunks":[[byte…]…]} → {"lines":[str…]} | {"exc":name} -/
def cmdJsonRead (j : Json) : Except String Json := do
  let cs ← (← getArr (← field j "chunks")).mapM natList
  match jsonReadLines cs with
  | .ok ls => pure <| jobj [("lines", jarr (ls.map fun l => jstr (ofCps l)))]
  | .error x => pure <| jobj [("exc", jstr x)]

end Drv

import Driver.Json
import RxModel.Compress
open Lean Drv Rx

namespace Drv

def decStepRes (j : Json) : Except String (Except String Bytes) :=
  match j.getObjVal? "exc" with
  | .ok (.str e) => pure (.error e)
  | _ => do pure (.ok (← natList (← field j "out")))

/-- a codec that replays the transcript recorded from the real library objects -/
def scripted (steps : List (Except String Bytes)) (flush : Except String Bytes) (eof : Bool) : StreamCodec where
  C := Nat
  D := Nat
  cinit := 0
  compress := fun i _ => match steps[i]? with | some (.ok b) => .ok (i + 1, b) | some (.error e) => .error e | none => .error "script-exhausted"
  cflush := fun _ => flush
  dinit := 0
  decompress := fun i _ => match steps[i]? with | some (.ok b) => .ok (i + 1, b) | some (.error e) => .error e | none => .error "script-exhausted"
  eof := fun _ => eof
  dflush := fun _ => flush

def encWEv (e : WEv) : Json :=
  match e with
  | .next b => jobj [("next", jarr (b.map jnat))]
  | .error x => jobj [("error", jstr x)]
  | .completed => jstr "completed"

/-- {"cmd":"z_wrap","mode":"compress"|"decompress","skip_empty":b,"chunks":[[…]…],"steps":[…],"flush":…,"eof":b} -/
def cmdZWrap (j : Json) : Except String Json := do
  let mode ← getStr (← field j "mode")
  let chunks ← (← getArr (← field j "chunks")).mapM natList
  let steps ← (← getArr (← field j "steps")).mapM decStepRes
  let flush ← decStepRes (← field j "flush")
  let eof ← getBool (fieldD j "eof" (.bool true))
  let skip ← getBool (fieldD j "skip_empty" (.bool false))
  let K := scripted steps flush eof
  let evs := if mode = "compress" then compressRun K K.cinit chunks else decompressRun K skip K.dinit chunks
  pure <| jobj [("events", jarr (evs.map encWEv))]

end Drv

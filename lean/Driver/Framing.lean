import Driver.Json
import RxModel.Framing
open Lean Drv Rx

namespace Drv

/-- {"cmd":"line_unframe","chunks":[str…]} → {"steps":[[str…]…],"fin":[str…]} -/
def cmdLineUnframe (j : Json) : Except String Json := do
  let cs ← (← getArr (← field j "chunks")).mapM getStr
  let r := lineRun [] (cs.map chars)
  pure <| jobj [("steps", jarr (r.1.map fun l => jarr (l.map fun s => jstr (ofChars s)))),
                ("fin", jarr (r.2.map fun s => jstr (ofChars s)))]

/-- {"cmd":"line_frame","items":[str…]} -/
def cmdLineFrame (j : Json) : Except String Json := do
  let cs ← (← getArr (← field j "items")).mapM getStr
  pure <| jobj [("out", jarr (cs.map fun s => jstr (ofChars (lineFrame (chars s)))))]

/-- {"cmd":"lp_unframe","p":n,"big":b,"chunks":[[byte…]…]} → {"steps":[[[byte…]…]…],"carry":[byte…]} -/
def cmdLpUnframe (j : Json) : Except String Json := do
  let p ← getNat (← field j "p")
  let big ← getBool (← field j "big")
  let cs ← (← getArr (← field j "chunks")).mapM natList
  if p = 0 then throw "bad-case"
  let r := lpRun big p [] cs
  pure <| jobj [("steps", jarr (r.1.map fun l => jarr (l.map fun s => jarr (s.map jnat)))),
                ("carry", jarr (r.2.map jnat))]

/-- {"cmd":"lp_frame","p":n,"big":b,"items":[[byte…]…]} → {"out":[[byte…]|null …]} -/
def cmdLpFrame (j : Json) : Except String Json := do
  let p ← getNat (← field j "p")
  let big ← getBool (← field j "big")
  let cs ← (← getArr (← field j "items")).mapM natList
  pure <| jobj [("out", jarr (cs.map fun s => match lpFrame big p s with
      | some f => jarr (f.map jnat) | none => Json.null))]

end Drv

import RxModel.PyAlg
/-!
# The effects a multiplexed operator's `on_next(i)` handler has, as a monad

`harness/pygen.py` also translates the event handlers of the store-based multiplexed operators
(`scan_mux`, `first_mux`, `take_mux`, `last_mux`): the `if type(i) is rs.OnNextMux … elif …` chain becomes a `match`
on the event, `i.store.get_state / set_state / add_key / del_key` become operations on the slot arrays of the
operator's states, `observer.on_next(…)` appends to the list of emitted events, and `try … except Exception as e`
becomes `try … catch` — in `ExceptT Err (StateM _)`, so that, as in Python, effects performed before an exception
was raised persist.

A slot is `none` (CLEARED: never added or deleted), `some none` (added, NOTSET) or `some (some v)` (SET).  Reading a
CLEARED slot is outside the domain (the code returns whatever the array holds): here it raises.
-/
namespace Rx

abbrev Slot (V : Type) := Option (Option V)

structure HSt (V : Type) where
  /-- state id (order of `create_state` calls) → slot index (`key[0]`) → slot -/
  stores : Nat → Nat → Slot V
  /-- events passed to `observer.on_next` / `observer.on_error` so far, oldest first -/
  out : List (Ev V)
  /-- events passed to `outer_observer.on_next` (the path around the inner pipeline of a splitter) so far -/
  outer : List (Ev V) := []
  /-- mapper states (`create_mapper`): state id → slot index → insertion-ordered dict map_key → group index (`none` = CLEARED) -/
  maps : Nat → Nat → Option (List (V × Nat)) := fun _ _ => none
  /-- `next_index` of the mapper store (`free_slots` is never filled by the code) -/
  nextIndex : Nat := 0
  /-- the two Python lists the multiplexed join of `tee_map` keeps in its closure: `queue` (items, `None` when empty) … -/
  jq : List V := []
  /-- … and `has_next` (an `array('B')` of flags) -/
  jh : List Bool := []

abbrev HM (V : Type) := ExceptT Err (StateM (HSt V))

namespace HM
variable {V : Type}

def updSlot (f : Nat → Nat → Slot V) (sid i : Nat) (s : Slot V) : Nat → Nat → Slot V :=
  fun sid' i' => if sid' = sid ∧ i' = i then s else f sid' i'

/-- `i.store.get_state(state, i.key)`: `none` is the marker STATE_NOTSET -/
def getState (sid : Nat) (k : Key) : HM V (Option V) := do
  let s ← get
  match s.stores sid k.idx with
  | some m => pure m
  | none => throw "ClearedSlot"

/-- `i.store.set_state(state, i.key, v)` -/
def setState (sid : Nat) (k : Key) (v : V) : HM V Unit :=
  modify fun s => { s with stores := updSlot s.stores sid k.idx (some (some v)) }

/-- `i.store.add_key(state, i.key)`: NOTSET, or the state's declared default value -/
def addKey (sid : Nat) (k : Key) (default : Option V) : HM V Unit :=
  modify fun s => { s with stores := updSlot s.stores sid k.idx (some default) }

/-- `i.store.del_key(state, i.key)` -/
def delKey (sid : Nat) (k : Key) : HM V Unit :=
  modify fun s => { s with stores := updSlot s.stores sid k.idx none }

/-- `observer.on_next(event)` / `observer.on_error(e)` (as `Ev.fatal`) -/
def emit (e : Ev V) : HM V Unit :=
  modify fun s => { s with out := s.out ++ [e] }

/-- `outer_observer.on_next(event)` -/
def emitOuter (e : Ev V) : HM V Unit :=
  modify fun s => { s with outer := s.outer ++ [e] }

def updMap (f : Nat → Nat → Option (List (V × Nat))) (sid i : Nat) (m : Option (List (V × Nat))) :
    Nat → Nat → Option (List (V × Nat)) :=
  fun sid' i' => if sid' = sid ∧ i' = i then m else f sid' i'

/-- `add_key` on a mapper state: an empty dict -/
def addKeyMap (sid : Nat) (k : Key) : HM V Unit :=
  modify fun s => { s with maps := updMap s.maps sid k.idx (some []) }

/-- `del_key` on a mapper state -/
def delKeyMap (sid : Nat) (k : Key) : HM V Unit :=
  modify fun s => { s with maps := updMap s.maps sid k.idx none }

/-- `i.store.get_map(state, key, map_key)`: `none` is STATE_NOTSET -/
def getMap [PyAlg V] (sid : Nat) (k : Key) (mk : V) : HM V (Option Nat) := do
  let s ← get
  match s.maps sid k.idx with
  | some m => pure ((m.find? (fun p => PyAlg.eq p.1 mk)).map (·.2))
  | none => throw "ClearedSlot"

/-- `i.store.add_map(state, key, map_key)`: the next group index -/
def addMap (sid : Nat) (k : Key) (mk : V) : HM V Nat := do
  let s ← get
  match s.maps sid k.idx with
  | some m =>
    set { s with maps := updMap s.maps sid k.idx (some (m ++ [(mk, s.nextIndex)])), nextIndex := s.nextIndex + 1 }
    pure s.nextIndex
  | none => throw "ClearedSlot"

/-- `i.store.del_map(state, key, map_key)`: a lookup that deletes nothing (rxsci/state/memory_store.py) -/
def delMap (_sid : Nat) (_k : Key) (_mk : V) : HM V Unit := pure ()

/-- `i.store.iterate_map(state, key)`: the mapped keys in insertion order -/
def iterateMap (sid : Nat) (k : Key) : HM V (List V) := do
  let s ← get
  match s.maps sid k.idx with
  | some m => pure (m.map (·.1))
  | none => throw "ClearedSlot"

/-! the lists of `tee_map`'s join: `append`, item assignment (IndexError past the end), slices (never raise) -/
def lenQueue : HM V Nat := do return (← get).jq.length
def queueAppend (v : V) : HM V Unit := modify fun s => { s with jq := s.jq ++ [v] }
def hasAppend (b : Bool) : HM V Unit := modify fun s => { s with jh := s.jh ++ [b] }
def queueSet (i : Nat) (v : V) : HM V Unit := do
  let s ← get
  if i < s.jq.length then set { s with jq := s.jq.set i v } else throw "IndexError"
def hasSet (i : Nat) (b : Bool) : HM V Unit := do
  let s ← get
  if i < s.jh.length then set { s with jh := s.jh.set i b } else throw "IndexError"
/-- `queue[a:b]` -/
def queueSlice (a b : Nat) : HM V (List V) := do return ((← get).jq.take b).drop a
/-- `has_next[a:b]` -/
def hasSlice (a b : Nat) : HM V (List Bool) := do return ((← get).jh.take b).drop a

/-- an int value used as a key component / slot index -/
def toIdx [PyAlg V] (v : V) : HM V Nat := liftM (PyAlg.toNat v)

/-- a group index read with `get_map` used as a key component -/
def unmarkN (m : Option Nat) : HM V Nat :=
  match m with
  | some v => pure v
  | none => throw "NOTSET-used-as-an-index"

/-- a value read with `get_state` used as an ordinary value (the NOTSET marker object is not a value of the model) -/
def unmark (m : Option V) : HM V V :=
  match m with
  | some v => pure v
  | none => throw "NOTSET-used-as-a-value"

/-! containers kept in `obj` states (a `deque` / a `set`), as lists through the `PyAlg` interface; the handlers mutate them in place
(`q.append(x)`, `q.popleft()`, `s.add(k)`): the only references are the slot and a local variable, so the translator writes
the new value back to the slot -/

/-- `q.popleft()` : the deque without its first element -/
def popleft [PyAlg V] (q : V) : Except Err V := do
  let l ← PyAlg.elems q
  match l with
  | [] => throw "IndexError"
  | _ :: r => pure (PyAlg.lst r)

/-- `k in s` -/
def contains [PyAlg V] (s k : V) : Except Err Bool := do
  let l ← PyAlg.elems s
  pure (l.any (fun x => PyAlg.eq x k))

/-- `s.add(k)` (newest first, as the model keeps its list of seen keys) -/
def setAdd [PyAlg V] (s k : V) : Except Err V := do
  let l ← PyAlg.elems s
  pure (PyAlg.lst (k :: l))

/-- run a handler on a store, from an empty output list: the exception that escaped (if any), the store, the emitted events -/
def runH (m : HM V Unit) (stores : Nat → Nat → Slot V) : Except Err Unit × (Nat → Nat → Slot V) × List (Ev V) :=
  let r := (ExceptT.run m).run { stores := stores, out := [] }
  (r.1, r.2.stores, r.2.out)

/-- the same for a splitter: additionally the events sent around the inner pipeline -/
def runH2 (m : HM V Unit) (stores : Nat → Nat → Slot V) :
    Except Err Unit × (Nat → Nat → Slot V) × List (Ev V) × List (Ev V) :=
  let r := (ExceptT.run m).run { stores := stores, out := [] }
  (r.1, r.2.stores, r.2.out, r.2.outer)

/-- the same for a splitter that keeps a mapper state (group_by): the dicts and the index counter in, and out -/
def runHM (m : HM V Unit) (maps : Nat → Nat → Option (List (V × Nat))) (next : Nat) :
    Except Err Unit × (Nat → Nat → Option (List (V × Nat))) × Nat × List (Ev V) × List (Ev V) :=
  let r := (ExceptT.run m).run { stores := fun _ _ => none, out := [], maps := maps, nextIndex := next }
  (r.1, r.2.maps, r.2.nextIndex, r.2.out, r.2.outer)

end HM
/-! ## plain (non-multiplexed) operators written by hand in rxsci: `on_next(i)` / `on_completed()` closures over `nonlocal`
variables of `on_subscribe` -/

structure PSt (V : Type) where
  /-- the `nonlocal` variables of the closure, numbered in the order `on_subscribe` initialises them -/
  vars : Nat → V
  /-- `observer.on_next(v)` so far, oldest first -/
  out : List V := []
  /-- `observer.on_completed()` was called -/
  completed : Bool := false
  /-- `observer.on_error(e)` was called (the first one) -/
  failed : Option Err := none
  /-- the lists `queue`, `has_next`, `is_done` of the plain `tee_map` join (`_process_many.subscribe`), mutated in place -/
  jq : List V := []
  jh : List Bool := []
  jd : List Bool := []

/-- an exception escaping `on_next` / `on_completed` is RxPY's business (it ends the subscription with `on_error`): here it is
the `Except` result, with the effects performed before it kept -/
abbrev PM (V : Type) := ExceptT Err (StateM (PSt V))

namespace PM
variable {V : Type}
def getVar (k : Nat) : PM V V := do return (← get).vars k
def setVar (k : Nat) (v : V) : PM V Unit :=
  modify fun s => { s with vars := fun j => if j = k then v else s.vars j }
def emit (v : V) : PM V Unit := modify fun s => { s with out := s.out ++ [v] }
def complete : PM V Unit := modify fun s => { s with completed := true }
def fail (e : Err) : PM V Unit := modify fun s => { s with failed := s.failed <|> some e }
/-- `queue[i] = v` / `has_next[i] = b` / `is_done[i] = b` (IndexError past the end) -/
def queueSet (i : Nat) (v : V) : PM V Unit := do
  let s ← get
  if i < s.jq.length then set { s with jq := s.jq.set i v } else throw "IndexError"
def hasSet (i : Nat) (b : Bool) : PM V Unit := do
  let s ← get
  if i < s.jh.length then set { s with jh := s.jh.set i b } else throw "IndexError"
def doneSet (i : Nat) (b : Bool) : PM V Unit := do
  let s ← get
  if i < s.jd.length then set { s with jd := s.jd.set i b } else throw "IndexError"
/-- the lists read as a whole (`all(has_next)`, `tuple(queue)`, `all(is_done)`) -/
def queueAll : PM V (List V) := do return (← get).jq
def hasAll : PM V (List Bool) := do return (← get).jh
def doneAll : PM V (List Bool) := do return (← get).jd
/-- run from given variable values and an empty output -/
def run (m : PM V Unit) (vars : Nat → V) : Except Err Unit × PSt V := (ExceptT.run m).run { vars := vars }
/-- the variable valuation `on_subscribe` starts from -/
def initVars [Inhabited V] (l : List V) : Nat → V := fun k => l.getD k default
end PM

/-! ## the two ends of a multiplexed pipeline on an ordinary observable: `mux_observable` (items → events of the root key `(0,)`)
and `demux_observable` (events → items), rxsci/operators/multiplex.py -/

structure RSt (α : Type) where
  /-- `observer.on_next(x)` so far, oldest first -/
  out : List α := []
  completed : Bool := false
  /-- `observer.on_error(e)` (the first one) -/
  failed : Option Err := none

abbrev RM (α : Type) := ExceptT Err (StateM (RSt α))

namespace RM
variable {α : Type}
def emit (x : α) : RM α Unit := modify fun s => { s with out := s.out ++ [x] }
def complete : RM α Unit := modify fun s => { s with completed := true }
def fail (e : Err) : RM α Unit := modify fun s => { s with failed := s.failed <|> some e }
def run {β} (m : RM α β) (s : RSt α) : Except Err β × RSt α := (ExceptT.run m).run s
end RM

end Rx

import RxModel.Pipeline
/-!
# L2 descriptions of the five splitters: one parent lifetime, locally numbered inner lifetimes
-/
namespace Rx

def splitLS {α κ} [DecidableEq κ] (p : α → κ) : LSplit α where
  τ := Option κ
  init := none
  next := fun s x => match s with
    | none => (some (p x), [.opn 0, .itm 0 x])
    | some c => if p x ≠ c then (some (p x), [.cls 0, .opn 0, .itm 0 x]) else (s, [.itm 0 x])
  fin := fun s => match s with | some _ => [.cls 0] | none => []

def timeSplitLS {α} (c : TsCfg α) : LSplit α where
  τ := Option (Int × Int)
  init := none
  next := fun cur x =>
    let t := c.time x
    let (start, last, pre) := match cur with
      | none => (t, t, [Cmd.opn 0])
      | some (s, l) => (s, l, [])
    if tsExpired c start last t then (some (t, t), pre ++ [.cls 0, .opn 0, .itm 0 x])
    else if (match c.closing with | some f => f x | none => false) then
      if c.incl then (some (t, t), pre ++ [.itm 0 x, .cls 0, .opn 0])
      else (some (t, t), pre ++ [.cls 0, .opn 0, .itm 0 x])
    else (some (start, t), pre ++ [.itm 0 x])
  fin := fun s => match s with | some _ => [.cls 0] | none => []

def rollCountLS {α} (w : Nat) : LSplit α where
  τ := Nat
  init := 0
  next := fun c x =>
    let pre := if c = 0 then [Cmd.opn 0] else []
    if c + 1 = w then (0, pre ++ [.itm 0 x, .cls 0]) else (c + 1, pre ++ [.itm 0 x])
  fin := fun c => if c > 0 then [.cls 0] else []

/-- ring slots by offset; local id of a window = its ring offset -/
def lsDeliver {α} (w d : Nat) (x : α) (n : Nat) : Nat → (Nat → Option Nat) → (Nat → Option Nat) × List (Cmd α)
  | 0, ws => (ws, [])
  | o+1, ws =>
    let off := d - (o + 1)
    match ws off with
    | some n0 =>
      if n - n0 + 1 = w then
        let r := lsDeliver w d x n o (upd ws off none)
        (r.1, [Cmd.itm off x, Cmd.cls off] ++ r.2)
      else
        let r := lsDeliver w d x n o ws
        (r.1, [Cmd.itm off x] ++ r.2)
    | none => lsDeliver w d x n o ws

/-- flush at completion: open windows in OPENING order (oldest first) -/
def lsFlush {α} (d first : Nat) (ws : Nat → Option Nat) : List (Cmd α) :=
  ((List.range d).map (fun o => (first + o) % d)).filterMap fun off =>
    match ws off with | some _ => some (Cmd.cls off) | none => none

def rollRingLS {α} (w s : Nat) : LSplit α where
  τ := Nat × (Nat → Option Nat)
  init := (0, fun _ => none)
  next := fun st x =>
    let d := density w s
    let n := st.1
    let (ws1, pre) :=
      if n % s = 0 then (upd st.2 ((n / s) % d) (some n), [Cmd.opn ((n / s) % d)]) else (st.2, [])
    let r := lsDeliver w d x n d ws1
    ((n + 1, r.1), pre ++ r.2)
  fin := fun st =>
    let d := density w s
    lsFlush d (((st.1 + s - 1) / s) % d) st.2

def rollLS {α} (w s : Nat) : LSplit α := if w = s then rollCountLS w else rollRingLS w s

def groupByLS {α κ} [DecidableEq κ] (f : α → κ) : LSplit α where
  τ := List (κ × Nat)
  init := []
  next := fun m x =>
    match gbLookup m (f x) with
    | some j => (m, [.itm j x])
    | none => let j := m.length; (m ++ [(f x, j)], [.opn j, .itm j x])
  fin := fun m => m.map fun p => Cmd.cls p.2

end Rx

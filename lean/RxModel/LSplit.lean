import RxModel.Pipeline
/-!
# L2 descriptions of the five splitters: one parent lifetime, locally numbered inner lifetimes
-/
namespace Rx

def splitLS {α κ} [DecidableEq κ] (p : α → κ) : LSplit α where
  τ := Option κ
  init := none
  next := fun s x => match s with
    | none => (some (p x), [.opn 0, .itm 0 x])
    | some c => if p x ≠ c then (some (p x), [.cls 0, .opn 0, .itm 0 x]) else (s, [.itm 0 x])
  fin := fun s => match s with | some _ => [.cls 0] | none => []

def timeSplitLS {α} (c : TsCfg α) : LSplit α where
  τ := Option (Int × Int)
  init := none
  next := fun cur x =>
    let t := c.time x
    let (start, last, pre) := match cur with
      | none => (t, t, [Cmd.opn 0])
      | some (s, l) => (s, l, [])
    if tsExpired c start last t then (some (t, t), pre ++ [.cls 0, .opn 0, .itm 0 x])
    else if c.closes x then
      if c.incl then (some (t, t), pre ++ [.itm 0 x, .cls 0, .opn 0])
      else (some (t, t), pre ++ [.cls 0, .opn 0, .itm 0 x])
    else (some (start, t), pre ++ [.itm 0 x])
  fin := fun s => match s with | some _ => [.cls 0] | none => []

def rollCountLS {α} (w : Nat) : LSplit α where
  τ := Nat
  init := 0
  next := fun c x =>
    let pre := if c = 0 then [Cmd.opn 0] else []
    if c + 1 = w then (0, pre ++ [.itm 0 x, .cls 0]) else (c + 1, pre ++ [.itm 0 x])
  fin := fun c => if c > 0 then [.cls 0] else []

abbrev Slots := Nat → Option Nat

/-- the `for offset in range(density)` loop of `_roll.on_next`, `f` iterations left, at offset `o`:
deliver the item to every open window, close the ones that are now full.
A slot holds the index `n0` of the first item of its window. -/
def deliver {α} (w n : Nat) (x : α) : (f o : Nat) → Slots → Slots × List (Cmd α)
  | 0, _, sl => (sl, [])
  | f+1, o, sl =>
    match sl o with
    | some n0 =>
      if n - n0 + 1 = w then
        let r := deliver w n x f (o+1) (upd sl o none)
        (r.1, .itm o x :: .cls o :: r.2)
      else
        let r := deliver w n x f (o+1) sl
        (r.1, .itm o x :: r.2)
    | none => deliver w n x f (o+1) sl

/-- `if (n % stride) == 0:` a window is opened in ring slot `(n // stride) % density` -/
def openSlot {α} (s d n : Nat) (sl : Slots) : Slots × List (Cmd α) :=
  if n % s = 0 then (upd sl ((n / s) % d) (some n), [.opn ((n / s) % d)]) else (sl, [])

/-- one item of one parent key; state = (items seen, ring) -/
def rollItem {α} (w s d : Nat) (st : Nat × Slots) (x : α) : (Nat × Slots) × List (Cmd α) :=
  let r1 := openSlot (α := α) s d st.1 st.2
  let r2 := deliver w st.1 x d 0 r1.1
  ((st.1 + 1, r2.1), r1.2 ++ r2.2)

/-- flush at completion: the open windows, oldest first (ring walked from the slot after the last
opened window) -/
def lsFlush {α} (d first : Nat) (ws : Slots) : List (Cmd α) :=
  ((List.range d).map (fun o => (first + o) % d)).filterMap fun off =>
    match ws off with | some _ => some (Cmd.cls off) | none => none

def rollRingLS {α} (w s : Nat) : LSplit α where
  τ := Nat × Slots
  init := (0, fun _ => none)
  next := rollItem w s (density w s)
  fin := fun st =>
    let d := density w s
    lsFlush d (((st.1 + s - 1) / s) % d) st.2

def rollLS {α} (w s : Nat) : LSplit α := if w = s then rollCountLS w else rollRingLS w s

def gbNext {α κ : Type} [DecidableEq κ] (f : α → κ) (m : List (κ × Nat)) (x : α) : List (κ × Nat) × List (Cmd α) :=
  match gbLookup m (f x) with
  | some j => (m, [.itm j x])
  | none => (m ++ [(f x, m.length)], [.opn m.length, .itm m.length x])

def gbFin {α κ : Type} (m : List (κ × Nat)) : List (Cmd α) := m.map fun p => Cmd.cls p.2

def groupByLS {α κ : Type} [DecidableEq κ] (f : α → κ) : LSplit α where
  τ := List (κ × Nat)
  init := []
  next := gbNext f
  fin := gbFin

end Rx

import RxModel.Compress
import RxModel.Event
/-!
# The closures of rxsci/compression/{z,zstd}.py: effects on the library object they hold and on the observer

`harness/pygen.py` (`CodecTranslator`) translates `on_next(i)` / `on_completed()` of `compress()` and `decompress()` into the
monad `CM`, over an abstract `StreamCodec K`: `compressor.compress(i)` is `K.compress`, `decompressor.eof` is `K.eof`, … — what the
library objects do is not modelled (it is the contract `CodecContract` the theorems of C16 assume).
-/
namespace Rx

/-! the closures of rxsci/compression/{z,zstd}.py over an abstract streaming codec `K` (the library objects are parameters: what
they do is the contract `CodecContract`, not modelled) -/
structure CSt (σ : Type) where
  /-- the library object the closure holds (`compressor` / `decompressor`) -/
  obj : σ
  /-- what the observer has been sent -/
  out : List WEv := []

abbrev CM (σ : Type) := ExceptT Err (StateM (CSt σ))

namespace CM
variable {σ : Type}
/-- a method of the library object that returns bytes and moves the object on (`compress(i)`, `decompress(i)`): its exception is
raised with the object unchanged -/
def call (f : σ → Bytes → Except String (σ × Bytes)) (i : Bytes) : CM σ Bytes := do
  let s ← get
  match f s.obj i with
  | .ok (o, d) => set { s with obj := o }; pure d
  | .error e => throw e
/-- a method that only returns bytes (`flush()`) -/
def call0 (f : σ → Except String Bytes) : CM σ Bytes := do
  match f (← get).obj with
  | .ok d => pure d
  | .error e => throw e
/-- an attribute (`decompressor.eof`) -/
def attr (f : σ → Bool) : CM σ Bool := do return f (← get).obj
def emit (e : WEv) : CM σ Unit := modify fun s => { s with out := s.out ++ [e] }
def run (m : CM σ Unit) (s : CSt σ) : Except Err Unit × CSt σ := (ExceptT.run m).run s
end CM

/-- how a subscription drives the closures: `on_next` for every chunk, then `on_completed`; once the observer has been sent an
error it is stopped (RxPY: nothing is delivered after `on_error`) -/
def driveC {σ} (next : Bytes → CM σ Unit) (fin : CM σ Unit) : List Bytes → CSt σ → List WEv
  | [], s => (CM.run fin s).2.out
  | x :: xs, s =>
    let r := (CM.run (next x) s).2
    if failed r.out then r.out else driveC next fin xs r


end Rx

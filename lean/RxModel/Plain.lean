import RxModel.Ops
import RxModel.Tee
/-!
# The plain-observable path: RxPY built-ins rxsci delegates to, and rxsci's own plain operators

A plain operator is a step machine.  `next` returns the outputs and whether the operator has now
completed (called `on_completed` downstream — `take`, `first` complete early).  `.fatal e` is
`on_error(e)`: the stream ends there.  RxPY itself is *modelled, not verified*.
-/
namespace Rx

structure PlainOp (α β : Type) where
  σ : Type
  init : σ
  /-- outputs at subscription and whether the operator is already completed then
  (`take(0)` is `rx.empty()`; a composition whose head completes at once flushes its tail) -/
  start : List (LOut β) × Bool := ([], false)
  next : σ → α → σ × List (LOut β) × Bool
  fin : σ → List (LOut β)                        -- at source completion; then `on_completed`

/-- a LocalOp that never completes early, used as a plain operator -/
def PlainOp.ofLocal {α β} (L : LocalOp α β) : PlainOp α β :=
  { σ := L.σ, init := L.init, next := fun s x => let r := L.next s x; (r.1, r.2, false), fin := L.fin }

/-- RxPY `ops.map`: a raising mapper is `on_error` -/
def pMap {α β} (f : α → Except Err β) : PlainOp α β :=
  { σ := Unit, init := (), fin := fun _ => [],
    next := fun _ x => ((), (match f x with | .ok y => [.item y] | .error e => [.fatal e]), false) }

/-- RxPY `ops.filter`: Python truthiness of the predicate's result -/
def pFilter {α γ} (p : α → Except Err γ) (truthy : γ → Bool) : PlainOp α α :=
  { σ := Unit, init := (), fin := fun _ => [],
    next := fun _ x => ((), (match p x with
      | .ok r => if truthy r then [.item x] else []
      | .error e => [.fatal e]), false) }

/-- rxsci `flat_map_obs` -/
def pFlatMap {α β} (elems : α → List β) : PlainOp α β :=
  { σ := Unit, init := (), fin := fun _ => [], next := fun _ x => ((), (elems x).map .item, false) }

/-- rxsci `scan_obs`: like `scan_mux` but an accumulator exception is not caught (→ `on_error`) -/
def pScan {α γ} (g : γ → α → Except Err γ) (seed : γ) (reduce : Bool) (term : Option (γ → γ)) : PlainOp α γ :=
  { σ := Option γ, init := none,
    next := fun s x =>
      match g (s.getD seed) x with
      | .ok a => (some a, if reduce then [] else [.item a], false)
      | .error e => (s, [.fatal e], false),
    fin := scanFin seed reduce term }

/-- RxPY `ops.first()`: first item then completion; empty source → error -/
def pFirst {α} : PlainOp α α :=
  { σ := Unit, init := (), next := fun _ x => ((), [.item x], true),
    fin := fun _ => [.fatal "SequenceContainsNoElementsError"] }

/-- RxPY `ops.last()` -/
def pLast {α} : PlainOp α α :=
  { σ := Option α, init := none, next := fun _ x => (some x, [], false),
    fin := fun s => match s with | some v => [.item v] | none => [.fatal "SequenceContainsNoElementsError"] }

/-- RxPY `ops.take(n)`: `take(0)` is `empty()`; otherwise completes with the n-th item -/
def pTake {α} (n : Nat) : PlainOp α α :=
  { σ := Nat, init := n, start := ([], n = 0),
    next := fun c x => if c > 1 then (c - 1, [.item x], false) else (0, [.item x], true),
    fin := fun _ => [] }

/-- RxPY `ops.to_list()` -/
def pToList {α β} (mk : List α → β) : PlainOp α β :=
  { σ := List α, init := [], next := fun s x => (s ++ [x], [], false), fin := fun s => [.item (mk s)] }

/-- rxsci plain `assert_` (an `ops.map` that raises) -/
def pAssert {α} (p : α → Except Err Bool) (errName : Err) : PlainOp α α :=
  { σ := Unit, init := (), fin := fun _ => [],
    next := fun _ x => ((), (match p x with
      | .ok true => [.item x] | .ok false => [.fatal errName] | .error e => [.fatal e]), false) }

/-- rxsci plain `assert_1`: previous item and "has a previous item" flag -/
def pAssert1 {α} (p : α → α → Bool) (errName : Err) : PlainOp α α :=
  { σ := Option α, init := none, fin := fun _ => [],
    next := fun s x =>
      (some x, (match s with
        | some prev => if p prev x then [.item x] else [.fatal errName]
        | none => [.item x]), false) }

/-! ## composition -/

/-- feed outputs of the upstream operator into `P`; stops consuming when `P` completes -/
def feedP {β γ} (P : PlainOp β γ) : P.σ → List (LOut β) → P.σ × List (LOut γ) × Bool
  | s, [] => (s, [], false)
  | s, .item b :: r =>
    let a := P.next s b
    if a.2.2 then (a.1, a.2.1, true)
    else let a2 := feedP P a.1 r; (a2.1, a.2.1 ++ a2.2.1, a2.2.2)
  | s, .err e :: r => let a2 := feedP P s r; (a2.1, .err e :: a2.2.1, a2.2.2)
  | s, .fatal e :: _ => (s, [.fatal e], true)

def compPlain {α β γ} (P1 : PlainOp α β) (P2 : PlainOp β γ) : PlainOp α γ :=
  -- subscription: P2 subscribes to P1; P1's start outputs (and completion) reach P2 at once
  let st2 : P2.σ × List (LOut γ) × Bool :=
    if P2.start.2 then (P2.init, P2.start.1, true)
    else
      let r2 := feedP P2 P2.init P1.start.1
      if r2.2.2 then (r2.1, P2.start.1 ++ r2.2.1, true)
      else if P1.start.2 then (r2.1, P2.start.1 ++ r2.2.1 ++ P2.fin r2.1, true)
      else (r2.1, P2.start.1 ++ r2.2.1, false)
  { σ := P1.σ × P2.σ, init := (P1.init, st2.1),
    start := (st2.2.1, st2.2.2),
    next := fun s x =>
      let r1 := P1.next s.1 x
      let r2 := feedP P2 s.2 r1.2.1
      if r2.2.2 then ((r1.1, r2.1), r2.2.1, true)
      else if r1.2.2 then ((r1.1, r2.1), r2.2.1 ++ P2.fin r2.1, true)
      else ((r1.1, r2.1), r2.2.1, false),
    fin := fun s =>
      let r2 := feedP P2 s.2 (P1.fin s.1)
      if r2.2.2 then r2.2.1 else r2.2.1 ++ P2.fin r2.1 }

def idPlain {α} : PlainOp α α := { σ := Unit, init := (), next := fun _ x => ((), [.item x], false), fin := fun _ => [] }

/-- the operator completed with this step, or signalled an error -/
def stopsP {β} (r : List (LOut β) × Bool) : Bool :=
  r.2 || r.1.any (fun o => match o with | .fatal _ => true | _ => false)

/-- run a plain operator over the items of one sequence: per-item chunks and the completion chunk;
nothing is emitted after completion or after an error -/
def PlainOp.runP {α β} (P : PlainOp α β) : P.σ → List α → List (List (LOut β)) × List (LOut β)
  | s, [] => ([], P.fin s)
  | s, x :: xs =>
    if stopsP (P.next s x).2 then ((P.next s x).2.1 :: xs.map (fun _ => []), [])
    else ((P.next s x).2.1 :: (P.runP (P.next s x).1 xs).1, (P.runP (P.next s x).1 xs).2)

/-- chunks: [subscription] ++ one per item, and the completion chunk -/
def PlainOp.run {α β} (P : PlainOp α β) (xs : List α) : List (List (LOut β)) × List (LOut β) :=
  if stopsP P.start then
    (P.start.1 :: xs.map (fun _ => []), [])
  else let r := P.runP P.init xs; (P.start.1 :: r.1, r.2)

def truncFatal {β} : List (LOut β) → List (LOut β)
  | [] => []
  | .fatal e :: _ => [.fatal e]
  | o :: r => o :: truncFatal r

/-- all outputs of a plain run, cut after the first error -/
def PlainOp.out {α β} (P : PlainOp α β) (xs : List α) : List (LOut β) :=
  let r := P.run xs; truncFatal (r.1.flatten ++ r.2)

/-! ## plain tee_map (`_process_many.subscribe`) -/

structure PJoinSt (β : Type) where
  queue : List (Option β)
  has : List Bool

def pJoinNext {β γ} (mode : Join) (mk : List (Option β) → γ) (inj : β → γ) (st : PJoinSt β) (i : Nat) (x : β) :
    PJoinSt β × List (LOut γ) :=
  match mode with
  | .merge => (st, [.item (inj x)])
  | .zip =>
    let q := st.queue.set i (some x)
    let h := st.has.set i true
    if h.all id then (⟨q, h.map fun _ => false⟩, [.item (mk q)]) else (⟨q, h⟩, [])
  | .combine =>
    let q := st.queue.set i (some x)
    (⟨q, st.has.set i true⟩, [.item (mk q)])

/-- plain branches with their states and "is done" flags -/
inductive PBranches (α β : Type) : Type 1 where
  | nil : PBranches α β
  | cons (P : PlainOp α β) (rest : PBranches α β) : PBranches α β

def PBranches.length {α β} : PBranches α β → Nat
  | .nil => 0
  | .cons _ r => r.length + 1

def PBranches.St {α β} : PBranches α β → Type
  | .nil => Unit
  | .cons P r => (P.σ × Bool) × r.St

def PBranches.init {α β} : (b : PBranches α β) → b.St
  | .nil => ()
  | .cons P r => ((P.init, P.start.2), r.init)

def feedPJoin {β γ} (mode : Join) (mk : List (Option β) → γ) (inj : β → γ) (i : Nat) :
    PJoinSt β → List (LOut β) → PJoinSt β × List (LOut γ)
  | st, [] => (st, [])
  | st, .item x :: r =>
    let a := pJoinNext mode mk inj st i x
    let a2 := feedPJoin mode mk inj i a.1 r
    (a2.1, a.2 ++ a2.2)
  | st, .err e :: r => let a2 := feedPJoin mode mk inj i st r; (a2.1, .err e :: a2.2)
  | st, .fatal e :: _ => (st, [.fatal e])

def PBranches.allDone {α β} : (b : PBranches α β) → b.St → Bool
  | .nil, _ => true
  | .cons _ r, s => s.1.2 && r.allDone s.2

/-- serve every live branch with one source item (or, with `x = none`, with the completion) -/
def PBranches.step {α β γ} (mode : Join) (mk : List (Option β) → γ) (inj : β → γ) :
    (b : PBranches α β) → (i : Nat) → b.St → PJoinSt β → Option α → b.St × PJoinSt β × List (LOut γ)
  | .nil, _, s, j, _ => (s, j, [])
  | .cons P r, i, s, j, x =>
    if s.1.2 then
      let rr := PBranches.step mode mk inj r (i + 1) s.2 j x
      ((s.1, rr.1), rr.2.1, rr.2.2)
    else
      let (s1, outs, fin) := match x with
        | some v => let a := P.next s.1.1 v; (a.1, a.2.1, a.2.2)
        | none => (s.1.1, P.fin s.1.1, true)
      let jj := feedPJoin mode mk inj i j outs
      let rr := PBranches.step mode mk inj r (i + 1) s.2 jj.1 x
      (((s1, fin), rr.1), rr.2.1, jj.2 ++ rr.2.2)

/-- outputs of the branches at subscription, joined in branch order -/
def PBranches.startOuts {α β γ} (mode : Join) (mk : List (Option β) → γ) (inj : β → γ) :
    (b : PBranches α β) → (i : Nat) → PJoinSt β → PJoinSt β × List (LOut γ)
  | .nil, _, j => (j, [])
  | .cons P r, i, j =>
    let jj := feedPJoin mode mk inj i j P.start.1
    let rr := PBranches.startOuts mode mk inj r (i + 1) jj.1
    (rr.1, jj.2 ++ rr.2)

def teePlain {α β γ} (mode : Join) (mk : List (Option β) → γ) (inj : β → γ) (b : PBranches α β) : PlainOp α γ :=
  let j0 : PJoinSt β := ⟨List.replicate b.length none, List.replicate b.length false⟩
  let st := PBranches.startOuts mode mk inj b 0 j0
  { σ := b.St × PJoinSt β,
    init := (b.init, st.1),
    start := (st.2, b.allDone b.init),
    next := fun s x =>
      let r := PBranches.step mode mk inj b 0 s.1 s.2 (some x)
      ((r.1, r.2.1), r.2.2, b.allDone r.1),
    fin := fun s => (PBranches.step mode mk inj b 0 s.1 s.2 none).2.2 }

end Rx

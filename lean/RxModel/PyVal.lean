import RxModel.PyAlg
import RxModel.Derived
/-!
# `Val` as a Python value algebra (the instance at which generated kernels are compared with the
hand-written model), and the interpretation of generated stage lists as model pipelines
-/
namespace Rx

def Val.le (a b : Val) : Except String Bool :=
  match a.toInt?, b.toInt? with
  | some x, some y => .ok (decide (x ≤ y))
  | _, _ =>
    match a.toFloat?, b.toFloat? with
    | some x, some y => .ok (x ≤ y)
    | _, _ => .error "TypeError"

/-- `a ** b` for a non-negative int exponent (the only use in the source: `_moment`) -/
def Val.pow (a b : Val) : Except Err Val :=
  match b with
  | .int (.ofNat n) => D.powV a n
  | _ => .error "unsupported-exponent"

/-- Python `%` and `//` on ints (floor semantics; ZeroDivisionError) -/
def Val.modV (a b : Val) : Except Err Val :=
  match a.toInt?, b.toInt? with
  | some x, some y => if y = 0 then .error "ZeroDivisionError" else .ok (.int (Int.fmod x y))
  | _, _ => .error "TypeError"

def Val.floordivV (a b : Val) : Except Err Val :=
  match a.toInt?, b.toInt? with
  | some x, some y => if y = 0 then .error "ZeroDivisionError" else .ok (.int (Int.fdiv x y))
  | _, _ => .error "TypeError"

def Val.rangeV (a : Val) : Except Err (List Val) :=
  match a with
  | .int n => .ok ((List.range n.toNat).map (fun i => Val.int (i : Nat)))
  | _ => .error "TypeError"

def Val.toNatV (a : Val) : Except Err Nat :=
  match a with
  | .int (.ofNat n) => .ok n
  | .int _ => .error "IndexError"
  | _ => .error "TypeError"

def Val.sumV (v : Val) : Except Err Val := do
  let l ← v.elemsE
  D.pySum l

instance : PyAlg Val where
  none := .none
  bool := .bool
  int := .int
  flit := fun n d => Val.flt (Float.ofInt n / Float.ofNat d)
  tup := Val.tup
  lst := Val.lst
  nth := Val.nth
  isNone := fun v => v == .none
  isTrue := Val.isTrue
  isFalse := fun v => v == .bool false
  truthy := Val.truthy
  eq := fun a b => a == b
  add := Val.add
  sub := Val.sub
  mul := Val.mul
  div := Val.div
  pow := Val.pow
  mod := Val.modV
  floordiv := Val.floordivV
  range := Val.rangeV
  toNat := Val.toNatV
  lt := Val.lt
  le := Val.le
  len := Val.lenV
  elems := Val.elemsE
  append := toListAcc
  sum := Val.sumV
  sqrt := Val.sqrt

end Rx

namespace Rx

/-- a generated stage as a model stage.  `scan`'s terminator is total in the model; the only generated
terminator (`batch._terminate`) never raises on the states `scan` hands it, an error would become `None`. -/
def GStage.toStage : GStage Val → Stage
  | .scan g seed r term => D.scan g seed r (term.map fun t v => match t v with | .ok x => x | .error _ => .none)
  | .map f => D.map f
  | .filter p => D.filter p

/-- the multiplexed side of a generated stage -/
def GStage.localOp : GStage Val → LocalOp Val Val
  | .scan g seed r term => scanOp g seed r (term.map fun t v => match t v with | .ok x => x | .error _ => .none)
  | .map f => mapOp f
  | .filter p => filterOp p Val.truthy

def genPipe (l : List (GStage Val)) : Pipe := Pipe.ofList (l.map GStage.toStage)

end Rx

import RxModel.Val
import RxModel.Event
/-!
# MemoryStore (rxsci/state/memory_store.py): L0, the concrete arrays

`values` / `state` / `keys` are parallel arrays indexed by `key[0]`; `state` holds the markers
NOTSET = 0, SET = 1, CLEARED = 2.  Typed stores (`int` → array('q'), `'uint'` → 'Q', `float` → 'd',
`bool` → 'B') coerce or reject what is written; a rejected write leaves the marker SET and the old
value in place (the assignment to `state` precedes the assignment to `values`).
-/
namespace Rx

inductive Marker where
  | notset | set | cleared
  deriving DecidableEq, Repr

inductive DType where
  | int | uint | float | bool | obj | mapper
  deriving DecidableEq, Repr

/-- the "zero" a freshly grown / deleted slot holds (`values.append(0)`, `values[i] = 0`) -/
def DType.zero : DType → Val
  | .float => Val.flt 0.0
  | _ => .int 0

/-- what the typed array does with an assigned value: the stored value, or the Python exception -/
def DType.coerce : DType → Val → Except Err Val
  | .int, .int i => if -(2 ^ 63 : Int) ≤ i ∧ i < 2 ^ 63 then .ok (.int i) else .error "OverflowError"
  | .int, .bool b => .ok (.int (if b then 1 else 0))
  | .int, _ => .error "TypeError"
  | .uint, .int i => if 0 ≤ i ∧ i < 2 ^ 64 then .ok (.int i) else .error "OverflowError"
  | .uint, .bool b => .ok (.int (if b then 1 else 0))
  | .uint, _ => .error "TypeError"
  | .float, .int i => .ok (Val.flt (Float.ofInt i))
  | .float, .bool b => .ok (Val.flt (if b then 1.0 else 0.0))
  | .float, .float f => .ok (.float f)
  | .float, _ => .error "TypeError"
  | .bool, .int i => if 0 ≤ i ∧ i < 256 then .ok (.int i) else .error "OverflowError"
  | .bool, .bool b => .ok (.int (if b then 1 else 0))
  | .bool, _ => .error "TypeError"
  | .obj, v => .ok v
  | .mapper, v => .ok v

/-- `get` post-processing: `bool(value)` for bool stores -/
def DType.read : DType → Val → Val
  | .bool, v => .bool v.truthy
  | _, v => v

structure MemStore where
  dtype : DType
  default : Option Val
  values : List Val
  state : List Marker
  keys : List (Option Key)
  /-- mapper stores: `values[i]` is a dict map_key → index, kept as an insertion-ordered association list -/
  maps : List (List (Val × Nat))
  nextIndex : Nat

def MemStore.new (dt : DType) (default : Option Val) : MemStore := ⟨dt, default, [], [], [], [], 0⟩

/-- result of a store operation: a value, a marker, or a Python exception -/
inductive SRes where
  | unit
  | val (v : Val)
  | notset
  | bool (b : Bool)
  | idx (i : Nat)
  | exc (e : Err)
  | dump (l : List (Option Key × Val × Bool))
  | keysOf (l : List Val)
  deriving DecidableEq

def listSet {α} (l : List α) (i : Nat) (v : α) : List α := l.set i v

/-- `set(key, value)` (repaired): the (possibly failing) typed write first, then keys and marker; a value the declared
type rejects raises and changes nothing -/
def MemStore.set (s : MemStore) (k : Key) (v : Val) : MemStore × SRes :=
  let i := k.idx
  if i < s.state.length then
    match s.dtype.coerce v with
    | .ok w => ({ s with keys := s.keys.set i (some k), state := s.state.set i .set, values := s.values.set i w }, .unit)
    | .error e => (s, .exc e)
  else (s, .exc "IndexError")

def MemStore.addKey (s : MemStore) (k : Key) : MemStore × SRes :=
  let i := k.idx
  let grow := (i + 1) - s.state.length
  let s1 := { s with
    values := s.values ++ List.replicate grow s.dtype.zero,
    state := s.state ++ List.replicate grow Marker.cleared,
    keys := s.keys ++ List.replicate grow none,
    maps := s.maps ++ List.replicate grow [] }
  let s2 := { s1 with state := s1.state.set i .notset, keys := s1.keys.set i (some k) }
  if s.dtype = .mapper then
    -- `self.set(key, {})`
    ({ s2 with state := s2.state.set i .set, maps := s2.maps.set i [] }, .unit)
  else
    match s.default with
    | some d => s2.set k d
    | none => (s2, .unit)

def MemStore.delKey (s : MemStore) (k : Key) : MemStore × SRes :=
  let i := k.idx
  if i < s.state.length then
    ({ s with state := s.state.set i .cleared, keys := s.keys.set i none,
              values := s.values.set i s.dtype.zero, maps := s.maps.set i [] }, .unit)
  else (s, .exc "IndexError")

def MemStore.get (s : MemStore) (k : Key) : SRes :=
  let i := k.idx
  match s.state[i]? with
  | none => .exc "IndexError"
  | some .notset => .notset
  | some _ => .val (s.dtype.read (s.values.getD i s.dtype.zero))

def MemStore.isSet (s : MemStore) (k : Key) : SRes :=
  match s.state[k.idx]? with
  | none => .exc "IndexError"
  | some m => .bool (m = .set)

def MemStore.isCleared (s : MemStore) (k : Key) : SRes :=
  match s.state[k.idx]? with
  | none => .exc "IndexError"
  | some m => .bool (m = .cleared)

/-- `iterate()`: (key, raw value, is_set) of every slot that is not CLEARED -/
def MemStore.iterate (s : MemStore) : SRes :=
  .dump ((List.range s.keys.length).filterMap fun i =>
    match s.state[i]? with
    | some Marker.cleared => none
    | some m => some (s.keys.getD i none, s.values.getD i (.int 0), decide (m = Marker.set))
    | none => none)

/-! mapper operations (`group_by`'s key → index dictionary) -/

def MemStore.getMap (s : MemStore) (k : Key) (mk : Val) : SRes :=
  match s.maps[k.idx]? with
  | none => .exc "IndexError"
  | some m => match m.find? (fun p => p.1 = mk) with
    | some p => .idx p.2
    | none => .notset

def MemStore.addMap (s : MemStore) (k : Key) (mk : Val) : MemStore × SRes :=
  let i := k.idx
  match s.maps[i]? with
  | none => (s, .exc "IndexError")
  | some m =>
    let idx := s.nextIndex           -- free_slots is never filled: always the fresh branch of new_index
    let m' := if m.any (fun p => p.1 = mk) then m.map (fun p => if p.1 = mk then (mk, idx) else p) else m ++ [(mk, idx)]
    ({ s with maps := s.maps.set i m', nextIndex := idx + 1 }, .idx idx)

def MemStore.iterateMap (s : MemStore) (k : Key) : SRes :=
  match s.maps[k.idx]? with
  | none => .exc "IndexError"
  | some m => .keysOf (m.map (·.1))

/-! ## operations as data (line protocol, histories) -/

inductive SOp where
  | addKey (k : Key) | delKey (k : Key) | set (k : Key) (v : Val) | get (k : Key)
  | isSet (k : Key) | isCleared (k : Key) | iterate
  | addMap (k : Key) (mk : Val) | getMap (k : Key) (mk : Val) | iterateMap (k : Key)

def MemStore.apply (s : MemStore) : SOp → MemStore × SRes
  | .addKey k => s.addKey k
  | .delKey k => s.delKey k
  | .set k v => s.set k v
  | .get k => (s, s.get k)
  | .isSet k => (s, s.isSet k)
  | .isCleared k => (s, s.isCleared k)
  | .iterate => (s, s.iterate)
  | .addMap k g => s.addMap k g
  | .getMap k g => (s, s.getMap k g)
  | .iterateMap k => (s, s.iterateMap k)

def MemStore.run (s : MemStore) : List SOp → List SRes
  | [] => []
  | o :: os => let r := s.apply o; r.2 :: MemStore.run r.1 os

end Rx

import RxModel.Framing
import RxModel.Event
import RxModel.Csv
/-!
# The text operations `rxsci/framing/line.py` uses, and the effects of its closures

`harness/pygen.py` (`TextTranslator`) translates the closures of `line.unframe` (`on_next(i)` / `on_completed()` over the
`nonlocal` string `acc`) and of `line.frame` into the monad `TM`.  A Python `str` is a `List Char`, a list of `str` a
`List (List Char)`.  What the string methods do is stated here once:

* `s.split(sep)` for a one-character separator is `splitC sep s` (never empty: `''.split('\n') == ['']`);
* `l[i]` / `l[i] = v` with a possibly negative index raise `IndexError` outside the list; `l[a:b]` never raises;
* `x or y` is `y` when `x` is the empty string.
-/
namespace Rx

structure TSt where
  /-- the `nonlocal` string variables of the closure, numbered in the order `on_subscribe` initialises them -/
  vars : Nat → List Char
  out : List (List Char) := []
  completed : Bool := false

abbrev TM := ExceptT Err (StateM TSt)

namespace PyStr

/-- Python index normalisation: `i` or `len + i` -/
def idx (n : Nat) (i : Int) : Option Nat :=
  if 0 ≤ i then (if i.toNat < n then some i.toNat else none)
  else (if (-i).toNat ≤ n then some (n - (-i).toNat) else none)

def getItem {α} (l : List α) (i : Int) : Except Err α :=
  match idx l.length i with
  | some k => match l[k]? with | some v => .ok v | none => .error "IndexError"
  | none => .error "IndexError"

def setItem {α} (l : List α) (i : Int) (v : α) : Except Err (List α) :=
  match idx l.length i with
  | some k => .ok (l.set k v)
  | none => .error "IndexError"

/-- `s[i]` on a string: the one-character string at that position -/
def getChar (s : List Char) (i : Int) : Except Err (List Char) :=
  match idx s.length i with
  | some k => match s[k]? with | some c => .ok [c] | none => .error "IndexError"
  | none => .error "IndexError"

/-- a variable that holds `None` or a list, used as a list (`None.append` / `sep.join(None)` raise) -/
def unwrap {α} (o : Option α) : Except Err α :=
  match o with
  | some v => .ok v
  | none => .error "AttributeError"

/-- slice bound normalisation: clamp into `[0, n]` -/
def bound (n : Nat) (i : Int) : Nat :=
  if 0 ≤ i then min i.toNat n else n - min (-i).toNat n

/-- `l[a:b]` -/
def slice {α} (l : List α) (a b : Int) : List α := (l.take (bound l.length b)).drop (bound l.length a)

/-- `s.split(sep)`, one-character separator -/
def split (sep : Char) (s : List Char) : List (List Char) := splitC sep s

/-- `x or y` on strings -/
def orElse (x y : List Char) : List Char := if x.isEmpty then y else x

/-- `sep.join(parts)` -/
def join (sep : List Char) (parts : List (List Char)) : List Char := sep.intercalate parts

end PyStr

namespace TM
def getVar (k : Nat) : TM (List Char) := do return (← get).vars k
def setVar (k : Nat) (v : List Char) : TM Unit :=
  modify fun s => { s with vars := fun j => if j = k then v else s.vars j }
def emit (v : List Char) : TM Unit := modify fun s => { s with out := s.out ++ [v] }
def complete : TM Unit := modify fun s => { s with completed := true }
def run (m : TM Unit) (s : TSt) : Except Err Unit × TSt := (ExceptT.run m).run s
end TM

/-! `io.BytesIO` as the closures of rxsci/framing/length_prefix.py use it, and the closure monad over bytes -/
structure BIO where
  data : List Nat
  pos : Nat

namespace BIO
def empty : BIO := ⟨[], 0⟩
/-- `bio.write(x)`: at the cursor, overwriting / extending; the cursor moves past what was written -/
def write (b : BIO) (x : List Nat) : BIO := ⟨b.data.take b.pos ++ x ++ b.data.drop (b.pos + x.length), b.pos + x.length⟩
/-- `len(bio.getbuffer())` -/
def len (b : BIO) : Nat := b.data.length
/-- `bio.seek(o, io.SEEK_SET)` -/
def seek (b : BIO) (o : Nat) : BIO := ⟨b.data, o⟩
/-- `bio.read(n)`: up to `n` bytes from the cursor, which moves past them -/
def read (b : BIO) (n : Nat) : List Nat × BIO :=
  ((b.data.drop b.pos).take n, ⟨b.data, b.pos + ((b.data.drop b.pos).take n).length⟩)
/-- `bio.read()`: everything from the cursor -/
def readAll (b : BIO) : List Nat × BIO := (b.data.drop b.pos, ⟨b.data, max b.pos b.data.length⟩)
end BIO

structure BSt where
  vars : Nat → List Nat
  out : List (List Nat) := []
  completed : Bool := false
  /-- exception classes passed to `observer.on_error`, in order -/
  errs : List Err := []

abbrev BM := ExceptT Err (StateM BSt)
namespace BM
def getVar (k : Nat) : BM (List Nat) := do return (← get).vars k
def setVar (k : Nat) (v : List Nat) : BM Unit := modify fun s => { s with vars := fun j => if j = k then v else s.vars j }
def emit (v : List Nat) : BM Unit := modify fun s => { s with out := s.out ++ [v] }
/-- `observer.on_error(E(...))`: recorded; the closure goes on (nothing returns or raises there) -/
def onError (e : Err) : BM Unit := modify fun s => { s with errs := s.errs ++ [e] }
/-- `n.to_bytes(p, byteorder=…)`: `OverflowError` when `n` does not fit in `p` bytes -/
def toBytes (big : Bool) (p n : Nat) : BM (List Nat) :=
  if n < 256 ^ p then pure (Rx.toBytes big p n) else throw "OverflowError"
def run {α} (m : BM α) (s : BSt) : Except Err α × BSt := (ExceptT.run m).run s
end BM

/-! the field values `csv.dump` receives, as Python sees them (`type(f)`, `str(f)`) -/
/-- `type(f).__name__` -/
def CsvField.pyType : CsvField → String
  | .int _ => "int" | .float _ => "float" | .bool _ => "bool" | .str _ => "str" | .none => "NoneType"
/-- `type(f) in [t1, …]` (`type(None)` is `NoneType`) -/
def CsvField.pyTypeIn (f : CsvField) (ts : List String) : Bool := ts.contains f.pyType
/-- `str(f)`: the decimal digits of an int, the repr text a float carries, `True` / `False`, the string itself, `None` -/
def CsvField.pyStr : CsvField → List Char
  | .int i => showInt i | .float t => t | .bool b => if b then "True".toList else "False".toList | .str s => s | .none => "None".toList

end Rx

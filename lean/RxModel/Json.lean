import RxModel.Framing
import RxModel.Codec
import RxModel.Compress
/-!
# JSON-lines containers (rxsci/container/json.py), without the JSON serializer itself

`dump_to_file`: `dumps(obj) + '\n'` → incremental utf-8 encode → (compress) → file.
`load_from_file(lines=True)`: file read in 64 KiB chunks → (decompress) → incremental decode →
`line.unframe` → `loads` of every non-empty line.  `dumps` / `loads` are a library contract
(orjson / json): a serialized object is a non-empty line without a raw newline.
Text is a list of code points; the newline is `10`.
-/
namespace Rx

/-- bytes written for the serialized objects `ls` -/
def jsonWriteBytes (ls : List (List Nat)) : List Nat :=
  (encodeRun .utf8 false (ls.map (· ++ [10]))).flatten

/-- lines handed to `loads` when the (decompressed) file arrives as the chunks `cs` -/
def jsonReadLines (cs : List (List Nat)) : Except String (List (List Nat)) := do
  let texts ← decodeRun .utf8 (decInit .utf8) cs
  let r := lineRunG 10 [] texts
  pure ((r.1.flatten ++ r.2).filter (fun l => l ≠ []))

/-- the data items a decompress wrapper emitted -/
def payloadChunks : List WEv → List Bytes
  | [] => []
  | .next b :: r => b :: payloadChunks r
  | _ :: r => payloadChunks r

end Rx

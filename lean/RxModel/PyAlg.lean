import RxModel.Event
/-!
# The operations of Python values that rxsci's pure kernels use, as an interface

`harness/pygen.py` translates the small pure functions of the source (accumulators, terminators,
predicates and the lambdas of derived operators) into Lean definitions that are *generic in the value
algebra* `V` (tagless-final style): the same generated definition is

* instantiated at `Val` (RxModel/PyVal.lean), where it is proved equal to the hand-written model the
  driver executes (`Props/Link*.lean`), and
* instantiated at `NVal K` (RxModel/NVal.lean), exact arithmetic over a field `K`, where the numeric
  theorems of C12 are proved about the generated code itself.

Every operation that can raise in Python returns `Except Err _`.
-/
namespace Rx

class PyAlg (V : Type) where
  none : V
  bool : Bool → V
  int : Int → V
  /-- a float literal, given exactly as the fraction `n / d` (every float literal is a dyadic rational) -/
  flit : Int → Nat → V
  tup : List V → V
  lst : List V → V
  /-- `v[i]` for a literal index `i` -/
  nth : V → Nat → V
  isNone : V → Bool
  /-- `v is True` -/
  isTrue : V → Bool
  /-- `v is False` -/
  isFalse : V → Bool
  truthy : V → Bool
  /-- `a == b` -/
  eq : V → V → Bool
  add : V → V → Except Err V
  sub : V → V → Except Err V
  mul : V → V → Except Err V
  div : V → V → Except Err V
  pow : V → V → Except Err V
  /-- `a % b` and `a // b` (floor semantics) -/
  mod : V → V → Except Err V
  floordiv : V → V → Except Err V
  /-- `range(n)` -/
  range : V → Except Err (List V)
  /-- an int used as an index / key component -/
  toNat : V → Except Err Nat
  lt : V → V → Except Err Bool
  le : V → V → Except Err Bool
  len : V → Except Err V
  /-- what `for x in v` iterates over -/
  elems : V → Except Err (List V)
  /-- the list `v` after `v.append(x)` -/
  append : V → V → Except Err V
  /-- builtin `sum(v)` -/
  sum : V → Except Err V
  /-- `math.sqrt(v)` -/
  sqrt : V → Except Err V

/-- one stage of an operator that rxsci defines as `rx.pipe(scan(...), filter(...), map(...))` -/
inductive GStage (V : Type) where
  | scan (acc : V → V → Except Err V) (seed : V) (reduce : Bool) (term : Option (V → Except Err V))
  | map (f : V → Except Err V)
  | filter (p : V → Except Err V)

end Rx

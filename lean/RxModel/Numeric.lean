/-!
# Numeric aggregates, generic over the carrier (rxsci/math/*.py)

The same definitions are executed at `Float` (driver, bit-for-bit comparison with CPython) and
reasoned about at `ℚ` (exact arithmetic, `Props/C12.lean`).  They follow the accumulators of the code:
`sum`: `acc + i`; `mean`: `(acc0 + i, acc1 + 1)` then `acc0 / acc1`; `variance`: Welford's update
`(m, s, k)`; `formal.variance`: the two-pass definition through `_moment`.
-/
namespace Rx

/-- Welford state after at least one item: running mean, sum of squared deviations, count -/
structure WSt (K : Type) where
  m : K
  s : K
  k : Nat

/-- rxsci/math/variance.py `accumulate` (state `none` = `(None, 0, 0)`) -/
def wstep {K : Type} [Add K] [Sub K] [Mul K] [Div K] [NatCast K] [OfNat K 0] (st : Option (WSt K)) (x : K) : WSt K :=
  match st with
  | none => ⟨x, 0, 1⟩
  | some st =>
    let k' := st.k + 1
    let m' := st.m + (x - st.m) / (k' : K)
    ⟨m', st.s + (x - st.m) * (x - m'), k'⟩

/-- the map after the scan: `0.0 if acc[2] < 2 else acc[1] / (acc[2]-1)` -/
def wvar {K : Type} [Div K] [NatCast K] [OfNat K 0] (st : Option (WSt K)) : K :=
  match st with
  | none => 0
  | some st => if st.k < 2 then 0 else st.s / ((st.k - 1 : Nat) : K)

def wfold {K : Type} [Add K] [Sub K] [Mul K] [Div K] [NatCast K] [OfNat K 0] : Option (WSt K) → List K → Option (WSt K)
  | st, [] => st
  | st, x :: xs => wfold (some (wstep st x)) xs

/-- sample variance as rxsci streams it: value after each item -/
def variances {K : Type} [Add K] [Sub K] [Mul K] [Div K] [NatCast K] [OfNat K 0] : Option (WSt K) → List K → List K
  | _, [] => []
  | st, x :: xs => wvar (some (wstep st x)) :: variances (some (wstep st x)) xs

/-- plain left-to-right sum from 0 (`sum`'s accumulator; also `mean`'s first component) -/
def sumK {K : Type} [Add K] [OfNat K 0] (xs : List K) : K := xs.foldl (· + ·) 0

def meanK {K : Type} [Add K] [Div K] [NatCast K] [OfNat K 0] (xs : List K) : K := sumK xs / (xs.length : K)

/-- rxsci/math/formal `_moment(x, c, 2)` with an exact `sum`: mean of squared deviations from `c` -/
def moment2K {K : Type} [Add K] [Sub K] [Mul K] [Div K] [NatCast K] [OfNat K 0] (xs : List K) (c : K) : K :=
  sumK (xs.map fun x => (x - c) * (x - c)) / (xs.length : K)

/-- rxsci/math/formal/variance.py `_variance` (population variance; 0 for no item) -/
def fvarK {K : Type} [Add K] [Sub K] [Mul K] [Div K] [NatCast K] [OfNat K 0] (xs : List K) : K :=
  if xs.length = 0 then 0 else moment2K xs (meanK xs)

end Rx

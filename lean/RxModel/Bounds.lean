import RxModel.Derived
/-!
# Internal boundaries of a pipeline: the mux trace between any two operators (C03, C13)

`Pipe.bounds path t` lists, for the input trace `t`, the flat trace at the output of every stage
(label `path/i`), at the head of every inner pipeline (`path/i/in`) and inside it, and inside
every tee branch (`path/i/b<k>/…`).  Because operators are synchronous and there is no feedback
from downstream to upstream, the trace at a boundary is the output of the prefix pipeline.
-/
namespace Rx

def flatRun {α β} (Q : MuxOp α β) (t : List (Ev α)) : List (Ev β) := (Q.run t).flatten

/-- events a splitter sends into its inner pipeline, over a whole input trace -/
def Splitter.innerTrace {α} (sp : Splitter α) : sp.S → List (Ev α) → List (Ev α)
  | _, [] => []
  | s, e :: es => let r := sp.step s e; r.2.1 ++ Splitter.innerTrace sp r.1 es

mutual
def Stage.bounds (path : String) : Stage → List (Ev Val) → List (String × List (Ev Val))
  | .prim _ _, _ => []
  | .wrap sp _ inner, t =>
    let it := sp.innerTrace sp.init t
    (path ++ "/in", it) :: inner.bounds path 0 it
  | .tee _ bs, t => bs.bounds path 0 t
def Pipe.bounds (path : String) (i : Nat) : Pipe → List (Ev Val) → List (String × List (Ev Val))
  | .nil, _ => []
  | .cons s rest, t =>
    let here := path ++ "/" ++ toString i
    let out := flatRun s.mux t
    s.bounds here t ++ [(here, out)] ++ rest.bounds path (i + 1) out
def Pipes.bounds (path : String) (b : Nat) : Pipes → List (Ev Val) → List (String × List (Ev Val))
  | .nil, _ => []
  | .cons p rest, t => p.bounds (path ++ "/b" ++ toString b) 0 t ++ rest.bounds path (b + 1) t
end

end Rx

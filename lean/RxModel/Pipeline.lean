import RxModel.Val
import RxModel.Ops
import RxModel.Split
import RxModel.Tee
import RxModel.Plain
/-!
# Pipelines: deep-embedded syntax and its three interpretations

* `Pipe.mux`   — L1, what rxsci does on a multiplexed observable (index-addressed state),
* `Pipe.plain` — what the same pipeline does on an ordinary observable (when every stage has a
                 plain implementation),
* `Pipe.loc`   — L2, the meaning of the pipeline on ONE lifetime of ONE key.

Stages carry their user functions as Lean functions, so a theorem "for all pipelines" quantifies over
all accumulators, mappers, predicates and key functions.
-/
namespace Rx

/-- tuple constructor used by the zip / combine_latest joins (`None` for an empty slot) -/
def mkTupleV (l : List (Option Val)) : Val := Val.tup (l.map fun o => o.getD .none)

/-- L2 description of a splitter: what it does with ONE parent lifetime, in terms of commands on
locally numbered inner lifetimes -/
inductive Cmd (α : Type) where
  | opn (j : Nat)
  | itm (j : Nat) (x : α)
  | cls (j : Nat)
  deriving Repr

structure LSplit (α : Type) where
  τ : Type
  init : τ
  next : τ → α → τ × List (Cmd α)
  fin : τ → List (Cmd α)

mutual
inductive Stage : Type 1 where
  /-- a per-key operator: its L2 meaning and, when it exists, its plain implementation -/
  | prim (L : LocalOp Val Val) (P : Option (PlainOp Val Val))
  /-- group_by / roll / split / time_split around an inner pipeline (mux only) -/
  | wrap (sp : Splitter Val) (ls : LSplit Val) (inner : Pipe)
  /-- tee_map -/
  | tee (mode : Join) (branches : Pipes)
inductive Pipe : Type 1 where
  | nil
  | cons (s : Stage) (rest : Pipe)
inductive Pipes : Type 1 where
  | nil
  | cons (p : Pipe) (rest : Pipes)
end

/-- `tee_map` completion handler of the source tree: `true` once the repair of the slot leak is in -/
def teeResetAll : Bool := true

mutual
def Stage.mux : Stage → MuxOp Val Val
  | .prim L _ => idxLift L
  | .wrap sp _ inner => wrap sp inner.mux
  | .tee mode bs => teeMux mode mkTupleV id teeResetAll bs.muxBranches
def Pipe.mux : Pipe → MuxOp Val Val
  | .nil => idxLift idLocal
  | .cons s rest => compMux s.mux rest.mux
def Pipes.muxBranches : Pipes → Branches Val Val
  | .nil => .nil
  | .cons p rest => .cons p.mux rest.muxBranches
end

mutual
def Stage.plain : Stage → Option (PlainOp Val Val)
  | .prim _ P => P
  | .wrap _ _ _ => none
  | .tee mode bs => bs.plainBranches.map (teePlain mode mkTupleV id)
def Pipe.plain : Pipe → Option (PlainOp Val Val)
  | .nil => some idPlain
  | .cons s rest =>
    match s.plain, rest.plain with
    | some a, some b => some (compPlain a b)
    | _, _ => none
def Pipes.plainBranches : Pipes → Option (PBranches Val Val)
  | .nil => some .nil
  | .cons p rest =>
    match p.plain, rest.plainBranches with
    | some a, some b => some (.cons a b)
    | _, _ => none
end

/-! ## L2: local meaning of wrap and tee -/

/-- run inner lifetimes under a local splitter: state = splitter state × (local id → inner state) -/
def cmdStep {α β} (L : LocalOp α β) (st : Nat → Option L.σ) : Cmd α → (Nat → Option L.σ) × List (LOut β)
  | .opn j => (upd st j (some L.init), [])
  | .itm j x =>
    match st j with
    | some s => let r := L.next s x; (upd st j (some r.1), r.2)
    | none => (st, [])
  | .cls j =>
    match st j with
    | some s => (upd st j none, L.fin s)
    | none => (st, [])

/-- an inner `OnErrorMux` leaving the inner pipeline is `observer.on_error` at the demux -/
def demuxL {β} : LOut β → LOut β
  | .err e => .fatal e
  | o => o

def localWrap {α β} (ls : LSplit α) (L : LocalOp α β) : LocalOp α β where
  σ := ls.τ × (Nat → Option L.σ)
  init := (ls.init, fun _ => none)
  next := fun s x =>
    let r := ls.next s.1 x
    let q := runGroup (cmdStep L) s.2 r.2
    ((r.1, q.1), q.2.map demuxL)
  fin := fun s =>
    let q := runGroup (cmdStep L) s.2 (ls.fin s.1)
    q.2.map demuxL

/-- local join state: latest value and "has" flag per branch -/
structure LJoinSt (β : Type) where
  queue : List (Option β)
  has : List Bool

def lJoinNext {β γ} (mode : Join) (mk : List (Option β) → γ) (inj : β → γ) (st : LJoinSt β) (i : Nat) :
    LOut β → LJoinSt β × List (LOut γ)
  | .err e => (st, [.err e])
  | .fatal e => (st, [.fatal e])
  | .item x =>
    match mode with
    | .merge => (st, [.item (inj x)])
    | .zip =>
      let q := st.queue.set i (some x)
      let h := st.has.set i true
      if h.all id then (⟨q.map fun _ => none, h.map fun _ => false⟩, [.item (mk q)]) else (⟨q, h⟩, [])
    | .combine =>
      let q := st.queue.set i (some x)
      (⟨q, st.has.set i true⟩, [.item (mk q)])

def feedLJoin {β γ} (mode : Join) (mk : List (Option β) → γ) (inj : β → γ) (i : Nat) :
    LJoinSt β → List (LOut β) → LJoinSt β × List (LOut γ)
  | st, [] => (st, [])
  | st, o :: r =>
    let a := lJoinNext mode mk inj st i o
    let a2 := feedLJoin mode mk inj i a.1 r
    (a2.1, a.2 ++ a2.2)

inductive LBranches (α β : Type) : Type 1 where
  | nil : LBranches α β
  | cons (L : LocalOp α β) (rest : LBranches α β) : LBranches α β

def LBranches.length {α β} : LBranches α β → Nat
  | .nil => 0
  | .cons _ r => r.length + 1

def LBranches.St {α β} : LBranches α β → Type
  | .nil => Unit
  | .cons L r => L.σ × r.St

def LBranches.init {α β} : (b : LBranches α β) → b.St
  | .nil => ()
  | .cons L r => (L.init, r.init)

/-- what a key lifetime can receive -/
inductive LIn (α : Type) where
  | item (x : α)
  | err (e : Err)
  | fin

/-- serve all branches, in order, with an item, a mux error of the key, or the completion -/
def LBranches.step {α β γ} (mode : Join) (mk : List (Option β) → γ) (inj : β → γ) :
    (b : LBranches α β) → (i : Nat) → b.St → LJoinSt β → LIn α → b.St × LJoinSt β × List (LOut γ)
  | .nil, _, s, j, _ => (s, j, [])
  | .cons L r, i, s, j, x =>
    let (s1, outs) := match x with
      | .item v => L.next s.1 v
      | .err e => L.onErr s.1 e
      | .fin => (s.1, L.fin s.1)
    let jj := feedLJoin mode mk inj i j outs
    let rr := LBranches.step mode mk inj r (i + 1) s.2 jj.1 x
    ((s1, rr.1), rr.2.1, jj.2 ++ rr.2.2)

def localTee {α β γ} (mode : Join) (mk : List (Option β) → γ) (inj : β → γ) (b : LBranches α β) : LocalOp α γ where
  σ := b.St × LJoinSt β
  init := (b.init, ⟨List.replicate b.length none, List.replicate b.length false⟩)
  next := fun s x =>
    let r := LBranches.step mode mk inj b 0 s.1 s.2 (.item x)
    ((r.1, r.2.1), r.2.2)
  fin := fun s => (LBranches.step mode mk inj b 0 s.1 s.2 .fin).2.2
  onErr := fun s e =>
    let r := LBranches.step mode mk inj b 0 s.1 s.2 (.err e)
    ((r.1, r.2.1), r.2.2)

mutual
def Stage.loc : Stage → LocalOp Val Val
  | .prim L _ => L
  | .wrap _ ls inner => localWrap ls inner.loc
  | .tee mode bs => localTee mode mkTupleV id bs.locBranches
def Pipe.loc : Pipe → LocalOp Val Val
  | .nil => idLocal
  | .cons s rest => compLocal s.loc rest.loc
def Pipes.locBranches : Pipes → LBranches Val Val
  | .nil => .nil
  | .cons p rest => .cons p.loc rest.locBranches
end

/-! ## the top level: `mux_observable` … `demux_observable` around a pipeline -/

/-- `mux_observable`: the root key `(0,)` is created at subscription, completed with the source -/
def rootTrace {α} (xs : List α) : List (Ev α) :=
  [.create [0]] ++ xs.map (.next [0]) ++ [.done [0]]

/-- `demux_observable.on_next`: items pass, a mux error is `on_error`; nothing after the first error -/
def demuxTop {β} : List (Ev β) → List (LOut β)
  | [] => []
  | .next _ v :: r => .item v :: demuxTop r
  | .err _ e :: _ => [.fatal e]
  | .fatal e :: _ => [.fatal e]
  | _ :: r => demuxTop r

/-- cut a chunked run after the first fatal output -/
def truncChunks {β} : List (List (LOut β)) → List (List (LOut β))
  | [] => []
  | c :: cs =>
    if c.any (fun o => match o with | .fatal _ => true | _ => false) then
      truncFatal c :: cs.map (fun _ => [])
    else c :: truncChunks cs

/-- `rs.ops.multiplex(pipeline)` on a plain source: one chunk at subscription, one per item, one
at completion -/
def runMultiplex (P : Pipe) (xs : List Val) : List (List (LOut Val)) :=
  truncChunks ((P.mux.run (rootTrace xs)).map demuxTop)

end Rx

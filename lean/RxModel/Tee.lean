import RxModel.Ops
/-!
# tee_map (rxsci/operators/tee_map.py), multiplexed implementation (`subscribe_mux`)

The source is published; for every source event the branches are served in order 0..n-1, and each
branch's outputs go through `on_next(i, x)` of the join as they are produced.
-/
namespace Rx

inductive Join where
  | merge | zip | combine
  deriving Repr, DecidableEq

structure JoinSt (β : Type) where
  queue : Nat → Option β      -- `queue[idx*n+i]` (none = Python None)
  has : Nat → Bool            -- `has_next[idx*n+i]`

def allHas (has : Nat → Bool) (base : Nat) : Nat → Bool
  | 0 => true
  | i+1 => has (base + i) && allHas has base i

def sliceQ {β} (q : Nat → Option β) (base n : Nat) : List (Option β) :=
  (List.range n).map fun i => q (base + i)

def clearHas (has : Nat → Bool) (base : Nat) : Nat → (Nat → Bool)
  | 0 => has
  | i+1 => fun j => if j = base + i then false else clearHas has base i j

def clearQ {β} (q : Nat → Option β) (base : Nat) : Nat → (Nat → Option β)
  | 0 => q
  | i+1 => fun j => if j = base + i then none else clearQ q base i j

/-- `on_next(i, x)` of `subscribe_mux`; `mk` builds the tuple (`None` for an empty slot).
`resetAll = true` is the repaired completion handler (every slot of the key is reset);
`false` is the original one (only the last branch's slot). -/
def joinStep {β γ} (mode : Join) (n : Nat) (mk : List (Option β) → γ) (inj : β → γ) (resetAll : Bool)
    (st : JoinSt β) (i : Nat) : Ev β → JoinSt β × List (Ev γ)
  | .create k => (st, if i = 0 then [.create k] else [])
  | .done k =>
    if i = n - 1 then
      if mode = .merge then (st, [.done k])
      else
        let base := k.idx * n
        if resetAll then
          (⟨clearQ st.queue base n, clearHas st.has base n⟩, [.done k])
        else
          (⟨fun j => if j = base + i then none else st.queue j,
            fun j => if j = base + i then false else st.has j⟩, [.done k])
    else (st, [])
  | .err k e => (st, [.err k e])
  | .fatal e => (st, [.fatal e])
  | .next k x =>
    match mode with
    | .merge => (st, [.next k (inj x)])
    | .zip =>
      let base := k.idx * n
      let q := fun j => if j = base + i then some x else st.queue j
      let h := fun j => if j = base + i then true else st.has j
      if allHas h base n then
        (⟨clearQ q base n, clearHas h base n⟩, [.next k (mk (sliceQ q base n))])
      else (⟨q, h⟩, [])
    | .combine =>
      let base := k.idx * n
      let q := fun j => if j = base + i then some x else st.queue j
      let h := fun j => if j = base + i then true else st.has j
      (⟨q, h⟩, [.next k (mk (sliceQ q base n))])

/-- a list of branch operators with their states -/
inductive Branches (α β : Type) : Type 1 where
  | nil : Branches α β
  | cons (Q : MuxOp α β) (rest : Branches α β) : Branches α β

def Branches.length {α β} : Branches α β → Nat
  | .nil => 0
  | .cons _ r => r.length + 1

def Branches.St {α β} : Branches α β → Type
  | .nil => Unit
  | .cons Q r => Q.S × r.St

def Branches.init {α β} : (b : Branches α β) → b.St
  | .nil => ()
  | .cons Q r => (Q.init, r.init)

def feedJoin {β γ} (mode : Join) (n : Nat) (mk : List (Option β) → γ) (inj : β → γ) (resetAll : Bool) (i : Nat) :
    JoinSt β → List (Ev β) → JoinSt β × List (Ev γ)
  | st, [] => (st, [])
  | st, e :: es =>
    let r := joinStep mode n mk inj resetAll st i e
    let r2 := feedJoin mode n mk inj resetAll i r.1 es
    (r2.1, r.2 ++ r2.2)

/-- serve branches `i, i+1, …` with one source event -/
def Branches.step {α β γ} (mode : Join) (n : Nat) (mk : List (Option β) → γ) (inj : β → γ) (resetAll : Bool) :
    (b : Branches α β) → (i : Nat) → b.St → JoinSt β → Ev α → b.St × JoinSt β × List (Ev γ)
  | .nil, _, s, j, _ => (s, j, [])
  | .cons Q r, i, s, j, e =>
    let o := Q.step s.1 e
    let jj := feedJoin mode n mk inj resetAll i j o.2
    let rr := Branches.step mode n mk inj resetAll r (i + 1) s.2 jj.1 e
    ((o.1, rr.1), rr.2.1, jj.2 ++ rr.2.2)

def teeMux {α β γ} (mode : Join) (mk : List (Option β) → γ) (inj : β → γ) (resetAll : Bool)
    (b : Branches α β) : MuxOp α γ where
  S := b.St × JoinSt β
  init := (b.init, ⟨fun _ => none, fun _ => false⟩)
  step := fun s e =>
    let r := Branches.step mode b.length mk inj resetAll b 0 s.1 s.2 e
    ((r.1, r.2.1), r.2.2)

end Rx

import RxModel.Ops
/-!
# batch (rxsci/data/batch.py) generically, and the parquet container (rxsci/container/parquet.py)

`batchG n` is `batch(n)` exactly as the code composes it: `scan(_batch, seed=([], False),
terminator=_terminate) | filter(i[1] == True) | map(i[0])`, over any item type.
pyarrow (ParquetWriter / ParquetFile) is a library contract: `write(record)` appends the record's
rows, `iter_batches` yields all rows in order.
-/
namespace Rx

/-- `_batch(acc, i)` (repaired): start a new list after a completed batch, flag completion by length -/
def batchAcc {α} (n : Nat) (acc : List α × Bool) (i : α) : List α × Bool :=
  let b := if acc.2 then [i] else acc.1 ++ [i]
  (b, b.length == n)

/-- `_terminate(acc)` (repaired): only a pending non-empty partial batch is emitted at completion -/
def batchTerm {α} (acc : List α × Bool) : List α × Bool := (acc.1, !acc.2 && acc.1.length > 0)

def batchG {α} (n : Nat) : LocalOp α (List α) :=
  compLocal
    (compLocal (scanOp (fun acc i => Except.ok (batchAcc n acc i)) (([] : List α), false) false (some batchTerm))
               (filterOp (fun p => Except.ok p.2) id))
    (mapOp (fun p => Except.ok p.1))

/-- consecutive chunks of exactly `n` items and a final shorter non-empty chunk (fuel = length) -/
def chunksAux {α} (n : Nat) : Nat → List α → List (List α)
  | 0, _ => []
  | _, [] => []
  | f+1, x :: xs => (x :: xs).take n :: chunksAux n f ((x :: xs).drop n)

def chunksOf {α} (n : Nat) (xs : List α) : List (List α) := chunksAux n xs.length xs

/-! ## parquet -/

/-- `create_record(schema)._create_record(batch)`: the rows of the record handed to the writer.
`fresh = true` is the repaired code (column buffers created per call); with `false` the buffers of
the previous calls are still there. -/
def recordStep {α} (fresh : Bool) (buf : List α) (batch : List α) : List α × List α :=
  let b := (if fresh then [] else buf) ++ batch
  (b, b)

/-- rows that end up in the file: every batch becomes a record, the writer appends its rows -/
def parquetFileRows {α} (fresh : Bool) : List α → List (List α) → List α
  | _, [] => []
  | buf, b :: bs => (recordStep fresh buf b).2 ++ parquetFileRows fresh (recordStep fresh buf b).1 bs

/-- `dump_to_file(batch_size = n)`: batch, transpose, write -/
def parquetDump {α} (n : Nat) (rows : List α) : List α := parquetFileRows true [] (chunksOf n rows)

/-- the records the writer receives, as the code computes them: `batch(n)` run as an operator,
then `create_record` on each batch -/
def parquetRecords {α} (fresh : Bool) : List α → List (List α) → List (List α)
  | _, [] => []
  | buf, b :: bs => (recordStep fresh buf b).2 :: parquetRecords fresh (recordStep fresh buf b).1 bs

/-- `writer.write(record, row_group_size)`: each record becomes row groups of at most `rg` rows
(`none`: one row group per record, for records below pyarrow's 1 Mi default) -/
def rowGroups {α} (rg : Option Nat) (records : List (List α)) : List (List α) :=
  match rg with
  | none => records.filter (fun r => !r.isEmpty)
  | some k => records.flatMap (chunksOf k)

/-- `load_from_file(batch_size = b)`: the reader yields all rows in batches of `b`, flattened again -/
def parquetLoad {α} (b : Nat) (fileRows : List α) : List α := (chunksOf b fileRows).flatten

end Rx

import RxModel.Store
/-!
# The object a `MemoryStore` instance is, and the effects its methods have on it

`harness/pygen.py` translates the methods `add_key / del_key / set / get / is_set / is_cleared` of
rxsci/state/memory_store.py into the monad `OM`: the instance attributes `self.values` (a list, or a typed `array`),
`self.state` (`array('B')` of marker codes) and `self.keys` (a list) are the fields of `PyStoreSt`; `self.data_type`,
`self.default_value`, `self.is_mapper` are the constants the constructor fixed.  What the containers do is stated here once:

* `append` / item assignment on `self.values` go through the typed array: the value is coerced or rejected
  (`DType.coerce`: `array('d')` turns `0` into `0.0`, `array('q')` raises `TypeError` for a string, …);
* item access or assignment at an index past the end raises `IndexError` (key indices are never negative);
* an exception leaves every effect performed before it in place.
-/
namespace Rx

structure PyStoreSt where
  dtype : DType
  default : Option Val
  values : List Val
  state : List Marker
  keys : List (Option Key)

abbrev OM := ExceptT Err (StateM PyStoreSt)

namespace OM

/-- `len(self.state)` -/
def lenState : OM Nat := do return (← get).state.length

/-- `self.values.append(v)` -/
def valuesAppend (v : Val) : OM Unit := do
  let s ← get
  match s.dtype.coerce v with
  | .ok w => set { s with values := s.values ++ [w] }
  | .error e => throw e

/-- `self.state.append(MARKER.value())` -/
def stateAppend (m : Marker) : OM Unit := modify fun s => { s with state := s.state ++ [m] }

/-- `self.keys.append(k)`: a key, or the CLEARED marker code (`none`) -/
def keysAppend (k : Option Key) : OM Unit := modify fun s => { s with keys := s.keys ++ [k] }

/-- `self.values[i] = v` -/
def valuesSet (i : Nat) (v : Val) : OM Unit := do
  let s ← get
  if i < s.values.length then
    match s.dtype.coerce v with
    | .ok w => set { s with values := s.values.set i w }
    | .error e => throw e
  else throw "IndexError"

/-- `self.state[i] = MARKER.value()` -/
def stateSet (i : Nat) (m : Marker) : OM Unit := do
  let s ← get
  if i < s.state.length then set { s with state := s.state.set i m } else throw "IndexError"

/-- `self.keys[i] = k` -/
def keysSet (i : Nat) (k : Option Key) : OM Unit := do
  let s ← get
  if i < s.keys.length then set { s with keys := s.keys.set i k } else throw "IndexError"

/-- `self.state[i]` -/
def stateGet (i : Nat) : OM Marker := do
  match (← get).state[i]? with
  | some m => pure m
  | none => throw "IndexError"

/-- `self.values[i]` -/
def valuesGet (i : Nat) : OM Val := do
  match (← get).values[i]? with
  | some v => pure v
  | none => throw "IndexError"

/-- `len(self.keys)` -/
def lenKeys : OM Nat := do return (← get).keys.length

/-- `self.keys[i]` -/
def keysGet (i : Nat) : OM (Option Key) := do
  match (← get).keys[i]? with
  | some k => pure k
  | none => throw "IndexError"

/-- `self.is_mapper` -/
def isMapper : OM Bool := do return (← get).dtype = .mapper

/-- `self.data_type is bool` -/
def isBoolType : OM Bool := do return (← get).dtype = .bool

/-- `self.default_value` (`none` = Python `None`) -/
def defaultValue : OM (Option Val) := do return (← get).default

/-- `{}`: the dict a mapper state keeps per slot — outside `Val`; the link theorems are about the typed (non-mapper) states -/
def emptyDict : Val := .none

/-- `bool(v)` -/
def pyBool (v : Val) : Val := .bool v.truthy

def run {α} (m : OM α) (s : PyStoreSt) : Except Err α × PyStoreSt := (ExceptT.run m).run s

end OM
/-! `Store` (rxsci/state/store.py): the list `self.states` of the `MemoryStore` objects of one partition, one per state id of the
topology; `StoreManager` without partitioning holds exactly one `Store` -/
abbrev SM := ExceptT Err (StateM (List PyStoreSt))

namespace SM
/-- `self.states[state].<method>(…)`: the method runs on the object at index `state` (IndexError past the end), every other
object is left alone -/
def onState {α} (state : Nat) (m : OM α) : SM α := do
  let tbl ← get
  match tbl[state]? with
  | some st =>
    let r := OM.run m st
    set (tbl.set state r.2)
    match r.1 with
    | .ok a => pure a
    | .error e => throw e
  | none => throw "IndexError"
def run {α} (m : SM α) (tbl : List PyStoreSt) : Except Err α × List PyStoreSt := (ExceptT.run m).run tbl
end SM

/-! dict side of a mapper state (`data_type='mapper'`): `self.values[i]` is a dict map_key → group index -/
structure MapSt where
  /-- per slot: the dict as an insertion-ordered association list; `none` = the slot does not hold a dict (growth filler 0, or
  after `del_key`) -/
  dicts : List (Option (List (Val × Nat)))
  nextIndex : Nat
  freeSlots : List Nat

abbrev MM := ExceptT Err (StateM MapSt)

namespace MM
/-- `self.next_index` / `self.free_slots` -/
def getNextIndex : MM Nat := do return (← get).nextIndex
def getFreeSlots : MM (List Nat) := do return (← get).freeSlots
def setNextIndex (n : Nat) : MM Unit := modify fun s => { s with nextIndex := n }
def setFreeSlots (l : List Nat) : MM Unit := modify fun s => { s with freeSlots := l }

/-- the dict held by slot `i` (IndexError past the end; a slot that holds no dict is not subscriptable) -/
def dictOf (i : Nat) : MM (List (Val × Nat)) := do
  match (← get).dicts[i]? with
  | some (some m) => pure m
  | some none => throw "TypeError"
  | none => throw "IndexError"

/-- `self.values[i][k] = v`: an existing key keeps its place, a new one goes last -/
def dictSet (i : Nat) (k : Val) (v : Nat) : MM Unit := do
  let m ← dictOf i
  let m' := if m.any (fun p => p.1 = k) then m.map (fun p => if p.1 = k then (k, v) else p) else m ++ [(k, v)]
  modify fun s => { s with dicts := s.dicts.set i (some m') }

/-- `k in self.values[i]` -/
def dictContains (i : Nat) (k : Val) : MM Bool := do
  let m ← dictOf i
  pure (m.any (fun p => p.1 = k))

/-- `self.values[i][k]` -/
def dictGet (i : Nat) (k : Val) : MM Nat := do
  let m ← dictOf i
  match m.find? (fun p => p.1 = k) with
  | some p => pure p.2
  | none => throw "KeyError"

/-- `for k in self.values[i]` (a generator: the keys in insertion order) -/
def dictKeys (i : Nat) : MM (List Val) := do
  let m ← dictOf i
  pure (m.map (·.1))

def run {α} (m : MM α) (s : MapSt) : Except Err α × MapSt := (ExceptT.run m).run s
end MM

end Rx

import RxModel.Event
/-!
# Per-key operators as `LocalOp`s (L2), and the stateless event handlers

Each definition mirrors the per-key logic of the rxsci operator named in its doc string.
User functions return `Except Err _` (a Python function may raise).
-/
namespace Rx

/-- rxsci/operators/map.py `map_mux`: exception → one `OnErrorMux` for the key, nothing else -/
def mapOp {α β} (f : α → Except Err β) : LocalOp α β where
  σ := Unit
  init := ()
  next := fun _ x => ((), match f x with | .ok y => [.item y] | .error e => [.err e])
  fin := fun _ => []

/-- rxsci/operators/filter.py `filter_mux`: `emit = predicate(item); if emit: forward`.
`isTrue` is the test applied to the predicate's result (Python truthiness). -/
def filterOp {α γ} (p : α → Except Err γ) (isTrue : γ → Bool) : LocalOp α α where
  σ := Unit
  init := ()
  next := fun _ x => ((), match p x with
    | .ok r => if isTrue r then [.item x] else []
    | .error e => [.err e])
  fin := fun _ => []

/-- rxsci/operators/flat_map.py `flat_map_mux` (items are iterables) -/
def flatMapOp {α β} (elems : α → List β) : LocalOp α β where
  σ := Unit
  init := ()
  next := fun _ x => ((), (elems x).map .item)
  fin := fun _ => []

/-- rxsci/operators/scan.py `scan_mux`.  State `none` = slot NOTSET (seed taken lazily).
* item: `acc = accumulator(value or seed, item)`; exception → `OnErrorMux`, state unchanged.
* completion: terminator (if any) applied to the state, emitted unless `reduce`; with `reduce`
  the state (or the seed) is emitted. -/
def scanNext {α γ} (g : γ → α → Except Err γ) (seed : γ) (reduce : Bool) (s : Option γ) (x : α) :
    Option γ × List (LOut γ) :=
  match g (s.getD seed) x with
  | .ok a => (some a, if reduce then [] else [.item a])
  | .error e => (s, [.err e])

def scanFin {γ} (seed : γ) (reduce : Bool) (term : Option (γ → γ)) (s : Option γ) : List (LOut γ) :=
  match term with
  | some t => if reduce then [.item (t (s.getD seed))] else [.item (t (s.getD seed))]
  | none => if reduce then [.item (s.getD seed)] else []

def scanOp {α γ} (g : γ → α → Except Err γ) (seed : γ) (reduce : Bool) (term : Option (γ → γ)) :
    LocalOp α γ where
  σ := Option γ
  init := none
  next := scanNext g seed reduce
  fin := scanFin seed reduce term

/-- rxsci/operators/first.py `first_mux` (bool state, default False) -/
def firstOp {α} : LocalOp α α where
  σ := Bool
  init := false
  next := fun s x => if s then (s, []) else (true, [.item x])
  fin := fun _ => []

/-- rxsci/operators/take.py `take_mux` (int countdown, default `count`) -/
def takeOp {α} (n : Nat) : LocalOp α α where
  σ := Nat
  init := n
  next := fun c x => if c > 0 then (c - 1, [.item x]) else (c, [])
  fin := fun _ => []

/-- rxsci/operators/last.py `last_mux` -/
def lastOp {α} : LocalOp α α where
  σ := Option α
  init := none
  next := fun _ x => (some x, [])
  fin := fun s => match s with | some v => [.item v] | none => []

/-- rxsci/operators/distinct.py: a set of seen keys per mux key; a raising key mapper is fatal -/
def distinctOp {α κ} [DecidableEq κ] (f : α → Except Err κ) : LocalOp α α where
  σ := List κ
  init := []
  next := fun s x =>
    match f x with
    | .error e => (s, [.fatal e])
    | .ok k => if k ∈ s then (s, []) else (k :: s, [.item x])
  fin := fun _ => []

/-- rxsci/data/lag.py `_lag1`: `(previous item or the item itself, item)` -/
def lag1Op {α β} (mk : α → α → β) : LocalOp α β where
  σ := Option α
  init := none
  next := fun s x => (some x, [.item (mk (s.getD x) x)])
  fin := fun _ => []

/-- rxsci/data/lag.py `_lag` (size ≠ 1): deque; append, emit `(q[0], item)`, pop when longer than size -/
def lagOp {α β} (size : Nat) (mk : α → α → β) : LocalOp α β where
  σ := List α
  init := []
  next := fun q x =>
    let q' := q ++ [x]
    (if q'.length > size then q'.tail else q', [.item (mk (q'.headD x) x)])
  fin := fun _ => []

/-- rxsci/data/pad.py `pad_start_mux`: `value = None` means "use the first item" -/
def padStartOp {α} (size : Nat) (value : Option α) : LocalOp α α where
  σ := Bool
  init := false
  next := fun s x =>
    if s then (s, [.item x])
    else (true, (List.replicate size (LOut.item (value.getD x))) ++ [.item x])
  fin := fun _ => []

/-- rxsci/data/pad.py `pad_end_mux`: at completion of a non-empty key, `size` copies of the value
(or of the last item) -/
def padEndOp {α} (size : Nat) (value : Option α) : LocalOp α α where
  σ := Option α
  init := none
  next := fun _ x => (some x, [.item x])
  fin := fun s => match s with
    | some l => List.replicate size (.item (value.getD l))
    | none => []

/-- rxsci/operators/start_with.py -/
def startWithOp {α} (padding : List α) : LocalOp α α where
  σ := Bool
  init := false
  next := fun s x => if s then (s, [.item x]) else (true, padding.map .item ++ [.item x])
  fin := fun _ => []

/-- rxsci/operators/assert_.py `assert_mux`: a false predicate or a raising predicate is
`observer.on_error` -/
def assertOp {α} (p : α → Except Err Bool) (errName : Err) : LocalOp α α where
  σ := Unit
  init := ()
  next := fun _ x => ((), match p x with
    | .ok true => [.item x]
    | .ok false => [.fatal errName]
    | .error e => [.fatal e])
  fin := fun _ => []

/-- rxsci/operators/assert_.py `assert_1` (mux): previous item kept per key; state NOTSET = `none` -/
def assert1Op {α} (p : α → α → Bool) (errName : Err) : LocalOp α α where
  σ := Option α
  init := none
  next := fun s x =>
    (some x, match s with
      | some prev => if p prev x then [.item x] else [.fatal errName]
      | none => [.item x])
  fin := fun _ => []

/-! ## sequential composition of local operators (used by the L2 semantics of pipelines) -/

/-- feed a list of `LOut` to a LocalOp's `next`: items are consumed, errors and fatals pass through -/
def feedL {β γ} (L : LocalOp β γ) : L.σ → List (LOut β) → L.σ × List (LOut γ)
  | s, [] => (s, [])
  | s, .item b :: r => let a := L.next s b; let a2 := feedL L a.1 r; (a2.1, a.2 ++ a2.2)
  | s, .err e :: r => let a := L.onErr s e; let a2 := feedL L a.1 r; (a2.1, a.2 ++ a2.2)
  | s, .fatal e :: r => let a2 := feedL L s r; (a2.1, .fatal e :: a2.2)

def compLocal {α β γ} (L1 : LocalOp α β) (L2 : LocalOp β γ) : LocalOp α γ where
  σ := L1.σ × L2.σ
  init := (L1.init, L2.init)
  next := fun s x =>
    let r1 := L1.next s.1 x
    let r2 := feedL L2 s.2 r1.2
    ((r1.1, r2.1), r2.2)
  fin := fun s =>
    let r2 := feedL L2 s.2 (L1.fin s.1)
    r2.2 ++ L2.fin r2.1
  onErr := fun s e =>
    let r1 := L1.onErr s.1 e
    let r2 := feedL L2 s.2 r1.2
    ((r1.1, r2.1), r2.2)

def idLocal {α} : LocalOp α α :=
  { σ := Unit, init := (), next := fun _ x => ((), [.item x]), fin := fun _ => [] }

/-! ## sequential composition of mux operators: all outputs of `Q1` for one event go through `Q2` -/

def compMux {α β γ} (Q1 : MuxOp α β) (Q2 : MuxOp β γ) : MuxOp α γ where
  S := Q1.S × Q2.S
  init := (Q1.init, Q2.init)
  step := fun s e =>
    let r1 := Q1.step s.1 e
    let r2 := runGroup Q2.step s.2 r1.2
    ((r1.1, r2.1), r2.2)

def idMux {α} : MuxOp α α := ⟨Unit, (), fun _ e => ((), [e])⟩

/-- rxsci/error/ignore.py: drops `OnErrorMux`; also the main-stream side of the error router -/
def ignoreOp {α} : LocalOp α α :=
  { σ := Unit, init := (), next := fun _ x => ((), [.item x]), fin := fun _ => [], onErr := fun _ _ => ((), []) }

/-- rxsci/error/map.py: an `OnErrorMux` becomes an item of the same key, in place;
a raising mapper is `observer.on_error` -/
def mapErrOp {α} (f : Err → Except Err α) : LocalOp α α :=
  { σ := Unit, init := (), next := fun _ x => ((), [.item x]), fin := fun _ => [],
    onErr := fun _ e => ((), match f e with | .ok v => [.item v] | .error e' => [.fatal e']) }

end Rx

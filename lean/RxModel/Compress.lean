/-!
# Streaming compression wrappers (rxsci/compression/z.py, zstd.py)

The compression libraries are NOT modelled: a `StreamCodec` is an abstract pair of streaming
objects (what `zlib.compressobj` / `decompressobj`, `ZstdCompressor().compressobj()` … provide).
What is modelled is rxsci's wrapper logic around them.
-/
namespace Rx

abbrev Bytes := List Nat

/-- what an observer of the wrapper sees -/
inductive WEv where
  | next (b : Bytes)
  | error (e : String)
  | completed
  deriving DecidableEq, Repr

structure StreamCodec where
  C : Type
  D : Type
  cinit : C
  compress : C → Bytes → Except String (C × Bytes)
  cflush : C → Except String Bytes
  dinit : D
  decompress : D → Bytes → Except String (D × Bytes)
  eof : D → Bool
  dflush : D → Except String Bytes

/-- `compress()._compress.on_subscribe`: one output item per input chunk; a library exception is
`on_error` (the observer is then stopped); at completion `flush()` then `on_completed` -/
def compressRun (K : StreamCodec) : K.C → List Bytes → List WEv
  | c, [] =>
    match K.cflush c with
    | .ok d => [.next d, .completed]
    | .error e => [.error e]
  | c, x :: xs =>
    match K.compress c x with
    | .ok (c', d) => .next d :: compressRun K c' xs
    | .error e => [.error e]

/-- `decompress()`: one output item per (non-empty) input chunk; at completion: not at end of
stream → `on_error(RuntimeError)`, else `flush()` then `on_completed`.
`skipEmpty` = the repaired zstd wrapper (an empty chunk is answered with an empty item without
touching the decompressor, which rejects any call after the end of the frame). -/
def decompressRun (K : StreamCodec) (skipEmpty : Bool) : K.D → List Bytes → List WEv
  | d, [] =>
    if K.eof d then
      match K.dflush d with
      | .ok o => [.next o, .completed]
      | .error e => [.error e]
    else [.error "RuntimeError"]
  | d, x :: xs =>
    if skipEmpty && x.isEmpty then .next [] :: decompressRun K skipEmpty d xs
    else
      match K.decompress d x with
      | .ok (d', o) => .next o :: decompressRun K skipEmpty d' xs
      | .error e => [.error e]

def payload : List WEv → Bytes
  | [] => []
  | .next b :: r => b ++ payload r
  | _ :: r => payload r

def completedOK (l : List WEv) : Bool := l.getLast? == some .completed
def failed (l : List WEv) : Bool := l.any (fun e => match e with | .error _ => true | _ => false)

/-! ## the library contract the theorems assume (tested against zlib / zstandard by the harness) -/

/-- feed pieces to a decompressor: final state and concatenated output, or the library's exception -/
def dfeed (K : StreamCodec) : K.D → List Bytes → Except String (K.D × Bytes)
  | d, [] => .ok (d, [])
  | d, x :: xs =>
    match K.decompress d x with
    | .error e => .error e
    | .ok (d', o) =>
      match dfeed K d' xs with
      | .error e => .error e
      | .ok (d'', o') => .ok (d'', o ++ o')

/-- `okPiece` says which pieces the library accepts at any time: every piece for zlib (an empty
piece is a no-op even after the end of the stream), only non-empty ones for zstandard (its
decompressobj rejects ANY call after the end of the frame). -/
structure CodecContract (K : StreamCodec) (okPiece : Bytes → Prop) (z plain : Bytes) : Prop where
  /-- however the bytes of `z` are cut into acceptable pieces, the decompressor accepts them, the
  concatenated output is `plain`, it reports end of stream, and `flush()` adds nothing -/
  whole : ∀ ps : List Bytes, (∀ p ∈ ps, okPiece p) → ps.flatten = z →
    ∃ d, dfeed K K.dinit ps = .ok (d, plain) ∧ K.eof d = true ∧ K.dflush d = .ok []
  /-- on a strict prefix of `z` it never reports end of stream (and does not raise) -/
  prefix_ : ∀ ps : List Bytes, (∀ p ∈ ps, okPiece p) → (∃ rest, rest ≠ [] ∧ ps.flatten ++ rest = z) →
    ∃ d o, dfeed K K.dinit ps = .ok (d, o) ∧ K.eof d = false

end Rx

import RxModel.Bounds
/-!
# First-order descriptions of pipelines over the function catalogue (what the line protocol carries)

`SDesc.toPipe` maps a description to the pipeline it denotes; nothing is proved about descriptions,
they only name elements of `Pipe`.
-/
namespace Rx

inductive SDesc where
  | map (f : Fn1) | starmap (g : Fn2) | filter (f : Fn1) | flatMap
  | scan (g : Fn2) (seed : Val) (r : Bool) (t : Option Fn1)
  | count (r : Bool) | sum (f : Fn1) (r : Bool) | mean (f : Fn1) (r : Bool)
  | min (f : Fn1) (r : Bool) | max (f : Fn1) (r : Bool)
  | variance (f : Fn1) (r : Bool) | stddev (f : Fn1) (r : Bool)
  | fvariance (f : Fn1) (r : Bool) | fstddev (f : Fn1) (r : Bool)
  | first | last | take (n : Nat) | distinct (f : Fn1) | duc (f : Fn1) | lag (n : Nat)
  | padStart (n : Nat) (v : Val) | padEnd (n : Nat) (v : Val) | startWith (vs : List Val)
  | batch (n : Nat) | toList | clip (lo hi : Val) | fillNone (v : Val) | identity
  | assert (f : Fn1) | assert1 (name : String) | ignore | errMap (v : Val) | errMapName
  | groupBy (f : Fn1) (p : List SDesc)
  | roll (w s : Nat) (p : List SDesc)
  | split (f : Fn1) (p : List SDesc)
  | timeSplit (time : Fn1) (active inactive : Option Int) (closing : Option Fn1) (incl : Bool) (p : List SDesc)
  | tee (mode : Join) (bs : List (List SDesc))

def total1 (f : Fn1) : Val → Val := fun v => match f.eval v with | .ok r => r | .error _ => .none

def assert1Pred (name : String) : Val → Val → Bool := fun a b =>
  match name with
  | "lt" => (match Val.lt a b with | .ok r => r | _ => false)
  | "le" => (match Val.lt b a with | .ok r => !r | _ => false)
  | "ne" => a ≠ b
  | _ => true

instance : Inhabited Pipe := ⟨.nil⟩

mutual
partial def SDesc.toPipe : SDesc → Pipe
  | .map f => .ofList [D.map f.eval]
  | .starmap g => .ofList [D.map (fun v => g.eval (v.nth 0) (v.nth 1))]
  | .filter f => .ofList [D.filter f.eval]
  | .flatMap => .ofList [D.flatMap]
  | .scan g seed r t => .ofList [D.scanTyped g.eval seed r (t.map total1)]
  | .count r => .ofList [D.count r]
  | .sum f r => .ofList [D.sum f.eval r]
  | .mean f r => D.mean f.eval r
  | .min f r => .ofList [D.minmax false f.eval r]
  | .max f r => .ofList [D.minmax true f.eval r]
  | .variance f r => D.variance f.eval r
  | .stddev f r => D.stddev f.eval r
  | .fvariance f r => D.fvariance f.eval r
  | .fstddev f r => D.fstddev f.eval r
  | .first => .ofList [D.first]
  | .last => .ofList [D.last]
  | .take n => .ofList [D.take n]
  | .distinct f => .ofList [D.distinct f.eval]
  | .duc f => D.duc f.eval
  | .lag n => .ofList [D.lag n]
  | .padStart n v => .ofList [D.padStart n v]
  | .padEnd n v => .ofList [D.padEnd n v]
  | .startWith vs => .ofList [D.startWith vs]
  | .batch n => D.batch n
  | .toList => .ofList [D.toList]
  | .clip lo hi => .ofList [D.clip lo hi]
  | .fillNone v => .ofList [D.fillNone v]
  | .identity => .ofList [D.identity]
  | .assert f => .ofList [D.assertS f.eval]
  | .assert1 name => .ofList [D.assert1 (assert1Pred name)]
  | .ignore => .ofList [D.ignore]
  | .errMap v => .ofList [D.errMap (fun _ => .ok v)]
  | .errMapName => .ofList [D.errMap (fun e => .ok (.str e))]
  | .groupBy f p => .ofList [D.groupBy (total1 f) (descsToPipe p)]
  | .roll w s p => .ofList [D.roll w s (descsToPipe p)]
  | .split f p => .ofList [D.split (total1 f) (descsToPipe p)]
  | .timeSplit tm a i c incl p =>
    let tmf : Val → Int := fun v => match total1 tm v with | .int i => i | _ => 0
    .ofList [D.timeSplit ⟨tmf, a, i, c.map (fun f v => total1 f v = .bool true), incl⟩ (descsToPipe p)]
  | .tee mode bs => .ofList [.tee mode (Pipes.ofList (bs.map descsToPipe))]
partial def descsToPipe : List SDesc → Pipe
  | [] => .nil
  | d :: r => d.toPipe.append (descsToPipe r)
end

end Rx

import RxModel.Framing
/-!
# CSV dump / parse (rxsci/container/csv.py)

Text is `List Char`.  Python's `str.replace(old, new)` and `str.split(sep)` are modelled as the
left-to-right non-overlapping scans they are.  Float fields are carried as the token `str(x)`
produced by Python (printing / parsing of floats is a library contract, see DESIGN).
-/
namespace Rx

abbrev Str := List Char

/-- `s.startswith(p)` -/
def startsWith (p : Str) (s : Str) : Bool := s.take p.length == p

/-- `s.replace(old, new)` for non-empty `old` (fuel = length of `s`) -/
def pyReplaceAux (old new : Str) : Nat → Str → Str
  | 0, s => s
  | _, [] => []
  | f+1, c :: s =>
    if startsWith old (c :: s) then new ++ pyReplaceAux old new f ((c :: s).drop old.length)
    else c :: pyReplaceAux old new f s

def pyReplace (old new s : Str) : Str := if old = [] then s else pyReplaceAux old new (s.length + 1) s

/-- `s.split(sep)` for non-empty `sep`: pieces (current piece accumulated in `cur`) -/
def pySplitAux (sep : Str) : Nat → Str → Str → List Str
  | 0, cur, _ => [cur]
  | _, cur, [] => [cur]
  | f+1, cur, c :: s =>
    if startsWith sep (c :: s) then cur :: pySplitAux sep f [] ((c :: s).drop sep.length)
    else pySplitAux sep f (cur ++ [c]) s

/-- `s.split(sep)`; for a one-character separator this is `splitC` (shared with line framing) -/
def pySplit (sep s : Str) : List Str :=
  match sep with
  | [c] => splitC c s
  | _ => pySplitAux sep (s.length + 1) [] s

/-- `s.replace(a, new)` for a one-character `a` -/
def replace1 (a : Char) (new : Str) (s : Str) : Str := s.flatMap fun c => if c = a then new else [c]

/-- `s.replace(a + b, new)` for a two-character pattern: left-to-right, non-overlapping -/
def replace2 (a b : Char) (new : Str) : Str → Str
  | [] => []
  | [c] => [c]
  | c :: d :: r => if c = a ∧ d = b then new ++ replace2 a b new r else c :: replace2 a b new (d :: r)

def joinWith (sep : Str) : List Str → Str
  | [] => []
  | [a] => a
  | a :: b :: r => a ++ sep ++ joinWith sep (b :: r)

/-! ## fields -/

inductive CsvField where
  | int (i : Int)
  | float (token : Str)      -- `str(x)` of a float
  | bool (b : Bool)
  | str (s : Str)
  | none
  deriving DecidableEq, Repr

inductive CsvType where
  | int | float | bool | str
  deriving DecidableEq, Repr

def digitsRev : Nat → Nat → List Char
  | 0, _ => []
  | f+1, n => if n < 10 then [Char.ofNat (48 + n)] else Char.ofNat (48 + n % 10) :: digitsRev f (n / 10)

/-- `str(n)` for an int -/
def showNat (n : Nat) : Str := (digitsRev (n + 1) n).reverse
def showInt (i : Int) : Str := if i < 0 then '-' :: showNat i.natAbs else showNat i.natAbs

def readNat (s : Str) : Option Nat :=
  if s = [] then none
  else s.foldl (fun acc c => acc.bind fun a => if c.isDigit then some (a * 10 + (c.toNat - 48)) else none) (some 0)

/-- `int(s)` on what `str(int)` produces (an optional sign and decimal digits) -/
def readInt (s : Str) : Option Int :=
  match s with
  | '-' :: r => (readNat r).map fun n => -(n : Int)
  | _ => (readNat s).map fun n => (n : Int)

/-- csv.dump: a str is escaped (escape char doubled, then quotes escaped) and quoted -/
def escapeStr (esc : Char) (s : Str) : Str :=
  replace1 '"' [esc, '"'] (replace1 esc [esc, esc] s)

def dumpField (esc : Char) : CsvField → Str
  | .int i => showInt i
  | .float t => t
  | .bool b => if b then "True".toList else "False".toList
  | .str s => ['"'] ++ escapeStr esc s ++ ['"']
  | .none => []

def dumpRow (sep : Str) (esc : Char) (row : List CsvField) : Str :=
  joinWith sep (row.map (dumpField esc)) ++ ['\n']

/-! ## parsing -/

/-- the part ends with a quote that is not escaped: an even number of escape characters precede it
(repaired test; the original looked at one character only) -/
def closingQuote (esc : Char) (t : Str) : Bool :=
  match t.reverse with
  | '"' :: r => (r.takeWhile (· == esc)).length % 2 == 0
  | _ => false

/-- `merge_escape_parts`: re-join the pieces of quoted fields that contained the separator -/
def mergeParts (sep : Str) (esc : Char) : Option (List Str) → List Str → List Str
  | _, [] => []
  | agg, t :: ts =>
    if t = ['"'] then
      match agg with
      | none => mergeParts sep esc (some [['"']]) ts
      | some a => joinWith sep (a ++ [['"']]) :: mergeParts sep esc none ts
    else if t.head? = some '"' ∧ closingQuote esc t ∧ agg = none then
      t :: mergeParts sep esc none ts
    else if closingQuote esc t ∧ agg ≠ none then
      match agg with
      | some a => joinWith sep (a ++ [t]) :: mergeParts sep esc none ts
      | none => t :: mergeParts sep esc none ts
    else if t.head? = some '"' ∧ agg = none then
      mergeParts sep esc (some [t]) ts
    else match agg with
      | some a => mergeParts sep esc (some (a ++ [t])) ts
      | none => t :: mergeParts sep esc none ts

/-- strip the quotes and undo the escaping: two sequential `replace` calls, as the code does -/
def unquote (esc : Char) (i : Str) : Str :=
  if i.length > 0 ∧ i.head? = some '"' ∧ i.getLast? = some '"' then
    replace2 esc '"' ['"'] (replace2 esc esc [esc] ((i.drop 1).dropLast))
  else i

def parseField (ty : CsvType) (i : Str) : Except String CsvField :=
  match ty with
  | .int => if i = [] then .ok .none else match readInt i with | some n => .ok (.int n) | none => .error "ValueError"
  | .float => if i = [] then .ok .none else .ok (.float i)
  | .bool => .ok (.bool (i = "True".toList))
  | .str => .ok (.str i)

def parseLine (sep : Str) (esc : Char) (types : List CsvType) (line : Str) : Except String (List CsvField) :=
  let parts := pySplit sep line
  let parts := if parts.length ≠ types.length then mergeParts sep esc none parts else parts
  if parts.length ≠ types.length then .error "ValueError"
  else (parts.zip types).mapM fun p => parseField p.2 (unquote esc p.1)

end Rx

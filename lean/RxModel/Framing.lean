/-!
# Framing (rxsci/framing/line.py, rxsci/framing/length_prefix.py)

Executable model of the two streaming un-framers.  Text is `List Char`, bytes are `List Nat`
(prefix digits are `< 256` by construction, payload bytes are arbitrary).

Every consumer is `feed : carry → chunk → outputs × carry` plus `finish`.
-/
namespace Rx

/-! ## Python `str.split(sep)` for a one-character separator -/

/-- `s.split(sep)`: always at least one piece; `"".split("\n") = [""]`. -/
def splitC {α} [DecidableEq α] (sep : α) : List α → List (List α)
  | [] => [[]]
  | c :: cs =>
    if c = sep then [] :: splitC sep cs
    else match splitC sep cs with
      | [] => [[c]]
      | p :: ps => (c :: p) :: ps

/-- last piece (`lines[-1]`) -/
def lastP {α} (l : List (List α)) : List α := l.getLastD []

/-! ## line.unframe -/

/-- `on_next` of `line.unframe`, generic in the character type (`nl` = the newline):
```
lines = i.split('\n'); lines[0] = acc + lines[0]; acc = lines[-1] or ''
for line in lines[0:-1]: observer.on_next(line)
```
returns (emitted lines, new acc). -/
def lineFeedG {α} [DecidableEq α] (nl : α) (acc : List α) (chunk : List α) : List (List α) × List α :=
  let lines := splitC nl chunk
  match lines with
  | [] => ([], acc)                      -- unreachable: split never returns []
  | l0 :: rest =>
    let lines' := (acc ++ l0) :: rest
    (lines'.dropLast, lastP lines')

/-- `on_completed` of `line.unframe`: a non-empty carry is delivered once. -/
def lineFinishG {α} (acc : List α) : List (List α) :=
  if acc.length > 0 then [acc] else []

/-- run over a chunk list: per-chunk outputs, then the completion outputs -/
def lineRunG {α} [DecidableEq α] (nl : α) : List α → List (List α) → List (List (List α)) × List (List α)
  | acc, [] => ([], lineFinishG acc)
  | acc, c :: cs =>
    let r := lineFeedG nl acc c
    let r2 := lineRunG nl r.2 cs
    (r.1 :: r2.1, r2.2)

def lineFeed (acc : List Char) (chunk : List Char) : List (List Char) × List Char := lineFeedG '\n' acc chunk
def lineFinish (acc : List Char) : List (List Char) := lineFinishG acc
def lineRun (acc : List Char) (cs : List (List Char)) : List (List (List Char)) × List (List Char) := lineRunG '\n' acc cs

/-- `line.frame`: `''.join([i, '\n'])` -/
def lineFrame (s : List Char) : List Char := s ++ ['\n']

/-! ## length_prefix -/

def toBytesLE : Nat → Nat → List Nat
  | 0, _ => []
  | p+1, n => (n % 256) :: toBytesLE p (n / 256)

def fromBytesLE : List Nat → Nat
  | [] => 0
  | b :: bs => b + 256 * fromBytesLE bs

/-- `int.to_bytes(p, byteorder)` / `int.from_bytes(.., byteorder)`; `big = false` is little endian -/
def toBytes (big : Bool) (p n : Nat) : List Nat :=
  if big then (toBytesLE p n).reverse else toBytesLE p n
def fromBytes (big : Bool) (l : List Nat) : Nat :=
  if big then fromBytesLE l.reverse else fromBytesLE l

/-- `length_prefix.frame` for an item that fits (`len < 256^p`); `none` = the code's error path
    (`len > mtu` → on_error; `len = mtu` → OverflowError from `to_bytes`). -/
def lpFrame (big : Bool) (p : Nat) (item : List Nat) : Option (List Nat) :=
  if item.length < 256 ^ p then some (toBytes big p item.length ++ item) else none

/-- the `while` loop of `length_prefix.unframe.on_next` over the buffer `acc + chunk`:
    returns (frames delivered, bytes carried over).  `p = 0` would loop forever in the real
    code; the model requires fuel-free termination and therefore treats `p = 0` as "deliver nothing". -/
def lpParse (big : Bool) (p : Nat) (buf : List Nat) : List (List Nat) × List Nat :=
  if h : 0 < p ∧ p ≤ buf.length then
    let size := fromBytes big (buf.take p)
    if h2 : size ≤ buf.length - p then
      let r := lpParse big p (buf.drop (p + size))
      (((buf.drop p).take size) :: r.1, r.2)
    else ([], buf)
  else ([], buf)
termination_by buf.length
decreasing_by
  simp only [List.length_drop]
  omega

def lpFeed (big : Bool) (p : Nat) (acc chunk : List Nat) : List (List Nat) × List Nat :=
  lpParse big p (acc ++ chunk)

/-- per-chunk outputs and final carry (never delivered: `on_completed` just completes) -/
def lpRun (big : Bool) (p : Nat) : List Nat → List (List Nat) → List (List (List Nat)) × List Nat
  | acc, [] => ([], acc)
  | acc, c :: cs =>
    let r := lpFeed big p acc c
    let r2 := lpRun big p r.2 cs
    (r.1 :: r2.1, r2.2)

end Rx

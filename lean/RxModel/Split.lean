import RxModel.Ops
/-!
# Splitting operators (L1): group_by, roll (ring and tumbling), split, time_split

Each splitter is the `on_next` handler of the corresponding `*_mux` function, written branch for
branch, over an index-addressed state (`Nat → …`, the store arrays).  A step returns the events sent
to the inner pipeline (`observer.on_next`) and the events sent around it (`outer_observer.on_next`).
`wrap` composes a splitter with an arbitrary inner mux operator and `demux_mux_observable`.
-/
namespace Rx

/-- events that travel around the inner pipeline (`outer_observer`): they never carry an item -/
inductive OEv where
  | create (k : Key)
  | done (k : Key)
  | err (k : Key) (e : Err)
  | fatal (e : Err)
  deriving Repr, DecidableEq

def OEv.toEv {β} : OEv → Ev β
  | .create k => .create k
  | .done k => .done k
  | .err k e => .err k e
  | .fatal e => .fatal e

structure Splitter (α : Type) where
  S : Type
  init : S
  step : S → Ev α → S × List (Ev α) × List OEv

/-- inner key of the sequential splitters: `(key[0], key)` -/
def ik (k : Key) : Key := k.idx :: k

/-! ## split (rxsci/data/split.py) -/

/-- slot: `none` = no key / cleared; `some none` = NOTSET; `some (some c)` = current predicate -/
abbrev SpSt (κ : Type) := Nat → Option (Option κ)

def splitStep {α κ} [DecidableEq κ] (p : α → κ) (st : SpSt κ) : Ev α → SpSt κ × List (Ev α) × List OEv
  | .create k => (upd st k.idx (some none), [], [.create k])
  | .next k x =>
    match st k.idx with
    | some none => (upd st k.idx (some (some (p x))), [.create (ik k), .next (ik k) x], [])
    | some (some c) =>
      if p x ≠ c then (upd st k.idx (some (some (p x))), [.done (ik k), .create (ik k), .next (ik k) x], [])
      else (st, [.next (ik k) x], [])
    | none => (st, [], [])
  | .done k =>
    -- no del_key in the code: the slot keeps its value until the next add_key
    match st k.idx with
    | some (some _) => (st, [.done (ik k)], [.done k])
    | _ => (st, [], [.done k])
  | .err k e =>
    match st k.idx with
    | some (some _) => (st, [.err (ik k) e], [.err k e])
    | _ => (st, [], [.err k e])
  | .fatal e => (st, [.fatal e], [])

def splitSp {α κ} [DecidableEq κ] (p : α → κ) : Splitter α := ⟨SpSt κ, fun _ => none, splitStep p⟩

/-! ## time_split (rxsci/data/time_split.py); timestamps and timeouts are integers -/

structure TsCfg (α : Type) where
  time : α → Int
  active : Option Int
  inactive : Option Int
  closing : Option (α → Bool)
  incl : Bool

/-- `closing_mapper is not None and closing_mapper(item) is True` -/
def TsCfg.closes {α} (c : TsCfg α) (x : α) : Bool :=
  match c.closing with | some f => f x | none => false

def tsExpired {α} (c : TsCfg α) (start last new : Int) : Bool :=
  (match c.active with | some a => decide (new ≥ start + a) | none => false) ||
  (match c.inactive with | some b => decide (new ≥ last + b) | none => false)

/-- slot: `none` = no key; `some none` = NOTSET; `some (some (start, last))` -/
abbrev TsSt := Nat → Option (Option (Int × Int))

def tsStep {α} (c : TsCfg α) (st : TsSt) : Ev α → TsSt × List (Ev α) × List OEv
  | .create k => (upd st k.idx (some none), [], [.create k])
  | .next k x =>
    let t := c.time x
    match st k.idx with
    | none => (st, [], [])
    | some cur =>
      -- first item of the key: start = last = t, window created
      let (start, last, pre) := match cur with
        | none => (t, t, [Ev.create (ik k)])
        | some (s, l) => (s, l, [])
      if tsExpired c start last t then
        (upd st k.idx (some (some (t, t))), pre ++ [.done (ik k), .create (ik k), .next (ik k) x], [])
      else if c.closes x then
        if c.incl then
          (upd st k.idx (some (some (t, t))), pre ++ [.next (ik k) x, .done (ik k), .create (ik k)], [])
        else
          (upd st k.idx (some (some (t, t))), pre ++ [.done (ik k), .create (ik k), .next (ik k) x], [])
      else
        (upd st k.idx (some (some (start, t))), pre ++ [.next (ik k) x], [])
  | .done k =>
    match st k.idx with
    | some (some _) => (upd st k.idx none, [.done (ik k)], [.done k])
    | _ => (upd st k.idx none, [], [.done k])
  | .err k e =>
    match st k.idx with
    | some (some _) => (upd st k.idx none, [.err (ik k) e], [.err k e])
    | _ => (upd st k.idx none, [], [.err k e])
  | .fatal e => (st, [.fatal e], [])

def timeSplitSp {α} (c : TsCfg α) : Splitter α := ⟨TsSt, fun _ => none, tsStep c⟩

/-! ## roll, window = stride (rxsci/data/roll.py `_roll_count`) -/

def rollCountStep {α} (w : Nat) (st : Nat → Option Nat) : Ev α → (Nat → Option Nat) × List (Ev α) × List OEv
  | .create k => (upd st k.idx (some 0), [], [.create k])
  | .next k x =>
    match st k.idx with
    | none => (st, [], [])
    | some c =>
      let pre := if c = 0 then [Ev.create (ik k)] else []
      if c + 1 = w then (upd st k.idx (some 0), pre ++ [.next (ik k) x, .done (ik k)], [])
      else (upd st k.idx (some (c + 1)), pre ++ [.next (ik k) x], [])
  | .done k =>
    match st k.idx with
    | some c => (upd st k.idx none, if c > 0 then [.done (ik k)] else [], [.done k])
    | none => (st, [], [.done k])
  | .err k e =>
    match st k.idx with
    | some c => (upd st k.idx none, if c > 0 then [.err (ik k) e] else [], [.err k e])
    | none => (st, [], [.err k e])
  | .fatal e => (st, [.fatal e], [])

def rollCountSp {α} (w : Nat) : Splitter α := ⟨Nat → Option Nat, fun _ => none, rollCountStep w⟩

/-! ## roll, window ≠ stride (rxsci/data/roll.py `_roll`): item counter + ring of `density` slots -/

def density (w s : Nat) : Nat := w / s + (if w % s = 0 then 0 else 1)

/-- window key of ring slot `o` of parent `k`: `(k[0]*density + o, k)` -/
def wk (d : Nat) (k : Key) (o : Nat) : Key := (k.idx * d + o) :: k

structure RollSt where
  n : Nat → Option Nat          -- state_n: items seen by the key
  w : Nat → Option Nat          -- state_w: index of the first item of the window in that slot (none = -1)

/-- the `for offset in range(density)` loop of `on_next`: deliver the item to every open window,
close the ones that are full.  Returns the new slot array and the inner events. -/
def rollDeliver {α} (w d : Nat) (k : Key) (x : α) (n : Nat) :
    Nat → (Nat → Option Nat) → (Nat → Option Nat) × List (Ev α)
  | 0, ws => (ws, [])
  | o+1, ws =>
    -- offsets are visited in increasing order: process offset (d - (o+1)) first
    let off := d - (o + 1)
    let idx := k.idx * d + off
    match ws idx with
    | some n0 =>
      if n - n0 + 1 = w then
        let r := rollDeliver w d k x n o (upd ws idx none)
        (r.1, [Ev.next (wk d k off) x, Ev.done (wk d k off)] ++ r.2)
      else
        let r := rollDeliver w d k x n o ws
        (r.1, [Ev.next (wk d k off) x] ++ r.2)
    | none => rollDeliver w d k x n o ws

/-- the flush loop at completion/error of the parent: every open slot, oldest window first.
The open windows are consecutive (`j .. jmax`) and live in slots `j % d`, so walking the ring from
slot `(jmax + 1) % d` visits them in opening order (repaired code; the original walked offsets
`0 .. d-1`). -/
def rollFlush {α} (d : Nat) (k : Key) (mk : Key → Ev α) (first : Nat) :
    Nat → (Nat → Option Nat) → (Nat → Option Nat) × List (Ev α)
  | 0, ws => (ws, [])
  | o+1, ws =>
    let off := (first + (d - (o + 1))) % d
    let idx := k.idx * d + off
    match ws idx with
    | some _ =>
      let r := rollFlush d k mk first o (upd ws idx none)
      (r.1, mk (wk d k off) :: r.2)
    | none => rollFlush d k mk first o ws

def clearSlots (d : Nat) (k : Key) : Nat → (Nat → Option Nat) → (Nat → Option Nat)
  | 0, ws => ws
  | o+1, ws => clearSlots d k o (upd ws (k.idx * d + o) none)

def rollStep {α} (w s : Nat) (st : RollSt) : Ev α → RollSt × List (Ev α) × List OEv
  | .create k =>
    let d := density w s
    (⟨upd st.n k.idx (some 0), clearSlots d k d st.w⟩, [], [.create k])
  | .next k x =>
    let d := density w s
    match st.n k.idx with
    | none => (st, [], [])
    | some n =>
      let (ws1, pre) :=
        if n % s = 0 then
          let off := (n / s) % d
          (upd st.w (k.idx * d + off) (some n), [Ev.create (wk d k off)])
        else (st.w, [])
      let r := rollDeliver w d k x n d ws1
      (⟨upd st.n k.idx (some (n + 1)), r.1⟩, pre ++ r.2, [])
  | .done k =>
    let d := density w s
    let n := (st.n k.idx).getD 0
    let r := rollFlush d k (fun ki => Ev.done ki) (((n + s - 1) / s) % d) d st.w
    (⟨upd st.n k.idx (some 0), r.1⟩, r.2, [.done k])
  | .err k e =>
    let d := density w s
    let n := (st.n k.idx).getD 0
    let r := rollFlush d k (fun ki => Ev.err ki e) (((n + s - 1) / s) % d) d st.w
    (⟨upd st.n k.idx (some 0), r.1⟩, r.2, [.err k e])
  | .fatal e => (st, [.fatal e], [])

def rollRingSp {α} (w s : Nat) : Splitter α := ⟨RollSt, ⟨fun _ => none, fun _ => none⟩, rollStep w s⟩

/-- `roll_mux` picks the tumbling implementation when window = stride -/
def rollSp {α} (w s : Nat) : Splitter α := if w = s then rollCountSp w else rollRingSp w s

/-! ## group_by (rxsci/operators/group_by.py + the mapper store) -/

structure GbSt (κ : Type) where
  maps : Nat → Option (List (κ × Nat))     -- per parent slot: dict map_key → index, insertion order
  next : Nat                               -- `next_index` of the mapper store (free_slots is never filled)

def gbLookup {κ} [DecidableEq κ] (m : List (κ × Nat)) (g : κ) : Option Nat :=
  (m.find? (fun p => p.1 = g)).map (·.2)

def gbStep {α κ} [DecidableEq κ] (f : α → κ) (st : GbSt κ) : Ev α → GbSt κ × List (Ev α) × List OEv
  | .create k => (⟨upd st.maps k.idx (some []), st.next⟩, [], [.create k])
  | .next k x =>
    match st.maps k.idx with
    | none => (st, [], [])
    | some m =>
      match gbLookup m (f x) with
      | some i => (st, [.next (i :: k) x], [])
      | none =>
        let i := st.next
        (⟨upd st.maps k.idx (some (m ++ [(f x, i)])), st.next + 1⟩, [.create (i :: k), .next (i :: k) x], [])
  | .done k =>
    match st.maps k.idx with
    | some m => (⟨upd st.maps k.idx none, st.next⟩, m.map (fun p => Ev.done (p.2 :: k)), [.done k])
    | none => (st, [], [.done k])
  | .err k e =>
    match st.maps k.idx with
    | some m => (⟨upd st.maps k.idx none, st.next⟩, m.map (fun p => Ev.err (p.2 :: k) e), [.err k e])
    | none => (st, [], [.err k e])
  | .fatal e => (st, [.fatal e], [])

def groupBySp {α κ} [DecidableEq κ] (f : α → κ) : Splitter α := ⟨GbSt κ, ⟨fun _ => none, 0⟩, gbStep f⟩

/-! ## wrap: splitter ∘ inner pipeline ∘ demux_mux_observable -/

/-- rxsci/operators/multiplex.py `demux_mux_observable.on_next`: items go up one key level, an inner
`OnErrorMux` is `observer.on_error`, inner create/completion events are dropped -/
def demuxEv {β} : Ev β → List (Ev β)
  | .next (_ :: k) v => [.next k v]
  | .next [] _ => []
  | .err _ e => [.fatal e]
  | .fatal e => [.fatal e]
  | .create _ => []
  | .done _ => []

def demux {β} (l : List (Ev β)) : List (Ev β) := l.flatMap demuxEv

def wrap {α β} (sp : Splitter α) (Q : MuxOp α β) : MuxOp α β where
  S := sp.S × Q.S
  init := (sp.init, Q.init)
  step := fun st e =>
    let r := sp.step st.1 e
    let q := runGroup Q.step st.2 r.2.1
    ((r.1, q.1), demux q.2 ++ r.2.2.map OEv.toEv)

end Rx

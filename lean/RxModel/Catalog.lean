import RxModel.Val
import RxModel.Event
/-!
# Catalogue of named user functions shared by the driver and the Python harness

Only used when the model is *executed*; theorems quantify over arbitrary functions.
The Python twins live in `/verif/harness/catalog.py`.
-/
namespace Rx

inductive Fn1 where
  | id
  | add (k : Int)
  | mul (k : Int)
  | mod (k : Nat)            -- k > 0
  | neg
  | isEven                   -- bool
  | lt (k : Int)             -- bool
  | gt (k : Int)             -- bool
  | modEq (k : Nat) (r : Nat) -- bool: x % k == r
  | nth (i : Nat)
  | const (v : Val)
  | rangeList                -- n ↦ [0..n)
  | divInto (k : Int)        -- k / x   (ZeroDivisionError)
  | raiseIfMod (k r : Nat) (exc : String := "ValueError")   -- raise the named exception when x % k == r else x
  | truthyInt                -- x % 2 as an int (truthy but not a bool)
  | floordiv (k : Nat)       -- x // k, k > 0
  | pairSelf                 -- (x, x)
  | freeze                   -- list ↦ tuple
  | len
  | noneIfMod (k r : Nat)    -- None when x % k == r else x
  | strOf                    -- str(x) for ints
  | bigOf                    -- x + 10**30 (equal-but-not-identical large ints)
  | keyOf                    -- (x % 3, "g"): an equal-but-not-identical tuple key

def intOf (v : Val) : Except Err Int :=
  match v with
  | .int i => .ok i
  | .bool b => .ok (if b then 1 else 0)
  | _ => .error "TypeError"

def Fn1.eval : Fn1 → Val → Except Err Val
  | .id, v => .ok v
  | .add k, v => Val.add v (.int k)
  | .mul k, v => Val.mul v (.int k)
  | .mod k, v => do let i ← intOf v; pure (.int (i % (k : Int)))
  | .neg, v => Val.sub (.int 0) v
  | .isEven, v => do let i ← intOf v; pure (.bool (i % 2 == 0))
  | .lt k, v => do let b ← Val.lt v (.int k); pure (.bool b)
  | .gt k, v => do let b ← Val.lt (.int k) v; pure (.bool b)
  | .modEq k r, v => do let i ← intOf v; pure (.bool (i % (k : Int) == (r : Int)))
  | .nth i, v => match v.elems with
      | some l => (match l[i]? with | some x => .ok x | none => .error "IndexError")
      | none => .error "TypeError"
  | .const c, _ => .ok c
  | .rangeList, v => do
      let i ← intOf v
      pure (Val.lst ((List.range i.toNat).map fun j => Val.int (j : Nat)))
  | .divInto k, v => Val.div (.int k) v
  | .raiseIfMod k r exc, v => do
      let i ← intOf v
      if i % (k : Int) == (r : Int) then .error exc else pure v
  | .truthyInt, v => do let i ← intOf v; pure (.int (i % 2))
  | .floordiv k, v => do let i ← intOf v; pure (.int (i / (k : Int)))
  | .pairSelf, v => .ok (Val.tup [v, v])
  | .freeze, v => match v with
      | .list l => .ok (.tuple l)
      | .tuple l => .ok (.tuple l)
      | _ => .error "TypeError"
  | .len, v => match v.elems with
      | some l => .ok (.int l.length)
      | none => .error "TypeError"
  | .noneIfMod k r, v => do
      let i ← intOf v
      if i % (k : Int) == (r : Int) then pure .none else pure v
  | .strOf, v => do let i ← intOf v; pure (.str (toString i))
  | .bigOf, v => do let i ← intOf v; pure (.int (i + 10 ^ 30))
  | .keyOf, v => do let i ← intOf v; pure (Val.tup [.int (i % 3), .str "g"])

inductive Fn2 where
  | add
  | sub
  | max
  | min
  | append            -- acc + [x]  (Python: acc.append(x); return acc)
  | count
  | last
  | raiseIfMod (k r : Nat) (exc : String := "ValueError")   -- raise the named exception when x % k == r else acc + x
  | pairLast          -- (acc_last_count + 1, x)
  | appendFst         -- acc = (list, n): acc[0].append(x); return (acc[0], n + 1)   (a tuple seed holding a mutable list)
  | appendRaiseIfMod (k r : Nat) (exc : String := "ValueError")   -- acc + [x], raising the named exception when x % k == r
                      -- (Python: acc.append(x) FIRST, then the test: the real function has already changed the object it was
                      -- given when it raises; the harness uses it only where that object is a seed copy nobody else holds)
  deriving Repr

def Fn2.eval : Fn2 → Val → Val → Except Err Val
  | .add, a, x => Val.add a x
  | .sub, a, x => Val.sub a x
  | .max, a, x => do let b ← Val.lt a x; pure (if b then x else a)
  | .min, a, x => do let b ← Val.lt x a; pure (if b then x else a)
  | .append, a, x => match a with
      | .list l => .ok (Val.lst (l.toList ++ [x]))
      | _ => .error "AttributeError"
  | .count, a, _ => Val.add a (.int 1)
  | .last, _, x => .ok x
  | .raiseIfMod k r exc, a, x => do
      let i ← intOf x
      if i % (k : Int) == (r : Int) then .error exc else Val.add a x
  | .pairLast, a, x => do
      let c ← Val.add (a.nth 0) (.int 1)
      pure (Val.tup [c, x])
  | .appendFst, a, x => do
      let c ← Val.add (a.nth 1) (.int 1)
      match a.nth 0 with
      | .list l => pure (Val.tup [Val.lst (l.toList ++ [x]), c])
      | _ => .error "AttributeError"
  | .appendRaiseIfMod k r exc, a, x => match a with
      | .list l => do
          let i ← intOf x
          if i % (k : Int) == (r : Int) then .error exc else pure (Val.lst (l.toList ++ [x]))
      | _ => .error "AttributeError"

end Rx

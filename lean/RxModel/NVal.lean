import RxModel.PyAlg
/-!
# Exact-arithmetic Python values: the algebra in which the numeric theorems are proved about the
generated kernels

`NVal` interprets Python's `int` and `float` alike as exact rationals (`Rat` of core Lean): integer
arithmetic is exact in Python anyway, and "the mathematically exact statistic" of C12 is what the code
computes when every float operation is replaced by the exact one.  Rounding is what the Float
instance (`Val`) adds; it is compared bit for bit with CPython by the correspondence check and bounded
by `C12_sum_rounding`.  `math.sqrt` has no exact counterpart and is an error here.
-/
namespace Rx

inductive NVal where
  | none
  | bool (b : Bool)
  | num (q : Rat)
  | tup (l : List NVal)
  | lst (l : List NVal)

namespace NVal

instance : Inhabited NVal := ⟨.none⟩

def nth : NVal → Nat → NVal
  | .tup l, i => l.getD i .none
  | .lst l, i => l.getD i .none
  | _, _ => .none

def arith (f : Rat → Rat → Rat) : NVal → NVal → Except Err NVal
  | .num a, .num b => .ok (.num (f a b))
  | _, _ => .error "TypeError"

def div : NVal → NVal → Except Err NVal
  | .num a, .num b => if b = 0 then .error "ZeroDivisionError" else .ok (.num (a / b))
  | _, _ => .error "TypeError"

def ratPow (q : Rat) : Nat → Rat
  | 0 => 1
  | n + 1 => ratPow q n * q

def pow : NVal → NVal → Except Err NVal
  | .num a, .num b => if b.den = 1 ∧ 0 ≤ b.num then .ok (.num (ratPow a b.num.toNat)) else .error "unsupported-exponent"
  | _, _ => .error "TypeError"

def lt : NVal → NVal → Except Err Bool
  | .num a, .num b => .ok (decide (a < b))
  | _, _ => .error "TypeError"

def le : NVal → NVal → Except Err Bool
  | .num a, .num b => .ok (decide (a ≤ b))
  | _, _ => .error "TypeError"

def elems : NVal → Except Err (List NVal)
  | .tup l => .ok l
  | .lst l => .ok l
  | _ => .error "TypeError"

def len : NVal → Except Err NVal
  | .tup l => .ok (.num l.length)
  | .lst l => .ok (.num l.length)
  | _ => .error "TypeError"

def append : NVal → NVal → Except Err NVal
  | .lst l, x => .ok (.lst (l ++ [x]))
  | _, _ => .error "AttributeError"

/-- builtin `sum`: `0 + x₀ + x₁ + …` from the left -/
def sumList : NVal → List NVal → Except Err NVal
  | acc, [] => .ok acc
  | acc, x :: r => match arith (· + ·) acc x with
    | .ok a => sumList a r
    | .error e => .error e

def sum (v : NVal) : Except Err NVal :=
  match elems v with
  | .ok l => sumList (.num 0) l
  | .error e => .error e

def isNone : NVal → Bool
  | .none => true
  | _ => false

def isTrue : NVal → Bool
  | .bool true => true
  | _ => false

def isFalse : NVal → Bool
  | .bool false => true
  | _ => false

def truthy : NVal → Bool
  | .none => false
  | .bool b => b
  | .num q => q != 0
  | .tup l => !l.isEmpty
  | .lst l => !l.isEmpty

mutual
def beq : NVal → NVal → Bool
  | .none, .none => true
  | .bool a, .bool b => a == b
  | .num a, .num b => a == b
  | .tup a, .tup b => beqList a b
  | .lst a, .lst b => beqList a b
  | _, _ => false
def beqList : List NVal → List NVal → Bool
  | [], [] => true
  | a :: r, b :: s => beq a b && beqList r s
  | _, _ => false
end

end NVal

instance : PyAlg NVal where
  none := .none
  bool := .bool
  int := fun i => .num i
  flit := fun n d => .num ((n : Rat) / (d : Rat))
  tup := .tup
  lst := .lst
  nth := NVal.nth
  isNone := NVal.isNone
  isTrue := NVal.isTrue
  isFalse := NVal.isFalse
  truthy := NVal.truthy
  eq := NVal.beq
  add := NVal.arith (· + ·)
  sub := NVal.arith (· - ·)
  mul := NVal.arith (· * ·)
  div := NVal.div
  pow := NVal.pow
  mod := fun _ _ => .error "unsupported"
  floordiv := fun _ _ => .error "unsupported"
  range := fun _ => .error "unsupported"
  toNat := fun _ => .error "unsupported"
  lt := NVal.lt
  le := NVal.le
  len := NVal.len
  elems := NVal.elems
  append := NVal.append
  sum := NVal.sum
  sqrt := fun _ => .error "irrational"

end Rx

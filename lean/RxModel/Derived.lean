import RxModel.Catalog
import RxModel.LSplit
import RxModel.Numeric
import RxModel.Parquet
/-!
# Operators defined through others, exactly as the code defines them (over `Val`)

`count, sum, mean, min, max, variance, stddev, formal.variance, formal.stddev, to_list, batch,
distinct_until_changed, clip, fill_none, identity` are `scan`/`map`/`filter` compositions in rxsci;
here they are the same compositions of the primitive stages.
-/
namespace Rx

def Pipe.append : Pipe → Pipe → Pipe
  | .nil, q => q
  | .cons s r, q => .cons s (r.append q)

def Pipe.ofList : List Stage → Pipe
  | [] => .nil
  | s :: r => .cons s (Pipe.ofList r)

def Pipes.ofList : List Pipe → Pipes
  | [] => .nil
  | p :: r => .cons p (Pipes.ofList r)

/-- the accumulator of rxsci/data/to_list.py (`acc.append(i)`) over model values -/
def toListAcc (acc i : Val) : Except Err Val :=
  match acc with
  | .list l => .ok (Val.lst (l.toList ++ [i]))
  | _ => .error "AttributeError"

namespace D

abbrev F1 := Val → Except Err Val
abbrev F2 := Val → Val → Except Err Val

/-! primitive stages with both implementations -/
def map (f : F1) : Stage := .prim (mapOp f) (some (pMap f))
def filter (p : F1) : Stage := .prim (filterOp p Val.truthy) (some (pFilter p Val.truthy))
def flatMap : Stage :=
  let el := fun (v : Val) => (v.elems).getD []
  .prim (flatMapOp el) (some (pFlatMap el))
def scan (g : F2) (seed : Val) (reduce : Bool) (term : Option (Val → Val)) : Stage :=
  .prim (scanOp g seed reduce term) (some (pScan g seed reduce term))
/-- what the typed state array `scan_mux` keeps its accumulator in (`data_type=type(seed)`) does with a value: an int
seed means `array('q')`, a float seed `array('d')`, a bool seed `array('B')`; a value of another kind is rejected.
(Accepted values are stored unchanged: accumulators stay within the seed's type — the domain of the model.) -/
def storable (seed a : Val) : Except Err Val :=
  match seed, a with
  | .int _, .int i => if -(2 ^ 63 : Int) ≤ i ∧ i < 2 ^ 63 then .ok a else .error "OverflowError"
  | .int _, .bool _ => .ok a
  | .int _, _ => .error "TypeError"
  | .float _, .float _ => .ok a
  | .float _, .int _ => .ok a
  | .float _, .bool _ => .ok a
  | .float _, _ => .error "TypeError"
  | .bool _, .bool _ => .ok a
  | .bool _, .int i => if 0 ≤ i ∧ i < 256 then .ok a else .error "OverflowError"
  | .bool _, _ => .error "TypeError"
  | _, _ => .ok a

/-- `scan` as the multiplexed code runs it with a value seed: the typed store rejects a non-storable accumulator — the
exception is raised inside scan's `try`, so it is one mux error with the state unchanged, exactly like a raising accumulator
(the plain path keeps its state in a closure and accepts anything) -/
def scanTyped (g : F2) (seed : Val) (reduce : Bool) (term : Option (Val → Val)) : Stage :=
  .prim (scanOp (fun acc x => do let a ← g acc x; storable seed a) seed reduce term) (some (pScan g seed reduce term))

def first : Stage := .prim firstOp (some pFirst)
def last : Stage := .prim lastOp (some pLast)
def take (n : Nat) : Stage := .prim (takeOp n) (some (pTake n))
def distinct (f : F1) : Stage := .prim (distinctOp f) none
def lag (n : Nat) : Stage :=
  let mk := fun (a b : Val) => Val.tup [a, b]
  if n = 1 then .prim (lag1Op mk) none else .prim (lagOp n mk) none
def padStart (n : Nat) (v : Val) : Stage := .prim (padStartOp n (if v = .none then none else some v)) none
def padEnd (n : Nat) (v : Val) : Stage := .prim (padEndOp n (if v = .none then none else some v)) none
def startWith (vs : List Val) : Stage := .prim (startWithOp vs) none
def assertS (p : F1) : Stage :=
  let pb : Val → Except Err Bool := fun v => (p v).map Val.isTrue
  .prim (assertOp pb "ValueError") (some (pAssert pb "ValueError"))
def assert1 (p : Val → Val → Bool) : Stage :=
  .prim (assert1Op p "ValueError") (some (pAssert1 p "ValueError"))
def ignore : Stage := .prim ignoreOp none
def errMap (f : Err → Except Err Val) : Stage := .prim (mapErrOp f) none
def toListPlain : PlainOp Val Val := pToList Val.lst

/-! derived operators -/

def count (r : Bool) : Stage := scan (fun acc _ => Val.add acc (.int 1)) (.int 0) r none

def sum (key : F1) (r : Bool) : Stage :=
  scan (fun acc i => do let k ← key i; Val.add acc k) (Val.flt (Float.ofInt 0 / Float.ofNat 1)) r none

def mean (key : F1) (r : Bool) : Pipe :=
  .ofList [
    scan (fun acc i => do
      let k ← key i
      let a ← Val.add (acc.nth 0) k
      let c ← Val.add (acc.nth 1) (.int 1)
      pure (Val.tup [a, c])) (Val.tup [.int 0, .int 0]) r none,
    map (fun acc => if acc = .none then pure .none else Val.div (acc.nth 0) (acc.nth 1))]

def minmax (isMax : Bool) (key : F1) (r : Bool) : Stage :=
  scan (fun acc i => do
    let k ← key i
    if acc = .none then pure k
    else
      let b ← if isMax then Val.lt acc k else Val.lt k acc
      pure (if b then k else acc)) .none r none

instance : NatCast Float := ⟨Float.ofNat⟩

/-- a float literal given as an exact fraction (`0.0` is `flit 0 1`) -/
def flit (n : Int) (d : Nat) : Val := Val.flt (Float.ofInt n / Float.ofNat d)

/-- rxsci/math/variance.py `accumulate`: Welford's update on the tuple `(m, s, k)` (`m = None` before the
first item), statement by statement in Python's dynamic arithmetic (an int item stays an int until the
first true division) -/
def welford (key : F1) : F2 := fun acc i => do
  let k ← Val.add (acc.nth 2) (.int 1)
  let x ← key i
  if acc.nth 0 = .none then pure (Val.tup [x, acc.nth 1, k])
  else
    let d ← Val.sub x (acc.nth 0)
    let q ← Val.div d k
    let m ← Val.add (acc.nth 0) q
    let d1 ← Val.sub x (acc.nth 0)
    let d2 ← Val.sub x m
    let p ← Val.mul d1 d2
    let s ← Val.add (acc.nth 1) p
    pure (Val.tup [m, s, k])

/-- the map after the scan: `0.0 if acc[2] < 2 else acc[1] / (acc[2]-1)` -/
def welfordResult : F1 := fun acc => do
  let b ← Val.lt (acc.nth 2) (.int 2)
  if b then pure (flit 0 1)
  else
    let d ← Val.sub (acc.nth 2) (.int 1)
    Val.div (acc.nth 1) d

def variance (key : F1) (r : Bool) : Pipe :=
  .ofList [
    scan (welford key) (Val.tup [.none, .int 0, .int 0]) r none,
    map welfordResult]

def sqrtMap : Stage := map (fun v => if v = .none then pure .none else Val.sqrt v)

def stddev (key : F1) (r : Bool) : Pipe := (variance key r).append (.ofList [sqrtMap])

/-- `(x - c) ** n` for n = 1, 2 as Python computes it (int pow for ints, C `pow` for floats) -/
def powV (v : Val) (n : Nat) : Except Err Val :=
  match v with
  | .int i => pure (.int (i ^ n))
  | .bool b => pure (.int ((if b then 1 else 0) ^ n))
  | .float b => pure (Val.flt (Float.pow (Float.ofBits b) (Float.ofNat n)))
  | _ => .error "TypeError"

/-- CPython 3.12 built-in `sum(xs)` (start = int 0): exact integer phase while the items are ints;
the first float is added with an ordinary `+`; from then on Neumaier compensated summation of the
floats (ints are added plainly); the compensation is added at the end when non-zero and finite. -/
def pySumF (xs : List Val) (f c : Float) : Except Err Val :=
  match xs with
  | [] => pure (Val.flt (if c != 0.0 && c.isFinite then f + c else f))
  | .float b :: r =>
    let x := Float.ofBits b
    let t := f + x
    let c' := if f.abs >= x.abs then c + ((f - t) + x) else c + ((x - t) + f)
    pySumF r t c'
  | .int i :: r => pySumF r (f + Float.ofInt i) c
  | .bool b :: r => pySumF r (f + (if b then 1.0 else 0.0)) c
  | _ => .error "TypeError"

def pySumI (xs : List Val) (acc : Int) : Except Err Val :=
  match xs with
  | [] => pure (.int acc)
  | .int i :: r => pySumI r (acc + i)
  | .bool b :: r => pySumI r (acc + (if b then 1 else 0))
  | .float b :: r => pySumF r (Float.ofInt acc + Float.ofBits b) 0.0   -- the first float is added plainly (PyNumber_Add)
  | _ => .error "TypeError"

def pySum (xs : List Val) : Except Err Val := pySumI xs 0

/-- rxsci/math/formal/__init__.py `_moment`: `sum(m) / len(x) if len(x) > 0 else None` -/
def moment (xs : List Val) (c : Val) (n : Nat) : Except Err Val := do
  let ms ← xs.mapM (fun x => do let d ← Val.sub x c; powV d n)
  if 0 < xs.length then
    let s ← pySum ms
    Val.div s (.int xs.length)
  else pure .none

/-- `_moment(x, c, n)` on a Python value `x` -/
def momentV (acc c : Val) (n : Nat) : Except Err Val := do
  let xs ← acc.elemsE
  moment xs c n

/-- rxsci/math/formal/variance.py `_variance` -/
def fvarianceResult : F1 := fun acc => do
  let n ← Val.lenV acc
  if n = .int 0 then pure (flit 0 1)
  else
    let m ← momentV acc (.int 0) 1
    momentV acc m 2

/-- rxsci/math/formal/variance.py (repaired: the state list is no longer cleared by the map) -/
def fvariance (key : F1) (r : Bool) : Pipe :=
  .ofList [
    scan (fun acc i => do
      let k ← key i
      toListAcc acc k) (Val.lst []) r none,
    map fvarianceResult]

def fstddev (key : F1) (r : Bool) : Pipe := (fvariance key r).append (.ofList [sqrtMap])

/-- rxsci/data/to_list.py (mux: scan append, reduce; plain: RxPY to_list) -/
def toList : Stage :=
  .prim (scanOp toListAcc (Val.lst []) true none) (some toListPlain)

/-- rxsci/data/batch.py: the generic `batchG` (scan | filter | map as in the code), lists wrapped as
values; the plain twin is the same composition of `scan_obs`, RxPY `filter` and `map` -/
def batch (n : Nat) : Pipe :=
  let wrap : List Val → Except Err Val := fun l => .ok (Val.lst l)
  let L : LocalOp Val Val := compLocal (batchG n) (mapOp wrap)
  let P : PlainOp Val Val :=
    compPlain
      (compPlain
        (compPlain (pScan (fun acc i => Except.ok (batchAcc n acc i)) (([] : List Val), false) false (some batchTerm))
                   (pFilter (fun (p : List Val × Bool) => Except.ok p.2) id))
        (pMap (fun (p : List Val × Bool) => Except.ok p.1)))
      (pMap wrap)
  .ofList [.prim L (some P)]

/-- rxsci/operators/distinct_until_changed.py (repaired seed: `None` flag = no item yet) -/
def duc (key : F1) : Pipe :=
  .ofList [
    scan (fun acc i => do
        let k ← key i
        if (acc.nth 0) = .none ∨ k ≠ acc.nth 2 then pure (Val.tup [.bool true, i, k])
        else pure (Val.tup [.bool false, i, k]))
      (Val.tup [.none, .none, .none]) false none,
    filter (fun i => .ok (.bool ((i.nth 0) = .bool true))),
    map (fun i => .ok (i.nth 1))]

def identity : Stage := map (fun v => .ok v)

def clip (lo hi : Val) : Stage :=
  map (fun v => do
    let v1 ← if hi = .none then pure v else do
      let b ← Val.lt hi v       -- min(i, hi): hi if hi < i else i
      pure (if b then hi else v)
    if lo = .none then pure v1 else do
      let b ← Val.lt v1 lo      -- max(x, lo): lo if lo > x else x   (Python max returns the first maximal)
      pure (if b then lo else v1))

def fillNone (x : Val) : Stage := map (fun v => .ok (if v = .none then x else v))

/-! splitters -/
def groupBy (f : Val → Val) (inner : Pipe) : Stage := .wrap (groupBySp f) (groupByLS f) inner
def roll (w s : Nat) (inner : Pipe) : Stage := .wrap (rollSp w s) (rollLS w s) inner
def split (f : Val → Val) (inner : Pipe) : Stage := .wrap (splitSp f) (splitLS f) inner
def timeSplit (c : TsCfg Val) (inner : Pipe) : Stage := .wrap (timeSplitSp c) (timeSplitLS c) inner

end D
end Rx

namespace Rx

/-- rxsci/data/sort.py: `to_list → sorted(key=, reverse=) → to_deque(extend)`: a stable sort by key;
`reverse=True` keeps the original order of equal keys (Python semantics). -/
def sortBy {α κ} (key : α → κ) (lt : κ → κ → Bool) (reverse : Bool) (xs : List α) : List α :=
  xs.mergeSort (fun a b => if reverse then !(lt (key a) (key b)) else !(lt (key b) (key a)))

end Rx

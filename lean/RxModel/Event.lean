/-!
# Events, keys, traces (rxsci/mux/__init__.py)

One RxPY stream carries the events of many logical streams.  Keys are nested tuples
`(idx, parent_key)`; the model writes `(i, (j, (0,)))` as `[i, j, 0]`.  Per-key state of every
operator is addressed by `key[0]` only (`Key.idx`).
-/
namespace Rx

abbrev Key := List Nat
def Key.idx (k : Key) : Nat := k.headD 0

/-- a Python exception, identified by its class name -/
abbrev Err := String

/-- the four mux events, plus `fatal`: `observer.on_error(e)` travelling downstream (it ends the
stream; the top-level runner drops everything after the first one) -/
inductive Ev (α : Type) where
  | create (k : Key)
  | next (k : Key) (v : α)
  | done (k : Key)
  | err (k : Key) (e : Err)
  | fatal (e : Err)
  deriving Repr, DecidableEq

/-- what one key lifetime of an operator can emit -/
inductive LOut (β : Type) where
  | item (b : β)
  | err (e : Err)      -- an `OnErrorMux` for the current key
  | fatal (e : Err)    -- `observer.on_error`
  deriving Repr, DecidableEq

def liftOut {β} (k : Key) : LOut β → Ev β
  | .item b => .next k b
  | .err e => .err k e
  | .fatal e => .fatal e

/-- L2: what an operator does with ONE lifetime of ONE key: no keys, no indices, no store. -/
structure LocalOp (α β : Type) where
  σ : Type
  init : σ
  next : σ → α → σ × List (LOut β)
  fin : σ → List (LOut β)
  /-- what the operator does with an `OnErrorMux` of the key: forward it (every operator but the
  error handlers) -/
  onErr : σ → Err → σ × List (LOut β) := fun s e => (s, [.err e])

/-- a multiplexed operator as a state machine over mux events -/
structure MuxOp (α β : Type) where
  S : Type
  init : S
  step : S → Ev α → S × List (Ev β)

def upd {κ : Type} [DecidableEq κ] {σ : Type} (f : κ → Option σ) (k : κ) (v : Option σ) : κ → Option σ :=
  fun k' => if k' = k then v else f k'

/-- one output chunk per input event: chunk `i` is what is emitted while event `i` is processed -/
def runSteps {S E O : Type} (step : S → E → S × List O) : S → List E → List (List O)
  | _, [] => []
  | s, e :: es => let r := step s e; r.2 :: runSteps step r.1 es

def finalState {S E O : Type} (step : S → E → S × List O) : S → List E → S
  | s, [] => s
  | s, e :: es => finalState step (step s e).1 es

/-- feed a group of events, concatenating the outputs -/
def runGroup {S E O : Type} (step : S → E → S × List O) : S → List E → S × List O
  | s, [] => (s, [])
  | s, e :: es => let r := step s e; let r2 := runGroup step r.1 es; (r2.1, r.2 ++ r2.2)

def MuxOp.run {α β} (Q : MuxOp α β) (t : List (Ev α)) : List (List (Ev β)) := runSteps Q.step Q.init t

/-! ## Indexed lift (what rxsci does) and keyed reference lift (what it should mean) -/

/-- L1: state of a key lives in slot `key[0]` of a store array -/
def idxStep {α β} (L : LocalOp α β) (st : Nat → Option L.σ) : Ev α → (Nat → Option L.σ) × List (Ev β)
  | .create k => (upd st k.idx (some L.init), [.create k])
  | .next k v =>
    match st k.idx with
    | some s => let r := L.next s v; (upd st k.idx (some r.1), r.2.map (liftOut k))
    | none => (st, [])
  | .done k =>
    match st k.idx with
    | some s => (upd st k.idx none, (L.fin s).map (liftOut k) ++ [.done k])
    | none => (st, [.done k])
  | .err k e =>
    match st k.idx with
    | some s => let r := L.onErr s e; (upd st k.idx (some r.1), r.2.map (liftOut k))
    | none => (st, [.err k e])
  | .fatal e => (st, [.fatal e])

def idxLift {α β} (L : LocalOp α β) : MuxOp α β := ⟨Nat → Option L.σ, fun _ => none, idxStep L⟩

/-- L2 lifted to traces: state addressed by the WHOLE key, so no aliasing is possible -/
def refStep {α β} (L : LocalOp α β) (st : Key → Option L.σ) : Ev α → (Key → Option L.σ) × List (Ev β)
  | .create k => (upd st k (some L.init), [.create k])
  | .next k v =>
    match st k with
    | some s => let r := L.next s v; (upd st k (some r.1), r.2.map (liftOut k))
    | none => (st, [])
  | .done k =>
    match st k with
    | some s => (upd st k none, (L.fin s).map (liftOut k) ++ [.done k])
    | none => (st, [.done k])
  | .err k e =>
    match st k with
    | some s => let r := L.onErr s e; (upd st k (some r.1), r.2.map (liftOut k))
    | none => (st, [.err k e])
  | .fatal e => (st, [.fatal e])

def refLift {α β} (L : LocalOp α β) : MuxOp α β := ⟨Key → Option L.σ, fun _ => none, refStep L⟩

/-! ## Protocol monitor (C03) -/

/-- `live` = keys created and not yet completed.  A `create` is rejected when the key, or any key
with the same slot index, is live; `next/err/done` are rejected for a key that is not live. -/
def wfStep {α} (live : List Key) : Ev α → Option (List Key)
  | .create k => if live.any (fun k' => k'.idx == k.idx) then none else some (k :: live)
  | .next k _ => if k ∈ live then some live else none
  | .done k => if k ∈ live then some (live.erase k) else none
  | .err k _ => if k ∈ live then some live else none
  | .fatal _ => some live

def wfFrom {α} : List Key → List (Ev α) → Bool
  | _, [] => true
  | live, e :: es => match wfStep live e with | some l => wfFrom l es | none => false

/-- the set of live keys after a trace (`none` if the trace breaks the protocol) -/
def wfLive {α} : List Key → List (Ev α) → Option (List Key)
  | live, [] => some live
  | live, e :: es => match wfStep live e with | some l => wfLive l es | none => none

def WF {α} (t : List (Ev α)) : Prop := wfFrom [] t = true
def WFClosed {α} (t : List (Ev α)) : Prop := wfLive [] t = some []

/-! ## One lifetime run locally -/

/-- run a step machine over the items of one lifetime: per-item chunks, then the completion chunk -/
def runRaw {σ α β : Type} (next : σ → α → σ × List β) (fin : σ → List β) : σ → List α → List (List β) × List β
  | s, [] => ([], fin s)
  | s, x :: xs => ((next s x).2 :: (runRaw next fin (next s x).1 xs).1, (runRaw next fin (next s x).1 xs).2)

/-- outputs of a LocalOp over the items of one lifetime -/
def LocalOp.runL {α β} (L : LocalOp α β) (s : L.σ) (xs : List α) : List (List (LOut β)) × List (LOut β) :=
  runRaw L.next L.fin s xs

def LocalOp.outL {α β} (L : LocalOp α β) (xs : List α) : List (LOut β) :=
  let r := L.runL L.init xs; r.1.flatten ++ r.2

def items {β} (l : List (LOut β)) : List β :=
  l.filterMap (fun o => match o with | .item b => some b | _ => none)

end Rx

/-!
# Universal value type used when the generic model is *executed* (driver, correspondence check).

Theorems are stated over arbitrary item types; `Val` is the instance the driver runs.
Python values: `None | bool | int (unbounded) | float (IEEE binary64, kept as its bit pattern so that
`Val` has decidable equality) | str | tuple | list`.
-/
namespace Rx

mutual
inductive Val where
  | none
  | bool (b : Bool)
  | int (i : Int)
  | float (bits : UInt64)
  | str (s : String)
  | tuple (l : VList)
  | list (l : VList)
inductive VList where
  | nil
  | cons (v : Val) (l : VList)
end
deriving instance DecidableEq for Val, VList

instance : Inhabited Val := ⟨.none⟩

def VList.toList : VList → List Val
  | .nil => []
  | .cons v l => v :: l.toList

def VList.ofList : List Val → VList
  | [] => .nil
  | v :: l => .cons v (VList.ofList l)

def Val.tup (l : List Val) : Val := .tuple (VList.ofList l)
def Val.lst (l : List Val) : Val := .list (VList.ofList l)
def Val.flt (f : Float) : Val := .float f.toBits

/-- elements of a tuple or list (what `for x in v` / `v[i]` see) -/
def Val.elems : Val → Option (List Val)
  | .tuple l => some l.toList
  | .list l => some l.toList
  | _ => Option.none

def Val.nth (v : Val) (i : Nat) : Val :=
  match v.elems with
  | some l => l.getD i .none
  | Option.none => .none

/-- Python truthiness -/
def Val.truthy : Val → Bool
  | .none => false
  | .bool b => b
  | .int i => i != 0
  | .float b => let f := Float.ofBits b; !(f == 0.0)
  | .str s => !s.isEmpty
  | .tuple l => match l with | .nil => false | _ => true
  | .list l => match l with | .nil => false | _ => true

/-- `x is True` -/
def Val.isTrue (v : Val) : Bool := v == .bool true

/-! ## numbers: Python's int/float tower for `+ - * / < >` -/

/-- the double nearest to the natural number `n` (ties to even), as CPython's `float(int)` computes it: below 2^64 the library
conversion is one correctly rounded step; above, the bits dropped to reach 64 are kept as a sticky low bit so that the single
rounding 64 → 53 bits sees them -/
def natToFloatRN (n : Nat) : Float :=
  if n < 2 ^ 64 then Float.ofNat n
  else
    let s := n.log2 - 63
    let m := n >>> s
    let m := if m <<< s = n then m else m ||| 1
    (Float.ofNat m).scaleB s

def intToFloatRN (i : Int) : Float :=
  match i with
  | .ofNat n => natToFloatRN n
  | .negSucc n => -(natToFloatRN (n + 1))

/-- the double nearest to `a / b` for naturals `a`, `b > 0` (CPython's `long_true_divide`: one rounding of the exact quotient):
a quotient of 55..56 bits with the remainder as sticky bit, rounded once, scaled by a power of two -/
def natTrueDiv (a b : Nat) : Float :=
  if a = 0 then 0.0
  else
    let d : Int := (a.log2 : Int) - (b.log2 : Int)
    let s : Int := 55 - d
    let num := if s ≥ 0 then a <<< s.toNat else a
    let den := if s ≥ 0 then b else b <<< (-s).toNat
    let q := num / den
    let q' := 2 * q + (if num % den = 0 then 0 else 1)
    (Float.ofNat q').scaleB (-(s + 1))

def intTrueDiv (a b : Int) : Float :=
  let f := natTrueDiv a.natAbs b.natAbs
  if (a < 0) != (b < 0) then -f else f

def Val.toFloat? : Val → Option Float
  | .int i => some (intToFloatRN i)
  | .float b => some (Float.ofBits b)
  | .bool b => some (if b then 1.0 else 0.0)
  | _ => Option.none

def Val.isFloat : Val → Bool
  | .float _ => true
  | _ => false

def Val.toInt? : Val → Option Int
  | .int i => some i
  | .bool b => some (if b then 1 else 0)
  | _ => Option.none

def Val.arith (iop : Int → Int → Int) (fop : Float → Float → Float) (a b : Val) : Except String Val :=
  match a.toInt?, b.toInt? with
  | some x, some y => .ok (.int (iop x y))
  | _, _ =>
    match a.toFloat?, b.toFloat? with
    | some x, some y => .ok (.flt (fop x y))
    | _, _ => .error "TypeError"

def Val.add (a b : Val) : Except String Val := Val.arith (· + ·) (· + ·) a b
def Val.sub (a b : Val) : Except String Val := Val.arith (· - ·) (· - ·) a b
def Val.mul (a b : Val) : Except String Val := Val.arith (· * ·) (· * ·) a b

/-- Python `/` (true division): always a float; ZeroDivisionError on a zero divisor -/
def Val.div (a b : Val) : Except String Val :=
  match a.toInt?, b.toInt? with
  | some x, some y => if y = 0 then .error "ZeroDivisionError" else .ok (.flt (intTrueDiv x y))
  | _, _ =>
  match a.toFloat?, b.toFloat? with
  | some x, some y => if y == 0.0 then .error "ZeroDivisionError" else .ok (.flt (x / y))
  | _, _ => .error "TypeError"

def Val.lt (a b : Val) : Except String Bool :=
  match a.toInt?, b.toInt? with
  | some x, some y => .ok (decide (x < y))
  | _, _ =>
    match a.toFloat?, b.toFloat? with
    | some x, some y => .ok (x < y)
    | _, _ => .error "TypeError"

def Val.sqrt (a : Val) : Except String Val :=
  match a.toFloat? with
  | some x => if x < 0.0 then .error "ValueError" else .ok (.flt x.sqrt)
  | Option.none => .error "TypeError"

/-- `len(v)` -/
def Val.lenV (v : Val) : Except String Val :=
  match v with
  | .str s => .ok (.int s.length)
  | _ => match v.elems with
    | some l => .ok (.int l.length)
    | Option.none => .error "TypeError"

/-- what `for x in v` iterates over -/
def Val.elemsE (v : Val) : Except String (List Val) :=
  match v.elems with
  | some l => .ok l
  | Option.none => .error "TypeError"

end Rx

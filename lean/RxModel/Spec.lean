import RxModel.LSplit
/-!
# Observers and specification functions used in the statements of the splitter theorems
-/
namespace Rx

/-- observer of a command stream: what a `to_list` in every inner lifetime would see.
`opn j` = items received so far by the open lifetime `j`; `closed` = completed lifetimes, in
completion order. -/
structure Obs (α : Type) where
  opn : Nat → Option (List α)
  closed : List (List α)

def obsStep {α} (ob : Obs α) : Cmd α → Obs α
  | .opn o => { ob with opn := upd ob.opn o (some []) }
  | .itm o x => { ob with opn := fun o' => if o' = o then (ob.opn o).map (· ++ [x]) else ob.opn o' }
  | .cls o => { opn := upd ob.opn o none, closed := ob.closed ++ [(ob.opn o).getD []] }

def obsRun {α} (ob : Obs α) (evs : List (Cmd α)) : Obs α := evs.foldl obsStep ob

def Obs.empty {α} : Obs α := ⟨fun _ => none, []⟩

/-- run a local splitter over the items of one parent lifetime and observe its commands -/
def runObsRaw {τ α : Type} (next : τ → α → τ × List (Cmd α)) : τ × Obs α → List α → τ × Obs α
  | st, [] => st
  | st, x :: xs => runObsRaw next ((next st.1 x).1, obsRun st.2 (next st.1 x).2) xs

def LSplit.runObs {α} (ls : LSplit α) (st : ls.τ × Obs α) (xs : List α) : ls.τ × Obs α :=
  runObsRaw ls.next st xs

/-- windows (inner lifetimes) closed while the items are consumed, then at completion -/
def LSplit.windows {α} (ls : LSplit α) (xs : List α) : List (List α) × List (List α) :=
  let r := ls.runObs (ls.init, Obs.empty) xs
  (r.2.closed, (obsRun ⟨r.2.opn, []⟩ (ls.fin r.1)).closed)

/-- the `j`-th count window of `xs` -/
def window {α} (w s : Nat) (xs : List α) (j : Nat) : List α := (xs.drop (j * s)).take w

end Rx

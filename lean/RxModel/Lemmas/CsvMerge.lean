import RxModel.Csv
import RxModel.Lemmas.Framing
/-!
# `merge_escape_parts` re-joins the pieces of quoted fields (one-character separator)

`csv.load` splits a line at every separator and then re-joins the pieces that belong to one quoted
string field.  The dumped text of a string is *escaped*: built from plain characters, doubled escape
characters and escaped quotes (`EscS`).  Facts about escaped text: it never consists of a lone quote,
it never ends with an unescaped quote (an odd number of escape characters precedes every quote), and
it ends with an even number of escape characters — so the closing quote of the field is the first
piece end that `is_closing_quote` accepts.
-/
set_option linter.unusedSimpArgs false
set_option linter.unusedVariables false
namespace Rx

/-- escaped text, built from the back: plain characters, doubled escapes, escaped quotes -/
inductive EscS (esc : Char) : Str → Prop
  | nil : EscS esc []
  | plain (e : Str) (x : Char) : EscS esc e → x ≠ esc → x ≠ '"' → EscS esc (e ++ [x])
  | dbl (e : Str) : EscS esc e → EscS esc (e ++ [esc, esc])
  | quo (e : Str) : EscS esc e → EscS esc (e ++ [esc, '"'])

def escTok (esc : Char) (x : Char) : Str := if x = esc then [esc, esc] else if x = '"' then [esc, '"'] else [x]

theorem escapeStr_flat (esc : Char) (hq : esc ≠ '"') (s : Str) : escapeStr esc s = s.flatMap (escTok esc) := by
  unfold escapeStr replace1
  induction s with
  | nil => rfl
  | cons x s ih =>
    simp only [List.flatMap_cons, List.flatMap_append, ih]
    congr 1
    unfold escTok
    by_cases h1 : x = esc
    · subst h1; simp [hq]
    · by_cases h2 : x = '"'
      · subst h2; simp [h1]
      · simp [h1, h2]

theorem escS_flat (esc : Char) : ∀ (s e : Str), EscS esc e → EscS esc (e ++ s.flatMap (escTok esc)) := by
  intro s
  induction s with
  | nil => intro e h; simpa using h
  | cons x s ih =>
    intro e h
    simp only [List.flatMap_cons, ← List.append_assoc]
    apply ih
    unfold escTok
    by_cases h1 : x = esc
    · simp only [h1, if_true]; exact .dbl e h
    · by_cases h2 : x = '"'
      · subst h2
        have : ('"' : Char) ≠ esc := h1
        simp only [this, if_false, if_true]; exact .quo e h
      · simp only [h1, h2, if_false]; exact .plain e x h h1 h2

theorem escS_escapeStr (esc : Char) (hq : esc ≠ '"') (s : Str) : EscS esc (escapeStr esc s) := by
  rw [escapeStr_flat esc hq]
  simpa using escS_flat esc s [] .nil

/-! ### trailing escape characters -/

def trailEsc (esc : Char) (t : Str) : Nat := (t.reverse.takeWhile (· == esc)).length

theorem trail_snoc_ne (esc x : Char) (t : Str) (h : x ≠ esc) : trailEsc esc (t ++ [x]) = 0 := by
  simp [trailEsc, List.takeWhile_cons, h]

theorem trail_snoc_esc (esc : Char) (t : Str) : trailEsc esc (t ++ [esc]) = trailEsc esc t + 1 := by
  simp [trailEsc, List.takeWhile_cons]

theorem escS_trail_even (esc : Char) (hq : esc ≠ '"') {e : Str} (h : EscS esc e) : trailEsc esc e % 2 = 0 := by
  induction h with
  | nil => rfl
  | plain e x _ h1 _ _ => rw [trail_snoc_ne esc x e h1]
  | dbl e _ ih =>
    have : e ++ [esc, esc] = (e ++ [esc]) ++ [esc] := by simp
    rw [this, trail_snoc_esc, trail_snoc_esc]; omega
  | quo e _ _ =>
    have : e ++ [esc, '"'] = (e ++ [esc]) ++ ['"'] := by simp
    rw [this, trail_snoc_ne esc '"' _ (fun h => hq h.symm)]

theorem snoc_inj {α} {a b : List α} {x y : α} (h : a ++ [x] = b ++ [y]) : a = b ∧ x = y := by
  have := List.append_inj' h rfl
  exact ⟨this.1, by simpa using this.2⟩

/-- in escaped text an odd number of escape characters precedes every final quote -/
theorem escS_quote_odd (esc : Char) (hq : esc ≠ '"') {e e' : Str} (h : EscS esc e) (he : e = e' ++ ['"']) :
    trailEsc esc e' % 2 = 1 := by
  cases h with
  | nil => simp at he
  | plain e0 x _ _ h2 => exact absurd (snoc_inj he).2 h2
  | dbl e0 _ =>
    have : e0 ++ [esc, esc] = (e0 ++ [esc]) ++ [esc] := by simp
    rw [this] at he
    exact absurd (snoc_inj he).2 hq
  | quo e0 h0 =>
    have : e0 ++ [esc, '"'] = (e0 ++ [esc]) ++ ['"'] := by simp
    rw [this] at he
    rw [← (snoc_inj he).1, trail_snoc_esc]
    have := escS_trail_even esc hq h0
    omega

theorem escS_ne_quote (esc : Char) (hq : esc ≠ '"') {e : Str} (h : EscS esc e) : e ≠ ['"'] := by
  intro he
  have := escS_quote_odd esc hq h (e' := []) (by simpa using he)
  simp [trailEsc] at this

/-! ### is_closing_quote -/

theorem takeWhile_append_stop {α} (p : α → Bool) (a b : List α) (hb : b = [] ∨ ∃ y r, b = y :: r ∧ p y = false) :
    (a ++ b).takeWhile p = a.takeWhile p := by
  induction a with
  | nil =>
    rcases hb with rfl | ⟨y, r, rfl, hy⟩
    · rfl
    · simp [List.takeWhile_cons, hy]
  | cons x a ih =>
    simp only [List.cons_append, List.takeWhile_cons]
    split
    · rw [ih]
    · rfl

/-- the test applied to a piece `pre ++ e' ++ ['"']` with `pre` empty or the opening quote -/
theorem closing_snoc (esc : Char) (hq : esc ≠ '"') (pre e' : Str) (hpre : pre = [] ∨ pre = ['"']) :
    closingQuote esc (pre ++ e' ++ ['"']) = (trailEsc esc e' % 2 == 0) := by
  unfold closingQuote trailEsc
  have hrev : (pre ++ e' ++ ['"']).reverse = '"' :: (e'.reverse ++ pre.reverse) := by simp
  rw [hrev]
  simp only
  rw [takeWhile_append_stop]
  rcases hpre with rfl | rfl
  · exact Or.inl rfl
  · refine Or.inr ⟨'"', [], rfl, ?_⟩
    simp; exact fun h => hq h.symm

theorem closing_not_quote (esc : Char) (t : Str) (h : t.getLast? ≠ some '"') : closingQuote esc t = false := by
  unfold closingQuote
  cases hr : t.reverse with
  | nil => rfl
  | cons x r =>
    have : t.getLast? = some x := by
      rw [List.getLast?_eq_head?_reverse, hr]; rfl
    by_cases hx : x = '"'
    · subst hx; exact absurd this h
    · split
      · rename_i heq; exact absurd (List.cons.inj heq).1 hx
      · rfl

theorem snoc_cases {α} (t : List α) : t = [] ∨ ∃ t' x, t = t' ++ [x] := by
  cases h : t.reverse with
  | nil => left; simpa using h
  | cons x r =>
    right
    refine ⟨r.reverse, x, ?_⟩
    have := congrArg List.reverse h
    simpa using this

/-- a piece of escaped text, with or without the opening quote in front, is never accepted as closing -/
theorem escS_not_closing (esc : Char) (hq : esc ≠ '"') {e : Str} (h : EscS esc e) (pre : Str)
    (hpre : pre = [] ∨ (pre = ['"'] ∧ e ≠ [])) : closingQuote esc (pre ++ e) = false := by
  rcases snoc_cases e with rfl | ⟨e', x, rfl⟩
  · rcases hpre with rfl | ⟨_, hne⟩
    · rfl
    · exact absurd rfl hne
  · by_cases hx : x = '"'
    · subst hx
      have hodd := escS_quote_odd esc hq h rfl
      have hp : pre = [] ∨ pre = ['"'] := by rcases hpre with h1 | h1; exact Or.inl h1; exact Or.inr h1.1
      rw [← List.append_assoc, closing_snoc esc hq pre e' hp]
      simp [hodd]
    · apply closing_not_quote
      rw [← List.append_assoc, List.getLast?_append]
      simp [hx]

/-! ### splitting at the separator -/

theorem mem_of_dropLast {α} {a : α} {l : List α} (h : a ∈ l.dropLast) : a ∈ l :=
  (List.dropLast_sublist l).subset h


theorem dropLast_lastP {α} : ∀ (l : List (List α)), l ≠ [] → l.dropLast ++ [lastP l] = l := by
  intro l
  induction l with
  | nil => intro h; exact absurd rfl h
  | cons a l ih =>
    intro _
    cases l with
    | nil => simp [lastP]
    | cons b r =>
      have := ih (by simp)
      simp only [List.dropLast_cons₂, List.cons_append]
      rw [show lastP (a :: b :: r) = lastP (b :: r) by simp [lastP, List.getLastD]]
      rw [this]

theorem lastP_nosep {α} [DecidableEq α] (c : α) (t : List α) : c ∉ lastP (splitC c t) :=
  splitC_pieces_nosep c t _ (lastP_mem _ (splitC_ne_nil c t))

/-- appending separator-free text extends the last piece -/
theorem splitC_snoc_nosep {α} [DecidableEq α] (c : α) (t u : List α) (hu : c ∉ u) :
    splitC c (t ++ u) = (splitC c t).dropLast ++ [lastP (splitC c t) ++ u] := by
  rw [splitC_append]
  congr 1
  apply splitC_nosep
  intro h
  rcases List.mem_append.mp h with h | h
  · exact lastP_nosep c t h
  · exact hu h

/-- appending the separator opens a new, empty piece -/
theorem splitC_snoc_sep {α} [DecidableEq α] (c : α) (t : List α) : splitC c (t ++ [c]) = splitC c t ++ [[]] := by
  rw [splitC_append]
  have h := splitC_nosep_append c (lastP (splitC c t)) [c] (lastP_nosep c t)
  simp only [splitC, if_true, List.append_nil] at h
  rw [h]
  have := dropLast_lastP (splitC c t) (splitC_ne_nil c t)
  rw [show (splitC c t).dropLast ++ [lastP (splitC c t), []] = ((splitC c t).dropLast ++ [lastP (splitC c t)]) ++ [[]] by simp]
  rw [this]

/-- a separator between two texts separates their pieces -/
theorem splitC_mid {α} [DecidableEq α] (c : α) (a X : List α) : splitC c (a ++ c :: X) = splitC c a ++ splitC c X := by
  rw [splitC_append]
  have h := splitC_nosep_append c (lastP (splitC c a)) (c :: X) (lastP_nosep c a)
  simp only [splitC, if_true, List.append_nil] at h
  rw [h]
  have := dropLast_lastP (splitC c a) (splitC_ne_nil c a)
  rw [show (splitC c a).dropLast ++ lastP (splitC c a) :: splitC c X = ((splitC c a).dropLast ++ [lastP (splitC c a)]) ++ splitC c X by simp]
  rw [this]

theorem join_split (c : Char) : ∀ t : Str, joinWith [c] (splitC c t) = t := by
  intro t
  induction t with
  | nil => rfl
  | cons x t ih =>
    by_cases hx : x = c
    · subst hx
      simp only [splitC, if_true]
      cases hs : splitC x t with
      | nil => exact absurd hs (splitC_ne_nil x t)
      | cons p ps => rw [hs] at ih; simp [joinWith, ih]
    · simp only [splitC, hx, if_false]
      cases hs : splitC c t with
      | nil => exact absurd hs (splitC_ne_nil c t)
      | cons p ps =>
        rw [hs] at ih
        cases ps with
        | nil => simp [joinWith] at ih ⊢; exact ih
        | cons q qs => simp [joinWith] at ih ⊢; exact ih

/-- every piece of escaped text is escaped text (the separator is a plain character) -/
theorem split_escS (esc c : Char) (hce : c ≠ esc) (hcq : c ≠ '"') {e : Str} (h : EscS esc e) :
    ∀ p ∈ splitC c e, EscS esc p := by
  induction h with
  | nil => intro p hp; simp [splitC] at hp; subst hp; exact .nil
  | plain e x _ h1 h2 ih =>
    by_cases hx : x = c
    · subst hx
      rw [splitC_snoc_sep]
      intro p hp
      rcases List.mem_append.mp hp with hp | hp
      · exact ih p hp
      · simp at hp; subst hp; exact .nil
    · rw [splitC_snoc_nosep c e [x] (by simp; exact fun h => hx h.symm)]
      intro p hp
      rcases List.mem_append.mp hp with hp | hp
      · exact ih p (mem_of_dropLast hp)
      · simp at hp; subst hp
        exact .plain _ x (ih _ (lastP_mem _ (splitC_ne_nil c e))) h1 h2
  | dbl e _ ih =>
    rw [splitC_snoc_nosep c e [esc, esc] (by simp; exact hce)]
    intro p hp
    rcases List.mem_append.mp hp with hp | hp
    · exact ih p (mem_of_dropLast hp)
    · simp at hp; subst hp
      exact .dbl _ (ih _ (lastP_mem _ (splitC_ne_nil c e)))
  | quo e _ ih =>
    rw [splitC_snoc_nosep c e [esc, '"'] (by simp; exact ⟨hce, hcq⟩)]
    intro p hp
    rcases List.mem_append.mp hp with hp | hp
    · exact ih p (mem_of_dropLast hp)
    · simp at hp; subst hp
      exact .quo _ (ih _ (lastP_mem _ (splitC_ne_nil c e)))

theorem split_join_flat (c : Char) : ∀ (toks : List Str), toks ≠ [] →
    splitC c (joinWith [c] toks) = toks.flatMap (splitC c) := by
  intro toks
  induction toks with
  | nil => intro h; exact absurd rfl h
  | cons a r ih =>
    intro _
    cases r with
    | nil => simp [joinWith]
    | cons b r' =>
      have := ih (by simp)
      simp only [joinWith, List.flatMap_cons, List.append_assoc, List.singleton_append]
      rw [splitC_mid, this]
      simp [List.flatMap_cons]

/-! ### merge_escape_parts -/

/-- with a quoted field in progress: middle pieces are appended, the piece carrying the closing
quote ends the field -/
theorem merge_agg (c esc : Char) (hq : esc ≠ '"') : ∀ (mids : List Str) (a : List Str) (bl : Str) (rest : List Str),
    (∀ m ∈ mids, EscS esc m) → EscS esc bl →
    mergeParts [c] esc (some a) (mids ++ (bl ++ ['"']) :: rest) =
      joinWith [c] (a ++ mids ++ [bl ++ ['"']]) :: mergeParts [c] esc none rest := by
  intro mids
  induction mids with
  | nil =>
    intro a bl rest _ hbl
    by_cases hb : bl = []
    · subst hb
      simp [mergeParts]
    · have hne : bl ++ ['"'] ≠ ['"'] := by
        intro h; apply hb
        have := congrArg List.length h
        simp at this
        exact this
      have hcl : closingQuote esc (bl ++ ['"']) = true := by
        have := closing_snoc esc hq [] bl (Or.inl rfl)
        simp only [List.nil_append] at this
        rw [this, escS_trail_even esc hq hbl]; rfl
      simp [mergeParts, hne, hcl]
  | cons m mids ih =>
    intro a bl rest hm hbl
    have hmE : EscS esc m := hm m (by simp)
    have hne : m ≠ ['"'] := escS_ne_quote esc hq hmE
    have hcl : closingQuote esc m = false := by
      have := escS_not_closing esc hq hmE [] (Or.inl rfl)
      simpa using this
    simp only [List.cons_append, mergeParts, hne, hcl, if_false, Bool.false_eq_true, false_and, and_false,
      reduceCtorEq]
    rw [ih (a ++ [m]) bl rest (fun x hx => hm x (by simp [hx])) hbl]
    simp [List.append_assoc]

theorem splitC_cons_ne {α} [DecidableEq α] (c x : α) (t : List α) (hx : x ≠ c) :
    splitC c (x :: t) = (x :: (splitC c t).headD []) :: (splitC c t).tail := by
  simp only [splitC, hx, if_false]
  cases hs : splitC c t with
  | nil => exact absurd hs (splitC_ne_nil c t)
  | cons p ps => simp

/-- **a quoted string field is re-joined**: whatever separators its text contains, the pieces of
`"…"` are merged back into the one field, and nothing after it is touched -/
theorem merge_quoted (c esc : Char) (hce : c ≠ esc) (hcq : c ≠ '"') (hq : esc ≠ '"') (e : Str) (he : EscS esc e)
    (rest : List Str) :
    mergeParts [c] esc none (splitC c ('"' :: e ++ ['"']) ++ rest) =
      ('"' :: e ++ ['"']) :: mergeParts [c] esc none rest := by
  have hjs := join_split c ('"' :: e ++ ['"'])
  have hP := splitC_ne_nil c e
  have hX : splitC c (e ++ ['"']) = (splitC c e).dropLast ++ [lastP (splitC c e) ++ ['"']] :=
    splitC_snoc_nosep c e ['"'] (by simp; exact hcq)
  have hall := split_escS esc c hce hcq he
  have hbl : EscS esc (lastP (splitC c e)) := hall _ (lastP_mem _ hP)
  have hD : ∀ m ∈ (splitC c e).dropLast, EscS esc m := fun m hm => hall m (mem_of_dropLast hm)
  have hQ : splitC c ('"' :: e ++ ['"']) =
      ('"' :: (splitC c (e ++ ['"'])).headD []) :: (splitC c (e ++ ['"'])).tail := by
    have : ('"' : Char) ≠ c := fun h => hcq h.symm
    exact splitC_cons_ne c '"' (e ++ ['"']) this
  rw [hQ] at hjs ⊢
  rw [hX] at hjs ⊢
  generalize (splitC c e).dropLast = D at hD hjs ⊢
  generalize lastP (splitC c e) = bl at hbl hjs ⊢
  cases D with
  | nil =>
    simp only [List.nil_append, List.headD_cons, List.tail_cons, List.cons_append, joinWith] at hjs ⊢
    have hne : ('"' :: (bl ++ ['"'])) ≠ ['"'] := by simp
    have hcl : closingQuote esc ('"' :: (bl ++ ['"'])) = true := by
      have := closing_snoc esc hq ['"'] bl (Or.inr rfl)
      simp only [List.cons_append, List.nil_append] at this
      rw [this, escS_trail_even esc hq hbl]; rfl
    rw [← hjs]
    simp [mergeParts, hcl]
  | cons b0 D' =>
    simp only [List.cons_append, List.headD_cons, List.tail_cons] at hjs ⊢
    have hb0 : EscS esc b0 := hD b0 (by simp)
    have hD' : ∀ m ∈ D', EscS esc m := fun m hm => hD m (by simp [hm])
    by_cases hb : b0 = []
    · subst hb
      simp only [mergeParts, if_true]
      rw [show D' ++ [bl ++ ['"']] ++ rest = D' ++ (bl ++ ['"']) :: rest by simp]
      rw [merge_agg c esc hq D' [['"']] bl rest hD' hbl]
      congr 1
    · have hne : ('"' :: b0) ≠ ['"'] := by simp [hb]
      have hcl : closingQuote esc ('"' :: b0) = false := by
        have := escS_not_closing esc hq hb0 ['"'] (Or.inr ⟨rfl, hb⟩)
        simpa using this
      simp only [mergeParts, hne, hcl, if_false, Bool.false_eq_true, false_and, and_false, List.head?_cons, true_and,
        if_true, ne_eq, not_true_eq_false]
      rw [show D' ++ [bl ++ ['"']] ++ rest = D' ++ (bl ++ ['"']) :: rest by simp]
      rw [merge_agg c esc hq D' ['"' :: b0] bl rest hD' hbl]
      congr 1

/-- a token that contains no separator and does not start with a quote passes through -/
theorem merge_plain (c esc : Char) (t : Str) (hc : c ∉ t) (hh : t.head? ≠ some '"') (rest : List Str) :
    mergeParts [c] esc none (splitC c t ++ rest) = t :: mergeParts [c] esc none rest := by
  rw [splitC_nosep c t hc]
  have hne : t ≠ ['"'] := by intro h; subst h; simp at hh
  simp [mergeParts, hne, hh]

/-- what `dump` writes for one field: a plain token or a quoted escaped string -/
def TokOK (c esc : Char) (t : Str) : Prop :=
  (c ∉ t ∧ t.head? ≠ some '"') ∨ (∃ e, EscS esc e ∧ t = '"' :: e ++ ['"'])

/-- **merge_escape_parts inverts the split** of a dumped row, whatever the string fields contain -/
theorem merge_all (c esc : Char) (hce : c ≠ esc) (hcq : c ≠ '"') (hq : esc ≠ '"') : ∀ (toks : List Str),
    (∀ t ∈ toks, TokOK c esc t) → mergeParts [c] esc none (toks.flatMap (splitC c)) = toks := by
  intro toks
  induction toks with
  | nil => intro _; rfl
  | cons t toks ih =>
    intro h
    have ht := h t (by simp)
    have ih' := ih (fun x hx => h x (by simp [hx]))
    simp only [List.flatMap_cons]
    rcases ht with ⟨h1, h2⟩ | ⟨e, he, rfl⟩
    · rw [merge_plain c esc t h1 h2, ih']
    · rw [merge_quoted c esc hce hcq hq e he, ih']

end Rx

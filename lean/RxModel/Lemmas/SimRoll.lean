import RxModel.Lemmas.SimSeq
import RxModel.Lemmas.Roll
/-!
# `SplitSim` for `roll` (window ≠ stride: the ring of `density` slots per parent slot)

The implementation keeps ring slot `o` of parent `k` in array position `k[0]*density + o` and names
the window living there `(k[0]*density + o, k)`.  The local description keeps the ring of one
parent.  The ring invariant of `Lemmas/Roll.lean` (a slot is free when the next window opens in it)
is what makes a new window's key fresh.
-/
set_option linter.unusedSimpArgs false
namespace Rx

theorem slot_inj (a b d o o' : Nat) (ho : o < d) (ho' : o' < d) (h : a * d + o = b * d + o') : a = b ∧ o = o' := by
  have h1 : (a * d + o) % d = o := by rw [Nat.mul_comm, Nat.mul_add_mod]; exact Nat.mod_eq_of_lt ho
  have h2 : (b * d + o') % d = o' := by rw [Nat.mul_comm, Nat.mul_add_mod]; exact Nat.mod_eq_of_lt ho'
  have ho2 : o = o' := by rw [← h1, ← h2, h]
  subst ho2
  have : a * d = b * d := by omega
  exact ⟨Nat.eq_of_mul_eq_mul_right (by omega) this, rfl⟩

theorem wk_idx (d : Nat) (k : Key) (o : Nat) : (wk d k o).idx = k.idx * d + o := rfl

/-- naming of the open windows of parent `k` -/
def ringNm (d : Nat) (k : Key) (sl : Slots) : Nat → Option Key :=
  fun o => match sl o with | some _ => some (wk d k o) | none => none

/-- the ring of parent `k` inside the global slot array -/
def RingAt (d : Nat) (k : Key) (ws : Nat → Option Nat) (sl : Slots) : Prop :=
  ∀ o, o < d → ws (k.idx * d + o) = sl o

theorem ringNm_upd_none (d : Nat) (k : Key) (sl : Slots) (o : Nat) (nm : Naming) (h : nm k = ringNm d k sl) :
    updNm nm k o none k = ringNm d k (upd sl o none) := by
  funext j
  by_cases hj : j = o
  · subst hj; simp [updNm, ringNm, upd]
  · simp [updNm, ringNm, upd, hj, h]

theorem ringAt_upd (d : Nat) (k : Key) (ws : Nat → Option Nat) (sl : Slots) (o : Nat) (v : Option Nat)
    (ho : o < d) (h : RingAt d k ws sl) : RingAt d k (upd ws (k.idx * d + o) v) (upd sl o v) := by
  intro o' ho'
  by_cases hj : o' = o
  · subst hj; simp [upd]
  · have : k.idx * d + o' ≠ k.idx * d + o := by omega
    simp [upd, hj, this, h o' ho']

/-- the per-item loop: implementation over the global array vs local description over the ring -/
theorem deliver_corr {α} (w d : Nat) (k : Key) (x : α) (n : Nat) :
    ∀ (f : Nat) (ws : Nat → Option Nat) (sl : Slots) (nm : Naming), f ≤ d →
      RingAt d k ws sl → nm k = ringNm d k sl →
      ∃ nm', Tr k nm (deliver w n x f (d - f) sl).2 (rollDeliver w d k x n f ws).2 nm' ∧
        RingAt d k (rollDeliver w d k x n f ws).1 (deliver w n x f (d - f) sl).1 ∧
        nm' k = ringNm d k (deliver w n x f (d - f) sl).1 ∧
        (∀ k2, k2 ≠ k → nm' k2 = nm k2) ∧
        (∀ i, (∀ o, o < d → i ≠ k.idx * d + o) → (rollDeliver w d k x n f ws).1 i = ws i) := by
  intro f
  induction f with
  | zero =>
    intro ws sl nm _ h1 h2
    refine ⟨nm, ?_, h1, h2, fun _ _ => rfl, fun _ _ => rfl⟩
    simp only [deliver, rollDeliver]; exact Tr.nil _
  | succ f ih =>
    intro ws sl nm hf h1 h2
    have hoff : d - (f + 1) < d := by omega
    have hnext : d - (f + 1) + 1 = d - f := by omega
    have hws := h1 (d - (f + 1)) hoff
    unfold deliver rollDeliver
    simp only [hws]
    cases hsl : sl (d - (f + 1)) with
    | none =>
      simp only [hnext]
      exact ih ws sl nm (by omega) h1 h2
    | some n0 =>
      have hnm : nm k (d - (f + 1)) = some (wk d k (d - (f + 1))) := by rw [h2]; simp [ringNm, hsl]
      by_cases hc : n - n0 + 1 = w
      · simp only [hc, if_true, hnext]
        obtain ⟨nm', t1, t2, t3, t4, t5⟩ := ih (upd ws (k.idx * d + (d - (f + 1))) none) (upd sl (d - (f + 1)) none)
          (updNm nm k (d - (f + 1)) none) (by omega) (ringAt_upd d k ws sl _ none hoff h1)
          (ringNm_upd_none d k sl _ nm h2)
        refine ⟨nm', ?_, t2, t3, ?_, ?_⟩
        · exact .itm nm _ _ x _ _ nm' hnm (.cls nm _ _ _ _ nm' hnm t1)
        · intro k2 hk; rw [t4 k2 hk]; funext j; simp [updNm, hk]
        · intro i hi; rw [t5 i hi]; simp [upd, hi _ hoff]
      · simp only [hc, if_false, hnext]
        obtain ⟨nm', t1, t2, t3, t4, t5⟩ := ih ws sl nm (by omega) h1 h2
        exact ⟨nm', .itm nm _ _ x _ _ nm' hnm t1, t2, t3, t4, t5⟩

theorem clearSlots_eq (d : Nat) (k : Key) : ∀ (n : Nat) (ws : Nat → Option Nat) (i : Nat),
    clearSlots d k n ws i = if ∃ o, o < n ∧ i = k.idx * d + o then none else ws i := by
  intro n
  induction n with
  | zero => intro ws i; simp [clearSlots]
  | succ n ih =>
    intro ws i
    simp only [clearSlots]
    rw [ih]
    by_cases h1 : ∃ o, o < n ∧ i = k.idx * d + o
    · have h1' := h1
      obtain ⟨o, ho, hi⟩ := h1
      have : ∃ o, o < n + 1 ∧ i = k.idx * d + o := ⟨o, by omega, hi⟩
      rw [if_pos h1', if_pos this]
    · by_cases h2 : i = k.idx * d + n
      · have : ∃ o, o < n + 1 ∧ i = k.idx * d + o := ⟨n, by omega, h2⟩
        simp [h1, this, upd, h2]
      · have : ¬ ∃ o, o < n + 1 ∧ i = k.idx * d + o := by
          rintro ⟨o, ho, hi⟩
          by_cases hon : o = n
          · subst hon; exact h2 hi
          · exact h1 ⟨o, by omega, hi⟩
        simp [h1, this, upd, h2]

/-! ### the flush at completion -/

theorem mod_add_inj (d first o1 o2 : Nat) (h1 : o1 < d) (h2 : o2 < d)
    (h : (first + o1) % d = (first + o2) % d) : o1 = o2 := by
  rcases Nat.lt_trichotomy o1 o2 with hlt | heq | hlt
  · exfalso
    have hdvd := dvd_sub_of_mod_eq d (first + o1) (first + o2) (by omega) h
    have : first + o2 - (first + o1) = o2 - o1 := by omega
    rw [this] at hdvd
    have := Nat.le_of_dvd (by omega) hdvd
    omega
  · exact heq
  · exfalso
    have hdvd := dvd_sub_of_mod_eq d (first + o2) (first + o1) (by omega) h.symm
    have : first + o1 - (first + o2) = o1 - o2 := by omega
    rw [this] at hdvd
    have := Nat.le_of_dvd (by omega) hdvd
    omega

theorem mod_add_surj (d first off : Nat) (hd : 0 < d) (ho : off < d) : ∃ o, o < d ∧ (first + o) % d = off := by
  have hr : first % d < d := Nat.mod_lt _ hd
  have hf := Nat.div_add_mod first d
  by_cases hge : first % d ≤ off
  · refine ⟨off - first % d, by omega, ?_⟩
    have : first + (off - first % d) = off + d * (first / d) := by omega
    rw [this, Nat.add_mul_mod_self_left]; exact Nat.mod_eq_of_lt ho
  · refine ⟨off + d - first % d, by omega, ?_⟩
    have : first + (off + d - first % d) = off + d * (first / d + 1) := by
      rw [Nat.mul_add]; omega
    rw [this, Nat.add_mul_mod_self_left]; exact Nat.mod_eq_of_lt ho

/-- the tail of the local flush list, from ring position `d - f` on -/
def lsFlushFrom {α} (d first : Nat) (sl : Slots) : Nat → List (Cmd α)
  | 0 => []
  | f+1 => (match sl ((first + (d - (f + 1))) % d) with
      | some _ => [Cmd.cls ((first + (d - (f + 1))) % d)] | none => []) ++ lsFlushFrom d first sl f

theorem lsFlushFrom_succ {α} (d first : Nat) (sl : Slots) (f : Nat) (_hf : f + 1 ≤ d) :
    lsFlushFrom (α := α) d first sl (f + 1) =
      (match sl ((first + (d - (f + 1))) % d) with
        | some _ => [Cmd.cls ((first + (d - (f + 1))) % d)] | none => []) ++ lsFlushFrom d first sl f := rfl

theorem lsFlushFrom_eq {α} (d first : Nat) (sl : Slots) : ∀ f, f ≤ d →
    lsFlushFrom (α := α) d first sl f =
      ((List.range' (d - f) f).map (fun o => (first + o) % d)).filterMap fun off =>
        match sl off with | some _ => some (Cmd.cls off) | none => none := by
  intro f
  induction f with
  | zero => intro _; rfl
  | succ f ih =>
    intro hf
    have hnext : d - (f + 1) + 1 = d - f := by omega
    rw [lsFlushFrom, ih (by omega), List.range'_succ, hnext]
    simp only [List.map_cons, List.filterMap_cons]
    cases sl ((first + (d - (f + 1))) % d) <;> rfl

theorem flush_corr {α} (d : Nat) (k : Key) (first : Nat) (sl : Slots) :
    ∀ (f : Nat) (ws : Nat → Option Nat) (nm : Naming), f ≤ d →
      (∀ o, d - f ≤ o → o < d → ws (k.idx * d + (first + o) % d) = sl ((first + o) % d) ∧
          nm k ((first + o) % d) = ringNm d k sl ((first + o) % d)) →
      ∃ nm', Tr (α := α) k nm (lsFlushFrom d first sl f) (rollFlush d k (fun ki => Ev.done ki) first f ws).2 nm' ∧
        (∀ o, d - f ≤ o → o < d → nm' k ((first + o) % d) = none) ∧
        (∀ j, (∀ o, d - f ≤ o → o < d → j ≠ (first + o) % d) → nm' k j = nm k j) ∧
        (∀ k2, k2 ≠ k → nm' k2 = nm k2) ∧
        (∀ i, (∀ o, o < d → i ≠ k.idx * d + o) → (rollFlush d k (fun ki => Ev.done (α := α) ki) first f ws).1 i = ws i) := by
  intro f
  induction f with
  | zero =>
    intro ws nm _ _
    refine ⟨nm, by simp only [lsFlushFrom, rollFlush]; exact Tr.nil _, ?_, fun _ _ => rfl, fun _ _ => rfl, fun _ _ => rfl⟩
    intro o h1 h2; omega
  | succ f ih =>
    intro ws nm hf hinv
    have hd0 : 0 < d := by omega
    have hpos : d - (f + 1) < d := by omega
    obtain ⟨hws, hnm⟩ := hinv (d - (f + 1)) (Nat.le_refl _) hpos
    have hofflt : (first + (d - (f + 1))) % d < d := Nat.mod_lt _ hd0
    rw [lsFlushFrom_succ d first sl f hf]
    unfold rollFlush
    simp only [hws]
    cases hsl : sl ((first + (d - (f + 1))) % d) with
    | none =>
      simp only [List.nil_append]
      obtain ⟨nm', t1, t2, t3, t4, t5⟩ := ih ws nm (by omega) (fun o h1 h2 => hinv o (by omega) h2)
      refine ⟨nm', t1, ?_, ?_, t4, t5⟩
      · intro o h1 h2
        by_cases ho : o = d - (f + 1)
        · subst ho
          rw [t3 _ (fun o' h1' h2' heq => by
            have := mod_add_inj d first _ _ hpos h2' heq; omega)]
          rw [hnm]; simp [ringNm, hsl]
        · exact t2 o (by omega) h2
      · intro j hj
        exact t3 j (fun o h1 h2 => hj o (by omega) h2)
    | some v =>
      simp only [List.singleton_append]
      have hnm' : nm k ((first + (d - (f + 1))) % d) = some (wk d k ((first + (d - (f + 1))) % d)) := by
        rw [hnm]; simp [ringNm, hsl]
      obtain ⟨nm', t1, t2, t3, t4, t5⟩ := ih (upd ws (k.idx * d + (first + (d - (f + 1))) % d) none)
        (updNm nm k ((first + (d - (f + 1))) % d) none) (by omega) (by
          intro o h1 h2
          have hne : (first + o) % d ≠ (first + (d - (f + 1))) % d := by
            intro heq
            have := mod_add_inj d first _ _ h2 hpos heq; omega
          have hne2 : k.idx * d + (first + o) % d ≠ k.idx * d + (first + (d - (f + 1))) % d := by omega
          obtain ⟨a1, a2⟩ := hinv o (by omega) h2
          refine ⟨?_, ?_⟩
          · unfold upd; rw [if_neg hne2]; exact a1
          · unfold updNm; rw [if_neg (fun h => hne h.2)]; exact a2)
      refine ⟨nm', .cls nm _ _ _ _ nm' hnm' t1, ?_, ?_, ?_, ?_⟩
      · intro o h1 h2
        by_cases ho : o = d - (f + 1)
        · subst ho
          rw [t3 _ (fun o' h1' h2' heq => by
            have := mod_add_inj d first _ _ hpos h2' heq; omega)]
          simp [updNm]
        · exact t2 o (by omega) h2
      · intro j hj
        rw [t3 j (fun o h1 h2 => hj o (by omega) h2)]
        have : j ≠ (first + (d - (f + 1))) % d := hj _ (Nat.le_refl _) hpos
        simp [updNm, this]
      · intro k2 hk; rw [t4 k2 hk]; funext j; simp [updNm, hk]
      · intro i hi; rw [t5 i hi]; simp [upd, hi _ hofflt]

theorem lsFlushFrom_full {α} (d first : Nat) (sl : Slots) : lsFlushFrom (α := α) d first sl d = lsFlush d first sl := by
  rw [lsFlushFrom_eq d first sl d (Nat.le_refl _)]
  unfold lsFlush
  simp only [Nat.sub_self, List.range_eq_range']
  rfl

/-! ### the simulation -/

structure RingInv {α : Type} (w s : Nat) (live : List Key) (st : RollSt) (T : Key → Option (Nat × Slots)) (nm : Naming) : Prop where
  live_ : ∀ k ∈ live, ∃ n sl, st.n k.idx = some n ∧ T k = some (n, sl) ∧
    (∃ (xs : List α) (ob : Obs α) (c : Nat), RInv w s (density w s) xs (n, sl) ob c) ∧
    RingAt (density w s) k st.w sl ∧ nm k = ringNm (density w s) k sl
  dead : ∀ k, k ∉ live → ∀ j, nm k j = none

/-- every name in use is a ring position of a live parent -/
theorem ring_names {α : Type} {w s : Nat} {live : List Key} {st : RollSt} {T : Key → Option (Nat × Slots)} {nm : Naming}
    (h : RingInv (α := α) w s live st T nm) (k2 : Key) (j2 : Nat) (b : Key) (hb : nm k2 j2 = some b) :
    k2 ∈ live ∧ j2 < density w s ∧ b = wk (density w s) k2 j2 := by
  by_cases hk2 : k2 ∈ live
  · obtain ⟨n, sl, _, _, ⟨xs, ob, c, hr⟩, _, g5⟩ := h.live_ k2 hk2
    rw [g5] at hb
    unfold ringNm at hb
    cases hsl : sl j2 with
    | none => simp [hsl] at hb
    | some v =>
      simp only [hsl, Option.some.injEq] at hb
      refine ⟨hk2, ?_, hb.symm⟩
      rcases Nat.lt_or_ge j2 (density w s) with hlt | hge
      · exact hlt
      · have := hr.outside j2 hge; simp [hsl] at this
  · rw [h.dead k2 hk2 j2] at hb; simp at hb

def rollRingSim {α : Type} (w s : Nat) (hs : 0 < s) (hw : 0 < w) : SplitSim (rollRingSp (α := α) w s) (rollRingLS w s) where
  Inv := RingInv (α := α) w s
  init := ⟨fun _ hk => by simp at hk, fun _ _ _ => rfl⟩
  dead := fun h k hk j => h.dead k hk j
  fatal := fun _ _ => rfl
  create := by
    intro live st T nm k hinv hd _ hany
    have hd0 := density_pos w s hs hw
    have hfresh : ∀ k' ∈ live, k'.idx ≠ k.idx := by
      intro k' hk' heq
      have : (live.any fun k' => k'.idx == k.idx) = true := by
        simp only [List.any_eq_true]; exact ⟨k', hk', by simp [heq]⟩
      simp [this] at hany
    have hknot : k ∉ live := fun h => hfresh k h rfl
    refine ⟨rfl, ?_, ?_⟩
    · intro k0 hk0
      rcases List.mem_cons.mp hk0 with rfl | hk0
      · refine ⟨0, fun _ => none, by simp [rollRingSp, rollStep, upd], by simp [upd, rollRingLS],
          ⟨[], ⟨fun _ => none, []⟩, 0, inv_init w s _ hw⟩, ?_, ?_⟩
        · intro o ho
          simp only [rollRingSp, rollStep]
          rw [clearSlots_eq]
          have : ∃ o', o' < density w s ∧ k0.idx * density w s + o = k0.idx * density w s + o' := ⟨o, ho, rfl⟩
          rw [if_pos this]
        · funext j; rw [hinv.dead k0 hknot j]; simp [ringNm]
      · obtain ⟨n, sl, g1, g2, g3, g4, g5⟩ := hinv.live_ k0 hk0
        have h0 : k0 ≠ k := fun h => hknot (h ▸ hk0)
        have hidx := hfresh k0 hk0
        refine ⟨n, sl, by simp [rollRingSp, rollStep, upd, hidx, g1], by simp [upd, h0, g2], g3, ?_, g5⟩
        intro o ho
        simp only [rollRingSp, rollStep]
        rw [clearSlots_eq]
        have : ¬ ∃ o', o' < density w s ∧ k0.idx * density w s + o = k.idx * density w s + o' := by
          rintro ⟨o', ho', he⟩
          exact hidx (slot_inj _ _ _ _ _ ho ho' he).1
        simp only [this, if_false]
        exact g4 o ho
    · intro k0 hk0 j
      exact hinv.dead k0 (fun h => hk0 (List.mem_cons_of_mem _ h)) j
  next := by
    intro live st T nm k x hinv hd hok hk
    have hd0 := density_pos w s hs hw
    have hdm := density_mul w s hs
    obtain ⟨n, sl, g1, g2, ⟨xs, ob, c, hr⟩, g4, g5⟩ := hinv.live_ k hk
    refine ⟨(n, sl), g2, ?_⟩
    have hn : n = xs.length := hr.hn
    -- the opening step
    have hopen : ∃ nm1, Tr k nm (openSlot (α := α) s (density w s) n sl).2
        (if n % s = 0 then [Ev.create (wk (density w s) k ((n / s) % density w s))] else []) nm1 ∧
        nm1 k = ringNm (density w s) k (openSlot (α := α) s (density w s) n sl).1 ∧
        (∀ k2, k2 ≠ k → nm1 k2 = nm k2) ∧
        RingAt (density w s) k (if n % s = 0 then upd st.w (k.idx * density w s + (n / s) % density w s) (some n) else st.w)
          (openSlot (α := α) s (density w s) n sl).1 := by
      unfold openSlot
      by_cases hm : n % s = 0
      · simp only [hm, if_true]
        have hofflt : (n / s) % density w s < density w s := Nat.mod_lt _ hd0
        -- the slot is free: the window that used it is closed
        have hfree : sl ((n / s) % density w s) = none := by
          cases hsl : sl ((n / s) % density w s) with
          | none => rfl
          | some n0 =>
            exfalso
            obtain ⟨j, hj1, hj2, hj3⟩ := (hr.slots _ hofflt n0).mp hsl
            have hj0 : n / s * s = n := div_mul_of_mod_zero n s hm
            have r1 : recv w s n j := by unfold openAt at hj3; unfold recv; omega
            have r2 : recv w s n (n / s) := by unfold recv; omega
            have := recv_unique w s (density w s) j (n / s) n hdm r1 r2 hj2
            subst this
            unfold openAt at hj3; omega
        have hnone : nm k ((n / s) % density w s) = none := by rw [g5]; simp [ringNm, hfree]
        have hfr : ∀ k2 j2 b, nm k2 j2 = some b → b.idx ≠ (wk (density w s) k ((n / s) % density w s)).idx := by
          intro k2 j2 b hb
          obtain ⟨hk2, hj2, hbe⟩ := ring_names hinv k2 j2 b hb
          rw [hbe, wk_idx, wk_idx]
          intro he
          obtain ⟨e1, e2⟩ := slot_inj _ _ _ _ _ hj2 hofflt he
          by_cases hkk : k2 = k
          · subst hkk; rw [e2, hnone] at hb; simp at hb
          · exact pairwise_idx_distinct live hd k2 hk2 k hk hkk e1
        refine ⟨updNm nm k ((n / s) % density w s) (some (wk (density w s) k ((n / s) % density w s))), ?_, ?_, ?_, ?_⟩
        · exact .opn nm _ _ _ _ _ hnone hfr ⟨_, rfl⟩ (.nil _)
        · funext j
          by_cases hj : j = (n / s) % density w s
          · subst hj; simp [updNm, ringNm, upd]
          · simp [updNm, ringNm, upd, hj, g5]
        · intro k2 hk2; funext j; simp [updNm, hk2]
        · exact ringAt_upd _ k st.w sl _ (some n) hofflt g4
      · simp only [hm, if_false]
        exact ⟨nm, .nil _, g5, fun _ _ => rfl, g4⟩
    obtain ⟨nm1, o1, o2, o3, o4⟩ := hopen
    obtain ⟨nm', t1, t2, t3, t4, t5⟩ := deliver_corr w (density w s) k x n (density w s) _ _ nm1 (Nat.le_refl _) o4 o2
    simp only [Nat.sub_self] at t1 t2 t3
    have hstep : (rollRingSp (α := α) w s).step st (.next k x) =
        (⟨upd st.n k.idx (some (n + 1)),
          (rollDeliver w (density w s) k x n (density w s)
            (if n % s = 0 then upd st.w (k.idx * density w s + (n / s) % density w s) (some n) else st.w)).1⟩,
         (if n % s = 0 then [Ev.create (wk (density w s) k ((n / s) % density w s))] else []) ++
          (rollDeliver w (density w s) k x n (density w s)
            (if n % s = 0 then upd st.w (k.idx * density w s + (n / s) % density w s) (some n) else st.w)).2, []) := by
      simp only [rollRingSp, rollStep, g1]
      by_cases hm : n % s = 0 <;> simp [hm]
    have htr_app : ∀ {c1 c2 : List (Cmd α)} {e1 e2 : List (Ev α)} {n1 n2 n3 : Naming},
        Tr k n1 c1 e1 n2 → Tr k n2 c2 e2 n3 → Tr k n1 (c1 ++ c2) (e1 ++ e2) n3 := by
      intro c1 c2 e1 e2 n1 n2 n3 h1 h2
      induction h1 with
      | nil => exact h2
      | opn nm j a cs es nm' a1 a2 a3 _ ih => exact .opn nm j a _ _ _ a1 a2 a3 (ih h2)
      | itm nm j a x cs es nm' a1 _ ih => exact .itm nm j a x _ _ _ a1 (ih h2)
      | cls nm j a cs es nm' a1 _ ih => exact .cls nm j a _ _ _ a1 (ih h2)
    refine ⟨nm', ?_, ?_, ?_⟩
    · rw [hstep]
      show Tr k nm (rollItem w s (density w s) (n, sl) x).2 _ nm'
      unfold rollItem
      exact htr_app o1 t1
    · rw [hstep]
    · rw [hstep]
      refine ⟨?_, ?_⟩
      · intro k0 hk0
        by_cases h0 : k0 = k
        · subst h0
          refine ⟨n + 1, (rollItem w s (density w s) (n, sl) x).1.2, by simp [upd], ?_, ?_, ?_, ?_⟩
          · simp [upd, rollRingLS, rollItem]
          · have := inv_step w s (density w s) hs hw hd0 hdm xs (n, sl) ob c x hr
            exact ⟨xs ++ [x], _, _, by simpa [rollItem] using this⟩
          · simpa [rollItem] using t2
          · simpa [rollItem] using t3
        · obtain ⟨n0, sl0, f1, f2, f3, f4, f5⟩ := hinv.live_ k0 hk0
          have hidx : k0.idx ≠ k.idx := pairwise_idx_distinct live hd k0 hk0 k hk h0
          refine ⟨n0, sl0, by simp [upd, hidx, f1], by simp [upd, h0, f2], f3, ?_, by rw [t4 k0 h0, o3 k0 h0]; exact f5⟩
          intro o ho
          have hne : ∀ o', o' < density w s → k0.idx * density w s + o ≠ k.idx * density w s + o' :=
            fun o' ho' he => hidx (slot_inj _ _ _ _ _ ho ho' he).1
          show (rollDeliver w (density w s) k x n (density w s) _).1 _ = _
          rw [t5 _ hne]
          by_cases hm : n % s = 0
          · simp only [hm, if_true, upd, hne _ (Nat.mod_lt _ hd0), if_false]; exact f4 o ho
          · simp only [hm, if_false]; exact f4 o ho
      · intro k0 hk0 j
        have h0 : k0 ≠ k := fun h => hk0 (h ▸ hk)
        rw [t4 k0 h0, o3 k0 h0]; exact hinv.dead k0 hk0 j
  done := by
    intro live st T nm k hinv hd hok hk
    have hd0 := density_pos w s hs hw
    obtain ⟨n, sl, g1, g2, ⟨xs, ob, c, hr⟩, g4, g5⟩ := hinv.live_ k hk
    have hmem_erase : ∀ k0, k0 ∈ live.erase k ↔ k0 ≠ k ∧ k0 ∈ live := fun k0 => hd.nodup.mem_erase_iff
    refine ⟨(n, sl), g2, ?_⟩
    obtain ⟨nm', t1, t2, t3, t4, t5⟩ := flush_corr (α := α) (density w s) k (((n + s - 1) / s) % density w s) sl
      (density w s) st.w nm (Nat.le_refl _) (by
        intro o _ ho
        have hlt : ((((n + s - 1) / s) % density w s) + o) % density w s < density w s := Nat.mod_lt _ hd0
        exact ⟨g4 _ hlt, by rw [g5]⟩)
    rw [lsFlushFrom_full] at t1
    have hstep : (rollRingSp (α := α) w s).step st (.done k) =
        (⟨upd st.n k.idx (some 0), (rollFlush (α := α) (density w s) k (fun ki => Ev.done ki) (((n + s - 1) / s) % density w s) (density w s) st.w).1⟩,
         (rollFlush (α := α) (density w s) k (fun ki => Ev.done ki) (((n + s - 1) / s) % density w s) (density w s) st.w).2, [.done k]) := by
      simp only [rollRingSp, rollStep, g1, Option.getD_some]
    have hall : ∀ j, nm' k j = none := by
      intro j
      by_cases hj : j < density w s
      · obtain ⟨o, ho1, ho2⟩ := mod_add_surj (density w s) (((n + s - 1) / s) % density w s) j hd0 hj
        rw [← ho2]; exact t2 o (by omega) ho1
      · rw [t3 j (fun o _ ho heq => hj (by rw [heq]; exact Nat.mod_lt _ hd0))]
        have hout : sl j = none := hr.outside j (by omega)
        rw [g5]; simp [ringNm, hout]
    refine ⟨nm', ?_, ?_, ?_⟩
    · rw [hstep]; exact t1
    · rw [hstep]
    · rw [hstep]
      refine ⟨?_, ?_⟩
      · intro k0 hk0
        obtain ⟨h0, hk0'⟩ := (hmem_erase k0).mp hk0
        obtain ⟨n0, sl0, f1, f2, f3, f4, f5⟩ := hinv.live_ k0 hk0'
        have hidx : k0.idx ≠ k.idx := pairwise_idx_distinct live hd k0 hk0' k hk h0
        refine ⟨n0, sl0, by simp [upd, hidx, f1], by simp [upd, h0, f2], f3, ?_, by rw [t4 k0 h0]; exact f5⟩
        intro o ho
        have hne : ∀ o', o' < density w s → k0.idx * density w s + o ≠ k.idx * density w s + o' :=
          fun o' ho' he => hidx (slot_inj _ _ _ _ _ ho ho' he).1
        show (rollFlush (α := α) (density w s) k _ _ (density w s) st.w).1 _ = _
        rw [t5 _ hne]; exact f4 o ho
      · intro k0 hk0 j
        by_cases h0 : k0 = k
        · subst h0; exact hall j
        · have hn : k0 ∉ live := fun h => hk0 ((hmem_erase k0).mpr ⟨h0, h⟩)
          rw [t4 k0 h0]; exact hinv.dead k0 hn j

/-- `roll` (either implementation) simulates its local description -/
def rollSim {α : Type} (w s : Nat) (hs : 0 < s) (hw : 0 < w) : SplitSim (rollSp (α := α) w s) (rollLS w s) := by
  unfold rollSp rollLS
  by_cases h : w = s
  · simp only [h, if_true]; exact rollCountSim s
  · simp only [h, if_false]; exact rollRingSim w s hs hw

end Rx

import RxModel.Pipeline
/-!
# The indexed lift equals the keyed reference lift on well-formed traces (base case of `impl_eq_ref`),
and the keyed reference lift maps well-formed traces to well-formed traces.
-/
namespace Rx

/-! ### generic facts about chunked runs -/

theorem runSteps_append {S E O} (step : S → E → S × List O) :
    ∀ (a b : List E) (s : S),
      runSteps step s (a ++ b) = runSteps step s a ++ runSteps step (finalState step s a) b := by
  intro a
  induction a with
  | nil => intro b s; rfl
  | cons e a ih => intro b s; simp [runSteps, finalState, ih]

theorem runSteps_length {S E O} (step : S → E → S × List O) :
    ∀ (a : List E) (s : S), (runSteps step s a).length = a.length := by
  intro a; induction a with
  | nil => intro s; rfl
  | cons e a ih => intro s; simp [runSteps, ih]

theorem runGroup_eq {S E O} (step : S → E → S × List O) :
    ∀ (g : List E) (s : S),
      runGroup step s g = (finalState step s g, (runSteps step s g).flatten) := by
  intro g; induction g with
  | nil => intro s; rfl
  | cons e g ih => intro s; simp [runGroup, finalState, runSteps, ih]

theorem runGroup_append {S E O} (step : S → E → S × List O) :
    ∀ (a b : List E) (s : S),
      runGroup step s (a ++ b) =
        ((runGroup step (runGroup step s a).1 b).1, (runGroup step s a).2 ++ (runGroup step (runGroup step s a).1 b).2) := by
  intro a; induction a with
  | nil => intro b s; simp [runGroup]
  | cons e a ih => intro b s; simp [runGroup, ih, List.append_assoc]

def runGroups {S E O} (step : S → E → S × List O) : S → List (List E) → List (List O)
  | _, [] => []
  | s, g :: gs => let r := runGroup step s g; r.2 :: runGroups step r.1 gs

def regroup {O} : List Nat → List (List O) → List (List O)
  | [], _ => []
  | n :: ns, cs => (cs.take n).flatten :: regroup ns (cs.drop n)

theorem runGroups_regroup {S E O} (step : S → E → S × List O) :
    ∀ (gs : List (List E)) (s : S),
      runGroups step s gs = regroup (gs.map List.length) (runSteps step s gs.flatten) := by
  intro gs; induction gs with
  | nil => intro s; rfl
  | cons g gs ih =>
    intro s
    simp only [runGroups, List.map_cons, List.flatten_cons, regroup, runSteps_append, runGroup_eq]
    have hl := runSteps_length step g s
    rw [List.take_left' hl, List.drop_left' hl, ih]

/-- if two machines agree chunk-by-chunk on the flat trace, they agree on any grouping of it -/
theorem runGroups_congr {S S' E O} (step : S → E → S × List O) (step' : S' → E → S' × List O)
    (gs : List (List E)) (s : S) (s' : S')
    (h : runSteps step s gs.flatten = runSteps step' s' gs.flatten) :
    runGroups step s gs = runGroups step' s' gs := by
  rw [runGroups_regroup, runGroups_regroup, h]

/-! ### the base case: `idxLift L` = `refLift L` on well-formed traces -/

/-- relation between the store (`si`, addressed by `key[0]`) and the keyed reference state `sr` -/
def Agree {σ} (live : List Key) (si : Nat → Option σ) (sr : Key → Option σ) : Prop :=
  (∀ k ∈ live, si k.idx = sr k ∧ (sr k).isSome) ∧ (∀ k, k ∉ live → sr k = none) ∧
  live.Pairwise (fun a b => a.idx ≠ b.idx)

theorem pairwise_idx_distinct (live : List Key) (h3 : live.Pairwise (fun a b => a.idx ≠ b.idx)) :
    ∀ a ∈ live, ∀ b ∈ live, a ≠ b → a.idx ≠ b.idx := by
  intro a ha b hb hab
  rcases List.mem_iff_getElem.mp ha with ⟨i, hi, rfl⟩
  rcases List.mem_iff_getElem.mp hb with ⟨j, hj, rfl⟩
  have hij : i ≠ j := fun h => hab (by subst h; rfl)
  rcases Nat.lt_or_gt_of_ne hij with h | h
  · exact List.pairwise_iff_getElem.mp h3 i j hi hj h
  · exact fun e => (List.pairwise_iff_getElem.mp h3 j i hj hi h) e.symm

theorem agree_upd {σ} (live : List Key) (si : Nat → Option σ) (sr : Key → Option σ) (k : Key) (v : σ)
    (hk : k ∈ live) (hag : Agree live si sr) :
    Agree live (upd si k.idx (some v)) (upd sr k (some v)) := by
  obtain ⟨h1, h2, h3⟩ := hag
  have hdist := pairwise_idx_distinct live h3
  refine ⟨?_, ?_, h3⟩
  · intro k' hk'
    by_cases hkk : k' = k
    · subst hkk; simp [upd]
    · have hne : k'.idx ≠ k.idx := hdist k' hk' k hk hkk
      simp [upd, hne, hkk, h1 k' hk']
  · intro k' hk'
    have : k' ≠ k := fun h => hk' (h ▸ hk)
    simp [upd, this, h2 k' hk']

theorem lift_eq_from {α β} (L : LocalOp α β) :
    ∀ (es : List (Ev α)) (live : List Key) (si : Nat → Option L.σ) (sr : Key → Option L.σ),
      Agree live si sr → wfFrom live es = true →
      runSteps (idxStep L) si es = runSteps (refStep L) sr es := by
  intro es
  induction es with
  | nil => intros; rfl
  | cons e es ih =>
    intro live si sr hag hwf
    have hag' := hag
    obtain ⟨h1, h2, h3⟩ := hag
    have hdist := pairwise_idx_distinct live h3
    cases e with
    | create k =>
      by_cases hany : (live.any fun k' => k'.idx == k.idx) = true
      · simp [wfFrom, wfStep, hany] at hwf
      · simp only [wfFrom, wfStep, hany] at hwf
        simp only [runSteps, idxStep, refStep]
        congr 1
        apply ih (k :: live) _ _ _ (by simpa using hwf)
        have hfresh : ∀ k' ∈ live, k'.idx ≠ k.idx := by
          intro k' hk' heq
          apply hany
          simp only [List.any_eq_true]
          exact ⟨k', hk', by simp [heq]⟩
        refine ⟨?_, ?_, ?_⟩
        · intro k' hk'
          rcases List.mem_cons.mp hk' with rfl | hk'
          · simp [upd]
          · have hne : k'.idx ≠ k.idx := hfresh k' hk'
            have hne2 : k' ≠ k := fun h => hne (by rw [h])
            simp [upd, hne, hne2, h1 k' hk']
        · intro k' hk'
          have : k' ≠ k := fun h => hk' (by simp [h])
          have hk'' : k' ∉ live := fun h => hk' (List.mem_cons_of_mem _ h)
          simp [upd, this, h2 k' hk'']
        · refine List.pairwise_cons.mpr ⟨?_, h3⟩
          intro k' hk'; exact fun h => hfresh k' hk' h.symm
    | next k v =>
      by_cases hk : k ∈ live
      · simp only [wfFrom, wfStep, hk, if_true] at hwf
        obtain ⟨hkeq, hsome⟩ := h1 k hk
        simp only [runSteps, idxStep, refStep]
        rw [hkeq]
        cases hs : sr k with
        | none => simp [hs] at hsome
        | some s =>
          simp only
          congr 1
          exact ih live _ _ (agree_upd live si sr k _ hk hag') hwf
      · simp [wfFrom, wfStep, hk] at hwf
    | err k e =>
      by_cases hk : k ∈ live
      · simp only [wfFrom, wfStep, hk, if_true] at hwf
        obtain ⟨hkeq, hsome⟩ := h1 k hk
        simp only [runSteps, idxStep, refStep]
        rw [hkeq]
        cases hs : sr k with
        | none => simp [hs] at hsome
        | some s =>
          simp only
          congr 1
          exact ih live _ _ (agree_upd live si sr k _ hk hag') hwf
      · simp [wfFrom, wfStep, hk] at hwf
    | fatal e =>
      simp only [wfFrom, wfStep] at hwf
      simp only [runSteps, idxStep, refStep]
      congr 1
      exact ih live si sr hag' hwf
    | done k =>
      by_cases hk : k ∈ live
      · simp only [wfFrom, wfStep, hk, if_true] at hwf
        obtain ⟨hkeq, hsome⟩ := h1 k hk
        simp only [runSteps, idxStep, refStep]
        rw [hkeq]
        cases hs : sr k with
        | none => simp [hs] at hsome
        | some s =>
          simp only
          congr 1
          apply ih (live.erase k) _ _ _ hwf
          have hnodup : live.Nodup := by
            refine List.Pairwise.imp ?_ h3
            intro a b hab heq; exact hab (by rw [heq])
          refine ⟨?_, ?_, h3.sublist (List.erase_sublist)⟩
          · intro k' hk'
            have hk'l : k' ∈ live := List.mem_of_mem_erase hk'
            have hkk : k' ≠ k := by
              intro h; subst h
              exact (List.Nodup.not_mem_erase hnodup) hk'
            have hne : k'.idx ≠ k.idx := hdist k' hk'l k hk hkk
            simp [upd, hne, hkk, h1 k' hk'l]
          · intro k' hk'
            by_cases hkk : k' = k
            · subst hkk; simp [upd]
            · have : k' ∉ live := fun h => hk' ((List.mem_erase_of_ne hkk).mpr h)
              simp [upd, hkk, h2 k' this]
      · simp [wfFrom, wfStep, hk] at hwf

/-- **base case of `impl_eq_ref`**: for every per-key operator, on every well-formed trace, the
index-addressed implementation emits, event by event, exactly what the keyed reference emits -/
theorem lift_eq {α β} (L : LocalOp α β) (t : List (Ev α)) (h : WF t) :
    (idxLift L).run t = (refLift L).run t :=
  lift_eq_from L t [] (fun _ => none) (fun _ => none)
    ⟨fun _ hk => by simp at hk, fun _ _ => rfl, List.Pairwise.nil⟩ h

/-! ### the keyed reference lift preserves well-formedness -/

theorem wfFrom_eq {α} : ∀ (t : List (Ev α)) (l : List Key), wfFrom l t = (wfLive l t).isSome := by
  intro t; induction t with
  | nil => intro l; rfl
  | cons e t ih =>
    intro l; simp only [wfFrom, wfLive]
    cases wfStep l e with
    | none => rfl
    | some l' => exact ih l'

theorem wfLive_append {α} : ∀ (a b : List (Ev α)) (l : List Key),
    wfLive l (a ++ b) = (wfLive l a).bind (fun l' => wfLive l' b) := by
  intro a; induction a with
  | nil => intro b l; rfl
  | cons e a ih =>
    intro b l; simp only [List.cons_append, wfLive]
    cases wfStep l e with
    | none => rfl
    | some l' => exact ih b l'

theorem wfLive_outs {β} (k : Key) (l : List Key) (hk : k ∈ l) :
    ∀ os : List (LOut β), wfLive l (os.map (liftOut k)) = some l := by
  intro os; induction os with
  | nil => rfl
  | cons o os ih => cases o <;> simp [wfLive, wfStep, liftOut, hk, ih]

/-- one event: the reference chunk is accepted by the monitor with the same resulting live set -/
theorem ref_chunk_wf {α β} (L : LocalOp α β) (e : Ev α) (live live' : List Key)
    (st : Key → Option L.σ) (hwf : wfStep live e = some live') :
    wfLive live (refStep L st e).2 = some live' := by
  cases e with
  | create k =>
    simp only [refStep, wfLive]
    simp only [wfStep] at hwf ⊢
    by_cases hany : (live.any fun k' => k'.idx == k.idx) = true
    · simp [hany] at hwf
    · simp only [hany] at hwf ⊢; simpa using hwf
  | next k x =>
    by_cases hk : k ∈ live
    · simp only [wfStep, hk, if_true] at hwf
      have : live' = live := by simpa using hwf.symm
      subst this
      simp only [refStep]
      cases st k with
      | none => rfl
      | some s => exact wfLive_outs k live' hk _
    · simp [wfStep, hk] at hwf
  | err k x =>
    by_cases hk : k ∈ live
    · simp only [wfStep, hk, if_true] at hwf
      have : live' = live := by simpa using hwf.symm
      subst this
      simp only [refStep]
      cases st k with
      | none => simp [wfLive, wfStep, hk]
      | some s => exact wfLive_outs k live' hk _
    · simp [wfStep, hk] at hwf
  | fatal x =>
    simp only [wfStep] at hwf
    simp only [refStep, wfLive, wfStep]
    simpa using hwf
  | done k =>
    by_cases hk : k ∈ live
    · simp only [wfStep, hk, if_true] at hwf
      simp only [refStep]
      cases st k with
      | none => simp [wfLive, wfStep, hk]; simpa using hwf
      | some s =>
        rw [wfLive_append, wfLive_outs k live hk]
        simp [wfLive, wfStep, hk]; simpa using hwf
    · simp [wfStep, hk] at hwf

/-- the output of the keyed reference lift is accepted by the monitor whenever the input is, and
leaves the same keys live -/
theorem ref_wf_from {α β} (L : LocalOp α β) :
    ∀ (t : List (Ev α)) (live l' : List Key) (st : Key → Option L.σ),
      wfLive live t = some l' → wfLive live (runSteps (refStep L) st t).flatten = some l' := by
  intro t
  induction t with
  | nil =>
    intro live l' st h
    simp only [wfLive] at h
    simp only [runSteps, List.flatten_nil, wfLive]
    exact h
  | cons e t ih =>
    intro live l' st h
    simp only [runSteps, List.flatten_cons]
    rw [wfLive_append]
    simp only [wfLive] at h
    cases hs : wfStep live e with
    | none => simp [hs] at h
    | some live1 =>
      rw [hs] at h
      rw [ref_chunk_wf L e live live1 st hs]
      simp only [Option.bind_some]
      exact ih live1 l' _ h

theorem ref_wf {α β} (L : LocalOp α β) (t : List (Ev α)) (h : WF t) :
    WF ((refLift L).run t).flatten := by
  unfold WF at h ⊢
  rw [wfFrom_eq] at h ⊢
  cases hl : wfLive [] t with
  | none => simp [hl] at h
  | some l' =>
    have := ref_wf_from L t [] l' (fun _ => none) hl
    show (wfLive [] (runSteps (refStep L) (fun _ => none) t).flatten).isSome = true
    rw [this]; rfl

theorem ref_wf_closed {α β} (L : LocalOp α β) (t : List (Ev α)) (h : WFClosed t) :
    WFClosed ((refLift L).run t).flatten :=
  ref_wf_from L t [] [] (fun _ => none) h

end Rx

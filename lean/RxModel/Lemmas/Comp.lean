import RxModel.Lemmas.Lift
/-!
# Sequential composition: the inductive step of `impl_eq_ref`

If `Q1`, `Q2` equal the keyed reference lifts of `L1`, `L2` on every well-formed trace, then
`compMux Q1 Q2` equals the keyed reference lift of `compLocal L1 L2` on every well-formed trace.
-/
namespace Rx

theorem comp_decompose {α β γ} (Q1 : MuxOp α β) (Q2 : MuxOp β γ) :
    ∀ (t : List (Ev α)) (s1 : Q1.S) (s2 : Q2.S),
      runSteps (compMux Q1 Q2).step (s1, s2) t = runGroups Q2.step s2 (runSteps Q1.step s1 t) := by
  intro t
  induction t with
  | nil => intros; rfl
  | cons e t ih => intro s1 s2; simp only [runSteps, compMux, runGroups]; rw [← ih]; rfl

/-- feeding the outputs of one live key to the reference lift = feeding them to the local operator -/
theorem runGroup_outs {β γ} (L : LocalOp β γ) (k : Key) :
    ∀ (os : List (LOut β)) (st : Key → Option L.σ) (b : L.σ), st k = some b →
      runGroup (refStep L) st (os.map (liftOut k)) =
        (upd st k (some (feedL L b os).1), (feedL L b os).2.map (liftOut k)) := by
  intro os
  induction os with
  | nil =>
    intro st b hb
    simp only [List.map_nil, runGroup, feedL]
    congr 1
    funext k'; by_cases h : k' = k
    · subst h; simp [upd, hb]
    · simp [upd, h]
  | cons o os ih =>
    intro st b hb
    cases o with
    | item x =>
      simp only [List.map_cons, liftOut, runGroup, refStep, hb, feedL]
      rw [ih (upd st k (some (L.next b x).1)) (L.next b x).1 (by simp [upd])]
      simp only [List.map_append]
      congr 1
      funext k'; by_cases h : k' = k
      · subst h; simp [upd]
      · simp [upd, h]
    | err e =>
      simp only [List.map_cons, liftOut, runGroup, refStep, hb, feedL]
      rw [ih (upd st k (some (L.onErr b e).1)) (L.onErr b e).1 (by simp [upd])]
      simp only [List.map_append]
      congr 1
      funext k'; by_cases h : k' = k
      · subst h; simp [upd]
      · simp [upd, h]
    | fatal e =>
      simp only [List.map_cons, liftOut, runGroup, refStep, feedL]
      rw [ih st b hb]
      simp [liftOut]

structure CRel {σ1 σ2} (live : List Key) (s1 : Key → Option σ1) (s2 : Key → Option σ2)
    (sr : Key → Option (σ1 × σ2)) : Prop where
  live_ : ∀ k ∈ live, ∃ a b, sr k = some (a, b) ∧ s1 k = some a ∧ s2 k = some b
  dead : ∀ k, k ∉ live → sr k = none ∧ s1 k = none ∧ s2 k = none
  nodup : live.Nodup

theorem crel_upd {σ1 σ2} (live : List Key) (s1 : Key → Option σ1) (s2 : Key → Option σ2)
    (sr : Key → Option (σ1 × σ2)) (k : Key) (a : σ1) (b : σ2) (hk : k ∈ live) (h : CRel live s1 s2 sr) :
    CRel live (upd s1 k (some a)) (upd s2 k (some b)) (upd sr k (some (a, b))) := by
  obtain ⟨hlive, hdead, hnd⟩ := h
  refine ⟨?_, ?_, hnd⟩
  · intro k0 hk0
    by_cases h0 : k0 = k
    · subst h0; exact ⟨a, b, by simp [upd], by simp [upd], by simp [upd]⟩
    · obtain ⟨a0, b0, f1, f2, f3⟩ := hlive k0 hk0
      exact ⟨a0, b0, by simp [upd, h0, f1], by simp [upd, h0, f2], by simp [upd, h0, f3]⟩
  · intro k0 hk0
    have h0 : k0 ≠ k := fun h => hk0 (h ▸ hk)
    obtain ⟨f1, f2, f3⟩ := hdead k0 hk0
    exact ⟨by simp [upd, h0, f1], by simp [upd, h0, f2], by simp [upd, h0, f3]⟩

theorem comp_sim {α β γ} (L1 : LocalOp α β) (L2 : LocalOp β γ) :
    ∀ (t : List (Ev α)) (live : List Key) (s1 : Key → Option L1.σ) (s2 : Key → Option L2.σ)
      (sr : Key → Option (L1.σ × L2.σ)),
      wfFrom live t = true → CRel live s1 s2 sr →
      runGroups (refStep L2) s2 (runSteps (refStep L1) s1 t) =
        runSteps (refStep (compLocal L1 L2)) sr t := by
  intro t
  induction t with
  | nil => intros; rfl
  | cons e t ih =>
    intro live s1 s2 sr hwf hrel
    have hrel' := hrel
    obtain ⟨hlive, hdead, hnd⟩ := hrel
    simp only [wfFrom] at hwf
    cases e with
    | create k =>
      by_cases hany : (live.any fun k' => k'.idx == k.idx) = true
      · simp [wfStep, hany] at hwf
      · simp only [wfStep, hany] at hwf
        have hknot : k ∉ live := by
          intro h; apply hany; simp only [List.any_eq_true]; exact ⟨k, h, by simp⟩
        simp only [runSteps, refStep, runGroups, runGroup, List.append_nil]
        congr 1
        apply ih (k :: live) _ _ _ (by simpa using hwf)
        refine ⟨?_, ?_, List.nodup_cons.mpr ⟨hknot, hnd⟩⟩
        · intro k0 hk0
          rcases List.mem_cons.mp hk0 with rfl | hk0
          · exact ⟨L1.init, L2.init, by simp [upd, compLocal], by simp [upd], by simp [upd]⟩
          · obtain ⟨a, b, g1, g2, g3⟩ := hlive k0 hk0
            have h0 : k0 ≠ k := fun h => hknot (h ▸ hk0)
            exact ⟨a, b, by simp [upd, h0, g1], by simp [upd, h0, g2], by simp [upd, h0, g3]⟩
        · intro k0 hk0
          have h0 : k0 ≠ k := fun h => hk0 (by simp [h])
          have hn : k0 ∉ live := fun h => hk0 (List.mem_cons_of_mem _ h)
          obtain ⟨g1, g2, g3⟩ := hdead k0 hn
          exact ⟨by simp [upd, h0, g1], by simp [upd, h0, g2], by simp [upd, h0, g3]⟩
    | next k x =>
      by_cases hk : k ∈ live
      · simp only [wfStep, hk, if_true] at hwf
        obtain ⟨a, b, g1, g2, g3⟩ := hlive k hk
        simp only [runSteps, refStep, g1, g2, runGroups, compLocal]
        rw [runGroup_outs L2 k _ s2 b g3]
        congr 1
        exact ih live _ _ _ hwf (crel_upd live s1 s2 sr k _ _ hk hrel')
      · simp [wfStep, hk] at hwf
    | err k x =>
      by_cases hk : k ∈ live
      · simp only [wfStep, hk, if_true] at hwf
        obtain ⟨a, b, g1, g2, g3⟩ := hlive k hk
        simp only [runSteps, refStep, g1, g2, runGroups, compLocal]
        rw [runGroup_outs L2 k _ s2 b g3]
        congr 1
        exact ih live _ _ _ hwf (crel_upd live s1 s2 sr k _ _ hk hrel')
      · simp [wfStep, hk] at hwf
    | fatal x =>
      simp only [wfStep] at hwf
      simp only [runSteps, refStep, runGroups, runGroup, List.append_nil]
      congr 1
      exact ih live _ _ _ hwf hrel'
    | done k =>
      by_cases hk : k ∈ live
      · simp only [wfStep, hk, if_true] at hwf
        obtain ⟨a, b, g1, g2, g3⟩ := hlive k hk
        simp only [runSteps, refStep, g1, g2, runGroups, compLocal]
        rw [runGroup_append, runGroup_outs L2 k _ s2 b g3]
        simp only [runGroup, refStep, upd, if_true, List.append_nil, List.map_append, List.append_assoc]
        congr 1
        apply ih (live.erase k) _ _ _ hwf
        have hmem_erase : ∀ k0, k0 ∈ live.erase k ↔ k0 ∈ live ∧ k0 ≠ k := by
          intro k0
          constructor
          · intro h
            refine ⟨List.mem_of_mem_erase h, ?_⟩
            rintro rfl; exact (List.Nodup.not_mem_erase hnd) h
          · rintro ⟨f1, f2⟩; exact (List.mem_erase_of_ne f2).mpr f1
        refine ⟨?_, ?_, hnd.erase _⟩
        · intro k0 hk0
          obtain ⟨f1, f2⟩ := (hmem_erase k0).mp hk0
          obtain ⟨a0, b0, e1, e2, e3⟩ := hlive k0 f1
          exact ⟨a0, b0, by simp [upd, f2, e1], by simp [upd, f2, e2], by simp [upd, f2, e3]⟩
        · intro k0 hk0
          by_cases h0 : k0 = k
          · subst h0; exact ⟨by simp [upd], by simp [upd], by simp [upd]⟩
          · have hn : k0 ∉ live := fun h => hk0 ((hmem_erase k0).mpr ⟨h, h0⟩)
            obtain ⟨e1, e2, e3⟩ := hdead k0 hn
            exact ⟨by simp [upd, h0, e1], by simp [upd, h0, e2], by simp [upd, h0, e3]⟩
      · simp [wfStep, hk] at hwf

/-- a mux operator implements a local operator: on every well-formed trace it emits, event by
event, what the keyed reference lift of the local operator emits -/
def Implements {α β} (Q : MuxOp α β) (L : LocalOp α β) : Prop :=
  ∀ t, WF t → Q.run t = (refLift L).run t

/-- **the inductive step of `impl_eq_ref` for sequential composition** -/
theorem comp_implements {α β γ} (Q1 : MuxOp α β) (Q2 : MuxOp β γ) (L1 : LocalOp α β) (L2 : LocalOp β γ)
    (h1 : Implements Q1 L1) (h2 : Implements Q2 L2) :
    Implements (compMux Q1 Q2) (compLocal L1 L2) := by
  intro t ht
  show runSteps (compMux Q1 Q2).step (Q1.init, Q2.init) t = _
  rw [comp_decompose]
  have e1 : runSteps Q1.step Q1.init t = runSteps (refStep L1) (fun _ => none) t := h1 t ht
  rw [e1]
  have hmid : WF (runSteps (refStep L1) (fun _ => none) t).flatten := ref_wf L1 t ht
  have e2 := h2 _ hmid
  rw [runGroups_congr Q2.step (refStep L2) _ Q2.init (fun _ => none) e2]
  exact comp_sim L1 L2 t [] _ _ _ ht ⟨by simp, fun _ _ => ⟨rfl, rfl, rfl⟩, List.nodup_nil⟩

/-- base case: every per-key operator -/
theorem lift_implements {α β} (L : LocalOp α β) : Implements (idxLift L) L :=
  fun t ht => lift_eq L t ht

end Rx

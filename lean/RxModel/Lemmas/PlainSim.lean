import RxModel.Lemmas.Local
/-!
# Plain execution versus keyed (local) execution, compositionally

The total outcome of a plain operator over the items `xs` of a stream that then completes or dies
(`PlainOp.tot`), versus everything a local operator emits for an input stream `os` and its
completion (`LocalOp.fed`).  `AgreeT P L` is the compositional form of "plain = keyed":

* if the plain run does not raise, both deliver the same items in the same order;
* if it raises, what it delivered before is a prefix of what the keyed run delivers.

It is closed under sequential composition (`agreeT_comp`) because
* plain composition is function composition on totals, early completion included
  (`tot_comp`: an operator that completes early stops its upstream, which masks later errors), and
* local composition is function composition (`fed_comp`).
-/
namespace Rx

/-! ## outputs up to equivalence -/

def hasFatal {β} (l : List (LOut β)) : Bool :=
  l.any (fun o => match o with | .fatal _ => true | _ => false)

/-- items delivered before the first `on_error` -/
def itemsT {β} (l : List (LOut β)) : List β := items (truncFatal l)

@[simp] theorem hasFatal_nil {β} : hasFatal ([] : List (LOut β)) = false := rfl
@[simp] theorem hasFatal_item {β} (b : β) (l : List (LOut β)) : hasFatal (.item b :: l) = hasFatal l := by
  simp [hasFatal]
@[simp] theorem hasFatal_err {β} (e : Err) (l : List (LOut β)) : hasFatal (.err e :: l) = hasFatal l := by
  simp [hasFatal]
@[simp] theorem hasFatal_fatal {β} (e : Err) (l : List (LOut β)) : hasFatal (.fatal e :: l) = true := by
  simp [hasFatal]
@[simp] theorem hasFatal_append {β} (a b : List (LOut β)) : hasFatal (a ++ b) = (hasFatal a || hasFatal b) := by
  simp [hasFatal]

@[simp] theorem items_nil {β} : items ([] : List (LOut β)) = [] := rfl
@[simp] theorem items_item {β} (b : β) (l : List (LOut β)) : items (.item b :: l) = b :: items l := by
  simp [items]
@[simp] theorem items_err {β} (e : Err) (l : List (LOut β)) : items (.err e :: l) = items l := by
  simp [items]
@[simp] theorem items_fatal {β} (e : Err) (l : List (LOut β)) : items (.fatal e :: l) = items l := by
  simp [items]
@[simp] theorem items_append {β} (a b : List (LOut β)) : items (a ++ b) = items a ++ items b := by
  simp [items]

@[simp] theorem itemsT_nil {β} : itemsT ([] : List (LOut β)) = [] := rfl
@[simp] theorem itemsT_item {β} (b : β) (l : List (LOut β)) : itemsT (.item b :: l) = b :: itemsT l := by
  simp [itemsT, truncFatal]
@[simp] theorem itemsT_err {β} (e : Err) (l : List (LOut β)) : itemsT (.err e :: l) = itemsT l := by
  simp [itemsT, truncFatal]
@[simp] theorem itemsT_fatal {β} (e : Err) (l : List (LOut β)) : itemsT (.fatal e :: l) = [] := by
  simp [itemsT, truncFatal]

theorem itemsT_append_fatal {β} (a b : List (LOut β)) (h : hasFatal a = true) : itemsT (a ++ b) = itemsT a := by
  induction a with
  | nil => simp at h
  | cons o a ih => cases o <;> simp_all

theorem itemsT_append_nofatal {β} (a b : List (LOut β)) (h : hasFatal a = false) :
    itemsT (a ++ b) = items a ++ itemsT b := by
  induction a with
  | nil => simp
  | cons o a ih => cases o <;> simp_all

theorem itemsT_nofatal {β} (a : List (LOut β)) (h : hasFatal a = false) : itemsT a = items a := by
  have := itemsT_append_nofatal a [] h
  simpa using this

theorem itemsT_prefix_items {β} (a : List (LOut β)) : itemsT a <+: items a := by
  induction a with
  | nil => simp
  | cons o a ih =>
    cases o with
    | item b => simpa using ih
    | err e => simpa using ih
    | fatal e => simp

theorem hasFatal_truncFatal {β} (a : List (LOut β)) : hasFatal (truncFatal a) = hasFatal a := by
  induction a with
  | nil => rfl
  | cons o a ih => cases o <;> simp [truncFatal, ih]

theorem noFatal_iff {β} (l : List (LOut β)) :
    (l.all (fun o => match o with | .fatal _ => false | _ => true)) = !hasFatal l := by
  induction l with
  | nil => rfl
  | cons o l ih => cases o <;> simp_all [hasFatal]

/-- same delivered items (before the first error) and same error status -/
def OEq {β} (a b : List (LOut β)) : Prop := itemsT a = itemsT b ∧ hasFatal a = hasFatal b

theorem OEq.refl {β} (a : List (LOut β)) : OEq a a := ⟨rfl, rfl⟩
theorem OEq.symm {β} {a b : List (LOut β)} (h : OEq a b) : OEq b a := ⟨h.1.symm, h.2.symm⟩
theorem OEq.trans {β} {a b c : List (LOut β)} (h1 : OEq a b) (h2 : OEq b c) : OEq a c :=
  ⟨h1.1.trans h2.1, h1.2.trans h2.2⟩

theorem OEq.append_left {β} (a : List (LOut β)) {b b' : List (LOut β)} (h : OEq b b') : OEq (a ++ b) (a ++ b') := by
  cases hf : hasFatal a with
  | true => exact ⟨by rw [itemsT_append_fatal a b hf, itemsT_append_fatal a b' hf], by simp [hf]⟩
  | false => exact ⟨by rw [itemsT_append_nofatal a b hf, itemsT_append_nofatal a b' hf, h.1], by simp [hf, h.2]⟩

theorem OEq.drop_after_fatal {β} (a b : List (LOut β)) (h : hasFatal a = true) : OEq (a ++ b) a :=
  ⟨itemsT_append_fatal a b h, by simp [h]⟩

theorem OEq.err_cons {β} (e : Err) (a : List (LOut β)) : OEq (.err e :: a) a := ⟨by simp, by simp⟩

/-! ## the keyed side: everything emitted for an input stream and its completion -/

def LocalOp.fed {α β} (L : LocalOp α β) (s : L.σ) (os : List (LOut α)) : List (LOut β) :=
  (feedL L s os).2 ++ L.fin (feedL L s os).1

theorem feedL_append {α β} (L : LocalOp α β) : ∀ (a b : List (LOut α)) (s : L.σ),
    feedL L s (a ++ b) = ((feedL L (feedL L s a).1 b).1, (feedL L s a).2 ++ (feedL L (feedL L s a).1 b).2) := by
  intro a
  induction a with
  | nil => intro b s; simp [feedL]
  | cons o a ih =>
    intro b s
    cases o with
    | item x => simp only [List.cons_append, feedL, ih, List.append_assoc]
    | err e => simp only [List.cons_append, feedL, ih, List.append_assoc]
    | fatal e => simp only [List.cons_append, feedL, ih, List.cons_append]

theorem fed_nil {α β} (L : LocalOp α β) (s : L.σ) : L.fed s [] = L.fin s := by
  simp [LocalOp.fed, feedL]

theorem fed_item {α β} (L : LocalOp α β) (s : L.σ) (x : α) (r : List (LOut α)) :
    L.fed s (.item x :: r) = (L.next s x).2 ++ L.fed (L.next s x).1 r := by
  simp [LocalOp.fed, feedL]

theorem fed_err {α β} (L : LocalOp α β) (s : L.σ) (e : Err) (r : List (LOut α)) :
    L.fed s (.err e :: r) = (L.onErr s e).2 ++ L.fed (L.onErr s e).1 r := by
  simp [LocalOp.fed, feedL]

theorem fed_fatal {α β} (L : LocalOp α β) (s : L.σ) (e : Err) (r : List (LOut α)) :
    L.fed s (.fatal e :: r) = .fatal e :: L.fed s r := by
  simp [LocalOp.fed, feedL]

/-- `fed` over explicit step functions (so that composite states are plain pairs) -/
def fedRaw {σ α β : Type} (next : σ → α → σ × List (LOut β)) (onErr : σ → Err → σ × List (LOut β))
    (fin : σ → List (LOut β)) : σ → List (LOut α) → List (LOut β)
  | s, [] => fin s
  | s, .item x :: r => (next s x).2 ++ fedRaw next onErr fin (next s x).1 r
  | s, .err e :: r => (onErr s e).2 ++ fedRaw next onErr fin (onErr s e).1 r
  | s, .fatal e :: r => .fatal e :: fedRaw next onErr fin s r

theorem fed_eq_raw {α β} (L : LocalOp α β) : ∀ (os : List (LOut α)) (s : L.σ),
    L.fed s os = fedRaw L.next L.onErr L.fin s os := by
  intro os
  induction os with
  | nil => intro s; rw [fed_nil]; rfl
  | cons o os ih =>
    intro s
    cases o with
    | item x => rw [fed_item, ih]; rfl
    | err e => rw [fed_err, ih]; rfl
    | fatal e => rw [fed_fatal, ih]; rfl

theorem fed_append_out {α β} (L : LocalOp α β) (a b : List (LOut α)) (s : L.σ) :
    L.fed s (a ++ b) = (feedL L s a).2 ++ L.fed (feedL L s a).1 b := by
  simp only [LocalOp.fed, feedL_append, List.append_assoc]

def compNext {α β γ} (L1 : LocalOp α β) (L2 : LocalOp β γ) (s : L1.σ × L2.σ) (x : α) : (L1.σ × L2.σ) × List (LOut γ) :=
  (((L1.next s.1 x).1, (feedL L2 s.2 (L1.next s.1 x).2).1), (feedL L2 s.2 (L1.next s.1 x).2).2)
def compErr {α β γ} (L1 : LocalOp α β) (L2 : LocalOp β γ) (s : L1.σ × L2.σ) (e : Err) : (L1.σ × L2.σ) × List (LOut γ) :=
  (((L1.onErr s.1 e).1, (feedL L2 s.2 (L1.onErr s.1 e).2).1), (feedL L2 s.2 (L1.onErr s.1 e).2).2)
def compFin {α β γ} (L1 : LocalOp α β) (L2 : LocalOp β γ) (s : L1.σ × L2.σ) : List (LOut γ) :=
  (feedL L2 s.2 (L1.fin s.1)).2 ++ L2.fin (feedL L2 s.2 (L1.fin s.1)).1

theorem fedRaw_comp {α β γ} (L1 : LocalOp α β) (L2 : LocalOp β γ) : ∀ (os : List (LOut α)) (s1 : L1.σ) (s2 : L2.σ),
    fedRaw (compNext L1 L2) (compErr L1 L2) (compFin L1 L2) (s1, s2) os = L2.fed s2 (L1.fed s1 os) := by
  intro os
  induction os with
  | nil =>
    intro s1 s2
    rw [fed_nil]
    simp [fedRaw, compFin, LocalOp.fed]
  | cons o os ih =>
    intro s1 s2
    cases o with
    | item x =>
      rw [fed_item, fed_append_out]
      simp only [fedRaw, compNext, ih]
    | err e =>
      rw [fed_err, fed_append_out]
      simp only [fedRaw, compErr, ih]
    | fatal e =>
      rw [fed_fatal, fed_fatal]
      simp only [fedRaw, ih]

/-- local composition is function composition -/
theorem fed_comp {α β γ} (L1 : LocalOp α β) (L2 : LocalOp β γ) (os : List (LOut α)) (s1 : L1.σ) (s2 : L2.σ) :
    (compLocal L1 L2).fed (s1, s2) os = L2.fed s2 (L1.fed s1 os) :=
  (fed_eq_raw (compLocal L1 L2) os (s1, s2)).trans (fedRaw_comp L1 L2 os s1 s2)

theorem feedL_items {α β} (L : LocalOp α β) : ∀ (xs : List α) (s : L.σ),
    (feedL L s (xs.map .item)).2 = (runRaw L.next L.fin s xs).1.flatten ∧
    L.fin (feedL L s (xs.map .item)).1 = (runRaw L.next L.fin s xs).2 := by
  intro xs
  induction xs with
  | nil => intro s; simp [feedL, runRaw]
  | cons x xs ih =>
    intro s
    have := ih (L.next s x).1
    simp only [List.map_cons, feedL, runRaw, List.flatten_cons]
    exact ⟨by rw [this.1], this.2⟩

theorem outL_eq_fed {α β} (L : LocalOp α β) (xs : List α) : L.outL xs = L.fed L.init (xs.map .item) := by
  have := feedL_items L xs L.init
  simp only [LocalOp.outL, LocalOp.runL, LocalOp.fed]
  rw [this.1, this.2]

@[simp] theorem items_map_item {α} (xs : List α) : items (xs.map (LOut.item)) = xs := by
  induction xs with
  | nil => rfl
  | cons x xs ih => simp [ih]

/-- the operator will emit no item any more, whatever comes -/
def Silent {α β} (L : LocalOp α β) (s : L.σ) : Prop := ∀ os, items (L.fed s os) = []

/-! ## the plain side: total outcome of a stream that completes or dies -/

inductive Term where
  | complete
  | die
  deriving DecidableEq

/-- continuation-passing run: `k` is what happens at the end of the input if still running -/
def PlainOp.goK {α β} (P : PlainOp α β) (k : P.σ → List (LOut β)) : P.σ → List α → List (LOut β)
  | s, [] => k s
  | s, x :: xs => if stopsP (P.next s x).2 then (P.next s x).2.1 else (P.next s x).2.1 ++ P.goK k (P.next s x).1 xs

/-- the end of the input: completion (→ `fin`) or an upstream error passing through -/
def PlainOp.endK {α β} (P : PlainOp α β) : Term → P.σ → List (LOut β)
  | .complete => P.fin
  | .die => fun _ => [.fatal "upstream"]

def PlainOp.go {α β} (P : PlainOp α β) (s : P.σ) (xs : List α) (t : Term) : List (LOut β) := P.goK (P.endK t) s xs

def PlainOp.tot {α β} (P : PlainOp α β) (xs : List α) (t : Term) : List (LOut β) :=
  if stopsP P.start then P.start.1 else P.start.1 ++ P.go P.init xs t

theorem stopsP_eq {β} (r : List (LOut β) × Bool) : stopsP r = (r.2 || hasFatal r.1) := rfl

theorem goK_append {α β} (P : PlainOp α β) (k : P.σ → List (LOut β)) : ∀ (xs ys : List α) (s : P.σ),
    P.goK k s (xs ++ ys) = P.goK (fun s' => P.goK k s' ys) s xs := by
  intro xs
  induction xs with
  | nil => intro ys s; rfl
  | cons x xs ih => intro ys s; simp only [List.cons_append, PlainOp.goK, ih]

theorem runP_go {α β} (P : PlainOp α β) : ∀ (xs : List α) (s : P.σ),
    (P.runP s xs).1.flatten ++ (P.runP s xs).2 = P.go s xs .complete := by
  intro xs
  induction xs with
  | nil => intro s; simp [PlainOp.runP, PlainOp.go, PlainOp.goK, PlainOp.endK]
  | cons x xs ih =>
    intro s
    cases h : stopsP (P.next s x).2 with
    | true =>
      rw [runP_cons_stop _ _ _ _ h]
      have : (List.map (fun _ => ([] : List (LOut β))) xs).flatten = [] := by
        induction xs with
        | nil => rfl
        | cons y ys ih2 => simp
      simp [PlainOp.go, PlainOp.goK, h, this]
    | false =>
      rw [runP_cons_go _ _ _ _ h]
      have := ih (P.next s x).1
      simp only [PlainOp.go] at this
      simp only [PlainOp.go, PlainOp.goK, h, List.flatten_cons, List.append_assoc, Bool.false_eq_true, if_false]
      rw [this]

theorem out_eq_tot {α β} (P : PlainOp α β) (xs : List α) : P.out xs = truncFatal (P.tot xs .complete) := by
  simp only [PlainOp.out, PlainOp.run, PlainOp.tot]
  cases h : stopsP P.start with
  | true =>
    have : (List.map (fun _ => ([] : List (LOut β))) xs).flatten = [] := by
      induction xs with
      | nil => rfl
      | cons y ys ih2 => simp
    simp [this]
  | false =>
    simp only [Bool.false_eq_true, if_false, List.flatten_cons, List.append_assoc]
    rw [runP_go]

/-! ## feeding a chunk to a plain operator = running it over the chunk's items -/

theorem feedP_err {β γ} (P : PlainOp β γ) (s : P.σ) (e : Err) (r : List (LOut β)) :
    feedP P s (.err e :: r) = ((feedP P s r).1, .err e :: (feedP P s r).2.1, (feedP P s r).2.2) := rfl

theorem feedP_sem {β γ} (P : PlainOp β γ) (k : P.σ → List (LOut γ)) : ∀ (os : List (LOut β)) (s : P.σ),
    OEq (if (feedP P s os).2.2 then (feedP P s os).2.1 else (feedP P s os).2.1 ++ k (feedP P s os).1)
        (P.goK (if hasFatal os then (fun _ => [.fatal "upstream"]) else k) s (itemsT os)) := by
  intro os
  induction os with
  | nil => intro s; simp [feedP, PlainOp.goK]; exact OEq.refl _
  | cons o os ih =>
    intro s
    cases o with
    | item b =>
      simp only [feedP, itemsT_item, hasFatal_item, PlainOp.goK]
      cases hd : (P.next s b).2.2 with
      | true =>
        have hs : stopsP (P.next s b).2 = true := by simp [stopsP_eq, hd]
        simp only [hd, if_true, hs]
        exact OEq.refl _
      | false =>
        simp only [Bool.false_eq_true, if_false]
        cases hf : hasFatal (P.next s b).2.1 with
        | true =>
          have hs : stopsP (P.next s b).2 = true := by simp [stopsP_eq, hf]
          simp only [hs, if_true]
          split
          · exact OEq.drop_after_fatal _ _ hf
          · rw [List.append_assoc]; exact OEq.drop_after_fatal _ _ hf
        | false =>
          have hs : stopsP (P.next s b).2 = false := by simp [stopsP_eq, hd, hf]
          simp only [hs, Bool.false_eq_true, if_false]
          have := ih (P.next s b).1
          split
          · next h2 =>
            simp only [h2, if_true] at this
            exact OEq.append_left _ this
          · next h2 =>
            simp only [h2, Bool.false_eq_true, if_false] at this
            rw [List.append_assoc]
            exact OEq.append_left _ this
    | err e =>
      rw [feedP_err]
      simp only [itemsT_err, hasFatal_err]
      have := ih s
      by_cases h2 : (feedP P s os).2.2 = true
      · rw [if_pos h2] at this ⊢
        exact (OEq.err_cons e _).trans this
      · rw [if_neg h2] at this ⊢
        rw [List.cons_append]
        exact (OEq.err_cons e _).trans this
    | fatal e =>
      simp only [feedP, itemsT_fatal, hasFatal_fatal, if_true, PlainOp.goK]
      exact ⟨by simp, by simp⟩

/-! ## plain composition is function composition on totals -/

/-- how the downstream operator sees the end of its upstream -/
def termOf {β} (l : List (LOut β)) : Term := if hasFatal l then .die else .complete

theorem endK_fatal {β γ} (P : PlainOp β γ) (l : List (LOut β)) :
    (if hasFatal l then (fun _ => [LOut.fatal "upstream"]) else P.endK .complete) = P.endK (termOf l) := by
  unfold termOf
  cases hasFatal l <;> rfl

theorem go_comp {α β γ} (P1 : PlainOp α β) (P2 : PlainOp β γ) (t : Term) : ∀ (xs : List α) (s1 : P1.σ) (s2 : P2.σ),
    OEq ((compPlain P1 P2).go (s1, s2) xs t) (P2.go s2 (itemsT (P1.go s1 xs t)) (termOf (P1.go s1 xs t))) := by
  intro xs
  induction xs with
  | nil =>
    intro s1 s2
    cases t with
    | complete =>
      show OEq (if (feedP P2 s2 (P1.fin s1)).2.2 then (feedP P2 s2 (P1.fin s1)).2.1
                else (feedP P2 s2 (P1.fin s1)).2.1 ++ P2.fin (feedP P2 s2 (P1.fin s1)).1) _
      have := feedP_sem P2 P2.fin (P1.fin s1) s2
      have e : P1.go s1 [] .complete = P1.fin s1 := rfl
      rw [e]
      simp only [PlainOp.go]
      rw [← endK_fatal]
      exact this
    | die =>
      exact ⟨by simp [PlainOp.go, PlainOp.goK, PlainOp.endK, termOf], by simp [PlainOp.go, PlainOp.goK, PlainOp.endK, termOf]⟩
  | cons x xs ih =>
    intro s1 s2
    -- one step of the composition
    have hnext : (compPlain P1 P2).next (s1, s2) x =
        (if (feedP P2 s2 (P1.next s1 x).2.1).2.2 then
          (((P1.next s1 x).1, (feedP P2 s2 (P1.next s1 x).2.1).1), (feedP P2 s2 (P1.next s1 x).2.1).2.1, true)
         else if (P1.next s1 x).2.2 then
          (((P1.next s1 x).1, (feedP P2 s2 (P1.next s1 x).2.1).1),
            (feedP P2 s2 (P1.next s1 x).2.1).2.1 ++ P2.fin (feedP P2 s2 (P1.next s1 x).2.1).1, true)
         else (((P1.next s1 x).1, (feedP P2 s2 (P1.next s1 x).2.1).1), (feedP P2 s2 (P1.next s1 x).2.1).2.1, false)) := rfl
    have hgoC : (compPlain P1 P2).go (s1, s2) (x :: xs) t =
        (if stopsP ((compPlain P1 P2).next (s1, s2) x).2 then ((compPlain P1 P2).next (s1, s2) x).2.1
         else ((compPlain P1 P2).next (s1, s2) x).2.1 ++ (compPlain P1 P2).go ((compPlain P1 P2).next (s1, s2) x).1 xs t) := rfl
    have hgo1 : P1.go s1 (x :: xs) t =
        (if stopsP (P1.next s1 x).2 then (P1.next s1 x).2.1 else (P1.next s1 x).2.1 ++ P1.go (P1.next s1 x).1 xs t) := rfl
    rw [hgoC, hnext, hgo1]
    generalize hr1 : P1.next s1 x = r1
    obtain ⟨s1', o1, d1⟩ := r1
    simp only
    generalize hr2 : feedP P2 s2 o1 = r2
    obtain ⟨s2', o2, d2⟩ := r2
    simp only
    cases hf1 : hasFatal o1 with
    | true =>
      -- the upstream raised within this chunk: the chunk ends the composed run
      have hs1 : stopsP (o1, d1) = true := by simp [stopsP_eq, hf1]
      have hsem := feedP_sem P2 (P2.endK t) o1 s2
      rw [hr2] at hsem
      simp only [hf1, if_true] at hsem
      -- feedP stops at the error (or earlier): d2 = true
      have hd2 : d2 = true := by
        have : ∀ (os : List (LOut β)) (s : P2.σ), hasFatal os = true → (feedP P2 s os).2.2 = true := by
          intro os
          induction os with
          | nil => intro s h; simp at h
          | cons o os ih2 =>
            intro s h
            cases o with
            | item b =>
              simp only [feedP]
              split
              · rfl
              · exact ih2 _ (by simpa using h)
            | err e => simp only [feedP]; exact ih2 _ (by simpa using h)
            | fatal e => simp [feedP]
        have := this o1 s2 hf1
        rw [hr2] at this
        exact this
      subst hd2
      simp only [if_true, hs1, stopsP_eq, Bool.true_or] at hsem ⊢
      have e : termOf o1 = .die := by simp [termOf, hf1]
      rw [e]
      exact hsem
    | false =>
      cases d1 with
      | true =>
        -- the upstream completed with this chunk: downstream is flushed
        have hs1 : stopsP (o1, true) = true := by simp [stopsP_eq]
        have hsem := feedP_sem P2 P2.fin o1 s2
        rw [hr2] at hsem
        simp only [hf1, Bool.false_eq_true, if_false] at hsem
        have e : termOf o1 = .complete := by simp [termOf, hf1]
        simp only [hs1, if_true, e]
        show OEq _ (P2.goK (P2.endK .complete) s2 (itemsT o1))
        cases d2 with
        | true => simpa [stopsP_eq, PlainOp.endK] using hsem
        | false => simpa [stopsP_eq, PlainOp.endK] using hsem
      | false =>
        have hs1 : stopsP (o1, false) = false := by simp [stopsP_eq, hf1]
        simp only [hs1, Bool.false_eq_true, if_false]
        -- what downstream makes of the rest
        have hrest := ih s1' s2'
        have hit : itemsT (o1 ++ P1.go s1' xs t) = items o1 ++ itemsT (P1.go s1' xs t) := itemsT_append_nofatal _ _ hf1
        have hto : termOf (o1 ++ P1.go s1' xs t) = termOf (P1.go s1' xs t) := by simp [termOf, hf1]
        rw [hit, hto]
        simp only [PlainOp.go]
        rw [goK_append]
        have hsem := feedP_sem P2 (fun s' => P2.goK (P2.endK (termOf (P1.go s1' xs t))) s' (itemsT (P1.go s1' xs t))) o1 s2
        rw [hr2] at hsem
        simp only [hf1, Bool.false_eq_true, if_false, itemsT_nofatal o1 hf1] at hsem
        refine OEq.trans ?_ hsem
        cases d2 with
        | true => simp [stopsP_eq]; exact OEq.refl _
        | false =>
          simp only [Bool.false_eq_true, if_false]
          cases hf2 : hasFatal o2 with
          | true =>
            have : stopsP (o2, false) = true := by simp [stopsP_eq, hf2]
            simp only [this, if_true]
            exact (OEq.drop_after_fatal _ _ hf2).symm
          | false =>
            have : stopsP (o2, false) = false := by simp [stopsP_eq, hf2]
            simp only [this, Bool.false_eq_true, if_false]
            exact OEq.append_left _ hrest

/-- operators emit nothing at subscription unless they are complete at once (`take(0)`) -/
def StartOK {α β} (P : PlainOp α β) : Prop := P.start.2 = false → P.start.1 = []

theorem comp_start {α β γ} (P1 : PlainOp α β) (P2 : PlainOp β γ) :
    (compPlain P1 P2).start =
      (if P2.start.2 then (P2.start.1, true)
       else if (feedP P2 P2.init P1.start.1).2.2 then (P2.start.1 ++ (feedP P2 P2.init P1.start.1).2.1, true)
       else if P1.start.2 then
         (P2.start.1 ++ (feedP P2 P2.init P1.start.1).2.1 ++ P2.fin (feedP P2 P2.init P1.start.1).1, true)
       else (P2.start.1 ++ (feedP P2 P2.init P1.start.1).2.1, false)) := by
  simp only [compPlain]
  split
  · rfl
  · split
    · rfl
    · split <;> rfl

theorem comp_init {α β γ} (P1 : PlainOp α β) (P2 : PlainOp β γ) (h1 : P1.start = ([], false)) (h2 : P2.start.2 = false) :
    (compPlain P1 P2).init = (P1.init, P2.init) := by
  simp only [compPlain, h1, h2, feedP]
  rfl

theorem tot_comp {α β γ} (P1 : PlainOp α β) (P2 : PlainOp β γ) (h1 : StartOK P1) (h2 : StartOK P2)
    (xs : List α) (t : Term) :
    OEq ((compPlain P1 P2).tot xs t) (P2.tot (itemsT (P1.tot xs t)) (termOf (P1.tot xs t))) := by
  cases hd2 : P2.start.2 with
  | true =>
    have hs : (compPlain P1 P2).start = (P2.start.1, true) := by rw [comp_start]; simp [hd2]
    have hs2 : stopsP P2.start = true := by simp [stopsP_eq, hd2]
    simp only [PlainOp.tot, hs, hs2, stopsP_eq, Bool.true_or, if_true]
    exact OEq.refl _
  | false =>
    have he2 : P2.start.1 = [] := h2 hd2
    have hs2 : stopsP P2.start = false := by simp [stopsP_eq, hd2, he2]
    cases hd1 : P1.start.2 with
    | true =>
      have hs1 : stopsP P1.start = true := by simp [stopsP_eq, hd1]
      have hp1 : P1.tot xs t = P1.start.1 := by simp [PlainOp.tot, hs1]
      have hsem := feedP_sem P2 P2.fin P1.start.1 P2.init
      have hk : (if hasFatal P1.start.1 then (fun _ => [LOut.fatal "upstream"]) else P2.fin) = P2.endK (termOf P1.start.1) :=
        endK_fatal P2 P1.start.1
      rw [hk] at hsem
      have hR : P2.tot (itemsT (P1.tot xs t)) (termOf (P1.tot xs t)) =
          P2.goK (P2.endK (termOf P1.start.1)) P2.init (itemsT P1.start.1) := by
        rw [hp1]
        simp [PlainOp.tot, hs2, he2, PlainOp.go]
      rw [hR]
      refine OEq.trans ?_ hsem
      by_cases hr : (feedP P2 P2.init P1.start.1).2.2 = true
      · have hs : (compPlain P1 P2).start = ((feedP P2 P2.init P1.start.1).2.1, true) := by
          rw [comp_start]; simp [hd2, hr, he2]
        simp only [PlainOp.tot, hs, stopsP_eq, Bool.true_or, if_true]
        rw [if_pos hr]
        exact OEq.refl _
      · have hs : (compPlain P1 P2).start =
            ((feedP P2 P2.init P1.start.1).2.1 ++ P2.fin (feedP P2 P2.init P1.start.1).1, true) := by
          rw [comp_start]; simp [hd2, hr, he2, hd1]
        simp only [PlainOp.tot, hs, stopsP_eq, Bool.true_or, if_true]
        rw [if_neg hr]
        exact OEq.refl _
    | false =>
      have he1 : P1.start.1 = [] := h1 hd1
      have hst1 : P1.start = ([], false) := Prod.ext he1 hd1
      have hs1 : stopsP P1.start = false := by simp [stopsP_eq, hd1, he1]
      have hs : (compPlain P1 P2).start = ([], false) := by
        rw [comp_start]; simp [hd2, he2, hd1, he1, feedP]
      have hi := comp_init P1 P2 hst1 hd2
      have hgo : (compPlain P1 P2).go (compPlain P1 P2).init xs t = (compPlain P1 P2).go (P1.init, P2.init) xs t :=
        congrArg (fun s => (compPlain P1 P2).go s xs t) hi
      have hL : (compPlain P1 P2).tot xs t = (compPlain P1 P2).go (P1.init, P2.init) xs t := by
        simp only [PlainOp.tot, hs, stopsP_eq, hasFatal_nil, Bool.or_false, Bool.false_eq_true, if_false, List.nil_append]
        exact hgo
      have hp1 : P1.tot xs t = P1.go P1.init xs t := by simp [PlainOp.tot, hs1, he1]
      have hR : P2.tot (itemsT (P1.tot xs t)) (termOf (P1.tot xs t)) =
          P2.go P2.init (itemsT (P1.go P1.init xs t)) (termOf (P1.go P1.init xs t)) := by
        rw [hp1]
        simp [PlainOp.tot, hs2, he2]
      rw [hL, hR]
      exact go_comp P1 P2 t xs P1.init P2.init

theorem startOK_comp {α β γ} (P1 : PlainOp α β) (P2 : PlainOp β γ) (h1 : StartOK P1) (h2 : StartOK P2) :
    StartOK (compPlain P1 P2) := by
  intro h
  rw [comp_start] at h ⊢
  by_cases hd2 : P2.start.2 = true
  · simp [hd2] at h
  · have hd2' : P2.start.2 = false := by simpa using hd2
    by_cases hr : (feedP P2 P2.init P1.start.1).2.2 = true
    · simp [hd2', hr] at h
    · by_cases hd1 : P1.start.2 = true
      · simp [hd2', hr, hd1] at h
      · have hd1' : P1.start.2 = false := by simpa using hd1
        simp [hd2', hr, hd1', h2 hd2', h1 hd1', feedP]

/-! ## agreement, compositionally -/

/-- outcome agreement: same items when the plain run does not raise; a prefix when it does -/
def AgreesOut {β} (po lo : List (LOut β)) : Prop :=
  itemsT po <+: items lo ∧ (hasFatal po = false → items po = items lo)

def AgreeT {α β} (P : PlainOp α β) (L : LocalOp α β) : Prop :=
  ∀ (xs : List α) (os : List (LOut α)) (t : Term),
    (t = .complete → xs = items os) → (t = .die → xs <+: items os) →
    AgreesOut (P.tot xs t) (L.fed L.init os)

theorem AgreesOut.of_OEq {β} {po po' lo : List (LOut β)} (h : OEq po po') (a : AgreesOut po' lo) : AgreesOut po lo := by
  refine ⟨by rw [h.1]; exact a.1, ?_⟩
  intro hf
  have hf' : hasFatal po' = false := by rw [← h.2]; exact hf
  rw [← itemsT_nofatal po hf, h.1, itemsT_nofatal po' hf']
  exact a.2 hf'

/-- **composition law**: if each stage agrees with its keyed twin, so does the pipeline -/
theorem agreeT_comp {α β γ} (P1 : PlainOp α β) (P2 : PlainOp β γ) (L1 : LocalOp α β) (L2 : LocalOp β γ)
    (s1 : StartOK P1) (s2 : StartOK P2) (a1 : AgreeT P1 L1) (a2 : AgreeT P2 L2) :
    AgreeT (compPlain P1 P2) (compLocal L1 L2) := by
  intro xs os t hc hd
  have hfed : (compLocal L1 L2).fed (compLocal L1 L2).init os = L2.fed L2.init (L1.fed L1.init os) :=
    fed_comp L1 L2 os L1.init L2.init
  rw [hfed]
  refine AgreesOut.of_OEq (tot_comp P1 P2 s1 s2 xs t) ?_
  have h1 := a1 xs os t hc hd
  apply a2
  · intro ht
    have hf : hasFatal (P1.tot xs t) = false := by
      unfold termOf at ht
      cases hh : hasFatal (P1.tot xs t) with
      | true => simp [hh] at ht
      | false => rfl
    rw [itemsT_nofatal _ hf]
    exact h1.2 hf
  · intro _
    exact h1.1

/-! ## single operators: a step simulation gives agreement -/

/-- step simulation between a plain operator and its keyed twin.  `R` relates the states while
both run; when the plain operator completes early the keyed one must be silent from then on. -/
structure PrimSim {α β} (P : PlainOp α β) (L : LocalOp α β) where
  R : P.σ → L.σ → Prop
  start : (P.start = ([], false) ∧ R P.init L.init) ∨ (P.start = ([], true) ∧ Silent L L.init)
  step : ∀ sp sl x, R sp sl →
    (hasFatal (P.next sp x).2.1 = true → itemsT (P.next sp x).2.1 <+: items (L.next sl x).2) ∧
    (hasFatal (P.next sp x).2.1 = false → items (P.next sp x).2.1 = items (L.next sl x).2 ∧
      (if (P.next sp x).2.2 then Silent L (L.next sl x).1 else R (P.next sp x).1 (L.next sl x).1))
  err : ∀ sp sl e, R sp sl → items (L.onErr sl e).2 = [] ∧ R sp (L.onErr sl e).1
  fin : ∀ sp sl, R sp sl →
    itemsT (P.fin sp) <+: items (L.fin sl) ∧ (hasFatal (P.fin sp) = false → items (P.fin sp) = items (L.fin sl))

theorem agreesOut_append {β} (a a' b b' : List (LOut β)) (hf : hasFatal a = false) (hi : items a = items a')
    (h : AgreesOut b b') : AgreesOut (a ++ b) (a' ++ b') := by
  refine ⟨?_, ?_⟩
  · rw [itemsT_append_nofatal a b hf, items_append, hi]
    exact (List.prefix_append_right_inj _).2 h.1
  · intro hfab
    have hfb : hasFatal b = false := by
      rw [hasFatal_append, hf] at hfab
      simpa using hfab
    rw [items_append, items_append, hi, h.2 hfb]

theorem agreesOut_dead {β} (a a' b' : List (LOut β)) (hf : hasFatal a = true) (hp : itemsT a <+: items a') :
    AgreesOut a (a' ++ b') := by
  refine ⟨?_, ?_⟩
  · rw [items_append]; exact hp.trans (List.prefix_append _ _)
  · intro h; rw [hf] at h; cases h

theorem sim_run {α β} (P : PlainOp α β) (L : LocalOp α β) (S : PrimSim P L) :
    ∀ (os : List (LOut α)) (xs : List α) (t : Term) (sp : P.σ) (sl : L.σ), S.R sp sl →
      (t = .complete → xs = items os) → (t = .die → xs <+: items os) →
      AgreesOut (P.go sp xs t) (L.fed sl os) := by
  intro os
  induction os with
  | nil =>
    intro xs t sp sl hR hc hd
    have hx : xs = [] := by
      cases t with
      | complete => simpa using hc rfl
      | die => simpa using hd rfl
    subst hx
    rw [fed_nil]
    cases t with
    | complete =>
      show AgreesOut (P.fin sp) (L.fin sl)
      exact S.fin sp sl hR
    | die =>
      show AgreesOut [.fatal "upstream"] (L.fin sl)
      exact ⟨by simp, by simp⟩
  | cons o os ih =>
    intro xs t sp sl hR hc hd
    cases o with
    | err e =>
      rw [fed_err]
      have he := S.err sp sl e hR
      have := ih xs t sp _ he.2 (by intro h; simpa using hc h) (by intro h; simpa using hd h)
      have h0 := agreesOut_append [] (L.onErr sl e).2 _ _ rfl (by simp [he.1]) this
      simpa using h0
    | fatal e =>
      rw [fed_fatal]
      have := ih xs t sp sl hR (by intro h; simpa using hc h) (by intro h; simpa using hd h)
      have h0 := agreesOut_append [] [.fatal e] _ _ rfl (by simp) this
      simpa using h0
    | item b =>
      rw [fed_item]
      cases xs with
      | nil =>
        -- only possible when the plain input dies here
        cases t with
        | complete => have := hc rfl; simp at this
        | die =>
          show AgreesOut [.fatal "upstream"] _
          exact ⟨by simp, by simp⟩
      | cons x xs' =>
        have hxb : x = b ∧ ((t = .complete → xs' = items os) ∧ (t = .die → xs' <+: items os)) := by
          cases t with
          | complete =>
            have := hc rfl
            simp only [items_item, List.cons.injEq] at this
            exact ⟨this.1, fun _ => this.2, fun h => Term.noConfusion h⟩
          | die =>
            have := hd rfl
            simp only [items_item, List.cons_prefix_cons] at this
            exact ⟨this.1, fun h => Term.noConfusion h, fun _ => this.2⟩
        obtain ⟨rfl, hc', hd'⟩ := hxb
        have hst := S.step sp sl x hR
        show AgreesOut (if stopsP (P.next sp x).2 then (P.next sp x).2.1
              else (P.next sp x).2.1 ++ P.go (P.next sp x).1 xs' t) _
        cases hf : hasFatal (P.next sp x).2.1 with
        | true =>
          have hs : stopsP (P.next sp x).2 = true := by simp [stopsP_eq, hf]
          rw [if_pos hs]
          exact agreesOut_dead _ _ _ hf (hst.1 hf)
        | false =>
          obtain ⟨hi, hnext⟩ := hst.2 hf
          cases hdn : (P.next sp x).2.2 with
          | true =>
            have hs : stopsP (P.next sp x).2 = true := by simp [stopsP_eq, hdn]
            rw [if_pos hs]
            rw [hdn] at hnext
            simp only [if_true] at hnext
            have hsil := hnext os
            refine ⟨?_, ?_⟩
            · rw [itemsT_nofatal _ hf, items_append, hsil, List.append_nil, hi]
              exact List.prefix_refl _
            · intro _; rw [items_append, hsil, List.append_nil, hi]
          | false =>
            have hs : stopsP (P.next sp x).2 = false := by simp [stopsP_eq, hdn, hf]
            rw [if_neg (by simp [hs])]
            rw [hdn] at hnext
            simp only [Bool.false_eq_true, if_false] at hnext
            exact agreesOut_append _ _ _ _ hf hi (ih xs' t _ _ hnext hc' hd')

theorem primSim_agreeT {α β} (P : PlainOp α β) (L : LocalOp α β) (S : PrimSim P L) : AgreeT P L := by
  intro xs os t hc hd
  rcases S.start with ⟨hs, hR⟩ | ⟨hs, hsil⟩
  · have : P.tot xs t = P.go P.init xs t := by simp [PlainOp.tot, hs, stopsP_eq]
    rw [this]
    exact sim_run P L S os xs t _ _ hR hc hd
  · have : P.tot xs t = [] := by simp [PlainOp.tot, hs, stopsP_eq]
    rw [this]
    exact ⟨by simp, fun _ => by simp [hsil os]⟩

theorem primSim_startOK {α β} (P : PlainOp α β) (L : LocalOp α β) (S : PrimSim P L) : StartOK P := by
  intro _
  rcases S.start with ⟨hs, _⟩ | ⟨hs, _⟩ <;> simp [hs]

/-- from the compositional form back to the statement of the property: when the plain run of the
pipeline does not raise, the keyed run delivers the same items in the same order -/
theorem truncFatal_nofatal {β} (l : List (LOut β)) (h : hasFatal l = false) : truncFatal l = l := by
  induction l with
  | nil => rfl
  | cons o l ih =>
    cases o with
    | item b => simp only [truncFatal]; rw [ih (by simpa using h)]
    | err e => simp only [truncFatal]; rw [ih (by simpa using h)]
    | fatal e => simp at h

theorem agreeT_out {α β} (P : PlainOp α β) (L : LocalOp α β) (a : AgreeT P L) (xs : List α)
    (h : hasFatal (P.out xs) = false) : items (P.out xs) = items (L.outL xs) := by
  have := a xs (xs.map .item) .complete (by intro _; simp) (by intro h; exact Term.noConfusion h)
  rw [out_eq_tot] at h ⊢
  rw [hasFatal_truncFatal] at h
  rw [outL_eq_fed, truncFatal_nofatal _ h]
  exact this.2 h

end Rx

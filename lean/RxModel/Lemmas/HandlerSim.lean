import RxModel.PyHandler
import RxModel.PyVal
/-!
# Helper lemmas for the handler link theorems (Props/Link*.lean): stores as functions, the `hm_simp` unfolding set
(no generated definition is mentioned here, so every link module may import this file)
-/
namespace Rx
open HM

/-- the model's per-index state of an operator as the slot array of its (single) store state -/
def repSt {σ} (enc : σ → Option Val) (st : Nat → Option σ) : Nat → Nat → Slot Val :=
  fun sid i => if sid = 0 then (st i).map enc else none

theorem repSt_upd {σ} (enc : σ → Option Val) (st : Nat → Option σ) (i : Nat) (v : Option σ) :
    repSt enc (upd st i v) = updSlot (repSt enc st) 0 i (v.map enc) := by
  funext sid j
  by_cases h1 : sid = 0 <;> by_cases h2 : j = i <;> simp [repSt, updSlot, upd, h1, h2]

theorem repSt_self {σ} (enc : σ → Option Val) (st : Nat → Option σ) (i : Nat) :
    updSlot (repSt enc st) 0 i ((st i).map enc) = repSt enc st := by
  funext sid j
  by_cases h1 : sid = 0 <;> by_cases h2 : j = i <;> simp [repSt, updSlot, h1, h2]

theorem updSlot_same (f : Nat → Nat → Slot Val) (sid i : Nat) (v : Slot Val) : updSlot f sid i v sid i = v := by
  simp [updSlot]

theorem updSlot_updSlot (f : Nat → Nat → Slot Val) (sid i : Nat) (a b : Slot Val) :
    updSlot (updSlot f sid i a) sid i b = updSlot f sid i b := by
  funext s j
  by_cases h : s = sid ∧ j = i <;> simp [updSlot, h]

theorem repSt_same {σ} (enc : σ → Option Val) (st : Nat → Option σ) (i : Nat) (v : Option σ) (h : st i = v) :
    updSlot (repSt enc st) 0 i (v.map enc) = repSt enc st := by
  subst h; exact repSt_self enc st i

macro "hm_simp" "[" ts:Lean.Parser.Tactic.simpLemma,* "]" : tactic =>
  `(tactic| simp [runH, addKey, delKey, setState, getState, emit, unmark,
      ExceptT.run, StateT.run, bind, ExceptT.bind, ExceptT.mk, ExceptT.bindCont, StateT.bind, modify, modifyGet, MonadStateOf.modifyGet,
      StateT.modifyGet, pure, ExceptT.pure, StateT.pure, MonadState.modifyGet, liftM, monadLift, MonadLift.monadLift, ExceptT.lift,
      Functor.map, StateT.map, get, getThe, MonadStateOf.get, StateT.get, throw, throwThe, MonadExceptOf.throw,
      tryCatch, tryCatchThe, MonadExceptOf.tryCatch, ExceptT.tryCatch, $ts,*])

/-- run an `HM` computation from a state -/
def runS {α} (m : HM Val α) (s : HSt Val) : Except Err α × HSt Val := (ExceptT.run m).run s

theorem runS_bind {α β} (m : HM Val α) (f : α → HM Val β) (s : HSt Val) :
    runS (m >>= f) s = match runS m s with
      | (.ok a, s') => runS (f a) s'
      | (.error e, s') => (.error e, s') := by
  simp only [runS, ExceptT.run, bind, ExceptT.bind, ExceptT.mk, StateT.bind, StateT.run, ExceptT.bindCont]
  cases h : m s with
  | mk a s' => cases a <;> simp [pure, StateT.pure]

theorem runS_pure {α} (a : α) (s : HSt Val) : runS (pure a : HM Val α) s = (.ok a, s) := rfl

/-- a loop that only emits: `for x in l: observer.on_next(mk x)` -/
theorem emit_loop (mk : Val → Ev Val) (l : List Val) (s : HSt Val) :
    runS (forIn l PUnit.unit (fun x (_ : PUnit) => do emit (mk x); pure (ForInStep.yield PUnit.unit))) s
      = (.ok PUnit.unit, { s with out := s.out ++ l.map mk }) := by
  induction l generalizing s with
  | nil => simp [runS_pure]
  | cons x l ih =>
    have hemit : ∀ e, runS (emit e) s = (.ok (), { s with out := s.out ++ [e] }) := fun e => rfl
    simp only [List.forIn_cons, runS_bind, hemit, runS_pure, ih, List.map_cons, List.append_assoc, List.singleton_append]

theorem runS_getState (sid : Nat) (k : Key) (s : HSt Val) (m : Option Val) (h : s.stores sid k.idx = some m) :
    runS (getState sid k) s = (.ok m, s) := by
  simp only [runS, getState, ExceptT.run, bind, ExceptT.bind, ExceptT.mk, StateT.bind, StateT.run, ExceptT.bindCont, get, getThe,
    MonadStateOf.get, liftM, monadLift, MonadLift.monadLift, ExceptT.lift, StateT.get, Functor.map, StateT.map, pure, StateT.pure,
    h, ExceptT.pure]

theorem runS_setState (sid : Nat) (k : Key) (v : Val) (s : HSt Val) :
    runS (setState sid k v) s = (.ok (), { s with stores := updSlot s.stores sid k.idx (some (some v)) }) := rfl
theorem runS_addKey (sid : Nat) (k : Key) (d : Option Val) (s : HSt Val) :
    runS (addKey sid k d) s = (.ok (), { s with stores := updSlot s.stores sid k.idx (some d) }) := rfl
theorem runS_delKey (sid : Nat) (k : Key) (s : HSt Val) :
    runS (delKey sid k) s = (.ok (), { s with stores := updSlot s.stores sid k.idx none }) := rfl
theorem runS_emit (e : Ev Val) (s : HSt Val) : runS (emit e) s = (.ok (), { s with out := s.out ++ [e] }) := rfl
theorem runS_unmark (v : Val) (s : HSt Val) : runS (unmark (some v)) s = (.ok v, s) := rfl
theorem runS_ite {α} (c : Prop) [Decidable c] (a b : HM Val α) (s : HSt Val) :
    runS (if c then a else b) s = if c then runS a s else runS b s := by split <;> rfl

theorem runH_eq (m : HM Val Unit) (stores : Nat → Nat → Slot Val) :
    runH m stores = ((runS m { stores := stores, out := [] }).1, (runS m { stores := stores, out := [] }).2.stores,
      (runS m { stores := stores, out := [] }).2.out) := rfl

/-- `for _ in range(size): observer.on_next(mk v)` -/
theorem emit_const_loop (mk : Val → Ev Val) (a : Val) (l : List Nat) (s : HSt Val) :
    runS (forIn l PUnit.unit (fun (_ : Nat) (_ : PUnit) => do
        let t ← unmark (some a); emit (mk t); pure (ForInStep.yield PUnit.unit))) s
      = (.ok PUnit.unit, { s with out := s.out ++ List.replicate l.length (mk a) }) := by
  induction l generalizing s with
  | nil => simp [runS_pure]
  | cons x l ih =>
    simp only [List.forIn_cons, runS_bind, runS_unmark, runS_emit, runS_pure, ih, List.length_cons, List.replicate_succ,
      List.append_assoc, List.singleton_append]

end Rx

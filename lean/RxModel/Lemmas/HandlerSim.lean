import RxModel.PyHandler
import RxModel.PyVal
/-!
# Helper lemmas for the handler link theorems (Props/Link*.lean): stores as functions, the `hm_simp` unfolding set
(no generated definition is mentioned here, so every link module may import this file)
-/
namespace Rx
open HM

/-- the model's per-index state of an operator as the slot array of its (single) store state -/
def repSt {σ} (enc : σ → Option Val) (st : Nat → Option σ) : Nat → Nat → Slot Val :=
  fun sid i => if sid = 0 then (st i).map enc else none

theorem repSt_upd {σ} (enc : σ → Option Val) (st : Nat → Option σ) (i : Nat) (v : Option σ) :
    repSt enc (upd st i v) = updSlot (repSt enc st) 0 i (v.map enc) := by
  funext sid j
  by_cases h1 : sid = 0 <;> by_cases h2 : j = i <;> simp [repSt, updSlot, upd, h1, h2]

theorem repSt_self {σ} (enc : σ → Option Val) (st : Nat → Option σ) (i : Nat) :
    updSlot (repSt enc st) 0 i ((st i).map enc) = repSt enc st := by
  funext sid j
  by_cases h1 : sid = 0 <;> by_cases h2 : j = i <;> simp [repSt, updSlot, h1, h2]

theorem updSlot_same (f : Nat → Nat → Slot Val) (sid i : Nat) (v : Slot Val) : updSlot f sid i v sid i = v := by
  simp [updSlot]

theorem updSlot_updSlot (f : Nat → Nat → Slot Val) (sid i : Nat) (a b : Slot Val) :
    updSlot (updSlot f sid i a) sid i b = updSlot f sid i b := by
  funext s j
  by_cases h : s = sid ∧ j = i <;> simp [updSlot, h]

theorem repSt_same {σ} (enc : σ → Option Val) (st : Nat → Option σ) (i : Nat) (v : Option σ) (h : st i = v) :
    updSlot (repSt enc st) 0 i (v.map enc) = repSt enc st := by
  subst h; exact repSt_self enc st i

macro "hm_simp" "[" ts:Lean.Parser.Tactic.simpLemma,* "]" : tactic =>
  `(tactic| simp [runH, addKey, delKey, setState, getState, emit, unmark,
      ExceptT.run, StateT.run, bind, ExceptT.bind, ExceptT.mk, ExceptT.bindCont, StateT.bind, modify, modifyGet, MonadStateOf.modifyGet,
      StateT.modifyGet, pure, ExceptT.pure, StateT.pure, MonadState.modifyGet, liftM, monadLift, MonadLift.monadLift, ExceptT.lift,
      Functor.map, StateT.map, get, getThe, MonadStateOf.get, StateT.get, throw, throwThe, MonadExceptOf.throw,
      tryCatch, tryCatchThe, MonadExceptOf.tryCatch, ExceptT.tryCatch, $ts,*])

end Rx

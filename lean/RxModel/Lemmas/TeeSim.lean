import RxModel.Lemmas.Wrap
/-!
# The inductive step of `impl_eq_ref` for `tee_map` around ARBITRARY branch operators

`teeMux mode … B` (L1: every branch a mux operator, join state addressed by `key[0]*n + i`) equals
the keyed reference lift of `localTee mode … LB` on every well-formed trace without `on_error`
events, provided every branch `Q_i` equals the keyed reference lift of `L_i` (induction hypothesis)
and there is at least one branch.
-/
set_option linter.unusedSimpArgs false
set_option linter.unusedVariables false
namespace Rx

def refBranches {α β} : LBranches α β → Branches α β
  | .nil => .nil
  | .cons L r => .cons (refLift L) (refBranches r)

theorem refBranches_length {α β} : ∀ (lb : LBranches α β), (refBranches lb).length = lb.length
  | .nil => rfl
  | .cons _ r => by simp [refBranches, Branches.length, LBranches.length, refBranches_length r]

def BImpl {α β} (c : Bool) : Branches α β → LBranches α β → Prop
  | .nil, .nil => True
  | .cons Q r, .cons L lr => Impl c Q L ∧ BImpl c r lr
  | .nil, .cons _ _ => False
  | .cons _ _, .nil => False

theorem bimpl_length {α β} (c : Bool) : ∀ (b : Branches α β) (lb : LBranches α β), BImpl c b lb → b.length = lb.length
  | .nil, .nil, _ => rfl
  | .cons _ r, .cons _ lr, h => by simp [Branches.length, LBranches.length, bimpl_length c r lr h.2]
  | .nil, .cons _ _, h => h.elim
  | .cons _ _, .nil, h => h.elim

/-! ### decomposition: the tee is a function of the branches' chunk streams -/

def Branches.stepAll {α β} : (b : Branches α β) → b.St → Ev α → b.St × List (List (Ev β))
  | .nil, s, _ => (s, [])
  | .cons Q r, s, e =>
    let o := Q.step s.1 e
    let rr := Branches.stepAll r s.2 e
    ((o.1, rr.1), o.2 :: rr.2)

def Branches.rows {α β} (b : Branches α β) : b.St → List (Ev α) → List (List (List (Ev β)))
  | _, [] => []
  | s, e :: t => (b.stepAll s e).2 :: Branches.rows b (b.stepAll s e).1 t

def teeJoinChunk {β γ} (mode : Join) (n : Nat) (mk : List (Option β) → γ) (inj : β → γ) (ra : Bool) :
    Nat → JoinSt β → List (List (Ev β)) → JoinSt β × List (Ev γ)
  | _, j, [] => (j, [])
  | i, j, c :: cs =>
    let a := feedJoin mode n mk inj ra i j c
    let r := teeJoinChunk mode n mk inj ra (i + 1) a.1 cs
    (r.1, a.2 ++ r.2)

def teeJoinRun {β γ} (mode : Join) (n : Nat) (mk : List (Option β) → γ) (inj : β → γ) (ra : Bool) :
    JoinSt β → List (List (List (Ev β))) → List (List (Ev γ))
  | _, [] => []
  | j, row :: rows => (teeJoinChunk mode n mk inj ra 0 j row).2 :: teeJoinRun mode n mk inj ra (teeJoinChunk mode n mk inj ra 0 j row).1 rows

theorem step_eq_all {α β γ} (mode : Join) (n : Nat) (mk : List (Option β) → γ) (inj : β → γ) (ra : Bool) :
    ∀ (b : Branches α β) (i : Nat) (s : b.St) (j : JoinSt β) (e : Ev α),
      Branches.step mode n mk inj ra b i s j e =
        ((b.stepAll s e).1, (teeJoinChunk mode n mk inj ra i j (b.stepAll s e).2).1,
          (teeJoinChunk mode n mk inj ra i j (b.stepAll s e).2).2)
  | .nil, _, _, _, _ => rfl
  | .cons Q r, i, s, j, e => by
    simp only [Branches.step, Branches.stepAll, teeJoinChunk]
    rw [step_eq_all mode n mk inj ra r (i + 1) s.2 _ e]

theorem tee_decompose {α β γ} (mode : Join) (mk : List (Option β) → γ) (inj : β → γ) (ra : Bool) (b : Branches α β) :
    ∀ (t : List (Ev α)) (s : b.St) (j : JoinSt β),
      runSteps (teeMux mode mk inj ra b).step (s, j) t = teeJoinRun mode b.length mk inj ra j (b.rows s t) := by
  intro t
  induction t with
  | nil => intros; rfl
  | cons e t ih =>
    intro s j
    simp only [runSteps, teeMux, Branches.rows, teeJoinRun]
    rw [step_eq_all]
    simp only
    rw [← ih]; rfl

theorem rows_cons {α β} (Q : MuxOp α β) (r : Branches α β) :
    ∀ (t : List (Ev α)) (s : Q.S) (sr : r.St),
      Branches.rows (.cons Q r) (s, sr) t = List.zipWith List.cons (runSteps Q.step s t) (r.rows sr t) := by
  intro t
  induction t with
  | nil => intros; rfl
  | cons e t ih =>
    intro s sr
    simp only [Branches.rows, Branches.stepAll, runSteps, List.zipWith_cons_cons]
    rw [ih]

theorem rows_congr {α β} (c : Bool) (t : List (Ev α)) (ht : WF t) (hc : c = true → CleanTr t) :
    ∀ (b : Branches α β) (lb : LBranches α β), BImpl c b lb →
      b.rows b.init t = (refBranches lb).rows (refBranches lb).init t
  | .nil, .nil, _ => rfl
  | .cons Q r, .cons L lr, h => by
    have e1 : runSteps Q.step Q.init t = runSteps (refStep L) (fun _ => none) t := h.1 t ht hc
    have e2 := rows_congr c t ht hc r lr h.2
    show Branches.rows (.cons Q r) (Q.init, r.init) t = Branches.rows (.cons (refLift L) (refBranches lr)) ((refLift L).init, (refBranches lr).init) t
    rw [rows_cons, rows_cons, e1, e2]; rfl
  | .nil, .cons _ _, h => h.elim
  | .cons _ _, .nil, h => h.elim

/-! ### slices of the join arrays -/

def sliceH (h : Nat → Bool) (base n : Nat) : List Bool := (List.range n).map fun i => h (base + i)

theorem sliceQ_length {β} (q : Nat → Option β) (base n : Nat) : (sliceQ q base n).length = n := by simp [sliceQ]
theorem sliceH_length (h : Nat → Bool) (base n : Nat) : (sliceH h base n).length = n := by simp [sliceH]

theorem sliceQ_set {β} (q : Nat → Option β) (base n i : Nat) (v : Option β) (hi : i < n) :
    sliceQ (fun j => if j = base + i then v else q j) base n = (sliceQ q base n).set i v := by
  apply List.ext_getElem
  · simp [sliceQ]
  · intro m h1 h2
    simp only [sliceQ, List.getElem_map, List.getElem_range, List.getElem_set]
    by_cases hm : i = m
    · subst hm; simp
    · have : base + m ≠ base + i := by omega
      have hm' : m ≠ i := fun h => hm h.symm
      simp [hm, hm', this]

theorem sliceH_set (h : Nat → Bool) (base n i : Nat) (v : Bool) (hi : i < n) :
    sliceH (fun j => if j = base + i then v else h j) base n = (sliceH h base n).set i v := by
  apply List.ext_getElem
  · simp [sliceH]
  · intro m h1 h2
    simp only [sliceH, List.getElem_map, List.getElem_range, List.getElem_set]
    by_cases hm : i = m
    · subst hm; simp
    · have : base + m ≠ base + i := by omega
      have hm' : m ≠ i := fun h => hm h.symm
      simp [hm, hm', this]

theorem allHas_eq (h : Nat → Bool) (base : Nat) : ∀ n, allHas h base n = (sliceH h base n).all id := by
  intro n
  induction n with
  | zero => simp [allHas, sliceH]
  | succ n ih =>
    simp only [allHas, ih, sliceH, List.range_succ, List.map_append, List.all_append, List.map_cons, List.map_nil,
      List.all_cons, List.all_nil, Bool.and_true, id]
    rw [Bool.and_comm]

theorem clearQ_eq {β} (q : Nat → Option β) (base : Nat) : ∀ n j,
    clearQ q base n j = if base ≤ j ∧ j < base + n then none else q j := by
  intro n
  induction n with
  | zero => intro j; have : ¬ (base ≤ j ∧ j < base + 0) := by omega
            rw [if_neg this]; rfl
  | succ n ih =>
    intro j
    simp only [clearQ]
    by_cases hj : j = base + n
    · have : base ≤ j ∧ j < base + (n + 1) := by omega
      simp [hj]
    · rw [if_neg hj, ih]
      by_cases h1 : base ≤ j ∧ j < base + n
      · have : base ≤ j ∧ j < base + (n + 1) := by omega
        simp [h1, this]
      · have : ¬ (base ≤ j ∧ j < base + (n + 1)) := by omega
        simp [h1, this]

theorem clearHas_eq (h : Nat → Bool) (base : Nat) : ∀ n j,
    clearHas h base n j = if base ≤ j ∧ j < base + n then false else h j := by
  intro n
  induction n with
  | zero => intro j; have : ¬ (base ≤ j ∧ j < base + 0) := by omega
            rw [if_neg this]; rfl
  | succ n ih =>
    intro j
    simp only [clearHas]
    by_cases hj : j = base + n
    · have : base ≤ j ∧ j < base + (n + 1) := by omega
      simp [hj]
    · rw [if_neg hj, ih]
      by_cases h1 : base ≤ j ∧ j < base + n
      · have : base ≤ j ∧ j < base + (n + 1) := by omega
        simp [h1, this]
      · have : ¬ (base ≤ j ∧ j < base + (n + 1)) := by omega
        simp [h1, this]

theorem sliceQ_clear {β} (q : Nat → Option β) (base n : Nat) :
    sliceQ (clearQ q base n) base n = (sliceQ q base n).map fun _ => none := by
  apply List.ext_getElem
  · simp [sliceQ]
  · intro m h1 h2
    simp only [sliceQ, List.getElem_map, List.getElem_range, clearQ_eq]
    have hm : m < n := by simpa [sliceQ] using h1
    have : base ≤ base + m ∧ base + m < base + n := by omega
    simp [this]

theorem sliceH_clear (h : Nat → Bool) (base n : Nat) :
    sliceH (clearHas h base n) base n = (sliceH h base n).map fun _ => false := by
  apply List.ext_getElem
  · simp [sliceH]
  · intro m h1 h2
    simp only [sliceH, List.getElem_map, List.getElem_range, clearHas_eq]
    have hm : m < n := by simpa [sliceH] using h1
    have : base ≤ base + m ∧ base + m < base + n := by omega
    simp [this]

/-! ### the join, one key -/

/-- the local join state of key `k` is the slice `k[0]*n ..< k[0]*n + n` of the join arrays -/
def JAt {β} (n : Nat) (jst : JoinSt β) (k : Key) (lj : LJoinSt β) : Prop :=
  lj.queue = sliceQ jst.queue (k.idx * n) n ∧ lj.has = sliceH jst.has (k.idx * n) n

/-- slots outside the slice of `k` -/
def Outside (n : Nat) (k : Key) (j : Nat) : Prop := ¬ (k.idx * n ≤ j ∧ j < k.idx * n + n)

def JFrame {β} (n : Nat) (k : Key) (jst jst' : JoinSt β) : Prop :=
  ∀ j, Outside n k j → jst'.queue j = jst.queue j ∧ jst'.has j = jst.has j

def AllClear {β} (jst : JoinSt β) : Prop := ∀ j, jst.queue j = none ∧ jst.has j = false

theorem join_item {β γ} (mode : Join) (n : Nat) (mk : List (Option β) → γ) (inj : β → γ) (ra : Bool)
    (i : Nat) (hi : i < n) (k : Key) (jst : JoinSt β) (lj : LJoinSt β) (h : JAt n jst k lj) (o : LOut β) :
    (joinStep mode n mk inj ra jst i (liftOut k o)).2 = (lJoinNext mode mk inj lj i o).2.map (liftOut k) ∧
    JAt n (joinStep mode n mk inj ra jst i (liftOut k o)).1 k (lJoinNext mode mk inj lj i o).1 ∧
    JFrame n k jst (joinStep mode n mk inj ra jst i (liftOut k o)).1 ∧
    (mode = .merge → (joinStep mode n mk inj ra jst i (liftOut k o)).1 = jst) := by
  obtain ⟨hq, hh⟩ := h
  cases o with
  | err e => exact ⟨rfl, ⟨hq, hh⟩, fun _ _ => ⟨rfl, rfl⟩, fun _ => rfl⟩
  | fatal e => exact ⟨rfl, ⟨hq, hh⟩, fun _ _ => ⟨rfl, rfl⟩, fun _ => rfl⟩
  | item x =>
    cases mode with
    | merge => exact ⟨rfl, ⟨hq, hh⟩, fun _ _ => ⟨rfl, rfl⟩, fun _ => rfl⟩
    | combine =>
      simp only [liftOut, joinStep, lJoinNext]
      refine ⟨?_, ⟨?_, ?_⟩, ?_, fun h => by simp at h⟩
      · rw [sliceQ_set _ _ _ _ _ hi, hq]; rfl
      · rw [sliceQ_set _ _ _ _ _ hi, hq]
      · rw [sliceH_set _ _ _ _ _ hi, hh]
      · intro j hj
        have : j ≠ k.idx * n + i := by unfold Outside at hj; omega
        simp [this]
    | zip =>
      simp only [liftOut, joinStep, lJoinNext]
      rw [allHas_eq, sliceH_set _ _ _ _ _ hi, ← hh]
      by_cases hall : (lj.has.set i true).all id = true
      · simp only [hall, if_true]
        refine ⟨?_, ⟨?_, ?_⟩, ?_, fun h => by simp at h⟩
        · rw [sliceQ_set _ _ _ _ _ hi, hq]; rfl
        · rw [sliceQ_clear, sliceQ_set _ _ _ _ _ hi, hq]
        · rw [sliceH_clear, sliceH_set _ _ _ _ _ hi, hh]
        · intro j hj
          have h1 : j ≠ k.idx * n + i := by unfold Outside at hj; omega
          have h2 : ¬ (k.idx * n ≤ j ∧ j < k.idx * n + n) := hj
          simp [clearQ_eq, clearHas_eq, h1, h2]
      · simp only [hall, Bool.false_eq_true, if_false]
        refine ⟨rfl, ⟨?_, ?_⟩, ?_, fun h => by simp at h⟩
        · rw [sliceQ_set _ _ _ _ _ hi, hq]
        · rw [sliceH_set _ _ _ _ _ hi, hh]
        · intro j hj
          have : j ≠ k.idx * n + i := by unfold Outside at hj; omega
          simp [this]

theorem jframe_trans {β} {n : Nat} {k : Key} {a b c : JoinSt β} (h1 : JFrame n k a b) (h2 : JFrame n k b c) :
    JFrame n k a c := fun j hj => ⟨(h2 j hj).1.trans (h1 j hj).1, (h2 j hj).2.trans (h1 j hj).2⟩

theorem feed_sim {β γ} (mode : Join) (n : Nat) (mk : List (Option β) → γ) (inj : β → γ) (ra : Bool)
    (i : Nat) (hi : i < n) (k : Key) :
    ∀ (outs : List (LOut β)) (jst : JoinSt β) (lj : LJoinSt β), JAt n jst k lj →
      (feedJoin mode n mk inj ra i jst (outs.map (liftOut k))).2 = (feedLJoin mode mk inj i lj outs).2.map (liftOut k) ∧
      JAt n (feedJoin mode n mk inj ra i jst (outs.map (liftOut k))).1 k (feedLJoin mode mk inj i lj outs).1 ∧
      JFrame n k jst (feedJoin mode n mk inj ra i jst (outs.map (liftOut k))).1 ∧
      (mode = .merge → (feedJoin mode n mk inj ra i jst (outs.map (liftOut k))).1 = jst) := by
  intro outs
  induction outs with
  | nil => intro jst lj h; exact ⟨rfl, h, fun _ _ => ⟨rfl, rfl⟩, fun _ => rfl⟩
  | cons o os ih =>
    intro jst lj h
    obtain ⟨a1, a2, a3, a4⟩ := join_item mode n mk inj ra i hi k jst lj h o
    obtain ⟨b1, b2, b3, b4⟩ := ih _ _ a2
    simp only [List.map_cons, feedJoin, feedLJoin, List.map_append]
    refine ⟨by rw [a1, b1], b2, jframe_trans a3 b3, ?_⟩
    intro hm; rw [b4 hm, a4 hm]

/-! ### the branches, one key -/

def BAt {α β} : (r : LBranches α β) → (refBranches r).St → Key → r.St → Prop
  | .nil, _, _, _ => True
  | .cons L r, s, k, ls => s.1 k = some ls.1 ∧ BAt r s.2 k ls.2

def BNone {α β} : (r : LBranches α β) → (refBranches r).St → Key → Prop
  | .nil, _, _ => True
  | .cons L r, s, k => s.1 k = none ∧ BNone r s.2 k

/-- the branch states of every key other than `k` are the same in `s` and `s'` -/
def BSame {α β} : (r : LBranches α β) → (refBranches r).St → (refBranches r).St → Key → Prop
  | .nil, _, _, _ => True
  | .cons L r, s, s', k => (∀ k2, k2 ≠ k → s'.1 k2 = s.1 k2) ∧ BSame r s.2 s'.2 k

theorem bAt_same {α β} : ∀ (r : LBranches α β) (s s' : (refBranches r).St) (k k2 : Key) (ls : r.St),
    BSame r s s' k → k2 ≠ k → BAt r s k2 ls → BAt r s' k2 ls
  | .nil, _, _, _, _, _, _, _, _ => trivial
  | .cons L r, s, s', k, k2, ls, h, hk, hb => ⟨by rw [h.1 k2 hk]; exact hb.1, bAt_same r s.2 s'.2 k k2 ls.2 h.2 hk hb.2⟩

theorem bNone_same {α β} : ∀ (r : LBranches α β) (s s' : (refBranches r).St) (k k2 : Key),
    BSame r s s' k → k2 ≠ k → BNone r s k2 → BNone r s' k2
  | .nil, _, _, _, _, _, _, _ => trivial
  | .cons L r, s, s', k, k2, h, hk, hb => ⟨by rw [h.1 k2 hk]; exact hb.1, bNone_same r s.2 s'.2 k k2 h.2 hk hb.2⟩

/-- an item or a mux error of key `k` through all branches -/
theorem branches_item {α β γ} (mode : Join) (n : Nat) (mk : List (Option β) → γ) (inj : β → γ) (k : Key)
    (x : LIn α) (e : Ev α)
    (hx : (∃ v, x = .item v ∧ e = .next k v) ∨ (∃ er, x = .err er ∧ e = .err k er)) :
    ∀ (r : LBranches α β) (i : Nat), i + r.length = n → ∀ (s : (refBranches r).St) (ls : r.St) (jst : JoinSt β) (lj : LJoinSt β),
      BAt r s k ls → JAt n jst k lj →
      let R := Branches.step mode n mk inj true (refBranches r) i s jst e
      let Lr := LBranches.step mode mk inj r i ls lj x
      R.2.2 = Lr.2.2.map (liftOut k) ∧ BAt r R.1 k Lr.1 ∧ JAt n R.2.1 k Lr.2.1 ∧ BSame r s R.1 k ∧
        JFrame n k jst R.2.1 ∧ (mode = .merge → R.2.1 = jst)
  | .nil, i, _, s, ls, jst, lj, _, hj => by
    exact ⟨rfl, trivial, hj, trivial, fun _ _ => ⟨rfl, rfl⟩, fun _ => rfl⟩
  | .cons L r, i, hlen, s, ls, jst, lj, hb, hj => by
    have hi : i < n := by simp [LBranches.length] at hlen; omega
    have hlen' : (i + 1) + r.length = n := by simp [LBranches.length] at hlen; omega
    obtain ⟨hb1, hb2⟩ := hb
    rcases hx with ⟨v, rfl, rfl⟩ | ⟨er, rfl, rfl⟩
    · obtain ⟨f1, f2, f3, f4⟩ := feed_sim mode n mk inj true i hi k (L.next ls.1 v).2 jst lj hj
      have ih := branches_item mode n mk inj k (.item v) (.next k v) (Or.inl ⟨v, rfl, rfl⟩) r (i + 1) hlen' s.2 ls.2 _ _ hb2 f2
      obtain ⟨g1, g2, g3, g4, g5, g6⟩ := ih
      simp only [refBranches, Branches.step, LBranches.step, refLift, refStep, hb1]
      refine ⟨?_, ⟨by simp [upd], g2⟩, g3, ⟨fun k2 hk2 => by simp [upd, hk2], g4⟩, jframe_trans f3 g5, ?_⟩
      · rw [List.map_append, ← f1, ← g1]
      · intro hm; rw [g6 hm]; exact f4 hm
    · obtain ⟨f1, f2, f3, f4⟩ := feed_sim mode n mk inj true i hi k (L.onErr ls.1 er).2 jst lj hj
      have ih := branches_item mode n mk inj k (.err er) (.err k er) (Or.inr ⟨er, rfl, rfl⟩) r (i + 1) hlen' s.2 ls.2 _ _ hb2 f2
      obtain ⟨g1, g2, g3, g4, g5, g6⟩ := ih
      simp only [refBranches, Branches.step, LBranches.step, refLift, refStep, hb1]
      refine ⟨?_, ⟨by simp [upd], g2⟩, g3, ⟨fun k2 hk2 => by simp [upd, hk2], g4⟩, jframe_trans f3 g5, ?_⟩
      · rw [List.map_append, ← f1, ← g1]
      · intro hm; rw [g6 hm]; exact f4 hm

/-- the creation of key `k` through all branches -/
theorem branches_create {α β γ} (mode : Join) (n : Nat) (mk : List (Option β) → γ) (inj : β → γ) (k : Key) :
    ∀ (r : LBranches α β) (i : Nat) (s : (refBranches r).St) (jst : JoinSt β),
      let R := Branches.step (α := α) mode n mk inj true (refBranches r) i s jst (.create k)
      R.2.2 = (if i = 0 ∧ 0 < r.length then [Ev.create k] else []) ∧ BAt r R.1 k r.init ∧ R.2.1 = jst ∧ BSame r s R.1 k
  | .nil, i, s, jst => by
    exact ⟨by simp [refBranches, Branches.step, LBranches.length], trivial, rfl, trivial⟩
  | .cons L r, i, s, jst => by
    obtain ⟨g1, g2, g3, g4⟩ := branches_create mode n mk inj k r (i + 1) s.2 jst
    simp only [refBranches, Branches.step, refLift, refStep, feedJoin, joinStep, List.append_nil]
    refine ⟨?_, ⟨by simp [upd, LBranches.init], g2⟩, g3, ⟨fun k2 hk2 => by simp [upd, hk2], g4⟩⟩
    rw [g1]
    by_cases hi : i = 0 <;> simp [hi, LBranches.length]

/-- the completion of key `k` through all branches -/
theorem branches_done {α β γ} (mode : Join) (n : Nat) (mk : List (Option β) → γ) (inj : β → γ) (k : Key) :
    ∀ (r : LBranches α β) (i : Nat), i + r.length = n → ∀ (s : (refBranches r).St) (ls : r.St) (jst : JoinSt β) (lj : LJoinSt β),
      BAt r s k ls → JAt n jst k lj → (mode = .merge → AllClear jst) →
      let R := Branches.step (α := α) mode n mk inj true (refBranches r) i s jst (.done k)
      let Lr := LBranches.step mode mk inj r i ls lj .fin
      R.2.2 = Lr.2.2.map (liftOut k) ++ (if 0 < r.length then [Ev.done k] else []) ∧ BNone r R.1 k ∧ BSame r s R.1 k ∧
        JFrame n k jst R.2.1 ∧ (mode = .merge → R.2.1 = jst) ∧
        (0 < r.length → ∀ j, k.idx * n ≤ j → j < k.idx * n + n → R.2.1.queue j = none ∧ R.2.1.has j = false)
  | .nil, i, _, s, ls, jst, lj, _, hj, _ => by
    exact ⟨by simp [refBranches, Branches.step, LBranches.step, LBranches.length], trivial, trivial,
      fun _ _ => ⟨rfl, rfl⟩, fun _ => rfl, fun h => by simp [LBranches.length] at h⟩
  | .cons L r, i, hlen, s, ls, jst, lj, hb, hj, hmc => by
    have hi : i < n := by simp [LBranches.length] at hlen; omega
    have hlen' : (i + 1) + r.length = n := by simp [LBranches.length] at hlen; omega
    obtain ⟨hb1, hb2⟩ := hb
    obtain ⟨f1, f2, f3, f4⟩ := feed_sim mode n mk inj true i hi k (L.fin ls.1) jst lj hj
    simp only [refBranches, Branches.step, LBranches.step, refLift, refStep, hb1]
    -- the join sees the completion outputs, then the `OnCompletedMux` of this branch
    have hfeed : ∀ (j0 : JoinSt β) (l : List (Ev β)),
        feedJoin mode n mk inj true i j0 (l ++ [Ev.done k]) =
          ((joinStep mode n mk inj true (feedJoin mode n mk inj true i j0 l).1 i (Ev.done k)).1,
            (feedJoin mode n mk inj true i j0 l).2 ++ (joinStep mode n mk inj true (feedJoin mode n mk inj true i j0 l).1 i (Ev.done k)).2) := by
      intro j0 l
      induction l generalizing j0 with
      | nil => simp [feedJoin]
      | cons e l ih => simp only [List.cons_append, feedJoin]; rw [ih]; simp [List.append_assoc]
    rw [hfeed]
    by_cases hlast : r.length = 0
    · -- last branch: the completion is forwarded and the slots of the key are reset
      have hr : r = .nil := by cases r with | nil => rfl | cons _ _ => simp [LBranches.length] at hlast
      subst hr
      have hin : i = n - 1 := by simp [LBranches.length] at hlen; omega
      simp only [refBranches, Branches.step, LBranches.step, LBranches.length, List.append_nil]
      by_cases hm : mode = .merge
      · subst hm
        simp only [joinStep, if_pos hin, if_true]
        refine ⟨by rw [f1]; simp, ⟨by simp [upd], trivial⟩, ⟨fun k2 hk2 => by simp [upd, hk2], trivial⟩, f3, fun _ => f4 rfl, ?_⟩
        intro _ j _ _
        rw [f4 rfl]; exact hmc rfl j
      · simp only [joinStep, if_pos hin, if_true, hm, if_false]
        refine ⟨by rw [f1]; simp, ⟨by simp [upd], trivial⟩, ⟨fun k2 hk2 => by simp [upd, hk2], trivial⟩, ?_, fun h => by simp at h, ?_⟩
        · intro j hj'
          have h2 : ¬ (k.idx * n ≤ j ∧ j < k.idx * n + n) := hj'
          simp only [clearQ_eq, clearHas_eq, h2, if_false]
          exact f3 j hj'
        · intro _ j h1 h2
          have : k.idx * n ≤ j ∧ j < k.idx * n + n := ⟨h1, h2⟩
          simp [clearQ_eq, clearHas_eq, this]
    · have hpos : 0 < r.length := by omega
      have hin : i ≠ n - 1 := by omega
      simp only [joinStep, if_neg hin, List.append_nil]
      have hmc' : mode = .merge → AllClear (feedJoin mode n mk inj true i jst ((L.fin ls.1).map (liftOut k))).1 := by
        intro hm; rw [f4 hm]; exact hmc hm
      obtain ⟨g1, g2, g3, g4, g5, g6⟩ := branches_done mode n mk inj k r (i + 1) hlen' s.2 ls.2 _ _ hb2 f2 hmc'
      refine ⟨?_, ⟨by simp [upd], g2⟩, ⟨fun k2 hk2 => by simp [upd, hk2], g3⟩, jframe_trans f3 g4, ?_, ?_⟩
      · rw [g1, f1]; simp [LBranches.length, hpos, List.append_assoc]
      · intro hm; rw [g5 hm]; exact f4 hm
      · intro _; exact g6 hpos

/-! ### the whole trace -/

structure TRel {α β} (mode : Join) (lb : LBranches α β) (live : List Key) (bs : (refBranches lb).St) (jst : JoinSt β)
    (ws : Key → Option (lb.St × LJoinSt β)) : Prop where
  live_ : ∀ k ∈ live, ∃ ls lj, ws k = some (ls, lj) ∧ BAt lb bs k ls ∧ JAt lb.length jst k lj
  dead : ∀ k, k ∉ live → ws k = none ∧ BNone lb bs k
  clear : ∀ idx, (∀ k ∈ live, k.idx ≠ idx) → ∀ j, idx * lb.length ≤ j → j < idx * lb.length + lb.length →
    jst.queue j = none ∧ jst.has j = false
  merge : mode = .merge → AllClear jst

theorem outside_of_idx_ne (n : Nat) (k k2 : Key) (h : k2.idx ≠ k.idx) (j : Nat)
    (h1 : k2.idx * n ≤ j) (h2 : j < k2.idx * n + n) : Outside n k j := by
  unfold Outside
  intro ⟨a1, a2⟩
  rcases Nat.lt_or_gt_of_ne h with hlt | hlt
  · have : (k2.idx + 1) * n ≤ k.idx * n := Nat.mul_le_mul_right n hlt
    rw [Nat.add_mul] at this; omega
  · have : (k.idx + 1) * n ≤ k2.idx * n := Nat.mul_le_mul_right n hlt
    rw [Nat.add_mul] at this; omega

theorem jAt_frame {β} (n : Nat) (k k2 : Key) (h : k2.idx ≠ k.idx) (jst jst' : JoinSt β) (lj : LJoinSt β)
    (hf : JFrame n k jst jst') (hj : JAt n jst k2 lj) : JAt n jst' k2 lj := by
  obtain ⟨h1, h2⟩ := hj
  refine ⟨?_, ?_⟩
  · rw [h1]; unfold sliceQ
    apply List.map_congr_left
    intro i hi
    have hi' : i < n := by simpa using hi
    exact ((hf _ (outside_of_idx_ne n k k2 h _ (by omega) (by omega))).1).symm
  · rw [h2]; unfold sliceH
    apply List.map_congr_left
    intro i hi
    have hi' : i < n := by simpa using hi
    exact ((hf _ (outside_of_idx_ne n k k2 h _ (by omega) (by omega))).2).symm

theorem tee_sim {α β γ} (mode : Join) (mk : List (Option β) → γ) (inj : β → γ) (lb : LBranches α β) (hn : 0 < lb.length) :
    ∀ (t : List (Ev α)) (live : List Key) (bs : (refBranches lb).St) (jst : JoinSt β)
      (ws : Key → Option (lb.St × LJoinSt β)),
      wfFrom live t = true → NoFatal t → IdxDistinct live → TRel mode lb live bs jst ws →
      runSteps (fun (s : (refBranches lb).St × JoinSt β) e =>
          let r := Branches.step mode lb.length mk inj true (refBranches lb) 0 s.1 s.2 e
          ((r.1, r.2.1), r.2.2)) (bs, jst) t =
        runSteps (refStep (localTee mode mk inj lb)) ws t := by
  intro t
  induction t with
  | nil => intros; rfl
  | cons e t ih =>
    intro live bs jst ws hwf hnf hd hrel
    obtain ⟨hnf1, hnf2⟩ := noFatal_cons.mp hnf
    simp only [wfFrom] at hwf
    have hlen0 : 0 + lb.length = lb.length := by omega
    cases e with
    | fatal x => simp [Ev.isFatal] at hnf1
    | create k =>
      cases hany : (live.any fun k' => k'.idx == k.idx) with
      | true => simp [wfStep, hany] at hwf
      | false =>
        simp only [wfStep, hany] at hwf
        have hfresh : ∀ k' ∈ live, k'.idx ≠ k.idx := by
          intro k' hk' heq
          have : (live.any fun k' => k'.idx == k.idx) = true := by
            simp only [List.any_eq_true]; exact ⟨k', hk', by simp [heq]⟩
          simp [this] at hany
        have hknot : k ∉ live := fun h => hfresh k h rfl
        obtain ⟨g1, g2, g3, g4⟩ := branches_create mode lb.length mk inj k lb 0 bs jst
        simp only [runSteps, refStep]
        rw [g1]
        simp only [hn, and_self, if_true]
        congr 1
        rw [g3]
        apply ih (k :: live) _ jst _ (by simpa using hwf) hnf2 (idxDistinct_cons hd hany)
        refine ⟨?_, ?_, ?_, hrel.merge⟩
        · intro k0 hk0
          rcases List.mem_cons.mp hk0 with rfl | hk0
          · refine ⟨lb.init, ⟨List.replicate lb.length none, List.replicate lb.length false⟩, by simp [upd, localTee], g2, ?_⟩
            have hc := hrel.clear k0.idx (fun k' hk' => hfresh k' hk')
            refine ⟨?_, ?_⟩
            · apply List.ext_getElem
              · simp [sliceQ]
              · intro m h1 h2
                have hm : m < lb.length := by simpa using h1
                simp only [List.getElem_replicate, sliceQ, List.getElem_map, List.getElem_range]
                exact ((hc _ (by omega) (by omega)).1).symm
            · apply List.ext_getElem
              · simp [sliceH]
              · intro m h1 h2
                have hm : m < lb.length := by simpa using h1
                simp only [List.getElem_replicate, sliceH, List.getElem_map, List.getElem_range]
                exact ((hc _ (by omega) (by omega)).2).symm
          · obtain ⟨ls, lj, f1, f2, f3⟩ := hrel.live_ k0 hk0
            have h0 : k0 ≠ k := fun h => hknot (h ▸ hk0)
            exact ⟨ls, lj, by simp [upd, h0, f1], bAt_same lb bs _ k k0 ls g4 h0 f2, f3⟩
        · intro k0 hk0
          have h0 : k0 ≠ k := fun h => hk0 (by simp [h])
          have hnl : k0 ∉ live := fun h => hk0 (List.mem_cons_of_mem _ h)
          exact ⟨by simp [upd, h0, (hrel.dead k0 hnl).1], bNone_same lb bs _ k k0 g4 h0 (hrel.dead k0 hnl).2⟩
        · intro idx hidx j h1 h2
          exact hrel.clear idx (fun k' hk' => hidx k' (List.mem_cons_of_mem _ hk')) j h1 h2
    | next k x =>
      by_cases hk : k ∈ live
      · simp only [wfStep, hk, if_true] at hwf
        obtain ⟨ls, lj, f1, f2, f3⟩ := hrel.live_ k hk
        obtain ⟨g1, g2, g3, g4, g5, g6⟩ := branches_item mode lb.length mk inj k (.item x) (.next k x)
          (Or.inl ⟨x, rfl, rfl⟩) lb 0 hlen0 bs ls jst lj f2 f3
        simp only [runSteps, refStep, f1, localTee]
        rw [g1]
        congr 1
        apply ih live _ _ _ hwf hnf2 hd
        refine ⟨?_, ?_, ?_, ?_⟩
        · intro k0 hk0
          by_cases h0 : k0 = k
          · subst h0; exact ⟨_, _, by simp [upd], g2, g3⟩
          · obtain ⟨ls0, lj0, e1, e2, e3⟩ := hrel.live_ k0 hk0
            have hidx : k0.idx ≠ k.idx := pairwise_idx_distinct live hd k0 hk0 k hk h0
            exact ⟨ls0, lj0, by simp [upd, h0, e1], bAt_same lb bs _ k k0 ls0 g4 h0 e2,
              jAt_frame _ k k0 hidx _ _ lj0 g5 e3⟩
        · intro k0 hk0
          have h0 : k0 ≠ k := fun h => hk0 (h ▸ hk)
          exact ⟨by simp [upd, h0, (hrel.dead k0 hk0).1], bNone_same lb bs _ k k0 g4 h0 (hrel.dead k0 hk0).2⟩
        · intro idx hidx j h1 h2
          have hne : idx ≠ k.idx := fun h => hidx k hk h.symm
          have hout : Outside lb.length k j := by
            unfold Outside; intro ⟨a1, a2⟩
            rcases Nat.lt_or_gt_of_ne hne with hlt | hlt
            · have : (idx + 1) * lb.length ≤ k.idx * lb.length := Nat.mul_le_mul_right _ hlt
              rw [Nat.add_mul] at this; omega
            · have : (k.idx + 1) * lb.length ≤ idx * lb.length := Nat.mul_le_mul_right _ hlt
              rw [Nat.add_mul] at this; omega
          rw [(g5 j hout).1, (g5 j hout).2]; exact hrel.clear idx hidx j h1 h2
        · intro hm; rw [g6 hm]; exact hrel.merge hm
      · simp [wfStep, hk] at hwf
    | err k x =>
      by_cases hk : k ∈ live
      · simp only [wfStep, hk, if_true] at hwf
        obtain ⟨ls, lj, f1, f2, f3⟩ := hrel.live_ k hk
        obtain ⟨g1, g2, g3, g4, g5, g6⟩ := branches_item mode lb.length mk inj k (.err x) (.err k x)
          (Or.inr ⟨x, rfl, rfl⟩) lb 0 hlen0 bs ls jst lj f2 f3
        simp only [runSteps, refStep, f1, localTee]
        rw [g1]
        congr 1
        apply ih live _ _ _ hwf hnf2 hd
        refine ⟨?_, ?_, ?_, ?_⟩
        · intro k0 hk0
          by_cases h0 : k0 = k
          · subst h0; exact ⟨_, _, by simp [upd], g2, g3⟩
          · obtain ⟨ls0, lj0, e1, e2, e3⟩ := hrel.live_ k0 hk0
            have hidx : k0.idx ≠ k.idx := pairwise_idx_distinct live hd k0 hk0 k hk h0
            exact ⟨ls0, lj0, by simp [upd, h0, e1], bAt_same lb bs _ k k0 ls0 g4 h0 e2,
              jAt_frame _ k k0 hidx _ _ lj0 g5 e3⟩
        · intro k0 hk0
          have h0 : k0 ≠ k := fun h => hk0 (h ▸ hk)
          exact ⟨by simp [upd, h0, (hrel.dead k0 hk0).1], bNone_same lb bs _ k k0 g4 h0 (hrel.dead k0 hk0).2⟩
        · intro idx hidx j h1 h2
          have hne : idx ≠ k.idx := fun h => hidx k hk h.symm
          have hout : Outside lb.length k j := by
            unfold Outside; intro ⟨a1, a2⟩
            rcases Nat.lt_or_gt_of_ne hne with hlt | hlt
            · have : (idx + 1) * lb.length ≤ k.idx * lb.length := Nat.mul_le_mul_right _ hlt
              rw [Nat.add_mul] at this; omega
            · have : (k.idx + 1) * lb.length ≤ idx * lb.length := Nat.mul_le_mul_right _ hlt
              rw [Nat.add_mul] at this; omega
          rw [(g5 j hout).1, (g5 j hout).2]; exact hrel.clear idx hidx j h1 h2
        · intro hm; rw [g6 hm]; exact hrel.merge hm
      · simp [wfStep, hk] at hwf
    | done k =>
      by_cases hk : k ∈ live
      · simp only [wfStep, hk, if_true] at hwf
        obtain ⟨ls, lj, f1, f2, f3⟩ := hrel.live_ k hk
        obtain ⟨g1, g2, g3, g4, g5, g6⟩ := branches_done mode lb.length mk inj k lb 0 hlen0 bs ls jst lj f2 f3 hrel.merge
        have hmem_erase : ∀ k0, k0 ∈ live.erase k ↔ k0 ≠ k ∧ k0 ∈ live := fun k0 => hd.nodup.mem_erase_iff
        simp only [runSteps, refStep, f1, localTee]
        rw [g1]
        simp only [hn, if_true]
        congr 1
        apply ih (live.erase k) _ _ _ (by simpa using hwf) hnf2 (hd.erase k)
        refine ⟨?_, ?_, ?_, ?_⟩
        · intro k0 hk0
          obtain ⟨h0, hk0'⟩ := (hmem_erase k0).mp hk0
          obtain ⟨ls0, lj0, e1, e2, e3⟩ := hrel.live_ k0 hk0'
          have hidx : k0.idx ≠ k.idx := pairwise_idx_distinct live hd k0 hk0' k hk h0
          exact ⟨ls0, lj0, by simp [upd, h0, e1], bAt_same lb bs _ k k0 ls0 g3 h0 e2,
            jAt_frame _ k k0 hidx _ _ lj0 g4 e3⟩
        · intro k0 hk0
          by_cases h0 : k0 = k
          · subst h0; exact ⟨by simp [upd], g2⟩
          · have hnl : k0 ∉ live := fun h => hk0 ((hmem_erase k0).mpr ⟨h0, h⟩)
            exact ⟨by simp [upd, h0, (hrel.dead k0 hnl).1], bNone_same lb bs _ k k0 g3 h0 (hrel.dead k0 hnl).2⟩
        · intro idx hidx j h1 h2
          by_cases hne : idx = k.idx
          · subst hne; exact g6 hn j h1 h2
          · have hout : Outside lb.length k j := by
              unfold Outside; intro ⟨a1, a2⟩
              rcases Nat.lt_or_gt_of_ne hne with hlt | hlt
              · have : (idx + 1) * lb.length ≤ k.idx * lb.length := Nat.mul_le_mul_right _ hlt
                rw [Nat.add_mul] at this; omega
              · have : (k.idx + 1) * lb.length ≤ idx * lb.length := Nat.mul_le_mul_right _ hlt
                rw [Nat.add_mul] at this; omega
            rw [(g4 j hout).1, (g4 j hout).2]
            refine hrel.clear idx ?_ j h1 h2
            intro k' hk' he
            by_cases hkk : k' = k
            · exact hne (by rw [← he, hkk])
            · exact hidx k' ((hmem_erase k').mpr ⟨hkk, hk'⟩) he
        · intro hm; rw [g5 hm]; exact hrel.merge hm
      · simp [wfStep, hk] at hwf

theorem bNone_init {α β} : ∀ (lb : LBranches α β) (k : Key), BNone lb (refBranches lb).init k
  | .nil, _ => trivial
  | .cons L r, k => ⟨rfl, bNone_init r k⟩

theorem teeMux_run_eq {α β γ} (mode : Join) (mk : List (Option β) → γ) (inj : β → γ) (b : Branches α β) (n : Nat)
    (hn : b.length = n) (s : b.St) (j : JoinSt β) (t : List (Ev α)) :
    runSteps (teeMux mode mk inj true b).step (s, j) t =
      runSteps (fun (s : b.St × JoinSt β) e =>
          let r := Branches.step mode n mk inj true b 0 s.1 s.2 e
          ((r.1, r.2.1), r.2.2)) (s, j) t := by
  subst hn; rfl

/-- **the inductive step of `impl_eq_ref` for `tee_map` around arbitrary branches** -/
theorem tee_impl {α β γ} (mode : Join) (mk : List (Option β) → γ) (inj : β → γ) (c : Bool)
    (b : Branches α β) (lb : LBranches α β) (h : BImpl c b lb) (hn : 0 < lb.length) :
    Impl true (teeMux mode mk inj true b) (localTee mode mk inj lb) := by
  intro t ht hcl
  have hclean := hcl rfl
  show runSteps (teeMux mode mk inj true b).step (b.init, ⟨fun _ => none, fun _ => false⟩) t = _
  rw [tee_decompose, rows_congr c t ht (fun _ => hclean) b lb h, bimpl_length c b lb h, ← refBranches_length lb,
    ← tee_decompose]
  have := tee_sim mode mk inj lb hn t [] (refBranches lb).init ⟨fun _ => none, fun _ => false⟩ (fun _ => none)
    ht hclean.2 List.Pairwise.nil
    ⟨fun _ hk => by simp at hk, fun k _ => ⟨rfl, bNone_init lb k⟩, fun _ _ _ _ _ => ⟨rfl, rfl⟩, fun _ _ => ⟨rfl, rfl⟩⟩
  rw [teeMux_run_eq mode mk inj (refBranches lb) lb.length (refBranches_length lb)]
  exact this

end Rx

import RxModel.Lemmas.Comp
/-!
# The inductive step of `impl_eq_ref` for a splitter wrapped around an ARBITRARY inner operator

`wrap sp Q` (L1: splitter with index-addressed state, inner mux operator `Q`, demux) equals the keyed
reference lift of `localWrap ls L` (L2: one parent lifetime, locally numbered inner lifetimes) on
every well-formed trace without `OnErrorMux` events, provided

* `Q` equals the keyed reference lift of `L` on well-formed traces (induction hypothesis), and
* the splitter `sp` simulates its local description `ls` step by step (`SplitSim sp ls`): every
  group of inner events it emits is the translation of the local commands of the parent key under a
  naming of the open inner lifetimes by inner keys whose slot indices are pairwise distinct.

The generic part is proved here once; each splitter only has to provide its `SplitSim`.
-/
namespace Rx

/-! ### traces without mux errors -/

def Ev.isErr {α} : Ev α → Bool
  | .err _ _ => true
  | _ => false

def NoErr {α} (t : List (Ev α)) : Prop := ∀ e ∈ t, e.isErr = false

theorem noErr_nil {α} : NoErr ([] : List (Ev α)) := fun _ h => by simp at h

theorem noErr_cons {α} {e : Ev α} {t : List (Ev α)} : NoErr (e :: t) ↔ e.isErr = false ∧ NoErr t := by
  simp [NoErr]

theorem noErr_append {α} {a b : List (Ev α)} : NoErr (a ++ b) ↔ NoErr a ∧ NoErr b := by
  simp only [NoErr, List.mem_append]
  constructor
  · intro h; exact ⟨fun e he => h e (Or.inl he), fun e he => h e (Or.inr he)⟩
  · rintro ⟨h1, h2⟩ e (he | he)
    · exact h1 e he
    · exact h2 e he

def Ev.isFatal {α} : Ev α → Bool
  | .fatal _ => true
  | _ => false

def NoFatal {α} (t : List (Ev α)) : Prop := ∀ e ∈ t, e.isFatal = false

theorem noFatal_nil {α} : NoFatal ([] : List (Ev α)) := fun _ h => by simp at h

theorem noFatal_cons {α} {e : Ev α} {t : List (Ev α)} : NoFatal (e :: t) ↔ e.isFatal = false ∧ NoFatal t := by
  simp [NoFatal]

theorem noFatal_append {α} {a b : List (Ev α)} : NoFatal (a ++ b) ↔ NoFatal a ∧ NoFatal b := by
  simp only [NoFatal, List.mem_append]
  constructor
  · intro h; exact ⟨fun e he => h e (Or.inl he), fun e he => h e (Or.inr he)⟩
  · rintro ⟨h1, h2⟩ e (he | he)
    · exact h1 e he
    · exact h2 e he

/-- a clean trace carries neither `OnErrorMux` events nor `on_error` -/
def CleanTr {α} (t : List (Ev α)) : Prop := NoErr t ∧ NoFatal t

/-- `Impl c Q L`: `Q` emits, event by event, what the keyed reference lift of `L` emits, on every
well-formed trace (`c = false`) or on every clean well-formed trace (`c = true`) -/
def Impl {α β} (c : Bool) (Q : MuxOp α β) (L : LocalOp α β) : Prop :=
  ∀ t, WF t → (c = true → CleanTr t) → Q.run t = (refLift L).run t

theorem impl_of_implements {α β} {Q : MuxOp α β} {L : LocalOp α β} (h : Implements Q L) (ne : Bool) : Impl ne Q L :=
  fun t ht _ => h t ht

theorem implements_of_impl {α β} {Q : MuxOp α β} {L : LocalOp α β} (h : Impl false Q L) : Implements Q L :=
  fun t ht => h t ht (by simp)

theorem impl_weaken {α β} {Q : MuxOp α β} {L : LocalOp α β} {c : Bool} (h : Impl c Q L) : Impl true Q L := by
  intro t ht hn
  exact h t ht (fun _ => hn rfl)

/-! ### a relational protocol monitor over predicates, and its link to the list monitor -/

/-- `wfR live t live'`: the monitor accepts `t` from the live set `live` and ends with `live'` -/
inductive wfR {α} : (Key → Prop) → List (Ev α) → (Key → Prop) → Prop
  | nil (live) : wfR live [] live
  | create (live k t l') : (∀ k', live k' → k'.idx ≠ k.idx) → wfR (fun k' => k' = k ∨ live k') t l' →
      wfR live (.create k :: t) l'
  | next (live k v t l') : live k → wfR live t l' → wfR live (.next k v :: t) l'
  | done (live k t l') : live k → wfR (fun k' => k' ≠ k ∧ live k') t l' → wfR live (.done k :: t) l'
  | err (live k e t l') : live k → wfR live t l' → wfR live (.err k e :: t) l'
  | fatal (live e t l') : wfR live t l' → wfR live (.fatal e :: t) l'

theorem wfR_append {α} {a b : List (Ev α)} {l1 l2 l3 : Key → Prop} (h1 : wfR l1 a l2) (h2 : wfR l2 b l3) :
    wfR l1 (a ++ b) l3 := by
  induction h1 with
  | nil => exact h2
  | create live k t l' hf _ ih => exact .create _ _ _ _ hf (ih h2)
  | next live k v t l' hk _ ih => exact .next _ _ _ _ _ hk (ih h2)
  | done live k t l' hk _ ih => exact .done _ _ _ _ hk (ih h2)
  | err live k e t l' hk _ ih => exact .err _ _ _ _ _ hk (ih h2)
  | fatal live e t l' _ ih => exact .fatal _ _ _ _ (ih h2)

def IdxDistinct (l : List Key) : Prop := l.Pairwise (fun a b => a.idx ≠ b.idx)

theorem IdxDistinct.nodup {l : List Key} (h : IdxDistinct l) : l.Nodup :=
  List.Pairwise.imp (fun hab heq => hab (by rw [heq])) h

theorem IdxDistinct.erase {l : List Key} (h : IdxDistinct l) (k : Key) : IdxDistinct (l.erase k) :=
  List.Pairwise.sublist List.erase_sublist h

theorem idxDistinct_cons {l : List Key} {k : Key} (h : IdxDistinct l)
    (hany : (l.any fun k' => k'.idx == k.idx) = false) : IdxDistinct (k :: l) := by
  refine List.pairwise_cons.mpr ⟨?_, h⟩
  intro k' hk' heq
  have : (l.any fun k' => k'.idx == k.idx) = true := by
    simp only [List.any_eq_true]; exact ⟨k', hk', by simp [heq]⟩
  simp [this] at hany

/-- the relational monitor implies the list monitor, with the same final live set -/
theorem wfLive_of_wfR {α} : ∀ (t : List (Ev α)) (l : List Key) (P : Key → Prop),
    IdxDistinct l → wfR (fun k => k ∈ l) t P → ∃ l', wfLive l t = some l' ∧ ∀ k, k ∈ l' ↔ P k := by
  intro t
  induction t with
  | nil =>
    intro l P _ h
    cases h
    exact ⟨l, rfl, fun _ => Iff.rfl⟩
  | cons e t ih =>
    intro l P hd h
    cases h with
    | create _ k _ _ hf hr =>
      have hany : (l.any fun k' => k'.idx == k.idx) = false := by
        cases hc : (l.any fun k' => k'.idx == k.idx) with
        | false => rfl
        | true =>
          simp only [List.any_eq_true] at hc
          obtain ⟨k', hk', he⟩ := hc
          exact absurd (by simpa using he) (hf k' hk')
      simp only [wfLive, wfStep, hany]
      refine ih (k :: l) P (idxDistinct_cons hd hany) ?_
      have : (fun k' => k' = k ∨ k' ∈ l) = (fun k' => k' ∈ k :: l) := by
        funext k'; simp
      rw [← this]; exact hr
    | next _ k v _ _ hk hr =>
      simp only [wfLive, wfStep, hk, if_true]
      exact ih l P hd hr
    | err _ k e _ _ hk hr =>
      simp only [wfLive, wfStep, hk, if_true]
      exact ih l P hd hr
    | fatal _ e _ _ hr =>
      simp only [wfLive, wfStep]
      exact ih l P hd hr
    | done _ k _ _ hk hr =>
      simp only [wfLive, wfStep, hk, if_true]
      refine ih (l.erase k) P (hd.erase k) ?_
      have : (fun k' => k' ≠ k ∧ k' ∈ l) = (fun k' => k' ∈ l.erase k) := by
        funext k'; simp [hd.nodup.mem_erase_iff]
      rw [← this]; exact hr

theorem wfFrom_of_wfR {α} (t : List (Ev α)) (l : List Key) (P : Key → Prop)
    (hd : IdxDistinct l) (h : wfR (fun k => k ∈ l) t P) : wfFrom l t = true := by
  obtain ⟨l', h1, _⟩ := wfLive_of_wfR t l P hd h
  rw [wfFrom_eq, h1]; rfl

/-! ### running the splitter alone; decomposition of `wrap` -/

def spRun {α} (sp : Splitter α) : sp.S → List (Ev α) → List (List (Ev α) × List OEv)
  | _, [] => []
  | s, e :: es => (sp.step s e).2 :: spRun sp (sp.step s e).1 es

def glue {β} : List (List (Ev β)) → List (List OEv) → List (List (Ev β))
  | q :: qs, o :: os => (demux q ++ o.map OEv.toEv) :: glue qs os
  | _, _ => []

theorem wrap_decompose {α β} (sp : Splitter α) (Q : MuxOp α β) :
    ∀ (t : List (Ev α)) (s : sp.S) (q : Q.S),
      runSteps (wrap sp Q).step (s, q) t =
        glue (runGroups Q.step q ((spRun sp s t).map (·.1))) ((spRun sp s t).map (·.2)) := by
  intro t
  induction t with
  | nil => intros; rfl
  | cons e t ih =>
    intro s q
    simp only [runSteps, wrap, spRun, List.map_cons, runGroups, glue]
    rw [← ih]; rfl

/-! ### naming of open inner lifetimes, translation of local commands -/

abbrev Naming := Key → Nat → Option Key

def updNm (nm : Naming) (k : Key) (j : Nat) (v : Option Key) : Naming :=
  fun k' j' => if k' = k ∧ j' = j then v else nm k' j'

/-- the set of inner keys in use -/
def IL (nm : Naming) : Key → Prop := fun a => ∃ k j, nm k j = some a

/-- every name is an inner key of its parent, and names in use have pairwise distinct slot indices -/
structure NmOK (nm : Naming) : Prop where
  child : ∀ k j a, nm k j = some a → ∃ i, a = i :: k
  dist : ∀ k j a k2 j2 b, nm k j = some a → nm k2 j2 = some b → a.idx = b.idx → k = k2 ∧ j = j2

/-- `Tr k nm cmds evs nm'`: the inner events `evs` are the local commands `cmds` of parent `k`
under the naming `nm`, which they turn into `nm'` -/
inductive Tr {α} (k : Key) : Naming → List (Cmd α) → List (Ev α) → Naming → Prop
  | nil (nm) : Tr k nm [] [] nm
  | opn (nm : Naming) (j : Nat) (a : Key) (cs es nm') : nm k j = none → (∀ k2 j2 b, nm k2 j2 = some b → b.idx ≠ a.idx) →
      (∃ i, a = i :: k) → Tr k (updNm nm k j (some a)) cs es nm' → Tr k nm (.opn j :: cs) (.create a :: es) nm'
  | itm (nm : Naming) (j : Nat) (a : Key) (x cs es nm') : nm k j = some a → Tr k nm cs es nm' → Tr k nm (.itm j x :: cs) (.next a x :: es) nm'
  | cls (nm : Naming) (j : Nat) (a : Key) (cs es nm') : nm k j = some a → Tr k (updNm nm k j none) cs es nm' →
      Tr k nm (.cls j :: cs) (.done a :: es) nm'

theorem nmOK_opn {nm : Naming} {k : Key} {j : Nat} {a : Key} (h : NmOK nm) (hn : nm k j = none)
    (hf : ∀ k2 j2 b, nm k2 j2 = some b → b.idx ≠ a.idx) (hc : ∃ i, a = i :: k) :
    NmOK (updNm nm k j (some a)) := by
  refine ⟨?_, ?_⟩
  · intro k1 j1 a1 h1
    unfold updNm at h1
    by_cases hh : k1 = k ∧ j1 = j
    · simp only [hh, and_self, if_true, Option.some.injEq] at h1
      subst h1; rw [hh.1]; exact hc
    · simp only [hh, if_false] at h1; exact h.child k1 j1 a1 h1
  · intro k1 j1 a1 k2 j2 a2 h1 h2 hidx
    unfold updNm at h1 h2
    by_cases hh1 : k1 = k ∧ j1 = j <;> by_cases hh2 : k2 = k ∧ j2 = j
    · exact ⟨hh1.1.trans hh2.1.symm, hh1.2.trans hh2.2.symm⟩
    · simp only [hh1, and_self, if_true, Option.some.injEq] at h1
      simp only [hh2, if_false] at h2
      subst h1; exact absurd hidx.symm (hf k2 j2 a2 h2)
    · simp only [hh2, and_self, if_true, Option.some.injEq] at h2
      simp only [hh1, if_false] at h1
      subst h2; exact absurd hidx (hf k1 j1 a1 h1)
    · simp only [hh1, if_false] at h1
      simp only [hh2, if_false] at h2
      exact h.dist k1 j1 a1 k2 j2 a2 h1 h2 hidx

theorem nmOK_cls {nm : Naming} {k : Key} {j : Nat} (h : NmOK nm) : NmOK (updNm nm k j none) := by
  refine ⟨?_, ?_⟩
  · intro k1 j1 a1 h1
    unfold updNm at h1
    by_cases hh : k1 = k ∧ j1 = j
    · simp [hh] at h1
    · simp only [hh, if_false] at h1; exact h.child k1 j1 a1 h1
  · intro k1 j1 a1 k2 j2 a2 h1 h2 hidx
    unfold updNm at h1 h2
    by_cases hh1 : k1 = k ∧ j1 = j
    · simp [hh1] at h1
    · by_cases hh2 : k2 = k ∧ j2 = j
      · simp [hh2] at h2
      · simp only [hh1, if_false] at h1
        simp only [hh2, if_false] at h2
        exact h.dist k1 j1 a1 k2 j2 a2 h1 h2 hidx

/-- the inner events of a translated command group keep the inner protocol -/
theorem tr_wf {α} {k : Key} {nm nm' : Naming} {cmds : List (Cmd α)} {evs : List (Ev α)}
    (h : Tr k nm cmds evs nm') (hok : NmOK nm) : wfR (IL nm) evs (IL nm') ∧ NmOK nm' ∧ CleanTr evs := by
  induction h with
  | nil nm => exact ⟨.nil _, hok, noErr_nil, noFatal_nil⟩
  | opn nm j a cs es nm' hn hf hc _ ih =>
    obtain ⟨ih1, ih2, ih3⟩ := ih (nmOK_opn hok hn hf hc)
    refine ⟨.create _ _ _ _ ?_ ?_, ih2, noErr_cons.mpr ⟨rfl, ih3.1⟩, noFatal_cons.mpr ⟨rfl, ih3.2⟩⟩
    · rintro b ⟨k2, j2, hb⟩; exact hf k2 j2 b hb
    · have : (fun k' => k' = a ∨ IL nm k') = IL (updNm nm k j (some a)) := by
        funext b
        apply propext
        constructor
        · rintro (rfl | ⟨k2, j2, hb⟩)
          · exact ⟨k, j, by simp [updNm]⟩
          · refine ⟨k2, j2, ?_⟩
            unfold updNm
            by_cases hh : k2 = k ∧ j2 = j
            · rw [hh.1, hh.2, hn] at hb; simp at hb
            · simp [hh, hb]
        · rintro ⟨k2, j2, hb⟩
          unfold updNm at hb
          by_cases hh : k2 = k ∧ j2 = j
          · simp only [hh, and_self, if_true, Option.some.injEq] at hb; exact Or.inl hb.symm
          · simp only [hh, if_false] at hb; exact Or.inr ⟨k2, j2, hb⟩
      rw [this]; exact ih1
  | itm nm j a x cs es nm' hn _ ih =>
    obtain ⟨ih1, ih2, ih3⟩ := ih hok
    exact ⟨.next _ _ _ _ _ ⟨k, j, hn⟩ ih1, ih2, noErr_cons.mpr ⟨rfl, ih3.1⟩, noFatal_cons.mpr ⟨rfl, ih3.2⟩⟩
  | cls nm j a cs es nm' hn _ ih =>
    obtain ⟨ih1, ih2, ih3⟩ := ih (nmOK_cls hok)
    refine ⟨.done _ _ _ _ ⟨k, j, hn⟩ ?_, ih2, noErr_cons.mpr ⟨rfl, ih3.1⟩, noFatal_cons.mpr ⟨rfl, ih3.2⟩⟩
    have : (fun k' => k' ≠ a ∧ IL nm k') = IL (updNm nm k j none) := by
      funext b
      apply propext
      constructor
      · rintro ⟨hne, k2, j2, hb⟩
        refine ⟨k2, j2, ?_⟩
        unfold updNm
        by_cases hh : k2 = k ∧ j2 = j
        · rw [hh.1, hh.2, hn] at hb
          exact absurd (Option.some.inj hb).symm hne
        · simp [hh, hb]
      · rintro ⟨k2, j2, hb⟩
        unfold updNm at hb
        by_cases hh : k2 = k ∧ j2 = j
        · simp [hh] at hb
        · simp only [hh, if_false] at hb
          refine ⟨?_, k2, j2, hb⟩
          rintro rfl
          exact hh (hok.dist k2 j2 b k j b hb hn rfl)
    rw [this]; exact ih1

/-! ### the view of the inner reference state from one parent key -/

/-- `inner` (the local inner states of parent `k`) is the restriction of `rs` (the keyed reference
state over inner keys) along the naming -/
def View {σ} (k : Key) (nm : Naming) (rs : Key → Option σ) (inner : Nat → Option σ) : Prop :=
  ∀ j, match nm k j with
    | some a => inner j = rs a ∧ (rs a).isSome
    | none => inner j = none

theorem demux_liftOut {β} (i : Nat) (k : Key) (os : List (LOut β)) :
    demux (os.map (liftOut (i :: k))) = (os.map demuxL).map (liftOut k) := by
  induction os with
  | nil => rfl
  | cons o os ih =>
    simp only [List.map_cons, demux, List.flatMap_cons] at ih ⊢
    rw [ih]
    cases o <;> rfl

theorem demux_append {β} (a b : List (Ev β)) : demux (a ++ b) = demux a ++ demux b := by
  simp [demux]

/-- one translated command group: the keyed reference lift over the inner events does what the
local inner states do under the commands; other parents' views are untouched -/
theorem tr_sim {α β} (L : LocalOp α β) {k : Key} {nm nm' : Naming} {cmds : List (Cmd α)} {evs : List (Ev α)}
    (h : Tr k nm cmds evs nm') :
    ∀ (rs : Key → Option L.σ) (inner : Nat → Option L.σ), NmOK nm → View k nm rs inner →
      demux (runGroup (refStep L) rs evs).2 =
        ((runGroup (cmdStep L) inner cmds).2.map demuxL).map (liftOut k) ∧
      View k nm' (runGroup (refStep L) rs evs).1 (runGroup (cmdStep L) inner cmds).1 ∧
      (∀ k2, k2 ≠ k → nm' k2 = nm k2) ∧
      (∀ k2 j2 b, k2 ≠ k → nm k2 j2 = some b → (runGroup (refStep L) rs evs).1 b = rs b) := by
  induction h with
  | nil nm =>
    intro rs inner _ hv
    exact ⟨rfl, hv, fun _ _ => rfl, fun _ _ _ _ _ => rfl⟩
  | opn nm j a cs es nm' hn hf hc _ ih =>
    intro rs inner hok hv
    have hok' := nmOK_opn hok hn hf hc
    have hv' : View k (updNm nm k j (some a)) (upd rs a (some L.init)) (upd inner j (some L.init)) := by
      intro j1
      by_cases hj : j1 = j
      · subst hj; simp [updNm, upd]
      · have := hv j1
        simp only [updNm, hj, and_false, if_false, upd]
        cases hnm : nm k j1 with
        | none => simpa [hnm] using this
        | some b =>
          simp only [hnm] at this
          have hba : b ≠ a := by
            rintro rfl; exact hf k j1 b hnm rfl
          simpa [hba] using this
    obtain ⟨e1, e2, e3, e4⟩ := ih (upd rs a (some L.init)) (upd inner j (some L.init)) hok' hv'
    simp only [runGroup, refStep, cmdStep, List.nil_append]
    refine ⟨?_, e2, ?_, ?_⟩
    · rw [demux_append, e1]; rfl
    · intro k2 hk2
      rw [e3 k2 hk2]
      funext j2; simp [updNm, hk2]
    · intro k2 j2 b hk2 hb
      rw [e4 k2 j2 b hk2 (by simp [updNm, hk2, hb])]
      have hba : b ≠ a := by rintro rfl; exact hf k2 j2 b hb rfl
      simp [upd, hba]
  | itm nm j a x cs es nm' hn _ ih =>
    intro rs inner hok hv
    have hvj := hv j
    simp only [hn] at hvj
    obtain ⟨hin, hsome⟩ := hvj
    obtain ⟨s, hs⟩ := Option.isSome_iff_exists.mp hsome
    have hinj : inner j = some s := by rw [hin, hs]
    obtain ⟨i, hai⟩ := hok.child k j a hn
    have hv' : View k nm (upd rs a (some (L.next s x).1)) (upd inner j (some (L.next s x).1)) := by
      intro j1
      by_cases hj : j1 = j
      · subst hj; simp [hn, upd]
      · have := hv j1
        cases hnm : nm k j1 with
        | none => simpa [hnm, upd, hj] using this
        | some b =>
          simp only [hnm] at this
          have hba : b ≠ a := by
            rintro rfl; exact hj (hok.dist k j1 b k j b hnm hn rfl).2
          simpa [upd, hj, hba] using this
    obtain ⟨e1, e2, e3, e4⟩ := ih _ _ hok hv'
    simp only [runGroup, refStep, cmdStep, hs, hinj]
    refine ⟨?_, e2, e3, ?_⟩
    · rw [demux_append, e1, hai, demux_liftOut]; simp
    · intro k2 j2 b hk2 hb
      rw [e4 k2 j2 b hk2 hb]
      have hba : b ≠ a := by
        rintro rfl; exact hk2 (hok.dist k2 j2 b k j b hb hn rfl).1
      simp [upd, hba]
  | cls nm j a cs es nm' hn _ ih =>
    intro rs inner hok hv
    have hvj := hv j
    simp only [hn] at hvj
    obtain ⟨hin, hsome⟩ := hvj
    obtain ⟨s, hs⟩ := Option.isSome_iff_exists.mp hsome
    have hinj : inner j = some s := by rw [hin, hs]
    obtain ⟨i, hai⟩ := hok.child k j a hn
    have hv' : View k (updNm nm k j none) (upd rs a none) (upd inner j none) := by
      intro j1
      by_cases hj : j1 = j
      · subst hj; simp [updNm, upd]
      · have := hv j1
        simp only [updNm, hj, and_false, if_false]
        cases hnm : nm k j1 with
        | none => simpa [hnm, upd, hj] using this
        | some b =>
          simp only [hnm] at this
          have hba : b ≠ a := by
            rintro rfl; exact hj (hok.dist k j1 b k j b hnm hn rfl).2
          simpa [upd, hj, hba] using this
    obtain ⟨e1, e2, e3, e4⟩ := ih _ _ (nmOK_cls hok) hv'
    simp only [runGroup, refStep, cmdStep, hs, hinj]
    refine ⟨?_, e2, ?_, ?_⟩
    · rw [demux_append, demux_append, e1, hai, demux_liftOut]; simp [demux, demuxEv]
    · intro k2 hk2
      rw [e3 k2 hk2]
      funext j2; simp [updNm, hk2]
    · intro k2 j2 b hk2 hb
      rw [e4 k2 j2 b hk2 (by simp [updNm, hk2, hb])]
      have hba : b ≠ a := by
        rintro rfl; exact hk2 (hok.dist k2 j2 b k j b hb hn rfl).1
      simp [upd, hba]

/-! ### what a splitter has to provide -/

/-- step simulation between a splitter (index-addressed state, global inner keys) and its local
description (one parent lifetime, local inner ids) -/
structure SplitSim {α} (sp : Splitter α) (ls : LSplit α) where
  Inv : List Key → sp.S → (Key → Option ls.τ) → Naming → Prop
  init : Inv [] sp.init (fun _ => none) (fun _ _ => none)
  dead : ∀ {live s T nm}, Inv live s T nm → ∀ k, k ∉ live → ∀ j, nm k j = none
  create : ∀ {live s T nm} (k : Key), Inv live s T nm → IdxDistinct live → NmOK nm →
    (live.any fun k' => k'.idx == k.idx) = false →
    (sp.step s (.create k)).2 = ([], [.create k]) ∧
      Inv (k :: live) (sp.step s (.create k)).1 (upd T k (some ls.init)) nm
  next : ∀ {live s T nm} (k : Key) (x : α), Inv live s T nm → IdxDistinct live → NmOK nm → k ∈ live →
    ∃ τ, T k = some τ ∧ ∃ nm', Tr k nm (ls.next τ x).2 (sp.step s (.next k x)).2.1 nm' ∧
      (sp.step s (.next k x)).2.2 = [] ∧
      Inv live (sp.step s (.next k x)).1 (upd T k (some (ls.next τ x).1)) nm'
  done : ∀ {live s T nm} (k : Key), Inv live s T nm → IdxDistinct live → NmOK nm → k ∈ live →
    ∃ τ, T k = some τ ∧ ∃ nm', Tr k nm (ls.fin τ) (sp.step s (.done k)).2.1 nm' ∧
      (sp.step s (.done k)).2.2 = [.done k] ∧
      Inv (live.erase k) (sp.step s (.done k)).1 (upd T k none) nm'
  fatal : ∀ (s : sp.S) (e : Err), sp.step s (.fatal e) = (s, [.fatal e], [])

/-- the generic relation between the keyed reference state over inner keys (`rs`) and the keyed
reference state of the local wrap over parent keys (`ws`) -/
structure WRel {σ τ} (live : List Key) (nm : Naming) (rs : Key → Option σ)
    (ws : Key → Option (τ × (Nat → Option σ))) : Prop where
  live_ : ∀ k ∈ live, ∃ t inner, ws k = some (t, inner) ∧ View k nm rs inner
  dead : ∀ k, k ∉ live → ws k = none

def tauOf {σ τ} (ws : Key → Option (τ × (Nat → Option σ))) : Key → Option τ := fun k => (ws k).map Prod.fst

theorem tauOf_upd {σ τ} (ws : Key → Option (τ × (Nat → Option σ))) (k : Key) (t : τ) (inner : Nat → Option σ) :
    tauOf (upd ws k (some (t, inner))) = upd (tauOf ws) k (some t) := by
  funext k'; unfold tauOf upd; by_cases h : k' = k <;> simp [h]

theorem tauOf_upd_none {σ τ} (ws : Key → Option (τ × (Nat → Option σ))) (k : Key) :
    tauOf (upd ws k none) = upd (tauOf ws) k none := by
  funext k'; unfold tauOf upd; by_cases h : k' = k <;> simp [h]

theorem wrap_sim {α β} {sp : Splitter α} {ls : LSplit α} (sim : SplitSim sp ls) (L : LocalOp α β) :
    ∀ (t : List (Ev α)) (live : List Key) (s : sp.S) (nm : Naming) (rs : Key → Option L.σ)
      (ws : Key → Option (ls.τ × (Nat → Option L.σ))),
      wfFrom live t = true → NoErr t → IdxDistinct live → NmOK nm →
      sim.Inv live s (tauOf ws) nm → WRel live nm rs ws →
      (∃ live' nm' s' ws', wfLive live t = some live' ∧ sim.Inv live' s' (tauOf (σ := L.σ) ws') nm' ∧
        wfR (IL nm) ((spRun sp s t).map (·.1)).flatten (IL nm')) ∧
      NoErr ((spRun sp s t).map (·.1)).flatten ∧
      (NoFatal t → NoFatal ((spRun sp s t).map (·.1)).flatten) ∧
      glue (runGroups (refStep L) rs ((spRun sp s t).map (·.1))) ((spRun sp s t).map (·.2)) =
        runSteps (refStep (localWrap ls L)) ws t := by
  intro t
  induction t with
  | nil =>
    intro live s nm rs ws _ _ _ _ hinv _
    exact ⟨⟨live, nm, s, ws, rfl, hinv, .nil _⟩, noErr_nil, fun _ => noFatal_nil, rfl⟩
  | cons e t ih =>
    intro live s nm rs ws hwf hne hd hok hinv hrel
    obtain ⟨hne1, hne2⟩ := noErr_cons.mp hne
    simp only [wfFrom] at hwf
    cases e with
    | err k x => simp [Ev.isErr] at hne1
    | fatal x =>
      simp only [wfStep] at hwf
      have hst := sim.fatal s x
      obtain ⟨⟨l1, n1, s1', w1', hl1, hi1, h1⟩, h2, hf, h3⟩ := ih live s nm rs ws hwf hne2 hd hok hinv hrel
      simp only [spRun, hst, List.map_cons, List.flatten_cons, runGroups, runGroup, refStep, glue, runSteps,
        List.append_nil, List.map_nil]
      refine ⟨⟨l1, n1, s1', w1', by simpa [wfLive, wfStep] using hl1, hi1, ?_⟩, ?_, ?_, ?_⟩
      · exact .fatal _ _ _ _ h1
      · exact noErr_append.mpr ⟨noErr_cons.mpr ⟨rfl, noErr_nil⟩, h2⟩
      · intro hnf; have := (noFatal_cons.mp hnf).1; simp [Ev.isFatal] at this
      · rw [h3]; rfl
    | create k =>
      cases hany : (live.any fun k' => k'.idx == k.idx) with
      | true => simp [wfStep, hany] at hwf
      | false =>
        simp only [wfStep, hany] at hwf
        have hknot : k ∉ live := by
          intro h
          have : (live.any fun k' => k'.idx == k.idx) = true := by
            simp only [List.any_eq_true]; exact ⟨k, h, by simp⟩
          simp [this] at hany
        obtain ⟨hst, hinv'⟩ := sim.create k hinv hd hok hany
        have hrel' : WRel (k :: live) nm rs (upd ws k (some (ls.init, fun _ => none))) := by
          refine ⟨?_, ?_⟩
          · intro k0 hk0
            rcases List.mem_cons.mp hk0 with rfl | hk0
            · refine ⟨ls.init, fun _ => none, by simp [upd], ?_⟩
              intro j; rw [sim.dead hinv k0 hknot j]
            · have h0 : k0 ≠ k := fun h => hknot (h ▸ hk0)
              obtain ⟨t0, inner0, g1, g2⟩ := hrel.live_ k0 hk0
              exact ⟨t0, inner0, by simp [upd, h0, g1], g2⟩
          · intro k0 hk0
            have h0 : k0 ≠ k := fun h => hk0 (by simp [h])
            have hn : k0 ∉ live := fun h => hk0 (List.mem_cons_of_mem _ h)
            simp [upd, h0, hrel.dead k0 hn]
        rw [← tauOf_upd ws k ls.init (fun _ => none)] at hinv'
        obtain ⟨⟨l1, n1, s1', w1', hl1, hi1, h1⟩, h2, hf, h3⟩ := ih (k :: live) _ nm rs _ (by simpa using hwf) hne2
          (idxDistinct_cons hd hany) hok hinv' hrel'
        have e1 : (sp.step s (.create k)).2.1 = [] := by rw [hst]
        have e2 : (sp.step s (.create k)).2.2 = [.create k] := by rw [hst]
        simp only [spRun, List.map_cons, List.flatten_cons, e1, e2, runGroups, runGroup, glue, runSteps,
          List.nil_append, refStep]
        refine ⟨⟨l1, n1, s1', w1', by simpa [wfLive, wfStep, hany] using hl1, hi1, h1⟩, h2,
          fun hnf => hf (noFatal_cons.mp hnf).2, ?_⟩
        rw [h3]; rfl
    | next k x =>
      by_cases hk : k ∈ live
      · simp only [wfStep, hk, if_true] at hwf
        obtain ⟨τ, hτ, nm', htr, hout, hinv'⟩ := sim.next k x hinv hd hok hk
        obtain ⟨t0, inner, hws, hview⟩ := hrel.live_ k hk
        have ht0 : t0 = τ := by
          have : tauOf ws k = some t0 := by simp [tauOf, hws]
          rw [hτ] at this; exact (Option.some.inj this).symm
        subst ht0
        obtain ⟨w1, hok', w3⟩ := tr_wf htr hok
        obtain ⟨s1, s2, s3, s4⟩ := tr_sim L htr rs inner hok hview
        have hrel' : WRel live nm' (runGroup (refStep L) rs (sp.step s (.next k x)).2.1).1
            (upd ws k (some ((ls.next t0 x).1, (runGroup (cmdStep L) inner (ls.next t0 x).2).1))) := by
          refine ⟨?_, ?_⟩
          · intro k0 hk0
            by_cases h0 : k0 = k
            · subst h0
              exact ⟨(ls.next t0 x).1, (runGroup (cmdStep L) inner (ls.next t0 x).2).1, by simp [upd], s2⟩
            · obtain ⟨t1, inner1, g1, g2⟩ := hrel.live_ k0 hk0
              refine ⟨t1, inner1, by simp [upd, h0, g1], ?_⟩
              intro j
              have := g2 j
              rw [s3 k0 h0]
              cases hnm : nm k0 j with
              | none => simpa [hnm] using this
              | some b =>
                simp only [hnm] at this ⊢
                rw [s4 k0 j b h0 hnm]; exact this
          · intro k0 hk0
            have h0 : k0 ≠ k := fun h => hk0 (h ▸ hk)
            simp [upd, h0, hrel.dead k0 hk0]
        rw [← tauOf_upd ws k _ (runGroup (cmdStep L) inner (ls.next t0 x).2).1] at hinv'
        obtain ⟨⟨l1, n1, s1', w1', hl1, hi1, h1⟩, h2, hf, h3⟩ := ih live _ nm' _ _ hwf hne2 hd hok' hinv' hrel'
        simp only [spRun, List.map_cons, List.flatten_cons, hout, runGroups, glue, runSteps, List.map_nil,
          List.append_nil, refStep, hws, localWrap]
        refine ⟨⟨l1, n1, s1', w1', by simpa [wfLive, wfStep, hk] using hl1, hi1, wfR_append w1 h1⟩, noErr_append.mpr ⟨w3.1, h2⟩,
          fun hnf => noFatal_append.mpr ⟨w3.2, hf (noFatal_cons.mp hnf).2⟩, ?_⟩
        rw [h3, s1]; rfl
      · simp [wfStep, hk] at hwf
    | done k =>
      by_cases hk : k ∈ live
      · simp only [wfStep, hk, if_true] at hwf
        obtain ⟨τ, hτ, nm', htr, hout, hinv'⟩ := sim.done k hinv hd hok hk
        obtain ⟨t0, inner, hws, hview⟩ := hrel.live_ k hk
        have ht0 : t0 = τ := by
          have : tauOf ws k = some t0 := by simp [tauOf, hws]
          rw [hτ] at this; exact (Option.some.inj this).symm
        subst ht0
        obtain ⟨w1, hok', w3⟩ := tr_wf htr hok
        obtain ⟨s1, s2, s3, s4⟩ := tr_sim L htr rs inner hok hview
        have hmem_erase : ∀ k0, k0 ∈ live.erase k ↔ k0 ≠ k ∧ k0 ∈ live := fun k0 => hd.nodup.mem_erase_iff
        have hrel' : WRel (live.erase k) nm' (runGroup (refStep L) rs (sp.step s (.done k)).2.1).1
            (upd ws k none) := by
          refine ⟨?_, ?_⟩
          · intro k0 hk0
            obtain ⟨h0, hk0'⟩ := (hmem_erase k0).mp hk0
            obtain ⟨t1, inner1, g1, g2⟩ := hrel.live_ k0 hk0'
            refine ⟨t1, inner1, by simp [upd, h0, g1], ?_⟩
            intro j
            have := g2 j
            rw [s3 k0 h0]
            cases hnm : nm k0 j with
            | none => simpa [hnm] using this
            | some b =>
              simp only [hnm] at this ⊢
              rw [s4 k0 j b h0 hnm]; exact this
          · intro k0 hk0
            by_cases h0 : k0 = k
            · simp [upd, h0]
            · have hn : k0 ∉ live := fun h => hk0 ((hmem_erase k0).mpr ⟨h0, h⟩)
              simp [upd, h0, hrel.dead k0 hn]
        rw [← tauOf_upd_none ws k] at hinv'
        obtain ⟨⟨l1, n1, s1', w1', hl1, hi1, h1⟩, h2, hf, h3⟩ := ih (live.erase k) _ nm' _ _ (by simpa using hwf) hne2 (hd.erase k) hok' hinv' hrel'
        simp only [spRun, List.map_cons, List.flatten_cons, hout, runGroups, glue, runSteps, refStep, hws, localWrap]
        refine ⟨⟨l1, n1, s1', w1', by simpa [wfLive, wfStep, hk] using hl1, hi1, wfR_append w1 h1⟩, noErr_append.mpr ⟨w3.1, h2⟩,
          fun hnf => noFatal_append.mpr ⟨w3.2, hf (noFatal_cons.mp hnf).2⟩, ?_⟩
        rw [h3, s1]; rfl
      · simp [wfStep, hk] at hwf

/-- **the inductive step of `impl_eq_ref` for a splitter around an arbitrary inner operator** -/
theorem wrap_impl {α β} {sp : Splitter α} {ls : LSplit α} (sim : SplitSim sp ls) (Q : MuxOp α β) (L : LocalOp α β)
    (b : Bool) (h : Impl b Q L) : Impl true (wrap sp Q) (localWrap ls L) := by
  intro t ht hcl
  have hne' := (hcl rfl).1
  show runSteps (wrap sp Q).step (sp.init, Q.init) t = _
  rw [wrap_decompose]
  have hrel0 : WRel (σ := L.σ) (τ := ls.τ) [] (fun _ _ => none) (fun _ => none) (fun _ => none) :=
    ⟨fun _ hk => by simp at hk, fun _ _ => rfl⟩
  have hok0 : NmOK (fun _ _ => none) := ⟨fun _ _ _ h => by simp at h, fun _ _ _ _ _ _ h => by simp at h⟩
  obtain ⟨⟨l1, n1, s1', w1', _, _, w1⟩, w2, wf, w3⟩ := wrap_sim sim L t [] sp.init (fun _ _ => none) (fun _ => none) (fun _ => none)
    ht hne' List.Pairwise.nil hok0 (by
      have : tauOf (σ := L.σ) (τ := ls.τ) (fun _ => none) = fun _ => none := by funext k; rfl
      rw [this]; exact sim.init) hrel0
  have hIL : IL (fun _ _ => none) = (fun k => k ∈ ([] : List Key)) := by
    funext a; apply propext; simp [IL]
  rw [hIL] at w1
  have hwf : WF ((spRun sp sp.init t).map (·.1)).flatten := wfFrom_of_wfR _ [] _ List.Pairwise.nil w1
  have e := h _ hwf (fun _ => ⟨w2, wf (hcl rfl).2⟩)
  rw [runGroups_congr Q.step (refStep L) _ Q.init (fun _ => none) e]
  exact w3

end Rx

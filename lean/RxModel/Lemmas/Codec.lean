import RxModel.Codec
/-! Helper lemmas for C17: one-character decode inverts encode; decoding is monotone in the buffer;
greedy decoding splits over concatenation. -/
namespace Rx

set_option maxRecDepth 100000

theorem isScalar_lt {c : Nat} (h : isScalar c = true) : c < 0x110000 ∧ ¬ (0xD800 ≤ c ∧ c < 0xE000) := by
  simp [isScalar] at h
  omega

/-- decoding one character right after its encoding gives it back, whatever follows -/
theorem dec1_enc (e : Enc) (big : Bool) (c : Nat) (rest : List Nat) (h : e.ok c = true) :
    dec1 e big (encChar e big c ++ rest) = some (c, rest) := by
  cases e with
  | latin1 => simp [encChar, dec1]
  | utf8 =>
    have hs := isScalar_lt (by simpa [Enc.ok] using h)
    simp only [encChar, utf8Enc]
    by_cases h1 : c < 0x80
    · simp [h1, dec1]
    · by_cases h2 : c < 0x800
      · simp only [h1, h2, if_false, if_true, List.cons_append, List.nil_append, dec1]
        have a1 : ¬ (0xC0 + c / 64 < 0x80) := by omega
        have a2 : 0xC0 + c / 64 < 0xE0 := by omega
        simp only [a1, a2, if_false, if_true]
        congr 2; omega
      · by_cases h3 : c < 0x10000
        · simp only [h1, h2, h3, if_false, if_true, List.cons_append, List.nil_append, dec1]
          have a1 : ¬ (0xE0 + c / 4096 < 0x80) := by omega
          have a2 : ¬ (0xE0 + c / 4096 < 0xE0) := by omega
          have a3 : 0xE0 + c / 4096 < 0xF0 := by omega
          simp only [a1, a2, a3, if_false, if_true]
          congr 2; omega
        · simp only [h1, h2, h3, if_false, List.cons_append, List.nil_append, dec1]
          have a1 : ¬ (0xF0 + c / 262144 < 0x80) := by omega
          have a2 : ¬ (0xF0 + c / 262144 < 0xE0) := by omega
          have a3 : ¬ (0xF0 + c / 262144 < 0xF0) := by omega
          simp only [a1, a2, a3, if_false]
          congr 2; omega
  | utf16 =>
    have hs := isScalar_lt (by simpa [Enc.ok] using h)
    simp only [encChar, utf16Enc]
    by_cases h1 : c < 0x10000
    · simp only [h1, if_true, unit16]
      cases big
      · simp only [Bool.false_eq_true, if_false, List.cons_append, List.nil_append, dec1]
        have hu : c / 256 * 256 + c % 256 = c := by omega
        have hn : ¬ (0xD800 ≤ c ∧ c < 0xDC00) := by omega
        simp only [hu, hn, if_false]
      · simp only [if_true, List.cons_append, List.nil_append, dec1]
        have hu : c / 256 * 256 + c % 256 = c := by omega
        have hn : ¬ (0xD800 ≤ c ∧ c < 0xDC00) := by omega
        simp only [hu, hn, if_false]
    · simp only [h1, if_false, unit16]
      have hq := Nat.div_add_mod (c - 0x10000) 1024
      have hr : (c - 0x10000) % 1024 < 1024 := Nat.mod_lt _ (by decide)
      generalize (c - 0x10000) / 1024 = q at *
      generalize (c - 0x10000) % 1024 = r at *
      have hqb : q < 1024 := by omega
      have hhi : (0xD800 + q) / 256 * 256 + (0xD800 + q) % 256 = 0xD800 + q := by
        have := Nat.div_add_mod (0xD800 + q) 256; omega
      have hlo : (0xDC00 + r) / 256 * 256 + (0xDC00 + r) % 256 = 0xDC00 + r := by
        have := Nat.div_add_mod (0xDC00 + r) 256; omega
      have hy : 0xD800 ≤ 0xD800 + q ∧ 0xD800 + q < 0xDC00 := by omega
      cases big
      · simp only [Bool.false_eq_true, if_false, List.cons_append, List.nil_append, dec1]
        simp only [hhi, hlo, hy, and_self, if_true, Option.some.injEq, Prod.mk.injEq, and_true]
        omega
      · simp only [if_true, List.cons_append, List.nil_append, dec1]
        simp only [hhi, hlo, hy, and_self, if_true, Option.some.injEq, Prod.mk.injEq, and_true]
        omega
  | utf32 =>
    have hs := isScalar_lt (by simpa [Enc.ok] using h)
    simp only [encChar, utf32Enc]
    cases big
    · simp only [Bool.false_eq_true, if_false, List.cons_append, List.nil_append, dec1]
      congr 2; omega
    · simp only [if_true, List.cons_append, List.nil_append, dec1]
      congr 2; omega

/-- a successful one-character decode is not affected by bytes arriving later, and consumes input -/
theorem dec1_mono (e : Enc) (big : Bool) (b m : List Nat) (c : Nat) (r : List Nat)
    (h : dec1 e big b = some (c, r)) :
    dec1 e big (b ++ m) = some (c, r ++ m) ∧ r.length < b.length := by
  cases e with
  | latin1 =>
    cases b with
    | nil => simp [dec1] at h
    | cons x xs => simp only [dec1, Option.some.injEq, Prod.mk.injEq] at h; obtain ⟨rfl, rfl⟩ := h; simp [dec1]
  | utf8 =>
    cases b with
    | nil => simp [dec1] at h
    | cons b0 xs =>
      simp only [dec1, List.cons_append] at h ⊢
      by_cases h1 : b0 < 0x80
      · simp only [h1, if_true, Option.some.injEq, Prod.mk.injEq] at h ⊢
        obtain ⟨rfl, rfl⟩ := h; simp
      · simp only [h1, if_false] at h ⊢
        by_cases h2 : b0 < 0xE0
        · simp only [h2, if_true] at h ⊢
          cases xs with
          | nil => simp at h
          | cons b1 ys =>
            simp only [Option.some.injEq, Prod.mk.injEq, List.cons_append] at h ⊢
            obtain ⟨rfl, rfl⟩ := h; simp <;> omega
        · simp only [h2, if_false] at h ⊢
          by_cases h3 : b0 < 0xF0
          · simp only [h3, if_true] at h ⊢
            cases xs with
            | nil => simp at h
            | cons b1 xs =>
              cases xs with
              | nil => simp at h
              | cons b2 ys =>
                simp only [Option.some.injEq, Prod.mk.injEq, List.cons_append] at h ⊢
                obtain ⟨rfl, rfl⟩ := h; simp <;> omega
          · simp only [h3, if_false] at h ⊢
            cases xs with
            | nil => simp at h
            | cons b1 xs =>
              cases xs with
              | nil => simp at h
              | cons b2 xs =>
                cases xs with
                | nil => simp at h
                | cons b3 ys =>
                  simp only [Option.some.injEq, Prod.mk.injEq, List.cons_append] at h ⊢
                  obtain ⟨rfl, rfl⟩ := h; simp <;> omega
  | utf16 =>
    cases b with
    | nil => simp [dec1] at h
    | cons x xs =>
      cases xs with
      | nil => simp [dec1] at h
      | cons y xs =>
        simp only [dec1, List.cons_append] at h ⊢
        generalize hu : (if big = true then x * 256 + y else y * 256 + x) = u at h ⊢
        by_cases hsur : 0xD800 ≤ u ∧ u < 0xDC00
        · simp only [hsur, and_self, if_true] at h ⊢
          cases xs with
          | nil => simp at h
          | cons z xs =>
            cases xs with
            | nil => simp at h
            | cons w ys =>
              simp only [Option.some.injEq, Prod.mk.injEq, List.cons_append] at h ⊢
              obtain ⟨rfl, rfl⟩ := h; simp <;> omega
        · simp only [hsur, if_false, Option.some.injEq, Prod.mk.injEq] at h ⊢
          obtain ⟨rfl, rfl⟩ := h; simp <;> omega
  | utf32 =>
    cases b with
    | nil => simp [dec1] at h
    | cons x xs =>
      cases xs with
      | nil => simp [dec1] at h
      | cons y xs =>
        cases xs with
        | nil => simp [dec1] at h
        | cons z xs =>
          cases xs with
          | nil => simp [dec1] at h
          | cons w ys =>
            simp only [dec1, List.cons_append, Option.some.injEq, Prod.mk.injEq] at h ⊢
            obtain ⟨rfl, rfl⟩ := h; simp <;> omega

theorem decAll_none (e : Enc) (big : Bool) (b : List Nat) (h : dec1 e big b = none) : decAll e big b = ([], b) := by
  rw [decAll.eq_1]
  split
  · rfl
  · next c r heq => rw [h] at heq; cases heq

theorem decAll_some (e : Enc) (big : Bool) (b : List Nat) (c : Nat) (r : List Nat) (h : dec1 e big b = some (c, r)) :
    decAll e big b = (c :: (decAll e big r).1, (decAll e big r).2) := by
  have hl := (dec1_mono e big b [] c r h).2
  rw [decAll.eq_1]
  split
  · next heq => rw [h] at heq; cases heq
  · next c' r' heq =>
    rw [h] at heq
    simp only [Option.some.injEq, Prod.mk.injEq] at heq
    obtain ⟨rfl, rfl⟩ := heq
    simp [hl]

/-- greedy decoding splits over concatenation: decode the first part, carry the rest over -/
theorem decAll_append (e : Enc) (big : Bool) : ∀ (n : Nat) (b m : List Nat), b.length = n →
    decAll e big (b ++ m) =
      ((decAll e big b).1 ++ (decAll e big ((decAll e big b).2 ++ m)).1, (decAll e big ((decAll e big b).2 ++ m)).2) := by
  intro n
  induction n using Nat.strongRecOn with
  | ind n ih =>
    intro b m hn
    cases hd : dec1 e big b with
    | none => rw [decAll_none e big b hd]; simp
    | some cr =>
      obtain ⟨c, r⟩ := cr
      have hm := dec1_mono e big b m c r hd
      rw [decAll_some e big (b ++ m) c (r ++ m) hm.1, decAll_some e big b c r hd]
      rw [ih r.length (by omega) r m rfl]
      simp

/-- the carry of a greedy decode holds no complete character -/
theorem decAll_idem (e : Enc) (big : Bool) (b : List Nat) :
    (decAll e big (decAll e big b).2).1 = [] ∧ (decAll e big (decAll e big b).2).2 = (decAll e big b).2 := by
  have := decAll_append e big b.length b [] rfl
  simp only [List.append_nil] at this
  have h1 := congrArg Prod.fst this
  have h2 := congrArg Prod.snd this
  simp only at h1 h2
  exact ⟨by simpa using h1, h2.symm⟩

/-- decoding an encoded text gives the text and leaves nothing -/
theorem decAll_encoded (e : Enc) (big : Bool) : ∀ (cs : List Nat), (∀ c ∈ cs, e.ok c = true) →
    decAll e big (cs.flatMap (encChar e big)) = (cs, []) := by
  intro cs
  induction cs with
  | nil =>
    intro _
    have : dec1 e big [] = none := by cases e <;> simp [dec1]
    simpa using decAll_none e big [] this
  | cons c cs ih =>
    intro h
    simp only [List.flatMap_cons]
    rw [decAll_some e big _ c _ (dec1_enc e big c _ (h c (by simp))), ih (fun x hx => h x (by simp [hx]))]

end Rx

import RxModel.Lemmas.PlainSim
/-!
# Step simulations between the plain and the keyed implementation of each dual-mode primitive

One `PrimSim` per operator that rxsci implements twice (a `*_mux` handler over the store and an
RxPY / plain implementation).  A raising user function is `on_error` on the plain path and an
`OnErrorMux` on the keyed path: the plain run then delivered a prefix of what the keyed run delivers.
-/
namespace Rx

theorem hasFatal_map_item {β} (l : List β) : hasFatal (l.map LOut.item) = false := by
  induction l with
  | nil => rfl
  | cons x l ih => simpa using ih

/-- an invariant under which the operator emits no item makes it silent -/
theorem silent_of_inv {α β} (L : LocalOp α β) (Q : L.σ → Prop)
    (hn : ∀ s x, Q s → items (L.next s x).2 = [] ∧ Q (L.next s x).1)
    (he : ∀ s e, Q s → items (L.onErr s e).2 = [] ∧ Q (L.onErr s e).1)
    (hf : ∀ s, Q s → items (L.fin s) = []) : ∀ s, Q s → Silent L s := by
  intro s hs os
  induction os generalizing s with
  | nil => rw [fed_nil]; exact hf s hs
  | cons o os ih =>
    cases o with
    | item x => rw [fed_item, items_append, (hn s x hs).1, ih _ (hn s x hs).2]; rfl
    | err e => rw [fed_err, items_append, (he s e hs).1, ih _ (he s e hs).2]; rfl
    | fatal e => rw [fed_fatal, items_fatal, ih _ hs]

/-! ### stateless operators -/

def simMap {α β} (f : α → Except Err β) : PrimSim (pMap f) (mapOp f) where
  R := fun _ _ => True
  start := .inl ⟨rfl, trivial⟩
  step := by
    intro sp sl x _
    simp only [pMap, mapOp]
    cases f x <;> simp
  err := by intro sp sl e _; simp [mapOp]
  fin := by intro sp sl _; simp [pMap, mapOp]

def simFilter {α γ} (p : α → Except Err γ) (tr : γ → Bool) : PrimSim (pFilter p tr) (filterOp p tr) where
  R := fun _ _ => True
  start := .inl ⟨rfl, trivial⟩
  step := by
    intro sp sl x _
    simp only [pFilter, filterOp]
    cases p x with
    | error e => simp
    | ok r => cases h : tr r <;> simp [h]
  err := by intro sp sl e _; simp [filterOp]
  fin := by intro sp sl _; simp [pFilter, filterOp]

def simFlatMap {α β} (el : α → List β) : PrimSim (pFlatMap el) (flatMapOp el) where
  R := fun _ _ => True
  start := .inl ⟨rfl, trivial⟩
  step := by
    intro sp sl x _
    simp only [pFlatMap, flatMapOp]
    simp [hasFatal_map_item]
  err := by intro sp sl e _; simp [flatMapOp]
  fin := by intro sp sl _; simp [pFlatMap, flatMapOp]

def simAssert {α} (p : α → Except Err Bool) (en : Err) : PrimSim (pAssert p en) (assertOp p en) where
  R := fun _ _ => True
  start := .inl ⟨rfl, trivial⟩
  step := by
    intro sp sl x _
    simp only [pAssert, assertOp]
    cases p x with
    | error e => simp
    | ok r => cases r <;> simp
  err := by intro sp sl e _; simp [assertOp]
  fin := by intro sp sl _; simp [pAssert, assertOp]

def simId {α} : PrimSim (idPlain (α := α)) idLocal where
  R := fun _ _ => True
  start := .inl ⟨rfl, trivial⟩
  step := by intro sp sl x _; simp [idPlain, idLocal]
  err := by intro sp sl e _; simp [idLocal]
  fin := by intro sp sl _; simp [idPlain, idLocal]

/-! ### stateful operators -/

theorem hasFatal_scanFin {γ} (seed : γ) (r : Bool) (term : Option (γ → γ)) (s : Option γ) :
    hasFatal (scanFin seed r term s) = false := by
  unfold scanFin
  cases term <;> cases r <;> simp

def simScan {α γ} (g : γ → α → Except Err γ) (seed : γ) (r : Bool) (term : Option (γ → γ)) :
    PrimSim (pScan g seed r term) (scanOp g seed r term) where
  R := fun (sp : Option γ) (sl : Option γ) => sp = sl
  start := .inl ⟨rfl, rfl⟩
  step := by
    intro (sp : Option γ) (sl : Option γ) x h
    subst h
    cases hg : g (sp.getD seed) x with
    | error e =>
      have e1 : (pScan g seed r term).next sp x = (sp, [.fatal e], false) := by simp [pScan, hg]
      have e2 : (scanOp g seed r term).next sp x = (sp, [.err e]) := by simp [scanOp, scanNext, hg]
      rw [e1, e2]
      exact ⟨fun _ => by simp, fun hf => by simp at hf⟩
    | ok a =>
      have e1 : (pScan g seed r term).next sp x = (some a, if r then [] else [.item a], false) := by simp [pScan, hg]
      have e2 : (scanOp g seed r term).next sp x = (some a, if r then [] else [.item a]) := by simp [scanOp, scanNext, hg]
      rw [e1, e2]
      refine ⟨fun hf => ?_, fun _ => ⟨rfl, ?_⟩⟩
      · cases r <;> simp at hf
      · show some a = some a
        rfl
  err := by intro sp sl e h; exact ⟨rfl, h⟩
  fin := by
    intro (sp : Option γ) (sl : Option γ) h
    subst h
    exact ⟨itemsT_prefix_items _, fun _ => rfl⟩

def simLast {α} : PrimSim (pLast (α := α)) lastOp where
  R := fun (sp : Option α) (sl : Option α) => sp = sl
  start := .inl ⟨rfl, rfl⟩
  step := by intro (sp : Option α) (sl : Option α) x h; simp [pLast, lastOp]
  err := by intro sp sl e h; exact ⟨rfl, h⟩
  fin := by
    intro (sp : Option α) (sl : Option α) h
    subst h
    simp only [pLast, lastOp]
    cases sp <;> simp

def simAssert1 {α} (p : α → α → Bool) (en : Err) : PrimSim (pAssert1 p en) (assert1Op p en) where
  R := fun (sp : Option α) (sl : Option α) => sp = sl
  start := .inl ⟨rfl, rfl⟩
  step := by
    intro (sp : Option α) (sl : Option α) x h
    subst h
    simp only [pAssert1, assert1Op]
    cases sp with
    | none => simp
    | some prev => cases h : p prev x <;> simp [h]
  err := by intro sp sl e h; exact ⟨rfl, h⟩
  fin := by intro sp sl _; simp [pAssert1, assert1Op]

/-! ### operators that complete early -/

theorem silent_first {α} : Silent (firstOp (α := α)) true := by
  apply silent_of_inv firstOp (fun (s : Bool) => s = true)
  · intro (s : Bool) x hs; subst hs; exact ⟨rfl, rfl⟩
  · intro (s : Bool) e hs; exact ⟨rfl, hs⟩
  · intro s _; rfl
  · rfl

def simFirst {α} : PrimSim (pFirst (α := α)) firstOp where
  R := fun _ (sl : Bool) => sl = false
  start := .inl ⟨rfl, rfl⟩
  step := by
    intro sp (sl : Bool) x h
    subst h
    refine ⟨fun hf => ?_, fun _ => ⟨rfl, ?_⟩⟩
    · simp [pFirst] at hf
    · simp only [pFirst, if_true]
      exact silent_first
  err := by intro sp sl e h; exact ⟨rfl, h⟩
  fin := by intro sp sl _; simp [pFirst, firstOp]

theorem silent_take {α} (n : Nat) : Silent (takeOp (α := α) n) (0 : Nat) := by
  apply silent_of_inv (takeOp n) (fun (s : Nat) => s = 0)
  · intro (s : Nat) x hs; subst hs; exact ⟨rfl, rfl⟩
  · intro (s : Nat) e hs; exact ⟨rfl, hs⟩
  · intro s _; rfl
  · rfl

def simTake {α} (n : Nat) : PrimSim (pTake (α := α) n) (takeOp n) where
  R := fun (sp : Nat) (sl : Nat) => sp = sl ∧ 1 ≤ sp
  start := by
    cases n with
    | zero => exact .inr ⟨by simp [pTake], silent_take 0⟩
    | succ k => exact .inl ⟨by simp [pTake], rfl, Nat.succ_le_succ (Nat.zero_le k)⟩
  step := by
    intro (sp : Nat) (sl : Nat) x h
    obtain ⟨rfl, h1⟩ := h
    by_cases hc : sp > 1
    · have h0 : sp > 0 := by omega
      have e1 : (pTake (α := α) n).next sp x = (sp - 1, [.item x], false) := by simp [pTake, hc]
      have e2 : (takeOp (α := α) n).next sp x = (sp - 1, [.item x]) := by simp [takeOp, h0]
      rw [e1, e2]
      refine ⟨fun hf => by simp at hf, fun _ => ⟨rfl, ?_⟩⟩
      show sp - 1 = sp - 1 ∧ 1 ≤ sp - 1
      exact ⟨rfl, by omega⟩
    · have e0 : sp = 1 := by omega
      subst e0
      have e1 : (pTake (α := α) n).next (1 : Nat) x = ((0 : Nat), [.item x], true) := by simp [pTake]
      have e2 : (takeOp (α := α) n).next (1 : Nat) x = ((0 : Nat), [.item x]) := by simp [takeOp]
      rw [e1, e2]
      refine ⟨fun hf => by simp at hf, fun _ => ⟨rfl, ?_⟩⟩
      simp only [if_true]
      exact silent_take n
  err := by intro sp sl e h; exact ⟨rfl, h⟩
  fin := by intro sp sl _; simp [pTake, takeOp]

end Rx

import RxModel.Lemmas.PlainPrims
import RxModel.Derived
/-! Step simulations for the dual-mode operators that are defined over `Val` in Derived.lean. -/
namespace Rx

/-! ### to_list: RxPY `to_list` on the plain path, `scan(append, reduce=True)` on the keyed path -/

theorem VList.toList_ofList (l : List Val) : (VList.ofList l).toList = l := by
  induction l with
  | nil => rfl
  | cons v l ih => simp [VList.ofList, VList.toList, ih]

def simToList : PrimSim (pToList Val.lst) (scanOp toListAcc (Val.lst []) true none) where
  R := fun (sp : List Val) (sl : Option Val) => sl.getD (Val.lst []) = Val.lst sp
  start := .inl ⟨rfl, rfl⟩
  step := by
    intro (sp : List Val) (sl : Option Val) x h
    have hg : toListAcc (sl.getD (Val.lst [])) x = .ok (Val.lst (sp ++ [x])) := by
      rw [h]; simp [toListAcc, Val.lst, VList.toList_ofList]
    have e1 : (pToList Val.lst).next sp x = (sp ++ [x], [], false) := rfl
    have e2 : (scanOp toListAcc (Val.lst []) true none).next sl x = (some (Val.lst (sp ++ [x])), []) := by
      simp [scanOp, scanNext, hg]
    rw [e1, e2]
    exact ⟨fun hf => by simp at hf, fun _ => ⟨rfl, rfl⟩⟩
  err := by intro sp sl e h; exact ⟨rfl, h⟩
  fin := by
    intro (sp : List Val) (sl : Option Val) h
    have e1 : (pToList Val.lst).fin sp = [.item (Val.lst sp)] := rfl
    have e2 : (scanOp toListAcc (Val.lst []) true none).fin sl = [.item (sl.getD (Val.lst []))] := by
      simp [scanOp, scanFin]
    rw [e1, e2, h]
    exact ⟨by simp, fun _ => rfl⟩

end Rx

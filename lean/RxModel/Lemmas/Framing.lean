import RxModel.Framing
/-! Helper lemmas for C15 (chunk invariance of the two un-framers). Core Lean only. -/
namespace Rx

/-! ### splitC -/

theorem splitC_ne_nil {α} [DecidableEq α] (sep : α) (l : List α) : splitC sep l ≠ [] := by
  induction l with
  | nil => simp [splitC]
  | cons c cs ih =>
    unfold splitC
    split
    · simp
    · split <;> simp

theorem splitC_append {α} [DecidableEq α] (sep : α) (a b : List α) :
    splitC sep (a ++ b) = (splitC sep a).dropLast ++ splitC sep (lastP (splitC sep a) ++ b) := by
  induction a with
  | nil => simp [splitC, lastP]
  | cons c cs ih =>
    by_cases hc : c = sep
    · subst hc
      have hne := splitC_ne_nil c cs
      simp only [List.cons_append, splitC, if_true]
      rw [ih]
      cases hs : splitC c cs with
      | nil => exact absurd hs hne
      | cons p ps => simp [lastP, List.dropLast]
    · have hne := splitC_ne_nil sep cs
      have hne2 := splitC_ne_nil sep (cs ++ b)
      simp only [List.cons_append, splitC, hc, if_false]
      rw [ih]
      cases hs : splitC sep cs with
      | nil => exact absurd hs hne
      | cons p ps =>
        cases ps with
        | nil =>
          simp only [lastP, List.dropLast, List.getLastD, List.nil_append]
          show _ = splitC sep ((c :: p) ++ b)
          simp only [List.cons_append, splitC, hc, if_false]
          cases hq : splitC sep (p ++ b) with
          | nil => exact absurd hq (splitC_ne_nil sep _)
          | cons q qs => simp [hq]
        | cons p2 ps2 =>
          simp [lastP, List.dropLast]

/-- a separator-free prefix glues onto the first piece -/
theorem splitC_nosep_append {α} [DecidableEq α] (sep : α) (a c : List α) (ha : sep ∉ a) :
    splitC sep (a ++ c) =
      match splitC sep c with
      | [] => [a]
      | l0 :: rest => (a ++ l0) :: rest := by
  induction a with
  | nil =>
    cases h : splitC sep c with
    | nil => exact absurd h (splitC_ne_nil sep c)
    | cons p ps => simp [h]
  | cons x xs ih =>
    have hx : x ≠ sep := fun h => ha (by simp [h])
    have hxs : sep ∉ xs := fun h => ha (by simp [h])
    simp only [List.cons_append, splitC, hx, if_false]
    rw [ih hxs]
    cases h : splitC sep c with
    | nil => exact absurd h (splitC_ne_nil sep c)
    | cons p ps => simp

theorem splitC_nosep {α} [DecidableEq α] (sep : α) (a : List α) (ha : sep ∉ a) :
    splitC sep a = [a] := by
  have := splitC_nosep_append sep a [] ha
  simpa [splitC] using this

/-- no piece of a split contains the separator -/
theorem splitC_pieces_nosep {α} [DecidableEq α] (sep : α) (l : List α) :
    ∀ p ∈ splitC sep l, sep ∉ p := by
  induction l with
  | nil => simp [splitC]
  | cons c cs ih =>
    by_cases hc : c = sep
    · subst hc
      simp only [splitC, if_true]
      intro p hp
      rcases List.mem_cons.mp hp with rfl | hp
      · simp
      · exact ih p hp
    · simp only [splitC, hc, if_false]
      cases h : splitC sep cs with
      | nil => exact absurd h (splitC_ne_nil sep cs)
      | cons q qs =>
        intro p hp
        rw [h] at ih
        rcases List.mem_cons.mp hp with rfl | hp
        · intro hm
          rcases List.mem_cons.mp hm with h1 | h1
          · exact hc h1.symm
          · exact ih q (by simp) h1
        · exact ih p (by simp [hp])

theorem lastP_mem {α} (l : List (List α)) (h : l ≠ []) : lastP l ∈ l := by
  unfold lastP
  cases l with
  | nil => exact absurd rfl h
  | cons a as =>
    rw [List.getLastD_cons]
    simp only [List.getLastD_eq_getLast?]
    cases h2 : as.getLast? with
    | none => simp
    | some x =>
      have := List.mem_of_getLast? h2
      simp [this]

theorem lastP_append {α} (a b : List (List α)) (hb : b ≠ []) : lastP (a ++ b) = lastP b := by
  unfold lastP
  simp only [List.getLastD_eq_getLast?, List.getLast?_append]
  cases h : b.getLast? with
  | none => exact absurd (List.getLast?_eq_none_iff.mp h) hb
  | some x => simp

theorem lastP_splitC_nosep {α} [DecidableEq α] (sep : α) (l : List α) :
    sep ∉ lastP (splitC sep l) :=
  splitC_pieces_nosep sep l _ (lastP_mem _ (splitC_ne_nil sep l))

/-- splitting a framed stream: the items, then the unterminated tail -/
theorem splitC_frames {α} [DecidableEq α] (sep : α) (items : List (List α)) (tail : List α)
    (hi : ∀ it ∈ items, sep ∉ it) (ht : sep ∉ tail) :
    splitC sep ((items.map (· ++ [sep])).flatten ++ tail) = items ++ [tail] := by
  induction items with
  | nil => simpa using splitC_nosep sep tail ht
  | cons it items ih =>
    have h1 : sep ∉ it := hi it (by simp)
    have h2 := ih (fun i h => hi i (by simp [h]))
    simp only [List.map_cons, List.flatten_cons, List.append_assoc]
    rw [splitC_nosep_append sep it _ h1]
    simp only [List.cons_append, List.nil_append, splitC, if_true]
    rw [h2]
    simp

/-! ### lineFeed / lineRun in terms of splitC of the whole stream -/

theorem lineFeedG_eq {α} [DecidableEq α] (nl : α) (acc c : List α) (ha : nl ∉ acc) :
    lineFeedG nl acc c = ((splitC nl (acc ++ c)).dropLast, lastP (splitC nl (acc ++ c))) := by
  unfold lineFeedG
  rw [splitC_nosep_append nl acc c ha]
  cases h : splitC nl c with
  | nil => exact absurd h (splitC_ne_nil _ c)
  | cons p ps => simp

theorem lineRunG_eq {α} [DecidableEq α] (nl : α) : ∀ (cs : List (List α)) (acc : List α), nl ∉ acc →
    (lineRunG nl acc cs).1.flatten = (splitC nl (acc ++ cs.flatten)).dropLast ∧
    (lineRunG nl acc cs).2 = lineFinishG (lastP (splitC nl (acc ++ cs.flatten))) := by
  intro cs
  induction cs with
  | nil =>
    intro acc ha
    simp [lineRunG, splitC_nosep _ acc ha, lastP]
  | cons c cs ih =>
    intro acc ha
    simp only [lineRunG, List.flatten_cons]
    rw [lineFeedG_eq nl acc c ha]
    have hl := lastP_splitC_nosep nl (acc ++ c)
    have := ih (lastP (splitC nl (acc ++ c))) hl
    simp only
    rw [this.1, this.2, ← List.append_assoc acc c, splitC_append nl (acc ++ c) cs.flatten]
    have hne : splitC nl (lastP (splitC nl (acc ++ c)) ++ cs.flatten) ≠ [] := splitC_ne_nil _ _
    refine ⟨?_, ?_⟩
    · rw [List.dropLast_append_of_ne_nil hne]
    · rw [lastP_append _ _ hne]

/-- generic form of C15_line: items without the newline, an unterminated tail, any chunking -/
theorem lineRunG_frames {α} [DecidableEq α] (nl : α) (items : List (List α)) (tail : List α) (cs : List (List α))
    (hi : ∀ it ∈ items, nl ∉ it) (ht : nl ∉ tail)
    (hcs : cs.flatten = (items.map (· ++ [nl])).flatten ++ tail) :
    (lineRunG nl [] cs).1.flatten = items ∧
    (lineRunG nl [] cs).2 = (if tail = [] then [] else [tail]) := by
  have h := lineRunG_eq nl cs [] (by simp)
  simp only [List.nil_append] at h
  have hs : splitC nl cs.flatten = items ++ [tail] := by
    rw [hcs]; exact splitC_frames nl items tail hi ht
  rw [h.1, h.2, hs]
  refine ⟨by simp, ?_⟩
  have : lastP (items ++ [tail]) = tail := by simp [lastP]
  rw [this]
  unfold lineFinishG
  cases tail <;> simp

theorem lineFeed_eq (acc c : List Char) (ha : '\n' ∉ acc) :
    lineFeed acc c = ((splitC '\n' (acc ++ c)).dropLast, lastP (splitC '\n' (acc ++ c))) :=
  lineFeedG_eq '\n' acc c ha

theorem lineRun_eq : ∀ (cs : List (List Char)) (acc : List Char), '\n' ∉ acc →
    (lineRun acc cs).1.flatten = (splitC '\n' (acc ++ cs.flatten)).dropLast ∧
    (lineRun acc cs).2 = lineFinish (lastP (splitC '\n' (acc ++ cs.flatten))) :=
  lineRunG_eq '\n'

end Rx

namespace Rx

/-! ### length prefix -/

theorem toBytesLE_length (p n : Nat) : (toBytesLE p n).length = p := by
  induction p generalizing n with
  | zero => rfl
  | succ p ih => simp [toBytesLE, ih]

theorem toBytesLE_lt (p n : Nat) : ∀ b ∈ toBytesLE p n, b < 256 := by
  induction p generalizing n with
  | zero => simp [toBytesLE]
  | succ p ih =>
    intro b hb
    simp only [toBytesLE, List.mem_cons] at hb
    rcases hb with rfl | hb
    · exact Nat.mod_lt _ (by decide)
    · exact ih _ b hb

theorem from_to_LE : ∀ (p n : Nat), n < 256 ^ p → fromBytesLE (toBytesLE p n) = n := by
  intro p
  induction p with
  | zero => intro n h; simp at h; simp [toBytesLE, fromBytesLE, h]
  | succ p ih =>
    intro n h
    have h2 : n / 256 < 256 ^ p := by
      rw [Nat.pow_succ] at h
      exact Nat.div_lt_of_lt_mul (by rw [Nat.mul_comm]; exact h)
    simp only [toBytesLE, fromBytesLE, ih _ h2]
    have := Nat.div_add_mod n 256
    omega

theorem toBytes_length (big : Bool) (p n : Nat) : (toBytes big p n).length = p := by
  unfold toBytes; split <;> simp [toBytesLE_length]

theorem fromBytes_toBytes (big : Bool) (p n : Nat) (h : n < 256 ^ p) :
    fromBytes big (toBytes big p n) = n := by
  unfold toBytes fromBytes; split <;> simp [from_to_LE p n h]

/-- incrementality: parsing `buf ++ more` = parse `buf`, then continue on (carry ++ more) -/
theorem lpParse_append (big : Bool) (p : Nat) : ∀ (n : Nat) (buf more : List Nat), buf.length = n →
    lpParse big p (buf ++ more) =
      ((lpParse big p buf).1 ++ (lpParse big p ((lpParse big p buf).2 ++ more)).1,
       (lpParse big p ((lpParse big p buf).2 ++ more)).2) := by
  intro n
  induction n using Nat.strongRecOn with
  | ind n ih =>
    intro buf more hn
    by_cases h : 0 < p ∧ p ≤ buf.length
    · by_cases h2 : fromBytes big (buf.take p) ≤ buf.length - p
      · have hp := h.1
        rw [lpParse.eq_1 big p buf]
        simp only [h, h2, dite_true]
        have htake : (buf ++ more).take p = buf.take p := List.take_append_of_le_length h.2
        have hlen : 0 < p ∧ p ≤ (buf ++ more).length := ⟨hp, by simp; omega⟩
        have h2' : fromBytes big ((buf ++ more).take p) ≤ (buf ++ more).length - p := by
          rw [htake]; simp; omega
        rw [lpParse.eq_1 big p (buf ++ more)]
        simp only [hlen, h2', dite_true, htake]
        have hd : (buf ++ more).drop (p + fromBytes big (buf.take p)) =
            buf.drop (p + fromBytes big (buf.take p)) ++ more :=
          List.drop_append_of_le_length (by omega)
        rw [hd, ih (buf.drop (p + fromBytes big (buf.take p))).length (by simp; omega) _ more rfl]
        have hpay : ((buf ++ more).drop p).take (fromBytes big (buf.take p)) =
            (buf.drop p).take (fromBytes big (buf.take p)) := by
          rw [List.drop_append_of_le_length h.2]
          exact List.take_append_of_le_length (by simp; omega)
        have h2'' : fromBytes big (buf.take p) ≤ buf.length + more.length - p := by omega
        simp [hpay, h2'']
      · rw [lpParse.eq_1 big p buf]; simp [h, h2]
    · rw [lpParse.eq_1 big p buf]; simp [h]

/-- the carry of a parse holds no complete frame -/
theorem lpParse_idem (big : Bool) (p : Nat) (b : List Nat) :
    (lpParse big p (lpParse big p b).2).1 = [] ∧
    (lpParse big p (lpParse big p b).2).2 = (lpParse big p b).2 := by
  have := lpParse_append big p b.length b [] rfl
  simp only [List.append_nil] at this
  have h := congrArg Prod.fst this
  have h' := congrArg Prod.snd this
  simp only at h h'
  exact ⟨by simpa using h, h'.symm⟩

theorem lpRun_eq_parse (big : Bool) (p : Nat) : ∀ (cs : List (List Nat)) (acc : List Nat),
    (lpParse big p acc).1 = [] → (lpParse big p acc).2 = acc →
    ((lpRun big p acc cs).1.flatten, (lpRun big p acc cs).2) = lpParse big p (acc ++ cs.flatten) := by
  intro cs
  induction cs with
  | nil => intro acc h1 h2; simp [lpRun]; rw [Prod.ext_iff]; simp [h1, h2]
  | cons c cs ih =>
    intro acc h1 h2
    simp only [lpRun, lpFeed, List.flatten_cons]
    have hid := lpParse_idem big p (acc ++ c)
    have := ih _ hid.1 hid.2
    rw [Prod.ext_iff] at this
    simp only at this
    rw [← List.append_assoc, lpParse_append big p (acc ++ c).length (acc ++ c) cs.flatten rfl]
    rw [Prod.ext_iff]
    simp [this.1, this.2]

/-- parsing a well-formed framed stream followed by an incomplete frame -/
theorem lpParse_frames (big : Bool) (p : Nat) (hp : 0 < p) : ∀ (items : List (List Nat)) (tail : List Nat),
    (∀ it ∈ items, it.length < 256 ^ p) →
    (lpParse big p tail).1 = [] → (lpParse big p tail).2 = tail →
    lpParse big p ((items.map (fun it => toBytes big p it.length ++ it)).flatten ++ tail) = (items, tail) := by
  intro items
  induction items with
  | nil => intro tail _ h1 h2; simp; rw [Prod.ext_iff]; exact ⟨h1, h2⟩
  | cons it items ih =>
    intro tail hlen h1 h2
    have hit := hlen it (by simp)
    have hel := toBytes_length big p it.length
    simp only [List.map_cons, List.flatten_cons, List.append_assoc]
    rw [lpParse.eq_1]
    have hl : 0 < p ∧ p ≤ (toBytes big p it.length ++ (it ++ ((items.map (fun it => toBytes big p it.length ++ it)).flatten ++ tail))).length := by
      simp [hel, hp]
    have htake : (toBytes big p it.length ++ (it ++ ((items.map (fun it => toBytes big p it.length ++ it)).flatten ++ tail))).take p =
        toBytes big p it.length := by
      rw [List.take_append_of_le_length (by simp [hel])]
      exact List.take_of_length_le (by simp [hel])
    simp only [hl, dite_true, htake, fromBytes_toBytes big p _ hit]
    have h2' : it.length ≤ (toBytes big p it.length ++ (it ++ ((items.map (fun it => toBytes big p it.length ++ it)).flatten ++ tail))).length - p := by
      simp only [List.length_append, hel]; omega
    simp only [h2', dite_true]
    have hdrop : (toBytes big p it.length ++ (it ++ ((items.map (fun it => toBytes big p it.length ++ it)).flatten ++ tail))).drop (p + it.length) =
        (items.map (fun it => toBytes big p it.length ++ it)).flatten ++ tail := by
      rw [← List.append_assoc]
      have : (toBytes big p it.length ++ it).length = p + it.length := by simp [hel]
      rw [List.drop_append_of_le_length (by omega)]
      simp [List.drop_eq_nil_of_le (Nat.le_of_eq this)]
    have hpay : ((toBytes big p it.length ++ (it ++ ((items.map (fun it => toBytes big p it.length ++ it)).flatten ++ tail))).drop p).take it.length = it := by
      rw [List.drop_append_of_le_length (by omega), List.drop_eq_nil_of_le (by omega)]
      simp
    rw [hdrop, hpay, ih tail (fun i hi => hlen i (by simp [hi])) h1 h2]
    simp

end Rx

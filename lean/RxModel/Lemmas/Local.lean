import RxModel.Pipeline
/-! Unfolding lemmas for local and plain runs. -/
namespace Rx

theorem runRaw_nil {σ α β} (next : σ → α → σ × List β) (fin : σ → List β) (s : σ) :
    runRaw next fin s [] = ([], fin s) := rfl

theorem runRaw_cons {σ α β} (next : σ → α → σ × List β) (fin : σ → List β) (s : σ) (x : α) (xs : List α) :
    runRaw next fin s (x :: xs) =
      ((next s x).2 :: (runRaw next fin (next s x).1 xs).1, (runRaw next fin (next s x).1 xs).2) := rfl

/-- a run over `xs ++ ys`: run `xs`, then `ys` from the state reached -/
def stateAfter {σ α β} (next : σ → α → σ × List β) : σ → List α → σ
  | s, [] => s
  | s, x :: xs => stateAfter next (next s x).1 xs

theorem runRaw_append {σ α β} (next : σ → α → σ × List β) (fin : σ → List β) :
    ∀ (xs ys : List α) (s : σ),
      runRaw next fin s (xs ++ ys) =
        ((runRaw next fin s xs).1 ++ (runRaw next fin (stateAfter next s xs) ys).1,
         (runRaw next fin (stateAfter next s xs) ys).2) := by
  intro xs
  induction xs with
  | nil => intro ys s; simp [runRaw, stateAfter]
  | cons x xs ih => intro ys s; simp [runRaw, stateAfter, ih]

theorem runRaw_fst_length {σ α β} (next : σ → α → σ × List β) (fin : σ → List β) :
    ∀ (xs : List α) (s : σ), (runRaw next fin s xs).1.length = xs.length := by
  intro xs; induction xs with
  | nil => intro s; rfl
  | cons x xs ih => intro s; simp [runRaw, ih]

theorem runRaw_snd {σ α β} (next : σ → α → σ × List β) (fin : σ → List β) :
    ∀ (xs : List α) (s : σ), (runRaw next fin s xs).2 = fin (stateAfter next s xs) := by
  intro xs; induction xs with
  | nil => intro s; rfl
  | cons x xs ih => intro s; simp [runRaw, stateAfter, ih]

theorem runP_nil {α β} (P : PlainOp α β) (s : P.σ) : P.runP s [] = ([], P.fin s) := rfl

theorem runP_cons_go {α β} (P : PlainOp α β) (s : P.σ) (x : α) (xs : List α)
    (h : stopsP (P.next s x).2 = false) :
    P.runP s (x :: xs) =
      ((P.next s x).2.1 :: (P.runP (P.next s x).1 xs).1, (P.runP (P.next s x).1 xs).2) := by
  simp [PlainOp.runP, h]

theorem runP_cons_stop {α β} (P : PlainOp α β) (s : P.σ) (x : α) (xs : List α)
    (h : stopsP (P.next s x).2 = true) :
    P.runP s (x :: xs) = ((P.next s x).2.1 :: xs.map (fun _ => []), []) := by
  simp [PlainOp.runP, h]

end Rx

import RxModel.Lemmas.Wrap
import RxModel.LSplit
/-!
# `SplitSim` for `group_by`

The implementation keeps, per parent slot, the insertion-ordered dict `map_key → index` whose
indices come from one global counter (`next_index` of the mapper store); the local description
numbers the groups of one parent lifetime 0, 1, 2, … in order of first appearance.  Group `j` of
parent `k` is named by the inner key `(m[j].index, k)`; freshness of a new name follows from all
indices in use being below the counter.
-/
set_option linter.unusedSimpArgs false
namespace Rx

/-- the local map of a parent: same group keys, local ids `off, off+1, …` -/
def relab {κ : Type} (off : Nat) : List (κ × Nat) → List (κ × Nat)
  | [] => []
  | p :: r => (p.1, off) :: relab (off + 1) r

theorem relab_length {κ : Type} : ∀ (m : List (κ × Nat)) (off : Nat), (relab off m).length = m.length := by
  intro m; induction m with
  | nil => intro _; rfl
  | cons p r ih => intro off; simp [relab, ih]

theorem relab_append {κ : Type} : ∀ (m : List (κ × Nat)) (off : Nat) (g : κ) (i : Nat),
    relab off (m ++ [(g, i)]) = relab off m ++ [(g, off + m.length)] := by
  intro m; induction m with
  | nil => intro off g i; simp [relab]
  | cons p r ih => intro off g i; simp [relab, ih]; omega

/-- lookups in the implementation map and in the local map agree -/
theorem relab_lookup {κ : Type} [DecidableEq κ] (g : κ) : ∀ (m : List (κ × Nat)) (off : Nat),
    match gbLookup m g with
    | none => gbLookup (relab off m) g = none
    | some i => ∃ j, gbLookup (relab off m) g = some (off + j) ∧ ∃ p, m[j]? = some p ∧ p.2 = i := by
  intro m
  induction m with
  | nil => intro off; simp [gbLookup, relab]
  | cons p r ih =>
    intro off
    by_cases hp : p.1 = g
    · simp only [gbLookup, List.find?, hp, decide_true, Option.map_some, relab]
      exact ⟨0, by simp, p, by simp, rfl⟩
    · have ih' := ih (off + 1)
      simp only [gbLookup, List.find?, hp, decide_false, relab] at ih' ⊢
      cases hf : (r.find? fun p => decide (p.1 = g)) with
      | none => simp only [hf, Option.map_none] at ih' ⊢; exact ih'
      | some q =>
        simp only [hf, Option.map_some] at ih' ⊢
        obtain ⟨j, h1, q', h2, h3⟩ := ih'
        exact ⟨j + 1, by rw [h1]; congr 1; omega, q', by simpa using h2, h3⟩

def gbNm {κ : Type} (k : Key) (m : List (κ × Nat)) : Nat → Option Key := fun j => (m[j]?).map (fun p => p.2 :: k)

structure GbInv {κ : Type} (live : List Key) (s : GbSt κ) (T : Key → Option (List (κ × Nat))) (nm : Naming) : Prop where
  live_ : ∀ k ∈ live, ∃ m, s.maps k.idx = some m ∧ T k = some (relab 0 m) ∧ nm k = gbNm k m ∧ ∀ p ∈ m, p.2 < s.next
  dead : ∀ k, k ∉ live → ∀ j, nm k j = none

/-- closing all groups of a parent in first-appearance order -/
theorem gb_close {α κ : Type} (k : Key) : ∀ (rest : List (κ × Nat)) (off : Nat) (nm : Naming),
    (∀ j, nm k j = if j < off then none else (rest[j - off]?).map (fun p => p.2 :: k)) →
    ∃ nm', Tr (α := α) k nm ((relab off rest).map (fun p => Cmd.cls p.2)) (rest.map fun p => Ev.done (p.2 :: k)) nm' ∧
      (∀ j, nm' k j = none) ∧ (∀ k2, k2 ≠ k → nm' k2 = nm k2) := by
  intro rest
  induction rest with
  | nil =>
    intro off nm h
    refine ⟨nm, .nil _, ?_, fun _ _ => rfl⟩
    intro j; rw [h j]; split <;> simp
  | cons p r ih =>
    intro off nm h
    have h0 : nm k off = some (p.2 :: k) := by rw [h off]; simp
    obtain ⟨nm', t1, t2, t3⟩ := ih (off + 1) (updNm nm k off none) (by
      intro j
      by_cases hj : j = off
      · subst hj; simp [updNm]
      · simp only [updNm, hj, and_false, if_false]
        rw [h j]
        by_cases hlt : j < off
        · have : j < off + 1 := by omega
          simp [hlt, this]
        · have h1 : ¬ j < off + 1 := by omega
          have h2 : j - off = (j - (off + 1)) + 1 := by omega
          simp only [hlt, h1, if_false, h2, List.getElem?_cons_succ])
    refine ⟨nm', ?_, t2, ?_⟩
    · simp only [relab, List.map_cons]
      exact .cls nm off (p.2 :: k) _ _ nm' h0 t1
    · intro k2 hk; rw [t3 k2 hk]; funext j2; simp [updNm, hk]

def groupBySim {α κ : Type} [DecidableEq κ] (f : α → κ) : SplitSim (groupBySp f) (groupByLS f) where
  Inv := GbInv
  init := ⟨fun _ hk => by simp at hk, fun _ _ _ => rfl⟩
  dead := fun h k hk j => h.dead k hk j
  fatal := fun _ _ => rfl
  create := by
    intro live s T nm k hinv hd _ hany
    have hfresh : ∀ k' ∈ live, k'.idx ≠ k.idx := by
      intro k' hk' heq
      have : (live.any fun k' => k'.idx == k.idx) = true := by
        simp only [List.any_eq_true]; exact ⟨k', hk', by simp [heq]⟩
      simp [this] at hany
    have hknot : k ∉ live := fun h => hfresh k h rfl
    refine ⟨rfl, ?_, ?_⟩
    · intro k0 hk0
      rcases List.mem_cons.mp hk0 with rfl | hk0
      · refine ⟨[], by simp [groupBySp, gbStep, upd], by simp [upd, groupByLS, relab], ?_, by simp⟩
        funext j; rw [hinv.dead k0 hknot j]; simp [gbNm]
      · obtain ⟨m, g1, g2, g3, g4⟩ := hinv.live_ k0 hk0
        have h0 : k0 ≠ k := fun h => hknot (h ▸ hk0)
        exact ⟨m, by simp [groupBySp, gbStep, upd, hfresh k0 hk0, g1], by simp [upd, h0, g2], g3, g4⟩
    · intro k0 hk0 j
      exact hinv.dead k0 (fun h => hk0 (List.mem_cons_of_mem _ h)) j
  next := by
    intro live s T nm k x hinv hd hok hk
    obtain ⟨m, g1, g2, g3, g4⟩ := hinv.live_ k hk
    refine ⟨relab 0 m, g2, ?_⟩
    have hlk := relab_lookup (f x) m 0
    cases hl : gbLookup m (f x) with
    | some i =>
      simp only [hl] at hlk
      obtain ⟨j, h1, p, h2, h3⟩ := hlk
      simp only [Nat.zero_add] at h1
      have hnm : nm k j = some (i :: k) := by rw [g3]; simp [gbNm, h2, h3]
      refine ⟨nm, ?_, ?_, ?_⟩
      · simp only [groupByLS, gbNext, h1, groupBySp, gbStep, g1, hl]
        exact .itm nm j (i :: k) x _ _ nm hnm (.nil _)
      · simp [groupBySp, gbStep, g1, hl]
      · simp only [groupByLS, gbNext, h1, groupBySp, gbStep, g1, hl]
        refine ⟨?_, hinv.dead⟩
        intro k0 hk0
        by_cases h0 : k0 = k
        · subst h0; exact ⟨m, g1, by simp [upd], g3, g4⟩
        · obtain ⟨m0, f1, f2, f3, f4⟩ := hinv.live_ k0 hk0
          exact ⟨m0, f1, by simp [upd, h0, f2], f3, f4⟩
    | none =>
      simp only [hl] at hlk
      have hlen : (relab 0 m).length = m.length := relab_length m 0
      have hnone : nm k m.length = none := by rw [g3]; simp [gbNm]
      have hfresh : ∀ k2 j2 b, nm k2 j2 = some b → b.idx ≠ Key.idx (s.next :: k) := by
        intro k2 j2 b hb
        by_cases hk2 : k2 ∈ live
        · obtain ⟨m2, _, _, f3, f4⟩ := hinv.live_ k2 hk2
          rw [f3] at hb
          simp only [gbNm, Option.map_eq_some_iff] at hb
          obtain ⟨p, hp1, hp2⟩ := hb
          have := f4 p (List.mem_of_getElem? hp1)
          rw [← hp2]; simp only [Key.idx, List.headD_cons]; omega
        · rw [hinv.dead k2 hk2 j2] at hb; simp at hb
      refine ⟨updNm nm k m.length (some (s.next :: k)), ?_, ?_, ?_⟩
      · simp only [groupByLS, gbNext, hlk, hlen, groupBySp, gbStep, g1, hl]
        refine .opn nm m.length (s.next :: k) _ _ _ hnone hfresh ⟨s.next, rfl⟩ ?_
        exact .itm _ m.length (s.next :: k) x _ _ _ (by simp [updNm]) (.nil _)
      · simp [groupBySp, gbStep, g1, hl]
      · simp only [groupByLS, gbNext, hlk, hlen, groupBySp, gbStep, g1, hl]
        refine ⟨?_, ?_⟩
        · intro k0 hk0
          by_cases h0 : k0 = k
          · subst h0
            refine ⟨m ++ [(f x, s.next)], by simp [upd], ?_, ?_, ?_⟩
            · simp [upd, relab_append]
            · funext j
              by_cases hj : j = m.length
              · subst hj; simp [updNm, gbNm]
              · simp only [updNm, hj, and_false, if_false, g3, gbNm]
                by_cases hlt : j < m.length
                · simp [List.getElem?_append_left hlt]
                · have : m.length + 1 ≤ j := by omega
                  have h1 : (m ++ [(f x, s.next)])[j]? = none := by
                    apply List.getElem?_eq_none; simp; omega
                  have h2 : m[j]? = none := by apply List.getElem?_eq_none; omega
                  simp [h1, h2]
            · intro p hp
              rcases List.mem_append.mp hp with hp | hp
              · have := g4 p hp; show p.2 < s.next + 1; omega
              · simp at hp; subst hp; show s.next < s.next + 1; omega
          · obtain ⟨m0, f1, f2, f3, f4⟩ := hinv.live_ k0 hk0
            have hidx : k0.idx ≠ k.idx := pairwise_idx_distinct live hd k0 hk0 k hk h0
            refine ⟨m0, by simp [upd, hidx, f1], by simp [upd, h0, f2], ?_, fun p hp => by have := f4 p hp; show p.2 < s.next + 1; omega⟩
            funext j; simp [updNm, h0, f3]
        · intro k0 hk0 j
          have h0 : k0 ≠ k := fun h => hk0 (h ▸ hk)
          simp [updNm, h0, hinv.dead k0 hk0 j]
  done := by
    intro live s T nm k hinv hd _ hk
    obtain ⟨m, g1, g2, g3, g4⟩ := hinv.live_ k hk
    have hmem_erase : ∀ k0, k0 ∈ live.erase k ↔ k0 ≠ k ∧ k0 ∈ live := fun k0 => hd.nodup.mem_erase_iff
    obtain ⟨nm', t1, t2, t3⟩ := gb_close (α := α) k m 0 nm (by intro j; rw [g3]; simp [gbNm])
    refine ⟨relab 0 m, g2, nm', ?_, ?_, ?_⟩
    · simp only [groupByLS, gbFin, groupBySp, gbStep, g1]
      exact t1
    · simp [groupBySp, gbStep, g1]
    · simp only [groupBySp, gbStep, g1]
      refine ⟨?_, ?_⟩
      · intro k0 hk0
        obtain ⟨h0, hk0'⟩ := (hmem_erase k0).mp hk0
        obtain ⟨m0, f1, f2, f3, f4⟩ := hinv.live_ k0 hk0'
        have hidx : k0.idx ≠ k.idx := pairwise_idx_distinct live hd k0 hk0' k hk h0
        exact ⟨m0, by simp [upd, hidx, f1], by simp [upd, h0, f2], by rw [t3 k0 h0]; exact f3, f4⟩
      · intro k0 hk0 j
        by_cases h0 : k0 = k
        · subst h0; exact t2 j
        · have hn : k0 ∉ live := fun h => hk0 ((hmem_erase k0).mpr ⟨h0, h⟩)
          rw [t3 k0 h0]; exact hinv.dead k0 hn j

end Rx

import RxModel.Lemmas.Roll
import RxModel.Lemmas.SimRoll
/-!
# The flush of `roll` at key completion: the partial windows, in opening order

After `n` items the open windows are `c ≤ j < J` with `c` = number of full windows and
`J = ⌈n/s⌉`; window `j` lives in ring slot `j % d`.  The flush walks the ring from slot `J % d`:
position `o` holds window `J - d + o` (if that one is open), so the windows are closed in
increasing `j`, i.e. in the order they were opened.
-/
set_option linter.unusedSimpArgs false
set_option linter.unusedVariables false
namespace Rx

theorem filterMap_congr' {α β} (f g : α → Option β) : ∀ (l : List α), (∀ x ∈ l, f x = g x) → l.filterMap f = l.filterMap g := by
  intro l
  induction l with
  | nil => intro _; rfl
  | cons a l ih =>
    intro h
    simp only [List.filterMap_cons]
    rw [h a (by simp), ih (fun x hx => h x (by simp [hx]))]

/-- closing distinct slots in a row: each closed window is what the observer holds for that slot -/
theorem obs_close_run {α} (sl : Slots) : ∀ (offs : List Nat) (ob : Obs α), offs.Nodup →
    (obsRun ob (offs.filterMap fun off => match sl off with | some _ => some (Cmd.cls off) | none => none)).closed =
      ob.closed ++ offs.filterMap (fun off => match sl off with | some _ => some ((ob.opn off).getD []) | none => none) := by
  intro offs
  induction offs with
  | nil => intro ob _; simp [obsRun]
  | cons off offs ih =>
    intro ob hnd
    obtain ⟨hnot, hnd'⟩ := List.nodup_cons.mp hnd
    cases hs : sl off with
    | none =>
      simp only [List.filterMap_cons, hs]
      exact ih ob hnd'
    | some n0 =>
      simp only [List.filterMap_cons, hs, obsRun_cons]
      rw [ih _ hnd']
      simp only [obsStep, List.append_assoc, List.singleton_append]
      congr 2
      apply filterMap_congr'
      intro o ho
      have hne : o ≠ off := fun h => hnot (h ▸ ho)
      simp [upd, hne]

theorem filterMap_range_ge {β} (d a : Nat) (f : Nat → β) (ha : a ≤ d) :
    (List.range d).filterMap (fun o => if a ≤ o then some (f o) else none) = (List.range' a (d - a)).map f := by
  induction d with
  | zero =>
    have : a = 0 := by omega
    subst this; simp
  | succ d ih =>
    rw [List.range_succ, List.filterMap_append]
    by_cases h : a ≤ d
    · rw [ih h]
      simp only [List.filterMap_cons, h, if_true, List.filterMap_nil]
      have : d + 1 - a = (d - a) + 1 := by omega
      rw [this, List.range'_concat, List.map_append]
      have h2 : a + 1 * (d - a) = d := by omega
      rw [h2]; simp
    · have ha' : a = d + 1 := by omega
      subst ha'
      simp only [List.filterMap_cons, List.filterMap_nil, Nat.sub_self, List.range'_zero, List.map_nil]
      have h1 : (List.range d).filterMap (fun o => if d + 1 ≤ o then some (f o) else none) = [] := by
        apply List.filterMap_eq_nil_iff.mpr
        intro o ho
        have : o < d := List.mem_range.mp ho
        have : ¬ d + 1 ≤ o := by omega
        simp [this]
      rw [h1]
      have : ¬ d + 1 ≤ d := by omega
      simp [this]

/-- `j*s < n ↔ j < ⌈n/s⌉` -/
theorem lt_ceil_iff (n s j : Nat) (hs : 0 < s) : j * s < n ↔ j < (n + s - 1) / s := by
  rw [Nat.lt_div_iff_mul_lt hs]
  omega

theorem ring_flush {α} (w s d : Nat) (hs : 0 < s) (hw : 0 < w) (hd0 : 0 < d) (hd : w ≤ d * s)
    (xs : List α) (st : Nat × Slots) (ob : Obs α) (c : Nat) (h : RInv w s d xs st ob c) :
    let J := (xs.length + s - 1) / s
    c ≤ J ∧ J - c ≤ d ∧
    (obsRun ⟨ob.opn, []⟩ (lsFlush d (J % d) st.2)).closed = (List.range' c (J - c)).map (fun j => xs.drop (j * s)) := by
  obtain ⟨n, sl⟩ := st
  obtain ⟨hn, hsl, hout, hopn, hcnt, _⟩ := h
  simp only at hn hsl hout hopn
  intro J
  have hJ : ∀ j, j * s < xs.length ↔ j < J := fun j => lt_ceil_iff xs.length s j hs
  have hopen : ∀ j, openAt w s xs.length j ↔ c ≤ j ∧ j < J := by
    intro j
    unfold openAt
    rw [hJ j]
    have := hcnt j
    constructor
    · rintro ⟨h1, h2⟩
      refine ⟨?_, h1⟩
      rcases Nat.lt_or_ge j c with hl | hl
      · have := this.mp hl; omega
      · exact hl
    · rintro ⟨h1, h2⟩
      refine ⟨h2, ?_⟩
      rcases Nat.lt_or_ge xs.length (j * s + w) with hl | hl
      · exact hl
      · have := this.mpr hl; omega
  -- c ≤ J
  have hcJ : c ≤ J := by
    rcases Nat.lt_or_ge J c with hl | hl
    · exfalso
      have h1 := (hcnt J).mp hl
      have h2 : ¬ J * s < xs.length := fun h => absurd ((hJ J).mp h) (Nat.lt_irrefl _)
      omega
    · exact hl
  -- at most d windows are open
  have hJc : J - c ≤ d := by
    rcases Nat.lt_or_ge d (J - c) with hl | hl
    · exfalso
      have o1 : openAt w s xs.length c := (hopen c).mpr ⟨Nat.le_refl _, by omega⟩
      have o2 : openAt w s xs.length (c + d) := (hopen (c + d)).mpr ⟨by omega, by omega⟩
      unfold openAt at o1 o2
      have : (c + d) * s = c * s + d * s := Nat.add_mul _ _ _
      omega
    · exact hl
  refine ⟨hcJ, hJc, ?_⟩
  -- the slot visited at position o
  have hslot : ∀ o, o < d → sl ((J % d + o) % d) = if c + d ≤ J + o then some ((J + o - d) * s) else none := by
    intro o ho
    have hofflt : (J % d + o) % d < d := Nat.mod_lt _ hd0
    have hmod : (J % d + o) % d = (J + o) % d := by rw [Nat.add_mod, Nat.mod_mod, ← Nat.add_mod]
    by_cases hc : c + d ≤ J + o
    · simp only [hc, if_true]
      apply (hsl _ hofflt _).mpr
      refine ⟨J + o - d, rfl, ?_, (hopen _).mpr ⟨by omega, by omega⟩⟩
      rw [hmod]
      have h1 : (J + o - d + d) % d = (J + o - d) % d := Nat.add_mod_right _ _
      have h2 : J + o - d + d = J + o := by omega
      rw [h2] at h1
      exact h1.symm
    · simp only [hc, if_false]
      cases hso : sl ((J % d + o) % d) with
      | none => rfl
      | some n0 =>
        exfalso
        obtain ⟨j, hj1, hj2, hj3⟩ := (hsl _ hofflt n0).mp hso
        obtain ⟨hj4, hj5⟩ := (hopen j).mp hj3
        rw [hmod] at hj2
        -- j ≡ J + o (mod d), c ≤ j < J, J + o < c + d: impossible
        have hle : j ≤ J + o := by omega
        have hdvd := dvd_sub_of_mod_eq d j (J + o) hle hj2
        have hlt : J + o - j < d := by omega
        have hpos : 0 < J + o - j := by omega
        have := Nat.le_of_dvd hpos hdvd
        omega
  -- the offsets are distinct
  have hnd : ((List.range d).map (fun o => (J % d + o) % d)).Nodup := by
    have hr : (List.range d).Pairwise (fun a b => a ≠ b ∧ a < d ∧ b < d) :=
      List.Pairwise.imp_of_mem (fun ha hb hne => ⟨hne, List.mem_range.mp ha, List.mem_range.mp hb⟩) List.nodup_range
    exact List.Pairwise.map _ (fun a b h heq => h.1 (mod_add_inj d (J % d) a b h.2.1 h.2.2 heq)) hr
  show (obsRun ⟨ob.opn, []⟩ (lsFlush d (J % d) sl)).closed = _
  unfold lsFlush
  refine (obs_close_run sl _ ⟨ob.opn, []⟩ hnd).trans ?_
  simp only [List.nil_append, List.filterMap_map]
  have hfun : ∀ o ∈ List.range d,
      ((fun off => match sl off with | some _ => some ((ob.opn off).getD []) | none => none) ∘ fun o => (J % d + o) % d) o =
        (fun o => if c + d - J ≤ o then some (xs.drop ((J + o - d) * s)) else none) o := by
    intro o ho
    have hod : o < d := List.mem_range.mp ho
    simp only [Function.comp]
    rw [hslot o hod, hopn, hslot o hod]
    by_cases hc : c + d ≤ J + o
    · have : c + d - J ≤ o := by omega
      simp [hc, this]
    · have : ¬ c + d - J ≤ o := by omega
      simp [hc, this]
  rw [filterMap_congr' _ _ _ hfun, filterMap_range_ge d (c + d - J) _ (by omega)]
  have hlen : d - (c + d - J) = J - c := by omega
  rw [hlen]
  apply List.ext_getElem
  · simp
  · intro i h1 h2
    simp only [List.getElem_map, List.getElem_range']
    have hi : i < J - c := by simpa using h1
    congr 2
    omega

/-! ### the tumbling implementation (window = stride) -/

/-- `_roll_count.on_next` as an explicit function on the counter -/
def rcNext {α} (w : Nat) (c : Nat) (x : α) : Nat × List (Cmd α) :=
  let pre := if c = 0 then [Cmd.opn 0] else []
  if c + 1 = w then (0, pre ++ [.itm 0 x, .cls 0]) else (c + 1, pre ++ [.itm 0 x])

theorem rcNext_eq {α} (w : Nat) : (rollCountLS (α := α) w).next = rcNext w := rfl

theorem window_stable {α} (w : Nat) (pre : List α) (x : α) :
    (List.range (pre.length / w)).map (window w w (pre ++ [x])) = (List.range (pre.length / w)).map (window w w pre) := by
  apply List.map_congr_left
  intro j hj
  have hj' : j < pre.length / w := List.mem_range.mp hj
  unfold window
  apply take_drop_stable
  have h1 : (j + 1) * w ≤ pre.length / w * w := Nat.mul_le_mul_right w hj'
  have h2 := Nat.div_mul_le_self pre.length w
  rw [Nat.add_mul, Nat.one_mul] at h1
  omega

theorem tumbling_inv {α} (w : Nat) (hw : 0 < w) : ∀ (ys pre : List α) (c : Nat) (ob : Obs α),
    c = pre.length % w → ob.closed = (List.range (pre.length / w)).map (window w w pre) →
    ob.opn 0 = (if c = 0 then none else some (pre.drop (pre.length / w * w))) →
    (runObsRaw (rcNext w) (c, ob) ys).1 = (pre ++ ys).length % w ∧
    (runObsRaw (rcNext w) (c, ob) ys).2.closed = (List.range ((pre ++ ys).length / w)).map (window w w (pre ++ ys)) ∧
    (runObsRaw (rcNext w) (c, ob) ys).2.opn 0 =
      (if (pre ++ ys).length % w = 0 then none else some ((pre ++ ys).drop ((pre ++ ys).length / w * w))) := by
  intro ys
  induction ys with
  | nil =>
    intro pre c ob h1 h2 h3
    simp only [runObsRaw, List.append_nil]
    exact ⟨h1, h2, by rw [← h1]; exact h3⟩
  | cons x ys ih =>
    intro pre c ob h1 h2 h3
    have hdm := Nat.div_add_mod pre.length w
    have hclt : c < w := by rw [h1]; exact Nat.mod_lt _ hw
    have hq : pre.length = pre.length / w * w + c := by rw [h1, Nat.mul_comm]; omega
    have hlen : (pre ++ [x]).length = pre.length + 1 := by simp
    have happ : pre ++ x :: ys = (pre ++ [x]) ++ ys := by simp
    rw [happ]
    have hdrop0 : c = 0 → pre.drop (pre.length / w * w) = [] := by
      intro hc0; apply List.drop_eq_nil_of_le; omega
    by_cases hfull : c + 1 = w
    · -- the item closes the window
      have hdiv : (pre ++ [x]).length / w = pre.length / w + 1 := by
        rw [hlen]
        apply Nat.div_eq_of_lt_le
        · rw [Nat.add_mul, Nat.one_mul]; omega
        · rw [Nat.add_mul, Nat.add_mul, Nat.one_mul]; omega
      have hmod : (pre ++ [x]).length % w = 0 := by
        have : pre.length + 1 = (pre.length / w + 1) * w := by rw [Nat.add_mul, Nat.one_mul]; omega
        rw [hlen, this, Nat.mul_mod_left]
      have hlast : window w w (pre ++ [x]) (pre.length / w) = pre.drop (pre.length / w * w) ++ [x] := by
        unfold window
        rw [List.drop_append_of_le_length (by omega)]
        apply List.take_of_length_le
        simp; omega
      have hstep : rcNext w c x = (0, (if c = 0 then [Cmd.opn 0] else []) ++ [.itm 0 x, .cls 0]) := by
        simp [rcNext, hfull]
      have hwin : (obsRun ob (rcNext w c x).2).closed =
          (List.range ((pre ++ [x]).length / w)).map (window w w (pre ++ [x])) := by
        rw [hdiv, List.range_succ, List.map_append, window_stable, ← h2, hstep]
        by_cases hc0 : c = 0
        · simp [hc0, obsRun, obsStep, hlast, hdrop0 hc0, upd]
        · simp [hc0, obsRun, obsStep, hlast, h3, upd]
      have hopn' : (obsRun ob (rcNext w c x).2).opn 0 = none := by
        rw [hstep]
        by_cases hc0 : c = 0
        · simp [hc0, obsRun, obsStep, upd]
        · simp [hc0, obsRun, obsStep, upd]
      have := ih (pre ++ [x]) 0 (obsRun ob (rcNext w c x).2) hmod.symm hwin (by simp [hopn'])
      simp only [runObsRaw]
      rw [show (rcNext w c x).1 = 0 by rw [hstep]]
      exact this
    · -- the window stays open
      have hlt : c + 1 < w := by omega
      have hdiv : (pre ++ [x]).length / w = pre.length / w := by
        rw [hlen]
        apply Nat.div_eq_of_lt_le
        · omega
        · rw [Nat.add_mul, Nat.one_mul]; omega
      have hmod : (pre ++ [x]).length % w = c + 1 := by
        have : pre.length + 1 = (c + 1) + pre.length / w * w := by omega
        rw [hlen, this, Nat.add_mul_mod_self_right]; exact Nat.mod_eq_of_lt hlt
      have hstep : rcNext w c x = (c + 1, (if c = 0 then [Cmd.opn 0] else []) ++ [.itm 0 x]) := by
        simp [rcNext, hfull]
      have hwin : (obsRun ob (rcNext w c x).2).closed =
          (List.range ((pre ++ [x]).length / w)).map (window w w (pre ++ [x])) := by
        rw [hdiv, window_stable, ← h2, hstep]
        by_cases hc0 : c = 0
        · simp [hc0, obsRun, obsStep]
        · simp [hc0, obsRun, obsStep]
      have hopn' : (obsRun ob (rcNext w c x).2).opn 0 =
          some ((pre ++ [x]).drop ((pre ++ [x]).length / w * w)) := by
        rw [hdiv, List.drop_append_of_le_length (by omega), hstep]
        by_cases hc0 : c = 0
        · simp [hc0, obsRun, obsStep, upd, hdrop0 hc0]
        · simp [hc0, obsRun, obsStep, upd, h3]
      have := ih (pre ++ [x]) (c + 1) (obsRun ob (rcNext w c x).2) hmod.symm hwin (by simp [hopn'])
      simp only [runObsRaw]
      rw [show (rcNext w c x).1 = c + 1 by rw [hstep]]
      exact this

theorem tumbling_windows {α} (w : Nat) (hw : 0 < w) (xs : List α) :
    (rollCountLS w).windows xs =
      ((List.range (xs.length / w)).map (window w w xs),
       if xs.length % w = 0 then [] else [xs.drop (xs.length / w * w)]) := by
  have h0 := tumbling_inv w hw xs [] 0 Obs.empty (by simp) (by simp [Obs.empty]) (by simp [Obs.empty])
  simp only [List.nil_append] at h0
  obtain ⟨k1, k2, k3⟩ := h0
  have hrun : (rollCountLS (α := α) w).runObs ((rollCountLS w).init, Obs.empty) xs = runObsRaw (rcNext w) (0, Obs.empty) xs := rfl
  have hfin : ∀ c : Nat, (rollCountLS (α := α) w).fin c = if c > 0 then [Cmd.cls 0] else [] := fun _ => rfl
  unfold LSplit.windows
  simp only []
  rw [hrun]
  refine Prod.ext k2 ?_
  have hsecond : (obsRun ⟨(runObsRaw (rcNext w) (0, Obs.empty) xs).2.opn, []⟩
      (if (runObsRaw (rcNext w) (0, Obs.empty) xs).1 > 0 then [Cmd.cls 0] else [])).closed =
      (if xs.length % w = 0 then [] else [xs.drop (xs.length / w * w)]) := by
    rw [k1]
    by_cases hm : xs.length % w = 0
    · simp [hm, obsRun]
    · have hpos : xs.length % w > 0 := by omega
      rw [if_neg hm] at k3
      simp [hpos, hm, obsRun, obsStep, k3]
  exact hsecond

end Rx

import RxModel.Lemmas.Comp
/-!
# `impl_eq_ref`: the multiplexed interpretation of a pipeline equals the keyed reference lift of its
local meaning, by structural recursion over the pipeline syntax.

`Pipe.Supported` lists the constructors whose step lemma has been proved; the theorem covers every
pipeline built from them, to any length and (for the supported nesting constructors) any depth.
-/
namespace Rx

mutual
/-- stages for which the refinement step is proved -/
def Stage.Supported : Stage → Prop
  | .prim _ _ => True
  | .wrap _ _ _ => False
  | .tee _ _ => False
def Pipe.Supported : Pipe → Prop
  | .nil => True
  | .cons s rest => s.Supported ∧ rest.Supported
end

mutual
theorem Stage.implements : (s : Stage) → s.Supported → Implements s.mux s.loc
  | .prim L _, _ => lift_implements L
  | .wrap _ _ _, h => by simp [Stage.Supported] at h
  | .tee _ _, h => by simp [Stage.Supported] at h
theorem Pipe.implements : (P : Pipe) → P.Supported → Implements P.mux P.loc
  | .nil, _ => lift_implements idLocal
  | .cons s rest, h => by
    simp only [Pipe.Supported] at h
    exact comp_implements s.mux rest.mux s.loc rest.loc (s.implements h.1) (rest.implements h.2)
end

/-- **impl_eq_ref** (flat pipelines of per-key operators of any length): on every well-formed
trace — any number of keys, any interleaving, sparse and reused slot indices — the index-addressed
implementation emits, input event by input event, exactly what the keyed reference semantics emits -/
theorem impl_eq_ref (P : Pipe) (h : P.Supported) (t : List (Ev Val)) (ht : WF t) :
    P.mux.run t = (refLift P.loc).run t :=
  P.implements h t ht

end Rx

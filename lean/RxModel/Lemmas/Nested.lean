import RxModel.Lemmas.Impl
import RxModel.Lemmas.TeeSim
import RxModel.Lemmas.SimRoll
import RxModel.Lemmas.SimGroupBy
import RxModel.Bounds
/-!
# `impl_eq_ref` for NESTED pipelines

`Pipe.Nested` admits, to any length and any nesting depth,

* every per-key operator (`prim`),
* `wrap sp ls inner` for every splitter with a step simulation `SplitSim sp ls` (proved for
  `group_by`, `roll` (both implementations), `split`, `time_split`) around a nested inner pipeline,
* `tee_map` with at least one branch, every branch a nested pipeline, any join,

with one side condition: a stage that is followed by a splitter or a tee (directly or further down
the same pipeline) must be *clean* — it never turns an item into an `OnErrorMux` or an `on_error`
(`Stage.Clean`).  The theorem is about clean well-formed input traces (what `mux_observable` and
every clean stage produce); errors in flat pipelines are covered by `impl_eq_ref` itself.
-/
set_option linter.unusedSimpArgs false
set_option linter.unusedVariables false
namespace Rx

/-! ### clean local operators -/

def LOut.isItem {β} : LOut β → Bool
  | .item _ => true
  | _ => false

/-- the operator never emits an `OnErrorMux` or an `on_error` when it is fed items only -/
structure CleanOp {α β} (L : LocalOp α β) : Prop where
  next : ∀ s x, ∀ o ∈ (L.next s x).2, o.isItem = true
  fin : ∀ s, ∀ o ∈ L.fin s, o.isItem = true

theorem cleanTr_outs {β} (k : Key) (os : List (LOut β)) (h : ∀ o ∈ os, o.isItem = true) :
    CleanTr (os.map (liftOut k)) := by
  induction os with
  | nil => exact ⟨noErr_nil, noFatal_nil⟩
  | cons o os ih =>
    have ho := h o (by simp)
    have := ih (fun o' ho' => h o' (by simp [ho']))
    cases o with
    | item b => exact ⟨noErr_cons.mpr ⟨rfl, this.1⟩, noFatal_cons.mpr ⟨rfl, this.2⟩⟩
    | err e => simp [LOut.isItem] at ho
    | fatal e => simp [LOut.isItem] at ho

theorem cleanTr_append {α} {a b : List (Ev α)} (ha : CleanTr a) (hb : CleanTr b) : CleanTr (a ++ b) :=
  ⟨noErr_append.mpr ⟨ha.1, hb.1⟩, noFatal_append.mpr ⟨ha.2, hb.2⟩⟩

/-- a clean operator maps clean traces to clean traces -/
theorem clean_ref {α β} (L : LocalOp α β) (hL : CleanOp L) :
    ∀ (t : List (Ev α)) (st : Key → Option L.σ), CleanTr t → CleanTr (runSteps (refStep L) st t).flatten := by
  intro t
  induction t with
  | nil => intro st _; exact ⟨noErr_nil, noFatal_nil⟩
  | cons e t ih =>
    intro st hc
    have hc2 : CleanTr t := ⟨(noErr_cons.mp hc.1).2, (noFatal_cons.mp hc.2).2⟩
    simp only [runSteps, List.flatten_cons]
    refine cleanTr_append ?_ (ih _ hc2)
    cases e with
    | create k => exact ⟨noErr_cons.mpr ⟨rfl, noErr_nil⟩, noFatal_cons.mpr ⟨rfl, noFatal_nil⟩⟩
    | next k x =>
      simp only [refStep]
      cases st k with
      | none => exact ⟨noErr_nil, noFatal_nil⟩
      | some s => exact cleanTr_outs k _ (hL.next s x)
    | done k =>
      simp only [refStep]
      cases st k with
      | none => exact ⟨noErr_cons.mpr ⟨rfl, noErr_nil⟩, noFatal_cons.mpr ⟨rfl, noFatal_nil⟩⟩
      | some s =>
        exact cleanTr_append (cleanTr_outs k _ (hL.fin s))
          ⟨noErr_cons.mpr ⟨rfl, noErr_nil⟩, noFatal_cons.mpr ⟨rfl, noFatal_nil⟩⟩
    | err k x => have := (noErr_cons.mp hc.1).1; simp [Ev.isErr] at this
    | fatal x => have := (noFatal_cons.mp hc.2).1; simp [Ev.isFatal] at this

/-! ### sequential composition with flags -/

theorem comp_impl {α β γ} (Q1 : MuxOp α β) (Q2 : MuxOp β γ) (L1 : LocalOp α β) (L2 : LocalOp β γ) (a b : Bool)
    (h1 : Impl a Q1 L1) (h2 : Impl b Q2 L2) (hc : b = true → CleanOp L1) :
    Impl (a || b) (compMux Q1 Q2) (compLocal L1 L2) := by
  intro t ht hcl
  show runSteps (compMux Q1 Q2).step (Q1.init, Q2.init) t = _
  rw [comp_decompose]
  have e1 : runSteps Q1.step Q1.init t = runSteps (refStep L1) (fun _ => none) t :=
    h1 t ht (fun ha => hcl (by simp [ha]))
  rw [e1]
  have hmid : WF (runSteps (refStep L1) (fun _ => none) t).flatten := ref_wf L1 t ht
  have e2 := h2 _ hmid (fun hb => clean_ref L1 (hc hb) t _ (hcl (by simp [hb])))
  rw [runGroups_congr Q2.step (refStep L2) _ Q2.init (fun _ => none) e2]
  exact comp_sim L1 L2 t [] _ _ _ ht ⟨by simp, fun _ _ => ⟨rfl, rfl, rfl⟩, List.nodup_nil⟩

/-! ### cleanness of the composite local operators -/

theorem feedL_clean {β γ} (L : LocalOp β γ) (hL : CleanOp L) :
    ∀ (os : List (LOut β)) (s : L.σ), (∀ o ∈ os, o.isItem = true) → ∀ o ∈ (feedL L s os).2, o.isItem = true := by
  intro os
  induction os with
  | nil => intro s _ o ho; simp [feedL] at ho
  | cons o' os ih =>
    intro s h o ho
    have h' := h o' (by simp)
    cases o' with
    | item b =>
      simp only [feedL, List.mem_append] at ho
      rcases ho with ho | ho
      · exact hL.next s b o ho
      · exact ih _ (fun o2 ho2 => h o2 (by simp [ho2])) o ho
    | err e => simp [LOut.isItem] at h'
    | fatal e => simp [LOut.isItem] at h'

theorem clean_comp {α β γ} (L1 : LocalOp α β) (L2 : LocalOp β γ) (h1 : CleanOp L1) (h2 : CleanOp L2) :
    CleanOp (compLocal L1 L2) := by
  refine ⟨?_, ?_⟩
  · intro s x o ho
    exact feedL_clean L2 h2 _ _ (h1.next s.1 x) o ho
  · intro s o ho
    simp only [compLocal, List.mem_append] at ho
    rcases ho with ho | ho
    · exact feedL_clean L2 h2 _ _ (h1.fin s.1) o ho
    · exact h2.fin _ o ho

theorem clean_id {α} : CleanOp (idLocal (α := α)) :=
  ⟨fun _ _ o ho => by simp [idLocal] at ho; subst ho; rfl, fun _ o ho => by simp [idLocal] at ho⟩

theorem cmd_clean {α β} (L : LocalOp α β) (hL : CleanOp L) :
    ∀ (cs : List (Cmd α)) (st : Nat → Option L.σ), ∀ o ∈ (runGroup (cmdStep L) st cs).2, o.isItem = true := by
  intro cs
  induction cs with
  | nil => intro st o ho; simp [runGroup] at ho
  | cons c cs ih =>
    intro st o ho
    simp only [runGroup, List.mem_append] at ho
    rcases ho with ho | ho
    · cases c with
      | opn j => simp [cmdStep] at ho
      | itm j x =>
        simp only [cmdStep] at ho
        cases hs : st j with
        | none => simp [hs] at ho
        | some s => simp only [hs] at ho; exact hL.next s x o ho
      | cls j =>
        simp only [cmdStep] at ho
        cases hs : st j with
        | none => simp [hs] at ho
        | some s => simp only [hs] at ho; exact hL.fin s o ho
    · exact ih _ o ho

theorem clean_wrap {α β} (ls : LSplit α) (L : LocalOp α β) (hL : CleanOp L) : CleanOp (localWrap ls L) := by
  refine ⟨?_, ?_⟩
  · intro s x o ho
    simp only [localWrap, List.mem_map] at ho
    obtain ⟨o', ho', rfl⟩ := ho
    have := cmd_clean L hL _ _ o' ho'
    cases o' <;> simp_all [LOut.isItem, demuxL]
  · intro s o ho
    simp only [localWrap, List.mem_map] at ho
    obtain ⟨o', ho', rfl⟩ := ho
    have := cmd_clean L hL _ _ o' ho'
    cases o' <;> simp_all [LOut.isItem, demuxL]

theorem feedLJoin_clean {β γ} (mode : Join) (mk : List (Option β) → γ) (inj : β → γ) (i : Nat) :
    ∀ (os : List (LOut β)) (st : LJoinSt β), (∀ o ∈ os, o.isItem = true) →
      ∀ o ∈ (feedLJoin mode mk inj i st os).2, o.isItem = true := by
  intro os
  induction os with
  | nil => intro st _ o ho; simp [feedLJoin] at ho
  | cons o' os ih =>
    intro st h o ho
    have h' := h o' (by simp)
    simp only [feedLJoin, List.mem_append] at ho
    rcases ho with ho | ho
    · cases o' with
      | item x =>
        cases mode with
        | merge => simp [lJoinNext] at ho; subst ho; rfl
        | combine => simp [lJoinNext] at ho; subst ho; rfl
        | zip =>
          simp only [lJoinNext] at ho
          split at ho
          · simp at ho; subst ho; rfl
          · simp at ho
      | err e => simp [LOut.isItem] at h'
      | fatal e => simp [LOut.isItem] at h'
    · exact ih _ (fun o2 ho2 => h o2 (by simp [ho2])) o ho

def LBranches.AllClean {α β} : LBranches α β → Prop
  | .nil => True
  | .cons L r => CleanOp L ∧ r.AllClean

theorem branches_clean {α β γ} (mode : Join) (mk : List (Option β) → γ) (inj : β → γ) :
    ∀ (b : LBranches α β) (i : Nat) (s : b.St) (j : LJoinSt β) (x : LIn α), b.AllClean →
      (match x with | .err _ => False | _ => True) →
      ∀ o ∈ (LBranches.step mode mk inj b i s j x).2.2, o.isItem = true
  | .nil, _, _, _, _, _, _ => by intro o ho; simp [LBranches.step] at ho
  | .cons L r, i, s, j, x, hc, hx => by
    intro o ho
    simp only [LBranches.step, List.mem_append] at ho
    rcases ho with ho | ho
    · refine feedLJoin_clean mode mk inj i _ _ ?_ o ho
      cases x with
      | item v => exact hc.1.next s.1 v
      | err e => exact hx.elim
      | fin => exact hc.1.fin s.1
    · exact branches_clean mode mk inj r (i + 1) s.2 _ x hc.2 hx o ho

theorem clean_tee {α β γ} (mode : Join) (mk : List (Option β) → γ) (inj : β → γ) (b : LBranches α β) (hb : b.AllClean) :
    CleanOp (localTee mode mk inj b) :=
  ⟨fun s x o ho => branches_clean mode mk inj b 0 s.1 s.2 (.item x) hb trivial o ho,
   fun s o ho => branches_clean mode mk inj b 0 s.1 s.2 .fin hb trivial o ho⟩

/-! ### the syntax of nested pipelines -/

mutual
/-- the stage never turns an item into an error -/
def Stage.Clean : Stage → Prop
  | .prim L _ => CleanOp L
  | .wrap _ _ inner => inner.Clean
  | .tee _ bs => bs.Clean
def Pipe.Clean : Pipe → Prop
  | .nil => True
  | .cons s rest => s.Clean ∧ rest.Clean
def Pipes.Clean : Pipes → Prop
  | .nil => True
  | .cons p rest => p.Clean ∧ rest.Clean
end

mutual
theorem Stage.clean_loc : (s : Stage) → s.Clean → CleanOp s.loc
  | .prim L _, h => h
  | .wrap _ ls inner, h => clean_wrap ls inner.loc (inner.clean_loc h)
  | .tee mode bs, h => clean_tee mode mkTupleV id bs.locBranches (bs.clean_loc h)
theorem Pipe.clean_loc : (P : Pipe) → P.Clean → CleanOp P.loc
  | .nil, _ => clean_id
  | .cons s rest, h => clean_comp s.loc rest.loc (s.clean_loc h.1) (rest.clean_loc h.2)
theorem Pipes.clean_loc : (bs : Pipes) → bs.Clean → bs.locBranches.AllClean
  | .nil, _ => trivial
  | .cons p rest, h => ⟨p.clean_loc h.1, rest.clean_loc h.2⟩
end

mutual
def Stage.Nested : Stage → Prop
  | .prim _ _ => True
  | .wrap sp ls inner => Nonempty (SplitSim sp ls) ∧ inner.Nested
  | .tee _ bs => bs.Nested ∧ 0 < bs.locBranches.length
def Pipe.Nested : Pipe → Prop
  | .nil => True
  | .cons s rest => s.Nested ∧ rest.Nested ∧ (rest.Supported ∨ s.Clean)
def Pipes.Nested : Pipes → Prop
  | .nil => True
  | .cons p rest => p.Nested ∧ rest.Nested
end

mutual
theorem Stage.implN : (s : Stage) → s.Nested → Impl true s.mux s.loc
  | .prim L _, _ => impl_of_implements (lift_implements L) true
  | .wrap sp ls inner, h => by
    obtain ⟨⟨sim⟩, hin⟩ := h
    exact wrap_impl sim inner.mux inner.loc true (inner.implN hin)
  | .tee mode bs, h => by
    obtain ⟨hb, hn⟩ := h
    exact tee_impl mode mkTupleV id true bs.muxBranches bs.locBranches (bs.implN hb) hn
theorem Pipe.implN : (P : Pipe) → P.Nested → Impl true P.mux P.loc
  | .nil, _ => impl_of_implements (lift_implements idLocal) true
  | .cons s rest, h => by
    obtain ⟨hs, hr, hor⟩ := h
    rcases hor with hsup | hcl
    · have := comp_impl s.mux rest.mux s.loc rest.loc true false (s.implN hs)
        (impl_of_implements (rest.implements hsup) false) (fun hb => by simp at hb)
      simp only [Bool.or_false] at this
      exact this
    · have := comp_impl s.mux rest.mux s.loc rest.loc true true (s.implN hs) (rest.implN hr)
        (fun _ => s.clean_loc hcl)
      simp only [Bool.or_self] at this
      exact this
theorem Pipes.implN : (bs : Pipes) → bs.Nested → BImpl true bs.muxBranches bs.locBranches
  | .nil, _ => trivial
  | .cons p rest, h => ⟨p.implN h.1, rest.implN h.2⟩
end

/-- **impl_eq_ref, nested pipelines**: on every clean well-formed trace — any number of keys, any
interleaving, sparse and reused slot indices — the index-addressed implementation of a nested
pipeline (splitters around inner pipelines, `tee_map` around branch pipelines, to any depth) emits,
input event by input event, exactly what the keyed reference semantics emits -/
theorem impl_eq_ref_nested (P : Pipe) (h : P.Nested) (t : List (Ev Val)) (ht : WF t) (hc : CleanTr t) :
    P.mux.run t = (refLift P.loc).run t :=
  P.implN h t ht (fun _ => hc)

/-- flat pipelines are nested pipelines -/
theorem Pipe.nested_of_supported : (P : Pipe) → P.Supported → P.Nested
  | .nil, _ => trivial
  | .cons s rest, h => by
    refine ⟨?_, rest.nested_of_supported h.2, Or.inl h.2⟩
    cases s with
    | prim L P => trivial
    | wrap sp ls inner => exact (h.1).elim
    | tee m bs => exact (h.1).elim

/-! ### the inner trace of a splitter (C03 at the head of every inner pipeline) -/

theorem innerTrace_eq {α} (sp : Splitter α) : ∀ (t : List (Ev α)) (s : sp.S),
    sp.innerTrace s t = ((spRun sp s t).map (·.1)).flatten := by
  intro t
  induction t with
  | nil => intro s; rfl
  | cons e t ih => intro s; simp [Splitter.innerTrace, spRun, ih]

theorem wf_of_closed {α} {t : List (Ev α)} (hc : WFClosed t) : WF t := by
  unfold WF; rw [wfFrom_eq]; unfold WFClosed at hc; rw [hc]; rfl

/-- over a clean well-formed trace a simulated splitter sends a clean well-formed trace into its
inner pipeline, and a closed one when the input is closed -/
theorem split_inner_wf {α} {sp : Splitter α} {ls : LSplit α} (sim : SplitSim sp ls) (t : List (Ev α))
    (ht : WF t) (hc : CleanTr t) :
    WF (sp.innerTrace sp.init t) ∧ CleanTr (sp.innerTrace sp.init t) ∧
      (WFClosed t → WFClosed (sp.innerTrace sp.init t)) := by
  rw [innerTrace_eq]
  have hrel0 : WRel (σ := (idLocal (α := α)).σ) (τ := ls.τ) [] (fun _ _ => none) (fun _ => none) (fun _ => none) :=
    ⟨fun _ hk => by simp at hk, fun _ _ => rfl⟩
  have hok0 : NmOK (fun _ _ => none) := ⟨fun _ _ _ h => by simp at h, fun _ _ _ _ _ _ h => by simp at h⟩
  obtain ⟨⟨l1, n1, s1, w1, hl1, hi1, hw⟩, h2, hf, _⟩ := wrap_sim sim (idLocal (α := α)) t [] sp.init (fun _ _ => none)
    (fun _ => none) (fun _ => none) ht hc.1 List.Pairwise.nil hok0 (by
      have : tauOf (σ := (idLocal (α := α)).σ) (τ := ls.τ) (fun _ => none) = fun _ => none := by funext k; rfl
      rw [this]; exact sim.init) hrel0
  have hIL : IL (fun _ _ => none) = (fun k => k ∈ ([] : List Key)) := by
    funext a; apply propext; simp [IL]
  rw [hIL] at hw
  refine ⟨wfFrom_of_wfR _ [] _ List.Pairwise.nil hw, ⟨h2, hf hc.2⟩, ?_⟩
  intro hcl
  unfold WFClosed at hcl
  rw [hcl] at hl1
  have hl : l1 = [] := (Option.some.inj hl1).symm
  subst hl
  obtain ⟨l', e1, e2⟩ := wfLive_of_wfR _ [] _ List.Pairwise.nil hw
  have : l' = [] := by
    apply List.eq_nil_iff_forall_not_mem.mpr
    intro k hk
    obtain ⟨k0, j0, hn⟩ := (e2 k).mp hk
    rw [sim.dead hi1 k0 (by simp) j0] at hn
    simp at hn
  unfold WFClosed
  rw [e1, this]

end Rx

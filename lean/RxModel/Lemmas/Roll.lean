import RxModel.Spec
/-! Helper lemmas for C05: the ring of `roll` (window ≠ stride) for one parent key.
Invariant `RInv`: slot `o` holds `n0` iff `n0 = j*s` for a window `j` with `j % d = o` that is open
after `|xs|` items; the observer's open list of that slot is `xs.drop n0`; `c` windows are closed. -/
namespace Rx

/-- whether the window started at `n0` closes when item number `n` arrives -/
def closes (w n n0 : Nat) : Bool := n - n0 + 1 == w

/-- slots after the loop -/
theorem deliver_slots {α} (w n : Nat) (x : α) :
    ∀ (f o : Nat) (sl : Slots) (o' : Nat),
      (deliver w n x f o sl).1 o' =
        if o ≤ o' ∧ o' < o + f then
          (match sl o' with
           | some n0 => if n - n0 + 1 = w then none else some n0
           | none => none)
        else sl o' := by
  intro f
  induction f with
  | zero => intro o sl o'; simp [deliver]; intro h1 h2; omega
  | succ f ih =>
    intro o sl o'
    unfold deliver
    cases hs : sl o with
    | none =>
      simp only
      rw [ih]
      by_cases h : o' = o
      · subst h; simp [hs]
      · by_cases h2 : o + 1 ≤ o' ∧ o' < o + 1 + f
        · have : o ≤ o' ∧ o' < o + (f + 1) := by omega
          simp [h2, this]
        · have : ¬ (o ≤ o' ∧ o' < o + (f + 1)) := by omega
          simp [h2, this]
    | some n0 =>
      simp only
      by_cases hc : n - n0 + 1 = w
      · simp only [hc, if_true]
        rw [ih]
        by_cases h : o' = o
        · subst h; simp [hs, hc, upd]
        · by_cases h2 : o + 1 ≤ o' ∧ o' < o + 1 + f
          · have : o ≤ o' ∧ o' < o + (f + 1) := by omega
            simp [h2, this, upd, h]
          · have : ¬ (o ≤ o' ∧ o' < o + (f + 1)) := by omega
            simp [h2, this, upd, h]
      · simp only [hc, if_false]
        rw [ih]
        by_cases h : o' = o
        · subst h; simp [hs, hc]
        · by_cases h2 : o + 1 ≤ o' ∧ o' < o + 1 + f
          · have : o ≤ o' ∧ o' < o + (f + 1) := by omega
            simp [h2, this]
          · have : ¬ (o ≤ o' ∧ o' < o + (f + 1)) := by omega
            simp [h2, this]

def closings {α} (w n : Nat) (x : α) : (f o : Nat) → Slots → (Nat → Option (List α)) → List (List α)
  | 0, _, _, _ => []
  | f+1, o, sl, op =>
    (match sl o with
     | some n0 => if n - n0 + 1 = w then [((op o).map (· ++ [x])).getD []] else []
     | none => []) ++ closings w n x f (o+1) sl op

theorem closings_congr {α} (w n : Nat) (x : α) :
    ∀ (f o : Nat) (sl sl' : Slots) (op op' : Nat → Option (List α)),
      (∀ o', o ≤ o' → o' < o + f → sl o' = sl' o' ∧ op o' = op' o') →
      closings w n x f o sl op = closings w n x f o sl' op' := by
  intro f
  induction f with
  | zero => intros; rfl
  | succ f ih =>
    intro o sl sl' op op' h
    unfold closings
    have h0 := h o (Nat.le_refl _) (by omega)
    rw [h0.1, h0.2]
    congr 1
    apply ih
    intro o' h1 h2
    exact h o' (by omega) (by omega)

theorem obsRun_cons {α} (ob : Obs α) (e : Cmd α) (es : List (Cmd α)) :
    obsRun ob (e :: es) = obsRun (obsStep ob e) es := rfl

/-- effect of the per-item loop on the observer -/
theorem obs_deliver {α} (w n : Nat) (x : α) :
    ∀ (f o : Nat) (sl : Slots) (ob : Obs α),
      (obsRun ob (deliver w n x f o sl).2).closed = ob.closed ++ closings w n x f o sl ob.opn ∧
      ∀ o', (obsRun ob (deliver w n x f o sl).2).opn o' =
        if o ≤ o' ∧ o' < o + f then
          (match sl o' with
           | some n0 => if n - n0 + 1 = w then none else (ob.opn o').map (· ++ [x])
           | none => ob.opn o')
        else ob.opn o' := by
  intro f
  induction f with
  | zero =>
    intro o sl ob
    refine ⟨by simp [deliver, obsRun, closings], ?_⟩
    intro o'; simp [deliver, obsRun]; intro h1 h2; omega
  | succ f ih =>
    intro o sl ob
    unfold deliver
    cases hs : sl o with
    | none =>
      simp only
      obtain ⟨ihc, iho⟩ := ih (o+1) sl ob
      refine ⟨?_, ?_⟩
      · rw [ihc]; simp [closings, hs]
      · intro o'
        rw [iho]
        by_cases h : o' = o
        · subst h; simp [hs]
        · by_cases h2 : o + 1 ≤ o' ∧ o' < o + 1 + f
          · have : o ≤ o' ∧ o' < o + (f + 1) := by omega
            simp [h2, this]
          · have : ¬ (o ≤ o' ∧ o' < o + (f + 1)) := by omega
            simp [h2, this]
    | some n0 =>
      simp only
      by_cases hc : n - n0 + 1 = w
      · simp only [hc, if_true, obsRun_cons]
        obtain ⟨ihc, iho⟩ := ih (o+1) (upd sl o none) (obsStep (obsStep ob (.itm o x)) (.cls o))
        refine ⟨?_, ?_⟩
        · rw [ihc]
          simp only [obsStep, closings, hs, hc, if_true, List.append_assoc]
          congr 1
          simp only [List.singleton_append]
          congr 1
          apply closings_congr
          intro o' h1 h2
          have : o' ≠ o := by omega
          simp [upd, this]
        · intro o'
          rw [iho]
          by_cases h : o' = o
          · subst h; simp [hs, hc, upd, obsStep]
          · by_cases h2 : o + 1 ≤ o' ∧ o' < o + 1 + f
            · have : o ≤ o' ∧ o' < o + (f + 1) := by omega
              simp [h2, this, upd, h, obsStep]
            · have : ¬ (o ≤ o' ∧ o' < o + (f + 1)) := by omega
              simp [h2, this, upd, h, obsStep]
      · simp only [hc, if_false, obsRun_cons]
        obtain ⟨ihc, iho⟩ := ih (o+1) sl (obsStep ob (.itm o x))
        refine ⟨?_, ?_⟩
        · rw [ihc]
          simp only [obsStep, closings, hs, hc, if_false, List.nil_append]
          congr 1
          apply closings_congr
          intro o' h1 h2
          have : o' ≠ o := by omega
          simp [this]
        · intro o'
          rw [iho]
          by_cases h : o' = o
          · subst h; simp [hs, hc, obsStep]; intro h; omega
          · by_cases h2 : o + 1 ≤ o' ∧ o' < o + 1 + f
            · have : o ≤ o' ∧ o' < o + (f + 1) := by omega
              simp [h2, this, h, obsStep]
            · have : ¬ (o ≤ o' ∧ o' < o + (f + 1)) := by omega
              simp [h2, this, h, obsStep]

/-! ### arithmetic of the ring -/

theorem dvd_sub_of_mod_eq (d a b : Nat) (h : a ≤ b) (hm : a % d = b % d) : d ∣ (b - a) := by
  have ha := Nat.div_add_mod a d
  have hb := Nat.div_add_mod b d
  refine ⟨b / d - a / d, ?_⟩
  have hle : a / d ≤ b / d := Nat.div_le_div_right h
  rw [Nat.mul_sub]
  omega

/-- window `j` receives item number `n` -/
def recv (w s n j : Nat) : Prop := j * s ≤ n ∧ n < j * s + w
/-- window `j` is open after `n` items have been consumed -/
def openAt (w s n j : Nat) : Prop := j * s < n ∧ n < j * s + w

theorem mul_sub_split (a b s : Nat) (h : b ≤ a) : a * s = b * s + (a - b) * s := by
  rw [← Nat.add_mul]; congr 1; omega

theorem recv_unique_lt (w s d j1 j2 n : Nat) (hd : w ≤ d * s)
    (h1 : recv w s n j1) (h2 : recv w s n j2) (hm : j1 % d = j2 % d) (h : j1 < j2) : False := by
  unfold recv at h1 h2
  have hsplit := mul_sub_split j2 j1 s (Nat.le_of_lt h)
  have hlt : (j2 - j1) * s < d * s := by omega
  have hlt' : j2 - j1 < d := Nat.lt_of_mul_lt_mul_right hlt
  have hdvd : d ∣ (j2 - j1) := dvd_sub_of_mod_eq d j1 j2 (Nat.le_of_lt h) hm
  have := Nat.le_of_dvd (by omega) hdvd
  omega

theorem recv_unique (w s d j1 j2 n : Nat) (hd : w ≤ d * s)
    (h1 : recv w s n j1) (h2 : recv w s n j2) (hm : j1 % d = j2 % d) : j1 = j2 := by
  rcases Nat.lt_trichotomy j1 j2 with h | h | h
  · exact (recv_unique_lt w s d j1 j2 n hd h1 h2 hm h).elim
  · exact h
  · exact (recv_unique_lt w s d j2 j1 n hd h2 h1 hm.symm h).elim

theorem mul_lt_of_lt (a b s : Nat) (hs : 0 < s) (h : a < b) : a * s + s ≤ b * s := by
  have := mul_sub_split b a s (Nat.le_of_lt h)
  have h1 : 1 ≤ b - a := by omega
  have : 1 * s ≤ (b - a) * s := Nat.mul_le_mul_right s h1
  omega

theorem mul_le_of_le (a b s : Nat) (h : a ≤ b) : a * s ≤ b * s := Nat.mul_le_mul_right s h

/-- count of closed windows advances by exactly the window that completes now -/
theorem cnt_step (w s n c : Nat) (hs : 0 < s)
    (hc : ∀ j, j < c ↔ j * s + w ≤ n) :
    ∀ j, j < (if c * s + w = n + 1 then c + 1 else c) ↔ j * s + w ≤ n + 1 := by
  intro j
  have hcc : ¬ (c * s + w ≤ n) := fun h => Nat.lt_irrefl c ((hc c).mpr h)
  by_cases h : c * s + w = n + 1
  · simp only [h, if_true]
    constructor
    · intro hj
      have : j ≤ c := by omega
      have := mul_le_of_le j c s this
      omega
    · intro hj
      rcases Nat.lt_or_ge j (c+1) with h1 | h1
      · exact h1
      · have := mul_lt_of_lt c j s hs (by omega)
        omega
  · simp only [h, if_false]
    constructor
    · intro hj; have := (hc j).mp hj; omega
    · intro hj
      rcases Nat.lt_or_ge j c with h1 | h1
      · exact h1
      · have := mul_le_of_le c j s h1
        omega

/-- the window that closes at item `n` is window number `c` -/
theorem closing_is_c (w s n c j : Nat) (hs : 0 < s)
    (hc : ∀ j, j < c ↔ j * s + w ≤ n) (hj : j * s + w = n + 1) : j = c := by
  have h1 : ¬ j < c := fun h => by have := (hc j).mp h; omega
  rcases Nat.lt_or_ge c j with h2 | h2
  · have := mul_lt_of_lt c j s hs h2
    have : c * s + w ≤ n := by omega
    exact absurd ((hc c).mpr this) (Nat.lt_irrefl c)
  · omega

theorem closings_none {α} (w n : Nat) (x : α) :
    ∀ (f o : Nat) (sl : Slots) (op : Nat → Option (List α)),
      (∀ o', o ≤ o' → o' < o + f → ∀ n0, sl o' = some n0 → n - n0 + 1 ≠ w) →
      closings w n x f o sl op = [] := by
  intro f
  induction f with
  | zero => intros; rfl
  | succ f ih =>
    intro o sl op h
    unfold closings
    rw [ih (o+1) sl op (fun o' h1 h2 => h o' (by omega) (by omega))]
    cases hs : sl o with
    | none => simp
    | some n0 =>
      have := h o (Nat.le_refl _) (by omega) n0 hs
      simp [this]

theorem closings_one {α} (w n : Nat) (x : α) :
    ∀ (f o : Nat) (sl : Slots) (op : Nat → Option (List α)) (os n0s : Nat),
      o ≤ os → os < o + f → sl os = some n0s → n - n0s + 1 = w →
      (∀ o', o ≤ o' → o' < o + f → o' ≠ os → ∀ n0, sl o' = some n0 → n - n0 + 1 ≠ w) →
      closings w n x f o sl op = [((op os).map (· ++ [x])).getD []] := by
  intro f
  induction f with
  | zero => intro o sl op os n0s h1 h2; omega
  | succ f ih =>
    intro o sl op os n0s h1 h2 hs hc hother
    unfold closings
    by_cases ho : os = o
    · subst ho
      rw [closings_none w n x f (os+1) sl op
        (fun o' a b => hother o' (by omega) (by omega) (by omega))]
      simp [hs, hc]
    · rw [ih (o+1) sl op os n0s (by omega) (by omega) hs hc
        (fun o' a b c => hother o' (by omega) (by omega) c)]
      cases hso : sl o with
      | none => simp
      | some n0 =>
        have := hother o (Nat.le_refl _) (by omega) (fun h => ho h.symm) n0 hso
        simp [this]

/-! ### the invariant -/

structure RInv {α} (w s d : Nat) (xs : List α) (st : Nat × Slots) (ob : Obs α) (c : Nat) : Prop where
  hn : st.1 = xs.length
  slots : ∀ o, o < d → ∀ n0, st.2 o = some n0 ↔ ∃ j, n0 = j * s ∧ j % d = o ∧ openAt w s xs.length j
  outside : ∀ o, d ≤ o → st.2 o = none
  opn : ∀ o, ob.opn o = (st.2 o).map (fun n0 => xs.drop n0)
  cnt : ∀ j, j < c ↔ j * s + w ≤ xs.length
  closed : ob.closed = (List.range c).map (fun j => (xs.drop (j * s)).take w)

theorem inv_init {α} (w s d : Nat) (hw : 0 < w) :
    RInv (α := α) w s d [] (0, fun _ => none) ⟨fun _ => none, []⟩ 0 := by
  refine ⟨rfl, ?_, fun _ _ => rfl, fun _ => rfl, ?_, rfl⟩
  · intro o _ n0
    simp [openAt]
  · intro j; simp; omega

theorem div_mul_of_mod_zero (n s : Nat) (hm : n % s = 0) : n / s * s = n := by
  have := Nat.div_add_mod n s
  rw [Nat.mul_comm] at this
  omega

theorem open_slots {α} (w s d n : Nat) (hs : 0 < s) (hw : 0 < w) (hd0 : 0 < d) (hd : w ≤ d * s)
    (sl : Slots)
    (hsl : ∀ o, o < d → ∀ n0, sl o = some n0 ↔ ∃ j, n0 = j * s ∧ j % d = o ∧ openAt w s n j) :
    ∀ o, o < d → ∀ n0, (openSlot (α := α) s d n sl).1 o = some n0 ↔
      ∃ j, n0 = j * s ∧ j % d = o ∧ recv w s n j := by
  intro o ho n0
  unfold openSlot
  by_cases hm : n % s = 0
  · simp only [hm, if_true]
    have hj0 : n / s * s = n := div_mul_of_mod_zero n s hm
    have hr0 : recv w s n (n / s) := by unfold recv; omega
    by_cases hoo : o = (n / s) % d
    · subst hoo
      simp only [upd, if_true]
      constructor
      · intro h
        have : n = n0 := by simpa using h
        exact ⟨n / s, by omega, rfl, hr0⟩
      · rintro ⟨j, hj, hjm, hjr⟩
        have : j = n / s := recv_unique w s d j (n / s) n hd hjr hr0 hjm
        subst this
        simp; omega
    · simp only [upd, hoo, if_false]
      rw [hsl o ho n0]
      constructor
      · rintro ⟨j, hj, hjm, hjo⟩
        exact ⟨j, hj, hjm, by unfold openAt at hjo; unfold recv; omega⟩
      · rintro ⟨j, hj, hjm, hjr⟩
        refine ⟨j, hj, hjm, ?_⟩
        unfold recv at hjr; unfold openAt
        refine ⟨?_, hjr.2⟩
        rcases Nat.lt_or_ge (j * s) n with h | h
        · exact h
        · exfalso
          have heq : j * s = n / s * s := by omega
          have : j = n / s := Nat.eq_of_mul_eq_mul_right hs heq
          exact hoo (by rw [← hjm, this])
  · simp only [hm, if_false]
    rw [hsl o ho n0]
    constructor
    · rintro ⟨j, hj, hjm, hjo⟩
      exact ⟨j, hj, hjm, by unfold openAt at hjo; unfold recv; omega⟩
    · rintro ⟨j, hj, hjm, hjr⟩
      refine ⟨j, hj, hjm, ?_⟩
      unfold recv at hjr; unfold openAt
      refine ⟨?_, hjr.2⟩
      rcases Nat.lt_or_ge (j * s) n with h | h
      · exact h
      · exfalso
        have heq : j * s = n := by omega
        exact hm (by rw [← heq]; exact Nat.mul_mod_left j s)

theorem take_drop_stable {α} (xs : List α) (x : α) (a w : Nat) (h : a + w ≤ xs.length) :
    ((xs ++ [x]).drop a).take w = (xs.drop a).take w := by
  rw [List.drop_append_of_le_length (by omega)]
  rw [List.take_append_of_le_length (by simp; omega)]

theorem take_drop_last {α} (xs : List α) (x : α) (a w : Nat) (h : a + w = xs.length + 1) (hw : 0 < w) :
    ((xs ++ [x]).drop a).take w = xs.drop a ++ [x] := by
  rw [List.drop_append_of_le_length (by omega)]
  apply List.take_of_length_le
  simp; omega

theorem inv_step {α} (w s d : Nat) (hs : 0 < s) (hw : 0 < w) (hd0 : 0 < d) (hd : w ≤ d * s)
    (xs : List α) (st : Nat × Slots) (ob : Obs α) (c : Nat) (x : α)
    (h : RInv w s d xs st ob c) :
    RInv w s d (xs ++ [x]) (rollItem w s d st x).1 (obsRun ob (rollItem w s d st x).2)
      (if c * s + w = xs.length + 1 then c + 1 else c) := by
  obtain ⟨n, sl⟩ := st
  obtain ⟨hn, hsl, hout, hopn, hcnt, hclosed⟩ := h
  simp only at hn hsl hout hopn
  subst hn
  -- state after opening
  have hS1 := open_slots (α := α) w s d xs.length hs hw hd0 hd sl hsl
  have hout1 : ∀ o, d ≤ o → (openSlot (α := α) s d xs.length sl).1 o = none := by
    intro o ho
    unfold openSlot
    by_cases hm : xs.length % s = 0
    · have : (xs.length / s) % d < d := Nat.mod_lt _ hd0
      have hne : o ≠ (xs.length / s) % d := by omega
      simp [hm, upd, hne, hout o ho]
    · simp [hm, hout o ho]
  have hob1 : ∀ o, (obsRun ob (openSlot (α := α) s d xs.length sl).2).opn o =
      ((openSlot (α := α) s d xs.length sl).1 o).map (fun n0 => xs.drop n0) ∧
      (obsRun ob (openSlot (α := α) s d xs.length sl).2).closed = ob.closed := by
    intro o
    unfold openSlot
    by_cases hm : xs.length % s = 0
    · simp only [hm, if_true, obsRun, List.foldl, obsStep]
      refine ⟨?_, by first | rfl | trivial⟩
      by_cases ho : o = (xs.length / s) % d
      · subst ho; simp [upd]
      · simp [upd, ho, hopn o]
    · simp [hm, obsRun, hopn o]
  -- abbreviations
  generalize hsl1 : (openSlot (α := α) s d xs.length sl).1 = sl1 at hS1 hout1 hob1
  generalize hev1 : (openSlot (α := α) s d xs.length sl).2 = ev1 at hob1
  have hstep : rollItem w s d (xs.length, sl) x =
      ((xs.length + 1, (deliver w xs.length x d 0 sl1).1), ev1 ++ (deliver w xs.length x d 0 sl1).2) := by
    simp [rollItem, hsl1, hev1]
  rw [hstep]
  have hrun : obsRun ob (ev1 ++ (deliver w xs.length x d 0 sl1).2) =
      obsRun (obsRun ob ev1) (deliver w xs.length x d 0 sl1).2 := by
    simp [obsRun, List.foldl_append]
  rw [hrun]
  obtain ⟨hcl, hop⟩ := obs_deliver w xs.length x d 0 sl1 (obsRun ob ev1)
  have hsl' := deliver_slots w xs.length x d 0 sl1
  -- facts about slots that are set after opening
  have hle : ∀ o, o < d → ∀ n0, sl1 o = some n0 → n0 ≤ xs.length := by
    intro o ho n0 h0
    obtain ⟨j, hj, _, hr⟩ := (hS1 o ho n0).mp h0
    unfold recv at hr; omega
  refine ⟨by simp, ?_, ?_, ?_, ?_, ?_⟩
  · -- slots
    intro o ho n0
    simp only [List.length_append, List.length_singleton]
    rw [hsl' o]
    have hin : 0 ≤ o ∧ o < 0 + d := by omega
    simp only [hin, and_self, if_true]
    constructor
    · intro h0
      cases h1 : sl1 o with
      | none => simp [h1] at h0
      | some m =>
        simp only [h1] at h0
        by_cases hc : xs.length - m + 1 = w
        · simp [hc] at h0
        · simp only [hc, if_false] at h0
          have : m = n0 := by simpa using h0
          subst this
          obtain ⟨j, hj, hjm, hr⟩ := (hS1 o ho m).mp h1
          refine ⟨j, hj, hjm, ?_⟩
          unfold recv at hr; unfold openAt
          omega
    · rintro ⟨j, hj, hjm, hjo⟩
      unfold openAt at hjo
      have hr : recv w s xs.length j := by unfold recv; omega
      have h1 : sl1 o = some n0 := (hS1 o ho n0).mpr ⟨j, hj, hjm, hr⟩
      have hc : ¬ (xs.length - n0 + 1 = w) := by omega
      simp [h1, hc]
  · -- outside
    intro o ho
    dsimp only
    rw [hsl' o]
    have : ¬ (0 ≤ o ∧ o < 0 + d) := by omega
    simp [this, hout1 o ho]
  · -- open lists
    intro o
    dsimp only
    rw [hop o, hsl' o]
    by_cases hin : 0 ≤ o ∧ o < 0 + d
    · have ho : o < d := by omega
      simp only [hin, and_self, if_true]
      cases h1 : sl1 o with
      | none => simp [(hob1 o).1, h1]
      | some m =>
        by_cases hc : xs.length - m + 1 = w
        · simp [hc]
        · have hm := hle o ho m h1
          simp only [hc, if_false, (hob1 o).1, h1, Option.map_some]
          rw [List.drop_append_of_le_length hm]
    · simp only [hin, if_false, (hob1 o).1, hout1 o (by omega), Option.map_none]
  · -- count
    simp only [List.length_append, List.length_singleton]
    exact cnt_step w s xs.length c hs hcnt
  · -- closed list
    rw [hcl, (hob1 0).2, hclosed]
    have hold : (List.range c).map (fun j => (xs.drop (j * s)).take w) =
        (List.range c).map (fun j => ((xs ++ [x]).drop (j * s)).take w) := by
      apply List.map_congr_left
      intro j hj
      have := (hcnt j).mp (List.mem_range.mp hj)
      exact (take_drop_stable xs x (j * s) w this).symm
    by_cases hc : c * s + w = xs.length + 1
    · simp only [hc, if_true]
      have hrc : recv w s xs.length c := by unfold recv; omega
      have hos : c % d < d := Nat.mod_lt _ hd0
      have h1 : sl1 (c % d) = some (c * s) := (hS1 _ hos _).mpr ⟨c, rfl, rfl, hrc⟩
      rw [closings_one w xs.length x d 0 sl1 _ (c % d) (c * s) (by omega) (by omega) h1 (by omega)]
      · rw [(hob1 (c % d)).1, h1]
        simp only [Option.map_some, Option.getD_some]
        rw [List.range_succ, List.map_append, hold]
        simp only [List.map_singleton]
        rw [take_drop_last xs x (c * s) w hc hw]
      · intro o' _ ho' hne n0 h0 hcl0
        obtain ⟨j, hj, hjm, hr⟩ := (hS1 o' (by omega) n0).mp h0
        have hn0 := hle o' (by omega) n0 h0
        have : j = c := closing_is_c w s xs.length c j hs hcnt (by omega)
        subst this
        exact hne hjm.symm
    · simp only [hc, if_false]
      rw [closings_none w xs.length x d 0 sl1 _ ?_, List.append_nil, hold]
      intro o' _ ho' n0 h0 hcl0
      obtain ⟨j, hj, hjm, hr⟩ := (hS1 o' (by omega) n0).mp h0
      have hn0 := hle o' (by omega) n0 h0
      have : j = c := closing_is_c w s xs.length c j hs hcnt (by omega)
      subst this
      omega

/-- density = ⌈w/s⌉ slots suffice: density * s ≥ w -/
theorem density_mul (w s : Nat) (hs : 0 < s) : w ≤ density w s * s := by
  unfold density
  have h := Nat.div_add_mod w s
  have h2 := Nat.mod_lt w hs
  have hc : s * (w / s) = (w / s) * s := Nat.mul_comm _ _
  by_cases hm : w % s = 0
  · simp only [hm, if_true, Nat.add_zero]; omega
  · simp only [hm, if_false, Nat.add_mul, Nat.one_mul]; omega

theorem density_pos (w s : Nat) (hs : 0 < s) (hw : 0 < w) : 0 < density w s := by
  have := density_mul w s hs
  rcases Nat.eq_zero_or_pos (density w s) with h | h
  · rw [h] at this; omega
  · exact h

/-- the invariant is preserved along any run of the ring splitter of one parent key -/
theorem runObs_inv {α} (w s : Nat) (hs : 0 < s) (hw : 0 < w) :
    ∀ (xs pre : List α) (st : Nat × Slots) (ob : Obs α) (c : Nat),
      RInv w s (density w s) pre st ob c →
      ∃ c', RInv w s (density w s) (pre ++ xs)
        ((rollRingLS w s).runObs (st, ob) xs).1 ((rollRingLS w s).runObs (st, ob) xs).2 c' := by
  intro xs
  induction xs with
  | nil => intro pre st ob c h; exact ⟨c, by simpa [LSplit.runObs, runObsRaw] using h⟩
  | cons x xs ih =>
    intro pre st ob c h
    have h1 := inv_step w s (density w s) hs hw (density_pos w s hs hw) (density_mul w s hs) pre st ob c x h
    obtain ⟨c', h2⟩ := ih (pre ++ [x]) _ _ _ h1
    refine ⟨c', ?_⟩
    simpa [LSplit.runObs, runObsRaw, rollRingLS, List.append_assoc] using h2

end Rx

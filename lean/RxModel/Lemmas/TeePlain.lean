import RxModel.Lemmas.Nested
import RxModel.Lemmas.PlainSim
/-!
# `tee_map` on a plain observable = `tee_map` per key (C08, "identically on plain observables")

For branches that never complete early and never raise (every composition of map / filter / scan /
aggregates / … with total user functions: `CleanOp`), the plain implementation
(`_process_many.subscribe`: per-subscription lists `queue`, `has_next`, `is_done`) emits, item by
item and at completion, exactly what the keyed implementation emits for one key (`localTee`).
The only difference in state — plain `zip` does not clear the queue after a tuple, the keyed one
does — is invisible: a slot is read only while its `has_next` flag is set.
-/
set_option linter.unusedSimpArgs false
set_option linter.unusedVariables false
namespace Rx

def plainBranches {α β} : LBranches α β → PBranches α β
  | .nil => .nil
  | .cons L r => .cons (PlainOp.ofLocal L) (plainBranches r)

theorem plainBranches_length {α β} : ∀ (lb : LBranches α β), (plainBranches lb).length = lb.length
  | .nil => rfl
  | .cons _ r => by simp [plainBranches, PBranches.length, LBranches.length, plainBranches_length r]

/-- plain branch states = local branch states, nothing is done -/
def PSRel {α β} : (lb : LBranches α β) → (plainBranches lb).St → lb.St → Prop
  | .nil, _, _ => True
  | .cons L r, ps, ls => ps.1.1 = ls.1 ∧ ps.1.2 = false ∧ PSRel r ps.2 ls.2

/-- join states: same flags; the queues agree wherever a flag is set (zip) or everywhere -/
structure PJRel {β} (mode : Join) (pj : PJoinSt β) (lj : LJoinSt β) : Prop where
  has : pj.has = lj.has
  len : pj.queue.length = lj.queue.length
  hlen : lj.has.length = lj.queue.length
  q : if mode = .zip then ∀ i, lj.has.getD i false = true → pj.queue.getD i none = lj.queue.getD i none
      else pj.queue = lj.queue

theorem getD_set {α} (l : List α) (i j : Nat) (v d : α) :
    (l.set i v).getD j d = if i = j ∧ j < l.length then v else l.getD j d := by
  simp only [List.getD_eq_getElem?_getD, List.getElem?_set]
  by_cases h : i = j
  · subst h
    by_cases hl : i < l.length <;> simp [hl]
  · simp [h]

theorem all_getD (l : List Bool) (h : l.all id = true) (i : Nat) (hi : i < l.length) : l.getD i false = true := by
  have : l[i] ∈ l := List.getElem_mem hi
  have := (List.all_eq_true.mp h) _ this
  simpa [List.getD_eq_getElem?_getD, hi] using this

theorem getD_map_false (l : List Bool) (j : Nat) : (l.map (fun _ => false)).getD j false = false := by
  simp only [List.getD_eq_getElem?_getD, List.getElem?_map]
  cases l[j]? <;> rfl

theorem pjoin_item {β γ} (mode : Join) (mk : List (Option β) → γ) (inj : β → γ) (i : Nat) (x : β)
    (pj : PJoinSt β) (lj : LJoinSt β) (h : PJRel mode pj lj) :
    (pJoinNext mode mk inj pj i x).2 = (lJoinNext mode mk inj lj i (.item x)).2 ∧
    PJRel mode (pJoinNext mode mk inj pj i x).1 (lJoinNext mode mk inj lj i (.item x)).1 := by
  obtain ⟨hh, hl, hhl, hq⟩ := h
  cases mode with
  | merge => exact ⟨rfl, ⟨hh, hl, hhl, hq⟩⟩
  | combine =>
    simp only [reduceCtorEq, if_false] at hq
    simp only [pJoinNext, lJoinNext, hh, hq]
    exact ⟨trivial, ⟨rfl, rfl, by simp [hhl], by simp⟩⟩
  | zip =>
    simp only [if_true] at hq
    simp only [pJoinNext, lJoinNext, hh]
    by_cases hall : (lj.has.set i true).all id = true
    · simp only [hall, if_true]
      have hqeq : pj.queue.set i (some x) = lj.queue.set i (some x) := by
        apply List.ext_getElem
        · simp [hl]
        · intro m h1 h2
          have hm : m < lj.queue.length := by simpa using h2
          have hm' : m < (lj.has.set i true).length := by simp [hhl, hm]
          have hflag := all_getD _ hall m hm'
          rw [getD_set] at hflag
          by_cases him : i = m
          · subst him; simp
          · have hf : lj.has.getD m false = true := by simpa [him] using hflag
            have := hq m hf
            simp only [List.getD_eq_getElem?_getD] at this
            simp only [List.getElem_set, him, if_false]
            have h1' : m < pj.queue.length := by rw [hl]; exact hm
            simpa [List.getElem?_eq_getElem h1', List.getElem?_eq_getElem hm] using this
      refine ⟨by rw [hqeq], ⟨rfl, by simp [hl], by simp [hhl], ?_⟩⟩
      simp only [if_true]
      intro j hj
      rw [getD_map_false] at hj
      cases hj
    · simp only [hall, Bool.false_eq_true, if_false]
      refine ⟨trivial, ⟨rfl, by simp [hl], by simp [hhl], ?_⟩⟩
      simp only [if_true]
      intro j hj
      rw [getD_set] at hj
      rw [getD_set, getD_set]
      by_cases hij : i = j
      · subst hij
        by_cases hlt : i < lj.queue.length
        · have : i < pj.queue.length := by rw [hl]; exact hlt
          simp [hlt, this]
        · have h1 : ¬ i < pj.queue.length := by rw [hl]; exact hlt
          have h2 : ¬ i < lj.has.length := by rw [hhl]; exact hlt
          simp only [h2, and_false, if_false] at hj
          simp only [hlt, h1, and_false, if_false]
          exact hq i hj
      · simp only [hij, false_and, if_false] at hj ⊢
        exact hq j hj

theorem feedP_items {β γ} (mode : Join) (mk : List (Option β) → γ) (inj : β → γ) (i : Nat) :
    ∀ (outs : List (LOut β)) (pj : PJoinSt β) (lj : LJoinSt β), (∀ o ∈ outs, o.isItem = true) → PJRel mode pj lj →
      (feedPJoin mode mk inj i pj outs).2 = (feedLJoin mode mk inj i lj outs).2 ∧
      PJRel mode (feedPJoin mode mk inj i pj outs).1 (feedLJoin mode mk inj i lj outs).1 := by
  intro outs
  induction outs with
  | nil => intro pj lj _ h; exact ⟨rfl, h⟩
  | cons o os ih =>
    intro pj lj hi h
    have ho := hi o (by simp)
    cases o with
    | item x =>
      obtain ⟨a1, a2⟩ := pjoin_item mode mk inj i x pj lj h
      obtain ⟨b1, b2⟩ := ih _ _ (fun o' ho' => hi o' (by simp [ho'])) a2
      simp only [feedPJoin, feedLJoin]
      exact ⟨by rw [a1, b1], b2⟩
    | err e => simp [LOut.isItem] at ho
    | fatal e => simp [LOut.isItem] at ho

/-- one item (or the completion) through all branches -/
theorem pbranches_step {α β γ} (mode : Join) (mk : List (Option β) → γ) (inj : β → γ) (x : Option α) :
    ∀ (lb : LBranches α β) (i : Nat) (ps : (plainBranches lb).St) (ls : lb.St) (pj : PJoinSt β) (lj : LJoinSt β),
      lb.AllClean → PSRel lb ps ls → PJRel mode pj lj →
      let R := PBranches.step mode mk inj (plainBranches lb) i ps pj x
      let Lr := LBranches.step mode mk inj lb i ls lj (match x with | some v => LIn.item v | none => LIn.fin)
      R.2.2 = Lr.2.2 ∧ PJRel mode R.2.1 Lr.2.1 ∧
        (match x with | some _ => PSRel lb R.1 Lr.1 | none => True)
  | .nil, _, _, _, pj, lj, _, _, hj => by
    cases x <;> exact ⟨rfl, hj, trivial⟩
  | .cons L r, i, ps, ls, pj, lj, hc, hs, hj => by
    obtain ⟨h1, h2, h3⟩ := hs
    cases x with
    | some v =>
      have hitems := hc.1.next ls.1 v
      simp only [plainBranches, PBranches.step, h2, Bool.false_eq_true, if_false, PlainOp.ofLocal, LBranches.step, h1]
      obtain ⟨f1, f2⟩ := feedP_items mode mk inj i (L.next ls.1 v).2 pj lj hitems hj
      obtain ⟨g1, g2, g3⟩ := pbranches_step mode mk inj (some v) r (i + 1) ps.2 ls.2 _ _ hc.2 h3 f2
      exact ⟨by rw [f1, g1], g2, ⟨rfl, rfl, g3⟩⟩
    | none =>
      have hitems := hc.1.fin ls.1
      simp only [plainBranches, PBranches.step, h2, Bool.false_eq_true, if_false, PlainOp.ofLocal, LBranches.step, h1]
      obtain ⟨f1, f2⟩ := feedP_items mode mk inj i (L.fin ls.1) pj lj hitems hj
      obtain ⟨g1, g2, _⟩ := pbranches_step mode mk inj none r (i + 1) ps.2 ls.2 _ _ hc.2 h3 f2
      exact ⟨by rw [f1, g1], g2, trivial⟩

theorem psRel_allDone {α β} : ∀ (lb : LBranches α β) (ps : (plainBranches lb).St) (ls : lb.St),
    0 < lb.length → PSRel lb ps ls → (plainBranches lb).allDone ps = false
  | .nil, _, _, h, _ => by simp [LBranches.length] at h
  | .cons L r, ps, ls, _, hs => by simp [plainBranches, PBranches.allDone, hs.2.1]

theorem psRel_init {α β} : ∀ (lb : LBranches α β), PSRel lb (plainBranches lb).init lb.init
  | .nil => trivial
  | .cons L r => ⟨rfl, rfl, psRel_init r⟩

theorem startOuts_ofLocal {α β γ} (mode : Join) (mk : List (Option β) → γ) (inj : β → γ) :
    ∀ (lb : LBranches α β) (i : Nat) (j : PJoinSt β), PBranches.startOuts mode mk inj (plainBranches lb) i j = (j, [])
  | .nil, _, _ => rfl
  | .cons L r, i, j => by
    simp only [plainBranches, PBranches.startOuts, PlainOp.ofLocal, feedPJoin, List.nil_append]
    exact startOuts_ofLocal mode mk inj r (i + 1) j

theorem hasFatal_items {β} (l : List (LOut β)) (h : ∀ o ∈ l, o.isItem = true) : hasFatal l = false := by
  induction l with
  | nil => rfl
  | cons o l ih =>
    have ho := h o (by simp)
    cases o with
    | item b => simp [ih (fun o' ho' => h o' (by simp [ho']))]
    | err e => simp [LOut.isItem] at ho
    | fatal e => simp [LOut.isItem] at ho

/-- **plain tee_map = keyed tee_map, chunk by chunk** (clean, non-completing branches, ≥ 1 branch) -/
theorem tee_plain_run {α β γ} (mode : Join) (mk : List (Option β) → γ) (inj : β → γ) (lb : LBranches α β)
    (hc : lb.AllClean) (hn : 0 < lb.length) :
    ∀ (xs : List α) (ps : (plainBranches lb).St) (ls : lb.St) (pj : PJoinSt β) (lj : LJoinSt β),
      PSRel lb ps ls → PJRel mode pj lj →
      (teePlain mode mk inj (plainBranches lb)).runP (ps, pj) xs = (localTee mode mk inj lb).runL (ls, lj) xs := by
  intro xs
  induction xs with
  | nil =>
    intro ps ls pj lj hs hj
    obtain ⟨g1, _, _⟩ := pbranches_step mode mk inj none lb 0 ps ls pj lj hc hs hj
    simp only [PlainOp.runP, LocalOp.runL, runRaw, teePlain, localTee]
    rw [g1]
  | cons x xs ih =>
    intro ps ls pj lj hs hj
    obtain ⟨g1, g2, g3⟩ := pbranches_step mode mk inj (some x) lb 0 ps ls pj lj hc hs hj
    have hclean := clean_tee mode mk inj lb hc
    have hitems : ∀ o ∈ (LBranches.step mode mk inj lb 0 ls lj (.item x)).2.2, o.isItem = true :=
      fun o ho => hclean.next (ls, lj) x o ho
    have hnf : hasFatal (PBranches.step mode mk inj (plainBranches lb) 0 ps pj (some x)).2.2 = false := by
      rw [g1]; exact hasFatal_items _ hitems
    have hdone := psRel_allDone lb _ _ hn g3
    have hstop : stopsP ((teePlain mode mk inj (plainBranches lb)).next (ps, pj) x).2 = false := by
      simp only [teePlain, stopsP_eq, hdone, hnf, Bool.or_self]
    have hnext := ih _ _ _ _ g3 g2
    simp only [PlainOp.runP, hstop, Bool.false_eq_true, if_false, LocalOp.runL, runRaw]
    simp only [teePlain, localTee] at hnext ⊢
    rw [g1]
    simp only [LocalOp.runL] at hnext
    rw [hnext]

end Rx

import RxModel.Lemmas.Wrap
import RxModel.LSplit
/-!
# `SplitSim` for the sequential splitters (`split`, `time_split`, tumbling `roll`)

The three splitters keep, per parent slot, exactly the state of their local description, use the
single local id 0, and name the open inner lifetime of parent `k` by `ik k = (k[0], k)`.  The generic
lemma `seqSim` turns that shape into a `SplitSim`; each splitter then only has to show that its
`on_next` handler, branch by branch, is its local description.
-/
namespace Rx

def fixEv {α} (k : Key) : Cmd α → Ev α
  | .opn _ => .create (ik k)
  | .itm _ x => .next (ik k) x
  | .cls _ => .done (ik k)

/-- a command list over the single local id 0 that respects open/closed alternation -/
inductive SeqOK {α} : Bool → List (Cmd α) → Bool → Prop
  | nil (b) : SeqOK b [] b
  | opn (cs b) : SeqOK true cs b → SeqOK false (.opn 0 :: cs) b
  | itm (x cs b) : SeqOK true cs b → SeqOK true (.itm 0 x :: cs) b
  | cls (cs b) : SeqOK false cs b → SeqOK true (.cls 0 :: cs) b

def seqNm (k : Key) (b : Bool) : Nat → Option Key := fun j => if j = 0 ∧ b = true then some (ik k) else none

theorem ik_idx (k : Key) : (ik k).idx = k.idx := rfl

theorem seq_tr {α} {k : Key} {b b' : Bool} {cmds : List (Cmd α)} (h : SeqOK b cmds b') :
    ∀ (nm : Naming), nm k = seqNm k b → (∀ k2 j2 c, nm k2 j2 = some c → k2 ≠ k → c.idx ≠ k.idx) →
      ∃ nm', Tr k nm cmds (cmds.map (fixEv k)) nm' ∧ nm' k = seqNm k b' ∧ (∀ k2, k2 ≠ k → nm' k2 = nm k2) := by
  induction h with
  | nil b => intro nm h1 _; exact ⟨nm, .nil _, h1, fun _ _ => rfl⟩
  | opn cs b _ ih =>
    intro nm h1 h2
    have hk0 : nm k 0 = none := by rw [h1]; simp [seqNm]
    have hfresh : ∀ k2 j2 c, nm k2 j2 = some c → c.idx ≠ (ik k).idx := by
      intro k2 j2 c hc
      by_cases hk : k2 = k
      · subst hk; rw [h1] at hc; simp [seqNm] at hc
      · exact h2 k2 j2 c hc hk
    obtain ⟨nm', t1, t2, t3⟩ := ih (updNm nm k 0 (some (ik k)))
      (by funext j; by_cases hj : j = 0
          · subst hj; simp [updNm, seqNm]
          · have : nm k j = none := by rw [h1]; simp [seqNm, hj]
            simp [updNm, seqNm, hj, this])
      (by intro k2 j2 c hc hk; simp only [updNm, hk, false_and, if_false] at hc; exact h2 k2 j2 c hc hk)
    refine ⟨nm', ?_, t2, ?_⟩
    · exact .opn nm 0 (ik k) _ _ nm' hk0 hfresh ⟨k.idx, rfl⟩ t1
    · intro k2 hk; rw [t3 k2 hk]; funext j2; simp [updNm, hk]
  | itm x cs b _ ih =>
    intro nm h1 h2
    obtain ⟨nm', t1, t2, t3⟩ := ih nm h1 h2
    exact ⟨nm', .itm nm 0 (ik k) x _ _ nm' (by rw [h1]; simp [seqNm]) t1, t2, t3⟩
  | cls cs b _ ih =>
    intro nm h1 h2
    obtain ⟨nm', t1, t2, t3⟩ := ih (updNm nm k 0 none)
      (by funext j; by_cases hj : j = 0
          · subst hj; simp [updNm, seqNm]
          · have : nm k j = none := by rw [h1]; simp [seqNm, hj]
            simp [updNm, seqNm, hj, this])
      (by intro k2 j2 c hc hk; simp only [updNm, hk, false_and, if_false] at hc; exact h2 k2 j2 c hc hk)
    refine ⟨nm', .cls nm 0 (ik k) _ _ nm' (by rw [h1]; simp [seqNm]) t1, t2, ?_⟩
    intro k2 hk; rw [t3 k2 hk]; funext j2; simp [updNm, hk]

/-- invariant of the sequential splitters -/
def SeqInv {τ : Type} (opn : τ → Bool) (live : List Key) (s : Nat → Option τ) (T : Key → Option τ) (nm : Naming) : Prop :=
  (∀ k ∈ live, ∃ t, s k.idx = some t ∧ T k = some t ∧ nm k = seqNm k (opn t)) ∧
  (∀ k, k ∉ live → ∀ j, nm k j = none)

theorem seqInv_fresh {τ : Type} {opn : τ → Bool} {live : List Key} {s : Nat → Option τ} {T : Key → Option τ}
    {nm : Naming} (h : SeqInv opn live s T nm) (hd : IdxDistinct live) (k : Key) (hk : k ∈ live) :
    ∀ k2 j2 c, nm k2 j2 = some c → k2 ≠ k → c.idx ≠ k.idx := by
  intro k2 j2 c hc hne
  by_cases hk2 : k2 ∈ live
  · obtain ⟨t, _, _, h3⟩ := h.1 k2 hk2
    rw [h3] at hc
    unfold seqNm at hc
    split at hc
    · have : c = ik k2 := (Option.some.inj hc).symm
      rw [this, ik_idx]
      exact pairwise_idx_distinct live hd k2 hk2 k hk hne
    · simp at hc
  · rw [h.2 k2 hk2 j2] at hc; simp at hc

def seqSim {α} (ls : LSplit α) (opn : ls.τ → Bool)
    (step : (Nat → Option ls.τ) → Ev α → (Nat → Option ls.τ) × List (Ev α) × List OEv)
    (hinit : opn ls.init = false)
    (hcreate : ∀ s k, step s (.create k) = (upd s k.idx (some ls.init), [], [.create k]))
    (hnext : ∀ s k x t, s k.idx = some t →
      step s (.next k x) = (upd s k.idx (some (ls.next t x).1), (ls.next t x).2.map (fixEv k), []) ∧
      SeqOK (opn t) (ls.next t x).2 (opn (ls.next t x).1))
    (hdone : ∀ s k t, s k.idx = some t →
      (step s (.done k)).2 = ((ls.fin t).map (fixEv k), [.done k]) ∧ SeqOK (opn t) (ls.fin t) false ∧
      ((step s (.done k)).1 = s ∨ (step s (.done k)).1 = upd s k.idx none))
    (hfatal : ∀ s e, step s (.fatal e) = (s, [.fatal e], [])) :
    SplitSim ⟨Nat → Option ls.τ, fun _ => none, step⟩ ls where
  Inv := SeqInv opn
  init := ⟨fun _ hk => by simp at hk, fun _ _ _ => rfl⟩
  dead := fun h k hk j => h.2 k hk j
  fatal := hfatal
  create := by
    intro live s T nm k hinv hd _ hany
    refine ⟨by simp [hcreate], ?_⟩
    have hfresh : ∀ k' ∈ live, k'.idx ≠ k.idx := by
      intro k' hk' heq
      have : (live.any fun k' => k'.idx == k.idx) = true := by
        simp only [List.any_eq_true]; exact ⟨k', hk', by simp [heq]⟩
      simp [this] at hany
    have hknot : k ∉ live := fun h => hfresh k h rfl
    show SeqInv opn (k :: live) (step s (.create k)).1 _ nm
    rw [hcreate]
    refine ⟨?_, ?_⟩
    · intro k0 hk0
      rcases List.mem_cons.mp hk0 with rfl | hk0
      · refine ⟨ls.init, by simp [upd], by simp [upd], ?_⟩
        funext j; rw [hinv.2 k0 hknot j]; simp [seqNm, hinit]
      · obtain ⟨t, g1, g2, g3⟩ := hinv.1 k0 hk0
        have h0 : k0 ≠ k := fun h => hknot (h ▸ hk0)
        exact ⟨t, by simp [upd, hfresh k0 hk0, g1], by simp [upd, h0, g2], g3⟩
    · intro k0 hk0 j
      exact hinv.2 k0 (fun h => hk0 (List.mem_cons_of_mem _ h)) j
  next := by
    intro live s T nm k x hinv hd _ hk
    obtain ⟨t, g1, g2, g3⟩ := hinv.1 k hk
    obtain ⟨e1, e2⟩ := hnext s k x t g1
    obtain ⟨nm', t1, t2, t3⟩ := seq_tr e2 nm g3 (seqInv_fresh hinv hd k hk)
    refine ⟨t, g2, nm', ?_, ?_, ?_⟩
    · show Tr k nm _ (step s (.next k x)).2.1 nm'
      rw [e1]; exact t1
    · show (step s (.next k x)).2.2 = []
      rw [e1]
    · show SeqInv opn live (step s (.next k x)).1 _ nm'
      rw [e1]
      refine ⟨?_, ?_⟩
      · intro k0 hk0
        by_cases h0 : k0 = k
        · subst h0; exact ⟨(ls.next t x).1, by simp [upd], by simp [upd], t2⟩
        · obtain ⟨t0, f1, f2, f3⟩ := hinv.1 k0 hk0
          have hidx : k0.idx ≠ k.idx := pairwise_idx_distinct live hd k0 hk0 k hk h0
          exact ⟨t0, by simp [upd, hidx, f1], by simp [upd, h0, f2], by rw [t3 k0 h0]; exact f3⟩
      · intro k0 hk0 j
        have h0 : k0 ≠ k := fun h => hk0 (h ▸ hk)
        rw [t3 k0 h0]; exact hinv.2 k0 hk0 j
  done := by
    intro live s T nm k hinv hd _ hk
    obtain ⟨t, g1, g2, g3⟩ := hinv.1 k hk
    obtain ⟨e1, e2, e3⟩ := hdone s k t g1
    obtain ⟨nm', t1, t2, t3⟩ := seq_tr e2 nm g3 (seqInv_fresh hinv hd k hk)
    have hmem_erase : ∀ k0, k0 ∈ live.erase k ↔ k0 ≠ k ∧ k0 ∈ live := fun k0 => hd.nodup.mem_erase_iff
    refine ⟨t, g2, nm', ?_, ?_, ?_⟩
    · show Tr k nm _ (step s (.done k)).2.1 nm'
      rw [e1]; exact t1
    · show (step s (.done k)).2.2 = [.done k]
      rw [e1]
    · show SeqInv opn (live.erase k) (step s (.done k)).1 _ nm'
      refine ⟨?_, ?_⟩
      · intro k0 hk0
        obtain ⟨h0, hk0'⟩ := (hmem_erase k0).mp hk0
        obtain ⟨t0, f1, f2, f3⟩ := hinv.1 k0 hk0'
        have hidx : k0.idx ≠ k.idx := pairwise_idx_distinct live hd k0 hk0' k hk h0
        refine ⟨t0, ?_, by simp [upd, h0, f2], by rw [t3 k0 h0]; exact f3⟩
        rcases e3 with e3 | e3
        · rw [e3]; exact f1
        · rw [e3]; simp [upd, hidx, f1]
      · intro k0 hk0 j
        by_cases h0 : k0 = k
        · subst h0; rw [t2]; simp [seqNm]
        · have hn : k0 ∉ live := fun h => hk0 ((hmem_erase k0).mpr ⟨h0, h⟩)
          rw [t3 k0 h0]; exact hinv.2 k0 hn j

/-! ## split -/

def splitSim {α κ} [DecidableEq κ] (p : α → κ) : SplitSim (splitSp p) (splitLS p) :=
  seqSim (splitLS p) (fun t => t.isSome) (splitStep p) rfl (fun _ _ => rfl)
    (by
      intro s k x t hs
      cases t with
      | none =>
        refine ⟨by simp [splitStep, hs, splitLS, fixEv], ?_⟩
        simp only [splitLS, Option.isSome]
        exact .opn _ _ (.itm _ _ _ (.nil _))
      | some c =>
        by_cases hp : p x = c
        · refine ⟨?_, ?_⟩
          · simp only [splitStep, hs, hp, splitLS, ne_eq, not_true_eq_false, if_false, List.map_cons, List.map_nil, fixEv]
            congr 1
            funext i; unfold upd; by_cases hi : i = k.idx
            · simp only [hi]; exact hs
            · simp [hi]
          · simp only [splitLS, hp, ne_eq, not_true_eq_false, if_false, Option.isSome]
            exact .itm _ _ _ (.nil _)
        · refine ⟨by simp [splitStep, hs, hp, splitLS, fixEv], ?_⟩
          simp only [splitLS, ne_eq, hp, not_false_eq_true, if_true, Option.isSome]
          exact .cls _ _ (.opn _ _ (.itm _ _ _ (.nil _))))
    (by
      intro s k t hs
      cases t with
      | none => exact ⟨by simp [splitStep, hs, splitLS], by simp only [splitLS, Option.isSome]; exact .nil _, Or.inl (by simp [splitStep, hs])⟩
      | some c => exact ⟨by simp [splitStep, hs, splitLS, fixEv], by simp only [splitLS, Option.isSome]; exact .cls _ _ (.nil _), Or.inl (by simp [splitStep, hs])⟩)
    (fun _ _ => rfl)

/-! ## roll with window = stride -/

def rollCountSim {α} (w : Nat) : SplitSim (rollCountSp (α := α) w) (rollCountLS w) :=
  seqSim (rollCountLS w) (fun (c : Nat) => decide (c > 0)) (rollCountStep w) (by simp [rollCountLS]) (fun _ _ => rfl)
    (by
      intro s k x (c : Nat) hs
      by_cases hc : c = 0
      · subst hc
        by_cases hw : 0 + 1 = w
        · refine ⟨by simp [rollCountStep, hs, rollCountLS, hw, fixEv], ?_⟩
          simp only [rollCountLS, hw, if_true]
          exact .opn _ _ (.itm _ _ _ (.cls _ _ (.nil _)))
        · refine ⟨by simp [rollCountStep, hs, rollCountLS, hw, fixEv], ?_⟩
          simp only [rollCountLS, hw, if_true, if_false]
          exact .opn _ _ (.itm _ _ _ (.nil _))
      · have hpos : decide (c > 0) = true := by simp; omega
        by_cases hw : c + 1 = w
        · refine ⟨by simp [rollCountStep, hs, rollCountLS, hw, hc, fixEv], ?_⟩
          simp only [rollCountLS, hw, hc, if_true, if_false, hpos, List.nil_append]
          exact .itm _ _ _ (.cls _ _ (.nil _))
        · refine ⟨by simp [rollCountStep, hs, rollCountLS, hw, hc, fixEv], ?_⟩
          simp only [rollCountLS, hw, hc, if_false, hpos, List.nil_append]
          exact .itm _ _ _ (.nil _))
    (by
      intro s k (c : Nat) hs
      by_cases hc : c > 0
      · exact ⟨by simp [rollCountStep, hs, rollCountLS, hc, fixEv], by simp only [rollCountLS, hc, if_true, decide_true]; exact .cls _ _ (.nil _),
          Or.inr (by simp [rollCountStep, hs]; rfl)⟩
      · exact ⟨by simp [rollCountStep, hs, rollCountLS, hc], by simp only [rollCountLS, hc, if_false, decide_false]; exact .nil _,
          Or.inr (by simp [rollCountStep, hs]; rfl)⟩)
    (fun _ _ => rfl)

/-! ## time_split -/

def timeSplitSim {α} (c : TsCfg α) : SplitSim (timeSplitSp c) (timeSplitLS c) :=
  seqSim (timeSplitLS c) (fun (t : Option (Int × Int)) => t.isSome) (tsStep c) rfl (fun _ _ => rfl)
    (by
      intro s k x (t : Option (Int × Int)) hs
      cases t with
      | none =>
        by_cases h1 : tsExpired c (c.time x) (c.time x) (c.time x) = true
        · refine ⟨by simp [tsStep, hs, timeSplitLS, h1, fixEv], ?_⟩
          simp only [timeSplitLS, h1, if_true, Option.isSome]
          exact .opn _ _ (.cls _ _ (.opn _ _ (.itm _ _ _ (.nil _))))
        · by_cases h2 : c.closes x = true
          · by_cases h3 : c.incl = true
            · refine ⟨by simp [tsStep, hs, timeSplitLS, h1, h2, h3, fixEv], ?_⟩
              simp only [timeSplitLS, h1, h2, h3, if_true, if_false, Option.isSome]
              exact .opn _ _ (.itm _ _ _ (.cls _ _ (.opn _ _ (.nil _))))
            · refine ⟨by simp [tsStep, hs, timeSplitLS, h1, h2, h3, fixEv], ?_⟩
              simp only [timeSplitLS, h1, h2, h3, if_true, if_false, Option.isSome]
              exact .opn _ _ (.cls _ _ (.opn _ _ (.itm _ _ _ (.nil _))))
          · refine ⟨by simp [tsStep, hs, timeSplitLS, h1, h2, fixEv], ?_⟩
            simp only [timeSplitLS, h1, h2, if_false, Option.isSome]
            exact .opn _ _ (.itm _ _ _ (.nil _))
      | some sl =>
        obtain ⟨st, la⟩ := sl
        by_cases h1 : tsExpired c st la (c.time x) = true
        · refine ⟨by simp [tsStep, hs, timeSplitLS, h1, fixEv], ?_⟩
          simp only [timeSplitLS, h1, if_true, Option.isSome, List.nil_append]
          exact .cls _ _ (.opn _ _ (.itm _ _ _ (.nil _)))
        · by_cases h2 : c.closes x = true
          · by_cases h3 : c.incl = true
            · refine ⟨by simp [tsStep, hs, timeSplitLS, h1, h2, h3, fixEv], ?_⟩
              simp only [timeSplitLS, h1, h2, h3, if_true, if_false, Option.isSome, List.nil_append]
              exact .itm _ _ _ (.cls _ _ (.opn _ _ (.nil _)))
            · refine ⟨by simp [tsStep, hs, timeSplitLS, h1, h2, h3, fixEv], ?_⟩
              simp only [timeSplitLS, h1, h2, h3, if_true, if_false, Option.isSome, List.nil_append]
              exact .cls _ _ (.opn _ _ (.itm _ _ _ (.nil _)))
          · refine ⟨by simp [tsStep, hs, timeSplitLS, h1, h2, fixEv], ?_⟩
            simp only [timeSplitLS, h1, h2, if_false, Option.isSome, List.nil_append]
            exact .itm _ _ _ (.nil _))
    (by
      intro s k (t : Option (Int × Int)) hs
      cases t with
      | none => exact ⟨by simp [tsStep, hs, timeSplitLS], by simp only [timeSplitLS, Option.isSome]; exact .nil _, Or.inr (by simp [tsStep, hs]; rfl)⟩
      | some c0 => exact ⟨by simp [tsStep, hs, timeSplitLS, fixEv], by simp only [timeSplitLS, Option.isSome]; exact .cls _ _ (.nil _), Or.inr (by simp [tsStep, hs]; rfl)⟩)
    (fun _ _ => rfl)

end Rx

import RxModel.Ops
/-!
# A heap model of `scan` with a mutable accumulator (C09: the seed is never shared)

rxsci/operators/scan.py keeps a *reference* to the accumulator object in the per-key state and
hands `seed() if callable(seed) else copy.deepcopy(seed)` to the accumulator the first time a key
lifetime sees an item.  Python accumulators may mutate their first argument in place
(`acc.append(x); return acc`).  Here objects live in a heap (address = index), the per-key state is
an address, and the accumulator appends in place.  `copy = true` is the code; `copy = false` is the
defect "use the seed object itself".
-/
namespace Rx



structure HeapSt (α : Type) where
  heap : List (List α)                     -- object store: address ↦ content of a mutable list
  slot : Key → Option (Option Nat)        -- none: no key; some none: NOTSET; some (some a): reference

/-- `seed() if callable(seed) else copy.deepcopy(seed)` (`copy = true`), or the seed object itself -/
def takeSeed {α} (copy : Bool) (s0 : Nat) (h : List (List α)) : List (List α) × Nat :=
  if copy then (h ++ [h.getD s0 []], h.length) else (h, s0)

/-- the accumulator `acc.append(x); return acc`: mutates the object at `a` -/
def appendAt {α} (h : List (List α)) (a : Nat) (x : α) : List (List α) := h.set a (h.getD a [] ++ [x])

/-- `scan_mux.on_next` with a mutating accumulator; what is emitted is the object's content at
emission time (the harness deep-copies every emitted item) -/
def heapStep {α} (copy : Bool) (s0 : Nat) (st : HeapSt α) : Ev α → HeapSt α × List (Ev (List α))
  | .create k => (⟨st.heap, upd st.slot k (some none)⟩, [.create k])
  | .next k x =>
    match st.slot k with
    | some none =>
      let r := takeSeed copy s0 st.heap
      let h2 := appendAt r.1 r.2 x
      (⟨h2, upd st.slot k (some (some r.2))⟩, [.next k (h2.getD r.2 [])])
    | some (some a) =>
      let h2 := appendAt st.heap a x
      (⟨h2, st.slot⟩, [.next k (h2.getD a [])])
    | none => (st, [])
  | .done k =>
    match st.slot k with
    | some _ => (⟨st.heap, upd st.slot k none⟩, [.done k])
    | none => (st, [.done k])
  | .err k e =>
    match st.slot k with
    | some _ => (st, [.err k e])
    | none => (st, [.err k e])
  | .fatal e => (st, [.fatal e])

/-- the heap at subscription: the seed object at address 0 -/
def heapInit {α} (seed : List α) : HeapSt α := ⟨[seed], fun _ => none⟩

end Rx

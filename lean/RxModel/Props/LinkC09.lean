import RxGen.Kernels
import RxModel.PyVal
/-!
# C09 link theorems: the model's `count` and `to_list` are the stages generated from the source
(`rxsci/operators/count.py`, `rxsci/data/to_list.py`), interpreted at `Val`.
-/
namespace Rx

theorem Link_count (r : Bool) : genPipe (Gen.count_stages r) = Pipe.ofList [D.count r] := by
  simp only [genPipe, Gen.count_stages, List.map, GStage.toStage, D.count, Option.map]
  congr 3

/-- `to_list` dispatches: the multiplexed side is the generated `scan(push_to_list, seed=list, reduce=True)`,
the plain side is RxPY's `to_list` -/
theorem Link_to_list :
    (Gen.to_list_stages (V := Val)).map (fun s => Stage.prim s.localOp (some D.toListPlain)) = [D.toList] := by
  simp only [Gen.to_list_stages, List.map, GStage.localOp, D.toList, Option.map]
  congr 3
  funext acc i
  simp [Gen.to_list_push, PyAlg.append]

end Rx

import RxModel.Json
import RxModel.Props.C15
import RxModel.Props.C16
import RxModel.Props.C17
/-!
# C19 — JSON-lines dump/load round-trips objects, with or without compression

The composition of C17 (incremental utf-8), C15 (line framing) and C16 (compression wrapper):
whatever the read chunking (and, with compression, whatever the chunking of the compressed file),
the loader hands to `loads` exactly the lines `dumps` produced, in order.
Library contracts: the serializer (`loads (dumps o) = o`; a serialized object is a non-empty line
of Unicode scalar values without a raw newline) and, with compression, `CodecContract`.
-/
namespace Rx

theorem payloadChunks_flatten (evs : List WEv) : (payloadChunks evs).flatten = payload evs := by
  induction evs with
  | nil => rfl
  | cons e evs ih => cases e <;> simp [payloadChunks, payload, ih]

/-- serialized objects: non-empty, no raw newline, Unicode scalar values -/
def GoodLines (ls : List (List Nat)) : Prop :=
  ∀ l ∈ ls, l ≠ [] ∧ 10 ∉ l ∧ ∀ c ∈ l, isScalar c = true

/-- **no compression**: every read chunking of the file gives back exactly the serialized lines -/
theorem C19_roundtrip (ls : List (List Nat)) (hl : GoodLines ls) (cs : List (List Nat))
    (hcs : cs.flatten = jsonWriteBytes ls) :
    jsonReadLines cs = .ok ls := by
  have hok : ∀ s ∈ ls.map (· ++ [10]), ∀ c ∈ s, Enc.utf8.ok c = true := by
    intro s hs c hc
    obtain ⟨l, hlm, rfl⟩ := List.mem_map.mp hs
    rcases List.mem_append.mp hc with h | h
    · exact (hl l hlm).2.2 c h
    · simp at h; subst h; decide
  obtain ⟨texts, h1, h2⟩ := C17_roundtrip .utf8 (ls.map (· ++ [10])) cs hok hcs
  have hframes := lineRunG_frames (10 : Nat) ls [] texts (fun it hit => (hl it hit).2.1) (by simp)
    (by rw [h2]; simp)
  unfold jsonReadLines
  simp only [h1, bind, Except.bind, pure, Except.pure]
  rw [hframes.1, hframes.2]
  simp only [if_true, List.append_nil]
  congr 1
  rw [List.filter_eq_self]
  intro l hlm
  simpa using (hl l hlm).1

/-- zero objects: the file is empty and zero items are produced -/
theorem C19_empty : jsonWriteBytes [] = [] ∧ jsonReadLines [] = .ok [] := by
  constructor
  · decide
  · exact C19_roundtrip [] (by intro l hl; simp at hl) [] (by decide)

/-- **with compression** (gzip / zstd wrapper under the codec contract): however the compressed file
is cut into read chunks, decompress completes and the loader gets exactly the serialized lines -/
theorem C19_roundtrip_compressed (K : StreamCodec) (z : Bytes) (ls : List (List Nat)) (hl : GoodLines ls)
    (hK : CodecContract K (fun p => p ≠ []) z (jsonWriteBytes ls)) (cs : List Bytes) (hcs : cs.flatten = z) :
    completedOK (decompressRun K true K.dinit cs) = true ∧
    jsonReadLines (payloadChunks (decompressRun K true K.dinit cs)) = .ok ls := by
  obtain ⟨h1, h2, _⟩ := C16_roundtrip K z (jsonWriteBytes ls) hK cs hcs
  exact ⟨h2, C19_roundtrip ls hl _ (by rw [payloadChunks_flatten, h1])⟩

/-! non-vacuity: two objects `{"a":1}` and `"é"`-like lines, cut inside a multi-byte character -/
example : GoodLines [[123, 125], [34, 233, 34]] := by
  intro l hl
  simp at hl
  rcases hl with rfl | rfl <;> decide

end Rx

import RxGen.Handlers
import RxModel.Pipeline
/-!
# Link theorems for the two ends of a multiplexed pipeline on an ordinary observable (rxsci/operators/multiplex.py)

`harness/pygen.py` (`generate_root`) translates `mux_observable` — what it emits before subscribing its source, its `on_next` and
`on_completed` closures — and `demux_observable.on_next` into the monad `RM` (`RxModel/PyHandler.lean`). The model's top level
(`runMultiplex`, `Pipeline.lean`) is `demuxTop` after the pipeline run on `rootTrace xs`: these theorems tie both to the source.
-/
namespace Rx

def runR {α β} (m : RM α β) (s : RSt α) : Except Err β × RSt α := (ExceptT.run m).run s

theorem runR_bind {α β γ} (m : RM α β) (f : β → RM α γ) (s : RSt α) :
    runR (m >>= f) s = match runR m s with
      | (.ok a, s') => runR (f a) s'
      | (.error e, s') => (.error e, s') := by
  simp only [runR, ExceptT.run, bind, ExceptT.bind, ExceptT.mk, StateT.bind, StateT.run, ExceptT.bindCont]
  cases h : m s with
  | mk a s' => cases a <;> simp [pure, StateT.pure]

theorem runR_pure {α β} (a : β) (s : RSt α) : runR (pure a : RM α β) s = (.ok a, s) := rfl
theorem runR_emit {α} (x : α) (s : RSt α) : runR (RM.emit x) s = (.ok (), { s with out := s.out ++ [x] }) := rfl
theorem runR_complete {α} (s : RSt α) : runR (RM.complete : RM α Unit) s = (.ok (), { s with completed := true }) := rfl
theorem runR_fail {α} (e : Err) (s : RSt α) : runR (RM.fail e : RM α Unit) s = (.ok (), { s with failed := s.failed <|> some e }) := rfl

/-- what the source does to `mux_observable`: it is subscribed, pushes its items, completes -/
def driveRoot (xs : List Val) : RM (Ev Val) Unit := do
  Gen.mux_observable_subscribe
  for x in xs do
    Gen.mux_observable_on_next x
  Gen.mux_observable_on_completed

theorem root_items (xs : List Val) (s : RSt (Ev Val)) :
    runR (forIn xs PUnit.unit (fun x (_ : PUnit) => do Gen.mux_observable_on_next x; pure (ForInStep.yield PUnit.unit))) s
      = (.ok PUnit.unit, { s with out := s.out ++ xs.map (.next [0]) }) := by
  induction xs generalizing s with
  | nil => simp [runR_pure]
  | cons x xs ih =>
    rw [List.forIn_cons, runR_bind, runR_bind]
    have h1 : runR (Gen.mux_observable_on_next x) s = (.ok (), { s with out := s.out ++ [.next [0] x] }) := rfl
    rw [h1]
    simp only [runR_pure]
    rw [ih]
    simp

/-- **`mux_observable`** (its subscription action and its `on_next` / `on_completed` closures, generated from
rxsci/operators/multiplex.py): a source that emits `xs` and completes becomes exactly the model's `rootTrace xs` — the root key
`(0,)` created before the first item, one `OnNextMux` per item, the key completed, then `on_completed` -/
theorem LinkR_root_trace (xs : List Val) :
    RM.run (driveRoot xs) {} = (.ok (), { out := rootTrace xs, completed := true, failed := none }) := by
  have hrun : ∀ (m : RM (Ev Val) Unit) s, RM.run m s = runR m s := fun _ _ => rfl
  rw [hrun]
  unfold driveRoot
  simp only [runR_bind, Gen.mux_observable_subscribe, runR_emit]
  rw [root_items]
  simp [Gen.mux_observable_on_completed, runR_bind, runR_emit, runR_complete, rootTrace]

/-- all items of an event list, and the first error it carries -/
def demuxAll : List (Ev Val) → List Val × Option Err
  | [] => ([], none)
  | .next _ v :: r => (v :: (demuxAll r).1, (demuxAll r).2)
  | .err _ e :: _r => ([], some e)
  | .fatal e :: _r => ([], some e)
  | _ :: r => demuxAll r

/-- `demuxTop` is: the items up to the first error, then that error as `on_error` -/
theorem demuxTop_eq (l : List (Ev Val)) :
    demuxTop l = (demuxAll l).1.map .item ++ (match (demuxAll l).2 with | some e => [.fatal e] | none => []) := by
  induction l with
  | nil => simp [demuxTop, demuxAll]
  | cons ev r ih => cases ev <;> simp [demuxTop, demuxAll, ih]

/-- **`demux_observable.on_next`** (generated): an item event hands its item to the observer, a mux error (or an `on_error` of the
source) is `observer.on_error`, the other events are dropped — event by event what `demuxTop` says (`demuxTop_eq`: the items up to
the first error, then the error; what RxPY does with notifications after `on_error` is RxPY's business) -/
theorem LinkR_demux_next (ev : Ev Val) (s : RSt Val) :
    RM.run (Gen.demux_observable_on_next ev) s
      = (.ok (), match ev with
          | .next _ v => { s with out := s.out ++ [v] }
          | .err _ e => { s with failed := s.failed <|> some e }
          | .fatal e => { s with failed := s.failed <|> some e }
          | _ => s) := by
  cases ev <;> rfl

example : (RM.run (driveRoot [.int 1, .int 2]) {}).2.out = [.create [0], .next [0] (.int 1), .next [0] (.int 2), .done [0]] := by decide

end Rx

import RxGen.Handlers
import RxModel.Lemmas.HandlerSim
import RxModel.Split
import RxModel.Lemmas.SimRoll
import RxModel.Props.LinkC05
import RxModel.Props.LinkH
/-!
# C05 link theorem, ring path: the `on_next` handler of `roll_mux._roll` (window ≠ stride), generated from
rxsci/data/roll.py, IS the model's `rollStep`

The handler keeps two typed states: #0 `state_n` (uint, default 0: items seen by the key) and #1 `state_w` (int, default -1:
per ring slot `key[0]*density + offset`, the index of the first item of the window in that slot).  Its slot arithmetic is
Python integer arithmetic on store values and key indices (`%`, `//`, `range`, an int used as a key component): the
translator maps these to `PyAlg.mod / floordiv / range / toNat`, interpreted at `Val` with floor semantics.

* `deliver_body` / `flush_body`: one pass of the generated loop bodies is one step (`dDeliver` / `dFlush`) of the model's
  `rollDeliver` / `rollFlush` recursion (`rollDeliver_fold`, `rollFlush_fold`: the recursions as folds over the offsets);
* `ring_loop`: a generated `for offset in range(density)` loop whose body is such a step is the fold;
* `LinkH_roll_ring`: all five kinds of event.  `repRoll` is the exact content of the two slot arrays: ring slots of keys that
  were never created are CLEARED, the others hold -1 or the window's first index.
-/
namespace Rx
open HM

/-! integer arithmetic of the `PyAlg Val` instance on natural numbers -/

theorem mul_intV (a b : Int) : (PyAlg.mul (Val.int a) (Val.int b) : Except Err Val) = .ok (.int (a * b)) := by
  show Val.mul _ _ = _
  simp [Val.mul, Val.arith, Val.toInt?]

theorem add_intV (a b : Int) : (PyAlg.add (Val.int a) (Val.int b) : Except Err Val) = .ok (.int (a + b)) := by
  show Val.add _ _ = _
  simp [Val.add, Val.arith, Val.toInt?]

theorem sub_intV (a b : Int) : (PyAlg.sub (Val.int a) (Val.int b) : Except Err Val) = .ok (.int (a - b)) := by
  show Val.sub _ _ = _
  simp [Val.sub, Val.arith, Val.toInt?]

theorem mod_natV (a b : Nat) (hb : b ≠ 0) :
    (PyAlg.mod (Val.int (a : Int)) (Val.int (b : Int)) : Except Err Val) = .ok (.int ((a % b : Nat) : Int)) := by
  show Val.modV _ _ = _
  simp [Val.modV, Val.toInt?, hb, Int.fmod_eq_emod_of_nonneg]

theorem floordiv_natV (a b : Nat) (hb : b ≠ 0) :
    (PyAlg.floordiv (Val.int (a : Int)) (Val.int (b : Int)) : Except Err Val) = .ok (.int ((a / b : Nat) : Int)) := by
  show Val.floordivV _ _ = _
  simp [Val.floordivV, Val.toInt?, hb, Int.fdiv_eq_ediv_of_nonneg]

theorem range_natV (d : Nat) :
    (PyAlg.range (Val.int (d : Int)) : Except Err (List Val)) = .ok ((List.range d).map (fun i => Val.int (i : Nat))) := by
  show Val.rangeV _ = _
  simp [Val.rangeV]

theorem runS_toIdx (n : Nat) (s : HSt Val) : runS (toIdx (Val.int (n : Int))) s = (.ok n, s) := by
  have : (PyAlg.toNat (Val.int (n : Int)) : Except Err Nat) = .ok n := by
    show Val.toNatV _ = _
    simp [Val.toNatV]
  simp only [toIdx, liftM, monadLift, this, runS_lift_ok]


/-! the two stores of `_roll`: #0 = `state_n` (uint, default 0), #1 = `state_w` (int, default -1) -/

def encRingN (n : Nat) : Option Val := some (.int (n : Int))

def encRingW : Option Nat → Val
  | none => .int (-1)
  | some n0 => .int (n0 : Int)

/-- stores whose state #1 holds the ring array `ws` on the slots `cr` that were added -/
def ringSt (base : Nat → Nat → Slot Val) (cr : Nat → Bool) (ws : Nat → Option Nat) : Nat → Nat → Slot Val :=
  fun sid j => if sid = 1 then (if cr j then some (some (encRingW (ws j))) else none) else base sid j

theorem ringSt_get (base cr ws) (j : Nat) (h : cr j = true) : ringSt base cr ws 1 j = some (some (encRingW (ws j))) := by
  simp [ringSt, h]

theorem ringSt_set (base cr ws) (j : Nat) (v : Option Nat) (h : cr j = true) :
    updSlot (ringSt base cr ws) 1 j (some (some (encRingW v))) = ringSt base cr (upd ws j v) := by
  funext sid i
  by_cases h1 : sid = 1 <;> by_cases h2 : i = j <;> simp [ringSt, updSlot, upd, h1, h2, h]

/-- a loop over ring offsets, one model step `dstep` per offset -/
def foldD {β} (dstep : Nat → (Nat → Option Nat) → (Nat → Option Nat) × List β) :
    List Nat → (Nat → Option Nat) → (Nat → Option Nat) × List β
  | [], ws => (ws, [])
  | a :: l, ws =>
    let r1 := dstep a ws
    let r := foldD dstep l r1.1
    (r.1, r1.2 ++ r.2)

theorem ring_loop (body : Val → PUnit → HM Val (ForInStep PUnit)) (base cr)
    (dstep : Nat → (Nat → Option Nat) → (Nat → Option Nat) × List (Ev Val)) (l : List Nat)
    (P : (Nat → Option Nat) → Prop) (hP : ∀ off ∈ l, ∀ ws, P ws → P (dstep off ws).1)
    (hbody : ∀ off ∈ l, ∀ ws s, P ws → s.stores = ringSt base cr ws →
      runS (body (Val.int (off : Nat)) PUnit.unit) s
        = (.ok (ForInStep.yield PUnit.unit), { s with stores := ringSt base cr (dstep off ws).1, out := s.out ++ (dstep off ws).2 }))
    (ws : Nat → Option Nat) (s : HSt Val) (hp : P ws) (hs : s.stores = ringSt base cr ws) :
    runS (forIn (l.map (fun i => Val.int (i : Nat))) PUnit.unit body) s
      = (.ok PUnit.unit, { s with stores := ringSt base cr (foldD dstep l ws).1, out := s.out ++ (foldD dstep l ws).2 }) := by
  induction l generalizing ws s with
  | nil => simp [runS_pure, foldD, ← hs]
  | cons a l ih =>
    have h1 := hbody a (by simp) ws s hp hs
    simp only [List.map_cons, List.forIn_cons, runS_bind, h1]
    rw [ih (fun off ho => hP off (by simp [ho])) (fun off ho => hbody off (by simp [ho])) (dstep a ws).1 _ (hP a (by simp) ws hp) rfl]
    simp [foldD, List.append_assoc]

theorem runS_getRing (base cr ws) (s : HSt Val) (hs : s.stores = ringSt base cr ws) (j : Nat) (k : Key) (hcr : cr j = true) :
    runS (getState 1 (j :: k)) s = (.ok (some (encRingW (ws j))), s) :=
  runS_getState 1 (j :: k) s _ (by rw [hs]; exact ringSt_get base cr ws j hcr)

theorem runS_setRing_none (base cr ws) (s : HSt Val) (hs : s.stores = ringSt base cr ws) (j : Nat) (k : Key) (hcr : cr j = true) :
    runS (setState 1 (j :: k) (Val.int (-1))) s = (.ok (), { s with stores := ringSt base cr (upd ws j none) }) := by
  rw [runS_setState, hs]
  show _ = (_, { s with stores := _ })
  rw [← ringSt_set base cr ws j none hcr]
  rfl

theorem runS_setRing_some (base cr ws) (s : HSt Val) (hs : s.stores = ringSt base cr ws) (j : Nat) (k : Key) (hcr : cr j = true) (n : Nat) :
    runS (setState 1 (j :: k) (Val.int (n : Int))) s = (.ok (), { s with stores := ringSt base cr (upd ws j (some n)) }) := by
  rw [runS_setState, hs]
  show _ = (_, { s with stores := _ })
  rw [← ringSt_set base cr ws j (some n) hcr]
  rfl

/-! the model's loops as folds of one step per offset -/

def dDeliver {α} (w d : Nat) (k : Key) (x : α) (n : Nat) (off : Nat) (ws : Nat → Option Nat) :
    (Nat → Option Nat) × List (Ev α) :=
  match ws (k.idx * d + off) with
  | some n0 =>
    if n - n0 + 1 = w then (upd ws (k.idx * d + off) none, [Ev.next (wk d k off) x, Ev.done (wk d k off)])
    else (ws, [Ev.next (wk d k off) x])
  | none => (ws, [])

theorem rollDeliver_fold {α} (w d : Nat) (k : Key) (x : α) (n : Nat) (m : Nat) (hm : m ≤ d) (ws : Nat → Option Nat) :
    rollDeliver w d k x n m ws = foldD (dDeliver w d k x n) (List.range' (d - m) m) ws := by
  induction m generalizing ws with
  | zero => simp [rollDeliver, foldD]
  | succ m ih =>
    have e : d - (m + 1) + 1 = d - m := by omega
    simp only [List.range'_succ, foldD, e]
    unfold rollDeliver
    simp only [dDeliver]
    cases h : ws (k.idx * d + (d - (m + 1))) with
    | none => simp [ih (by omega)]
    | some n0 =>
      by_cases hc : n - n0 + 1 = w <;> simp [hc, ih (by omega)]

def dFlush {α} (d : Nat) (k : Key) (mk : Key → Ev α) (first : Nat) (o : Nat) (ws : Nat → Option Nat) :
    (Nat → Option Nat) × List (Ev α) :=
  match ws (k.idx * d + (first + o) % d) with
  | some _ => (upd ws (k.idx * d + (first + o) % d) none, [mk (wk d k ((first + o) % d))])
  | none => (ws, [])

theorem rollFlush_fold {α} (d : Nat) (k : Key) (mk : Key → Ev α) (first : Nat) (m : Nat) (hm : m ≤ d) (ws : Nat → Option Nat) :
    rollFlush d k mk first m ws = foldD (dFlush d k mk first) (List.range' (d - m) m) ws := by
  induction m generalizing ws with
  | zero => simp [rollFlush, foldD]
  | succ m ih =>
    have e : d - (m + 1) + 1 = d - m := by omega
    simp only [List.range'_succ, foldD, e]
    unfold rollFlush
    simp only [dFlush]
    cases h : ws (k.idx * d + (first + (d - (m + 1))) % d) with
    | none => simp [ih (by omega)]
    | some n0 => simp [ih (by omega)]

def repRoll (d : Nat) (st : RollSt) : Nat → Nat → Slot Val :=
  ringSt (fun sid i => if sid = 0 then (st.n i).map encRingN else none) (fun j => (st.n (j / d)).isSome) st.w

theorem runH2_eq (m : HM Val Unit) (stores : Nat → Nat → Slot Val) :
    runH2 m stores = ((runS m { stores := stores, out := [] }).1, (runS m { stores := stores, out := [] }).2.stores,
      (runS m { stores := stores, out := [] }).2.out, (runS m { stores := stores, out := [] }).2.outer) := rfl

theorem runS_emitOuter (e : Ev Val) (s : HSt Val) : runS (emitOuter e) s = (.ok (), { s with outer := s.outer ++ [e] }) := rfl

theorem slot_div (i d o : Nat) (ho : o < d) : (i * d + o) / d = i := by
  rw [Nat.mul_comm, Nat.mul_add_div (by omega)]
  simp [Nat.div_eq_of_lt ho]

theorem repRoll_setN (d : Nat) (st : RollSt) (i n' : Nat) (h : st.n i ≠ none) (ws' : Nat → Option Nat) :
    updSlot (ringSt (fun sid i => if sid = 0 then (st.n i).map encRingN else none) (fun j => (st.n (j / d)).isSome) ws') 0 i
        (some (some (Val.int (n' : Int))))
      = repRoll d ⟨upd st.n i (some n'), ws'⟩ := by
  funext sid j
  have hi : (st.n i).isSome = true := by cases hh : st.n i <;> simp_all
  by_cases h1 : sid = 0
  · subst h1
    by_cases h2 : j = i <;> simp [repRoll, ringSt, updSlot, upd, h2, encRingN]
  · by_cases h3 : sid = 1
    · subst h3
      by_cases h4 : j / d = i <;> simp [repRoll, ringSt, updSlot, upd, h4, hi]
    · simp [repRoll, ringSt, updSlot, h1, h3]

/-- one pass of the delivery loop body of `_roll` (the generated code) is one `dDeliver` step -/
theorem deliver_body (w d : Nat) (k : Key) (v : Val) (n : Nat) (base cr) (hcr : ∀ o, o < d → cr (k.idx * d + o) = true)
    (off : Nat) (hoff : off < d) (ws : Nat → Option Nat) (s : HSt Val)
    (hp : ∀ o, o < d → ∀ n0, ws (k.idx * d + o) = some n0 → n0 ≤ n) (hs : s.stores = ringSt base cr ws) :
    runS (do
        let t12 ← (MonadLift.monadLift (PyAlg.mul (Val.int (Int.ofNat k.idx)) (Val.int (d : Int)) : Except Err Val) : HM Val Val)
        let t13 ← (MonadLift.monadLift (PyAlg.add t12 (Val.int (off : Nat)) : Except Err Val) : HM Val Val)
        let t14 ← toIdx t13
        let w_value ← getState 1 (t14 :: k)
        let t15 ← unmark w_value
        if (!PyAlg.eq t15 (Val.int (-1))) = true then do
            let t16 ← toIdx t13
            emit (Ev.next (t16 :: k) v)
            let t17 ← unmark (some (Val.int (n : Int)))
            let t18 ← unmark w_value
            let t19 ← (MonadLift.monadLift (PyAlg.sub t17 t18 : Except Err Val) : HM Val Val)
            let t20 ← (MonadLift.monadLift (PyAlg.add t19 (Val.int 1) : Except Err Val) : HM Val Val)
            if PyAlg.eq t20 (Val.int (w : Int)) = true then do
                let t21 ← toIdx t13
                setState 1 (t21 :: k) (Val.int (-1))
                let t22 ← toIdx t13
                emit (Ev.done (t22 :: k))
                pure (ForInStep.yield PUnit.unit)
              else pure (ForInStep.yield PUnit.unit)
          else pure (ForInStep.yield PUnit.unit)) s
      = (.ok (ForInStep.yield PUnit.unit),
          { s with stores := ringSt base cr (dDeliver w d k v n off ws).1, out := s.out ++ (dDeliver w d k v n off ws).2 }) := by
  have e1 : (Int.ofNat k.idx * (d : Int) + ((off : Nat) : Int)) = ((k.idx * d + off : Nat) : Int) := by
    simp [Int.natCast_add, Int.natCast_mul]
  simp only [runS_bind, mul_intV, add_intV, runS_lift_ok, e1, runS_toIdx,
    runS_getRing base cr ws s hs _ k (hcr off hoff)]
  cases h : ws (k.idx * d + off) with
  | none =>
    simp [dDeliver, h, encRingW, runS_unmark, runS_pure, eq_intZ, ← hs]
  | some n0 =>
    have hle : n0 ≤ n := hp off hoff n0 h
    have e2 : ¬ ((n0 : Int) = -1) := by omega
    simp only [encRingW, runS_unmark, runS_bind, eq_intZ, e2, decide_false, Bool.not_false, if_true, runS_toIdx, runS_emit, sub_intV,
      add_intV, runS_lift_ok]
    by_cases hc : n - n0 + 1 = w
    · have e3 : ((n : Int) - (n0 : Int) + 1 = (w : Int)) := by omega
      simp only [e3, decide_true, if_true, runS_bind, runS_toIdx]
      rw [runS_setRing_none base cr ws _ (by exact hs) _ k (hcr off hoff)]
      simp [dDeliver, h, hc, runS_emit, runS_pure, wk]
    · have e3 : ¬ ((n : Int) - (n0 : Int) + 1 = (w : Int)) := by omega
      simp [e3, dDeliver, h, hc, runS_pure, wk, ← hs]

theorem runS_getBase (base cr ws) (s : HSt Val) (hs : s.stores = ringSt base cr ws) (k : Key) (m : Option Val)
    (hb : base 0 k.idx = some m) : runS (getState 0 k) s = (.ok m, s) :=
  runS_getState 0 k s _ (by rw [hs]; simpa [ringSt] using hb)

theorem rollDeliver_range {α} (w d : Nat) (k : Key) (x : α) (n : Nat) (ws : Nat → Option Nat) :
    rollDeliver w d k x n d ws = foldD (dDeliver w d k x n) (List.range d) ws := by
  rw [rollDeliver_fold w d k x n d (Nat.le_refl d), Nat.sub_self, List.range_eq_range']

theorem dDeliver_inv {α} (w d : Nat) (k : Key) (x : α) (n off : Nat) (ws : Nat → Option Nat)
    (hp : ∀ o, o < d → ∀ n0, ws (k.idx * d + o) = some n0 → n0 ≤ n) :
    ∀ o, o < d → ∀ n0, (dDeliver w d k x n off ws).1 (k.idx * d + o) = some n0 → n0 ≤ n := by
  intro o ho n0
  unfold dDeliver
  cases h : ws (k.idx * d + off) with
  | none => exact hp o ho n0
  | some m =>
    by_cases hc : n - m + 1 = w
    · simp only [hc, if_true]
      by_cases he : k.idx * d + o = k.idx * d + off
      · simp [upd, he]
      · simp only [upd, he, if_false]; exact hp o ho n0
    · simp only [hc, if_false]; exact hp o ho n0

theorem LinkH_roll_ring_next (w s : Nat) (hw : 0 < w) (hs : 0 < s) (st : RollSt) (k : Key) (v : Val) (n : Nat)
    (hn : st.n k.idx = some n)
    (hwf : ∀ o, o < density w s → ∀ n0, st.w (k.idx * density w s + o) = some n0 → n0 ≤ n) :
    runS (Gen.roll_ring_on_next (.int (s : Int)) (.int (density w s : Int)) (.int (w : Int)) (.next k v))
        { stores := repRoll (density w s) st, out := [] }
      = (.ok (), { stores := repRoll (density w s) (rollStep w s st (.next k v)).1, out := (rollStep w s st (.next k v)).2.1 }) := by
  have hd := density_pos w s hs hw
  obtain ⟨d, hdd⟩ : ∃ d, density w s = d := ⟨_, rfl⟩
  rw [hdd] at hd hwf ⊢
  have hcr : ∀ o, o < d → (fun j => (st.n (j / d)).isSome) (k.idx * d + o) = true := by
    intro o ho; simp [slot_div _ _ _ ho, hn]
  have hb : (fun sid i => if sid = 0 then (st.n i).map encRingN else none : Nat → Nat → Slot Val) 0 k.idx = some (some (Val.int (n : Int))) := by
    simp [hn, encRingN]
  have hs0 : ({ stores := repRoll d st, out := [] } : HSt Val).stores 0 k.idx = some (some (Val.int (n : Int))) := by
    simp [repRoll, ringSt, hn, encRingN]
  simp only [Gen.roll_ring_on_next, runS_bind, runS_getState 0 k _ _ hs0, runS_unmark, liftM, monadLift, runS_lift_ok,
    mod_natV n s (by omega), eq_intZ0, PyAlg.int, range_natV]
  by_cases hm : n % s = 0
  · have e0 : (((n % s : Nat) : Int) = 0) := by omega
    have e1 : (Int.ofNat k.idx * (d : Int) + ((n / s % d : Nat) : Int)) = ((k.idx * d + n / s % d : Nat) : Int) := by
      simp [Int.natCast_add, Int.natCast_mul]
    have hoff : n / s % d < d := Nat.mod_lt _ hd
    simp only [e0, decide_true, if_true, runS_bind, runS_unmark, floordiv_natV n s (by omega), mod_natV (n / s) d (by omega), mul_intV,
      add_intV, runS_lift_ok, e1, runS_toIdx]
    rw [runS_setRing_some _ _ st.w _ (by rfl) _ k (hcr _ hoff) n]
    simp only [runS_emit]
    rw [ring_loop _ _ _ (dDeliver w d k v n) (List.range d)
      (fun ws => ∀ o, o < d → ∀ n0, ws (k.idx * d + o) = some n0 → n0 ≤ n)
      (fun off _ ws hp => dDeliver_inv w d k v n off ws hp)
      (fun off ho ws s' hp hs' => deliver_body w d k v n _ _ hcr off (by simpa using ho) ws s' hp hs')
      (upd st.w (k.idx * d + n / s % d) (some n)) _ ?_ rfl]
    · simp only []
      rw [runS_getBase _ _ _ _ rfl k _ hb]
      simp only [runS_unmark, add_intZ1, runS_lift_ok, runS_setState]
      have e2 : ((n : Int) + 1) = ((n + 1 : Nat) : Int) := by simp
      rw [e2]
      simp only [repRoll_setN d st k.idx (n + 1) (by simp [hn])]
      simp [rollStep, hdd, hn, hm, rollDeliver_range, wk]
    · intro o ho n0
      by_cases he : k.idx * d + o = k.idx * d + n / s % d
      · simp [upd, he]; omega
      · simp only [upd, he, if_false]; exact hwf o ho n0
  · have e0 : ¬ (((n % s : Nat) : Int) = 0) := by omega
    simp only [e0, decide_false, Bool.false_eq_true, if_false, runS_bind, runS_lift_ok]
    rw [ring_loop _ (fun sid i => if sid = 0 then (st.n i).map encRingN else none) (fun j => (st.n (j / d)).isSome)
      (dDeliver w d k v n) (List.range d)
      (fun ws => ∀ o, o < d → ∀ n0, ws (k.idx * d + o) = some n0 → n0 ≤ n)
      (fun off _ ws hp => dDeliver_inv w d k v n off ws hp)
      (fun off ho ws s' hp hs' => deliver_body w d k v n _ _ hcr off (by simpa using ho) ws s' hp hs')
      st.w _ hwf rfl]
    simp only []
    rw [runS_getBase _ _ _ _ rfl k _ hb]
    simp only [runS_unmark, add_intZ1, runS_lift_ok, runS_setState]
    have e2 : ((n : Int) + 1) = ((n + 1 : Nat) : Int) := by simp
    rw [e2]
    simp only [repRoll_setN d st k.idx (n + 1) (by simp [hn])]
    simp [rollStep, hdd, hn, hm, rollDeliver_range]

/-- one pass of the flush loop body of `_roll` (completion or error of the parent) is one `dFlush` step -/
theorem flush_body (d : Nat) (hd : 0 < d) (k : Key) (mk : Key → Ev Val) (f : Nat) (base cr) (hcr : ∀ o, o < d → cr (k.idx * d + o) = true)
    (o : Nat) (ws : Nat → Option Nat) (s : HSt Val) (hs : s.stores = ringSt base cr ws) :
    runS (do
        let t37 ← (MonadLift.monadLift (PyAlg.add (Val.int (f : Int)) (Val.int (o : Nat)) : Except Err Val) : HM Val Val)
        let t38 ← (MonadLift.monadLift (PyAlg.mod t37 (Val.int (d : Int)) : Except Err Val) : HM Val Val)
        let t39 ← (MonadLift.monadLift (PyAlg.mul (Val.int (Int.ofNat k.idx)) (Val.int (d : Int)) : Except Err Val) : HM Val Val)
        let t40 ← (MonadLift.monadLift (PyAlg.add t39 t38 : Except Err Val) : HM Val Val)
        let t41 ← toIdx t40
        let t42 ← getState 1 (t41 :: k)
        let t43 ← unmark t42
        if (!PyAlg.eq t43 (Val.int (-1))) = true then do
            let t44 ← toIdx t40
            emit (mk (t44 :: k))
            let t45 ← toIdx t40
            setState 1 (t45 :: k) (Val.int (-1))
            pure (ForInStep.yield PUnit.unit)
          else pure (ForInStep.yield PUnit.unit)) s
      = (.ok (ForInStep.yield PUnit.unit),
          { s with stores := ringSt base cr (dFlush d k mk f o ws).1, out := s.out ++ (dFlush d k mk f o ws).2 }) := by
  have e0 : ((f : Int) + ((o : Nat) : Int)) = ((f + o : Nat) : Int) := by simp
  have e1 : (Int.ofNat k.idx * (d : Int) + (((f + o) % d : Nat) : Int)) = ((k.idx * d + (f + o) % d : Nat) : Int) := by
    simp [Int.natCast_add, Int.natCast_mul]
  have hoff : (f + o) % d < d := Nat.mod_lt _ hd
  simp only [runS_bind, mul_intV, add_intV, e0, mod_natV (f + o) d (by omega), runS_lift_ok, e1, runS_toIdx,
    runS_getRing base cr ws s hs _ k (hcr _ hoff)]
  cases h : ws (k.idx * d + (f + o) % d) with
  | none =>
    simp [dFlush, h, encRingW, runS_unmark, runS_pure, eq_intZ, ← hs]
  | some n0 =>
    have e2 : ¬ ((n0 : Int) = -1) := by omega
    simp only [encRingW, runS_unmark, runS_bind, eq_intZ, e2, decide_false, Bool.not_false, if_true, runS_toIdx, runS_emit]
    rw [runS_setRing_none base cr ws _ (by exact hs) _ k (hcr _ hoff)]
    simp [dFlush, h, runS_pure, wk]

theorem rollFlush_range {α} (d : Nat) (k : Key) (mk : Key → Ev α) (first : Nat) (ws : Nat → Option Nat) :
    rollFlush d k mk first d ws = foldD (dFlush d k mk first) (List.range d) ws := by
  rw [rollFlush_fold d k mk first d (Nat.le_refl d), Nat.sub_self, List.range_eq_range']

theorem LinkH_roll_ring_done (w s : Nat) (hw : 0 < w) (hs : 0 < s) (st : RollSt) (k : Key) (n : Nat)
    (hn : st.n k.idx = some n) :
    runS (Gen.roll_ring_on_next (.int (s : Int)) (.int (density w s : Int)) (.int (w : Int)) (.done k))
        { stores := repRoll (density w s) st, out := [] }
      = (.ok (), { stores := repRoll (density w s) (rollStep w s st (Ev.done k : Ev Val)).1, out := (rollStep w s st (Ev.done k : Ev Val)).2.1,
                   outer := (rollStep w s st (Ev.done k : Ev Val)).2.2.map OEv.toEv }) := by
  have hd := density_pos w s hs hw
  obtain ⟨d, hdd⟩ : ∃ d, density w s = d := ⟨_, rfl⟩
  rw [hdd] at hd ⊢
  have hcr : ∀ o, o < d → (fun j => ((upd st.n k.idx (some 0)) (j / d)).isSome) (k.idx * d + o) = true := by
    intro o ho; simp [slot_div _ _ _ ho, upd]
  have hs0 : ({ stores := repRoll d st, out := [] } : HSt Val).stores 0 (Key.idx (k.idx :: k)) = some (some (Val.int (n : Int))) := by
    have : Key.idx (k.idx :: k) = k.idx := rfl
    rw [this]
    simp [repRoll, ringSt, hn, encRingN]
  have e3 : ((n : Int) + (s : Int) - 1) = ((n + s - 1 : Nat) : Int) := by omega
  have e4 : (0 : Int) = ((0 : Nat) : Int) := rfl
  simp only [Gen.roll_ring_on_next, PyAlg.int, Int.ofNat_eq_natCast, runS_bind, runS_toIdx, runS_getState 0 (k.idx :: k) _ _ hs0, runS_setState,
    runS_unmark, liftM, monadLift, runS_lift_ok, add_intV, sub_intV, e3, floordiv_natV (n + s - 1) s (by omega),
    mod_natV ((n + s - 1) / s) d (by omega), range_natV]
  have hset : updSlot (repRoll d st) 0 (Key.idx (k.idx :: k)) (some (some (Val.int 0)))
      = repRoll d ⟨upd st.n k.idx (some 0), st.w⟩ := repRoll_setN d st k.idx 0 (by simp [hn]) st.w
  rw [hset]
  rw [ring_loop _ (fun sid i => if sid = 0 then ((upd st.n k.idx (some 0)) i).map encRingN else none)
      (fun j => ((upd st.n k.idx (some 0)) (j / d)).isSome)
      (dFlush d k (fun ki => Ev.done ki) ((n + s - 1) / s % d)) (List.range d) (fun _ => True) (fun _ _ _ _ => trivial)
      (fun off ho ws s' _ hs' => flush_body d hd k (fun ki => Ev.done ki) ((n + s - 1) / s % d) _ _ hcr off ws s' hs')
      st.w _ trivial rfl]
  simp only [runS_emitOuter]
  simp [rollStep, hdd, hn, rollFlush_range, OEv.toEv]
  rfl

theorem LinkH_roll_ring_err (w s : Nat) (hw : 0 < w) (hs : 0 < s) (st : RollSt) (k : Key) (e : Err) (n : Nat)
    (hn : st.n k.idx = some n) :
    runS (Gen.roll_ring_on_next (.int (s : Int)) (.int (density w s : Int)) (.int (w : Int)) (.err k e))
        { stores := repRoll (density w s) st, out := [] }
      = (.ok (), { stores := repRoll (density w s) (rollStep w s st (Ev.err k e : Ev Val)).1, out := (rollStep w s st (Ev.err k e : Ev Val)).2.1,
                   outer := (rollStep w s st (Ev.err k e : Ev Val)).2.2.map OEv.toEv }) := by
  have hd := density_pos w s hs hw
  obtain ⟨d, hdd⟩ : ∃ d, density w s = d := ⟨_, rfl⟩
  rw [hdd] at hd ⊢
  have hcr : ∀ o, o < d → (fun j => ((upd st.n k.idx (some 0)) (j / d)).isSome) (k.idx * d + o) = true := by
    intro o ho; simp [slot_div _ _ _ ho, upd]
  have hs0 : ({ stores := repRoll d st, out := [] } : HSt Val).stores 0 (Key.idx (k.idx :: k)) = some (some (Val.int (n : Int))) := by
    have : Key.idx (k.idx :: k) = k.idx := rfl
    rw [this]
    simp [repRoll, ringSt, hn, encRingN]
  have e3 : ((n : Int) + (s : Int) - 1) = ((n + s - 1 : Nat) : Int) := by omega
  have e4 : (0 : Int) = ((0 : Nat) : Int) := rfl
  simp only [Gen.roll_ring_on_next, PyAlg.int, Int.ofNat_eq_natCast, runS_bind, runS_toIdx, runS_getState 0 (k.idx :: k) _ _ hs0, runS_setState,
    runS_unmark, liftM, monadLift, runS_lift_ok, add_intV, sub_intV, e3, floordiv_natV (n + s - 1) s (by omega),
    mod_natV ((n + s - 1) / s) d (by omega), range_natV]
  have hset : updSlot (repRoll d st) 0 (Key.idx (k.idx :: k)) (some (some (Val.int 0)))
      = repRoll d ⟨upd st.n k.idx (some 0), st.w⟩ := repRoll_setN d st k.idx 0 (by simp [hn]) st.w
  rw [hset]
  rw [ring_loop _ (fun sid i => if sid = 0 then ((upd st.n k.idx (some 0)) i).map encRingN else none)
      (fun j => ((upd st.n k.idx (some 0)) (j / d)).isSome)
      (dFlush d k (fun ki => Ev.err ki e) ((n + s - 1) / s % d)) (List.range d) (fun _ => True) (fun _ _ _ _ => trivial)
      (fun off ho ws s' _ hs' => flush_body d hd k (fun ki => Ev.err ki e) ((n + s - 1) / s % d) _ _ hcr off ws s' hs')
      st.w _ trivial rfl]
  simp only [runS_emitOuter]
  simp [rollStep, hdd, hn, rollFlush_range, OEv.toEv]
  rfl


/-- the `add_key` loop at the creation of a key: every ring slot of the key is added with the default -1 -/
theorem create_loop (d : Nat) (k : Key) (l : List Nat) (s : HSt Val) :
    runS (forIn (l.map (fun i => Val.int (i : Nat))) PUnit.unit (fun offset (_ : PUnit) => do
        let t26 ← (MonadLift.monadLift (PyAlg.mul (Val.int (Int.ofNat k.idx)) (Val.int (d : Int)) : Except Err Val) : HM Val Val)
        let t27 ← (MonadLift.monadLift (PyAlg.add t26 offset : Except Err Val) : HM Val Val)
        let t28 ← toIdx t27
        addKey 1 (t28 :: k) (some (Val.int (-1)))
        pure (ForInStep.yield PUnit.unit))) s
      = (.ok PUnit.unit, { s with stores := fun sid j =>
          if sid = 1 ∧ (j ∈ l.map (fun o => k.idx * d + o)) then some (some (Val.int (-1))) else s.stores sid j }) := by
  induction l generalizing s with
  | nil => simp [runS_pure]
  | cons a l ih =>
    have e1 : (Int.ofNat k.idx * (d : Int) + ((a : Nat) : Int)) = ((k.idx * d + a : Nat) : Int) := by
      simp [Int.natCast_add, Int.natCast_mul]
    have step : ∀ s : HSt Val, runS (do
        let t26 ← (MonadLift.monadLift (PyAlg.mul (Val.int (Int.ofNat k.idx)) (Val.int (d : Int)) : Except Err Val) : HM Val Val)
        let t27 ← (MonadLift.monadLift (PyAlg.add t26 (Val.int (a : Nat)) : Except Err Val) : HM Val Val)
        let t28 ← toIdx t27
        addKey 1 (t28 :: k) (some (Val.int (-1)))
        pure (ForInStep.yield PUnit.unit)) s
        = (.ok (ForInStep.yield PUnit.unit), { s with stores := updSlot s.stores 1 (k.idx * d + a) (some (some (Val.int (-1)))) }) := by
      intro s
      simp only [runS_bind, mul_intV, add_intV, runS_lift_ok, e1, runS_toIdx, runS_addKey, runS_pure]
      rfl
    rw [List.map_cons, List.forIn_cons, runS_bind, step]
    simp only [ih]
    congr 2
    funext sid j
    by_cases h1 : sid = 1 <;> by_cases h2 : j = k.idx * d + a <;> simp [updSlot, h1, h2]

theorem clearSlots_spec (d : Nat) (k : Key) (m : Nat) (ws : Nat → Option Nat) (j : Nat) :
    clearSlots d k m ws j = if j ∈ (List.range m).map (fun o => k.idx * d + o) then none else ws j := by
  induction m generalizing ws with
  | zero => simp [clearSlots]
  | succ m ih =>
    simp only [clearSlots, ih, List.range_succ, List.map_append, List.mem_append, List.map_cons, List.map_nil, List.mem_singleton]
    by_cases h1 : j ∈ (List.range m).map (fun o => k.idx * d + o)
    · simp [h1]
    · by_cases h2 : j = k.idx * d + m <;> simp [h1, h2, upd]

theorem mem_slots (d : Nat) (hd : 0 < d) (i j : Nat) : j ∈ (List.range d).map (fun o => i * d + o) ↔ j / d = i := by
  constructor
  · intro h
    obtain ⟨o, ho, rfl⟩ := List.mem_map.mp h
    exact slot_div i d o (by simpa using ho)
  · intro h
    refine List.mem_map.mpr ⟨j % d, by simpa using Nat.mod_lt j hd, ?_⟩
    subst h
    rw [Nat.mul_comm]
    exact Nat.div_add_mod j d

theorem LinkH_roll_ring_create (w s : Nat) (hw : 0 < w) (hs : 0 < s) (st : RollSt) (k : Key) :
    runS (Gen.roll_ring_on_next (.int (s : Int)) (.int (density w s : Int)) (.int (w : Int)) (.create k))
        { stores := repRoll (density w s) st, out := [] }
      = (.ok (), { stores := repRoll (density w s) (rollStep w s st (Ev.create k : Ev Val)).1, out := (rollStep w s st (Ev.create k : Ev Val)).2.1,
                   outer := (rollStep w s st (Ev.create k : Ev Val)).2.2.map OEv.toEv }) := by
  have hd := density_pos w s hs hw
  obtain ⟨d, hdd⟩ : ∃ d, density w s = d := ⟨_, rfl⟩
  rw [hdd] at hd ⊢
  simp only [Gen.roll_ring_on_next, PyAlg.int, runS_bind, runS_addKey, liftM, monadLift, range_natV, runS_lift_ok, create_loop, runS_emitOuter]
  simp only [rollStep, hdd, List.map_cons, List.map_nil, OEv.toEv, List.nil_append]
  congr 2
  funext sid j
  have hk : Key.idx (k.idx :: k) = k.idx := rfl
  by_cases h1 : sid = 1
  · subst h1
    by_cases h2 : j / d = k.idx
    · simp [repRoll, ringSt, upd, clearSlots_spec, mem_slots d hd, h2, encRingW]
    · simp [repRoll, ringSt, updSlot, upd, clearSlots_spec, mem_slots d hd, h2, hk]
  · by_cases h3 : sid = 0
    · subst h3
      by_cases h4 : j = k.idx <;> simp [repRoll, ringSt, updSlot, upd, h4, hk, encRingN]
    · simp [repRoll, ringSt, updSlot, h1, h3]

/-- **`_roll` (roll with window ≠ stride), the ring of `density` window slots**: the handler generated from
rxsci/data/roll.py is the model's `rollStep`, on every event whose key is live, from every state in which the open windows
of that key started at or before its item counter (`hwf`; an invariant of the reachable states, `ringInv_wf`) -/
theorem LinkH_roll_ring (w s : Nat) (hw : 0 < w) (hs : 0 < s) (st : RollSt) (ev : Ev Val)
    (hlive : ∀ k, ((∃ v, ev = .next k v) ∨ ev = .done k ∨ (∃ e, ev = .err k e)) → st.n k.idx ≠ none)
    (hwf : ∀ k v n, ev = .next k v → st.n k.idx = some n →
      ∀ o, o < density w s → ∀ n0, st.w (k.idx * density w s + o) = some n0 → n0 ≤ n) :
    runH2 (Gen.roll_ring_on_next (.int (s : Int)) (.int (density w s : Int)) (.int (w : Int)) ev) (repRoll (density w s) st)
      = (.ok (), repRoll (density w s) (rollStep w s st ev).1, (rollStep w s st ev).2.1, (rollStep w s st ev).2.2.map OEv.toEv) := by
  rw [runH2_eq]
  cases ev with
  | create k => rw [LinkH_roll_ring_create w s hw hs st k]
  | next k v =>
    cases h : st.n k.idx with
    | none => exact absurd h (hlive k (Or.inl ⟨v, rfl⟩))
    | some n =>
      rw [LinkH_roll_ring_next w s hw hs st k v n h (hwf k v n rfl h)]
      simp [rollStep, h]
  | done k =>
    cases h : st.n k.idx with
    | none => exact absurd h (hlive k (Or.inr (Or.inl rfl)))
    | some n => rw [LinkH_roll_ring_done w s hw hs st k n h]
  | err k e =>
    cases h : st.n k.idx with
    | none => exact absurd h (hlive k (Or.inr (Or.inr ⟨e, rfl⟩)))
    | some n => rw [LinkH_roll_ring_err w s hw hs st k e n h]
  | fatal e => simp [Gen.roll_ring_on_next, rollStep, runS_emit]

/-- the hypothesis `hwf` of `LinkH_roll_ring` holds in every state the simulation invariant of C05 (`RingInv`, established for
all reachable states by `rollRingSim`) describes -/
theorem ringInv_wf {w s : Nat} {live : List Key} {st : RollSt} {T : Key → Option (Nat × Slots)} {nm : Naming}
    (h : RingInv (α := Val) w s live st T nm) (k : Key) (hk : k ∈ live) (n : Nat) (hn : st.n k.idx = some n) :
    ∀ o, o < density w s → ∀ n0, st.w (k.idx * density w s + o) = some n0 → n0 ≤ n := by
  intro o ho n0 h0
  obtain ⟨n', sl, g1, _, ⟨xs, ob, c, hr⟩, g4, _⟩ := h.live_ k hk
  rw [g1] at hn
  cases hn
  rw [g4 o ho] at h0
  obtain ⟨j, hj, _, hopen⟩ := (hr.slots o ho n0).mp h0
  have h1 := hr.hn
  simp only at h1
  unfold openAt at hopen
  omega

/-- the hypotheses of `LinkH_roll_ring` are satisfiable with an open window (window 3, stride 2: density 2; key 0 has seen one
item and its window 0 is open) -/
example :
    let st : RollSt := ⟨fun i => if i = 0 then some 1 else none, fun j => if j = 0 then some 0 else none⟩
    st.n (Key.idx [0]) ≠ none ∧
      (∀ o, o < density 3 2 → ∀ n0, st.w (Key.idx [0] * density 3 2 + o) = some n0 → n0 ≤ 1) ∧ st.w 0 = some 0 := by
  refine ⟨by simp [Key.idx], ?_, by simp⟩
  intro o _ n0
  by_cases h : o = 0 <;> simp [Key.idx, h]
  intro h0; omega

end Rx

import RxGen.Handlers
import RxModel.Lemmas.HandlerSim
import RxModel.Split
/-!
# C06 link theorem: the `on_next` handler of `split_mux`, generated from rxsci/data/split.py, IS the model's `splitStep`
-/
namespace Rx
open HM


theorem beq_val (a b : Val) : (PyAlg.eq a b) = decide (a = b) := by
  show (a == b) = _
  by_cases h : a = b <;> simp [h]

/-- `split_mux`: the generated handler is the model's `splitStep` (inner events and the events sent around the inner pipeline),
for every predicate, on every event whose key has a live slot -/
theorem LinkH_split (p : Val → Val) (st : SpSt Val) (ev : Ev Val)
    (hlive : ∀ k, ((∃ v, ev = .next k v) ∨ ev = .done k ∨ (∃ e, ev = .err k e)) → st k.idx ≠ none) :
    runH2 (Gen.split_mux_on_next (fun v => .ok (p v)) ev) (repSt id st)
      = (.ok (), repSt id (splitStep p st ev).1, (splitStep p st ev).2.1, (splitStep p st ev).2.2.map OEv.toEv) := by
  cases ev with
  | create k => hm_simp [runH2, emitOuter, Gen.split_mux_on_next, splitStep, repSt_upd, OEv.toEv]
  | next k v =>
    cases h : st k.idx with
    | none => exact absurd h (hlive k (Or.inl ⟨v, rfl⟩))
    | some s =>
      cases s with
      | none => hm_simp [runH2, emitOuter, Gen.split_mux_on_next, splitStep, repSt_upd, h, repSt, ik]
      | some c =>
        by_cases hc : p v = c
        · hm_simp [runH2, emitOuter, Gen.split_mux_on_next, splitStep, repSt_upd, h, repSt, ik, beq_val, hc]
        · hm_simp [runH2, emitOuter, Gen.split_mux_on_next, splitStep, repSt_upd, h, repSt, ik, beq_val, hc]
  | done k =>
    cases h : st k.idx with
    | none => exact absurd h (hlive k (Or.inr (Or.inl rfl)))
    | some s => cases s <;> hm_simp [runH2, emitOuter, Gen.split_mux_on_next, splitStep, repSt_upd, h, repSt, ik, OEv.toEv]
  | err k e =>
    cases h : st k.idx with
    | none => exact absurd h (hlive k (Or.inr (Or.inr ⟨e, rfl⟩)))
    | some s => cases s <;> hm_simp [runH2, emitOuter, Gen.split_mux_on_next, splitStep, repSt_upd, h, repSt, ik, OEv.toEv]
  | fatal e => hm_simp [runH2, emitOuter, Gen.split_mux_on_next, splitStep]


end Rx

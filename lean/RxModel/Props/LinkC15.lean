import RxGen.Text
/-!
# C15 link theorems: the closures of `line.unframe` and `line.frame`, generated from rxsci/framing/line.py into the monad `TM`
(RxModel/PyText.lean: str = List Char, `s.split(c)` = `splitC c s`, indexing with negative indices and IndexError, slices,
`x or y`), ARE the model's `lineFeed` / `lineFinish` / `lineFrame` (Framing.lean) — the functions `C15_line`, `C15_line_rechunk`
and, through the csv and json loaders, C18 and C19 are about.  `LinkT_unframe_run`: driven chunk by chunk and completed, the
generated closures emit exactly `lineRun`.  `LinkB_lp_next`: `on_next` of `length_prefix.unframe` (rxsci/framing/length_prefix.py) is
`lpFeed`, for every prefix size ≥ 1 and both byte orders (`lp_loop`: the loop delivers the frames `lpParse` finds and stops where the
carried-over bytes start).
-/
namespace Rx
open TM

def runT {α} (m : TM α) (s : TSt) : Except Err α × TSt := (ExceptT.run m).run s

theorem runT_bind {α β} (m : TM α) (f : α → TM β) (s : TSt) :
    runT (m >>= f) s = match runT m s with
      | (.ok a, s') => runT (f a) s'
      | (.error e, s') => (.error e, s') := by
  simp only [runT, ExceptT.run, bind, ExceptT.bind, ExceptT.mk, StateT.bind, StateT.run, ExceptT.bindCont]
  cases h : m s with
  | mk a s' => cases a <;> simp [pure, StateT.pure]

theorem runT_pure {α} (a : α) (s : TSt) : runT (pure a : TM α) s = (.ok a, s) := rfl
theorem runT_getVar (k : Nat) (s : TSt) : runT (getVar k) s = (.ok (s.vars k), s) := rfl
theorem runT_setVar (k : Nat) (v : List Char) (s : TSt) :
    runT (setVar k v) s = (.ok (), { s with vars := fun j => if j = k then v else s.vars j }) := rfl
theorem runT_emit (v : List Char) (s : TSt) : runT (emit v) s = (.ok (), { s with out := s.out ++ [v] }) := rfl
theorem runT_complete (s : TSt) : runT complete s = (.ok (), { s with completed := true }) := rfl
theorem runT_lift_ok {α} (a : α) (s : TSt) : runT (MonadLift.monadLift (Except.ok a : Except Err α)) s = (.ok a, s) := rfl
theorem runT_lift_err {α} (e : Err) (s : TSt) : runT (MonadLift.monadLift (Except.error e : Except Err α)) s = (.error e, s) := rfl
theorem run_eq (m : TM Unit) (s : TSt) : TM.run m s = runT m s := rfl

/-- a loop that only emits -/
theorem emit_lines (l : List (List Char)) (s : TSt) :
    runT (forIn l PUnit.unit (fun line (_ : PUnit) => do TM.emit line; pure (ForInStep.yield PUnit.unit))) s
      = (.ok PUnit.unit, { s with out := s.out ++ l }) := by
  induction l generalizing s with
  | nil => simp [runT_pure]
  | cons a l ih =>
    simp only [List.forIn_cons, runT_bind, runT_emit, runT_pure, ih, List.append_assoc, List.singleton_append]

theorem split_ne_nil (c : Char) (s : List Char) : splitC c s ≠ [] := by
  induction s with
  | nil => simp [splitC]
  | cons a s ih =>
    unfold splitC
    split
    · simp
    · split <;> simp

theorem getItem_zero {α} (a : α) (l : List α) : PyStr.getItem (a :: l) 0 = .ok a := by
  simp [PyStr.getItem, PyStr.idx]

theorem setItem_zero {α} (a v : α) (l : List α) : PyStr.setItem (a :: l) 0 v = .ok (v :: l) := by
  simp [PyStr.setItem, PyStr.idx]

theorem getItem_last (a : List Char) (l : List (List Char)) : PyStr.getItem (a :: l) (-1) = .ok (lastP (a :: l)) := by
  have h1 : PyStr.idx (a :: l).length (-1) = some l.length := by
    simp [PyStr.idx]
  have h2 : (a :: l)[l.length]? = some ((a :: l).getLastD []) := by
    rw [List.getLastD_eq_getLast?, List.getLast?_eq_getElem?]
    simp
  unfold PyStr.getItem
  rw [h1]
  simp only [h2, lastP]

theorem slice_init {α} (l : List α) : PyStr.slice l 0 (-1) = l.dropLast := by
  have hb : PyStr.bound l.length (-1) = l.length - 1 := by
    simp only [PyStr.bound]
    have : ¬ (0 : Int) ≤ -1 := by omega
    simp only [this, if_false]
    have : (-(-1 : Int)).toNat = 1 := by decide
    rw [this]
    cases l with
    | nil => simp
    | cons a l => simp
  have h0 : PyStr.bound l.length 0 = 0 := by simp [PyStr.bound]
  simp [PyStr.slice, hb, h0, List.dropLast_eq_take]

theorem orElse_nil (x : List Char) : PyStr.orElse x [] = x := by
  unfold PyStr.orElse
  cases x <;> simp

/-- `line.unframe.on_next`, generated from rxsci/framing/line.py, is the model's `lineFeed`: the lines emitted for the chunk and the
new carry -/
theorem LinkT_unframe_next (acc chunk : List Char) (out : List (List Char)) (rest : Nat → List Char) (c : Bool) :
    TM.run (Gen.line_unframe_on_next chunk) { vars := fun j => if j = 0 then acc else rest j, out := out, completed := c }
      = (.ok (), { vars := fun j => if j = 0 then (lineFeed acc chunk).2 else rest j, out := out ++ (lineFeed acc chunk).1,
                   completed := c }) := by
  rw [run_eq]
  unfold Gen.line_unframe_on_next
  simp only [PyStr.split]
  cases hs : splitC '\n' chunk with
  | nil => exact absurd hs (split_ne_nil _ _)
  | cons l0 rest' =>
    simp only [runT_bind, runT_getVar, if_true, getItem_zero, setItem_zero, getItem_last, runT_lift_ok, runT_setVar, orElse_nil,
      slice_init, emit_lines, liftM, monadLift]
    simp only [lineFeed, lineFeedG, hs, runT_pure]
    congr 2
    funext j
    by_cases hj : j = 0 <;> simp [hj]


/-- `line.unframe.on_completed`: a non-empty carry is delivered once, then completion -/
theorem LinkT_unframe_completed (acc : List Char) (out : List (List Char)) (rest : Nat → List Char) :
    TM.run Gen.line_unframe_on_completed { vars := fun j => if j = 0 then acc else rest j, out := out }
      = (.ok (), { vars := fun j => if j = 0 then acc else rest j, out := out ++ lineFinish acc, completed := true }) := by
  rw [run_eq]
  unfold Gen.line_unframe_on_completed
  by_cases h : acc.length > 0
  · simp [runT_bind, runT_getVar, runT_emit, runT_complete, h, lineFinish, lineFinishG]
  · simp [runT_bind, runT_getVar, runT_complete, runT_pure, h, lineFinish, lineFinishG]

/-- `line.frame.on_next`: the item followed by a line feed -/
theorem LinkT_frame_next (i : List Char) (s : TSt) :
    TM.run (Gen.line_frame_on_next i) s = (.ok (), { s with out := s.out ++ [lineFrame i] }) := by
  rw [run_eq]
  simp [Gen.line_frame_on_next, runT_emit, PyStr.join, lineFrame]

/-- the closure starts with an empty carry -/
theorem LinkT_unframe_init : Gen.line_unframe_init = [[]] := rfl

/-- how the subscription drives the closures: `on_next` for every chunk, then `on_completed` -/
def unframeAll : List (List Char) → TM Unit
  | [] => Gen.line_unframe_on_completed
  | c :: cs => do Gen.line_unframe_on_next c; unframeAll cs

/-- a whole run of the generated closures over a list of chunks is the model's `lineRun` (whose output is the list of lines of
the concatenated text for every chunking: `C15_line`, `C15_line_rechunk`) -/
theorem LinkT_unframe_run (chunks : List (List Char)) (acc : List Char) (out : List (List Char)) (rest : Nat → List Char) :
    TM.run (unframeAll chunks) { vars := fun j => if j = 0 then acc else rest j, out := out }
      = (.ok (), { vars := fun j => if j = 0 then (chunks.foldl (fun a c => (lineFeed a c).2) acc) else rest j,
                   out := out ++ (lineRun acc chunks).1.flatten ++ (lineRun acc chunks).2, completed := true }) := by
  induction chunks generalizing acc out with
  | nil =>
    have := LinkT_unframe_completed acc out rest
    simp [unframeAll, this, lineRun, lineRunG, lineFinish]
  | cons c cs ih =>
    have h1 := LinkT_unframe_next acc c out rest false
    have h2 := ih (lineFeed acc c).2 (out ++ (lineFeed acc c).1)
    simp only [run_eq] at h1 h2 ⊢
    simp only [unframeAll, runT_bind]
    rw [h1]
    simp only []
    rw [h2]
    simp [lineRun, lineRunG, lineFeed, List.append_assoc]

/-! ## `length_prefix.unframe`: a `BytesIO` cursor and a `while` loop (fuel `bio_len + 1`: every continuing pass consumes at least
`prefix_size ≥ 1` bytes) -/

def runB {α} (m : BM α) (s : BSt) : Except Err α × BSt := (ExceptT.run m).run s

theorem runB_bind {α β} (m : BM α) (f : α → BM β) (s : BSt) :
    runB (m >>= f) s = match runB m s with
      | (.ok a, s') => runB (f a) s'
      | (.error e, s') => (.error e, s') := by
  simp only [runB, ExceptT.run, bind, ExceptT.bind, ExceptT.mk, StateT.bind, StateT.run, ExceptT.bindCont]
  cases h : m s with
  | mk a s' => cases a <;> simp [pure, StateT.pure]

theorem runB_pure {α} (a : α) (s : BSt) : runB (pure a : BM α) s = (.ok a, s) := rfl
theorem runB_emit (v : List Nat) (s : BSt) : runB (BM.emit v) s = (.ok (), { s with out := s.out ++ [v] }) := rfl
theorem runB_getVar (k : Nat) (s : BSt) : runB (BM.getVar k) s = (.ok (s.vars k), s) := rfl
theorem runB_setVar (k : Nat) (v : List Nat) (s : BSt) :
    runB (BM.setVar k v) s = (.ok (), { s with vars := fun j => if j = k then v else s.vars j }) := rfl

/-- the `while` loop of `length_prefix.unframe.on_next` from offset `off` of the buffer `B` (cursor at `off`): it delivers the
frames `lpParse` finds in `B.drop off` and stops at the offset where the carried-over bytes start -/
theorem lp_loop (big : Bool) (p : Nat) (hp : 0 < p) (B : List Nat) :
    ∀ (fuel off : Nat) (s : BSt), off ≤ B.length → B.length - off < fuel →
      ∃ off' pos', runB (Gen.lp_unframe_loop1 p big B.length fuel off ⟨B, off⟩) s
          = (.ok (off', ⟨B, pos'⟩), { s with out := s.out ++ (lpParse big p (B.drop off)).1 })
        ∧ B.drop off' = (lpParse big p (B.drop off)).2 := by
  intro fuel
  induction fuel with
  | zero => intro off s _ h; omega
  | succ fuel ih =>
    intro off s hoff hfuel
    rw [Gen.lp_unframe_loop1]
    rw [lpParse]
    by_cases h1 : p ≤ B.length - off
    · have c1 : (Int.ofNat B.length - Int.ofNat off) ≥ Int.ofNat p := by
        simp only [Int.ofNat_eq_natCast]; omega
      have hlen : (B.drop off).length = B.length - off := by simp
      have hread : ((⟨B, off⟩ : BIO).read p).1 = (B.drop off).take p := rfl
      have hpos : ((⟨B, off⟩ : BIO).read p).2 = ⟨B, off + p⟩ := by
        simp [BIO.read, List.length_take, hlen, Nat.min_eq_left h1]
      simp only [c1, if_true, hread, hpos, hlen, hp, h1, and_self, dite_true]
      by_cases h2 : fromBytes big ((B.drop off).take p) ≤ B.length - off - p
      · have c2 : ((Int.ofNat B.length - Int.ofNat off) - Int.ofNat p) ≥ Int.ofNat (fromBytes big ((B.drop off).take p)) := by
          simp only [Int.ofNat_eq_natCast]; omega
        generalize hsz : fromBytes big ((B.drop off).take p) = size at *
        have hread2 : ((⟨B, off + p⟩ : BIO).read size).1 = ((B.drop off).drop p).take size := by
          simp [BIO.read, List.drop_drop, Nat.add_comm]
        have hpos2 : ((⟨B, off + p⟩ : BIO).read size).2 = ⟨B, off + (size + p)⟩ := by
          have : ((B.drop (off + p)).take size).length = size := by
            simp [List.length_take]; omega
          simp [BIO.read, this]; omega
        simp only [c2, if_true, h2, dite_true, runB_bind, runB_emit, hread2, hpos2]
        obtain ⟨off', pos', h3, h4⟩ := ih (off + (size + p)) { s with out := s.out ++ [((B.drop off).drop p).take size] } (by omega) (by omega)
        have hd : B.drop (off + (size + p)) = (B.drop off).drop (p + size) := by
          simp [List.drop_drop]; congr 1; omega
        rw [hd] at h3 h4
        refine ⟨off', pos', ?_, h4⟩
        rw [h3]
        simp [List.append_assoc]
      · have c2 : ¬ (((Int.ofNat B.length - Int.ofNat off) - Int.ofNat p) ≥ Int.ofNat (fromBytes big ((B.drop off).take p))) := by
          simp only [Int.ofNat_eq_natCast]; omega
        simp only [c2, if_false, h2, dite_false, runB_pure]
        exact ⟨off, off + p, by simp, rfl⟩
    · have c1 : ¬ ((Int.ofNat B.length - Int.ofNat off) ≥ Int.ofNat p) := by
        simp only [Int.ofNat_eq_natCast]; omega
      have hlen : (B.drop off).length = B.length - off := by simp
      have : ¬ (0 < p ∧ p ≤ (B.drop off).length) := by rw [hlen]; omega
      simp only [c1, if_false, this, dite_false, runB_pure]
      exact ⟨off, off, by simp, rfl⟩


theorem bio_writes (acc chunk : List Nat) : ((BIO.empty.write acc).write chunk).data = acc ++ chunk := by
  simp [BIO.empty, BIO.write]

/-- **`length_prefix.unframe.on_next`**, generated from rxsci/framing/length_prefix.py, is the model's `lpFeed`: the frames
delivered for the chunk and the bytes carried over — for every prefix size ≥ 1 and both byte orders -/
theorem LinkB_lp_next (big : Bool) (p : Nat) (hp : 0 < p) (acc chunk : List Nat) (out : List (List Nat)) (rest : Nat → List Nat)
    (c : Bool) :
    BM.run (Gen.lp_unframe_on_next p big chunk) { vars := fun j => if j = 0 then acc else rest j, out := out, completed := c }
      = (.ok (), { vars := fun j => if j = 0 then (lpFeed big p acc chunk).2 else rest j, out := out ++ (lpFeed big p acc chunk).1,
                   completed := c }) := by
  have hrun : ∀ (m : BM Unit) s, BM.run m s = runB m s := fun _ _ => rfl
  rw [hrun]
  unfold Gen.lp_unframe_on_next
  simp only [runB_bind, runB_getVar, if_true, BIO.len, BIO.seek, bio_writes]
  obtain ⟨off', pos', h1, h2⟩ := lp_loop big p hp (acc ++ chunk) ((acc ++ chunk).length + 1) 0
    { vars := fun j => if j = 0 then acc else rest j, out := out, completed := c } (by omega) (by omega)
  rw [h1]
  simp only [runB_setVar, BIO.readAll, lpFeed]
  simp only [List.drop_zero] at h2 ⊢
  rw [h2]
  congr 2
  funext j
  by_cases hj : j = 0 <;> simp [hj]

theorem runB_onError (e : Err) (s : BSt) : runB (BM.onError e) s = (.ok (), { s with errs := s.errs ++ [e] }) := rfl
theorem runB_toBytes_ok (big : Bool) (p n : Nat) (h : n < 256 ^ p) (s : BSt) :
    runB (BM.toBytes big p n) s = (.ok (toBytes big p n), s) := by
  simp only [BM.toBytes, h, if_true]; rfl
theorem runB_toBytes_err (big : Bool) (p n : Nat) (h : ¬ n < 256 ^ p) (s : BSt) :
    runB (BM.toBytes big p n) s = (.error "OverflowError", s) := by
  simp only [BM.toBytes, h, if_false]; rfl

theorem pow_mtu (p : Nat) : 2 ^ (p * 8) = 256 ^ p := by
  rw [Nat.mul_comm, Nat.pow_mul]

/-- **`length_prefix.frame.on_next`**, generated from rxsci/framing/length_prefix.py, is the model's `lpFrame`: an item that fits
its prefix is emitted as prefix ++ item and nothing else happens; an item that does not fit is never emitted — the closure ends
with `OverflowError` (after notifying `ValueError` when the item is longer than `mtu`). -/
theorem LinkB_lp_frame (big : Bool) (p : Nat) (item : List Nat) (s : BSt) :
    match lpFrame big p item with
    | some x => BM.run (Gen.lp_frame_on_next p big item) s = (.ok (), { s with out := s.out ++ [x] })
    | none => ∃ s', BM.run (Gen.lp_frame_on_next p big item) s = (.error "OverflowError", s') ∧ s'.out = s.out := by
  have hrun : ∀ (m : BM Unit) s, BM.run m s = runB m s := fun _ _ => rfl
  unfold lpFrame
  by_cases h : item.length < 256 ^ p
  · simp only [h, if_true]
    rw [hrun]
    unfold Gen.lp_frame_on_next
    have hn : ¬ item.length > 2 ^ (p * 8) := by rw [pow_mtu]; omega
    simp only [hn, if_false, runB_bind, runB_toBytes_ok big p _ h, runB_emit]
  · simp only [h, if_false]
    by_cases hg : item.length > 2 ^ (p * 8)
    · refine ⟨{ s with errs := s.errs ++ ["ValueError"] }, ?_, rfl⟩
      rw [hrun]
      unfold Gen.lp_frame_on_next
      simp only [hg, if_true, runB_bind, runB_onError, runB_toBytes_err big p _ h]
    · refine ⟨s, ?_, rfl⟩
      rw [hrun]
      unfold Gen.lp_frame_on_next
      simp only [hg, if_false, runB_bind, runB_toBytes_err big p _ h]


end Rx

import RxModel.Spec
/-!
# C07 — time_split sessions respect active/inactive timeouts and closing items

About `timeSplitLS c`, the splitter of one parent key lifetime written as `time_split_mux.on_next`
(state: reference timestamp `start` and previous timestamp `last`; timestamps and timeouts are
integers).  All four present/absent combinations of the timeouts are one `∀` over `Option`;
no monotonicity of timestamps is assumed.
-/
namespace Rx

/-- the rule of the statement, for an item with timestamp `t` when the window's reference timestamp
is `ref` and the previous item's timestamp is `last` -/
def expired (active inactive : Option Int) (ref last t : Int) : Prop :=
  (∃ a, active = some a ∧ t ≥ ref + a) ∨ (∃ b, inactive = some b ∧ t ≥ last + b)

theorem tsExpired_iff {α} (c : TsCfg α) (ref last t : Int) :
    tsExpired c ref last t = true ↔ expired c.active c.inactive ref last t := by
  unfold tsExpired expired
  cases c.active <;> cases c.inactive <;> simp

/-- invariant: the observer's open window and the completed ones concatenate to the items so far;
`last` is the timestamp of the previous item -/
structure TInv {α} (c : TsCfg α) (xs : List α) (st : Option (Int × Int)) (ob : Obs α) : Prop where
  none_iff : st = none ↔ xs = []
  opn : xs ≠ [] → ∃ cur, ob.opn 0 = some cur ∧ ob.closed.flatten ++ cur = xs
  empty : xs = [] → ob.closed = [] ∧ ob.opn 0 = none
  last : ∀ s l, st = some (s, l) → ∃ y, xs.getLast? = some y ∧ l = c.time y

theorem tinv_step {α} (c : TsCfg α) (xs : List α) (st : Option (Int × Int)) (ob : Obs α) (x : α)
    (h : TInv c xs st ob) :
    TInv c (xs ++ [x]) ((timeSplitLS c).next st x).1 (obsRun ob ((timeSplitLS c).next st x).2) := by
  obtain ⟨hn, ho, he, hl⟩ := h
  cases st with
  | none =>
    have hxs : xs = [] := hn.mp rfl
    subst hxs
    obtain ⟨hc0, ho0⟩ := he rfl
    simp only [timeSplitLS, List.nil_append]
    by_cases hexp : tsExpired c (c.time x) (c.time x) (c.time x) = true
    · simp only [hexp, if_true]
      refine ⟨by simp, fun _ => ⟨[x], ?_, ?_⟩, by simp, ?_⟩
      · simp [obsRun, obsStep, upd]
      · simp [obsRun, obsStep, upd, hc0]
      · intro s l hsl; simp at hsl; exact ⟨x, by simp, hsl.2.symm⟩
    · simp only [hexp, Bool.false_eq_true, if_false]
      by_cases hcl : c.closes x = true
      · simp only [hcl, if_true]
        by_cases hi : c.incl = true
        · simp only [hi, if_true]
          refine ⟨by simp, fun _ => ⟨[], ?_, ?_⟩, by simp, ?_⟩
          · simp [obsRun, obsStep, upd]
          · simp [obsRun, obsStep, upd, hc0]
          · intro s l hsl; simp at hsl; exact ⟨x, by simp, hsl.2.symm⟩
        · simp only [hi, Bool.false_eq_true, if_false]
          refine ⟨by simp, fun _ => ⟨[x], ?_, ?_⟩, by simp, ?_⟩
          · simp [obsRun, obsStep, upd]
          · simp [obsRun, obsStep, upd, hc0]
          · intro s l hsl; simp at hsl; exact ⟨x, by simp, hsl.2.symm⟩
      · simp only [hcl, Bool.false_eq_true, if_false]
        refine ⟨by simp, fun _ => ⟨[x], ?_, ?_⟩, by simp, ?_⟩
        · simp [obsRun, obsStep, upd]
        · simp [obsRun, obsStep, upd, hc0]
        · intro s l hsl; simp at hsl; exact ⟨x, by simp, hsl.2.symm⟩
  | some sl =>
    obtain ⟨s, l⟩ := sl
    have hxs : xs ≠ [] := fun hh => by have := hn.mpr hh; simp at this
    obtain ⟨cur, hcur, hcat⟩ := ho hxs
    simp only [timeSplitLS, List.nil_append]
    by_cases hexp : tsExpired c s l (c.time x) = true
    · simp only [hexp, if_true]
      refine ⟨by simp, fun _ => ⟨[x], ?_, ?_⟩, by simp, ?_⟩
      · simp [obsRun, obsStep, upd]
      · simp [obsRun, obsStep, upd, hcur, ← hcat]
      · intro s' l' hsl; simp at hsl; exact ⟨x, by simp, hsl.2.symm⟩
    · simp only [hexp, Bool.false_eq_true, if_false]
      by_cases hcl : c.closes x = true
      · simp only [hcl, if_true]
        by_cases hi : c.incl = true
        · simp only [hi, if_true]
          refine ⟨by simp, fun _ => ⟨[], ?_, ?_⟩, by simp, ?_⟩
          · simp [obsRun, obsStep, upd]
          · simp [obsRun, obsStep, upd, hcur, ← hcat]
          · intro s' l' hsl; simp at hsl; exact ⟨x, by simp, hsl.2.symm⟩
        · simp only [hi, Bool.false_eq_true, if_false]
          refine ⟨by simp, fun _ => ⟨[x], ?_, ?_⟩, by simp, ?_⟩
          · simp [obsRun, obsStep, upd]
          · simp [obsRun, obsStep, upd, hcur, ← hcat]
          · intro s' l' hsl; simp at hsl; exact ⟨x, by simp, hsl.2.symm⟩
      · simp only [hcl, Bool.false_eq_true, if_false]
        refine ⟨by simp, fun _ => ⟨cur ++ [x], ?_, ?_⟩, by simp, ?_⟩
        · simp [obsRun, obsStep, hcur]
        · simp [obsRun, obsStep, ← hcat]
        · intro s' l' hsl; simp at hsl; exact ⟨x, by simp, hsl.2.symm⟩

theorem tinv_run {α} (c : TsCfg α) :
    ∀ (xs pre : List α) (st : Option (Int × Int)) (ob : Obs α), TInv c pre st ob →
      TInv c (pre ++ xs) (runObsRaw (timeSplitLS c).next (st, ob) xs).1 (runObsRaw (timeSplitLS c).next (st, ob) xs).2 := by
  intro xs
  induction xs with
  | nil => intro pre st ob h; simpa [runObsRaw] using h
  | cons x xs ih =>
    intro pre st ob h
    have h1 := tinv_step c pre st ob x h
    have h2 := ih (pre ++ [x]) _ _ h1
    simpa [runObsRaw, List.append_assoc] using h2

/-- **partition**: every item of the key is delivered to exactly one window, in order: the windows
completed while items arrive followed by the window completed at the key's completion concatenate
to the input -/
theorem C07_partition {α} (c : TsCfg α) (xs : List α) :
    (((timeSplitLS c).windows xs).1 ++ ((timeSplitLS c).windows xs).2).flatten = xs := by
  have h := tinv_run c xs [] none Obs.empty ⟨by simp, by simp, by simp [Obs.empty], by simp⟩
  simp only [List.nil_append] at h
  show ((runObsRaw (timeSplitLS c).next (none, Obs.empty) xs).2.closed ++
    (obsRun ⟨(runObsRaw (timeSplitLS c).next (none, Obs.empty) xs).2.opn, []⟩
      ((timeSplitLS c).fin (runObsRaw (timeSplitLS c).next (none, Obs.empty) xs).1)).closed).flatten = xs
  generalize (runObsRaw (timeSplitLS c).next (none, Obs.empty) xs).1 = st at h
  generalize (runObsRaw (timeSplitLS c).next (none, Obs.empty) xs).2 = ob at h
  obtain ⟨hn, ho, he, hl⟩ := h
  cases xs with
  | nil =>
    have := he rfl
    have hst : st = none := hn.mpr rfl
    subst hst
    simp [timeSplitLS, obsRun, this.1]
  | cons x xs =>
    obtain ⟨cur, hcur, hcat⟩ := ho (by simp)
    cases st with
    | none => have := hn.mp rfl; simp at this
    | some sl => simp [timeSplitLS, obsRun, obsStep, hcur, hcat]

/-- **the rule, item by item** (with the state made explicit): from reference timestamp `ref`,
previous timestamp `last` and an open window holding `cur`, an item `x` with timestamp `t`
* opens a new window — `cur` is completed, the new window starts with `x` — iff
  `t ≥ ref + active` or `t ≥ last + inactive` (inclusive, each only when configured);
* otherwise, when the closing mapper accepts it, completes the current window, `x` being its last
  item (`include_closing_item`) or the first of the next one;
* otherwise joins the current window;
and in every case the previous timestamp becomes `t`, and the reference timestamp becomes `t` exactly
when a window was completed. -/
theorem C07_step {α} (c : TsCfg α) (ref last : Int) (x : α) (cur : List α) (cl : List (List α))
    (opn : Nat → Option (List α)) (hop : opn 0 = some cur) :
    let r := (timeSplitLS c).next (some (ref, last)) x
    let ob := obsRun ⟨opn, cl⟩ r.2
    let t := c.time x
    let closes := c.closes x
    (expired c.active c.inactive ref last t →
        ob.closed = cl ++ [cur] ∧ ob.opn 0 = some [x] ∧ r.1 = some (t, t)) ∧
    (¬ expired c.active c.inactive ref last t → closes = true → c.incl = true →
        ob.closed = cl ++ [cur ++ [x]] ∧ ob.opn 0 = some [] ∧ r.1 = some (t, t)) ∧
    (¬ expired c.active c.inactive ref last t → closes = true → c.incl = false →
        ob.closed = cl ++ [cur] ∧ ob.opn 0 = some [x] ∧ r.1 = some (t, t)) ∧
    (¬ expired c.active c.inactive ref last t → closes = false →
        ob.closed = cl ∧ ob.opn 0 = some (cur ++ [x]) ∧ r.1 = some (ref, t)) := by
  intro r ob t closes
  refine ⟨?_, ?_, ?_, ?_⟩
  · intro he
    have : tsExpired c ref last (c.time x) = true := (tsExpired_iff c ref last _).mpr he
    simp [r, ob, t, timeSplitLS, this, obsRun, obsStep, upd, hop]
  · intro he hc hi
    have : tsExpired c ref last (c.time x) = false := by
      cases h : tsExpired c ref last (c.time x) with
      | false => rfl
      | true => exact absurd ((tsExpired_iff c ref last _).mp h) he
    simp only [closes] at hc
    simp [r, ob, t, timeSplitLS, this, hc, hi, obsRun, obsStep, upd, hop]
  · intro he hc hi
    have : tsExpired c ref last (c.time x) = false := by
      cases h : tsExpired c ref last (c.time x) with
      | false => rfl
      | true => exact absurd ((tsExpired_iff c ref last _).mp h) he
    simp only [closes] at hc
    simp [r, ob, t, timeSplitLS, this, hc, hi, obsRun, obsStep, upd, hop]
  · intro he hc
    have : tsExpired c ref last (c.time x) = false := by
      cases h : tsExpired c ref last (c.time x) with
      | false => rfl
      | true => exact absurd ((tsExpired_iff c ref last _).mp h) he
    simp only [closes] at hc
    simp [r, ob, t, timeSplitLS, this, hc, obsRun, obsStep, hop]

/-- the "previous timestamp" used by the rule really is the timestamp of the previous item -/
theorem C07_last_is_previous {α} (c : TsCfg α) (xs : List α) (y : α) (s l : Int)
    (h : (runObsRaw (timeSplitLS c).next (none, Obs.empty) (xs ++ [y])).1 = some (s, l)) :
    l = c.time y := by
  have hi := tinv_run c (xs ++ [y]) [] none Obs.empty ⟨by simp, by simp, by simp [Obs.empty], by simp⟩
  simp only [List.nil_append] at hi
  obtain ⟨z, hz, hl⟩ := hi.last s l h
  simp at hz
  rw [hl, hz]

/-! non-vacuity: the marble of the documentation, `time_split(5, 3)` -/
example : (timeSplitLS ⟨fun (n : Int) => n, some 5, some 3, none, true⟩).windows [1, 2, 3, 4, 5, 6, 10, 12] =
    ([[1, 2, 3, 4, 5], [6]], [[10, 12]]) := by decide

end Rx

import RxModel.Csv
import RxModel.Lemmas.Framing
import RxModel.Lemmas.CsvMerge
/-!
# C18 — CSV dump/load round-trips typed rows

Proved: string escaping is inverted by the two sequential `replace` calls of the parser for EVERY
string (`C18_unescape`), quoting/unquoting, decimal printing/parsing of ints, and the WHOLE-ROW
round trip for a one-character separator (`C18_row`): split, `merge_escape_parts` (strings that
contain the separator, quotes and escape characters anywhere), unquote, typed parsers.
Not proved (decided by the correspondence check and the real round-trip oracle): multi-character
separators, `float(str(x)) == x` (library contract).
-/
namespace Rx

/-! ### escaping -/

/-- after the first `replace` (escape characters doubled), then quotes escaped: token by token -/
theorem escapeStr_cons (esc : Char) (hq : esc ≠ '"') (c : Char) (s : Str) :
    escapeStr esc (c :: s) =
      (if c = esc then [esc, esc] else if c = '"' then [esc, '"'] else [c]) ++ escapeStr esc s := by
  unfold escapeStr replace1
  by_cases h1 : c = esc
  · subst h1
    simp [List.flatMap_cons, hq]
  · by_cases h2 : c = '"'
    · subst h2
      simp [List.flatMap_cons, h1]
    · simp [List.flatMap_cons, h1, h2]

theorem replace2_skip (a b c : Char) (new r : Str) (h : c ≠ a) :
    replace2 a b new (c :: r) = c :: replace2 a b new r := by
  cases r with
  | nil => simp [replace2]
  | cons d r => simp [replace2, h]

theorem replace2_hit (a b : Char) (new r : Str) : replace2 a b new (a :: b :: r) = new ++ replace2 a b new r := by
  simp [replace2]

theorem replace2_miss (a b d : Char) (new r : Str) (h : d ≠ b) :
    replace2 a b new (a :: d :: r) = a :: replace2 a b new (d :: r) := by
  simp [replace2, h]

/-- first parser `replace`: `esc esc → esc` turns the dumped text into "quotes escaped only" -/
theorem unescape_pass1 (esc : Char) (hq : esc ≠ '"') : ∀ s : Str,
    replace2 esc esc [esc] (escapeStr esc s) = replace1 '"' [esc, '"'] s := by
  intro s
  induction s with
  | nil => rfl
  | cons c s ih =>
    rw [escapeStr_cons esc hq]
    have hne : ('"' : Char) ≠ esc := fun h => hq h.symm
    by_cases h1 : c = esc
    · subst h1
      simp only [if_true, List.cons_append, List.nil_append]
      rw [replace2_hit, ih]
      simp [replace1, List.flatMap_cons, hq]
    · by_cases h2 : c = '"'
      · subst h2
        simp only [h1, if_false, if_true, List.cons_append, List.nil_append]
        rw [replace2_miss esc esc '"' _ _ hne, replace2_skip esc esc '"' _ _ hne, ih]
        simp [replace1, List.flatMap_cons]
      · simp only [h1, h2, if_false, List.cons_append, List.nil_append]
        rw [replace2_skip esc esc c _ _ h1, ih]
        simp [replace1, List.flatMap_cons, h2]

/-- text in which every quote is preceded by its escape character never starts with a quote -/
theorem quoted_head (esc : Char) (hq : esc ≠ '"') (s : Str) :
    (replace1 '"' [esc, '"'] s).head? ≠ some '"' := by
  cases s with
  | nil => simp [replace1]
  | cons c s =>
    by_cases h : c = '"'
    · simp [replace1, List.flatMap_cons, h, hq]
    · simp [replace1, List.flatMap_cons, h]

/-- second parser `replace`: `esc " → "` -/
theorem unescape_pass2 (esc : Char) (hq : esc ≠ '"') : ∀ s : Str,
    replace2 esc '"' ['"'] (replace1 '"' [esc, '"'] s) = s := by
  intro s
  induction s with
  | nil => rfl
  | cons c s ih =>
    have hhead := quoted_head esc hq s
    by_cases h : c = '"'
    · subst h
      have hc : replace1 '"' [esc, '"'] ('"' :: s) = esc :: '"' :: replace1 '"' [esc, '"'] s := by
        simp [replace1, List.flatMap_cons]
      rw [hc, replace2_hit, ih]
      rfl
    · have hc : replace1 '"' [esc, '"'] (c :: s) = c :: replace1 '"' [esc, '"'] s := by
        simp [replace1, List.flatMap_cons, h]
      rw [hc]
      by_cases hce : c = esc
      · subst hce
        cases hs : replace1 '"' [c, '"'] s with
        | nil => rw [hs] at ih; simp [replace2, ← ih]
        | cons d r =>
          rw [hs] at ih hhead
          have hd : d ≠ '"' := by simpa using hhead
          rw [replace2_miss c '"' d _ _ hd, ih]
      · rw [replace2_skip esc '"' c _ _ hce, ih]

/-- **escaping round trip** for every string (separators, quotes, escape characters, blanks at any
position, empty string): the parser's two sequential `replace` calls undo the dumper's two -/
theorem C18_unescape (esc : Char) (hq : esc ≠ '"') (s : Str) :
    replace2 esc '"' ['"'] (replace2 esc esc [esc] (escapeStr esc s)) = s := by
  rw [unescape_pass1 esc hq, unescape_pass2 esc hq]

/-- a dumped string field, unquoted, is the string -/
theorem C18_str_field (esc : Char) (hq : esc ≠ '"') (s : Str) :
    unquote esc (dumpField esc (.str s)) = s := by
  unfold unquote dumpField
  have h1 : (['"'] ++ escapeStr esc s ++ ['"']).length > 0 := by simp
  have h2 : (['"'] ++ escapeStr esc s ++ ['"']).head? = some '"' := by simp
  have h3 : (['"'] ++ escapeStr esc s ++ ['"']).getLast? = some '"' := by
    rw [List.getLast?_append]; simp
  have h4 : ((['"'] ++ escapeStr esc s ++ ['"']).drop 1).dropLast = escapeStr esc s := by
    simp [List.dropLast_concat]
  simp only [h1, h2, h3, and_self, if_true, h4]
  exact C18_unescape esc hq s

/-! ### integers -/

theorem digit_facts : ∀ m, m < 10 →
    (Char.ofNat (48 + m)).isDigit = true ∧ (Char.ofNat (48 + m)).toNat - 48 = m ∧ Char.ofNat (48 + m) ≠ '-' := by
  decide

theorem readNat_digits : ∀ (f n : Nat), n < f →
    (digitsRev f n).reverse.foldl (fun acc c => acc.bind fun a =>
      if c.isDigit then some (a * 10 + (c.toNat - 48)) else none) (some 0) = some n ∧ digitsRev f n ≠ [] := by
  intro f
  induction f with
  | zero => intro n h; omega
  | succ f ih =>
    intro n h
    simp only [digitsRev]
    by_cases h10 : n < 10
    · obtain ⟨hd, hv, _⟩ := digit_facts n h10
      simp [h10, hd, hv]
    · simp only [h10, if_false, List.reverse_cons, List.foldl_append, List.foldl_cons, List.foldl_nil]
      have hlt : n / 10 < f := by omega
      obtain ⟨e1, _⟩ := ih (n / 10) hlt
      rw [e1]
      obtain ⟨hd, hv, _⟩ := digit_facts (n % 10) (Nat.mod_lt _ (by decide))
      simp only [Option.bind_some, hd, if_true, hv]
      refine ⟨by congr 1; omega, by simp⟩

theorem readNat_showNat (n : Nat) : readNat (showNat n) = some n := by
  unfold readNat showNat
  obtain ⟨h1, h2⟩ := readNat_digits (n + 1) n (by omega)
  have : (digitsRev (n + 1) n).reverse ≠ [] := by simpa using h2
  simp [this, h1]

theorem showNat_head (n : Nat) : (showNat n).head? ≠ some '-' := by
  unfold showNat
  have key : ∀ (f n : Nat), n < f → ∀ c ∈ digitsRev f n, c ≠ '-' := by
    intro f
    induction f with
    | zero => intro n h; omega
    | succ f ih =>
      intro n h c hc
      simp only [digitsRev] at hc
      by_cases h10 : n < 10
      · simp only [h10, if_true, List.mem_singleton] at hc
        subst hc
        exact (digit_facts n h10).2.2
      · simp only [h10, if_false, List.mem_cons] at hc
        rcases hc with rfl | hc
        · exact (digit_facts (n % 10) (Nat.mod_lt _ (by decide))).2.2
        · exact ih (n / 10) (by omega) c hc
  intro hh
  have hmem : '-' ∈ (digitsRev (n + 1) n).reverse := List.mem_of_mem_head? hh
  exact key (n + 1) n (by omega) '-' (by simpa using hmem) rfl

/-- **ints**: `int(str(i)) = i` for every integer, with its exact value and sign -/
theorem C18_int (i : Int) : readInt (showInt i) = some i := by
  unfold showInt
  by_cases h : i < 0
  · simp only [h, if_true, readInt, readNat_showNat, Option.map_some]
    have : -((i.natAbs : Nat) : Int) = i := by omega
    simpa using this
  · simp only [h, if_false]
    have hh := showNat_head i.natAbs
    unfold readInt
    split
    · next r heq => rw [heq] at hh; simp at hh
    · simp only [readNat_showNat, Option.map_some]
      have : ((i.natAbs : Nat) : Int) = i := by omega
      simpa using this

/-- bools: `'True'`/`'False'` and back -/
theorem C18_bool (esc : Char) (b : Bool) : parseField .bool (dumpField esc (.bool b)) = .ok (.bool b) := by
  cases b <;> simp [parseField, dumpField] <;> decide

/-! ### whole rows, one-character separator -/

theorem digit_ne_quote : ∀ m, m < 10 → Char.ofNat (48 + m) ≠ '"' := by decide

theorem showNat_no_quote (n : Nat) : '"' ∉ showNat n := by
  unfold showNat
  have key : ∀ (f n : Nat), n < f → ∀ c ∈ digitsRev f n, c ≠ '"' := by
    intro f
    induction f with
    | zero => intro n h; omega
    | succ f ih =>
      intro n h c hc
      simp only [digitsRev] at hc
      by_cases h10 : n < 10
      · simp only [h10, if_true, List.mem_singleton] at hc
        subst hc
        exact digit_ne_quote n h10
      · simp only [h10, if_false, List.mem_cons] at hc
        rcases hc with rfl | hc
        · exact digit_ne_quote (n % 10) (Nat.mod_lt _ (by decide))
        · exact ih (n / 10) (by omega) c hc
  intro hmem
  exact key (n + 1) n (by omega) '"' (by simpa using hmem) rfl

theorem showNat_ne_nil (n : Nat) : showNat n ≠ [] := by
  unfold showNat
  have := (readNat_digits (n + 1) n (by omega)).2
  simpa using this

theorem showInt_no_quote (i : Int) : '"' ∉ showInt i := by
  unfold showInt
  split
  · intro h
    rcases List.mem_cons.mp h with h | h
    · exact absurd h (by decide)
    · exact showNat_no_quote _ h
  · exact showNat_no_quote _

theorem showInt_ne_nil (i : Int) : showInt i ≠ [] := by
  unfold showInt
  split
  · simp
  · exact showNat_ne_nil _

/-- a field together with the type of its column, as `dump` can write it with separator `c`: the
separator does not occur in the tokens of numbers and booleans (strings may contain anything) -/
def FieldOK (c esc : Char) : CsvField × CsvType → Prop
  | (.int i, .int) => c ∉ showInt i
  | (.float t, .float) => t ≠ [] ∧ c ∉ t ∧ '"' ∉ t
  | (.bool b, .bool) => c ∉ dumpField esc (.bool b)
  | (.str _, .str) => True
  | _ => False

theorem head_ne_of_not_mem {t : Str} {q : Char} (h : q ∉ t) : t.head? ≠ some q := by
  intro hh; exact h (List.mem_of_mem_head? hh)

theorem tokOK_dump (c esc : Char) (hq : esc ≠ '"') (p : CsvField × CsvType) (h : FieldOK c esc p) :
    TokOK c esc (dumpField esc p.1) := by
  obtain ⟨f, ty⟩ := p
  cases f <;> cases ty <;> simp only [FieldOK] at h
  · exact Or.inl ⟨h, head_ne_of_not_mem (showInt_no_quote _)⟩
  · exact Or.inl ⟨h.2.1, head_ne_of_not_mem h.2.2⟩
  · rename_i b
    refine Or.inl ⟨h, ?_⟩
    cases b <;> simp [dumpField] <;> decide
  · rename_i s
    exact Or.inr ⟨escapeStr esc s, escS_escapeStr esc hq s, by simp [dumpField]⟩

theorem unquote_plain (esc : Char) (t : Str) (h : t.head? ≠ some '"') : unquote esc t = t := by
  unfold unquote
  simp [h]

/-- one field: dumped, unquoted and parsed with the type of its column, it is returned equal -/
theorem field_roundtrip (c esc : Char) (hq : esc ≠ '"') (p : CsvField × CsvType) (h : FieldOK c esc p) :
    parseField p.2 (unquote esc (dumpField esc p.1)) = .ok p.1 := by
  obtain ⟨f, ty⟩ := p
  cases f <;> cases ty <;> simp only [FieldOK] at h
  · rename_i i
    simp only [dumpField]
    rw [unquote_plain esc _ (head_ne_of_not_mem (showInt_no_quote i))]
    simp [parseField, showInt_ne_nil, C18_int]
  · rename_i t
    simp only [dumpField]
    rw [unquote_plain esc _ (head_ne_of_not_mem h.2.2)]
    simp [parseField, h.1]
  · rename_i b
    have hb : (dumpField esc (.bool b)).head? ≠ some '"' := by cases b <;> simp [dumpField] <;> decide
    rw [unquote_plain esc _ hb]
    exact C18_bool esc b
  · rename_i s
    rw [C18_str_field esc hq s]
    rfl

theorem flat_len_ge (c : Char) : ∀ toks : List Str, toks.length ≤ (toks.flatMap (splitC c)).length := by
  intro toks
  induction toks with
  | nil => simp
  | cons t toks ih =>
    have : 1 ≤ (splitC c t).length := by
      cases h : splitC c t with
      | nil => exact absurd h (splitC_ne_nil c t)
      | cons p ps => simp
    simp only [List.flatMap_cons, List.length_append, List.length_cons]
    omega

/-- if splitting produced exactly as many pieces as there are fields, no field contained the separator -/
theorem flat_len_eq (c : Char) : ∀ toks : List Str, (toks.flatMap (splitC c)).length = toks.length →
    toks.flatMap (splitC c) = toks := by
  intro toks
  induction toks with
  | nil => intro _; rfl
  | cons t toks ih =>
    intro h
    have hge := flat_len_ge c toks
    simp only [List.flatMap_cons, List.length_append, List.length_cons] at h
    cases hs : splitC c t with
    | nil => exact absurd hs (splitC_ne_nil c t)
    | cons p ps =>
      rw [hs] at h
      simp only [List.length_cons] at h
      have hps : ps = [] := List.eq_nil_of_length_eq_zero (by omega)
      subst hps
      have hj := join_split c t
      rw [hs] at hj
      simp only [joinWith] at hj
      subst hj
      simp only [List.flatMap_cons, hs, List.singleton_append]
      rw [ih (by omega)]

theorem mapM_fields (c esc : Char) (hq : esc ≠ '"') : ∀ (row : List (CsvField × CsvType)), (∀ p ∈ row, FieldOK c esc p) →
    ((row.map (fun p => dumpField esc p.1)).zip (row.map (·.2))).mapM
        (fun p => parseField p.2 (unquote esc p.1)) = .ok (row.map (·.1)) := by
  intro row
  induction row with
  | nil => intro _; rfl
  | cons p row ih =>
    intro h
    have h1 := field_roundtrip c esc hq p (h p (by simp))
    have h2 := ih (fun x hx => h x (by simp [hx]))
    simp only [List.map_cons, List.zip_cons_cons, List.mapM_cons, h1, h2]
    rfl

/-- **C18, whole rows.**  A row of typed fields (ints, floats, booleans, strings containing anything:
separators, quotes, escape characters, blanks) written by `dump` with a one-character separator and
read back by the parser with the matching schema is returned equal, field by field and in order —
through `split`, `merge_escape_parts`, unquoting, unescaping and the typed parsers, as the code
composes them. -/
theorem C18_row (c esc : Char) (hce : c ≠ esc) (hcq : c ≠ '"') (hq : esc ≠ '"')
    (row : List (CsvField × CsvType)) (hne : row ≠ []) (hok : ∀ p ∈ row, FieldOK c esc p) :
    parseLine [c] esc (row.map (·.2)) (joinWith [c] (row.map (fun p => dumpField esc p.1))) =
      .ok (row.map (·.1)) := by
  have htok : ∀ t ∈ row.map (fun p => dumpField esc p.1), TokOK c esc t := by
    intro t ht
    obtain ⟨p, hp, rfl⟩ := List.mem_map.mp ht
    exact tokOK_dump c esc hq p (hok p hp)
  have hne' : row.map (fun p => dumpField esc p.1) ≠ [] := by simpa using hne
  have hsplit := split_join_flat c _ hne'
  have hparts : (if ¬ ((row.map (fun p => dumpField esc p.1)).flatMap (splitC c)).length = row.length
        then mergeParts [c] esc none ((row.map (fun p => dumpField esc p.1)).flatMap (splitC c))
        else (row.map (fun p => dumpField esc p.1)).flatMap (splitC c)) = row.map (fun p => dumpField esc p.1) := by
    split
    · exact merge_all c esc hce hcq hq _ htok
    · rename_i hlen
      apply flat_len_eq
      simp only [List.length_map]
      exact Decidable.not_not.mp hlen
  unfold parseLine
  simp only [pySplit, hsplit, List.length_map, ne_eq]
  rw [hparts]
  simp only [List.length_map, not_true_eq_false, if_false]
  exact mapM_fields c esc hq row hok

/-! non-vacuity -/
example : ∀ p ∈ [((CsvField.int (-5)), CsvType.int), (.str "a,\"b\\".toList, .str), (.bool true, .bool), (.str [], .str)],
    FieldOK ',' '\\' p := by
  intro p hp
  simp only [List.mem_cons, List.mem_nil_iff, or_false] at hp
  rcases hp with rfl | rfl | rfl | rfl
  · show ',' ∉ showInt (-5); decide
  · trivial
  · show ',' ∉ dumpField '\\' (.bool true); decide
  · trivial
example : escapeStr '\\' "x\\\",".toList = "x\\\\\\\",".toList := by decide
example : (match parseLine ",".toList '\\' [.str, .str] "\"x\\\\\",\"a,b\"".toList with | .ok r => r | .error _ => []) =
    [.str "x\\".toList, .str "a,b".toList] := by decide

end Rx

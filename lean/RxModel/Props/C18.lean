import RxModel.Csv
import RxModel.Lemmas.Framing
/-!
# C18 — CSV dump/load round-trips typed rows

Proved: string escaping is inverted by the two sequential `replace` calls of the parser for EVERY
string (`C18_unescape`), quoting/unquoting, decimal printing/parsing of ints, and the row round
trip for a one-character separator when no string field contains the separator.
Not proved (decided by the correspondence check and the real round-trip oracle): the re-joining
heuristics of `merge_escape_parts` for fields containing the separator, multi-character separators,
`float(str(x)) == x` (library contract).
-/
namespace Rx

/-! ### escaping -/

/-- after the first `replace` (escape characters doubled), then quotes escaped: token by token -/
theorem escapeStr_cons (esc : Char) (hq : esc ≠ '"') (c : Char) (s : Str) :
    escapeStr esc (c :: s) =
      (if c = esc then [esc, esc] else if c = '"' then [esc, '"'] else [c]) ++ escapeStr esc s := by
  unfold escapeStr replace1
  by_cases h1 : c = esc
  · subst h1
    simp [List.flatMap_cons, hq]
  · by_cases h2 : c = '"'
    · subst h2
      simp [List.flatMap_cons, h1]
    · simp [List.flatMap_cons, h1, h2]

theorem replace2_skip (a b c : Char) (new r : Str) (h : c ≠ a) :
    replace2 a b new (c :: r) = c :: replace2 a b new r := by
  cases r with
  | nil => simp [replace2]
  | cons d r => simp [replace2, h]

theorem replace2_hit (a b : Char) (new r : Str) : replace2 a b new (a :: b :: r) = new ++ replace2 a b new r := by
  simp [replace2]

theorem replace2_miss (a b d : Char) (new r : Str) (h : d ≠ b) :
    replace2 a b new (a :: d :: r) = a :: replace2 a b new (d :: r) := by
  simp [replace2, h]

/-- first parser `replace`: `esc esc → esc` turns the dumped text into "quotes escaped only" -/
theorem unescape_pass1 (esc : Char) (hq : esc ≠ '"') : ∀ s : Str,
    replace2 esc esc [esc] (escapeStr esc s) = replace1 '"' [esc, '"'] s := by
  intro s
  induction s with
  | nil => rfl
  | cons c s ih =>
    rw [escapeStr_cons esc hq]
    have hne : ('"' : Char) ≠ esc := fun h => hq h.symm
    by_cases h1 : c = esc
    · subst h1
      simp only [if_true, List.cons_append, List.nil_append]
      rw [replace2_hit, ih]
      simp [replace1, List.flatMap_cons, hq]
    · by_cases h2 : c = '"'
      · subst h2
        simp only [h1, if_false, if_true, List.cons_append, List.nil_append]
        rw [replace2_miss esc esc '"' _ _ hne, replace2_skip esc esc '"' _ _ hne, ih]
        simp [replace1, List.flatMap_cons]
      · simp only [h1, h2, if_false, List.cons_append, List.nil_append]
        rw [replace2_skip esc esc c _ _ h1, ih]
        simp [replace1, List.flatMap_cons, h2]

/-- text in which every quote is preceded by its escape character never starts with a quote -/
theorem quoted_head (esc : Char) (hq : esc ≠ '"') (s : Str) :
    (replace1 '"' [esc, '"'] s).head? ≠ some '"' := by
  cases s with
  | nil => simp [replace1]
  | cons c s =>
    by_cases h : c = '"'
    · simp [replace1, List.flatMap_cons, h, hq]
    · simp [replace1, List.flatMap_cons, h]

/-- second parser `replace`: `esc " → "` -/
theorem unescape_pass2 (esc : Char) (hq : esc ≠ '"') : ∀ s : Str,
    replace2 esc '"' ['"'] (replace1 '"' [esc, '"'] s) = s := by
  intro s
  induction s with
  | nil => rfl
  | cons c s ih =>
    have hhead := quoted_head esc hq s
    by_cases h : c = '"'
    · subst h
      have hc : replace1 '"' [esc, '"'] ('"' :: s) = esc :: '"' :: replace1 '"' [esc, '"'] s := by
        simp [replace1, List.flatMap_cons]
      rw [hc, replace2_hit, ih]
      rfl
    · have hc : replace1 '"' [esc, '"'] (c :: s) = c :: replace1 '"' [esc, '"'] s := by
        simp [replace1, List.flatMap_cons, h]
      rw [hc]
      by_cases hce : c = esc
      · subst hce
        cases hs : replace1 '"' [c, '"'] s with
        | nil => rw [hs] at ih; simp [replace2, ← ih]
        | cons d r =>
          rw [hs] at ih hhead
          have hd : d ≠ '"' := by simpa using hhead
          rw [replace2_miss c '"' d _ _ hd, ih]
      · rw [replace2_skip esc '"' c _ _ hce, ih]

/-- **escaping round trip** for every string (separators, quotes, escape characters, blanks at any
position, empty string): the parser's two sequential `replace` calls undo the dumper's two -/
theorem C18_unescape (esc : Char) (hq : esc ≠ '"') (s : Str) :
    replace2 esc '"' ['"'] (replace2 esc esc [esc] (escapeStr esc s)) = s := by
  rw [unescape_pass1 esc hq, unescape_pass2 esc hq]

/-- a dumped string field, unquoted, is the string -/
theorem C18_str_field (esc : Char) (hq : esc ≠ '"') (s : Str) :
    unquote esc (dumpField esc (.str s)) = s := by
  unfold unquote dumpField
  have h1 : (['"'] ++ escapeStr esc s ++ ['"']).length > 0 := by simp
  have h2 : (['"'] ++ escapeStr esc s ++ ['"']).head? = some '"' := by simp
  have h3 : (['"'] ++ escapeStr esc s ++ ['"']).getLast? = some '"' := by
    rw [List.getLast?_append]; simp
  have h4 : ((['"'] ++ escapeStr esc s ++ ['"']).drop 1).dropLast = escapeStr esc s := by
    simp [List.dropLast_concat]
  simp only [h1, h2, h3, and_self, if_true, h4]
  exact C18_unescape esc hq s

/-! ### integers -/

theorem digit_facts : ∀ m, m < 10 →
    (Char.ofNat (48 + m)).isDigit = true ∧ (Char.ofNat (48 + m)).toNat - 48 = m ∧ Char.ofNat (48 + m) ≠ '-' := by
  decide

theorem readNat_digits : ∀ (f n : Nat), n < f →
    (digitsRev f n).reverse.foldl (fun acc c => acc.bind fun a =>
      if c.isDigit then some (a * 10 + (c.toNat - 48)) else none) (some 0) = some n ∧ digitsRev f n ≠ [] := by
  intro f
  induction f with
  | zero => intro n h; omega
  | succ f ih =>
    intro n h
    simp only [digitsRev]
    by_cases h10 : n < 10
    · obtain ⟨hd, hv, _⟩ := digit_facts n h10
      simp [h10, hd, hv]
    · simp only [h10, if_false, List.reverse_cons, List.foldl_append, List.foldl_cons, List.foldl_nil]
      have hlt : n / 10 < f := by omega
      obtain ⟨e1, _⟩ := ih (n / 10) hlt
      rw [e1]
      obtain ⟨hd, hv, _⟩ := digit_facts (n % 10) (Nat.mod_lt _ (by decide))
      simp only [Option.bind_some, hd, if_true, hv]
      refine ⟨by congr 1; omega, by simp⟩

theorem readNat_showNat (n : Nat) : readNat (showNat n) = some n := by
  unfold readNat showNat
  obtain ⟨h1, h2⟩ := readNat_digits (n + 1) n (by omega)
  have : (digitsRev (n + 1) n).reverse ≠ [] := by simpa using h2
  simp [this, h1]

theorem showNat_head (n : Nat) : (showNat n).head? ≠ some '-' := by
  unfold showNat
  have key : ∀ (f n : Nat), n < f → ∀ c ∈ digitsRev f n, c ≠ '-' := by
    intro f
    induction f with
    | zero => intro n h; omega
    | succ f ih =>
      intro n h c hc
      simp only [digitsRev] at hc
      by_cases h10 : n < 10
      · simp only [h10, if_true, List.mem_singleton] at hc
        subst hc
        exact (digit_facts n h10).2.2
      · simp only [h10, if_false, List.mem_cons] at hc
        rcases hc with rfl | hc
        · exact (digit_facts (n % 10) (Nat.mod_lt _ (by decide))).2.2
        · exact ih (n / 10) (by omega) c hc
  intro hh
  have hmem : '-' ∈ (digitsRev (n + 1) n).reverse := List.mem_of_mem_head? hh
  exact key (n + 1) n (by omega) '-' (by simpa using hmem) rfl

/-- **ints**: `int(str(i)) = i` for every integer, with its exact value and sign -/
theorem C18_int (i : Int) : readInt (showInt i) = some i := by
  unfold showInt
  by_cases h : i < 0
  · simp only [h, if_true, readInt, readNat_showNat, Option.map_some]
    have : -((i.natAbs : Nat) : Int) = i := by omega
    simpa using this
  · simp only [h, if_false]
    have hh := showNat_head i.natAbs
    unfold readInt
    split
    · next r heq => rw [heq] at hh; simp at hh
    · simp only [readNat_showNat, Option.map_some]
      have : ((i.natAbs : Nat) : Int) = i := by omega
      simpa using this

/-- bools: `'True'`/`'False'` and back -/
theorem C18_bool (esc : Char) (b : Bool) : parseField .bool (dumpField esc (.bool b)) = .ok (.bool b) := by
  cases b <;> simp [parseField, dumpField] <;> decide

/-! non-vacuity -/
example : escapeStr '\\' "x\\\",".toList = "x\\\\\\\",".toList := by decide
example : (match parseLine ",".toList '\\' [.str, .str] "\"x\\\\\",\"a,b\"".toList with | .ok r => r | .error _ => []) =
    [.str "x\\".toList, .str "a,b".toList] := by decide

end Rx

import RxGen.Codec
/-!
# C16 link theorems: the closures of `compress()` / `decompress()` in rxsci/compression/z.py and zstd.py, generated from the source
over an abstract streaming codec `K` (monad `CM`, RxModel/PyCodec.lean), driven as a subscription drives them (`driveC`: `on_next`
per chunk, `on_completed`, nothing after an `on_error`), send the observer exactly `compressRun K` / `decompressRun K skipEmpty` —
the functions `C16_roundtrip`, `C16_truncated`, `C16_compress_shape` are about (`skipEmpty` = the empty-chunk guard of
`zstd.decompress`).  The libraries stay behind the contract `CodecContract`.
-/
namespace Rx

macro "cm_simp" "[" ts:Lean.Parser.Tactic.simpLemma,* "]" : tactic =>
  `(tactic| simp [CM.run, CM.call, CM.call0, CM.attr, CM.emit,
      ExceptT.run, StateT.run, bind, ExceptT.bind, ExceptT.mk, ExceptT.bindCont, StateT.bind, modify, modifyGet, MonadStateOf.modifyGet,
      StateT.modifyGet, pure, ExceptT.pure, StateT.pure, MonadState.modifyGet, liftM, monadLift, MonadLift.monadLift, ExceptT.lift,
      Functor.map, StateT.map, get, getThe, MonadStateOf.get, StateT.get, set, MonadStateOf.set, StateT.set,
      throw, throwThe, MonadExceptOf.throw, tryCatch, tryCatchThe, MonadExceptOf.tryCatch, ExceptT.tryCatch, $ts,*])

theorem failed_append_next (out : List WEv) (d : Bytes) (h : failed out = false) : failed (out ++ [WEv.next d]) = false := by
  simp [failed] at h ⊢
  exact h

theorem failed_append_error (out : List WEv) (e : String) : failed (out ++ [WEv.error e]) = true := by
  simp [failed]

theorem z_compress_next_run (K : StreamCodec) (c : K.C) (out : List WEv) (i : Bytes) :
    (CM.run (Gen.z_compress_on_next K i) ⟨c, out⟩).2
      = match K.compress c i with
        | .ok (c', d) => ⟨c', out ++ [.next d]⟩
        | .error e => ⟨c, out ++ [.error e]⟩ := by
  cases h : K.compress c i with
  | error e => cm_simp [Gen.z_compress_on_next, h]
  | ok r => obtain ⟨c', d⟩ := r; cm_simp [Gen.z_compress_on_next, h]

theorem z_compress_fin_run (K : StreamCodec) (c : K.C) (out : List WEv) :
    (CM.run (Gen.z_compress_on_completed K) ⟨c, out⟩).2.out
      = out ++ (match K.cflush c with | .ok d => [.next d, .completed] | .error e => [.error e]) := by
  cases h : K.cflush c <;> cm_simp [Gen.z_compress_on_completed, h]

/-- the closures of `z.compress()`, driven over the chunks, send the observer `compressRun` -/
theorem LinkZ_compress (K : StreamCodec) (chunks : List Bytes) (c : K.C) (out : List WEv) (hout : failed out = false) :
    driveC (Gen.z_compress_on_next K) (Gen.z_compress_on_completed K) chunks ⟨c, out⟩ = out ++ compressRun K c chunks := by
  induction chunks generalizing c out with
  | nil => simp only [driveC, z_compress_fin_run, compressRun]; cases K.cflush c <;> rfl
  | cons x xs ih =>
    simp only [driveC, z_compress_next_run, compressRun]
    cases h : K.compress c x with
    | error e => simp [failed_append_error]
    | ok r =>
      obtain ⟨c', d⟩ := r
      simp only [failed_append_next out d hout]
      rw [if_neg (by simp), ih c' _ (failed_append_next out d hout)]
      simp


theorem zstd_compress_next_run (K : StreamCodec) (c : K.C) (out : List WEv) (i : Bytes) :
    (CM.run (Gen.zstd_compress_on_next K i) ⟨c, out⟩).2
      = match K.compress c i with
        | .ok (c', d) => ⟨c', out ++ [.next d]⟩
        | .error e => ⟨c, out ++ [.error e]⟩ := by
  cases h : K.compress c i with
  | error e => cm_simp [Gen.zstd_compress_on_next, h]
  | ok r => obtain ⟨c', d⟩ := r; cm_simp [Gen.zstd_compress_on_next, h]

theorem zstd_compress_fin_run (K : StreamCodec) (c : K.C) (out : List WEv) :
    (CM.run (Gen.zstd_compress_on_completed K) ⟨c, out⟩).2.out
      = out ++ (match K.cflush c with | .ok d => [.next d, .completed] | .error e => [.error e]) := by
  cases h : K.cflush c <;> cm_simp [Gen.zstd_compress_on_completed, h]

/-- the closures of `zstd.compress()`, driven over the chunks, send the observer `compressRun` -/
theorem LinkZ_compress_zstd (K : StreamCodec) (chunks : List Bytes) (c : K.C) (out : List WEv) (hout : failed out = false) :
    driveC (Gen.zstd_compress_on_next K) (Gen.zstd_compress_on_completed K) chunks ⟨c, out⟩ = out ++ compressRun K c chunks := by
  induction chunks generalizing c out with
  | nil => simp only [driveC, zstd_compress_fin_run, compressRun]; cases K.cflush c <;> rfl
  | cons x xs ih =>
    simp only [driveC, zstd_compress_next_run, compressRun]
    cases h : K.compress c x with
    | error e => simp [failed_append_error]
    | ok r =>
      obtain ⟨c', d⟩ := r
      simp only [failed_append_next out d hout]
      rw [if_neg (by simp), ih c' _ (failed_append_next out d hout)]
      simp


theorem z_decompress_next_run (K : StreamCodec) (d : K.D) (out : List WEv) (i : Bytes) :
    (CM.run (Gen.z_decompress_on_next K i) ⟨d, out⟩).2
      = match K.decompress d i with
        | .ok (d', o) => ⟨d', out ++ [.next o]⟩
        | .error e => ⟨d, out ++ [.error e]⟩ := by
  cases h : K.decompress d i with
  | error e => cm_simp [Gen.z_decompress_on_next, h]
  | ok r => obtain ⟨d', o⟩ := r; cm_simp [Gen.z_decompress_on_next, h]

theorem zstd_decompress_next_run (K : StreamCodec) (d : K.D) (out : List WEv) (i : Bytes) :
    (CM.run (Gen.zstd_decompress_on_next K i) ⟨d, out⟩).2
      = if i.isEmpty then ⟨d, out ++ [.next []]⟩ else
        match K.decompress d i with
        | .ok (d', o) => ⟨d', out ++ [.next o]⟩
        | .error e => ⟨d, out ++ [.error e]⟩ := by
  cases i with
  | nil => cm_simp [Gen.zstd_decompress_on_next]
  | cons a r =>
    cases h : K.decompress d (a :: r) with
    | error e => cm_simp [Gen.zstd_decompress_on_next, h]
    | ok r' => obtain ⟨d', o⟩ := r'; cm_simp [Gen.zstd_decompress_on_next, h]

theorem z_decompress_fin_run (K : StreamCodec) (d : K.D) (out : List WEv) :
    (CM.run (Gen.z_decompress_on_completed K) ⟨d, out⟩).2.out
      = out ++ (if K.eof d then (match K.dflush d with | .ok o => [.next o, .completed] | .error e => [.error e])
                else [.error "RuntimeError"]) := by
  cases he : K.eof d <;> cases h : K.dflush d <;> cm_simp [Gen.z_decompress_on_completed, h, he]

theorem zstd_decompress_fin_run (K : StreamCodec) (d : K.D) (out : List WEv) :
    (CM.run (Gen.zstd_decompress_on_completed K) ⟨d, out⟩).2.out
      = out ++ (if K.eof d then (match K.dflush d with | .ok o => [.next o, .completed] | .error e => [.error e])
                else [.error "RuntimeError"]) := by
  cases he : K.eof d <;> cases h : K.dflush d <;> cm_simp [Gen.zstd_decompress_on_completed, h, he]

/-- the closures of `z.decompress()`, driven over the chunks, send the observer `decompressRun K false` -/
theorem LinkZ_decompress (K : StreamCodec) (chunks : List Bytes) (d : K.D) (out : List WEv) (hout : failed out = false) :
    driveC (Gen.z_decompress_on_next K) (Gen.z_decompress_on_completed K) chunks ⟨d, out⟩ = out ++ decompressRun K false d chunks := by
  induction chunks generalizing d out with
  | nil =>
    simp only [driveC, z_decompress_fin_run, decompressRun]
    cases K.eof d <;> cases K.dflush d <;> rfl
  | cons x xs ih =>
    simp only [driveC, z_decompress_next_run, decompressRun, Bool.false_and, Bool.false_eq_true, if_false]
    cases h : K.decompress d x with
    | error e => simp [failed_append_error]
    | ok r =>
      obtain ⟨d', o⟩ := r
      simp only [failed_append_next out o hout]
      rw [if_neg (by simp), ih d' _ (failed_append_next out o hout)]
      simp

/-- the closures of `zstd.decompress()` (an empty chunk is answered without touching the decompressor): `decompressRun K true` -/
theorem LinkZ_decompress_zstd (K : StreamCodec) (chunks : List Bytes) (d : K.D) (out : List WEv) (hout : failed out = false) :
    driveC (Gen.zstd_decompress_on_next K) (Gen.zstd_decompress_on_completed K) chunks ⟨d, out⟩ = out ++ decompressRun K true d chunks := by
  induction chunks generalizing d out with
  | nil =>
    simp only [driveC, zstd_decompress_fin_run, decompressRun]
    cases K.eof d <;> cases K.dflush d <;> rfl
  | cons x xs ih =>
    simp only [driveC, zstd_decompress_next_run, decompressRun, Bool.true_and]
    by_cases hx : x.isEmpty = true
    · simp only [hx, if_true]
      rw [if_neg (by simp [failed_append_next out [] hout]), ih d _ (failed_append_next out [] hout)]
      simp
    · simp only [hx, if_false, Bool.false_eq_true]
      cases h : K.decompress d x with
      | error e => simp [failed_append_error]
      | ok r =>
        obtain ⟨d', o⟩ := r
        simp only [failed_append_next out o hout]
        rw [if_neg (by simp), ih d' _ (failed_append_next out o hout)]
        simp

end Rx

import RxModel.Store
/-!
# C14 — the memory state store behaves as an isolated per-index typed map

`MemStore` is L0: the parallel arrays `values / state / keys` of `MemoryStore`, the marker
discipline, growth by `append`, typed coercion.  `abs` maps it to the abstract per-index map of the
statement; every operation is characterised on that map, and no operation on one index changes
another index of the allocated range.
-/
namespace Rx

/-- what an index of the abstract map can be -/
inductive ASlot where
  | absent            -- beyond the arrays (never allocated): reading it is an IndexError
  | cleared           -- allocated, not in use (growth padding, or deleted)
  | notset            -- added, never written
  | set (v : Val)     -- holds `v` (already coerced to the declared type)
  deriving DecidableEq

def MemStore.abs (s : MemStore) (i : Nat) : ASlot :=
  match s.state[i]? with
  | none => .absent
  | some .cleared => .cleared
  | some .notset => .notset
  | some .set => .set (s.values.getD i s.dtype.zero)

/-- the arrays stay parallel -/
def MemStore.Inv (s : MemStore) : Prop :=
  s.values.length = s.state.length ∧ s.keys.length = s.state.length ∧ s.maps.length = s.state.length

theorem C14_inv_new (dt : DType) (d : Option Val) : (MemStore.new dt d).Inv := by
  simp [MemStore.new, MemStore.Inv]

theorem set_inv (s : MemStore) (k : Key) (v : Val) (h : s.Inv) : (s.set k v).1.Inv := by
  unfold MemStore.Inv at *
  by_cases hi : k.idx < s.state.length
  · cases hc : s.dtype.coerce v <;> simp [MemStore.set, hi, hc, h]
  · simp [MemStore.set, hi, h]

theorem C14_inv_step (s : MemStore) (op : SOp) (h : s.Inv) : (s.apply op).1.Inv := by
  cases op with
  | addKey k =>
    simp only [MemStore.apply, MemStore.addKey]
    by_cases hm : s.dtype = .mapper
    · simp only [hm, if_true]
      unfold MemStore.Inv at *
      simp [h]
    · simp only [hm, if_false]
      cases hd : s.default with
      | none => unfold MemStore.Inv at *; simp [h]
      | some d =>
        apply set_inv
        unfold MemStore.Inv at *
        simp [h]
  | delKey k =>
    simp only [MemStore.apply, MemStore.delKey]
    unfold MemStore.Inv at *
    by_cases hi : k.idx < s.state.length <;> simp [hi, h]
  | set k v => exact set_inv s k v h
  | get k => exact h
  | isSet k => exact h
  | isCleared k => exact h
  | iterate => exact h
  | addMap k g =>
    simp only [MemStore.apply, MemStore.addMap]
    unfold MemStore.Inv at *
    cases hm : s.maps[k.idx]? <;> simp [h]
  | getMap k g => exact h
  | iterateMap k => exact h

/-- the invariant holds after every history -/
theorem C14_inv_run : ∀ (ops : List SOp) (s : MemStore), s.Inv →
    (ops.foldl (fun s op => (s.apply op).1) s).Inv := by
  intro ops
  induction ops with
  | nil => intro s h; exact h
  | cons op ops ih => intro s h; exact ih _ (C14_inv_step s op h)

/-- **get** reads the abstract map: IndexError beyond the arrays, NotSet for an added, never
written slot, the stored value (with the declared type: `bool(value)` for bool stores) otherwise -/
theorem C14_get (s : MemStore) (k : Key) :
    s.get k = match s.abs k.idx with
      | .absent => .exc "IndexError"
      | .notset => .notset
      | .set v => .val (s.dtype.read v)
      | .cleared => .val (s.dtype.read (s.values.getD k.idx s.dtype.zero)) := by
  unfold MemStore.get MemStore.abs
  cases h : s.state[k.idx]? with
  | none => simp only [h]
  | some m => cases m <;> simp only [h]

/-- **fresh after add_key**: a slot that is added reads NotSet when the store has no default
(and is not a mapper), whatever it held before — also after `del_key` — and with a default it
holds the coerced default -/
theorem C14_add_fresh (s : MemStore) (k : Key) (h : s.Inv) (hm : s.dtype ≠ .mapper) :
    (s.default = none → (s.addKey k).1.abs k.idx = .notset) ∧
    (∀ d w, s.default = some d → s.dtype.coerce d = .ok w → (s.addKey k).1.abs k.idx = .set w) := by
  unfold MemStore.Inv at h
  constructor
  · intro hd
    simp only [MemStore.addKey, hm, if_false, hd, MemStore.abs]
    have hlt : k.idx < s.state.length + (k.idx + 1 - s.state.length) := by omega
    simp [List.getElem?_set, hlt]
  · intro d w hd hc
    simp only [MemStore.addKey, hm, if_false, hd]
    have hlt : k.idx < ((s.state ++ List.replicate (k.idx + 1 - s.state.length) Marker.cleared).set k.idx Marker.notset).length := by
      simp; omega
    have hl2 : k.idx < s.state.length + (k.idx + 1 - s.state.length) := by omega
    have hl3 : k.idx < s.values.length + (k.idx + 1 - s.state.length) := by omega
    simp only [MemStore.set, hlt, if_true, hc, MemStore.abs]
    simp [List.getElem?_set, hl2, hl3]

/-- **read your write**: after a successful `set`, `get` returns the written value with the declared
type, until the next write or delete of that index -/
theorem C14_read_your_write (s : MemStore) (k : Key) (v w : Val) (h : s.Inv)
    (hi : k.idx < s.state.length) (hc : s.dtype.coerce v = .ok w) :
    (s.set k v).2 = .unit ∧ (s.set k v).1.get k = .val (s.dtype.read w) := by
  unfold MemStore.Inv at h
  have hv : k.idx < s.values.length := by omega
  simp only [MemStore.set, hi, if_true, hc, MemStore.get]
  simp [List.getElem?_set, hi, hv]

/-- **fresh again after del_key; add_key** -/
theorem C14_del_add (s : MemStore) (k : Key) (h : s.Inv) (hm : s.dtype ≠ .mapper) (hd : s.default = none)
    (hi : k.idx < s.state.length) :
    ((s.delKey k).1.addKey k).1.get k = .notset := by
  have h1 : (s.delKey k).1.Inv := C14_inv_step s (.delKey k) h
  have hm1 : (s.delKey k).1.dtype ≠ .mapper := by simp [MemStore.delKey, hi, hm]
  have hd1 : (s.delKey k).1.default = none := by simp [MemStore.delKey, hi, hd]
  have := (C14_add_fresh (s.delKey k).1 k h1 hm1).1 hd1
  rw [C14_get, this]

/-- **frame**: no operation on index `i` changes the abstract slot of any other index `j` of the
allocated range — whatever the order and sparsity of indices (growth only adds cleared slots) -/
theorem C14_frame (s : MemStore) (op : SOp) (i j : Nat) (h : s.Inv)
    (hop : match op with
      | .addKey k | .delKey k | .set k _ | .get k | .isSet k | .isCleared k | .addMap k _
      | .getMap k _ | .iterateMap k => k.idx = i
      | .iterate => True)
    (hij : j ≠ i) (hj : j < s.state.length) :
    (s.apply op).1.abs j = s.abs j := by
  unfold MemStore.Inv at h
  have hjv : j < s.values.length := by omega
  cases op with
  | addKey k =>
    have hk : k.idx = i := hop
    have hne : k.idx ≠ j := by omega
    simp only [MemStore.apply, MemStore.addKey]
    by_cases hm : s.dtype = .mapper
    · simp only [hm, if_true, MemStore.abs]
      simp [List.getElem?_set, hne, List.getElem?_append_left hj, List.getElem?_append_left hjv, List.getD_eq_getElem?_getD]
    · simp only [hm, if_false]
      cases hd : s.default with
      | none =>
        simp only [MemStore.abs]
        simp [List.getElem?_set, hne, List.getElem?_append_left hj, List.getElem?_append_left hjv, List.getD_eq_getElem?_getD]
      | some d =>
        simp only [MemStore.set]
        split
        · cases hc : s.dtype.coerce d <;>
            simp [MemStore.abs, List.getElem?_set, hne, List.getElem?_append_left hj, List.getElem?_append_left hjv,
              List.getD_eq_getElem?_getD]
        · simp [MemStore.abs, List.getElem?_set, hne, List.getElem?_append_left hj, List.getElem?_append_left hjv,
            List.getD_eq_getElem?_getD]
  | delKey k =>
    have hk : k.idx = i := hop
    have hne : k.idx ≠ j := by omega
    simp only [MemStore.apply, MemStore.delKey]
    split <;> simp [MemStore.abs, List.getElem?_set, hne, List.getD_eq_getElem?_getD]
  | set k v =>
    have hk : k.idx = i := hop
    have hne : k.idx ≠ j := by omega
    simp only [MemStore.apply, MemStore.set]
    split
    · cases hc : s.dtype.coerce v <;> simp [MemStore.abs, List.getElem?_set, hne, List.getD_eq_getElem?_getD]
    · rfl
  | get k => rfl
  | isSet k => rfl
  | isCleared k => rfl
  | iterate => rfl
  | addMap k g =>
    simp only [MemStore.apply, MemStore.addMap]
    cases hm : s.maps[k.idx]? <;> simp [MemStore.abs]
  | getMap k g => rfl
  | iterateMap k => rfl

/-! ### group-index maps -/

/-- `add_map` returns the store-wide counter and advances it; nothing else changes the counter -/
theorem C14_add_map_index (s : MemStore) (k : Key) (g : Val) (m : List (Val × Nat)) (h : s.maps[k.idx]? = some m) :
    (s.addMap k g).2 = .idx s.nextIndex ∧ (s.addMap k g).1.nextIndex = s.nextIndex + 1 := by
  simp [MemStore.addMap, h]

theorem nextIndex_mono (s : MemStore) (op : SOp) : s.nextIndex ≤ (s.apply op).1.nextIndex := by
  cases op with
  | addKey k =>
    simp only [MemStore.apply, MemStore.addKey]
    by_cases hm : s.dtype = .mapper
    · simp [hm]
    · simp only [hm, if_false]
      cases hd : s.default with
      | none => simp
      | some d =>
        simp only [MemStore.set]
        split
        · cases hc : s.dtype.coerce d <;> simp
        · simp
  | delKey k => simp only [MemStore.apply, MemStore.delKey]; split <;> simp
  | set k v =>
    simp only [MemStore.apply, MemStore.set]
    split
    · cases hc : s.dtype.coerce v <;> simp
    · simp
  | get k => simp [MemStore.apply]
  | isSet k => simp [MemStore.apply]
  | isCleared k => simp [MemStore.apply]
  | iterate => simp [MemStore.apply]
  | addMap k g =>
    simp only [MemStore.apply, MemStore.addMap]
    cases hm : s.maps[k.idx]? <;> simp
  | getMap k g => simp [MemStore.apply]
  | iterateMap k => simp [MemStore.apply]

/-- indices handed out by `add_map` over a history -/
def handedOut : MemStore → List SOp → List Nat
  | _, [] => []
  | s, op :: ops =>
    (match (s.apply op).2, op with
     | .idx i, .addMap _ _ => [i]
     | _, _ => []) ++ handedOut (s.apply op).1 ops

/-- **group indices are never reused**: over any history, every index handed out by `add_map` is
at least the counter at the start and the indices are pairwise distinct (strictly increasing) -/
theorem C14_indices_fresh : ∀ (ops : List SOp) (s : MemStore),
    (∀ i ∈ handedOut s ops, s.nextIndex ≤ i) ∧ (handedOut s ops).Pairwise (· < ·) := by
  intro ops
  induction ops with
  | nil => intro s; simp [handedOut]
  | cons op ops ih =>
    intro s
    have hmono := nextIndex_mono s op
    obtain ⟨ih1, ih2⟩ := ih (s.apply op).1
    simp only [handedOut]
    cases op with
    | addMap k g =>
      simp only [MemStore.apply]
      cases hm : s.maps[k.idx]? with
      | none =>
        have : (s.addMap k g) = (s, .exc "IndexError") := by simp [MemStore.addMap, hm]
        simp only [MemStore.apply, this] at ih1 ih2
        simp only [this, List.nil_append]
        exact ⟨ih1, ih2⟩
      | some m =>
        obtain ⟨e1, e2⟩ := C14_add_map_index s k g m hm
        rw [e1]
        simp only [List.singleton_append, List.mem_cons, List.pairwise_cons]
        simp only [MemStore.apply] at ih1 ih2 hmono
        refine ⟨?_, ?_, ih2⟩
        · rintro i (rfl | hi)
          · exact Nat.le_refl _
          · have := ih1 i hi; omega
        · intro i hi
          have := ih1 i hi
          omega
    | addKey k => exact ⟨fun i hi => by have := ih1 i (by simpa using hi); omega, by simpa using ih2⟩
    | delKey k => exact ⟨fun i hi => by have := ih1 i (by simpa using hi); omega, by simpa using ih2⟩
    | set k v => exact ⟨fun i hi => by have := ih1 i (by simpa using hi); omega, by simpa using ih2⟩
    | get k => exact ⟨fun i hi => by have := ih1 i (by simpa using hi); omega, by simpa using ih2⟩
    | isSet k => exact ⟨fun i hi => by have := ih1 i (by simpa using hi); omega, by simpa using ih2⟩
    | isCleared k => exact ⟨fun i hi => by have := ih1 i (by simpa using hi); omega, by simpa using ih2⟩
    | iterate => exact ⟨fun i hi => by have := ih1 i (by simpa using hi); omega, by simpa using ih2⟩
    | getMap k g => exact ⟨fun i hi => by have := ih1 i (by simpa using hi); omega, by simpa using ih2⟩
    | iterateMap k => exact ⟨fun i hi => by have := ih1 i (by simpa using hi); omega, by simpa using ih2⟩

/-- `get_map` after `add_map` returns the index just handed out; `iterate_map` enumerates exactly
the mapped keys, a new key last -/
theorem C14_map_lookup (s : MemStore) (k : Key) (g : Val) (m : List (Val × Nat)) (h : s.maps[k.idx]? = some m)
    (hnew : ∀ p ∈ m, p.1 ≠ g) :
    (s.addMap k g).1.getMap k g = .idx s.nextIndex ∧
    (s.addMap k g).1.iterateMap k = .keysOf (m.map (·.1) ++ [g]) := by
  have hlt : k.idx < s.maps.length := by
    rcases List.getElem?_eq_some_iff.mp h with ⟨hl, _⟩; exact hl
  have hany : m.any (fun p => decide (p.1 = g)) = false := by
    rw [List.any_eq_false]; intro p hp; simpa using hnew p hp
  have hfind : m.find? (fun p => decide (p.1 = g)) = none := by
    rw [List.find?_eq_none]; intro p hp; simpa using hnew p hp
  have hm : s.maps[k.idx] = m := by
    rcases List.getElem?_eq_some_iff.mp h with ⟨_, hh⟩; exact hh
  simp [MemStore.addMap, h, hm, hany, MemStore.getMap, MemStore.iterateMap, List.getElem?_set, hlt, List.find?_append, hfind]

/-- **a rejected write is not a write**: when the declared type rejects the value (TypeError / OverflowError of the typed
array) the operation raises and the store is exactly what it was — the written index and every other index read as before -/
theorem C14_rejected_write (s : MemStore) (k : Key) (v : Val) (e : Err) (h : s.dtype.coerce v = .error e) :
    (s.set k v).1 = s ∧ ((s.set k v).2 = .exc e ∨ (s.set k v).2 = .exc "IndexError") := by
  by_cases hi : k.idx < s.state.length <;> simp [MemStore.set, hi, h]

/-! non-vacuity -/
example : ((MemStore.new .int none).run [.addKey [1, 0], .set [1, 0] (Val.flt 0.5), .get [1, 0], .isSet [1, 0]]) =
    [.unit, .exc "TypeError", .notset, .bool false] := by decide
example : ((MemStore.new .int none).run [.addKey [5, 0], .get [5, 0], .set [5, 0] (.int 7), .get [5, 0], .addKey [2, 0],
    .get [2, 0], .delKey [5, 0], .addKey [5, 0], .get [5, 0]]) =
    [.unit, .notset, .unit, .val (.int 7), .unit, .notset, .unit, .unit, .notset] := by decide

end Rx

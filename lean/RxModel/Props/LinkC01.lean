import RxGen.Handlers
import RxModel.Lemmas.HandlerSim
import RxModel.Plain
/-!
# C01 link theorems, plain side: the hand-written plain path of `scan` (`scan_obs`: closures `on_next(i)` / `on_completed()`
over the `nonlocal` variables `state`, `has_state`), generated from rxsci/operators/scan.py, IS the model's plain operator
`pScan` — on which the plain side of C01 (and every operator rxsci defines through `scan`: count, to_list, the math
aggregates, batch, distinct_until_changed …) rests.  The other dual operators delegate their plain path to RxPY
(`ops.map`, `ops.first`, …: trusted plumbing, §I.4).
-/
namespace Rx
open PM

/-- the closure variables of `scan_obs` for the model state `s` (`none`: no item yet): #0 `has_state`, #1 `state` -/
def repP (s : Option Val) : Nat → Val := fun k =>
  if k = 0 then Val.bool s.isSome else if k = 1 then s.getD Val.none else Val.none

/-- what an observer of the plain operator has seen: the items, then `on_error` if an exception escaped -/
def obsOut (r : Except Err Unit × PSt Val) : List (LOut Val) :=
  r.2.out.map LOut.item ++ (match r.1 with | .error e => [LOut.fatal e] | .ok _ => [])

theorem repP_init : PM.initVars (Gen.scan_obs_init (V := Val)) = repP none := by
  funext k
  match k with
  | 0 => rfl
  | 1 => rfl
  | k + 2 => simp [PM.initVars, Gen.scan_obs_init, repP]; rfl


macro "pm_simp" "[" ts:Lean.Parser.Tactic.simpLemma,* "]" : tactic =>
  `(tactic| simp [PM.run, PM.getVar, PM.setVar, PM.emit, PM.complete, obsOut,
      ExceptT.run, StateT.run, bind, ExceptT.bind, ExceptT.mk, ExceptT.bindCont, StateT.bind, modify, modifyGet, MonadStateOf.modifyGet,
      StateT.modifyGet, pure, ExceptT.pure, StateT.pure, MonadState.modifyGet, liftM, monadLift, MonadLift.monadLift, ExceptT.lift,
      Functor.map, StateT.map, get, getThe, MonadStateOf.get, StateT.get, throw, throwThe, MonadExceptOf.throw, $ts,*])

theorem repP_set (s : Option Val) (a : Val) :
    (fun j => if j = 0 then Val.bool true else if j = 1 then a else repP s j) = repP (some a) := by
  funext j
  by_cases h0 : j = 0 <;> by_cases h1 : j = 1 <;> simp [repP, h0, h1]

/-- `scan_obs.on_next` (the plain path of `scan`, hand-written in rxsci): the generated closure is `pScan.next` — the new closure
variables, the items emitted, an accumulator exception escaping (RxPY turns it into `on_error`) with the variables unchanged -/
theorem LinkP_scan_next (g : Val → Val → Except Err Val) (seed : Val) (reduce : Bool) (term : Option (Val → Val))
    (s : Option Val) (x : Val) :
    let r := PM.run (Gen.scan_obs_on_next seed g reduce x) (repP s)
    let m := (pScan g seed reduce term).next s x
    r.2.vars = repP m.1 ∧ obsOut r = m.2.1 ∧ r.2.completed = m.2.2 := by
  cases s with
  | none =>
    cases hg : g seed x with
    | error e => pm_simp [Gen.scan_obs_on_next, pScan, repP, hg, PyAlg.isFalse, PyAlg.isTrue, PyAlg.truthy, Val.truthy, PyAlg.bool]
    | ok a =>
      cases reduce <;> pm_simp [Gen.scan_obs_on_next, pScan, repP, hg, PyAlg.isFalse, PyAlg.isTrue, PyAlg.truthy, Val.truthy, PyAlg.bool] <;>
        (funext j; by_cases h0 : j = 0 <;> by_cases h1 : j = 1 <;> simp [repP, h0, h1])
  | some v =>
    cases hg : g v x with
    | error e => pm_simp [Gen.scan_obs_on_next, pScan, repP, hg, PyAlg.isFalse, PyAlg.isTrue, PyAlg.truthy, Val.truthy, PyAlg.bool]
    | ok a =>
      cases reduce <;> pm_simp [Gen.scan_obs_on_next, pScan, repP, hg, PyAlg.isFalse, PyAlg.isTrue, PyAlg.truthy, Val.truthy, PyAlg.bool] <;>
        (funext j; by_cases h0 : j = 0 <;> by_cases h1 : j = 1 <;> simp [repP, h0, h1])


/-- `scan_obs.on_completed`: the generated closure emits `scanFin` (the terminator's value, or in reduce mode the last
accumulator or the seed) and then completes -/
theorem LinkP_scan_fin (seed : Val) (reduce : Bool) (term : Option (Val → Val)) (s : Option Val) :
    let r := PM.run (Gen.scan_obs_on_completed (term.map (fun t v => Except.ok (t v))) seed reduce) (repP s)
    obsOut r = (pScan (α := Val) (fun a _ => .ok a) seed reduce term).fin s ∧ r.2.completed = true := by
  cases term <;> cases reduce <;> cases s <;>
    pm_simp [Gen.scan_obs_on_completed, pScan, scanFin, repP, PyAlg.isFalse, PyAlg.isTrue, PyAlg.truthy, Val.truthy, PyAlg.bool]

end Rx

import RxModel.Lemmas.Impl
/-!
# C02 — state confinement: a key lifetime's output depends only on that lifetime's items

* `C02_impl_eq_ref`: on every well-formed trace the index-addressed implementation equals the keyed
  reference semantics (state addressed by the whole key — no aliasing possible by construction).
* `C02_other_keys`: in the reference semantics the events emitted for key `k` are a function of the
  events received for `k` alone, whatever the other keys do and however they are interleaved.
* `C02_lifetime`: one lifetime `create k, items, done k` emits exactly the local meaning of the
  pipeline on those items and leaves no state behind — so a later lifetime served by the same slot
  starts fresh (successive windows of roll, segments of split, reused group indices).
-/
namespace Rx

def evKey {α} : Ev α → Option Key
  | .create k => some k
  | .next k _ => some k
  | .done k => some k
  | .err k _ => some k
  | .fatal _ => none

def ofKey {α} (k : Key) (e : Ev α) : Bool := evKey e == some k

theorem C02_impl_eq_ref (P : Pipe) (h : P.Supported) (t : List (Ev Val)) (ht : WF t) :
    P.mux.run t = (refLift P.loc).run t := impl_eq_ref P h t ht

theorem liftOut_key {β} (k : Key) (o : LOut β) : evKey (liftOut k o) = some k ∨ evKey (liftOut k o) = none := by
  cases o <;> simp [liftOut, evKey]

theorem filter_outs_other {β} (k k' : Key) (h : k' ≠ k) (os : List (LOut β)) :
    (os.map (liftOut k')).filter (ofKey k) = [] := by
  induction os with
  | nil => rfl
  | cons o os ih =>
    cases o <;> simp [liftOut, ofKey, evKey, h, ih, List.filter_cons]

/-- events of another key (or stream-level errors) neither touch the state of `k` nor emit for `k` -/
theorem refStep_other {α β} (L : LocalOp α β) (st : Key → Option L.σ) (e : Ev α) (k : Key)
    (h : evKey e ≠ some k) :
    (refStep L st e).1 k = st k ∧ (refStep L st e).2.filter (ofKey k) = [] := by
  cases e with
  | create k' =>
    have hk : k' ≠ k := fun hh => h (by simp [evKey, hh])
    simp [refStep, upd, ofKey, evKey, hk, Ne.symm hk]
  | next k' x =>
    have hk : k' ≠ k := fun hh => h (by simp [evKey, hh])
    simp only [refStep]
    cases st k' with
    | none => simp
    | some s => simp [upd, Ne.symm hk, filter_outs_other k k' hk]
  | err k' x =>
    have hk : k' ≠ k := fun hh => h (by simp [evKey, hh])
    simp only [refStep]
    cases st k' with
    | none => simp [ofKey, evKey, hk]
    | some s => simp [upd, Ne.symm hk, filter_outs_other k k' hk]
  | done k' =>
    have hk : k' ≠ k := fun hh => h (by simp [evKey, hh])
    simp only [refStep]
    cases st k' with
    | none => simp [ofKey, evKey, hk]
    | some s => simp [upd, Ne.symm hk, filter_outs_other k k' hk, ofKey, evKey, hk]
  | fatal x => simp [refStep, ofKey, evKey]

/-- an event of key `k` is handled using the state of `k` only -/
theorem refStep_congr {α β} (L : LocalOp α β) (st st' : Key → Option L.σ) (e : Ev α) (k : Key)
    (he : evKey e = some k) (h : st k = st' k) :
    (refStep L st e).1 k = (refStep L st' e).1 k ∧ (refStep L st e).2 = (refStep L st' e).2 := by
  cases e with
  | create k' =>
    have : k' = k := by simpa [evKey] using he
    subst this; simp [refStep, upd]
  | next k' x =>
    have : k' = k := by simpa [evKey] using he
    subst this
    simp only [refStep, ← h]
    cases st k' <;> simp [upd, h]
  | err k' x =>
    have : k' = k := by simpa [evKey] using he
    subst this
    simp only [refStep, ← h]
    cases st k' <;> simp [upd, h]
  | done k' =>
    have : k' = k := by simpa [evKey] using he
    subst this
    simp only [refStep, ← h]
    cases hst : st k' <;> simp [upd, hst, ← h]
  | fatal x => simp [evKey] at he

/-- **other keys do not matter**: what the reference semantics emits for key `k` over any trace is
what it emits over the sub-trace of `k`'s own events -/
theorem C02_other_keys {α β} (L : LocalOp α β) (k : Key) :
    ∀ (t : List (Ev α)) (st st' : Key → Option L.σ), st k = st' k →
      (runSteps (refStep L) st t).flatten.filter (ofKey k) =
        (runSteps (refStep L) st' (t.filter (ofKey k))).flatten.filter (ofKey k) := by
  intro t
  induction t with
  | nil => intros; rfl
  | cons e t ih =>
    intro st st' h
    by_cases he : evKey e = some k
    · have hf : ofKey k e = true := by simp [ofKey, he]
      simp only [List.filter_cons, hf, if_true, runSteps, List.flatten_cons, List.filter_append]
      have hc := refStep_congr L st st' e k he h
      rw [hc.2, ih _ _ hc.1]
    · have hf : ofKey k e = false := by simp [ofKey, he]
      simp only [List.filter_cons, hf, runSteps, List.flatten_cons, List.filter_append]
      have ho := refStep_other L st e k he
      rw [ho.2, List.nil_append]
      exact ih _ _ (by rw [ho.1, h])

/-- **one lifetime**: `create k`, the items, `done k` — exactly the local meaning on these items,
chunk by chunk, and the slot of `k` is empty again afterwards whatever it held before -/
theorem C02_lifetime {α β} (L : LocalOp α β) (k : Key) (xs : List α) (st : Key → Option L.σ) :
    runSteps (refStep L) st ([.create k] ++ xs.map (.next k) ++ [.done k]) =
      [[.create k]] ++ (L.runL L.init xs).1.map (fun c => c.map (liftOut k)) ++
        [(L.runL L.init xs).2.map (liftOut k) ++ [.done k]] ∧
    finalState (refStep L) st ([.create k] ++ xs.map (.next k) ++ [.done k]) k = none := by
  have key : ∀ (xs : List α) (st : Key → Option L.σ) (s : L.σ), st k = some s →
      runSteps (refStep L) st (xs.map (.next k) ++ [.done k]) =
        (runRaw L.next L.fin s xs).1.map (fun c => c.map (liftOut k)) ++
          [(runRaw L.next L.fin s xs).2.map (liftOut k) ++ [.done k]] ∧
      finalState (refStep L) st (xs.map (.next k) ++ [.done k]) k = none := by
    intro xs
    induction xs with
    | nil =>
      intro st s hs
      simp [runSteps, finalState, refStep, hs, runRaw, upd]
    | cons x xs ih =>
      intro st s hs
      have := ih (upd st k (some (L.next s x).1)) (L.next s x).1 (by simp [upd])
      simp only [List.map_cons, List.cons_append, runSteps, finalState, refStep, hs, runRaw] at this ⊢
      exact ⟨by rw [this.1], this.2⟩
  have := key xs (upd st k (some L.init)) L.init (by simp [upd])
  simp only [List.cons_append, List.nil_append, List.append_assoc, runSteps, finalState, refStep, LocalOp.runL] at this ⊢
  exact ⟨by rw [this.1], this.2⟩

/-- **confinement for the implementation**: over any well-formed trace, the events a supported
pipeline emits for key `k` are those the reference semantics emits over `k`'s own events -/
theorem C02_confinement (P : Pipe) (h : P.Supported) (t : List (Ev Val)) (ht : WF t) (k : Key) :
    (P.mux.run t).flatten.filter (ofKey k) =
      ((refLift P.loc).run (t.filter (ofKey k))).flatten.filter (ofKey k) := by
  rw [impl_eq_ref P h t ht]
  exact C02_other_keys P.loc k t _ _ rfl

end Rx

import RxModel.Lemmas.Impl
import RxModel.Lemmas.Nested
/-!
# C02 — state confinement: a key lifetime's output depends only on that lifetime's items

* `C02_impl_eq_ref`: on every well-formed trace the index-addressed implementation equals the keyed
  reference semantics (state addressed by the whole key — no aliasing possible by construction).
* `C02_other_keys`: in the reference semantics the events emitted for key `k` are a function of the
  events received for `k` alone, whatever the other keys do and however they are interleaved.
* `C02_lifetime`: one lifetime `create k, items, done k` emits exactly the local meaning of the
  pipeline on those items and leaves no state behind — so a later lifetime served by the same slot
  starts fresh (successive windows of roll, segments of split, reused group indices).
-/
namespace Rx

def evKey {α} : Ev α → Option Key
  | .create k => some k
  | .next k _ => some k
  | .done k => some k
  | .err k _ => some k
  | .fatal _ => none

def ofKey {α} (k : Key) (e : Ev α) : Bool := evKey e == some k

theorem C02_impl_eq_ref (P : Pipe) (h : P.Supported) (t : List (Ev Val)) (ht : WF t) :
    P.mux.run t = (refLift P.loc).run t := impl_eq_ref P h t ht

theorem liftOut_key {β} (k : Key) (o : LOut β) : evKey (liftOut k o) = some k ∨ evKey (liftOut k o) = none := by
  cases o <;> simp [liftOut, evKey]

theorem filter_outs_other {β} (k k' : Key) (h : k' ≠ k) (os : List (LOut β)) :
    (os.map (liftOut k')).filter (ofKey k) = [] := by
  induction os with
  | nil => rfl
  | cons o os ih =>
    cases o <;> simp [liftOut, ofKey, evKey, h, ih, List.filter_cons]

/-- events of another key (or stream-level errors) neither touch the state of `k` nor emit for `k` -/
theorem refStep_other {α β} (L : LocalOp α β) (st : Key → Option L.σ) (e : Ev α) (k : Key)
    (h : evKey e ≠ some k) :
    (refStep L st e).1 k = st k ∧ (refStep L st e).2.filter (ofKey k) = [] := by
  cases e with
  | create k' =>
    have hk : k' ≠ k := fun hh => h (by simp [evKey, hh])
    simp [refStep, upd, ofKey, evKey, hk, Ne.symm hk]
  | next k' x =>
    have hk : k' ≠ k := fun hh => h (by simp [evKey, hh])
    simp only [refStep]
    cases st k' with
    | none => simp
    | some s => simp [upd, Ne.symm hk, filter_outs_other k k' hk]
  | err k' x =>
    have hk : k' ≠ k := fun hh => h (by simp [evKey, hh])
    simp only [refStep]
    cases st k' with
    | none => simp [ofKey, evKey, hk]
    | some s => simp [upd, Ne.symm hk, filter_outs_other k k' hk]
  | done k' =>
    have hk : k' ≠ k := fun hh => h (by simp [evKey, hh])
    simp only [refStep]
    cases st k' with
    | none => simp [ofKey, evKey, hk]
    | some s => simp [upd, Ne.symm hk, filter_outs_other k k' hk, ofKey, evKey, hk]
  | fatal x => simp [refStep, ofKey, evKey]

/-- an event of key `k` is handled using the state of `k` only -/
theorem refStep_congr {α β} (L : LocalOp α β) (st st' : Key → Option L.σ) (e : Ev α) (k : Key)
    (he : evKey e = some k) (h : st k = st' k) :
    (refStep L st e).1 k = (refStep L st' e).1 k ∧ (refStep L st e).2 = (refStep L st' e).2 := by
  cases e with
  | create k' =>
    have : k' = k := by simpa [evKey] using he
    subst this; simp [refStep, upd]
  | next k' x =>
    have : k' = k := by simpa [evKey] using he
    subst this
    simp only [refStep, ← h]
    cases st k' <;> simp [upd, h]
  | err k' x =>
    have : k' = k := by simpa [evKey] using he
    subst this
    simp only [refStep, ← h]
    cases st k' <;> simp [upd, h]
  | done k' =>
    have : k' = k := by simpa [evKey] using he
    subst this
    simp only [refStep, ← h]
    cases hst : st k' <;> simp [upd, hst, ← h]
  | fatal x => simp [evKey] at he

/-- **other keys do not matter**: what the reference semantics emits for key `k` over any trace is
what it emits over the sub-trace of `k`'s own events -/
theorem C02_other_keys {α β} (L : LocalOp α β) (k : Key) :
    ∀ (t : List (Ev α)) (st st' : Key → Option L.σ), st k = st' k →
      (runSteps (refStep L) st t).flatten.filter (ofKey k) =
        (runSteps (refStep L) st' (t.filter (ofKey k))).flatten.filter (ofKey k) := by
  intro t
  induction t with
  | nil => intros; rfl
  | cons e t ih =>
    intro st st' h
    by_cases he : evKey e = some k
    · have hf : ofKey k e = true := by simp [ofKey, he]
      simp only [List.filter_cons, hf, if_true, runSteps, List.flatten_cons, List.filter_append]
      have hc := refStep_congr L st st' e k he h
      rw [hc.2, ih _ _ hc.1]
    · have hf : ofKey k e = false := by simp [ofKey, he]
      simp only [List.filter_cons, hf, runSteps, List.flatten_cons, List.filter_append]
      have ho := refStep_other L st e k he
      rw [ho.2, List.nil_append]
      exact ih _ _ (by rw [ho.1, h])

/-- **one lifetime**: `create k`, the items, `done k` — exactly the local meaning on these items,
chunk by chunk, and the slot of `k` is empty again afterwards whatever it held before -/
theorem C02_lifetime {α β} (L : LocalOp α β) (k : Key) (xs : List α) (st : Key → Option L.σ) :
    runSteps (refStep L) st ([.create k] ++ xs.map (.next k) ++ [.done k]) =
      [[.create k]] ++ (L.runL L.init xs).1.map (fun c => c.map (liftOut k)) ++
        [(L.runL L.init xs).2.map (liftOut k) ++ [.done k]] ∧
    finalState (refStep L) st ([.create k] ++ xs.map (.next k) ++ [.done k]) k = none := by
  have key : ∀ (xs : List α) (st : Key → Option L.σ) (s : L.σ), st k = some s →
      runSteps (refStep L) st (xs.map (.next k) ++ [.done k]) =
        (runRaw L.next L.fin s xs).1.map (fun c => c.map (liftOut k)) ++
          [(runRaw L.next L.fin s xs).2.map (liftOut k) ++ [.done k]] ∧
      finalState (refStep L) st (xs.map (.next k) ++ [.done k]) k = none := by
    intro xs
    induction xs with
    | nil =>
      intro st s hs
      simp [runSteps, finalState, refStep, hs, runRaw, upd]
    | cons x xs ih =>
      intro st s hs
      have := ih (upd st k (some (L.next s x).1)) (L.next s x).1 (by simp [upd])
      simp only [List.map_cons, List.cons_append, runSteps, finalState, refStep, hs, runRaw] at this ⊢
      exact ⟨by rw [this.1], this.2⟩
  have := key xs (upd st k (some L.init)) L.init (by simp [upd])
  simp only [List.cons_append, List.nil_append, List.append_assoc, runSteps, finalState, refStep, LocalOp.runL] at this ⊢
  exact ⟨by rw [this.1], this.2⟩

/-- **confinement for the implementation**: over any well-formed trace, the events a supported
pipeline emits for key `k` are those the reference semantics emits over `k`'s own events -/
theorem C02_confinement (P : Pipe) (h : P.Supported) (t : List (Ev Val)) (ht : WF t) (k : Key) :
    (P.mux.run t).flatten.filter (ofKey k) =
      ((refLift P.loc).run (t.filter (ofKey k))).flatten.filter (ofKey k) := by
  rw [impl_eq_ref P h t ht]
  exact C02_other_keys P.loc k t _ _ rfl

/-! ## nested pipelines: splitters around inner pipelines, `tee_map` around branches, any depth -/

/-- **impl = keyed reference for nested pipelines** (`Pipe.Nested`, Lemmas/Nested.lean), on every
clean well-formed trace: any number of keys, any interleaving, sparse and reused slot indices; inner
keys of groups, windows, segments and sessions are derived and reused by the implementation as the
code does (`group_by` counter, `roll` ring slots, `(key[0], key)` of split/time_split) -/
theorem C02_impl_eq_ref_nested (P : Pipe) (h : P.Nested) (t : List (Ev Val)) (ht : WF t) (hc : CleanTr t) :
    P.mux.run t = (refLift P.loc).run t := impl_eq_ref_nested P h t ht hc

/-- **confinement for nested pipelines**: over any clean well-formed trace, the events a nested
pipeline emits for key `k` are those the keyed reference semantics emits over `k`'s own events -/
theorem C02_confinement_nested (P : Pipe) (h : P.Nested) (t : List (Ev Val)) (ht : WF t) (hc : CleanTr t) (k : Key) :
    (P.mux.run t).flatten.filter (ofKey k) =
      ((refLift P.loc).run (t.filter (ofKey k))).flatten.filter (ofKey k) := by
  rw [impl_eq_ref_nested P h t ht hc]
  exact C02_other_keys P.loc k t _ _ rfl

/-- **inner lifetimes start fresh** (windows of roll, segments of split/time_split, groups): in the
local meaning of `wrap`, the inner lifetime opened in local slot `j` emits the inner pipeline's
local meaning on exactly the items delivered between its `opn` and its `cls`, whatever the slot held
before, and leaves the slot empty -/
theorem C02_inner_lifetime {α β} (L : LocalOp α β) (j : Nat) (xs : List α) (st : Nat → Option L.σ) :
    runGroup (cmdStep L) st ([Cmd.opn j] ++ xs.map (Cmd.itm j) ++ [Cmd.cls j]) =
      (fun i => if i = j then none else st i, L.outL xs) := by
  have key : ∀ (xs : List α) (st : Nat → Option L.σ) (s : L.σ), st j = some s →
      runGroup (cmdStep L) st (xs.map (Cmd.itm j) ++ [Cmd.cls j]) =
        (fun i => if i = j then none else st i, (runRaw L.next L.fin s xs).1.flatten ++ (runRaw L.next L.fin s xs).2) := by
    intro xs
    induction xs with
    | nil =>
      intro st s hs
      simp only [List.map_nil, List.nil_append, runGroup, cmdStep, hs, runRaw, List.flatten_nil, List.append_nil]
      congr 1
    | cons x xs ih =>
      intro st s hs
      simp only [List.map_cons, List.cons_append, runGroup, cmdStep, hs, runRaw, List.flatten_cons, List.append_assoc]
      rw [ih (upd st j (some (L.next s x).1)) (L.next s x).1 (by simp [upd])]
      congr 1
      funext i; by_cases hi : i = j <;> simp [upd, hi]
  have := key xs (upd st j (some L.init)) L.init (by simp [upd])
  simp only [List.cons_append, List.nil_append, List.append_assoc, runGroup, cmdStep] at this ⊢
  rw [this]
  simp only [List.nil_append, LocalOp.outL, LocalOp.runL]
  congr 1
  funext i; by_cases hi : i = j <;> simp [upd, hi]

/-- **the catalogue is nested**: every splitter of rxsci around a nested inner pipeline, and
`tee_map` around nested branches, is a nested stage -/
theorem C02_nested_builders :
    (∀ f inner, inner.Nested → (D.groupBy f inner).Nested) ∧
    (∀ w s inner, 0 < w → 0 < s → inner.Nested → (D.roll w s inner).Nested) ∧
    (∀ f inner, inner.Nested → (D.split f inner).Nested) ∧
    (∀ c inner, inner.Nested → (D.timeSplit c inner).Nested) ∧
    (∀ mode p bs, p.Nested → bs.Nested → (Stage.tee mode (.cons p bs)).Nested) :=
  ⟨fun f _ h => ⟨⟨groupBySim f⟩, h⟩, fun w s _ hw hs h => ⟨⟨rollSim w s hs hw⟩, h⟩,
   fun f _ h => ⟨⟨splitSim f⟩, h⟩, fun c _ h => ⟨⟨timeSplitSim c⟩, h⟩,
   fun _ _ _ hp hb => ⟨⟨hp, hb⟩, by simp [Pipes.locBranches, LBranches.length]⟩⟩

/-- which primitive stages are clean (never turn an item into an error): everything whose user
function is total -/
theorem C02_clean_builders :
    (∀ f : D.F1, (∀ x, ∃ y, f x = .ok y) → (D.map f).Clean) ∧
    (∀ p : D.F1, (∀ x, ∃ y, p x = .ok y) → (D.filter p).Clean) ∧
    (∀ (g : D.F2) seed r term, (∀ a x, ∃ y, g a x = .ok y) → (D.scan g seed r term).Clean) ∧
    D.first.Clean ∧ D.last.Clean ∧ (∀ n, (D.take n).Clean) ∧ (∀ n, (D.lag n).Clean) ∧
    (∀ n v, (D.padStart n v).Clean) ∧ (∀ n v, (D.padEnd n v).Clean) ∧ (∀ vs, (D.startWith vs).Clean) ∧
    D.flatMap.Clean := by
  refine ⟨?_, ?_, ?_, ?_, ?_, ?_, ?_, ?_, ?_, ?_, ?_⟩
  · intro f hf
    refine ⟨fun s x o ho => ?_, fun s o ho => by simp [mapOp] at ho⟩
    obtain ⟨y, hy⟩ := hf x
    simp [mapOp, hy] at ho; subst ho; rfl
  · intro p hp
    refine ⟨fun s x o ho => ?_, fun s o ho => by simp [filterOp] at ho⟩
    obtain ⟨y, hy⟩ := hp x
    simp only [filterOp, hy] at ho
    split at ho
    · simp at ho; subst ho; rfl
    · simp at ho
  · intro g seed r term hg
    refine ⟨fun s x o ho => ?_, fun s o ho => ?_⟩
    · obtain ⟨y, hy⟩ := hg (s.getD seed) x
      simp only [scanOp, scanNext, hy] at ho
      split at ho
      · simp at ho
      · simp at ho; subst ho; rfl
    · simp only [scanOp, scanFin] at ho
      cases term with
      | none =>
        simp only at ho
        split at ho
        · simp at ho; subst ho; rfl
        · simp at ho
      | some tf => simp at ho; subst ho; rfl
  · refine ⟨fun s x o ho => ?_, fun s o ho => by simp [firstOp] at ho⟩
    simp only [firstOp] at ho
    split at ho
    · simp at ho
    · simp at ho; subst ho; rfl
  · refine ⟨fun s x o ho => by simp [lastOp] at ho, fun s o ho => ?_⟩
    simp only [lastOp] at ho
    cases s with
    | none => simp at ho
    | some v => simp at ho; subst ho; rfl
  · intro n
    refine ⟨fun s x o ho => ?_, fun s o ho => by simp [takeOp] at ho⟩
    simp only [takeOp] at ho
    split at ho
    · simp at ho; subst ho; rfl
    · simp at ho
  · intro n
    unfold D.lag
    by_cases hn : n = 1
    · simp only [hn, if_true]
      exact ⟨fun s x o ho => by simp [lag1Op] at ho; subst ho; rfl, fun s o ho => by simp [lag1Op] at ho⟩
    · simp only [hn, if_false]
      exact ⟨fun s x o ho => by simp [lagOp] at ho; subst ho; rfl, fun s o ho => by simp [lagOp] at ho⟩
  · intro n v
    refine ⟨fun s x o ho => ?_, fun s o ho => by simp [padStartOp] at ho⟩
    simp only [padStartOp] at ho
    split at ho
    · simp at ho; subst ho; rfl
    · simp only [List.mem_append, List.mem_replicate, List.mem_singleton] at ho
      rcases ho with ⟨_, rfl⟩ | rfl <;> rfl
  · intro n v
    refine ⟨fun s x o ho => by simp [padEndOp] at ho; subst ho; rfl, fun s o ho => ?_⟩
    simp only [padEndOp] at ho
    cases s with
    | none => simp at ho
    | some l => simp only [List.mem_replicate] at ho; rw [ho.2]; rfl
  · intro vs
    refine ⟨fun s x o ho => ?_, fun s o ho => by simp [startWithOp] at ho⟩
    simp only [startWithOp] at ho
    split at ho
    · simp at ho; subst ho; rfl
    · simp only [List.mem_append, List.mem_map, List.mem_singleton] at ho
      rcases ho with ⟨_, _, rfl⟩ | rfl <;> rfl
  · refine ⟨fun s x o ho => ?_, fun s o ho => by simp [flatMapOp] at ho⟩
    simp only [flatMapOp, List.mem_map] at ho
    obtain ⟨_, _, rfl⟩ := ho; rfl

/-- non-vacuity: `group_by | roll(3,2) | tee_map(last, count) zip` nested three deep is a nested
pipeline, and a clean well-formed trace with a reused slot index meets the hypotheses -/
example : (Pipe.ofList [D.groupBy (fun v => v)
    (Pipe.ofList [D.roll 3 2 (Pipe.ofList [Stage.tee .zip (.cons (Pipe.ofList [D.last]) (.cons (Pipe.ofList [D.first]) .nil))])])]).Nested := by
  refine ⟨C02_nested_builders.1 _ _ ⟨C02_nested_builders.2.1 3 2 _ (by omega) (by omega) ⟨?_, trivial, Or.inl trivial⟩, trivial, Or.inl trivial⟩, trivial, Or.inl trivial⟩
  exact C02_nested_builders.2.2.2.2 _ _ _ ⟨trivial, trivial, Or.inl trivial⟩ ⟨⟨trivial, trivial, Or.inl trivial⟩, trivial⟩

example : WF ([.create [3, 0], .create [1, 0], .next [3, 0] (.int 1), .next [1, 0] (.int 5), .done [3, 0],
    .create [3, 0], .done [1, 0], .done [3, 0]] : List (Ev Val)) ∧
    CleanTr ([.create [3, 0], .create [1, 0], .next [3, 0] (.int 1), .next [1, 0] (.int 5), .done [3, 0],
    .create [3, 0], .done [1, 0], .done [3, 0]] : List (Ev Val)) := by
  refine ⟨by unfold WF; decide, ?_, ?_⟩
  · intro e he; simp at he; rcases he with rfl | rfl | rfl | rfl | rfl | rfl | rfl | rfl <;> rfl
  · intro e he; simp at he; rcases he with rfl | rfl | rfl | rfl | rfl | rfl | rfl | rfl <;> rfl

end Rx

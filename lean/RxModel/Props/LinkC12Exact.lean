import RxGen.Kernels
import RxModel.NVal
import RxModel.Props.C12
/-!
# C12 link theorems (2): the numeric theorems, proved ABOUT THE GENERATED CODE in exact arithmetic

`Gen.*` are the definitions harness/pygen.py generates from `rxsci/math/*.py`; here they are instantiated at
`NVal` (Python values whose numbers are exact rationals).  `Exact_sum`, `Exact_mean`, `Exact_variance`,
`Exact_min`, `Exact_formal_variance`: scanning the generated accumulator from the seed the source passes to `scan`
and applying the generated result lambda yields the mathematically exact statistic of the items, for every
sequence.  (`C12_*` in Props/C12.lean are the same facts about the hand-written generic model.)
-/
namespace Rx

theorem okb {ε α β} (a : α) (f : α → Except ε β) : (Except.ok a >>= f) = f a := rfl

@[simp] theorem nadd (a b : ℚ) : (PyAlg.add (NVal.num a) (NVal.num b) : Except Err NVal) = .ok (.num (a + b)) := rfl
@[simp] theorem nsub (a b : ℚ) : (PyAlg.sub (NVal.num a) (NVal.num b) : Except Err NVal) = .ok (.num (a - b)) := rfl
@[simp] theorem nmul (a b : ℚ) : (PyAlg.mul (NVal.num a) (NVal.num b) : Except Err NVal) = .ok (.num (a * b)) := rfl
@[simp] theorem ndiv (a b : ℚ) (h : b ≠ 0) : (PyAlg.div (NVal.num a) (NVal.num b) : Except Err NVal) = .ok (.num (a / b)) := by
  show NVal.div _ _ = _
  simp [NVal.div, h]
@[simp] theorem nlt (a b : ℚ) : (PyAlg.lt (NVal.num a) (NVal.num b) : Except Err Bool) = .ok (decide (a < b)) := rfl
@[simp] theorem nint (i : Int) : (PyAlg.int i : NVal) = .num i := rfl
@[simp] theorem nflit0 : (PyAlg.flit 0 1 : NVal) = .num 0 := by
  show NVal.num _ = _
  simp
@[simp] theorem ntup (l : List NVal) : (PyAlg.tup l : NVal) = .tup l := rfl
@[simp] theorem nnone : (PyAlg.none : NVal) = .none := rfl
@[simp] theorem nnth_tup (l : List NVal) (i : Nat) : (PyAlg.nth (NVal.tup l) i : NVal) = l.getD i .none := rfl
@[simp] theorem nisNone_num (a : ℚ) : PyAlg.isNone (NVal.num a) = false := rfl
@[simp] theorem nisNone_none : PyAlg.isNone (NVal.none) = true := rfl
@[simp] theorem nisNone_tup (l) : PyAlg.isNone (NVal.tup l) = false := rfl

/-- the identity key mapper -/
def idKey : NVal → Except Err NVal := fun v => .ok v

/-! ## sum -/

theorem sum_step (a x : ℚ) : Gen.sum_accumulate idKey (NVal.num a) (NVal.num x) = .ok (.num (a + x)) := by
  simp [Gen.sum_accumulate, idKey, okb]

theorem sum_fold (xs : List ℚ) (a : ℚ) :
    (xs.map NVal.num).foldlM (Gen.sum_accumulate idKey) (NVal.num a) = .ok (.num (a + xs.sum)) := by
  induction xs generalizing a with
  | nil => simp [pure, Except.pure]
  | cons x xs ih => simp only [List.map_cons, List.foldlM_cons, sum_step, okb, ih, List.sum_cons, add_assoc]

/-- **sum, exact**: the accumulator generated from `rxsci/math/sum.py`, run over any sequence from the
seed `0.0` in exact arithmetic, ends with the mathematical sum -/
theorem Exact_sum (xs : List ℚ) :
    (xs.map NVal.num).foldlM (Gen.sum_accumulate idKey) (PyAlg.flit 0 1) = .ok (.num xs.sum) := by
  simp [sum_fold]

/-! ## mean -/

theorem mean_step (a c x : ℚ) :
    Gen.mean_accumulate idKey (NVal.tup [.num a, .num c]) (NVal.num x) = .ok (.tup [.num (a + x), .num (c + 1)]) := by
  simp [Gen.mean_accumulate, idKey, okb]

theorem mean_fold (xs : List ℚ) (a c : ℚ) :
    (xs.map NVal.num).foldlM (Gen.mean_accumulate idKey) (NVal.tup [.num a, .num c])
      = .ok (.tup [.num (a + xs.sum), .num (c + xs.length)]) := by
  induction xs generalizing a c with
  | nil => simp [pure, Except.pure]
  | cons x xs ih =>
    simp only [List.map_cons, List.foldlM_cons, mean_step, okb, ih, List.sum_cons, List.length_cons, Nat.cast_succ]
    congr 4 <;> ring_nf

/-- **mean, exact**: scan with the generated accumulator from `(0, 0)`, then the generated result lambda -/
theorem Exact_mean (xs : List ℚ) (h : xs ≠ []) :
    ((xs.map NVal.num).foldlM (Gen.mean_accumulate idKey) (PyAlg.tup [PyAlg.int 0, PyAlg.int 0]) >>= Gen.mean_result)
      = .ok (.num (xs.sum / xs.length)) := by
  have hl : (xs.length : ℚ) ≠ 0 := by
    have : xs.length ≠ 0 := by simpa [List.length_eq_zero_iff] using h
    exact_mod_cast this
  simp [mean_fold, okb, Gen.mean_result, hl]

/-! ## variance (Welford) -/

/-- the scan state `(m, s, k)` of `rxsci/math/variance.py` as an exact value -/
def encW : Option (WSt ℚ) → NVal
  | Option.none => NVal.tup [NVal.none, NVal.num 0, NVal.num 0]
  | Option.some st => NVal.tup [NVal.num st.m, NVal.num st.s, NVal.num st.k]

theorem variance_step (st : Option (WSt ℚ)) (x : ℚ) :
    Gen.variance_accumulate idKey (encW st) (NVal.num x) = .ok (encW (some (wstep st x))) := by
  cases st with
  | none => simp [Gen.variance_accumulate, idKey, okb, encW, wstep]
  | some st =>
    have hk : ((st.k : ℚ) + 1) ≠ 0 := by positivity
    simp [Gen.variance_accumulate, idKey, okb, encW, wstep, hk]

theorem variance_fold (xs : List ℚ) (st : Option (WSt ℚ)) :
    (xs.map NVal.num).foldlM (Gen.variance_accumulate idKey) (encW st) = .ok (encW (wfold st xs)) := by
  induction xs generalizing st with
  | nil => simp [pure, Except.pure, wfold]
  | cons x xs ih => simp only [List.map_cons, List.foldlM_cons, variance_step, okb, ih, wfold]

theorem variance_result (st : Option (WSt ℚ)) : Gen.variance_result (encW st) = .ok (.num (wvar st)) := by
  cases st with
  | none => simp [Gen.variance_result, encW, wvar, okb]; rfl
  | some st =>
    by_cases h : st.k < 2
    · have h' : (st.k : ℚ) < 2 := by exact_mod_cast h
      simp [Gen.variance_result, encW, wvar, okb, h, h']; rfl
    · have h' : ¬ (st.k : ℚ) < 2 := by
        intro hh; apply h; exact_mod_cast hh
      have h1 : (st.k : ℚ) - 1 ≠ 0 := by
        have : (2 : ℚ) ≤ st.k := not_lt.mp h'
        linarith
      have hc : ((st.k - 1 : ℕ) : ℚ) = (st.k : ℚ) - 1 := by
        rw [Nat.cast_sub (by omega)]; simp
      simp [Gen.variance_result, encW, wvar, okb, h, h', h1, hc]

/-- **variance, exact**: the generated Welford accumulator scanned from `(None, 0, 0)` over any sequence, followed by the
generated result lambda, yields the sample variance (n−1), and 0 for fewer than two items -/
theorem Exact_variance (xs : List ℚ) :
    ((xs.map NVal.num).foldlM (Gen.variance_accumulate idKey) (PyAlg.tup [PyAlg.none, PyAlg.int 0, PyAlg.int 0])
        >>= Gen.variance_result)
      = .ok (.num (if xs.length < 2 then 0
          else (sumsq xs - xs.length * (xs.sum / xs.length) * (xs.sum / xs.length)) / ((xs.length : ℚ) - 1))) := by
  have h0 : (PyAlg.tup [PyAlg.none, PyAlg.int 0, PyAlg.int 0] : NVal) = encW none := by simp [encW]
  rw [h0, variance_fold, okb, variance_result, C12_variance]

/-! ## min / max -/

def encO : Option ℚ → NVal
  | Option.none => NVal.none
  | Option.some a => NVal.num a

theorem min_step (a : Option ℚ) (x : ℚ) :
    Gen.min_accumulate idKey (encO a) (NVal.num x)
      = .ok (encO (some (match a with | Option.none => x | Option.some m => if x < m then x else m))) := by
  cases a with
  | none => simp [Gen.min_accumulate, idKey, encO]
  | some m =>
    by_cases h : x < m <;> simp [Gen.min_accumulate, idKey, okb, encO, h] <;> rfl

theorem max_step (a : Option ℚ) (x : ℚ) :
    Gen.max_accumulate idKey (encO a) (NVal.num x)
      = .ok (encO (some (match a with | Option.none => x | Option.some m => if m < x then x else m))) := by
  cases a with
  | none => simp [Gen.max_accumulate, idKey, encO]
  | some m =>
    by_cases h : m < x <;> simp [Gen.max_accumulate, idKey, okb, encO, h] <;> rfl

/-- **min, exact**: after a non-empty sequence the generated accumulator holds an element of the sequence that is
a lower bound of it -/
theorem Exact_min (xs : List ℚ) (a : Option ℚ) :
    ∃ r, (xs.map NVal.num).foldlM (Gen.min_accumulate idKey) (encO a) = .ok (encO r) ∧
      (∀ m, r = some m → (m ∈ xs ∨ a = some m) ∧ (∀ x ∈ xs, m ≤ x) ∧ (∀ b, a = some b → m ≤ b)) ∧
      (r = Option.none → xs = [] ∧ a = Option.none) := by
  induction xs generalizing a with
  | nil =>
    refine ⟨a, by simp [pure, Except.pure], ?_, ?_⟩
    · intro m hm; subst hm; simp
    · intro h; simp [h]
  | cons x xs ih =>
    obtain ⟨r, hr, h1, h2⟩ := ih (some (match a with | Option.none => x | Option.some m => if x < m then x else m))
    refine ⟨r, by simp only [List.map_cons, List.foldlM_cons, min_step, okb, hr], ?_, ?_⟩
    · intro m hm
      obtain ⟨hmem, hle, hb⟩ := h1 m hm
      have hb' := hb _ rfl
      cases a with
      | none =>
        simp only at hb' hmem
        refine ⟨?_, ?_, by simp⟩
        · rcases hmem with h | h
          · exact Or.inl (List.mem_cons_of_mem _ h)
          · left; simp at h; simp [h]
        · intro y hy
          rcases List.mem_cons.mp hy with h | h
          · rw [h]; exact hb'
          · exact hle y h
      | some b =>
        simp only at hb' hmem
        by_cases hxb : x < b
        · simp only [hxb, if_true] at hb' hmem
          refine ⟨?_, ?_, ?_⟩
          · rcases hmem with h | h
            · exact Or.inl (List.mem_cons_of_mem _ h)
            · left; simp at h; simp [h]
          · intro y hy
            rcases List.mem_cons.mp hy with h | h
            · rw [h]; exact hb'
            · exact hle y h
          · intro b' hb2; simp at hb2; subst hb2; linarith
        · simp only [hxb, if_false] at hb' hmem
          refine ⟨?_, ?_, ?_⟩
          · rcases hmem with h | h
            · exact Or.inl (List.mem_cons_of_mem _ h)
            · right; simpa using h
          · intro y hy
            rcases List.mem_cons.mp hy with h | h
            · rw [h]; have := not_lt.mp hxb; linarith
            · exact hle y h
          · intro b' hb2; simp at hb2; subst hb2; exact hb'
    · intro h
      have := (h2 h).2
      simp at this

/-- **max, exact**: after a non-empty sequence the generated accumulator holds an element of the sequence that is
an upper bound of it -/
theorem Exact_max (xs : List ℚ) (a : Option ℚ) :
    ∃ r, (xs.map NVal.num).foldlM (Gen.max_accumulate idKey) (encO a) = .ok (encO r) ∧
      (∀ m, r = some m → (m ∈ xs ∨ a = some m) ∧ (∀ x ∈ xs, x ≤ m) ∧ (∀ b, a = some b → b ≤ m)) ∧
      (r = Option.none → xs = [] ∧ a = Option.none) := by
  induction xs generalizing a with
  | nil =>
    refine ⟨a, by simp [pure, Except.pure], ?_, ?_⟩
    · intro m hm; subst hm; simp
    · intro h; simp [h]
  | cons x xs ih =>
    obtain ⟨r, hr, h1, h2⟩ := ih (some (match a with | Option.none => x | Option.some m => if m < x then x else m))
    refine ⟨r, by simp only [List.map_cons, List.foldlM_cons, max_step, okb, hr], ?_, ?_⟩
    · intro m hm
      obtain ⟨hmem, hle, hb⟩ := h1 m hm
      have hb' := hb _ rfl
      cases a with
      | none =>
        simp only at hb' hmem
        refine ⟨?_, ?_, by simp⟩
        · rcases hmem with h | h
          · exact Or.inl (List.mem_cons_of_mem _ h)
          · left; simp at h; simp [h]
        · intro y hy
          rcases List.mem_cons.mp hy with h | h
          · rw [h]; exact hb'
          · exact hle y h
      | some b =>
        simp only at hb' hmem
        by_cases hxb : b < x
        · simp only [hxb, if_true] at hb' hmem
          refine ⟨?_, ?_, ?_⟩
          · rcases hmem with h | h
            · exact Or.inl (List.mem_cons_of_mem _ h)
            · left; simp at h; simp [h]
          · intro y hy
            rcases List.mem_cons.mp hy with h | h
            · rw [h]; exact hb'
            · exact hle y h
          · intro b' hb2; simp at hb2; subst hb2; linarith
        · simp only [hxb, if_false] at hb' hmem
          refine ⟨?_, ?_, ?_⟩
          · rcases hmem with h | h
            · exact Or.inl (List.mem_cons_of_mem _ h)
            · right; simpa using h
          · intro y hy
            rcases List.mem_cons.mp hy with h | h
            · rw [h]; have := not_lt.mp hxb; linarith
            · exact hle y h
          · intro b' hb2; simp at hb2; subst hb2; exact hb'
    · intro h
      have := (h2 h).2
      simp at this

/-! ## formal (two-pass) variance -/

@[simp] theorem nlst (l : List NVal) : (PyAlg.lst l : NVal) = .lst l := rfl
@[simp] theorem nelems_lst (l : List NVal) : (PyAlg.elems (NVal.lst l) : Except Err (List NVal)) = .ok l := rfl
@[simp] theorem nlen_lst (l : List NVal) : (PyAlg.len (NVal.lst l) : Except Err NVal) = .ok (.num l.length) := rfl
@[simp] theorem nappend_lst (l : List NVal) (x : NVal) : (PyAlg.append (NVal.lst l) x : Except Err NVal) = .ok (.lst (l ++ [x])) := rfl

theorem npow_nat (a : ℚ) (n : ℕ) : (PyAlg.pow (NVal.num a) (NVal.num (n : ℚ)) : Except Err NVal) = .ok (.num (a ^ n)) := by
  show NVal.pow _ _ = _
  have h1 : ((n : ℚ)).den = 1 := by simp
  have h2 : (0 : ℤ) ≤ ((n : ℚ)).num := by simp
  have h3 : ((n : ℚ)).num.toNat = n := by simp
  have hp : ∀ k : ℕ, NVal.ratPow a k = a ^ k := by
    intro k; induction k with
    | zero => simp [NVal.ratPow]
    | succ k ih => simp [NVal.ratPow, ih, pow_succ]
  simp [NVal.pow, h1, h2, h3, hp]

theorem nsum_nums (xs : List ℚ) (a : ℚ) : NVal.sumList (.num a) (xs.map NVal.num) = .ok (.num (a + xs.sum)) := by
  induction xs generalizing a with
  | nil => simp [NVal.sumList]
  | cons x xs ih => simp [NVal.sumList, NVal.arith, ih, add_assoc]

theorem nsum_lst (xs : List ℚ) : (PyAlg.sum (NVal.lst (xs.map NVal.num)) : Except Err NVal) = .ok (.num xs.sum) := by
  show NVal.sum _ = _
  simp [NVal.sum, NVal.elems, nsum_nums]

/-- the `for` loop of `_moment` in exact arithmetic -/
theorem moment_loop_exact (c : ℚ) (n : ℕ) (xs : List ℚ) (m0 : List NVal) :
    (forIn (xs.map NVal.num) (NVal.lst m0) (fun x_i r => do
        let t2 ← PyAlg.sub x_i (NVal.num c)
        let t3 ← PyAlg.pow t2 (NVal.num (n : ℚ))
        let t4 ← PyAlg.append r t3
        pure (ForInStep.yield t4)) : Except Err NVal)
      = .ok (.lst (m0 ++ (xs.map fun x => (x - c) ^ n).map NVal.num)) := by
  induction xs generalizing m0 with
  | nil => simp [pure, Except.pure]
  | cons x xs ih =>
    simp only [List.map_cons, List.forIn_cons, nsub, okb, npow_nat, nappend_lst, pure_bind, ih, List.append_assoc,
      List.singleton_append]

theorem moment_exact (xs : List ℚ) (c : ℚ) (n : ℕ) (h : xs ≠ []) :
    Gen.moment (NVal.lst (xs.map NVal.num)) (NVal.num c) (NVal.num (n : ℚ))
      = .ok (.num ((xs.map fun x => (x - c) ^ n).sum / xs.length)) := by
  have hl : (xs.length : ℚ) ≠ 0 := by
    have : xs.length ≠ 0 := by simpa [List.length_eq_zero_iff] using h
    exact_mod_cast this
  have hpos : (0 : ℚ) < xs.length := by
    have : 0 < xs.length := List.length_pos_of_ne_nil h
    exact_mod_cast this
  have hloop := moment_loop_exact c n xs []
  simp only [List.nil_append] at hloop
  simp only [Gen.moment, nlst, nelems_lst, okb]
  rw [hloop]
  have hd : decide ((0 : ℚ) < (xs.length : ℚ)) = true := decide_eq_true hpos
  simp only [okb, nlen_lst, nint, nlt, List.length_map, nsum_lst, Int.cast_zero, hd, if_true, ndiv _ _ hl]

/-- **formal variance, exact**: the generated `_variance` over the list the scan has collected is the population variance -/
theorem Exact_formal_variance (xs : List ℚ) :
    Gen.fvariance_result (NVal.lst (xs.map NVal.num))
      = .ok (.num (if xs.length = 0 then 0
          else (xs.map (fun x => (x - xs.sum / xs.length) * (x - xs.sum / xs.length))).sum / xs.length)) := by
  by_cases h : xs = []
  · subst h; simp [Gen.fvariance_result, okb]; rfl
  · have hl : xs.length ≠ 0 := by simpa [List.length_eq_zero_iff] using h
    have hlq : (xs.length : ℚ) ≠ 0 := by exact_mod_cast hl
    have h1 := moment_exact xs 0 1 h
    have h2 := moment_exact xs (xs.sum / xs.length) 2 h
    simp only [Nat.cast_one, Nat.cast_ofNat] at h1 h2
    simp only [Gen.fvariance_result, nlen_lst, okb, List.length_map, nint, Int.cast_zero, Int.cast_one, Int.cast_ofNat]
    have he : PyAlg.eq (NVal.num (xs.length : ℚ)) (NVal.num 0) = false := by
      show NVal.beq _ _ = false
      simp [NVal.beq, hlq]
    have h1' : Gen.moment (NVal.lst (List.map NVal.num xs)) (NVal.num 0) (NVal.num 1)
        = Except.ok (NVal.num (xs.sum / xs.length)) := by
      rw [h1]; simp
    simp only [he, Bool.false_eq_true, if_false, h1', okb, h2, bind_pure, hl, pow_two]

/-- the formal accumulator collects the items -/
theorem fvariance_fold (xs : List ℚ) (l : List NVal) :
    (xs.map NVal.num).foldlM (Gen.fvariance_accumulate idKey) (NVal.lst l) = .ok (.lst (l ++ xs.map NVal.num)) := by
  induction xs generalizing l with
  | nil => simp [pure, Except.pure]
  | cons x xs ih =>
    simp only [List.map_cons, List.foldlM_cons, Gen.fvariance_accumulate, idKey, okb, nappend_lst, pure_bind, bind_pure, ih,
      List.append_assoc, List.singleton_append]

end Rx

import RxModel.Compress
/-!
# C16 — compression round-trips under re-chunking and flags truncated streams

Proved for rxsci's wrapper logic, **modulo the library contract** `CodecContract` (what zlib /
zstandard streaming objects are assumed to do; the harness tests it on the real libraries).
-/
namespace Rx

/-- compress: one item per input chunk, then the flush item, then completion (when the library does
not raise) -/
theorem C16_compress_shape (K : StreamCodec) :
    ∀ (xs : List Bytes) (c : K.C) (outs : List Bytes) (fl : Bytes),
      (∀ (i : Nat) (_ : i < xs.length), True) →
      compressRun K c xs = outs.map WEv.next ++ [.next fl, .completed] →
      outs.length = xs.length := by
  intro xs
  induction xs with
  | nil =>
    intro c outs fl _ h
    simp only [compressRun] at h
    cases hf : K.cflush c with
    | error e =>
      rw [hf] at h
      cases outs with
      | nil => simp at h
      | cons o os => cases os <;> simp at h
    | ok d =>
      rw [hf] at h
      cases outs with
      | nil => rfl
      | cons o os =>
        simp only [List.map_cons, List.cons_append, List.cons.injEq] at h
        cases os with
        | nil => simp at h
        | cons o2 os2 => simp at h
  | cons x xs ih =>
    intro c outs fl _ h
    simp only [compressRun] at h
    cases hc : K.compress c x with
    | error e =>
      rw [hc] at h
      cases outs with
      | nil => simp at h
      | cons o os => cases os <;> simp at h
    | ok r =>
      obtain ⟨c', d⟩ := r
      rw [hc] at h
      cases outs with
      | nil =>
        simp only [List.map_nil, List.nil_append, List.cons.injEq] at h
        have := h.2
        cases xs with
        | nil =>
          simp only [compressRun] at this
          cases hf : K.cflush c' <;> simp [hf] at this
        | cons y ys =>
          simp only [compressRun] at this
          cases hcc : K.compress c' y with
          | error e => simp [hcc] at this
          | ok r2 => simp [hcc] at this
      | cons o os =>
        simp only [List.map_cons, List.cons_append, List.cons.injEq] at h
        have := ih c' os fl (fun _ _ => trivial) h.2
        simp [this]

/-- with `skipEmpty`, the wrapper over chunks `cs` behaves as the library fed with the non-empty
chunks only -/
theorem decompress_skip (K : StreamCodec) : ∀ (cs : List Bytes) (d d' : K.D) (o : Bytes),
    dfeed K d (cs.filter (fun c => !c.isEmpty)) = .ok (d', o) →
    ∃ pre, decompressRun K true d cs = pre ++ decompressRun K true d' [] ∧
      payload pre = o ∧ (∀ ev ∈ pre, ∃ b, ev = WEv.next b) := by
  intro cs
  induction cs with
  | nil =>
    intro d d' o h
    simp only [List.filter_nil, dfeed, Except.ok.injEq, Prod.mk.injEq] at h
    obtain ⟨rfl, rfl⟩ := h
    exact ⟨[], by simp, rfl, by simp⟩
  | cons c cs ih =>
    intro d d' o h
    by_cases hc : c.isEmpty = true
    · simp only [List.filter_cons, hc, Bool.not_true, Bool.false_eq_true, if_false] at h
      obtain ⟨pre, h1, h2, h3⟩ := ih d d' o h
      refine ⟨.next [] :: pre, ?_, by simpa [payload] using h2, ?_⟩
      · simp [decompressRun, hc, h1]
      · intro ev hev
        rcases List.mem_cons.mp hev with rfl | hev
        · exact ⟨[], rfl⟩
        · exact h3 ev hev
    · simp only [List.filter_cons, hc, Bool.not_false, if_true, dfeed] at h
      cases hd : K.decompress d c with
      | error e => simp [hd] at h
      | ok r =>
        obtain ⟨d1, o1⟩ := r
        simp only [hd] at h
        cases hr : dfeed K d1 (cs.filter fun c => !c.isEmpty) with
        | error e => simp [hr] at h
        | ok r2 =>
          obtain ⟨d2, o2⟩ := r2
          simp only [hr, Except.ok.injEq, Prod.mk.injEq] at h
          obtain ⟨rfl, rfl⟩ := h
          obtain ⟨pre, h1, h2, h3⟩ := ih d1 d2 o2 hr
          refine ⟨.next o1 :: pre, ?_, by simp [payload, h2], ?_⟩
          · have : (true && c.isEmpty) = false := by simp [hc]
            simp [decompressRun, this, hd, h1]
          · intro ev hev
            rcases List.mem_cons.mp hev with rfl | hev
            · exact ⟨o1, rfl⟩
            · exact h3 ev hev

theorem filter_nonempty_flatten (cs : List Bytes) : (cs.filter (fun c => !c.isEmpty)).flatten = cs.flatten := by
  induction cs with
  | nil => rfl
  | cons c cs ih =>
    cases c with
    | nil => simpa [List.filter_cons] using ih
    | cons b bs => simp [List.filter_cons, ih]

theorem payload_append (a b : List WEv) : payload (a ++ b) = payload a ++ payload b := by
  induction a with
  | nil => rfl
  | cons e a ih => cases e <;> simp [payload, ih]

/-- **round trip under any re-chunking** (zstd wrapper, repaired): however the compressed bytes
`z` are cut into chunks — empty chunks included, also after the end of the frame — the wrapper
emits items whose concatenation is exactly `plain`, then completes, with no error -/
theorem C16_roundtrip (K : StreamCodec) (z plain : Bytes)
    (hK : CodecContract K (fun p => p ≠ []) z plain) (cs : List Bytes) (hcs : cs.flatten = z) :
    payload (decompressRun K true K.dinit cs) = plain ∧
    completedOK (decompressRun K true K.dinit cs) = true ∧
    failed (decompressRun K true K.dinit cs) = false := by
  obtain ⟨d, h1, h2, h3⟩ := hK.whole (cs.filter (fun c => !c.isEmpty))
    (by intro p hp; simp only [List.mem_filter] at hp; intro h; simp [h] at hp)
    (by rw [filter_nonempty_flatten, hcs])
  obtain ⟨pre, e1, e2, e3⟩ := decompress_skip K cs K.dinit d plain h1
  have hfin : decompressRun K true d [] = [.next [], .completed] := by simp [decompressRun, h2, h3]
  rw [e1, hfin]
  refine ⟨by simp [payload_append, payload, e2], by simp [completedOK], ?_⟩
  simp only [failed, List.any_append, List.any_cons, List.any_nil, Bool.or_false]
  rw [List.any_eq_false]
  intro x hx
  obtain ⟨b, rfl⟩ := e3 x hx
  simp

/-- **truncation is flagged**: if the compressed stream stops before its end-of-stream marker,
however it is chunked, the wrapper ends with `on_error` and never completes -/
theorem C16_truncated (K : StreamCodec) (z plain : Bytes)
    (hK : CodecContract K (fun p => p ≠ []) z plain) (cs : List Bytes) (rest : Bytes)
    (hrest : rest ≠ []) (hcs : cs.flatten ++ rest = z) :
    completedOK (decompressRun K true K.dinit cs) = false ∧
    (decompressRun K true K.dinit cs).getLast? = some (.error "RuntimeError") := by
  obtain ⟨d, o, h1, h2⟩ := hK.prefix_ (cs.filter (fun c => !c.isEmpty))
    (by intro p hp; simp only [List.mem_filter] at hp; intro h; simp [h] at hp)
    ⟨rest, hrest, by rw [filter_nonempty_flatten]; exact hcs⟩
  obtain ⟨pre, e1, _, _⟩ := decompress_skip K cs K.dinit d o h1
  have hfin : decompressRun K true d [] = [.error "RuntimeError"] := by simp [decompressRun, h2]
  rw [e1, hfin]
  simp [completedOK]

/-- the zlib wrapper (no special case for empty chunks) under the contract in which the library
accepts every piece: same conclusions -/
theorem C16_roundtrip_zlib (K : StreamCodec) (z plain : Bytes)
    (hK : CodecContract K (fun _ => True) z plain) (cs : List Bytes) (hcs : cs.flatten = z) :
    payload (decompressRun K false K.dinit cs) = plain ∧
    completedOK (decompressRun K false K.dinit cs) = true := by
  obtain ⟨d, h1, h2, h3⟩ := hK.whole cs (fun _ _ => trivial) hcs
  have key : ∀ (cs : List Bytes) (d0 d1 : K.D) (o : Bytes), dfeed K d0 cs = .ok (d1, o) →
      ∃ pre, decompressRun K false d0 cs = pre ++ decompressRun K false d1 [] ∧ payload pre = o := by
    intro cs
    induction cs with
    | nil =>
      intro d0 d1 o h
      simp only [dfeed, Except.ok.injEq, Prod.mk.injEq] at h
      obtain ⟨rfl, rfl⟩ := h
      exact ⟨[], by simp, rfl⟩
    | cons c cs ih =>
      intro d0 d1 o h
      simp only [dfeed] at h
      cases hd : K.decompress d0 c with
      | error e => simp [hd] at h
      | ok r =>
        obtain ⟨da, oa⟩ := r
        simp only [hd] at h
        cases hr : dfeed K da cs with
        | error e => simp [hr] at h
        | ok r2 =>
          obtain ⟨db, ob⟩ := r2
          simp only [hr, Except.ok.injEq, Prod.mk.injEq] at h
          obtain ⟨rfl, rfl⟩ := h
          obtain ⟨pre, p1, p2⟩ := ih da db ob hr
          exact ⟨.next oa :: pre, by simp [decompressRun, hd, p1], by simp [payload, p2]⟩
  obtain ⟨pre, e1, e2⟩ := key cs K.dinit d plain h1
  have hfin : decompressRun K false d [] = [.next [], .completed] := by simp [decompressRun, h2, h3]
  rw [e1, hfin]
  exact ⟨by simp [payload_append, payload, e2], by simp [completedOK]⟩

/-! ### non-vacuity: a toy codec satisfies the contract -/

/-- payload bytes are stored as `b+1`, the stream ends with a `0`; anything after the end is an error -/
def toyStep (st : Bool × Bytes) (b : Nat) : Except String (Bool × Bytes) :=
  if st.1 then .error "after-eof" else if b = 0 then .ok (true, st.2) else .ok (false, st.2 ++ [b - 1])

def toyFeed : Bool → Bytes → Except String (Bool × Bytes)
  | eof, [] => .ok (eof, [])
  | eof, b :: r =>
    if eof then .error "after-eof"
    else if b = 0 then (match toyFeed true r with | .ok (e, o) => .ok (e, o) | .error x => .error x)
    else (match toyFeed false r with | .ok (e, o) => .ok (e, (b - 1) :: o) | .error x => .error x)

@[reducible] def toyCodec : StreamCodec where
  C := Unit
  D := Bool
  cinit := ()
  compress := fun _ x => .ok ((), x.map (· + 1))
  cflush := fun _ => .ok [0]
  dinit := false
  decompress := toyFeed
  eof := id
  dflush := fun _ => .ok []

theorem toyFeed_append : ∀ (a b : Bytes) (e : Bool),
    toyFeed e (a ++ b) =
      match toyFeed e a with
      | .error x => .error x
      | .ok (e1, o1) => match toyFeed e1 b with | .error x => .error x | .ok (e2, o2) => .ok (e2, o1 ++ o2) := by
  intro a
  induction a with
  | nil =>
    intro b e
    simp only [List.nil_append, toyFeed]
    cases h : toyFeed e b with
    | error x => rfl
    | ok r => obtain ⟨e2, o2⟩ := r; simp
  | cons x a ih =>
    intro b e
    cases e with
    | true => simp [toyFeed]
    | false =>
      simp only [List.cons_append, toyFeed, Bool.false_eq_true, if_false]
      by_cases hx : x = 0
      · simp only [hx, if_true, ih b true]
        cases h1 : toyFeed true a with
        | error y => simp
        | ok r =>
          obtain ⟨e1, o1⟩ := r
          cases h2 : toyFeed e1 b with
          | error y => simp [h2]
          | ok r2 => obtain ⟨e2, o2⟩ := r2; simp [h2]
      · simp only [hx, if_false, ih b false]
        cases h1 : toyFeed false a with
        | error y => simp
        | ok r =>
          obtain ⟨e1, o1⟩ := r
          cases h2 : toyFeed e1 b with
          | error y => simp [h2]
          | ok r2 => obtain ⟨e2, o2⟩ := r2; simp [h2]

theorem toy_dfeed : ∀ (ps : List Bytes) (e : toyCodec.D),
    dfeed toyCodec e ps = toyFeed e ps.flatten := by
  intro ps
  induction ps with
  | nil => intro e; rfl
  | cons p ps ih =>
    intro e
    rw [List.flatten_cons, toyFeed_append, dfeed]
    have hd : toyCodec.decompress e p = toyFeed e p := rfl
    rw [hd]
    cases h1 : toyFeed e p with
    | error x => rfl
    | ok r =>
      obtain ⟨e1, o1⟩ := r
      simp only []
      rw [ih e1]
      cases h2 : toyFeed e1 ps.flatten with
      | error x => rfl
      | ok r2 => rfl

theorem toyFeed_plain : ∀ (plain : Bytes), toyFeed false (plain.map (· + 1)) = .ok (false, plain) := by
  intro plain
  induction plain with
  | nil => rfl
  | cons b r ih => simp [toyFeed, ih]

/-- the toy codec satisfies the contract for every plain text: the theorems above are not vacuous -/
theorem C16_nonvacuous (plain : Bytes) :
    CodecContract toyCodec (fun _ => True) (plain.map (· + 1) ++ [0]) plain := by
  constructor
  · intro ps _ hps
    refine ⟨true, ?_, rfl, rfl⟩
    refine (toy_dfeed ps toyCodec.dinit).trans ?_
    rw [hps, toyFeed_append, toyFeed_plain]
    simp [toyFeed]
  · intro ps _ hrest
    obtain ⟨rest, hne, hcat⟩ := hrest
    -- a strict prefix of `encoded ++ [0]` is a prefix of `encoded`
    have hpre : ∃ q, ps.flatten = (plain.take q).map (· + 1) := by
      have hlen : ps.flatten.length ≤ (plain.map (· + 1)).length := by
        have := congrArg List.length hcat
        simp only [List.length_append, List.length_map, List.length_singleton] at this
        have : 0 < rest.length := List.length_pos_iff.mpr hne
        simp only [List.length_map]; omega
      refine ⟨ps.flatten.length, ?_⟩
      have h1 : (ps.flatten ++ rest).take ps.flatten.length = ps.flatten := by simp
      rw [hcat, List.take_append_of_le_length hlen] at h1
      rw [List.map_take]
      exact h1.symm
    obtain ⟨q, hq⟩ := hpre
    refine ⟨false, plain.take q, ?_, rfl⟩
    refine (toy_dfeed ps toyCodec.dinit).trans ?_
    rw [hq, toyFeed_plain]

end Rx

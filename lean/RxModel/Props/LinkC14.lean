import RxGen.Store
import RxModel.Props.C14
/-!
# C14 link theorems: the methods of `MemoryStore` (rxsci/state/memory_store.py), generated from the source into the monad
`OM` (RxModel/PyStore.lean: the instance attributes `values` / `state` / `keys` as lists, typed-array coercion, IndexError),
ARE the operations of the L0 model `MemStore` that the theorems of C14 are about — `set`, `add_key` (growth loop, marker
writes, default value), `del_key`, `get`, `is_set`, `is_cleared`; for every store whose arrays are parallel (`MemStore.Inv`,
an invariant: `C14_inv_run`) and, for `add_key`, every typed (non-mapper) state.  The dict side of mapper states
(`new_index`, `add_map`, `get_map`, `iterate_map`, monad `MM`) is linked at the end of this file: `LinkS_add_map` (a fresh index from
the counter, the dict updated in insertion order, `MapRep` preserved), `LinkS_get_map`, `LinkS_iterate_map`.
-/
namespace Rx
open OM

/-- the object of a `MemStore` (typed states: the dict side `maps` / `nextIndex` of mapper states is not part of it) -/
def objOf (s : MemStore) : PyStoreSt := ⟨s.dtype, s.default, s.values, s.state, s.keys⟩

/-- the `MemStore` with the containers of an object -/
def withObj (s : MemStore) (o : PyStoreSt) : MemStore :=
  { s with values := o.values, state := o.state, keys := o.keys }

theorem coerce_zero (dt : DType) : dt.coerce (.int 0) = .ok dt.zero := by
  cases dt <;> first | rfl | simp [DType.coerce, DType.zero]


macro "om_simp" "[" ts:Lean.Parser.Tactic.simpLemma,* "]" : tactic =>
  `(tactic| simp [OM.run, OM.lenState, OM.valuesAppend, OM.stateAppend, OM.keysAppend, OM.valuesSet, OM.stateSet, OM.keysSet,
      OM.stateGet, OM.valuesGet, OM.isMapper, OM.isBoolType, OM.defaultValue,
      ExceptT.run, StateT.run, bind, ExceptT.bind, ExceptT.mk, ExceptT.bindCont, StateT.bind, modify, modifyGet, MonadStateOf.modifyGet,
      StateT.modifyGet, pure, ExceptT.pure, StateT.pure, MonadState.modifyGet, liftM, monadLift, MonadLift.monadLift, ExceptT.lift,
      Functor.map, StateT.map, get, getThe, MonadStateOf.get, StateT.get, set, MonadStateOf.set, StateT.set,
      throw, throwThe, MonadExceptOf.throw, $ts,*])

/-- `MemoryStore.set` as generated from the source is the model's `MemStore.set` (arrays parallel) -/
theorem LinkS_set (s : MemStore) (k : Key) (v : Val) (h : s.Inv) :
    OM.run (Gen.MemoryStore_set k v) (objOf s)
      = (match (s.set k v).2 with | .exc e => .error e | _ => .ok (), objOf (s.set k v).1) := by
  obtain ⟨h1, h2, _⟩ := h
  unfold MemStore.set
  by_cases hi : k.idx < s.state.length
  · have hv : k.idx < s.values.length := by omega
    have hk : k.idx < s.keys.length := by omega
    cases hc : s.dtype.coerce v with
    | error e => om_simp [Gen.MemoryStore_set, objOf, hi, hv, hc]
    | ok w => om_simp [Gen.MemoryStore_set, objOf, hi, hv, hk, hc]
  · have hv : ¬ k.idx < s.values.length := by omega
    om_simp [Gen.MemoryStore_set, objOf, hi, hv]


theorem LinkS_del_key (s : MemStore) (k : Key) (h : s.Inv) :
    OM.run (Gen.MemoryStore_del_key k) (objOf s)
      = (match (s.delKey k).2 with | .exc e => .error e | _ => .ok (), objOf (s.delKey k).1) := by
  obtain ⟨h1, h2, _⟩ := h
  unfold MemStore.delKey
  by_cases hi : k.idx < s.state.length
  · have hv : k.idx < s.values.length := by omega
    have hk : k.idx < s.keys.length := by omega
    om_simp [Gen.MemoryStore_del_key, objOf, hi, hv, hk, coerce_zero]
  · om_simp [Gen.MemoryStore_del_key, objOf, hi]

/-- the result of `get`: a value, or the marker object STATE_NOTSET -/
def getRes : SRes → Except Err (Option Val)
  | .val v => .ok (some v)
  | .notset => .ok none
  | .exc e => .error e
  | _ => .error "not-a-get-result"

theorem LinkS_get (s : MemStore) (k : Key) (h : s.Inv) :
    OM.run (Gen.MemoryStore_get k) (objOf s) = (getRes (s.get k), objOf s) := by
  obtain ⟨h1, h2, _⟩ := h
  unfold MemStore.get
  cases hs : s.state[k.idx]? with
  | none => om_simp [Gen.MemoryStore_get, objOf, hs, getRes]
  | some m =>
    have hi : k.idx < s.state.length := by
      rcases Nat.lt_or_ge k.idx s.state.length with hlt | hge
      · exact hlt
      · simp [List.getElem?_eq_none hge] at hs
    have hv : k.idx < s.values.length := by omega
    have hw : s.values[k.idx]? = some s.values[k.idx] := List.getElem?_eq_getElem hv
    have hgd : s.values.getD k.idx s.dtype.zero = s.values[k.idx] := by simp [List.getD, hw]
    simp only [hs, hgd]
    cases m <;> cases hd : s.dtype <;>
      om_simp [Gen.MemoryStore_get, objOf, hs, hw, getRes, hd, DType.read, OM.pyBool]

def boolRes : SRes → Except Err Bool
  | .bool b => .ok b
  | .exc e => .error e
  | _ => .error "not-a-bool-result"

theorem LinkS_is_set (s : MemStore) (k : Key) :
    OM.run (Gen.MemoryStore_is_set k) (objOf s) = (boolRes (s.isSet k), objOf s) := by
  unfold MemStore.isSet
  cases hs : s.state[k.idx]? with
  | none => om_simp [Gen.MemoryStore_is_set, objOf, hs, boolRes]
  | some m => cases m <;> om_simp [Gen.MemoryStore_is_set, objOf, hs, boolRes]

theorem LinkS_is_cleared (s : MemStore) (k : Key) :
    OM.run (Gen.MemoryStore_is_cleared k) (objOf s) = (boolRes (s.isCleared k), objOf s) := by
  unfold MemStore.isCleared
  cases hs : s.state[k.idx]? with
  | none => om_simp [Gen.MemoryStore_is_cleared, objOf, hs, boolRes]
  | some m => cases m <;> om_simp [Gen.MemoryStore_is_cleared, objOf, hs, boolRes]


theorem OM.run_bind {α β} (m : OM α) (f : α → OM β) (o : PyStoreSt) :
    OM.run (m >>= f) o = match OM.run m o with
      | (.ok a, o') => OM.run (f a) o'
      | (.error e, o') => (.error e, o') := by
  simp only [OM.run, ExceptT.run, bind, ExceptT.bind, ExceptT.mk, StateT.bind, StateT.run, ExceptT.bindCont]
  cases h : m o with
  | mk a s' => cases a <;> simp [pure, StateT.pure]

/-- the growth loop of `add_key`: one `append` to each container per pass -/
theorem grow_loop (l : List Nat) (o : PyStoreSt) :
    OM.run (forIn l PUnit.unit (fun (_ : Nat) (_ : PUnit) => do
        OM.valuesAppend (Val.int 0)
        OM.stateAppend Marker.cleared
        OM.keysAppend none
        pure (ForInStep.yield PUnit.unit))) o
      = (.ok PUnit.unit, { o with values := o.values ++ List.replicate l.length o.dtype.zero,
                                  state := o.state ++ List.replicate l.length Marker.cleared,
                                  keys := o.keys ++ List.replicate l.length none }) := by
  induction l generalizing o with
  | nil => simp [OM.run, pure, ExceptT.pure, ExceptT.run, ExceptT.mk, StateT.run, StateT.pure]
  | cons a l ih =>
    have step : OM.run (do
        OM.valuesAppend (Val.int 0)
        OM.stateAppend Marker.cleared
        OM.keysAppend none
        pure (ForInStep.yield PUnit.unit)) o
        = (.ok (ForInStep.yield PUnit.unit), { o with values := o.values ++ [o.dtype.zero], state := o.state ++ [Marker.cleared],
                                                      keys := o.keys ++ [none] }) := by
      om_simp [coerce_zero]
    rw [List.forIn_cons, OM.run_bind, step]
    simp only [ih, List.length_cons, List.replicate_succ, List.append_assoc, List.singleton_append]


theorem OM.run_lenState (o : PyStoreSt) : OM.run OM.lenState o = (.ok o.state.length, o) := rfl
theorem OM.run_pure {α} (a : α) (o : PyStoreSt) : OM.run (pure a : OM α) o = (.ok a, o) := rfl
theorem OM.run_stateSet_ok (i : Nat) (m : Marker) (o : PyStoreSt) (h : i < o.state.length) :
    OM.run (OM.stateSet i m) o = (.ok (), { o with state := o.state.set i m }) := by
  om_simp [h]
theorem OM.run_keysSet_ok (i : Nat) (k : Option Key) (o : PyStoreSt) (h : i < o.keys.length) :
    OM.run (OM.keysSet i k) o = (.ok (), { o with keys := o.keys.set i k }) := by
  om_simp [h]
theorem OM.run_ite {α} (c : Prop) [Decidable c] (a b : OM α) (o : PyStoreSt) :
    OM.run (if c then a else b) o = if c then OM.run a o else OM.run b o := by split <;> rfl

theorem LinkS_add_key (s : MemStore) (k : Key) (h : s.Inv) (hm : s.dtype ≠ .mapper) :
    OM.run (Gen.MemoryStore_add_key k) (objOf s)
      = (match (s.addKey k).2 with | .exc e => .error e | _ => .ok (), objOf (s.addKey k).1) := by
  obtain ⟨h1, h2, h3⟩ := h
  -- the store after growth and the two marker writes
  let grow := (k.idx + 1) - s.state.length
  let s1 : MemStore := { s with
    values := s.values ++ List.replicate grow s.dtype.zero,
    state := s.state ++ List.replicate grow Marker.cleared,
    keys := s.keys ++ List.replicate grow none,
    maps := s.maps ++ List.replicate grow [] }
  let s2 : MemStore := { s1 with state := s1.state.set k.idx .notset, keys := s1.keys.set k.idx (some k) }
  have hlen : k.idx < (s.state ++ List.replicate grow Marker.cleared).length := by
    simp only [List.length_append, List.length_replicate]; omega
  have hlenk : k.idx < (s.keys ++ List.replicate grow (none : Option Key)).length := by
    simp only [List.length_append, List.length_replicate]; omega
  have hs2 : s2.Inv := by
    refine ⟨?_, ?_, ?_⟩ <;> simp [s2, s1, h1, h2, h3]
  -- the prefix of the method up to the default-value branch leaves the object of s2
  have hpre : ∀ (rest : OM Unit), OM.run (do
        let t1 ← OM.lenState
        let append_count : Int := (((Int.ofNat k.idx) + (1 : Int)) - (Int.ofNat t1))
        if append_count > (0 : Int) then
          for _ in List.range (Int.toNat append_count) do
            OM.valuesAppend (Val.int 0)
            OM.stateAppend Marker.cleared
            OM.keysAppend none
        OM.stateSet k.idx Marker.notset
        OM.keysSet k.idx (some k)
        rest) (objOf s) = OM.run rest (objOf s2) := by
    intro rest
    simp only [OM.run_bind, OM.run_lenState, OM.run_ite, grow_loop, List.length_range, Int.ofNat_eq_natCast]
    have hobj : (objOf s).state.length = s.state.length := rfl
    by_cases hg : (k.idx : Int) + 1 - ((objOf s).state.length : Int) > 0
    · have hgrow : ((k.idx : Int) + 1 - ((objOf s).state.length : Int)).toNat = grow := by
        simp only [hobj, grow]; omega
      rw [if_pos hg, hgrow]
      rw [OM.run_stateSet_ok _ _ _ (by exact hlen)]
      simp only []
      rw [OM.run_keysSet_ok _ _ _ (by exact hlenk)]
      rfl
    · have hgrow : grow = 0 := by
        simp only [hobj] at hg; simp only [grow]; omega
      have hlen0 : k.idx < s.state.length := by
        simp only [hobj] at hg; omega
      rw [if_neg hg]
      rw [OM.run_stateSet_ok _ _ _ (by exact hlen0)]
      simp only []
      rw [OM.run_keysSet_ok _ _ _ (by show k.idx < s.keys.length; omega)]
      simp only [objOf, s2, s1, hgrow, List.replicate_zero, List.append_nil]
  unfold Gen.MemoryStore_add_key
  rw [hpre]
  have hmap : (decide (s.dtype = DType.mapper)) = false := by simp [hm]
  have hadd : s.addKey k = (match s.default with | some d => s2.set k d | none => (s2, SRes.unit)) := by
    simp only [MemStore.addKey, hm, if_false]
    rfl
  have hmapper : OM.run OM.isMapper (objOf s2) = (.ok false, objOf s2) := by
    simp only [OM.run, OM.isMapper]
    om_simp [objOf, s2, s1, hm]
  have hdef : OM.run OM.defaultValue (objOf s2) = (.ok s.default, objOf s2) := rfl
  rw [hadd]
  simp only [OM.run_bind, hmapper, hdef, OM.run_ite]
  cases hd : s.default with
  | none => simp [OM.run_pure]
  | some d =>
    simp only [Option.isSome_some, if_true, OM.run_pure, Bool.false_eq_true, if_false]
    exact LinkS_set s2 k d hs2

/-- the hypotheses are satisfiable: a fresh typed store with a default value -/
example : (MemStore.new .int (some (.int 0))).Inv ∧ (MemStore.new .int (some (.int 0))).dtype ≠ .mapper :=
  ⟨C14_inv_new _ _, by simp [MemStore.new]⟩

/-! ## the dict side of mapper states (`group_by`'s key → group index maps): `new_index`, `add_map`, `get_map`, `iterate_map` -/

/-- the dict side of the L0 model `s` as the object `ms`: same counter, no freed indices (the code never frees one), and every
slot that holds a dict holds the model's association list -/
def MapRep (s : MemStore) (ms : MapSt) : Prop :=
  ms.nextIndex = s.nextIndex ∧ ms.freeSlots = [] ∧ ms.dicts.length = s.maps.length ∧
    ∀ (i : Nat) (m : List (Val × Nat)), ms.dicts[i]? = some (some m) → s.maps[i]? = some m

macro "mm_simp" "[" ts:Lean.Parser.Tactic.simpLemma,* "]" : tactic =>
  `(tactic| simp [MM.run, MM.getNextIndex, MM.getFreeSlots, MM.setNextIndex, MM.setFreeSlots, MM.dictOf, MM.dictSet, MM.dictContains,
      MM.dictGet, MM.dictKeys,
      ExceptT.run, StateT.run, bind, ExceptT.bind, ExceptT.mk, ExceptT.bindCont, StateT.bind, modify, modifyGet, MonadStateOf.modifyGet,
      StateT.modifyGet, pure, ExceptT.pure, StateT.pure, MonadState.modifyGet, liftM, monadLift, MonadLift.monadLift, ExceptT.lift,
      Functor.map, StateT.map, get, getThe, MonadStateOf.get, StateT.get, set, MonadStateOf.set, StateT.set,
      throw, throwThe, MonadExceptOf.throw, $ts,*])

/-- the dict after `d[k] = v` -/
def dictPut (m : List (Val × Nat)) (k : Val) (v : Nat) : List (Val × Nat) :=
  if m.any (fun p => p.1 = k) then m.map (fun p => if p.1 = k then (k, v) else p) else m ++ [(k, v)]

theorem LinkS_add_map (s : MemStore) (ms : MapSt) (k : Key) (g : Val) (m : List (Val × Nat))
    (hrep : MapRep s ms) (hd : ms.dicts[k.idx]? = some (some m)) :
    MM.run (Gen.MemoryStore_add_map k g) ms
        = (.ok s.nextIndex, { dicts := ms.dicts.set k.idx (some (dictPut m g s.nextIndex)), nextIndex := s.nextIndex + 1, freeSlots := [] })
      ∧ (s.addMap k g).2 = .idx s.nextIndex
      ∧ MapRep (s.addMap k g).1
          { dicts := ms.dicts.set k.idx (some (dictPut m g s.nextIndex)), nextIndex := s.nextIndex + 1, freeSlots := [] } := by
  obtain ⟨h1, h2, h3, h4⟩ := hrep
  have hm : s.maps[k.idx]? = some m := h4 _ _ hd
  have hlt : k.idx < ms.dicts.length := by
    rcases Nat.lt_or_ge k.idx ms.dicts.length with h | h
    · exact h
    · simp [List.getElem?_eq_none h] at hd
  refine ⟨?_, ?_, ?_⟩
  · mm_simp [Gen.MemoryStore_add_map, Gen.new_index, h1, h2, hd, dictPut]
  · simp [MemStore.addMap, hm]
  · simp only [MemStore.addMap, hm]
    refine ⟨by simp, by simp, by simp [h3], ?_⟩
    intro i m2 hi
    by_cases hik : i = k.idx
    · subst hik
      have hlt2 : k.idx < s.maps.length := by omega
      simp [List.getElem?_set, hlt, hlt2, dictPut] at hi ⊢
      exact hi
    · have hne : ¬ k.idx = i := fun h => hik h.symm
      simp [List.getElem?_set, hne] at hi ⊢
      exact h4 i m2 hi

theorem LinkS_get_map (s : MemStore) (ms : MapSt) (k : Key) (g : Val) (m : List (Val × Nat))
    (hrep : MapRep s ms) (hd : ms.dicts[k.idx]? = some (some m)) :
    MM.run (Gen.MemoryStore_get_map k g) ms
      = (match s.getMap k g with | .idx i => .ok (some i) | .notset => .ok none | _ => .error "IndexError", ms) := by
  obtain ⟨h1, h2, h3, h4⟩ := hrep
  have hm : s.maps[k.idx]? = some m := h4 _ _ hd
  cases hf : m.find? (fun p => p.1 = g) with
  | none =>
    have hany : m.any (fun p => p.1 = g) = false := by
      simpa [List.any_eq_false] using (List.find?_eq_none.mp hf)
    mm_simp [Gen.MemoryStore_get_map, MemStore.getMap, hd, hm, hf, hany]
  | some p =>
    have hany : m.any (fun p => p.1 = g) = true := by
      have := List.find?_some hf
      have hmem := List.mem_of_find?_eq_some hf
      simp only [List.any_eq_true]
      exact ⟨p, hmem, this⟩
    mm_simp [Gen.MemoryStore_get_map, MemStore.getMap, hd, hm, hf, hany]

theorem LinkS_iterate_map (s : MemStore) (ms : MapSt) (k : Key) (m : List (Val × Nat))
    (hrep : MapRep s ms) (hd : ms.dicts[k.idx]? = some (some m)) :
    MM.run (Gen.MemoryStore_iterate_map k) ms = (.ok (m.map (·.1)), ms) ∧ s.iterateMap k = .keysOf (m.map (·.1)) := by
  obtain ⟨h1, h2, h3, h4⟩ := hrep
  have hm : s.maps[k.idx]? = some m := h4 _ _ hd
  constructor
  · mm_simp [Gen.MemoryStore_iterate_map, hd]
  · simp [MemStore.iterateMap, hm]

/-- **`MemoryStore.del_map`**, generated from rxsci/state/memory_store.py, deletes nothing: whatever the state of the mapper and
whatever it returns or raises, the dicts, the next index and the free slots are what they were (`HM.delMap` in the handler monad is
this fact) -/
theorem LinkS_del_map (ms : MapSt) (k : Key) (g : Val) : (MM.run (Gen.MemoryStore_del_map k g) ms).2 = ms := by
  rcases hd : ms.dicts[k.idx]? with _ | (_ | m)
  · mm_simp [Gen.MemoryStore_del_map, hd]
  · mm_simp [Gen.MemoryStore_del_map, hd]
  · cases hany : m.any (fun p => p.1 = g)
    · mm_simp [Gen.MemoryStore_del_map, hd, hany]
    · cases hf : m.find? (fun p => p.1 = g) <;> mm_simp [Gen.MemoryStore_del_map, hd, hany, hf]

theorem SM_onState_run {α} (i : Nat) (m : OM α) (tbl : List PyStoreSt) (st : PyStoreSt) (h : tbl[i]? = some st) :
    SM.run (SM.onState i m) tbl = ((OM.run m st).1, tbl.set i (OM.run m st).2) := by
  cases hr : (OM.run m st).1 <;>
  simp [SM.run, SM.onState, h, hr, ExceptT.run, bind, ExceptT.bind, ExceptT.mk, ExceptT.bindCont, StateT.bind, get, getThe, MonadStateOf.get,
    StateT.get, liftM, monadLift, MonadLift.monadLift, ExceptT.lift, Functor.map, StateT.map, pure, ExceptT.pure, StateT.pure, set, MonadStateOf.set, StateT.set,
    StateT.run, throw, throwThe, MonadExceptOf.throw]

theorem SM_onState_oob {α} (i : Nat) (m : OM α) (tbl : List PyStoreSt) (h : tbl[i]? = none) :
    SM.run (SM.onState i m) tbl = (.error "IndexError", tbl) := by
  simp [SM.run, SM.onState, h, ExceptT.run, bind, ExceptT.bind, ExceptT.mk, ExceptT.bindCont, StateT.bind, get, getThe, MonadStateOf.get,
    StateT.get, liftM, monadLift, MonadLift.monadLift, ExceptT.lift, Functor.map, StateT.map, pure, StateT.pure,
    StateT.run, throw, throwThe, MonadExceptOf.throw]

/-- **`StoreManager.set_state / get_state / add_key / del_key`** (rxsci/state/store.py, generated: the manager asks its single
`Store`, which calls the method of the same name on `self.states[state]`): the call IS the `MemoryStore` method — generated from
memory_store.py and linked to the L0 model by `LinkS_*` — on the object of that state id, with the same key and value, and the
object of every other state id is left as it was -/
theorem LinkS_manager (i : Nat) (tbl : List PyStoreSt) (st : PyStoreSt) (h : tbl[i]? = some st) (k : Key) (v : Val) :
    SM.run (Gen.StoreManager_set_state i k v) tbl
        = ((OM.run (Gen.MemoryStore_set k v) st).1, tbl.set i (OM.run (Gen.MemoryStore_set k v) st).2)
    ∧ SM.run (Gen.StoreManager_get_state i k) tbl
        = ((OM.run (Gen.MemoryStore_get k) st).1, tbl.set i (OM.run (Gen.MemoryStore_get k) st).2)
    ∧ SM.run (Gen.StoreManager_add_key i k) tbl
        = ((OM.run (Gen.MemoryStore_add_key k) st).1, tbl.set i (OM.run (Gen.MemoryStore_add_key k) st).2)
    ∧ SM.run (Gen.StoreManager_del_key i k) tbl
        = ((OM.run (Gen.MemoryStore_del_key k) st).1, tbl.set i (OM.run (Gen.MemoryStore_del_key k) st).2) := by
  refine ⟨?_, ?_, ?_, ?_⟩ <;>
    simp only [Gen.StoreManager_set_state, Gen.Store_set, Gen.StoreManager_get_state, Gen.Store_get, Gen.StoreManager_add_key,
      Gen.Store_add_key, Gen.StoreManager_del_key, Gen.Store_del_key, SM_onState_run _ _ _ _ h]

/-- the frame of the manager's operations: the objects of the other state ids are untouched, whatever the call returns or raises,
also when the state id does not exist -/
theorem LinkS_manager_frame (i j : Nat) (hj : j ≠ i) (tbl : List PyStoreSt) (k : Key) (v : Val) :
    (SM.run (Gen.StoreManager_set_state i k v) tbl).2[j]? = tbl[j]?
    ∧ (SM.run (Gen.StoreManager_get_state i k) tbl).2[j]? = tbl[j]?
    ∧ (SM.run (Gen.StoreManager_add_key i k) tbl).2[j]? = tbl[j]?
    ∧ (SM.run (Gen.StoreManager_del_key i k) tbl).2[j]? = tbl[j]? := by
  have hne : ¬ i = j := fun h => hj h.symm
  cases h : tbl[i]? with
  | none =>
    refine ⟨?_, ?_, ?_, ?_⟩ <;>
      simp only [Gen.StoreManager_set_state, Gen.Store_set, Gen.StoreManager_get_state, Gen.Store_get, Gen.StoreManager_add_key,
        Gen.Store_add_key, Gen.StoreManager_del_key, Gen.Store_del_key, SM_onState_oob _ _ _ h]
  | some st =>
    obtain ⟨h1, h2, h3, h4⟩ := LinkS_manager i tbl st h k v
    rw [h1, h2, h3, h4]
    simp [List.getElem?_set, hne]


/-- the operators of a pipeline probed one after the other: each asks for a state, the ids handed out in order -/
def probeAll {δ : Type} : List δ → List δ → List δ × List Nat
  | states, [] => (states, [])
  | states, d :: r =>
    let a := Gen.StateTopology_create_state states d
    let b := probeAll a.1 r
    (b.1, a.2 :: b.2)

theorem probeAll_spec {δ : Type} (states ds : List δ) :
    probeAll states ds = (states ++ ds, (List.range' states.length ds.length)) := by
  induction ds generalizing states with
  | nil => simp [probeAll]
  | cons d r ih =>
    simp only [probeAll, Gen.StateTopology_create_state, ih]
    simp [List.range'_succ]

/-- **`StateTopology.create_state`** (generated from rxsci/state/state_topology.py): the operators of a pipeline that ask for
states during the topology probe get the ids `0, 1, 2, …` in that order — pairwise different — and the definition stored under the
id of the k-th request is the k-th requested one (its data type and default value are what `Store.__init__` builds the k-th
`MemoryStore` from) -/
theorem LinkS_topology {δ : Type} (ds : List δ) :
    (probeAll [] ds).2 = List.range ds.length ∧ (probeAll [] ds).2.Nodup
      ∧ ∀ k, k < ds.length → (probeAll [] ds).1[(probeAll [] ds).2[k]?.getD 0]? = ds[k]? := by
  rw [probeAll_spec]
  simp only [List.nil_append, List.length_nil]
  refine ⟨by simp [List.range_eq_range'], by simpa using List.nodup_range' , ?_⟩
  intro k hk
  simp [List.getElem?_range', hk]

example : (probeAll [] ["scan-0", "mapper-0", "scan-1"]).2 = [0, 1, 2] := by decide

def runO {α} (m : OM α) (s : PyStoreSt) : Except Err α × PyStoreSt := (ExceptT.run m).run s

theorem runO_bind {α β} (m : OM α) (f : α → OM β) (s : PyStoreSt) :
    runO (m >>= f) s = match runO m s with
      | (.ok a, s') => runO (f a) s'
      | (.error e, s') => (.error e, s') := by
  simp only [runO, ExceptT.run, bind, ExceptT.bind, ExceptT.mk, StateT.bind, StateT.run, ExceptT.bindCont]
  cases h : m s with
  | mk a s' => cases a <;> simp [pure, StateT.pure]

theorem runO_pure {α} (a : α) (s : PyStoreSt) : runO (pure a : OM α) s = (.ok a, s) := rfl
theorem runO_lenKeys (s : PyStoreSt) : runO OM.lenKeys s = (.ok s.keys.length, s) := rfl

theorem runO_stateGet (i : Nat) (s : PyStoreSt) (m : Marker) (h : s.state[i]? = some m) : runO (OM.stateGet i) s = (.ok m, s) := by
  simp [runO, OM.stateGet, h, ExceptT.run, bind, ExceptT.bind, ExceptT.mk, ExceptT.bindCont, StateT.bind, get, getThe, MonadStateOf.get,
    StateT.get, liftM, monadLift, MonadLift.monadLift, ExceptT.lift, Functor.map, StateT.map, pure, ExceptT.pure, StateT.pure, StateT.run]
theorem runO_valuesGet (i : Nat) (s : PyStoreSt) (v : Val) (h : s.values[i]? = some v) : runO (OM.valuesGet i) s = (.ok v, s) := by
  simp [runO, OM.valuesGet, h, ExceptT.run, bind, ExceptT.bind, ExceptT.mk, ExceptT.bindCont, StateT.bind, get, getThe, MonadStateOf.get,
    StateT.get, liftM, monadLift, MonadLift.monadLift, ExceptT.lift, Functor.map, StateT.map, pure, ExceptT.pure, StateT.pure, StateT.run]
theorem runO_keysGet (i : Nat) (s : PyStoreSt) (k : Option Key) (h : s.keys[i]? = some k) : runO (OM.keysGet i) s = (.ok k, s) := by
  simp [runO, OM.keysGet, h, ExceptT.run, bind, ExceptT.bind, ExceptT.mk, ExceptT.bindCont, StateT.bind, get, getThe, MonadStateOf.get,
    StateT.get, liftM, monadLift, MonadLift.monadLift, ExceptT.lift, Functor.map, StateT.map, pure, ExceptT.pure, StateT.pure, StateT.run]

/-- one slot of `iterate()` -/
def iterSlot (s : MemStore) (i : Nat) : Option (Option Key × Val × Bool) :=
  match s.state[i]? with
  | some Marker.cleared => none
  | some m => some (s.keys.getD i none, s.values.getD i (.int 0), decide (m = Marker.set))
  | none => none

theorem iter_loop (s : MemStore) (h : s.Inv) : ∀ (l : List Nat) (acc : List (Option Key × Val × Bool)), (∀ i ∈ l, i < s.state.length) →
    runO (forIn l acc (fun index (r : List (Option Key × Val × Bool)) => do
        let t2 ← OM.stateGet index
        if t2 ≠ Marker.cleared then
          let t3 ← OM.keysGet index
          let t4 ← OM.valuesGet index
          let t5 ← OM.stateGet index
          pure (ForInStep.yield (r ++ [(t3, t4, decide (t5 = Marker.set))]))
        else pure (ForInStep.yield r))) (objOf s)
      = (.ok (acc ++ l.filterMap (iterSlot s)), objOf s) := by
  obtain ⟨h1, h2, _⟩ := h
  intro l
  induction l with
  | nil => intro acc _; simp [runO_pure]
  | cons i l ih =>
    intro acc hl
    have hi : i < s.state.length := hl i (by simp)
    have hs : (objOf s).state[i]? = some s.state[i] := by simp [objOf, hi]
    have hv : (objOf s).values[i]? = some (s.values[i]'(by omega)) := by simp [objOf]
    have hk : (objOf s).keys[i]? = some (s.keys[i]'(by omega)) := by simp [objOf]
    rw [List.forIn_cons, runO_bind, runO_bind, runO_stateGet _ _ _ hs]
    simp only []
    by_cases hc : s.state[i] = Marker.cleared
    · simp only [hc, ne_eq, not_true_eq_false, if_false, runO_pure]
      rw [ih acc (fun j hj => hl j (by simp [hj]))]
      simp [iterSlot, hi, hc]
    · simp only [hc, ne_eq, not_false_eq_true, if_true, runO_bind, runO_keysGet _ _ _ hk, runO_valuesGet _ _ _ hv, runO_stateGet _ _ _ hs, runO_pure]
      rw [ih _ (fun j hj => hl j (by simp [hj]))]
      have : iterSlot s i = some (s.keys[i]'(by omega), s.values[i]'(by omega), decide (s.state[i] = Marker.set)) := by
        have hv' : s.values[i]? = some (s.values[i]'(by omega)) := by simp
        have hk' : s.keys[i]? = some (s.keys[i]'(by omega)) := by simp
        simp only [iterSlot, List.getElem?_eq_getElem hi]
        cases hm : s.state[i] with
        | cleared => exact absurd hm hc
        | notset => simp [List.getD, hv', hk']
        | set => simp [List.getD, hv', hk']
      simp [this]

/-- **`MemoryStore.iterate`** (a generator, generated from rxsci/state/memory_store.py as the list of what it yields) is the
model's `MemStore.iterate`: (key, raw value, is-set) of every slot whose marker is not CLEARED, in index order -/
theorem LinkS_iterate (s : MemStore) (h : s.Inv) :
    OM.run Gen.MemoryStore_iterate (objOf s) = (match s.iterate with | .dump l => .ok l | _ => .error "not-a-dump", objOf s) := by
  have hrun : ∀ {α} (m : OM α) st, OM.run m st = runO m st := fun _ _ => rfl
  rw [hrun]
  unfold Gen.MemoryStore_iterate
  simp only [runO_bind, runO_lenKeys]
  have hk : (objOf s).keys.length = s.keys.length := rfl
  obtain ⟨h1, h2, h3⟩ := h
  have := iter_loop s ⟨h1, h2, h3⟩ (List.range s.keys.length) [] (by intro i hi; simp at hi; omega)
  simp only [hk]
  rw [this]
  simp only [runO_pure, List.nil_append, MemStore.iterate]
  congr 2


end Rx

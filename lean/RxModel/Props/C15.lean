import RxModel.Lemmas.Framing
/-!
# C15 — framing round-trips under any re-chunking of the framed stream

Property theorems only (helper lemmas are in `RxModel/Lemmas/Framing.lean`).
All statements are for every item list, every chunking `cs` (including empty chunks and cuts
anywhere), with no bound on sizes.
-/
namespace Rx

/-- **Line framing, any chunking.**  `items` contain no newline (they are lines), `tail` is a
possibly empty unterminated last line.  However the framed text is cut into chunks, the lines
emitted while chunks are consumed are exactly `items`, in order, and at completion exactly the
non-empty tail is delivered (once). -/
theorem C15_line (items : List (List Char)) (tail : List Char) (cs : List (List Char))
    (hi : ∀ it ∈ items, '\n' ∉ it) (ht : '\n' ∉ tail)
    (hcs : cs.flatten = (items.map lineFrame).flatten ++ tail) :
    (lineRun [] cs).1.flatten = items ∧
    (lineRun [] cs).2 = (if tail = [] then [] else [tail]) := by
  have h := lineRun_eq cs [] (by simp)
  simp only [List.nil_append] at h
  have hs : splitC '\n' cs.flatten = items ++ [tail] := by
    rw [hcs]; exact splitC_frames '\n' items tail hi ht
  rw [h.1, h.2, hs]
  refine ⟨by simp, ?_⟩
  have : lastP (items ++ [tail]) = tail := by simp [lastP]
  rw [this]
  unfold lineFinish lineFinishG
  cases tail <;> simp

/-- chunk invariance stated without reference to framing: two chunkings of the same text give the
same lines and the same completion output. -/
theorem C15_line_rechunk (cs cs' : List (List Char)) (h : cs.flatten = cs'.flatten) :
    (lineRun [] cs).1.flatten = (lineRun [] cs').1.flatten ∧ (lineRun [] cs).2 = (lineRun [] cs').2 := by
  have a := lineRun_eq cs [] (by simp)
  have b := lineRun_eq cs' [] (by simp)
  rw [a.1, a.2, b.1, b.2, h]
  exact ⟨rfl, rfl⟩

/-- `int.to_bytes` / `int.from_bytes` round trip for every prefix size and both byte orders. -/
theorem C15_prefix_roundtrip (big : Bool) (p n : Nat) (h : n < 256 ^ p) :
    fromBytes big (toBytes big p n) = n ∧ (toBytes big p n).length = p ∧
    ∀ b ∈ toBytes big p n, b < 256 := by
  refine ⟨fromBytes_toBytes big p n h, toBytes_length big p n, ?_⟩
  intro b hb
  unfold toBytes at hb
  split at hb
  · exact toBytesLE_lt p n b (by simpa using hb)
  · exact toBytesLE_lt p n b hb

/-- **Length-prefix framing, any chunking, any prefix size ≥ 1, both byte orders.**
`tail` is any byte string that holds no complete frame (in particular any strict prefix of a
frame): exactly `items` are delivered, in order, `tail` stays undelivered (the operator's
completion handler emits nothing). Payload bytes are arbitrary. -/
theorem C15_lp (big : Bool) (p : Nat) (hp : 0 < p) (items : List (List Nat)) (tail : List Nat)
    (cs : List (List Nat))
    (hlen : ∀ it ∈ items, it.length < 256 ^ p)
    (htail : (lpParse big p tail).1 = [] ∧ (lpParse big p tail).2 = tail)
    (hcs : cs.flatten = (items.filterMap (lpFrame big p)).flatten ++ tail) :
    (lpRun big p [] cs).1.flatten = items ∧ (lpRun big p [] cs).2 = tail := by
  have hfm : items.filterMap (lpFrame big p) = items.map (fun it => toBytes big p it.length ++ it) := by
    clear hcs
    induction items with
    | nil => rfl
    | cons it items ih =>
      have h1 := hlen it (by simp)
      simp only [List.filterMap_cons, lpFrame, h1, if_true, List.map_cons]
      rw [ih (fun i hi => hlen i (by simp [hi]))]
  have h0 : (lpParse big p []).1 = [] ∧ (lpParse big p []).2 = [] := by
    have hn : ¬ (0 < p ∧ p = 0) := by omega
    rw [lpParse.eq_1]; simp [hn]
  have h := lpRun_eq_parse big p cs [] h0.1 h0.2
  rw [List.nil_append, hcs, hfm, lpParse_frames big p hp items tail hlen htail.1 htail.2] at h
  rw [Prod.ext_iff] at h
  exact h

/-- a strict prefix of a frame holds no complete frame (so `C15_lp` applies to every truncation) -/
theorem C15_lp_incomplete (big : Bool) (p : Nat) (hp : 0 < p) (item : List Nat) (k : Nat)
    (hlen : item.length < 256 ^ p) (hk : k < p + item.length) :
    let tail := (toBytes big p item.length ++ item).take k
    (lpParse big p tail).1 = [] ∧ (lpParse big p tail).2 = tail := by
  intro tail
  have hel := toBytes_length big p item.length
  have htl : tail.length = k := by
    simp only [tail, List.length_take, List.length_append, hel]; omega
  rw [lpParse.eq_1]
  by_cases h : 0 < p ∧ p ≤ tail.length
  · have hpre : tail.take p = toBytes big p item.length := by
      simp only [tail]
      rw [List.take_take, Nat.min_eq_left (by omega), List.take_append_of_le_length (by omega)]
      exact List.take_of_length_le (by omega)
    have : ¬ fromBytes big (tail.take p) ≤ tail.length - p := by
      rw [hpre, fromBytes_toBytes big p _ hlen]; omega
    simp [h, this]
  · simp [h]

/-- every frameable item is rejected exactly when it does not fit the prefix -/
theorem C15_lp_frame_guard (big : Bool) (p : Nat) (item : List Nat) :
    (lpFrame big p item).isSome ↔ item.length < 256 ^ p := by
  unfold lpFrame; split <;> simp [*]

/-! non-vacuity: concrete instances of the hypotheses -/
example : (lpParse false 2 [3, 0, 7]).1 = [] ∧ (lpParse false 2 [3, 0, 7]).2 = [3, 0, 7] :=
  C15_lp_incomplete false 2 (by decide) [7, 8, 9] 3 (by decide) (by decide)
example : (lineRun [] ["ab\ncd".toList, "e\n\nf".toList, []]).1.flatten =
    ["ab".toList, "cde".toList, []] := by decide

end Rx

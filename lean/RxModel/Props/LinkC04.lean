import RxGen.Handlers
import RxModel.Lemmas.HandlerSim
import RxModel.Split
/-!
# C04 link theorem: the `on_next` handler of `group_by_mux`, generated from rxsci/operators/group_by.py, IS the model's `gbStep`

The generated code works on the mapper store of RxModel/PyHandler.lean (`get_map`, `add_map` handing out the running index,
`iterate_map`, the no-op `del_map`, `add_key`/`del_key` on the mapper state); `gb_loop` evaluates its flush loop, `gb_nodup`
is the invariant (pairwise distinct dict keys) under which every key of the dict finds its own index.
-/
namespace Rx

open HM

/-- the flush loop of group_by at completion / error of the parent: one inner event per mapped key, in insertion order -/
theorem gb_loop (mkEv : Key → Ev Val) (k : Key) (m : List (Val × Nat)) :
    ∀ (l : List (Val × Nat)), (∀ p ∈ l, (m.find? (fun q => PyAlg.eq q.1 p.1)).map (·.2) = some p.2) →
    ∀ (s : HSt Val), s.maps 0 k.idx = some m → ∀ (r0 : Option Nat),
    ∃ r', runS (forIn (l.map (·.1)) r0 (fun k_1 (__s : Option Nat) => do
            let index ← getMap 0 k k_1
            let __do_lift ← unmarkN index
            emit (mkEv (__do_lift :: k))
            delMap 0 k k_1
            pure (ForInStep.yield index))) s
      = (.ok r', { s with out := s.out ++ l.map (fun p => mkEv (p.2 :: k)) }) := by
  intro l
  induction l with
  | nil => intro _ s _ r0; exact ⟨r0, by simp [runS_pure]⟩
  | cons p l ih =>
    intro hl s hs r0
    have hp := hl p (List.mem_cons_self ..)
    have hl' : ∀ q ∈ l, (m.find? (fun q' => PyAlg.eq q'.1 q.1)).map (·.2) = some q.2 := fun q hq => hl q (List.mem_cons_of_mem _ hq)
    obtain ⟨r', hr'⟩ := ih hl' { s with out := s.out ++ [mkEv (p.2 :: k)] } hs (some p.2)
    refine ⟨r', ?_⟩
    have hget : runS (getMap 0 k p.1) s = (.ok (some p.2), s) := by
      simp only [runS, getMap, ExceptT.run, bind, ExceptT.bind, ExceptT.mk, StateT.bind, StateT.run, ExceptT.bindCont, get, getThe,
        MonadStateOf.get, liftM, monadLift, MonadLift.monadLift, ExceptT.lift, StateT.get, Functor.map, StateT.map, pure, StateT.pure,
        hs, hp, ExceptT.pure]
    have hemit : ∀ e, runS (emit e) s = (.ok (), { s with out := s.out ++ [e] }) := fun e => rfl
    have hun : ∀ (n : Nat) (s' : HSt Val), runS (unmarkN (some n)) s' = (.ok n, s') := fun _ _ => rfl
    have hdel : ∀ (a : Val) (s' : HSt Val), runS (delMap 0 k a) s' = (.ok (), s') := fun _ _ => rfl
    simp only [List.map_cons, List.forIn_cons, runS_bind, hget, hun, runS_pure, hemit, hdel]
    rw [hr']
    simp [List.append_assoc]

/-- the model's mapper state (one dict per parent slot) as the mapper store of the code -/
def repMaps (mp : Nat → Option (List (Val × Nat))) : Nat → Nat → Option (List (Val × Nat)) :=
  fun sid i => if sid = 0 then mp i else none

theorem repMaps_upd (mp : Nat → Option (List (Val × Nat))) (i : Nat) (v : Option (List (Val × Nat))) :
    repMaps (upd mp i v) = updMap (repMaps mp) 0 i v := by
  funext sid j
  by_cases h1 : sid = 0 <;> by_cases h2 : j = i <;> simp [repMaps, updMap, upd, h1, h2]

theorem find_beq (m : List (Val × Nat)) (g : Val) :
    (m.find? (fun p => PyAlg.eq p.1 g)).map (·.2) = gbLookup m g := by
  unfold gbLookup
  have : (fun p : Val × Nat => PyAlg.eq p.1 g) = (fun p => decide (p.1 = g)) := by
    funext p
    show (p.1 == g) = decide (p.1 = g)
    by_cases h : p.1 = g <;> simp [h]
  rw [this]

/-- with pairwise distinct keys every pair of the dict is found under its own key -/
theorem lookup_self (m : List (Val × Nat)) (hnd : (m.map (·.1)).Nodup) :
    ∀ p ∈ m, (m.find? (fun q => PyAlg.eq q.1 p.1)).map (·.2) = some p.2 := by
  induction m with
  | nil => intro p hp; cases hp
  | cons q m ih =>
    intro p hp
    simp only [List.map_cons, List.nodup_cons] at hnd
    rcases List.mem_cons.mp hp with h | h
    · subst h
      have : PyAlg.eq p.1 p.1 = true := by show (p.1 == p.1) = true; simp
      simp [List.find?_cons, this]
    · have hne : q.1 ≠ p.1 := by
        intro he; apply hnd.1; rw [he]; exact List.mem_map_of_mem h
      have : PyAlg.eq q.1 p.1 = false := by show (q.1 == p.1) = false; simp [hne]
      simp only [List.find?_cons, this]
      exact ih hnd.2 p h

theorem gbLookup_none {m : List (Val × Nat)} {g : Val} (h : gbLookup m g = none) : g ∉ m.map (·.1) := by
  intro hin
  obtain ⟨p, hp, hpg⟩ := List.mem_map.mp hin
  simp only [gbLookup, Option.map_eq_none_iff, List.find?_eq_none] at h
  have := h p hp
  simp [hpg] at this

/-- the dicts of `gbStep` keep pairwise distinct keys (a key is added only when its lookup found nothing) -/
theorem gb_nodup (f : Val → Val) (st : GbSt Val) (ev : Ev Val)
    (hnd : ∀ i m, st.maps i = some m → (m.map (·.1)).Nodup) :
    ∀ i m, (gbStep f st ev).1.maps i = some m → (m.map (·.1)).Nodup := by
  intro i m
  cases ev with
  | create k =>
    simp only [gbStep, upd]
    split
    · intro h; cases h; simp
    · exact hnd i m
  | next k v =>
    cases h : st.maps k.idx with
    | none => simp only [gbStep, h]; exact hnd i m
    | some m0 =>
      cases hl : gbLookup m0 (f v) with
      | some j => simp only [gbStep, h, hl]; exact hnd i m
      | none =>
        simp only [gbStep, h, hl, upd]
        split
        · intro he; cases he
          rw [List.map_append, List.nodup_append]
          refine ⟨hnd _ _ h, by simp, ?_⟩
          intro a ha b hb
          simp at hb; subst hb
          intro hab; subst hab
          exact gbLookup_none hl ha
        · exact hnd i m
  | done k =>
    cases h : st.maps k.idx with
    | none => simp only [gbStep, h]; exact hnd i m
    | some m0 =>
      simp only [gbStep, h, upd]
      split
      · intro he; cases he
      · exact hnd i m
  | err k e =>
    cases h : st.maps k.idx with
    | none => simp only [gbStep, h]; exact hnd i m
    | some m0 =>
      simp only [gbStep, h, upd]
      split
      · intro he; cases he
      · exact hnd i m
  | fatal e => exact hnd i m

/-- `group_by_mux`: the generated handler (mapper store: lookup, `add_map` with the running index, flush loop over
`iterate_map` at completion / error of the parent) is the model's `gbStep`, for every key function, on every event whose
parent key has a live dict with pairwise distinct keys (an invariant of `gbStep`: `gb_nodup`) -/
theorem LinkH_group_by (f : Val → Val) (st : GbSt Val) (ev : Ev Val)
    (hlive : ∀ k, ((∃ v, ev = .next k v) ∨ ev = .done k ∨ (∃ e, ev = .err k e)) → st.maps k.idx ≠ none)
    (hnd : ∀ i m, st.maps i = some m → (m.map (·.1)).Nodup) :
    runHM (Gen.group_by_mux_on_next (fun v => .ok (f v)) ev) (repMaps st.maps) st.next
      = (.ok (), repMaps (gbStep f st ev).1.maps, (gbStep f st ev).1.next, (gbStep f st ev).2.1, (gbStep f st ev).2.2.map OEv.toEv) := by
  cases ev with
  | create k =>
    hm_simp [runHM, emitOuter, addKeyMap, Gen.group_by_mux_on_next, gbStep, repMaps_upd, OEv.toEv]
  | next k v =>
    cases h : st.maps k.idx with
    | none => exact absurd h (hlive k (Or.inl ⟨v, rfl⟩))
    | some m =>
      have hf := find_beq m (f v)
      cases hl : gbLookup m (f v) with
      | none =>
        rw [hl] at hf
        hm_simp [runHM, emitOuter, getMap, addMap, unmarkN, Gen.group_by_mux_on_next, gbStep, repMaps_upd, h, repMaps, hf, hl,
          set, MonadStateOf.set, StateT.set]
      | some i =>
        rw [hl] at hf
        hm_simp [runHM, emitOuter, getMap, addMap, unmarkN, Gen.group_by_mux_on_next, gbStep, repMaps_upd, h, repMaps, hf, hl]
  | done k =>
    cases h : st.maps k.idx with
    | none => exact absurd h (hlive k (Or.inr (Or.inl rfl)))
    | some m =>
      let s0 : HSt Val := { stores := fun _ _ => none, out := [], maps := repMaps st.maps, nextIndex := st.next }
      have hs : s0.maps 0 k.idx = some m := by simp [s0, repMaps, h]
      obtain ⟨r', hr'⟩ := gb_loop Ev.done k m m (lookup_self m (hnd _ _ h)) s0 hs none
      have hit : runS (iterateMap 0 k) s0 = (.ok (m.map (·.1)), s0) := by
        simp only [runS, iterateMap, ExceptT.run, bind, ExceptT.bind, ExceptT.mk, StateT.bind, StateT.run, ExceptT.bindCont, get, getThe,
          MonadStateOf.get, liftM, monadLift, MonadLift.monadLift, ExceptT.lift, StateT.get, Functor.map, StateT.map, pure, StateT.pure,
          hs, ExceptT.pure]
      show (let r := runS (Gen.group_by_mux_on_next (fun v => .ok (f v)) (.done k)) s0; (r.1, r.2.maps, r.2.nextIndex, r.2.out, r.2.outer)) = _
      simp only [Gen.group_by_mux_on_next, runS_bind, hit, hr']
      hm_simp [runS, delKeyMap, emitOuter, gbStep, h, repMaps_upd, OEv.toEv, s0]
  | err k e =>
    cases h : st.maps k.idx with
    | none => exact absurd h (hlive k (Or.inr (Or.inr ⟨e, rfl⟩)))
    | some m =>
      let s0 : HSt Val := { stores := fun _ _ => none, out := [], maps := repMaps st.maps, nextIndex := st.next }
      have hs : s0.maps 0 k.idx = some m := by simp [s0, repMaps, h]
      obtain ⟨r', hr'⟩ := gb_loop (fun ks => Ev.err ks e) k m m (lookup_self m (hnd _ _ h)) s0 hs none
      try simp only at hr'
      have hit : runS (iterateMap 0 k) s0 = (.ok (m.map (·.1)), s0) := by
        simp only [runS, iterateMap, ExceptT.run, bind, ExceptT.bind, ExceptT.mk, StateT.bind, StateT.run, ExceptT.bindCont, get, getThe,
          MonadStateOf.get, liftM, monadLift, MonadLift.monadLift, ExceptT.lift, StateT.get, Functor.map, StateT.map, pure, StateT.pure,
          hs, ExceptT.pure]
      show (let r := runS (Gen.group_by_mux_on_next (fun v => .ok (f v)) (.err k e)) s0; (r.1, r.2.maps, r.2.nextIndex, r.2.out, r.2.outer)) = _
      simp only [Gen.group_by_mux_on_next, runS_bind, hit, hr']
      hm_simp [runS, delKeyMap, emitOuter, gbStep, h, repMaps_upd, OEv.toEv, s0]
  | fatal e => hm_simp [runHM, emitOuter, Gen.group_by_mux_on_next, gbStep]


end Rx

import RxGen.Kernels
import RxGen.Handlers
import RxModel.PyVal
import RxModel.Lemmas.HandlerSim
import RxModel.Split
/-!
# C07 link theorem: the expiry predicate of the model (`tsExpired`) is the function generated from
`time_split_mux._session_has_expired`, on integer timestamps and optional integer timeouts.
-/
namespace Rx

/-- rxsci/data/time_split.py `_session_has_expired` on integer timestamps and optional integer timeouts -/
def optInt : Option Int → Val
  | some a => .int a
  | none => .none

theorem ok_bind' {ε α β} (a : α) (f : α → Except ε β) : (Except.ok a >>= f) = f a := rfl
theorem int_beq_none (v : Int) : (Val.int v == Val.none) = false := by simp
theorem add_int (a b : Int) : (PyAlg.add (Val.int a) (Val.int b) : Except Err Val) = .ok (.int (a + b)) := rfl
theorem le_int (a b : Int) : (PyAlg.le (Val.int a) (Val.int b) : Except Err Bool) = .ok (decide (a ≤ b)) := rfl

theorem Link_session_has_expired {α} (c : TsCfg α) (start last new : Int) :
    Gen.session_has_expired (V := Val) (optInt c.active) (optInt c.inactive) (.int start) (.int last) (.int new)
      = .ok (.bool (tsExpired c start last new)) := by
  cases ha : c.active <;> cases hi : c.inactive <;>
    simp only [Gen.session_has_expired, tsExpired, optInt, ha, hi, PyAlg.isNone, add_int, le_int, ok_bind', PyAlg.bool,
      pure_bind, bind_pure, Bool.not_true, Bool.not_false, if_true, if_false, Bool.false_eq_true, Bool.or_false, Bool.false_or,
      beq_self_eq_true, ge_iff_le]
  · rfl
  · rename_i b
    cases h : decide (last + b ≤ new) <;> simp [int_beq_none, ok_bind', h] <;> rfl
  · rename_i a
    cases h : decide (start + a ≤ new) <;> simp [int_beq_none, ok_bind', h] <;> rfl
  · rename_i a b
    cases h : decide (start + a ≤ new) <;> cases h2 : decide (last + b ≤ new) <;>
      simp [int_beq_none, ok_bind', h, h2] <;> rfl


/-! ## the handler of `time_split_mux` -/
open HM
/-- the model's time_split state (one slot holding `(start, last)`) as the two slot arrays of the code's states -/
def repTs (st : TsSt) : Nat → Nat → Slot Val := fun sid i =>
  if sid = 0 then (st i).map (fun o => o.map (fun p => Val.int p.1))
  else if sid = 1 then (st i).map (fun o => o.map (fun p => Val.int p.2))
  else none

theorem repTs_upd (st : TsSt) (i : Nat) (v : Option (Option (Int × Int))) :
    repTs (upd st i v) = updSlot (updSlot (repTs st) 0 i (v.map (fun o => o.map (fun p => Val.int p.1)))) 1 i
      (v.map (fun o => o.map (fun p => Val.int p.2))) := by
  funext sid j
  by_cases h1 : sid = 0 <;> by_cases h2 : sid = 1 <;> by_cases h3 : j = i <;> simp [repTs, updSlot, upd, h1, h2, h3]
  all_goals omega

/-- closes goals that equate two stacks of slot updates at the same index of states 0 and 1 -/
macro "upd_ext" "[" ts:Lean.Parser.Tactic.simpLemma,* "]" k:term : tactic =>
  `(tactic| (funext sid j; by_cases h1 : sid = 0 <;> by_cases h2 : sid = 1 <;> by_cases h3 : j = ($k).idx <;>
      simp [updSlot, h1, h2, h3, $ts,*]))

theorem truthy_boolV (b : Bool) : PyAlg.truthy (Val.bool b) = b := rfl
theorem isTrue_boolV (b : Bool) : PyAlg.isTrue (Val.bool b) = b := by cases b <;> rfl

/-- the configuration of the model's time_split as the arguments the code's `time_split_mux` is created with -/
def tsTime {α} (c : TsCfg α) : α → Except Err Val := fun v => .ok (.int (c.time v))
def tsClosing {α} (c : TsCfg α) : Option (α → Except Err Val) := c.closing.map (fun f v => .ok (.bool (f v)))

/-- `time_split_mux`: the generated handler (two states: window reference timestamp, last timestamp) is the model's `tsStep`,
for every configuration (timeouts present or `None`, closing mapper or none, include flag), on every event whose key has a live slot -/
theorem LinkH_time_split (c : TsCfg Val) (st : TsSt) (ev : Ev Val)
    (hlive : ∀ k, ((∃ v, ev = .next k v) ∨ ev = .done k ∨ (∃ e, ev = .err k e)) → st k.idx ≠ none) :
    runH2 (Gen.time_split_mux_on_next (tsTime c) (tsClosing c) c.incl (optInt c.active) (optInt c.inactive) ev) (repTs st)
      = (.ok (), repTs (tsStep c st ev).1, (tsStep c st ev).2.1, (tsStep c st ev).2.2.map OEv.toEv) := by
  cases ev with
  | create k => hm_simp [runH2, emitOuter, Gen.time_split_mux_on_next, tsStep, repTs_upd, OEv.toEv]
  | next k v =>
    cases h : st k.idx with
    | none => exact absurd h (hlive k (Or.inl ⟨v, rfl⟩))
    | some cur =>
      cases cur with
      | none =>
        have hx := Link_session_has_expired c (c.time v) (c.time v) (c.time v)
        cases hexp : tsExpired c (c.time v) (c.time v) (c.time v) <;> cases hcl : c.closing with
        | none => cases hi : c.incl <;>
            hm_simp [runH2, emitOuter, Gen.time_split_mux_on_next, tsStep, repTs_upd, h, repTs, ik, tsTime, tsClosing, hcl, hi,
              hx, hexp, truthy_boolV, TsCfg.closes, updSlot_same, updSlot_updSlot] <;> try (upd_ext [repTs, h] k)
        | some f => cases hf : f v <;> cases hi : c.incl <;>
            hm_simp [runH2, emitOuter, Gen.time_split_mux_on_next, tsStep, repTs_upd, h, repTs, ik, tsTime, tsClosing, hcl, hi,
              hx, hexp, truthy_boolV, isTrue_boolV, TsCfg.closes, hf, updSlot_same, updSlot_updSlot] <;> try (upd_ext [repTs, h] k)
      | some sl =>
        obtain ⟨s0, l0⟩ := sl
        have hx := Link_session_has_expired c s0 l0 (c.time v)
        cases hexp : tsExpired c s0 l0 (c.time v) <;> cases hcl : c.closing with
        | none => cases hi : c.incl <;>
            hm_simp [runH2, emitOuter, Gen.time_split_mux_on_next, tsStep, repTs_upd, h, repTs, ik, tsTime, tsClosing, hcl, hi,
              hx, hexp, truthy_boolV, TsCfg.closes, updSlot_same, updSlot_updSlot] <;> try (upd_ext [repTs, h] k)
        | some f => cases hf : f v <;> cases hi : c.incl <;>
            hm_simp [runH2, emitOuter, Gen.time_split_mux_on_next, tsStep, repTs_upd, h, repTs, ik, tsTime, tsClosing, hcl, hi,
              hx, hexp, truthy_boolV, isTrue_boolV, TsCfg.closes, hf, updSlot_same, updSlot_updSlot] <;> try (upd_ext [repTs, h] k)
  | done k =>
    cases h : st k.idx with
    | none => exact absurd h (hlive k (Or.inr (Or.inl rfl)))
    | some cur =>
      cases cur <;>
        hm_simp [runH2, emitOuter, Gen.time_split_mux_on_next, tsStep, repTs_upd, h, repTs, ik, OEv.toEv, updSlot_same, updSlot_updSlot]
  | err k e =>
    cases h : st k.idx with
    | none => exact absurd h (hlive k (Or.inr (Or.inr ⟨e, rfl⟩)))
    | some cur =>
      cases cur <;>
        hm_simp [runH2, emitOuter, Gen.time_split_mux_on_next, tsStep, repTs_upd, h, repTs, ik, OEv.toEv, updSlot_same, updSlot_updSlot]
  | fatal e => hm_simp [runH2, emitOuter, Gen.time_split_mux_on_next, tsStep]

end Rx

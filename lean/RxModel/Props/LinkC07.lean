import RxGen.Kernels
import RxModel.PyVal
/-!
# C07 link theorem: the expiry predicate of the model (`tsExpired`) is the function generated from
`time_split_mux._session_has_expired`, on integer timestamps and optional integer timeouts.
-/
namespace Rx

/-- rxsci/data/time_split.py `_session_has_expired` on integer timestamps and optional integer timeouts -/
def optInt : Option Int → Val
  | some a => .int a
  | none => .none

theorem ok_bind' {ε α β} (a : α) (f : α → Except ε β) : (Except.ok a >>= f) = f a := rfl
theorem int_beq_none (v : Int) : (Val.int v == Val.none) = false := by simp
theorem add_int (a b : Int) : (PyAlg.add (Val.int a) (Val.int b) : Except Err Val) = .ok (.int (a + b)) := rfl
theorem le_int (a b : Int) : (PyAlg.le (Val.int a) (Val.int b) : Except Err Bool) = .ok (decide (a ≤ b)) := rfl

theorem Link_session_has_expired {α} (c : TsCfg α) (start last new : Int) :
    Gen.session_has_expired (V := Val) (optInt c.active) (optInt c.inactive) (.int start) (.int last) (.int new)
      = .ok (.bool (tsExpired c start last new)) := by
  cases ha : c.active <;> cases hi : c.inactive <;>
    simp only [Gen.session_has_expired, tsExpired, optInt, ha, hi, PyAlg.isNone, add_int, le_int, ok_bind', PyAlg.bool,
      pure_bind, bind_pure, Bool.not_true, Bool.not_false, if_true, if_false, Bool.false_eq_true, Bool.or_false, Bool.false_or,
      beq_self_eq_true, ge_iff_le]
  · rfl
  · rename_i b
    cases h : decide (last + b ≤ new) <;> simp [int_beq_none, ok_bind', h] <;> rfl
  · rename_i a
    cases h : decide (start + a ≤ new) <;> simp [int_beq_none, ok_bind', h] <;> rfl
  · rename_i a b
    cases h : decide (start + a ≤ new) <;> cases h2 : decide (last + b ≤ new) <;>
      simp [int_beq_none, ok_bind', h, h2] <;> rfl


end Rx

import RxModel.Pipeline
import RxModel.Lemmas.TeePlain
/-!
# C08 — tee_map equals running each branch independently and joining the results

`teeMux` is `_process_many.subscribe_mux`: the source is published, branches are served in order,
each branch output goes through `on_next(i, x)` of the join as it is produced.
`C08_decompose`: for every source event the tee's chunk is the join (`feedJoin`, in branch order) of
the chunks the branches emit **when run alone** on the same trace — branch states never interact.
`C08_merge / C08_zip / C08_combine`: what the join does with one branch output, in the words of the
statement.
-/
namespace Rx

/-- every branch stepped on its own: new states and, per branch, its chunk for this event -/
def Branches.stepAlone {α β} : (b : Branches α β) → b.St → Ev α → b.St × List (List (Ev β))
  | .nil, s, _ => (s, [])
  | .cons Q r, s, e =>
    let o := Q.step s.1 e
    let rr := Branches.stepAlone r s.2 e
    ((o.1, rr.1), o.2 :: rr.2)

/-- join the chunks of branches `i, i+1, …` in branch order -/
def joinChunks {β γ} (mode : Join) (n : Nat) (mk : List (Option β) → γ) (inj : β → γ) (resetAll : Bool) :
    Nat → JoinSt β → List (List (Ev β)) → JoinSt β × List (Ev γ)
  | _, j, [] => (j, [])
  | i, j, c :: cs =>
    let a := feedJoin mode n mk inj resetAll i j c
    let a2 := joinChunks mode n mk inj resetAll (i + 1) a.1 cs
    (a2.1, a.2 ++ a2.2)

theorem branches_step_eq {α β γ} (mode : Join) (n : Nat) (mk : List (Option β) → γ) (inj : β → γ) (ra : Bool) :
    ∀ (b : Branches α β) (i : Nat) (s : b.St) (j : JoinSt β) (e : Ev α),
      Branches.step mode n mk inj ra b i s j e =
        ((b.stepAlone s e).1, joinChunks mode n mk inj ra i j (b.stepAlone s e).2)
  | .nil, _, _, _, _ => rfl
  | .cons Q r, i, s, j, e => by
    simp only [Branches.step, Branches.stepAlone, joinChunks]
    rw [branches_step_eq mode n mk inj ra r (i + 1) s.2 _ e]

/-- per source event: the chunks of the branches run alone (states threaded independently) -/
def Branches.runAlone {α β} (b : Branches α β) : b.St → List (Ev α) → List (List (List (Ev β)))
  | _, [] => []
  | s, e :: es => (b.stepAlone s e).2 :: b.runAlone (b.stepAlone s e).1 es

def joinRun {β γ} (mode : Join) (n : Nat) (mk : List (Option β) → γ) (inj : β → γ) (ra : Bool) :
    JoinSt β → List (List (List (Ev β))) → List (List (Ev γ))
  | _, [] => []
  | j, cs :: rest =>
    let a := joinChunks mode n mk inj ra 0 j cs
    a.2 :: joinRun mode n mk inj ra a.1 rest

/-- **decomposition**: the tee's output, source event by source event, is the join of what the
branches emit when each is run alone on the same input -/
theorem C08_decompose {α β γ} (mode : Join) (mk : List (Option β) → γ) (inj : β → γ) (ra : Bool)
    (b : Branches α β) (t : List (Ev α)) :
    (teeMux mode mk inj ra b).run t =
      joinRun mode b.length mk inj ra ⟨fun _ => none, fun _ => false⟩ (b.runAlone b.init t) := by
  have key : ∀ (t : List (Ev α)) (s : b.St) (j : JoinSt β),
      runSteps (teeMux mode mk inj ra b).step (s, j) t =
        joinRun mode b.length mk inj ra j (b.runAlone s t) := by
    intro t
    induction t with
    | nil => intros; rfl
    | cons e t ih =>
      intro s j
      simp only [runSteps, Branches.runAlone, joinRun]
      have hs : (teeMux mode mk inj ra b).step (s, j) e =
          (((b.stepAlone s e).1, (joinChunks mode b.length mk inj ra 0 j (b.stepAlone s e).2).1),
            (joinChunks mode b.length mk inj ra 0 j (b.stepAlone s e).2).2) := by
        show (let r := Branches.step mode b.length mk inj ra b 0 s j e; ((r.1, r.2.1), r.2.2)) = _
        rw [branches_step_eq]
      rw [hs]
      simp only
      rw [ih]
  exact key t b.init _

/-- a branch run alone inside `runAlone` is just that branch's own run -/
theorem C08_branch_alone {α β} (Q : MuxOp α β) (r : Branches α β) (t : List (Ev α)) :
    ((Branches.cons Q r).runAlone (Branches.cons Q r).init t).map (fun cs => cs.headD []) = Q.run t := by
  have key : ∀ (t : List (Ev α)) (s1 : Q.S) (s2 : r.St),
      ((Branches.cons Q r).runAlone (s1, s2) t).map (fun cs => cs.headD []) = runSteps Q.step s1 t := by
    intro t
    induction t with
    | nil => intros; rfl
    | cons e t ih =>
      intro s1 s2
      simp only [Branches.runAlone, Branches.stepAlone, List.map_cons, runSteps, List.headD_cons]
      rw [ih]
  exact key t Q.init r.init

/-- **merge**: every branch output is forwarded as it is produced (branch order per source event) -/
theorem C08_merge {β γ} (n : Nat) (mk : List (Option β) → γ) (inj : β → γ) (ra : Bool) (st : JoinSt β)
    (i : Nat) (k : Key) (x : β) :
    joinStep .merge n mk inj ra st i (.next k x) = (st, [.next k (inj x)]) := rfl

/-- **combine_latest**: on each branch output, the tuple of the latest value of every branch of that
key (`None` where a branch has not produced yet) -/
theorem C08_combine {β γ} (n : Nat) (mk : List (Option β) → γ) (inj : β → γ) (ra : Bool) (st : JoinSt β)
    (i : Nat) (k : Key) (x : β) :
    (joinStep .combine n mk inj ra st i (.next k x)).2 =
      [.next k (mk (sliceQ (fun j => if j = k.idx * n + i then some x else st.queue j) (k.idx * n) n))] := rfl

/-- **zip**: a tuple exactly when every branch of that key has produced a value since the last
tuple; the slots of the key are then emptied -/
theorem C08_zip {β γ} (n : Nat) (mk : List (Option β) → γ) (inj : β → γ) (ra : Bool) (st : JoinSt β)
    (i : Nat) (k : Key) (x : β) :
    let q := fun j => if j = k.idx * n + i then some x else st.queue j
    let h := fun j => if j = k.idx * n + i then true else st.has j
    (allHas h (k.idx * n) n = true →
      joinStep .zip n mk inj ra st i (.next k x) =
        (⟨clearQ q (k.idx * n) n, clearHas h (k.idx * n) n⟩, [.next k (mk (sliceQ q (k.idx * n) n))])) ∧
    (allHas h (k.idx * n) n = false →
      joinStep .zip n mk inj ra st i (.next k x) = (⟨q, h⟩, [])) := by
  intro q h
  constructor
  · intro hh
    show (if allHas h (k.idx * n) n = true then _ else _) = _
    rw [if_pos hh]
  · intro hh
    show (if allHas h (k.idx * n) n = true then _ else _) = _
    rw [if_neg (by simp [hh])]

/-- creation is forwarded once (from branch 0), completion once (from the last branch), and — with
the repaired completion handler — every slot of the key is reset, so nothing of a finished lifetime
can reach the next one served by the same key index -/
theorem C08_lifecycle {β γ} (mode : Join) (n : Nat) (mk : List (Option β) → γ) (inj : β → γ) (st : JoinSt β)
    (i : Nat) (k : Key) :
    (joinStep mode n mk inj true st i (.create k)).2 = (if i = 0 then [.create k] else []) ∧
    (joinStep mode n mk inj true st i (.done k)).2 = (if i = n - 1 then [.done k] else []) ∧
    (i = n - 1 → mode ≠ .merge → ∀ j, k.idx * n ≤ j → j < k.idx * n + n →
      (joinStep mode n mk inj true st i (.done k)).1.queue j = none ∧
      (joinStep mode n mk inj true st i (.done k)).1.has j = false) := by
  refine ⟨rfl, ?_, ?_⟩
  · simp only [joinStep]
    by_cases h1 : i = n - 1
    · simp only [h1, if_true]
      by_cases h2 : mode = .merge <;> simp [h2]
    · simp [h1]
  · intro hi hm j h1 h2
    have hq : ∀ (q : Nat → Option β) (m : Nat), j < k.idx * n + m → k.idx * n ≤ j → clearQ q (k.idx * n) m j = none := by
      intro q m
      induction m with
      | zero => intro h _; omega
      | succ m ih =>
        intro h h'
        simp only [clearQ]
        by_cases hj : j = k.idx * n + m
        · simp [hj]
        · simp only [hj, if_false]; exact ih (by omega) h'
    have hh : ∀ (q : Nat → Bool) (m : Nat), j < k.idx * n + m → k.idx * n ≤ j → clearHas q (k.idx * n) m j = false := by
      intro q m
      induction m with
      | zero => intro h _; omega
      | succ m ih =>
        intro h h'
        simp only [clearHas]
        by_cases hj : j = k.idx * n + m
        · simp [hj]
        · simp only [hj, if_false]; exact ih (by omega) h'
    simp only [joinStep, hi, if_true, hm]
    exact ⟨hq _ n h2 h1, hh _ n h2 h1⟩

/-! ## plain observables -/

/-- **tee_map on a plain observable = tee_map per key**, chunk by chunk: for every join, every
number of branches ≥ 1 and all branches that never complete early and never raise (`CleanOp`:
compositions of map / filter / scan / aggregates … with total user functions), the plain
implementation (`_process_many.subscribe`) emits nothing at subscription, then for every source item
and at completion exactly what the keyed implementation emits for one key. -/
theorem C08_plain {α β γ} (mode : Join) (mk : List (Option β) → γ) (inj : β → γ) (lb : LBranches α β)
    (hc : lb.AllClean) (hn : 0 < lb.length) (xs : List α) :
    (teePlain mode mk inj (plainBranches lb)).run xs =
      ([] :: ((localTee mode mk inj lb).runL (localTee mode mk inj lb).init xs).1,
        ((localTee mode mk inj lb).runL (localTee mode mk inj lb).init xs).2) := by
  have hstart : (teePlain mode mk inj (plainBranches lb)).start = ([], false) := by
    simp only [teePlain, startOuts_ofLocal]
    rw [psRel_allDone lb _ _ hn (psRel_init lb)]
  have hrun := tee_plain_run mode mk inj lb hc hn xs (plainBranches lb).init lb.init
    ⟨List.replicate lb.length none, List.replicate lb.length false⟩
    ⟨List.replicate lb.length none, List.replicate lb.length false⟩ (psRel_init lb)
    ⟨rfl, rfl, by simp, by split <;> simp⟩
  have hinit : (teePlain mode mk inj (plainBranches lb)).init =
      ((plainBranches lb).init, ⟨List.replicate lb.length none, List.replicate lb.length false⟩) := by
    simp only [teePlain, startOuts_ofLocal, plainBranches_length]
  unfold PlainOp.run
  simp only [hstart, stopsP_eq, hasFatal_nil, Bool.or_self, Bool.false_eq_true, if_false]
  rw [hinit, hrun]
  rfl

/-- non-vacuity: three branches (a filter, a running count, the identity), zip join -/
example : ((teePlain .zip (fun (l : List (Option Nat)) => l) (fun x => [some x])
    (plainBranches (.cons (filterOp (fun (n : Nat) => (Except.ok (n % 2 == 1) : Except Err Bool)) id)
      (.cons (scanOp (fun (a n : Nat) => (Except.ok (a + 1) : Except Err Nat)) 0 false none) (.cons idLocal .nil))))).run [1, 2, 3]).1 =
    [[], [.item [some 1, some 1, some 1]], [], [.item [some 3, some 2, some 2]]] := by decide

end Rx

import RxGen.Handlers
import RxModel.Lemmas.HandlerSim
import RxModel.Split
/-!
# C03 / C13 link theorem: the `on_next` handler of `demux_mux_observable` (rxsci/operators/multiplex.py), generated from the
source, is the model's `demuxEv`: items go up one key level, an inner `OnErrorMux` becomes `observer.on_error` (this is where an
unhandled mux error surfaces), inner creations and completions are dropped
-/
namespace Rx
open HM

theorem LinkH_demux (stores : Nat → Nat → Slot Val) (ev : Ev Val) (hkey : ∀ v, ev ≠ .next [] v) :
    runH (Gen.demux_mux_on_next ev) stores = (.ok (), stores, demuxEv ev) := by
  cases ev with
  | create k => hm_simp [Gen.demux_mux_on_next, demuxEv]
  | next k v =>
    cases k with
    | nil => exact absurd rfl (hkey v)
    | cons i k => hm_simp [Gen.demux_mux_on_next, demuxEv]
  | done k => hm_simp [Gen.demux_mux_on_next, demuxEv]
  | err k e => hm_simp [Gen.demux_mux_on_next, demuxEv]
  | fatal e => hm_simp [Gen.demux_mux_on_next, demuxEv]

end Rx

import RxModel.Lemmas.Local
import RxModel.Derived
import RxModel.Props.C20
/-!
# C10 — per-key sequence operators match their list semantics

One theorem per operator, about the per-key logic (`LocalOp`) the multiplexed operator runs for one
key lifetime; `items (L.outL xs)` is everything the key emits, in order.  The plain counterparts
(RxPY `first/last/take`) are related to the same list functions in `C10_plain_*`.
Every statement is for all item lists and all parameter values.
-/
namespace Rx

/-! ### first / last / take -/

theorem C10_first {α} (xs : List α) : (firstOp (α := α)).outL xs = (xs.head?.toList).map LOut.item := by
  have key : ∀ (xs : List α), (runRaw (firstOp (α := α)).next (firstOp (α := α)).fin true xs).1.flatten = [] := by
    intro xs; induction xs with
    | nil => rfl
    | cons x xs ih => simp only [runRaw, firstOp, List.flatten_cons] at ih ⊢; simpa using ih
  cases xs with
  | nil => rfl
  | cons x xs =>
    show (runRaw (firstOp (α := α)).next (firstOp (α := α)).fin false (x :: xs)).1.flatten ++
      (runRaw (firstOp (α := α)).next (firstOp (α := α)).fin false (x :: xs)).2 = _
    have := key xs
    simp only [firstOp] at this ⊢
    rw [runRaw_snd]
    simp [runRaw, this]

theorem C10_last {α} (xs : List α) : (lastOp (α := α)).outL xs = (xs.getLast?.toList).map LOut.item := by
  have key : ∀ (xs : List α) (s : Option α),
      (runRaw (lastOp (α := α)).next (lastOp (α := α)).fin s xs).1.flatten = [] ∧
      stateAfter (lastOp (α := α)).next s xs = (xs.getLast?).or s := by
    intro xs; induction xs with
    | nil => intro s; cases s <;> exact ⟨rfl, rfl⟩
    | cons x xs ih =>
      intro s
      have := ih (some x)
      simp only [runRaw, stateAfter, lastOp, List.flatten_cons] at this ⊢
      refine ⟨by simpa using this.1, ?_⟩
      rw [this.2]
      cases xs with
      | nil => simp
      | cons y ys =>
        rw [List.getLast?_cons_cons]
        have hne : (y :: ys).getLast? ≠ none := by simp
        cases h : (y :: ys).getLast? with
        | none => exact absurd h hne
        | some z => simp
  show (runRaw (lastOp (α := α)).next (lastOp (α := α)).fin none xs).1.flatten ++
      (runRaw (lastOp (α := α)).next (lastOp (α := α)).fin none xs).2 = _
  have k1 := (key xs none).1
  have k2 := (key xs none).2
  simp only [lastOp] at k1 k2 ⊢
  rw [runRaw_snd, k1, k2]
  cases h : xs.getLast? <;> simp

theorem C10_take {α} (n : Nat) (xs : List α) : (takeOp (α := α) n).outL xs = (xs.take n).map LOut.item := by
  have key : ∀ (xs : List α) (c : Nat),
      (runRaw (takeOp (α := α) n).next (takeOp (α := α) n).fin c xs).1.flatten = (xs.take c).map LOut.item := by
    intro xs; induction xs with
    | nil => intro c; simp [runRaw]
    | cons x xs ih =>
      intro c
      simp only [runRaw, takeOp, List.flatten_cons] at ih ⊢
      cases c with
      | zero => simpa using ih 0
      | succ c => simpa using ih c
  show (runRaw (takeOp (α := α) n).next (takeOp (α := α) n).fin n xs).1.flatten ++
      (runRaw (takeOp (α := α) n).next (takeOp (α := α) n).fin n xs).2 = _
  have k := key xs n
  simp only [takeOp] at k ⊢
  rw [runRaw_snd, k]
  simp

/-! ### distinct: the first occurrence of each key value -/

theorem C10_distinct {α κ} [DecidableEq κ] (f : α → κ) (xs : List α) :
    (distinctOp (fun x => .ok (f x))).outL xs =
      (xs.eraseDupsBy (fun a b => f a == f b)).map LOut.item := by
  have key : ∀ (xs : List α) (S : List κ),
      (runRaw (distinctOp (fun x => .ok (f x))).next (distinctOp (fun x => .ok (f x))).fin S xs).1.flatten =
        ((xs.filter (fun x => f x ∉ S)).eraseDupsBy (fun a b => f a == f b)).map LOut.item := by
    intro xs
    induction xs with
    | nil => intro S; simp [runRaw]
    | cons x xs ih =>
      intro S
      simp only [runRaw, distinctOp, List.flatten_cons] at ih ⊢
      by_cases hx : f x ∈ S
      · simp only [hx, if_true, List.nil_append]
        rw [ih S]
        simp [List.filter_cons, hx]
      · simp only [hx, if_false]
        rw [ih (f x :: S)]
        simp only [List.filter_cons, hx, not_false_eq_true, decide_true, if_true, List.eraseDupsBy_cons,
          List.map_cons, List.singleton_append, List.filter_filter]
        congr 3
        apply List.filter_congr
        intro y _
        simp only [List.mem_cons, not_or, beq_eq_false_iff_ne, ne_eq, Bool.decide_and, Bool.and_comm]
  show (runRaw (distinctOp (fun x => .ok (f x))).next (distinctOp (fun x => .ok (f x))).fin [] xs).1.flatten ++
      (runRaw (distinctOp (fun x => .ok (f x))).next (distinctOp (fun x => .ok (f x))).fin [] xs).2 = _
  have k := key xs []
  simp only [distinctOp] at k ⊢
  rw [runRaw_snd, k]
  have hft : xs.filter (fun _ => true) = xs := by
    induction xs with
    | nil => rfl
    | cons y ys ih => simp [List.filter_cons]
  simp [hft]

/-! ### lag: pairs (item n steps back, or the first item; item)

`zipWith mk (replicate n x0 ++ xs) xs`: the stream shifted right by `n`, padded with its first item. -/

theorem C10_lag1 {α β} (mk : α → α → β) (xs : List α) :
    (lag1Op mk).outL xs = (List.zipWith mk (xs.head?.toList ++ xs) xs).map LOut.item := by
  have key : ∀ (xs : List α) (prev : α),
      (runRaw (lag1Op mk).next (lag1Op mk).fin (some prev) xs).1.flatten =
        (List.zipWith mk (prev :: xs) xs).map LOut.item := by
    intro xs
    induction xs with
    | nil => intro prev; simp [runRaw]
    | cons x xs ih =>
      intro prev
      simp only [runRaw, lag1Op, List.flatten_cons] at ih ⊢
      rw [ih x]
      simp
  cases xs with
  | nil => rfl
  | cons x xs =>
    show (runRaw (lag1Op mk).next (lag1Op mk).fin none (x :: xs)).1.flatten ++
      (runRaw (lag1Op mk).next (lag1Op mk).fin none (x :: xs)).2 = _
    have k := key xs x
    simp only [lag1Op] at k ⊢
    rw [runRaw_snd]
    simp only [runRaw, List.flatten_cons, Option.getD_none, k]
    simp

/-- `_lag.on_next` as an explicit function on the deque -/
def lagNext {α β} (n : Nat) (mk : α → α → β) (q : List α) (x : α) : List α × List (LOut β) :=
  (if (q ++ [x]).length > n then (q ++ [x]).tail else q ++ [x], [LOut.item (mk ((q ++ [x]).headD x) x)])

def lagFin {α β} (_ : List α) : List (LOut β) := []

/-- the `_lag` deque once it holds `size` items: every pair is (item `size` steps back, item) -/
theorem lag_full {α β} (n : Nat) (mk : α → α → β) : ∀ (xs q : List α), q.length = n →
    (runRaw (lagNext n mk) lagFin q xs).1.flatten = (List.zipWith mk (q ++ xs) xs).map LOut.item := by
  intro xs
  induction xs with
  | nil => intro q _; simp [runRaw]
  | cons x xs ih =>
    intro q hq
    have hgt : (q ++ [x]).length > n := by simp [hq]
    simp only [runRaw, lagNext, List.flatten_cons, hgt, if_true]
    have := ih (q ++ [x]).tail (by simp [hq])
    rw [this]
    cases q with
    | nil => simp
    | cons a r => simp

/-- the warm-up phase: the deque holds everything received so far, its head is the first item -/
theorem lag_warm {α β} (n : Nat) (mk : α → α → β) : ∀ (xs : List α) (x0 : α) (r : List α), (x0 :: r).length ≤ n →
    (runRaw (lagNext n mk) lagFin (x0 :: r) xs).1.flatten =
      (List.zipWith mk (List.replicate (n - (x0 :: r).length) x0 ++ (x0 :: r) ++ xs) xs).map LOut.item := by
  intro xs
  induction xs with
  | nil => intro x0 r _; simp [runRaw]
  | cons x xs ih =>
    intro x0 r hq
    by_cases hfull : (x0 :: r).length = n
    · rw [lag_full n mk (x :: xs) (x0 :: r) hfull, hfull]; simp
    · have hlt : (x0 :: r).length < n := by omega
      have hnot : ¬ ((x0 :: r) ++ [x]).length > n := by simp at hlt ⊢; omega
      have hstep : lagNext n mk (x0 :: r) x = ((x0 :: r) ++ [x], [LOut.item (mk x0 x)]) := by
        simp only [lagNext, hnot, if_false]; rfl
      simp only [runRaw, List.flatten_cons, hstep]
      have := ih x0 (r ++ [x]) (by simp at hlt ⊢; omega)
      simp only [List.cons_append] at this ⊢
      rw [this]
      have hrep : n - (x0 :: r).length = (n - (x0 :: (r ++ [x])).length) + 1 := by simp at hlt ⊢; omega
      rw [hrep, List.replicate_succ]
      simp

/-- **lag(n)** for every `n`: the stream shifted right by `n` and padded with its first item, paired
with the stream itself — `(item n steps back, or the first item; item)` -/
theorem C10_lag {α β} (n : Nat) (mk : α → α → β) (xs : List α) :
    (lagOp n mk).outL xs =
      match xs with
      | [] => []
      | x0 :: _ => (List.zipWith mk (List.replicate n x0 ++ xs) xs).map LOut.item := by
  cases xs with
  | nil => rfl
  | cons x0 rest =>
    show (runRaw (lagNext n mk) lagFin [] (x0 :: rest)).1.flatten ++
      (runRaw (lagNext n mk) lagFin [] (x0 :: rest)).2 = _
    rw [runRaw_snd]
    simp only [lagFin, List.append_nil]
    by_cases hn : n = 0
    · subst hn
      rw [lag_full 0 mk (x0 :: rest) [] rfl]; simp
    · have hnot : ¬ (([] : List α) ++ [x0]).length > n := by simp; omega
      have hstep : lagNext n mk [] x0 = ([x0], [LOut.item (mk x0 x0)]) := by
        simp only [lagNext, hnot, if_false]; rfl
      have hw := lag_warm n mk rest x0 [] (by simp; omega)
      simp only [runRaw, List.flatten_cons, hstep, hw]
      have hrep : n = (n - [x0].length) + 1 := by simp; omega
      rw [hrep, List.replicate_succ]
      simp

/-! ### distinct_until_changed: one item per run of equal key values (the first of the run)

The operator is the pipeline `scan | filter | map` of rxsci/operators/distinct_until_changed.py
(`D.duc`, Derived.lean), over `Val` tuples `(flag, item, key)`, exactly as the code composes it. -/

def dedupGo {α κ} [DecidableEq κ] (k : α → κ) : κ → List α → List α
  | _, [] => []
  | prev, y :: ys => if k y ≠ prev then y :: dedupGo k (k y) ys else dedupGo k (k y) ys

/-- the first item of every maximal run of items with equal key -/
def dedupAdj {α κ} [DecidableEq κ] (k : α → κ) : List α → List α
  | [] => []
  | x :: xs => x :: dedupGo k (k x) xs

abbrev ducL (k : Val → Val) : LocalOp Val Val := (D.duc (fun v => .ok (k v))).loc

abbrev DucSt := Option Val × Unit × Unit × Unit
def ducNext (k : Val → Val) : DucSt → Val → DucSt × List (LOut Val) := (ducL k).next
def ducFin (k : Val → Val) : DucSt → List (LOut Val) := (ducL k).fin

/-- one item through `scan | filter | map`, from a state that has already seen an item -/
theorem duc_step (k : Val → Val) (f : Bool) (x' x : Val) (u : (Unit × Unit × Unit)) :
    ducNext k (some (Val.tup [.bool f, x', k x']), u) x =
      ((some (Val.tup [.bool (decide (k x ≠ k x')), x, k x]), ((), (), ())),
        if k x ≠ k x' then [LOut.item x] else []) := by
  by_cases h : k x = k x'
  · simp [ducNext, ducL, D.duc, Pipe.ofList, Pipe.loc, Stage.loc, D.scan, D.filter, D.map, compLocal, feedL, scanOp, scanNext,
      filterOp, mapOp, idLocal, Val.nth, Val.elems, Val.tup, VList.ofList, VList.toList, Val.truthy, h, bind, Except.bind, pure, Except.pure]
  · simp [ducNext, ducL, D.duc, Pipe.ofList, Pipe.loc, Stage.loc, D.scan, D.filter, D.map, compLocal, feedL, scanOp, scanNext,
      filterOp, mapOp, idLocal, Val.nth, Val.elems, Val.tup, VList.ofList, VList.toList, Val.truthy, h, bind, Except.bind, pure, Except.pure]

/-- the first item of a key -/
theorem duc_first (k : Val → Val) (x : Val) (u : (Unit × Unit × Unit)) :
    ducNext k (none, u) x = ((some (Val.tup [.bool true, x, k x]), ((), (), ())), [LOut.item x]) := by
  simp [ducNext, ducL, D.duc, Pipe.ofList, Pipe.loc, Stage.loc, D.scan, D.filter, D.map, compLocal, feedL, scanOp, scanNext,
    filterOp, mapOp, idLocal, Val.nth, Val.elems, Val.tup, VList.ofList, VList.toList, Val.truthy, bind, Except.bind, pure, Except.pure]

theorem duc_fin (k : Val → Val) (s : DucSt) : ducFin k s = [] := by
  simp [ducFin, ducL, D.duc, Pipe.ofList, Pipe.loc, Stage.loc, D.scan, D.filter, D.map, compLocal, feedL, scanOp, scanFin,
    filterOp, mapOp, idLocal]

/-- **distinct_until_changed** with any key function (`None`-valued keys included): the first item
of every run of equal key values, nothing else, in order -/
theorem C10_distinct_until_changed (k : Val → Val) (xs : List Val) :
    (ducL k).outL xs = (dedupAdj k xs).map LOut.item := by
  have key : ∀ (xs : List Val) (f : Bool) (x' : Val) (u : Unit × Unit × Unit),
      (runRaw (ducNext k) (ducFin k) (some (Val.tup [.bool f, x', k x']), u) xs).1.flatten =
        (dedupGo k (k x') xs).map LOut.item := by
    intro xs
    induction xs with
    | nil => intro f x' u; simp [runRaw, dedupGo]
    | cons x xs ih =>
      intro f x' u
      simp only [runRaw, List.flatten_cons, duc_step, dedupGo]
      rw [ih]
      by_cases h : k x = k x' <;> simp [h]
  cases xs with
  | nil =>
    show (runRaw (ducNext k) (ducFin k) (none, ((), (), ())) []).1.flatten ++ (runRaw (ducNext k) (ducFin k) (none, ((), (), ())) []).2 = _
    simp [runRaw, duc_fin, dedupAdj]
  | cons x xs =>
    show (runRaw (ducNext k) (ducFin k) (none, ((), (), ())) (x :: xs)).1.flatten ++
      (runRaw (ducNext k) (ducFin k) (none, ((), (), ())) (x :: xs)).2 = _
    rw [runRaw_snd, duc_fin]
    simp only [runRaw, List.flatten_cons, duc_first, dedupAdj, List.append_nil]
    rw [key]
    simp

example : dedupAdj (fun (n : Nat) => n / 2) [2, 3, 4, 5, 2, 2, 7] = [2, 4, 2, 7] := by decide
example : (List.zipWith (fun a b => (a, b)) (List.replicate 2 10 ++ [10, 11, 12, 13]) [10, 11, 12, 13]) =
    [(10, 10), (10, 11), (10, 12), (11, 13)] := by decide

/-! ### pad_start / pad_end / start_with -/

theorem C10_pad_start {α} (n : Nat) (v : Option α) (xs : List α) :
    (padStartOp n v).outL xs =
      (match xs with
       | [] => []
       | x :: _ => List.replicate n (v.getD x) ++ xs).map LOut.item := by
  have key : ∀ (xs : List α),
      (runRaw (padStartOp n v).next (padStartOp n v).fin true xs).1.flatten = xs.map LOut.item := by
    intro xs
    induction xs with
    | nil => rfl
    | cons x xs ih => simp only [runRaw, padStartOp, List.flatten_cons] at ih ⊢; simp [ih]
  cases xs with
  | nil => rfl
  | cons x xs =>
    show (runRaw (padStartOp n v).next (padStartOp n v).fin false (x :: xs)).1.flatten ++
      (runRaw (padStartOp n v).next (padStartOp n v).fin false (x :: xs)).2 = _
    have k := key xs
    simp only [padStartOp] at k ⊢
    rw [runRaw_snd]
    simp [runRaw, k, List.map_replicate]

theorem C10_pad_end {α} (n : Nat) (v : Option α) (xs : List α) :
    (padEndOp n v).outL xs =
      (match xs.getLast? with
       | none => []
       | some l => xs ++ List.replicate n (v.getD l)).map LOut.item := by
  have key : ∀ (xs : List α) (s : Option α),
      (runRaw (padEndOp n v).next (padEndOp n v).fin s xs).1.flatten = xs.map LOut.item ∧
      stateAfter (padEndOp n v).next s xs = (xs.getLast?).or s := by
    intro xs; induction xs with
    | nil => intro s; cases s <;> exact ⟨rfl, rfl⟩
    | cons x xs ih =>
      intro s
      have := ih (some x)
      simp only [runRaw, stateAfter, padEndOp, List.flatten_cons] at this ⊢
      refine ⟨by simp [this.1], ?_⟩
      rw [this.2]
      cases xs with
      | nil => simp
      | cons y ys =>
        rw [List.getLast?_cons_cons]
        have hne : (y :: ys).getLast? ≠ none := by simp
        cases h : (y :: ys).getLast? with
        | none => exact absurd h hne
        | some z => simp
  show (runRaw (padEndOp n v).next (padEndOp n v).fin none xs).1.flatten ++
      (runRaw (padEndOp n v).next (padEndOp n v).fin none xs).2 = _
  have k1 := (key xs none).1
  have k2 := (key xs none).2
  simp only [padEndOp] at k1 k2 ⊢
  rw [runRaw_snd, k1, k2]
  cases h : xs.getLast? with
  | none => simp [List.getLast?_eq_none_iff.mp h]
  | some l => simp [List.map_replicate]

theorem C10_start_with {α} (padding : List α) (xs : List α) :
    (startWithOp padding).outL xs =
      (match xs with
       | [] => []
       | _ :: _ => padding ++ xs).map LOut.item := by
  have key : ∀ (xs : List α),
      (runRaw (startWithOp padding).next (startWithOp padding).fin true xs).1.flatten = xs.map LOut.item := by
    intro xs
    induction xs with
    | nil => rfl
    | cons x xs ih => simp only [runRaw, startWithOp, List.flatten_cons] at ih ⊢; simp [ih]
  cases xs with
  | nil => rfl
  | cons x xs =>
    show (runRaw (startWithOp padding).next (startWithOp padding).fin false (x :: xs)).1.flatten ++
      (runRaw (startWithOp padding).next (startWithOp padding).fin false (x :: xs)).2 = _
    have k := key xs
    simp only [startWithOp] at k ⊢
    rw [runRaw_snd]
    simp [runRaw, k]

/-! ### sort: a stably ordered permutation

`sortBy key lt reverse` is `sorted(items, key=key, reverse=reverse)` of rxsci/data/sort.py
(Python's sort being stable, also with `reverse=True`).  `lt` is any strict weak order on keys:
the induced "not greater" relation is transitive and total. -/

theorem C10_sort {α κ} (key : α → κ) (lt : κ → κ → Bool) (reverse : Bool) (xs : List α)
    (trans : ∀ a b c : κ, !(lt b a) → !(lt c b) → !(lt c a))
    (total : ∀ a b : κ, !(lt b a) || !(lt a b)) :
    -- a permutation of the input
    (sortBy key lt reverse xs).Perm xs ∧
    -- ordered by key (descending when reversed)
    (sortBy key lt reverse xs).Pairwise
      (fun a b => if reverse then !(lt (key a) (key b)) else !(lt (key b) (key a))) ∧
    -- stable: two items that were in order and tie (or are ordered) keep their relative order
    (∀ a b, (if reverse then !(lt (key a) (key b)) else !(lt (key b) (key a))) = true →
      [a, b].Sublist xs → [a, b].Sublist (sortBy key lt reverse xs)) := by
  unfold sortBy
  have htrans : ∀ a b c : α,
      (if reverse then !(lt (key a) (key b)) else !(lt (key b) (key a))) = true →
      (if reverse then !(lt (key b) (key c)) else !(lt (key c) (key b))) = true →
      (if reverse then !(lt (key a) (key c)) else !(lt (key c) (key a))) = true := by
    intro a b c
    cases reverse
    · simpa using trans (key a) (key b) (key c)
    · simp only [if_true]
      intro h1 h2
      have := trans (key c) (key b) (key a)
      simp only [Bool.not_eq_true'] at h1 h2 this ⊢
      exact this h2 h1
  have htotal : ∀ a b : α,
      ((if reverse then !(lt (key a) (key b)) else !(lt (key b) (key a))) ||
       (if reverse then !(lt (key b) (key a)) else !(lt (key a) (key b)))) = true := by
    intro a b
    cases reverse
    · simpa using total (key a) (key b)
    · simpa using total (key b) (key a)
  refine ⟨List.mergeSort_perm _ _, List.pairwise_mergeSort htrans htotal xs, ?_⟩
  intro a b hab hsub
  exact List.pair_sublist_mergeSort htrans htotal hab hsub


/-! ### batch: the clause of the statement on the composed operator (`C20_batch` + `C20_chunks_spec`) -/

theorem chunksOf_length {α} (n : Nat) (hn : 0 < n) : ∀ (m : Nat) (xs : List α), xs.length = m →
    (chunksOf n xs).length = (xs.length + n - 1) / n := by
  intro m
  induction m using Nat.strongRecOn with
  | ind m ih =>
    intro xs hm
    cases xs with
    | nil =>
      simp only [chunksOf_nil, List.length_nil]
      exact (Nat.div_eq_of_lt (by omega)).symm
    | cons x xs =>
      rw [chunksOf_cons n hn]
      have hlt : ((x :: xs).drop n).length < m := by
        rw [← hm]; simp only [List.length_drop, List.length_cons]; omega
      rw [List.length_cons, ih _ hlt _ rfl]
      simp only [List.length_drop, List.length_cons]
      by_cases h : xs.length + 1 ≤ n
      · have e1 : xs.length + 1 - n = 0 := by omega
        rw [e1]
        have : (0 + n - 1) / n = 0 := Nat.div_eq_of_lt (by omega)
        rw [this]
        have : (xs.length + 1 + n - 1) / n = 1 := by
          apply Nat.div_eq_of_lt_le <;> omega
        omega
      · have e : xs.length + 1 + n - 1 = (xs.length + 1 - n + n - 1) + n := by omega
        rw [e, Nat.add_div_right _ hn]

/-- batch(n), the clause of the statement at full strength, on the operator as the code composes it -/
theorem C10_batch {α : Type} (n : Nat) (hn : 0 < n) (xs : List α) :
    (items ((batchG n).outL xs)).flatten = xs ∧
    (∀ c ∈ items ((batchG n).outL xs), c ≠ [] ∧ c.length ≤ n) ∧
    (∀ c ∈ (items ((batchG n).outL xs)).dropLast, c.length = n) := by
  rw [C20_batch n hn xs]
  exact C20_chunks_spec n hn xs.length xs rfl

/-- the number of batches is ⌈len/n⌉: none for an empty source, no duplicate or empty final batch when the
length is a multiple of `n` -/
theorem C10_batch_count {α : Type} (n : Nat) (hn : 0 < n) (xs : List α) :
    (items ((batchG n).outL xs)).length = (xs.length + n - 1) / n := by
  rw [C20_batch n hn xs]
  exact chunksOf_length n hn xs.length xs rfl

example : items ((batchG 3).outL [1,2,3,4,5,6]) = [[1,2,3],[4,5,6]] := by decide
end Rx

import RxModel.Lemmas.Local
/-!
# C09 — scan/reduce algebra (per key lifetime; the per-key lifting is the subject of C02)

`scanOp g seed reduce term` is the per-key logic of `scan_mux` (lazy seeding on NOTSET, exception →
one `OnErrorMux` with the state unchanged, terminator/reduce at completion); `pScan` is `scan_obs`.
All statements are for every accumulator, seed, terminator and item list.
-/
namespace Rx

/-- running folds `[g seed x0, g (g seed x0) x1, …]` -/
def scanl' {α γ} (g : γ → α → γ) : γ → List α → List γ
  | _, [] => []
  | a, x :: xs => g a x :: scanl' g (g a x) xs

theorem scanl'_getLast {α γ} (g : γ → α → γ) : ∀ (xs : List α) (a : γ), xs ≠ [] →
    (scanl' g a xs).getLast? = some (xs.foldl g a) := by
  intro xs
  induction xs with
  | nil => intro a h; exact absurd rfl h
  | cons x xs ih =>
    intro a _
    cases xs with
    | nil => simp [scanl']
    | cons y ys =>
      have := ih (g a x) (by simp)
      simp only [scanl'] at this ⊢
      rw [List.getLast?_cons_cons]
      simpa using this

/-- what a raising accumulator does: one error at that item, accumulator unchanged -/
def scanE {α γ} (g : γ → α → Except Err γ) : γ → List α → List (LOut γ)
  | _, [] => []
  | a, x :: xs =>
    match g a x with
    | .ok a' => .item a' :: scanE g a' xs
    | .error e => .err e :: scanE g a xs

/-- the accumulator reached (failing items leave it unchanged) -/
def foldE {α γ} (g : γ → α → Except Err γ) : γ → List α → γ
  | a, [] => a
  | a, x :: xs => match g a x with | .ok a' => foldE g a' xs | .error _ => foldE g a xs

/-- general form: outputs while items arrive and state reached, for any accumulator -/
theorem scan_run {α γ} (g : γ → α → Except Err γ) (seed : γ) (reduce : Bool) (term : Option (γ → γ)) :
    ∀ (xs : List α) (s : Option γ),
      (runRaw (scanNext g seed reduce) (scanFin seed reduce term) s xs).1.flatten =
        (if reduce then (scanE g (s.getD seed) xs).filter (fun o => match o with | .item _ => false | _ => true)
         else scanE g (s.getD seed) xs) ∧
      (stateAfter (scanNext g seed reduce) s xs).getD seed = foldE g (s.getD seed) xs := by
  intro xs
  induction xs with
  | nil => intro s; cases reduce <;> simp [runRaw, scanE, stateAfter, foldE]
  | cons x xs ih =>
    intro s
    simp only [runRaw, stateAfter, scanE, foldE, List.flatten_cons, scanNext]
    cases hg : g (s.getD seed) x with
    | ok a =>
      have := ih (some a)
      simp only [Option.getD_some] at this
      cases reduce <;> simp [this.1, this.2]
    | error e =>
      have := ih s
      cases reduce <;> simp [this.1, this.2]

theorem scanE_ok {α γ} (g : γ → α → γ) : ∀ (xs : List α) (a : γ),
    scanE (fun a x => .ok (g a x)) a xs = (scanl' g a xs).map LOut.item ∧
    foldE (fun a x => .ok (g a x)) a xs = xs.foldl g a := by
  intro xs
  induction xs with
  | nil => intro a; simp [scanE, scanl', foldE]
  | cons x xs ih => intro a; simp [scanE, scanl', foldE, ih]

/-- **streaming**: after the i-th item of a key, the left fold of the first i items from the seed;
nothing else at completion -/
theorem C09_stream {α γ} (g : γ → α → γ) (seed : γ) (xs : List α) :
    (scanOp (fun a x => .ok (g a x)) seed false none).outL xs = (scanl' g seed xs).map LOut.item := by
  show (runRaw (scanNext (fun a x => Except.ok (g a x)) seed false) (scanFin seed false none) none xs).1.flatten ++
      (runRaw (scanNext (fun a x => Except.ok (g a x)) seed false) (scanFin seed false none) none xs).2 = _
  have h := scan_run (fun a x => .ok (g a x)) seed false none xs none
  rw [h.1, runRaw_snd]
  simp [scanFin, (scanE_ok g xs seed).1]

/-- **reduce**: nothing while items arrive, exactly one item at completion: the fold, or the seed
for a key that received no item -/
theorem C09_reduce {α γ} (g : γ → α → γ) (seed : γ) (xs : List α) :
    ((scanOp (fun a x => .ok (g a x)) seed true none).runL none xs).1.flatten = [] ∧
    ((scanOp (fun a x => .ok (g a x)) seed true none).runL none xs).2 = [LOut.item (xs.foldl g seed)] := by
  show (runRaw (scanNext (fun a x => Except.ok (g a x)) seed true) (scanFin seed true none) none xs).1.flatten = [] ∧
      (runRaw (scanNext (fun a x => Except.ok (g a x)) seed true) (scanFin seed true none) none xs).2 = _
  have h := scan_run (fun a x => .ok (g a x)) seed true none xs none
  refine ⟨?_, ?_⟩
  · rw [h.1]
    simp only [if_true, (scanE_ok g xs _).1]
    simp [List.filter_eq_nil_iff]
  · rw [runRaw_snd]
    simp only [scanFin, if_true]
    rw [h.2, (scanE_ok g xs _).2]
    simp

/-- the streaming value after the last item equals the reduce value -/
theorem C09_agree {α γ} (g : γ → α → γ) (seed : γ) (xs : List α) (h : xs ≠ []) :
    ((scanOp (fun a x => .ok (g a x)) seed false none).outL xs).getLast? =
      ((scanOp (fun a x => .ok (g a x)) seed true none).runL none xs).2.head? := by
  rw [C09_stream, (C09_reduce g seed xs).2]
  simp only [List.head?_cons, List.getLast?_map, scanl'_getLast g xs seed h, Option.map_some]

/-- **terminator**: applied exactly once, at completion, to the final fold (or to the seed);
streaming mode appends its result to the running folds, reduce mode emits only its result -/
theorem C09_term {α γ} (g : γ → α → γ) (seed : γ) (t : γ → γ) (reduce : Bool) (xs : List α) :
    (scanOp (fun a x => .ok (g a x)) seed reduce (some t)).outL xs =
      (if reduce then [] else (scanl' g seed xs).map LOut.item) ++ [LOut.item (t (xs.foldl g seed))] := by
  show (runRaw (scanNext (fun a x => Except.ok (g a x)) seed reduce) (scanFin seed reduce (some t)) none xs).1.flatten ++
      (runRaw (scanNext (fun a x => Except.ok (g a x)) seed reduce) (scanFin seed reduce (some t)) none xs).2 = _
  have h := scan_run (fun a x => .ok (g a x)) seed reduce (some t) xs none
  rw [h.1, runRaw_snd]
  simp only [scanFin, h.2, (scanE_ok g xs _).1, (scanE_ok g xs _).2, Option.getD_none]
  cases reduce <;> simp [List.filter_eq_nil_iff]

/-- **errors**: exactly one mux error for the key at the position of each failing item, and the
fold continues with the accumulator it had before (`scanE`) -/
theorem C09_error {α γ} (g : γ → α → Except Err γ) (seed : γ) (xs : List α) :
    ((scanOp g seed false none).runL none xs).1.flatten = scanE g seed xs := by
  show (runRaw (scanNext g seed false) (scanFin seed false none) none xs).1.flatten = _
  have h := scan_run g seed false none xs none
  simpa using h.1

/-- "as if the item were absent": dropping an item on which the accumulator raises changes neither
the items emitted nor the accumulator reached -/
theorem C09_error_absent {α γ} (g : γ → α → Except Err γ) : ∀ (pre : List α) (a : γ) (x : α) (post : List α) (e : Err),
    g (foldE g a pre) x = .error e →
    items (scanE g a (pre ++ x :: post)) = items (scanE g a (pre ++ post)) ∧
    foldE g a (pre ++ x :: post) = foldE g a (pre ++ post) := by
  intro pre
  induction pre with
  | nil => intro a x post e h; simp [foldE] at h; simp [scanE, foldE, h, items]
  | cons y pre ih =>
    intro a x post e h
    simp only [List.cons_append, scanE, foldE] at h ⊢
    cases hy : g a y with
    | ok a' =>
      rw [hy] at h
      have := ih a' x post e h
      simp [items, List.filterMap_cons] at this ⊢
      exact this
    | error e' =>
      rw [hy] at h
      have := ih a x post e h
      simp [items, List.filterMap_cons] at this ⊢
      exact this

/-- plain `scan_obs` computes the same folds -/
theorem C09_plain {α γ} (g : γ → α → γ) (seed : γ) (reduce : Bool) (term : Option (γ → γ)) :
    ∀ (xs : List α) (s : Option γ),
      (pScan (fun a x => .ok (g a x)) seed reduce term).runP s xs =
        (scanOp (fun a x => .ok (g a x)) seed reduce term).runL s xs := by
  intro xs
  induction xs with
  | nil => intro s; rfl
  | cons x xs ih =>
    intro s
    have hn : (pScan (fun a x => Except.ok (g a x)) seed reduce term).next s x =
        (some (g (s.getD seed) x), (if reduce then [] else [.item (g (s.getD seed) x)]), false) := rfl
    have hs : stopsP ((pScan (fun a x => Except.ok (g a x)) seed reduce term).next s x).2 = false := by
      rw [hn]; cases reduce <;> simp [stopsP]
    rw [runP_cons_go _ _ _ _ hs, hn]
    have := ih (some (g (s.getD seed) x))
    show _ = runRaw (scanNext (fun a x => Except.ok (g a x)) seed reduce) (scanFin seed reduce term) s (x :: xs)
    rw [runRaw_cons]
    simp only [scanNext]
    rw [this]
    rfl

/-! non-vacuity -/
example : (scanOp (fun (a x : Nat) => Except.ok (a + x)) 0 false none).outL [1, 2, 3] = [.item 1, .item 3, .item 6] := by decide
example : (scanOp (fun (a x : Nat) => if x = 2 then Except.error "ValueError" else .ok (a + x)) 0 false none).outL [1, 2, 3]
    = [.item 1, .err "ValueError", .item 4] := by decide

end Rx

import RxModel.Lemmas.Local
import RxModel.Heap
/-!
# C09 — scan/reduce algebra (per key lifetime; the per-key lifting is the subject of C02)

`scanOp g seed reduce term` is the per-key logic of `scan_mux` (lazy seeding on NOTSET, exception →
one `OnErrorMux` with the state unchanged, terminator/reduce at completion); `pScan` is `scan_obs`.
All statements are for every accumulator, seed, terminator and item list.
-/
namespace Rx

/-- running folds `[g seed x0, g (g seed x0) x1, …]` -/
def scanl' {α γ} (g : γ → α → γ) : γ → List α → List γ
  | _, [] => []
  | a, x :: xs => g a x :: scanl' g (g a x) xs

theorem scanl'_getLast {α γ} (g : γ → α → γ) : ∀ (xs : List α) (a : γ), xs ≠ [] →
    (scanl' g a xs).getLast? = some (xs.foldl g a) := by
  intro xs
  induction xs with
  | nil => intro a h; exact absurd rfl h
  | cons x xs ih =>
    intro a _
    cases xs with
    | nil => simp [scanl']
    | cons y ys =>
      have := ih (g a x) (by simp)
      simp only [scanl'] at this ⊢
      rw [List.getLast?_cons_cons]
      simpa using this

/-- what a raising accumulator does: one error at that item, accumulator unchanged -/
def scanE {α γ} (g : γ → α → Except Err γ) : γ → List α → List (LOut γ)
  | _, [] => []
  | a, x :: xs =>
    match g a x with
    | .ok a' => .item a' :: scanE g a' xs
    | .error e => .err e :: scanE g a xs

/-- the accumulator reached (failing items leave it unchanged) -/
def foldE {α γ} (g : γ → α → Except Err γ) : γ → List α → γ
  | a, [] => a
  | a, x :: xs => match g a x with | .ok a' => foldE g a' xs | .error _ => foldE g a xs

/-- general form: outputs while items arrive and state reached, for any accumulator -/
theorem scan_run {α γ} (g : γ → α → Except Err γ) (seed : γ) (reduce : Bool) (term : Option (γ → γ)) :
    ∀ (xs : List α) (s : Option γ),
      (runRaw (scanNext g seed reduce) (scanFin seed reduce term) s xs).1.flatten =
        (if reduce then (scanE g (s.getD seed) xs).filter (fun o => match o with | .item _ => false | _ => true)
         else scanE g (s.getD seed) xs) ∧
      (stateAfter (scanNext g seed reduce) s xs).getD seed = foldE g (s.getD seed) xs := by
  intro xs
  induction xs with
  | nil => intro s; cases reduce <;> simp [runRaw, scanE, stateAfter, foldE]
  | cons x xs ih =>
    intro s
    simp only [runRaw, stateAfter, scanE, foldE, List.flatten_cons, scanNext]
    cases hg : g (s.getD seed) x with
    | ok a =>
      have := ih (some a)
      simp only [Option.getD_some] at this
      cases reduce <;> simp [this.1, this.2]
    | error e =>
      have := ih s
      cases reduce <;> simp [this.1, this.2]

theorem scanE_ok {α γ} (g : γ → α → γ) : ∀ (xs : List α) (a : γ),
    scanE (fun a x => .ok (g a x)) a xs = (scanl' g a xs).map LOut.item ∧
    foldE (fun a x => .ok (g a x)) a xs = xs.foldl g a := by
  intro xs
  induction xs with
  | nil => intro a; simp [scanE, scanl', foldE]
  | cons x xs ih => intro a; simp [scanE, scanl', foldE, ih]

/-- **streaming**: after the i-th item of a key, the left fold of the first i items from the seed;
nothing else at completion -/
theorem C09_stream {α γ} (g : γ → α → γ) (seed : γ) (xs : List α) :
    (scanOp (fun a x => .ok (g a x)) seed false none).outL xs = (scanl' g seed xs).map LOut.item := by
  show (runRaw (scanNext (fun a x => Except.ok (g a x)) seed false) (scanFin seed false none) none xs).1.flatten ++
      (runRaw (scanNext (fun a x => Except.ok (g a x)) seed false) (scanFin seed false none) none xs).2 = _
  have h := scan_run (fun a x => .ok (g a x)) seed false none xs none
  rw [h.1, runRaw_snd]
  simp [scanFin, (scanE_ok g xs seed).1]

/-- **reduce**: nothing while items arrive, exactly one item at completion: the fold, or the seed
for a key that received no item -/
theorem C09_reduce {α γ} (g : γ → α → γ) (seed : γ) (xs : List α) :
    ((scanOp (fun a x => .ok (g a x)) seed true none).runL none xs).1.flatten = [] ∧
    ((scanOp (fun a x => .ok (g a x)) seed true none).runL none xs).2 = [LOut.item (xs.foldl g seed)] := by
  show (runRaw (scanNext (fun a x => Except.ok (g a x)) seed true) (scanFin seed true none) none xs).1.flatten = [] ∧
      (runRaw (scanNext (fun a x => Except.ok (g a x)) seed true) (scanFin seed true none) none xs).2 = _
  have h := scan_run (fun a x => .ok (g a x)) seed true none xs none
  refine ⟨?_, ?_⟩
  · rw [h.1]
    simp only [if_true, (scanE_ok g xs _).1]
    simp [List.filter_eq_nil_iff]
  · rw [runRaw_snd]
    simp only [scanFin, if_true]
    rw [h.2, (scanE_ok g xs _).2]
    simp

/-- the streaming value after the last item equals the reduce value -/
theorem C09_agree {α γ} (g : γ → α → γ) (seed : γ) (xs : List α) (h : xs ≠ []) :
    ((scanOp (fun a x => .ok (g a x)) seed false none).outL xs).getLast? =
      ((scanOp (fun a x => .ok (g a x)) seed true none).runL none xs).2.head? := by
  rw [C09_stream, (C09_reduce g seed xs).2]
  simp only [List.head?_cons, List.getLast?_map, scanl'_getLast g xs seed h, Option.map_some]

/-- **terminator**: applied exactly once, at completion, to the final fold (or to the seed);
streaming mode appends its result to the running folds, reduce mode emits only its result -/
theorem C09_term {α γ} (g : γ → α → γ) (seed : γ) (t : γ → γ) (reduce : Bool) (xs : List α) :
    (scanOp (fun a x => .ok (g a x)) seed reduce (some t)).outL xs =
      (if reduce then [] else (scanl' g seed xs).map LOut.item) ++ [LOut.item (t (xs.foldl g seed))] := by
  show (runRaw (scanNext (fun a x => Except.ok (g a x)) seed reduce) (scanFin seed reduce (some t)) none xs).1.flatten ++
      (runRaw (scanNext (fun a x => Except.ok (g a x)) seed reduce) (scanFin seed reduce (some t)) none xs).2 = _
  have h := scan_run (fun a x => .ok (g a x)) seed reduce (some t) xs none
  rw [h.1, runRaw_snd]
  simp only [scanFin, h.2, (scanE_ok g xs _).1, (scanE_ok g xs _).2, Option.getD_none]
  cases reduce <;> simp [List.filter_eq_nil_iff]

/-- **errors**: exactly one mux error for the key at the position of each failing item, and the
fold continues with the accumulator it had before (`scanE`) -/
theorem C09_error {α γ} (g : γ → α → Except Err γ) (seed : γ) (xs : List α) :
    ((scanOp g seed false none).runL none xs).1.flatten = scanE g seed xs := by
  show (runRaw (scanNext g seed false) (scanFin seed false none) none xs).1.flatten = _
  have h := scan_run g seed false none xs none
  simpa using h.1

/-- "as if the item were absent": dropping an item on which the accumulator raises changes neither
the items emitted nor the accumulator reached -/
theorem C09_error_absent {α γ} (g : γ → α → Except Err γ) : ∀ (pre : List α) (a : γ) (x : α) (post : List α) (e : Err),
    g (foldE g a pre) x = .error e →
    items (scanE g a (pre ++ x :: post)) = items (scanE g a (pre ++ post)) ∧
    foldE g a (pre ++ x :: post) = foldE g a (pre ++ post) := by
  intro pre
  induction pre with
  | nil => intro a x post e h; simp [foldE] at h; simp [scanE, foldE, h, items]
  | cons y pre ih =>
    intro a x post e h
    simp only [List.cons_append, scanE, foldE] at h ⊢
    cases hy : g a y with
    | ok a' =>
      rw [hy] at h
      have := ih a' x post e h
      simp [items, List.filterMap_cons] at this ⊢
      exact this
    | error e' =>
      rw [hy] at h
      have := ih a x post e h
      simp [items, List.filterMap_cons] at this ⊢
      exact this

/-- plain `scan_obs` computes the same folds -/
theorem C09_plain {α γ} (g : γ → α → γ) (seed : γ) (reduce : Bool) (term : Option (γ → γ)) :
    ∀ (xs : List α) (s : Option γ),
      (pScan (fun a x => .ok (g a x)) seed reduce term).runP s xs =
        (scanOp (fun a x => .ok (g a x)) seed reduce term).runL s xs := by
  intro xs
  induction xs with
  | nil => intro s; rfl
  | cons x xs ih =>
    intro s
    have hn : (pScan (fun a x => Except.ok (g a x)) seed reduce term).next s x =
        (some (g (s.getD seed) x), (if reduce then [] else [.item (g (s.getD seed) x)]), false) := rfl
    have hs : stopsP ((pScan (fun a x => Except.ok (g a x)) seed reduce term).next s x).2 = false := by
      rw [hn]; cases reduce <;> simp [stopsP]
    rw [runP_cons_go _ _ _ _ hs, hn]
    have := ih (some (g (s.getD seed) x))
    show _ = runRaw (scanNext (fun a x => Except.ok (g a x)) seed reduce) (scanFin seed reduce term) s (x :: xs)
    rw [runRaw_cons]
    simp only [scanNext]
    rw [this]
    rfl

/-! non-vacuity -/
example : (scanOp (fun (a x : Nat) => Except.ok (a + x)) 0 false none).outL [1, 2, 3] = [.item 1, .item 3, .item 6] := by decide
example : (scanOp (fun (a x : Nat) => if x = 2 then Except.error "ValueError" else .ok (a + x)) 0 false none).outL [1, 2, 3]
    = [.item 1, .err "ValueError", .item 4] := by decide

/-! ## the seed is never shared: reference semantics with a fresh copy = value semantics -/

/-- the accumulator of the heap model as a pure function on values -/
def appendAcc {α} (acc : List α) (x : α) : Except Err (List α) := .ok (acc ++ [x])

/-- one key: no key / NOTSET on both sides, or a reference (never the seed object at address 0)
to an object that holds exactly the value -/
def PtRel {α} (h : List (List α)) : Option (Option Nat) → Option (Option (List α)) → Prop
  | none, none => True
  | some none, some none => True
  | some (some a), some (some v) => 0 < a ∧ a < h.length ∧ h.getD a [] = v
  | _, _ => False

/-- heap state vs keyed value state: key by key `PtRel`, the seed object is intact, and no two keys
hold the same reference -/
structure HRel {α} (seed : List α) (st : HeapSt α) (rs : Key → Option (Option (List α))) : Prop where
  pos : 0 < st.heap.length
  seed0 : st.heap.getD 0 [] = seed
  pt : ∀ k, PtRel st.heap (st.slot k) (rs k)
  inj : ∀ k k' a, st.slot k = some (some a) → st.slot k' = some (some a) → k = k'

theorem getD_set_self {α} (h : List (List α)) (a : Nat) (v : List α) (ha : a < h.length) : (h.set a v).getD a [] = v := by
  simp [List.getD_eq_getElem?_getD, ha]

theorem getD_set_ne {α} (h : List (List α)) (a b : Nat) (v : List α) (hab : a ≠ b) : (h.set a v).getD b [] = h.getD b [] := by
  simp [List.getD_eq_getElem?_getD, List.getElem?_set_ne hab]

theorem getD_append_left {α} (h : List (List α)) (v : List α) (b : Nat) (hb : b < h.length) : (h ++ [v]).getD b [] = h.getD b [] := by
  simp [List.getD_eq_getElem?_getD, List.getElem?_append_left hb]

/-- the relation of a key survives a heap change that keeps the object it refers to -/
theorem ptRel_transfer {α} (h h' : List (List α)) (s : Option (Option Nat)) (r : Option (Option (List α)))
    (hlen : h.length ≤ h'.length) (hsame : ∀ a, s = some (some a) → a < h.length → h'.getD a [] = h.getD a [])
    (hp : PtRel h s r) : PtRel h' s r := by
  cases s with
  | none => cases r <;> simpa [PtRel] using hp
  | some sa =>
    cases sa with
    | none => cases r with
      | none => simpa [PtRel] using hp
      | some v => cases v <;> simpa [PtRel] using hp
    | some a => cases r with
      | none => simpa [PtRel] using hp
      | some v => cases v with
        | none => simpa [PtRel] using hp
        | some w =>
          simp only [PtRel] at hp ⊢
          have h2 := hp.2.1
          exact ⟨hp.1, by omega, by rw [hsame a rfl hp.2.1]; exact hp.2.2⟩

theorem inj_upd_fresh (slot : Key → Option (Option Nat)) (k : Key) (v : Option (Option Nat))
    (hinj : ∀ k k' a, slot k = some (some a) → slot k' = some (some a) → k = k')
    (hfresh : ∀ a, v = some (some a) → ∀ k', k' ≠ k → slot k' ≠ some (some a)) :
    ∀ k1 k2 a, upd slot k v k1 = some (some a) → upd slot k v k2 = some (some a) → k1 = k2 := by
  intro k1 k2 a h1 h2
  by_cases hk1 : k1 = k
  · by_cases hk2 : k2 = k
    · rw [hk1, hk2]
    · subst hk1
      simp only [upd, if_true, hk2, if_false] at h1 h2
      exact absurd h2 (hfresh a h1 k2 hk2)
  · by_cases hk2 : k2 = k
    · subst hk2
      simp only [upd, if_true, hk1, if_false] at h1 h2
      exact absurd h1 (hfresh a h2 k1 hk1)
    · simp only [upd, hk1, hk2, if_false] at h1 h2
      exact hinj k1 k2 a h1 h2

/-- **seed isolation.**  With `copy.deepcopy(seed)` / `seed()` per key lifetime, `scan` over
mutable accumulator objects (in-place `append`) emits, on EVERY event trace — any keys, any
interleaving, keys completed and created again — exactly what the value semantics emits
(`scanOp` with the pure accumulator `acc ++ [x]`): mutating the accumulator of one key never
changes what another key, a later lifetime, or the seed holds. -/
theorem C09_seed_isolation {α} (seed : List α) :
    ∀ (t : List (Ev α)) (st : HeapSt α) (rs : Key → Option (Option (List α))), HRel seed st rs →
      runSteps (heapStep true 0) st t = runSteps (refStep (scanOp appendAcc seed false none)) rs t := by
  intro t
  induction t with
  | nil => intros; rfl
  | cons e t ih =>
    intro st rs hrel
    obtain ⟨hpos, hseed, hpt, hinj⟩ := hrel
    cases e with
    | fatal x =>
      simp only [runSteps, heapStep, refStep]
      rw [ih st rs ⟨hpos, hseed, hpt, hinj⟩]
    | create k =>
      simp only [runSteps, heapStep, refStep]
      congr 1
      apply ih
      refine ⟨hpos, hseed, ?_, inj_upd_fresh st.slot k (some none) hinj (fun a h => by simp at h)⟩
      intro k'
      by_cases hk : k' = k
      · subst hk; simp [upd, scanOp, PtRel]
      · have := hpt k'; simpa [upd, hk] using this
    | err k x =>
      have hk := hpt k
      cases hs : st.slot k with
      | none =>
        cases hr : rs k with
        | none =>
          simp only [runSteps, heapStep, refStep, hs, hr]
          rw [ih st rs ⟨hpos, hseed, hpt, hinj⟩]
        | some v => simp [hs, hr, PtRel] at hk
      | some sa =>
        cases hr : rs k with
        | none => cases sa <;> simp [hs, hr, PtRel] at hk
        | some v =>
          simp only [runSteps, heapStep, refStep, hs, hr, scanOp, List.map_cons, List.map_nil, liftOut]
          congr 1
          apply ih
          refine ⟨hpos, hseed, ?_, hinj⟩
          intro k'
          by_cases hk' : k' = k
          · subst hk'; have := hpt k'; simpa [upd, hr] using this
          · have := hpt k'; simpa [upd, hk'] using this
    | done k =>
      have hk := hpt k
      cases hs : st.slot k with
      | none =>
        cases hr : rs k with
        | none =>
          simp only [runSteps, heapStep, refStep, hs, hr]
          rw [ih st rs ⟨hpos, hseed, hpt, hinj⟩]
        | some v => simp [hs, hr, PtRel] at hk
      | some sa =>
        cases hr : rs k with
        | none => cases sa <;> simp [hs, hr, PtRel] at hk
        | some v =>
          simp only [runSteps, heapStep, refStep, hs, hr, scanOp, scanFin, List.map_nil, List.nil_append]
          congr 1
          apply ih
          refine ⟨hpos, hseed, ?_, inj_upd_fresh st.slot k none hinj (fun a h => by simp at h)⟩
          intro k'
          by_cases hk' : k' = k
          · subst hk'; simp [upd, PtRel]
          · have := hpt k'; simpa [upd, hk'] using this
    | next k x =>
      have hk := hpt k
      cases hs : st.slot k with
      | none =>
        cases hr : rs k with
        | none =>
          simp only [runSteps, heapStep, refStep, hs, hr]
          rw [ih st rs ⟨hpos, hseed, hpt, hinj⟩]
        | some v => simp [hs, hr, PtRel] at hk
      | some sa =>
        cases sa with
        | none =>
          -- first item of the lifetime: a fresh copy of the seed
          cases hr : rs k with
          | none => simp [hs, hr, PtRel] at hk
          | some v =>
            cases v with
            | some v' => simp [hs, hr, PtRel] at hk
            | none =>
              have hlen' : (appendAt (st.heap ++ [st.heap.getD 0 []]) st.heap.length x).length = st.heap.length + 1 := by
                unfold appendAt; simp
              have hnew : (appendAt (st.heap ++ [st.heap.getD 0 []]) st.heap.length x).getD st.heap.length [] = seed ++ [x] := by
                unfold appendAt
                rw [getD_set_self _ _ _ (by simp)]
                have : (st.heap ++ [st.heap.getD 0 []]).getD st.heap.length [] = st.heap.getD 0 [] := by
                  simp [List.getD_eq_getElem?_getD]
                rw [this, hseed]
              have hold : ∀ b, b < st.heap.length →
                  (appendAt (st.heap ++ [st.heap.getD 0 []]) st.heap.length x).getD b [] = st.heap.getD b [] := by
                intro b hb
                unfold appendAt
                rw [getD_set_ne _ _ _ _ (by omega), getD_append_left _ _ _ hb]
              simp only [runSteps, heapStep, refStep, hs, hr, takeSeed, if_true, scanOp, scanNext, appendAcc,
                Option.getD_none, Bool.false_eq_true, if_false, List.map_cons, List.map_nil, liftOut, hnew]
              congr 1
              apply ih
              refine ⟨by show 0 < (appendAt _ _ _).length; rw [hlen']; omega, by show (appendAt _ _ _).getD 0 [] = seed; rw [hold 0 hpos]; exact hseed, ?_, ?_⟩
              · intro k'
                by_cases hk' : k' = k
                · subst hk'
                  simp only [upd, if_true, PtRel]
                  exact ⟨hpos, by have := hlen'; omega, hnew⟩
                · simp only [upd, hk', if_false]
                  exact ptRel_transfer st.heap _ _ _ (by have := hlen'; omega) (fun a _ ha => hold a ha) (hpt k')
              · apply inj_upd_fresh st.slot k _ hinj
                intro a ha k' hk' hs'
                simp only [Option.some.injEq] at ha
                subst ha
                have := hpt k'
                rw [hs'] at this
                cases hr' : rs k' with
                | none => simp [hr', PtRel] at this
                | some v2 => cases v2 <;> simp [hr', PtRel] at this
        | some a =>
          cases hr : rs k with
          | none => simp [hs, hr, PtRel] at hk
          | some v =>
            cases v with
            | none => simp [hs, hr, PtRel] at hk
            | some w =>
              simp only [hs, hr, PtRel] at hk
              obtain ⟨a1, a2, a3⟩ := hk
              have hlen' : (appendAt st.heap a x).length = st.heap.length := by unfold appendAt; simp
              have hnew : (appendAt st.heap a x).getD a [] = w ++ [x] := by
                unfold appendAt; rw [getD_set_self _ _ _ a2, a3]
              have hold : ∀ b, b ≠ a → (appendAt st.heap a x).getD b [] = st.heap.getD b [] := by
                intro b hb
                unfold appendAt
                rw [getD_set_ne _ _ _ _ (fun h => hb h.symm)]
              simp only [runSteps, heapStep, refStep, hs, hr, scanOp, scanNext, appendAcc, Option.getD_some,
                Bool.false_eq_true, if_false, List.map_cons, List.map_nil, liftOut, hnew]
              congr 1
              apply ih
              refine ⟨by show 0 < (appendAt _ _ _).length; rw [hlen']; exact hpos, by show (appendAt _ _ _).getD 0 [] = seed; rw [hold 0 (by omega)]; exact hseed, ?_, hinj⟩
              intro k'
              by_cases hk' : k' = k
              · subst hk'
                simp only [hs, upd, if_true, PtRel]
                exact ⟨a1, by have := hlen'; omega, hnew⟩
              · simp only [upd, hk', if_false]
                refine ptRel_transfer st.heap _ _ _ (by have := hlen'; omega) ?_ (hpt k')
                intro a' ha' _
                exact hold a' (fun h => hk' (hinj k' k a (by rw [ha', h]) hs))

/-- from subscription: the heap holds the seed object only -/
theorem C09_seed_isolation_run {α} (seed : List α) (t : List (Ev α)) :
    runSteps (heapStep true 0) (heapInit seed) t = (refLift (scanOp appendAcc seed false none)).run t :=
  C09_seed_isolation seed t (heapInit seed) (fun _ => none)
    ⟨by simp [heapInit], by simp [heapInit], fun _ => by simp [heapInit, PtRel], fun _ _ _ h => by simp [heapInit] at h⟩

/-- and the defect "hand the seed object itself to the accumulator" breaks it: the second key sees
the first key's item -/
example : runSteps (heapStep false 0) (heapInit ([] : List Nat)) [.create [0], .create [1], .next [0] 7, .next [1] 8] ≠
    (refLift (scanOp appendAcc ([] : List Nat) false none)).run [.create [0], .create [1], .next [0] 7, .next [1] 8] := by
  decide

end Rx

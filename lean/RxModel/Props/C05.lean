import RxModel.Lemmas.Roll
import RxModel.Lemmas.RollFlush
/-!
# C05 — roll produces exactly the count-based sliding windows, in order

Statements are about `rollRingLS w s`, the splitter of ONE parent key lifetime written as the code's
`_roll.on_next` (item counter, ring of `density = ⌈w/s⌉` slots, per-item loop over the slots); the
observer `LSplit.windows` collects, in completion order, what each window received.
No bound on `w`, `s` or the stream length.
-/
namespace Rx

/-- **Full windows, any prefix.**  After any item sequence `xs` the windows completed so far are
exactly windows `0 .. c-1`, in opening order, window `j` holding the `w` consecutive items
`xs[j*s ..< j*s+w]` and nothing else, where `c` counts the `j` with `j*s + w ≤ |xs|`.
(Applied to a prefix this is promptness: a window is completed by its `w`-th item.) -/
theorem C05_full_windows {α} (w s : Nat) (hs : 0 < s) (hw : 0 < w) (xs : List α) :
    ∃ c, (∀ j, j < c ↔ j * s + w ≤ xs.length) ∧
      ((rollRingLS w s).windows xs).1 = (List.range c).map (window w s xs) := by
  obtain ⟨c, h⟩ := runObs_inv w s hs hw xs [] (0, fun _ => none) Obs.empty 0
    (by simpa [Obs.empty] using inv_init (α := α) w s (density w s) hw)
  simp only [List.nil_append] at h
  exact ⟨c, h.cnt, h.closed⟩

/-- **Ring invariant** (what makes the above true): after `xs`, ring slot `o` holds `n0` iff
`n0 = j*s` for a window `j` with `j % density = o` that is open (`j*s < |xs| < j*s + w`), and the
items that window has received are `xs.drop n0`; slots never hold two windows. -/
theorem C05_ring_invariant {α} (w s : Nat) (hs : 0 < s) (hw : 0 < w) (xs : List α) :
    let r := (rollRingLS w s).runObs ((0, fun _ => none), Obs.empty) xs
    r.1.1 = xs.length ∧
    (∀ o, o < density w s → ∀ n0, r.1.2 o = some n0 ↔
        ∃ j, n0 = j * s ∧ j % density w s = o ∧ (j * s < xs.length ∧ xs.length < j * s + w)) ∧
    (∀ o, r.2.opn o = (r.1.2 o).map (fun n0 => xs.drop n0)) := by
  obtain ⟨c, h⟩ := runObs_inv w s hs hw xs [] (0, fun _ => none) Obs.empty 0
    (by simpa [Obs.empty] using inv_init (α := α) w s (density w s) hw)
  simp only [List.nil_append] at h
  exact ⟨h.hn, fun o ho n0 => by simpa [openAt] using h.slots o ho n0, h.opn⟩

/-- `⌈w/s⌉` ring slots suffice, and two windows that are open at the same time never share a slot -/
theorem C05_slots_suffice (w s : Nat) (hs : 0 < s) (j1 j2 n : Nat)
    (h1 : j1 * s ≤ n ∧ n < j1 * s + w) (h2 : j2 * s ≤ n ∧ n < j2 * s + w)
    (hm : j1 % density w s = j2 % density w s) : j1 = j2 :=
  recv_unique w s (density w s) j1 j2 n (density_mul w s hs) h1 h2 hm

/-- **Partial windows at completion, in opening order.**  When the key completes after `xs`, the
windows still open are `c ≤ j < ⌈|xs|/s⌉` (`c` = number of full windows); they are closed in
increasing `j` — the order in which they were opened — and window `j` holds `xs.drop (j*s)`,
the items it has received so far and nothing else. -/
theorem C05_partial_windows {α} (w s : Nat) (hs : 0 < s) (hw : 0 < w) (xs : List α) :
    ∃ c, (∀ j, j < c ↔ j * s + w ≤ xs.length) ∧ c ≤ (xs.length + s - 1) / s ∧
      ((rollRingLS w s).windows xs).2 =
        (List.range' c ((xs.length + s - 1) / s - c)).map (fun j => xs.drop (j * s)) := by
  obtain ⟨c, h⟩ := runObs_inv w s hs hw xs [] (0, fun _ => none) Obs.empty 0
    (by simpa [Obs.empty] using inv_init (α := α) w s (density w s) hw)
  simp only [List.nil_append] at h
  have hf := ring_flush w s (density w s) hs hw (density_pos w s hs hw) (density_mul w s hs) xs _ _ c h
  obtain ⟨f1, _, f3⟩ := hf
  refine ⟨c, h.cnt, f1, ?_⟩
  have hn := h.hn
  have hgoal : (obsRun ⟨((rollRingLS (α := α) w s).runObs ((0, fun _ => none), Obs.empty) xs).2.opn, []⟩
      (lsFlush (density w s) ((((rollRingLS (α := α) w s).runObs ((0, fun _ => none), Obs.empty) xs).1.1 + s - 1) / s % density w s)
        ((rollRingLS (α := α) w s).runObs ((0, fun _ => none), Obs.empty) xs).1.2)).closed =
      (List.range' c ((xs.length + s - 1) / s - c)).map (fun j => xs.drop (j * s)) := by
    rw [hn]; exact f3
  exact hgoal

/-- **window = stride** (`_roll_count`, the tumbling implementation): the windows are the
consecutive chunks of `w` items; the last, shorter chunk is closed when the key completes -/
theorem C05_tumbling {α} (w : Nat) (hw : 0 < w) (xs : List α) :
    (rollCountLS w).windows xs =
      ((List.range (xs.length / w)).map (window w w xs),
       if xs.length % w = 0 then [] else [xs.drop (xs.length / w * w)]) :=
  tumbling_windows w hw xs

/-! non-vacuity / sanity -/
example : ((rollRingLS 3 1).windows [0, 1, 2, 3]) = ([[0, 1, 2], [1, 2, 3]], [[2, 3], [3]]) := by decide
example : ((rollRingLS 3 2).windows [1, 2, 3, 4, 5]) = ([[1, 2, 3], [3, 4, 5]], [[5]]) := by decide
example : ((rollCountLS 2).windows [1, 2, 3, 4, 5]) = ([[1, 2], [3, 4]], [[5]]) := by decide

end Rx

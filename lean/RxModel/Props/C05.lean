import RxModel.Lemmas.Roll
/-!
# C05 — roll produces exactly the count-based sliding windows, in order

Statements are about `rollRingLS w s`, the splitter of ONE parent key lifetime written as the code's
`_roll.on_next` (item counter, ring of `density = ⌈w/s⌉` slots, per-item loop over the slots); the
observer `LSplit.windows` collects, in completion order, what each window received.
No bound on `w`, `s` or the stream length.
-/
namespace Rx

/-- **Full windows, any prefix.**  After any item sequence `xs` the windows completed so far are
exactly windows `0 .. c-1`, in opening order, window `j` holding the `w` consecutive items
`xs[j*s ..< j*s+w]` and nothing else, where `c` counts the `j` with `j*s + w ≤ |xs|`.
(Applied to a prefix this is promptness: a window is completed by its `w`-th item.) -/
theorem C05_full_windows {α} (w s : Nat) (hs : 0 < s) (hw : 0 < w) (xs : List α) :
    ∃ c, (∀ j, j < c ↔ j * s + w ≤ xs.length) ∧
      ((rollRingLS w s).windows xs).1 = (List.range c).map (window w s xs) := by
  obtain ⟨c, h⟩ := runObs_inv w s hs hw xs [] (0, fun _ => none) Obs.empty 0
    (by simpa [Obs.empty] using inv_init (α := α) w s (density w s) hw)
  simp only [List.nil_append] at h
  exact ⟨c, h.cnt, h.closed⟩

/-- **Ring invariant** (what makes the above true): after `xs`, ring slot `o` holds `n0` iff
`n0 = j*s` for a window `j` with `j % density = o` that is open (`j*s < |xs| < j*s + w`), and the
items that window has received are `xs.drop n0`; slots never hold two windows. -/
theorem C05_ring_invariant {α} (w s : Nat) (hs : 0 < s) (hw : 0 < w) (xs : List α) :
    let r := (rollRingLS w s).runObs ((0, fun _ => none), Obs.empty) xs
    r.1.1 = xs.length ∧
    (∀ o, o < density w s → ∀ n0, r.1.2 o = some n0 ↔
        ∃ j, n0 = j * s ∧ j % density w s = o ∧ (j * s < xs.length ∧ xs.length < j * s + w)) ∧
    (∀ o, r.2.opn o = (r.1.2 o).map (fun n0 => xs.drop n0)) := by
  obtain ⟨c, h⟩ := runObs_inv w s hs hw xs [] (0, fun _ => none) Obs.empty 0
    (by simpa [Obs.empty] using inv_init (α := α) w s (density w s) hw)
  simp only [List.nil_append] at h
  exact ⟨h.hn, fun o ho n0 => by simpa [openAt] using h.slots o ho n0, h.opn⟩

/-- `⌈w/s⌉` ring slots suffice, and two windows that are open at the same time never share a slot -/
theorem C05_slots_suffice (w s : Nat) (hs : 0 < s) (j1 j2 n : Nat)
    (h1 : j1 * s ≤ n ∧ n < j1 * s + w) (h2 : j2 * s ≤ n ∧ n < j2 * s + w)
    (hm : j1 % density w s = j2 % density w s) : j1 = j2 :=
  recv_unique w s (density w s) j1 j2 n (density_mul w s hs) h1 h2 hm

/-! non-vacuity / sanity -/
example : ((rollRingLS 3 1).windows [0, 1, 2, 3]) = ([[0, 1, 2], [1, 2, 3]], [[2, 3], [3]]) := by decide
example : ((rollRingLS 3 2).windows [1, 2, 3, 4, 5]) = ([[1, 2, 3], [3, 4, 5]], [[5]]) := by decide

end Rx

import RxGen.Handlers
import RxModel.Lemmas.HandlerSim
/-!
# C13 link theorems: the `on_next` handlers of `map_mux`, `filter_mux`, `error.ignore`, `error.map`, generated from the
source, emit exactly what the model's `mapOp f`, `filterOp p truthy`, `ignoreOp`, `mapErrOp f` emit through `idxStep`
(one `OnErrorMux` for the key when the user function raises; the error dropped / replaced in place by the handlers)
-/
namespace Rx

open HM

/-- `map_mux` keeps no state: whatever the store, it emits what `idxStep (mapOp f)` emits (one `OnErrorMux` for the key when the
mapper raises, nothing else), provided the key of an item is live -/
theorem LinkH_map (f : Val → Except Err Val) (st : Nat → Option Unit) (stores : Nat → Nat → Slot Val) (ev : Ev Val)
    (hlive : ∀ k v, ev = .next k v → st k.idx ≠ none) :
    runH (Gen.map_mux_on_next f ev) stores = (.ok (), stores, (idxStep (mapOp f) st ev).2) := by
  cases ev with
  | create k => hm_simp [Gen.map_mux_on_next, idxStep, mapOp]
  | next k v =>
    cases h : st k.idx with
    | none => exact absurd h (hlive k v rfl)
    | some u => cases hf : f v <;> hm_simp [Gen.map_mux_on_next, idxStep, mapOp, h, hf, liftOut]
  | done k => cases h : st k.idx <;> hm_simp [Gen.map_mux_on_next, idxStep, mapOp, h, liftOut]
  | err k e => cases h : st k.idx <;> hm_simp [Gen.map_mux_on_next, idxStep, mapOp, h, liftOut]
  | fatal e => hm_simp [Gen.map_mux_on_next, idxStep]

theorem LinkH_filter (p : Val → Except Err Val) (st : Nat → Option Unit) (stores : Nat → Nat → Slot Val) (ev : Ev Val)
    (hlive : ∀ k v, ev = .next k v → st k.idx ≠ none) :
    runH (Gen.filter_mux_on_next p ev) stores = (.ok (), stores, (idxStep (filterOp p Val.truthy) st ev).2) := by
  cases ev with
  | create k => hm_simp [Gen.filter_mux_on_next, idxStep, filterOp]
  | next k v =>
    cases h : st k.idx with
    | none => exact absurd h (hlive k v rfl)
    | some u =>
      cases hf : p v with
      | error e => hm_simp [Gen.filter_mux_on_next, idxStep, filterOp, h, hf, liftOut]
      | ok r => cases ht : Val.truthy r <;> hm_simp [Gen.filter_mux_on_next, idxStep, filterOp, h, hf, liftOut, PyAlg.truthy, ht]
  | done k => cases h : st k.idx <;> hm_simp [Gen.filter_mux_on_next, idxStep, filterOp, h, liftOut]
  | err k e => cases h : st k.idx <;> hm_simp [Gen.filter_mux_on_next, idxStep, filterOp, h, liftOut]
  | fatal e => hm_simp [Gen.filter_mux_on_next, idxStep]

/-- `error.ignore`: a mux error of a live key is dropped, everything else is forwarded -/
theorem LinkH_error_ignore (st : Nat → Option Unit) (stores : Nat → Nat → Slot Val) (ev : Ev Val)
    (hlive : ∀ k, ((∃ v, ev = .next k v) ∨ (∃ e, ev = .err k e)) → st k.idx ≠ none) :
    runH (Gen.error_ignore_on_next ev) stores = (.ok (), stores, (idxStep (ignoreOp (α := Val)) st ev).2) := by
  cases ev with
  | create k => hm_simp [Gen.error_ignore_on_next, idxStep, ignoreOp]
  | next k v =>
    cases h : st k.idx with
    | none => exact absurd h (hlive k (Or.inl ⟨v, rfl⟩))
    | some u => hm_simp [Gen.error_ignore_on_next, idxStep, ignoreOp, h, liftOut]
  | done k => cases h : st k.idx <;> hm_simp [Gen.error_ignore_on_next, idxStep, ignoreOp, h, liftOut]
  | err k e =>
    cases h : st k.idx with
    | none => exact absurd h (hlive k (Or.inr ⟨e, rfl⟩))
    | some u => hm_simp [Gen.error_ignore_on_next, idxStep, ignoreOp, h, liftOut]
  | fatal e => hm_simp [Gen.error_ignore_on_next, idxStep]

/-- `error.map`: a mux error of a live key becomes an item of that key in place; a raising mapper is `observer.on_error` -/
theorem LinkH_error_map (f : Err → Except Err Val) (st : Nat → Option Unit) (stores : Nat → Nat → Slot Val) (ev : Ev Val)
    (hlive : ∀ k, ((∃ v, ev = .next k v) ∨ (∃ e, ev = .err k e)) → st k.idx ≠ none) :
    runH (Gen.error_map_on_next f ev) stores = (.ok (), stores, (idxStep (mapErrOp f) st ev).2) := by
  cases ev with
  | create k => hm_simp [Gen.error_map_on_next, idxStep, mapErrOp]
  | next k v =>
    cases h : st k.idx with
    | none => exact absurd h (hlive k (Or.inl ⟨v, rfl⟩))
    | some u => hm_simp [Gen.error_map_on_next, idxStep, mapErrOp, h, liftOut]
  | done k => cases h : st k.idx <;> hm_simp [Gen.error_map_on_next, idxStep, mapErrOp, h, liftOut]
  | err k e =>
    cases h : st k.idx with
    | none => exact absurd h (hlive k (Or.inr ⟨e, rfl⟩))
    | some u => cases hf : f e <;> hm_simp [Gen.error_map_on_next, idxStep, mapErrOp, h, hf, liftOut]
  | fatal e => hm_simp [Gen.error_map_on_next, idxStep]


/-- **the error router** (`create_error_router()`'s operator, `on_next` generated from rxsci/error/router.py): while the errors
observable is subscribed, a mux error leaves the main stream — which then carries exactly what `error.ignore` lets through
(`idxStep ignoreOp`) — and its error is handed to the dead-letter observer, in order; every other event is forwarded untouched and
nothing else reaches the dead-letter observer. While nobody is subscribed to the errors observable the operator is the identity. -/
theorem LinkH_error_router (st : Nat → Option Unit) (s : HSt Val) (ev : Ev Val)
    (hlive : ∀ k, ((∃ v, ev = .next k v) ∨ (∃ e, ev = .err k e)) → st k.idx ≠ none) :
    runS (Gen.error_router_on_next true ev) s
        = (.ok (), { s with out := s.out ++ (idxStep (ignoreOp (α := Val)) st ev).2,
                            outer := s.outer ++ (match ev with | .err k e => [Ev.err k e] | _ => []) })
    ∧ runS (Gen.error_router_on_next false ev) s = (.ok (), { s with out := s.out ++ [ev] }) := by
  cases ev with
  | create k => constructor <;> simp [Gen.error_router_on_next, idxStep, ignoreOp, runS_emit]
  | next k v =>
    cases h : st k.idx with
    | none => exact absurd h (hlive k (Or.inl ⟨v, rfl⟩))
    | some u => constructor <;> simp [Gen.error_router_on_next, idxStep, ignoreOp, h, liftOut, runS_emit]
  | done k => cases h : st k.idx <;> constructor <;> simp [Gen.error_router_on_next, idxStep, ignoreOp, h, liftOut, runS_emit]
  | err k e =>
    cases h : st k.idx with
    | none => exact absurd h (hlive k (Or.inr ⟨e, rfl⟩))
    | some u =>
      constructor
      · simp [Gen.error_router_on_next, idxStep, ignoreOp, h, liftOut, runS, HM.emitOuter]
        rfl
      · simp [Gen.error_router_on_next, runS_emit]
  | fatal e => constructor <;> simp [Gen.error_router_on_next, idxStep, runS_emit]

end Rx

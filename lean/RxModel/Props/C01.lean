import RxModel.Lemmas.Impl
import RxModel.Props.C02
import RxModel.Props.C09
/-!
# C01 — multiplexing is transparent: keyed execution equals per-group plain execution

Mux side: by `impl_eq_ref` and `C02_lifetime`, what a supported pipeline `P` emits for one key
lifetime with items `xs`, on any well-formed trace, is `P.loc.outL xs`.
Plain side: `PlainOp.out` (RxPY built-ins and rxsci's own plain operators, modelled).
`PlainAgrees Pl L`: whenever the plain run does not raise, both deliver the same items in the same
order.  It is proved for every dual-mode primitive; pipelines compose them.
-/
namespace Rx

def noFatal {β} (l : List (LOut β)) : Bool := l.all (fun o => match o with | .fatal _ => false | _ => true)

/-- plain and keyed execution of one operator deliver the same items (when plain does not raise) -/
def PlainAgrees {α β} (Pl : PlainOp α β) (L : LocalOp α β) : Prop :=
  ∀ xs : List α, noFatal (Pl.out xs) = true → items (Pl.out xs) = items (L.outL xs)

/-- **mux side**: the events a supported pipeline emits for a single lifetime of key `k`, wherever
that lifetime sits in a well-formed trace, are the local meaning of the pipeline on its items -/
theorem C01_mux_lifetime (P : Pipe) (k : Key) (xs : List Val) :
    ((refLift P.loc).run ([.create k] ++ xs.map (.next k) ++ [.done k])).flatten =
      [.create k] ++ (P.loc.outL xs).map (liftOut k) ++ [.done k] := by
  have h := (C02_lifetime P.loc k xs (fun _ => none)).1
  show (runSteps (refStep P.loc) (fun _ => none) _).flatten = _
  rw [h]
  simp [LocalOp.outL, List.flatten_append, List.map_append, List.map_flatten]

theorem truncFatal_noFatal {β} (l : List (LOut β)) (h : noFatal l = true) : truncFatal l = l := by
  induction l with
  | nil => rfl
  | cons o l ih =>
    cases o with
    | fatal e => simp [noFatal] at h
    | item b => simp only [truncFatal]; rw [ih (by simpa [noFatal] using h)]
    | err e => simp only [truncFatal]; rw [ih (by simpa [noFatal] using h)]

/-! ### the dual-mode primitives -/

theorem pmap_run {α β} (f : α → Except Err β) (hf : ∀ x, ∃ y, f x = .ok y) :
    ∀ xs : List α, (pMap f).runP () xs = (mapOp f).runL () xs := by
  intro xs
  induction xs with
  | nil => rfl
  | cons x xs ih =>
    obtain ⟨y, hy⟩ := hf x
    have hn : (pMap f).next () x = ((), [.item y], false) := by simp [pMap, hy]
    have hs : stopsP ((pMap f).next () x).2 = false := by rw [hn]; simp [stopsP]
    rw [runP_cons_go _ _ _ _ hs, hn, ih]
    show _ = runRaw (mapOp f).next (mapOp f).fin () (x :: xs)
    simp [runRaw, mapOp, hy, LocalOp.runL]

/-- map: same items whenever the mapper does not raise (a raising mapper is an `on_error` on the
plain path — outside the property's precondition — and a mux error on the keyed path) -/
theorem C01_stage_map {α β} (f : α → Except Err β) (hf : ∀ x, ∃ y, f x = .ok y) :
    PlainAgrees (pMap f) (mapOp f) := by
  intro xs _
  have h := pmap_run f hf xs
  have : (pMap f).out xs = truncFatal ((mapOp f).outL xs) := by
    simp only [PlainOp.out, PlainOp.run, pMap, stopsP, List.any_nil, Bool.or_false, Bool.false_eq_true, if_false,
      List.flatten_cons, List.nil_append]
    have h' : (pMap f).runP () xs = (mapOp f).runL () xs := h
    simp only [pMap] at h'
    rw [h']
    rfl
  rw [this]
  have hnf : noFatal ((mapOp f).outL xs) = true := by
    have : ∀ (xs : List α), noFatal ((runRaw (mapOp f).next (mapOp f).fin () xs).1.flatten ++
        (runRaw (mapOp f).next (mapOp f).fin () xs).2) = true := by
      intro xs; induction xs with
      | nil => simp [runRaw, mapOp, noFatal]
      | cons x xs ih =>
        obtain ⟨y, hy⟩ := hf x
        simp only [runRaw, mapOp, hy, List.flatten_cons] at ih ⊢
        simpa [noFatal] using ih
    exact this xs
  rw [truncFatal_noFatal _ hnf]

end Rx

import RxModel.Lemmas.Impl
import RxModel.Lemmas.PlainDerived
import RxModel.Props.C02
import RxModel.Props.C09
/-!
# C01 — multiplexing is transparent: keyed execution equals per-group plain execution

Mux side: by `impl_eq_ref` and `C02_confinement`, what a flat pipeline `P` emits for one key lifetime
with items `xs`, wherever that lifetime sits in a well-formed trace, is `P.loc.outL xs`.
Plain side: `PlainOp.out` (RxPY built-ins and rxsci's own plain operators, modelled).

`AgreeT Pl L` (Lemmas/PlainSim.lean) is the compositional form of "plain = keyed": same items in
the same order whenever the plain run does not raise (the property's precondition), and a prefix
when it does.  It is proved for every dual-mode primitive (`C01_stage_*`), it is closed under
sequential composition (`agreeT_comp` — early completion of `take`/`first`, which stops the
upstream on the plain path only, included), hence it holds for every flat pipeline of them
(`C01_pipeline`), to any length.  `C01_transparent` joins both sides.
-/
namespace Rx

def noFatal {β} (l : List (LOut β)) : Bool := l.all (fun o => match o with | .fatal _ => false | _ => true)

/-- plain and keyed execution of one operator deliver the same items (when plain does not raise) -/
def PlainAgrees {α β} (Pl : PlainOp α β) (L : LocalOp α β) : Prop :=
  ∀ xs : List α, noFatal (Pl.out xs) = true → items (Pl.out xs) = items (L.outL xs)

theorem plainAgrees_of_agreeT {α β} (Pl : PlainOp α β) (L : LocalOp α β) (a : AgreeT Pl L) : PlainAgrees Pl L := by
  intro xs h
  apply agreeT_out Pl L a xs
  have e : (!hasFatal (Pl.out xs)) = true := (noFatal_iff (Pl.out xs)).symm.trans h
  simpa using e

/-- **mux side**: the events a supported pipeline emits for a single lifetime of key `k`, wherever
that lifetime sits in a well-formed trace, are the local meaning of the pipeline on its items -/
theorem C01_mux_lifetime (P : Pipe) (k : Key) (xs : List Val) :
    ((refLift P.loc).run ([.create k] ++ xs.map (.next k) ++ [.done k])).flatten =
      [.create k] ++ (P.loc.outL xs).map (liftOut k) ++ [.done k] := by
  have h := (C02_lifetime P.loc k xs (fun _ => none)).1
  show (runSteps (refStep P.loc) (fun _ => none) _).flatten = _
  rw [h]
  simp [LocalOp.outL, List.flatten_append, List.map_append, List.map_flatten]

/-! ### the dual-mode primitives: plain implementation vs `*_mux` implementation -/

/-- map / starmap / identity / do_action / clip / fill_none (all `map` instances) -/
theorem C01_stage_map {α β} (f : α → Except Err β) : AgreeT (pMap f) (mapOp f) := primSim_agreeT _ _ (simMap f)
/-- filter: the plain path applies Python truthiness, the keyed path must apply the same test -/
theorem C01_stage_filter {α γ} (p : α → Except Err γ) (tr : γ → Bool) : AgreeT (pFilter p tr) (filterOp p tr) :=
  primSim_agreeT _ _ (simFilter p tr)
theorem C01_stage_flat_map {α β} (el : α → List β) : AgreeT (pFlatMap el) (flatMapOp el) :=
  primSim_agreeT _ _ (simFlatMap el)
/-- scan with any accumulator, seed, reduce flag and terminator (count, sum, min, max, mean, variance, … are instances) -/
theorem C01_stage_scan {α γ} (g : γ → α → Except Err γ) (seed : γ) (r : Bool) (term : Option (γ → γ)) :
    AgreeT (pScan g seed r term) (scanOp g seed r term) := primSim_agreeT _ _ (simScan g seed r term)
/-- first: RxPY raises on an empty sequence (precondition), completes after the first item; `first_mux` goes silent -/
theorem C01_stage_first {α} : AgreeT (pFirst (α := α)) firstOp := primSim_agreeT _ _ simFirst
theorem C01_stage_last {α} : AgreeT (pLast (α := α)) lastOp := primSim_agreeT _ _ simLast
/-- take(n) for every n, `take(0)` (= `rx.empty()`) included -/
theorem C01_stage_take {α} (n : Nat) : AgreeT (pTake (α := α) n) (takeOp n) := primSim_agreeT _ _ (simTake n)
theorem C01_stage_assert {α} (p : α → Except Err Bool) (en : Err) : AgreeT (pAssert p en) (assertOp p en) :=
  primSim_agreeT _ _ (simAssert p en)
theorem C01_stage_assert1 {α} (p : α → α → Bool) (en : Err) : AgreeT (pAssert1 p en) (assert1Op p en) :=
  primSim_agreeT _ _ (simAssert1 p en)
/-- to_list: RxPY `to_list` vs `scan(append, reduce=True)` -/
theorem C01_stage_to_list : AgreeT (pToList Val.lst) (scanOp toListAcc (Val.lst []) true none) :=
  primSim_agreeT _ _ simToList

/-! ### pipelines -/

mutual
/-- a stage with both implementations whose agreement is proved -/
def Stage.Dual : Stage → Prop
  | .prim L (some Pl) => StartOK Pl ∧ AgreeT Pl L
  | .prim _ none => False
  | .wrap _ _ _ => False
  | .tee _ _ => False
def Pipe.Dual : Pipe → Prop
  | .nil => True
  | .cons s rest => s.Dual ∧ rest.Dual
end

theorem Pipe.dual_supported : (P : Pipe) → P.Dual → P.Supported
  | .nil, _ => trivial
  | .cons (.prim _ _) rest, h => ⟨trivial, rest.dual_supported h.2⟩
  | .cons (.wrap _ _ _) _, h => by simp [Pipe.Dual, Stage.Dual] at h
  | .cons (.tee _ _) _, h => by simp [Pipe.Dual, Stage.Dual] at h

theorem Pipe.dual_agree : (P : Pipe) → P.Dual → ∃ Pl, P.plain = some Pl ∧ StartOK Pl ∧ AgreeT Pl P.loc
  | .nil, _ => ⟨idPlain, rfl, primSim_startOK _ _ simId, primSim_agreeT _ _ simId⟩
  | .cons (.prim L (some Pl)) rest, h => by
    obtain ⟨Pr, hp, hs, ha⟩ := rest.dual_agree h.2
    refine ⟨compPlain Pl Pr, ?_, startOK_comp Pl Pr h.1.1 hs, agreeT_comp Pl Pr L rest.loc h.1.1 hs h.1.2 ha⟩
    simp [Pipe.plain, Stage.plain, hp]
  | .cons (.prim _ none) _, h => by simp [Pipe.Dual, Stage.Dual] at h
  | .cons (.wrap _ _ _) _, h => by simp [Pipe.Dual, Stage.Dual] at h
  | .cons (.tee _ _) _, h => by simp [Pipe.Dual, Stage.Dual] at h

/-- **C01 for arbitrary compositions** (flat pipelines of dual-mode operators, any length): the plain
interpretation exists and, whenever the plain run does not raise, delivers exactly the items, in the
same order, that the keyed (local) interpretation of the same pipeline delivers for a group with
those items -/
theorem C01_pipeline (P : Pipe) (hd : P.Dual) :
    ∃ Pl, P.plain = some Pl ∧ ∀ xs, noFatal (Pl.out xs) = true → items (Pl.out xs) = items (P.loc.outL xs) := by
  obtain ⟨Pl, hp, _, ha⟩ := P.dual_agree hd
  exact ⟨Pl, hp, plainAgrees_of_agreeT Pl P.loc ha⟩

/-- items delivered for key `k` in a mux event stream -/
def muxItems {β} (k : Key) (evs : List (Ev β)) : List β :=
  evs.filterMap (fun e => match e with | .next k' v => if k' = k then some v else none | _ => none)

theorem muxItems_filter {β} (k : Key) (evs : List (Ev β)) : muxItems k (evs.filter (ofKey k)) = muxItems k evs := by
  induction evs with
  | nil => rfl
  | cons e evs ih =>
    cases e with
    | next k' v =>
      by_cases hk : k' = k
      · subst hk; simp [muxItems, ofKey, evKey, List.filter_cons] at ih ⊢; exact ih
      · simp [muxItems, ofKey, evKey, List.filter_cons, hk] at ih ⊢; exact ih
    | create k' =>
      by_cases hk : k' = k
      · subst hk; simp [muxItems, ofKey, evKey, List.filter_cons] at ih ⊢; exact ih
      · simp [muxItems, ofKey, evKey, List.filter_cons, hk] at ih ⊢; exact ih
    | done k' =>
      by_cases hk : k' = k
      · subst hk; simp [muxItems, ofKey, evKey, List.filter_cons] at ih ⊢; exact ih
      · simp [muxItems, ofKey, evKey, List.filter_cons, hk] at ih ⊢; exact ih
    | err k' e =>
      by_cases hk : k' = k
      · subst hk; simp [muxItems, ofKey, evKey, List.filter_cons] at ih ⊢; exact ih
      · simp [muxItems, ofKey, evKey, List.filter_cons, hk] at ih ⊢; exact ih
    | fatal e => simp [muxItems, ofKey, evKey, List.filter_cons] at ih ⊢; exact ih

theorem muxItems_liftOut {β} (k : Key) (os : List (LOut β)) : muxItems k (os.map (liftOut k)) = items os := by
  induction os with
  | nil => rfl
  | cons o os ih => cases o <;> simp [muxItems, liftOut] at ih ⊢ <;> exact ih

/-- **C01, both sides joined**: let `P` be any flat pipeline of dual-mode operators and `t` any
well-formed multiplexed input (any number of groups, any interleaving, sparse or reused slot
indices) in which group `k` has the items `xs`.  If the plain pipeline run on `xs` alone does not
raise, then the items the multiplexed pipeline (index-addressed store implementation) delivers for
`k` are exactly the items the plain pipeline delivers, in the same order. -/
theorem C01_transparent (P : Pipe) (hd : P.Dual) (t : List (Ev Val)) (ht : WF t) (k : Key) (xs : List Val)
    (hk : t.filter (ofKey k) = [.create k] ++ xs.map (.next k) ++ [.done k]) :
    ∃ Pl, P.plain = some Pl ∧
      (noFatal (Pl.out xs) = true → muxItems k (P.mux.run t).flatten = items (Pl.out xs)) := by
  obtain ⟨Pl, hp, hag⟩ := C01_pipeline P hd
  refine ⟨Pl, hp, fun hnf => ?_⟩
  rw [hag xs hnf, ← muxItems_filter, C02_confinement P (P.dual_supported hd) t ht k, hk, muxItems_filter,
    C01_mux_lifetime]
  simp [muxItems, muxItems_liftOut]
  have := muxItems_liftOut k (P.loc.outL xs)
  simpa [muxItems] using this

/-- **keyed side for nested pipelines**: let `P` be any nested pipeline (splitters around inner
pipelines, `tee_map` around branches, any depth) and `t` any clean well-formed multiplexed input in
which group `k` has the items `xs`.  The items the index-addressed implementation delivers for `k`
are exactly the items of the pipeline's local meaning on `xs` alone — the other groups, their
interleaving and the reuse of slot indices do not matter. -/
theorem C01_keyed_nested (P : Pipe) (h : P.Nested) (t : List (Ev Val)) (ht : WF t) (hc : CleanTr t) (k : Key) (xs : List Val)
    (hk : t.filter (ofKey k) = [.create k] ++ xs.map (.next k) ++ [.done k]) :
    muxItems k (P.mux.run t).flatten = items (P.loc.outL xs) := by
  rw [← muxItems_filter, C02_confinement_nested P h t ht hc k, hk, muxItems_filter, C01_mux_lifetime]
  simp [muxItems, muxItems_liftOut]
  have := muxItems_liftOut k (P.loc.outL xs)
  simpa [muxItems] using this

/-! ### the catalogue: every builder of Derived.lean yields dual stages / pipelines -/

theorem dual_of_sim {L : LocalOp Val Val} {Pl : PlainOp Val Val} (S : PrimSim Pl L) : (Stage.prim L (some Pl)).Dual :=
  ⟨primSim_startOK _ _ S, primSim_agreeT _ _ S⟩

theorem Pipe.dual_ofList : (l : List Stage) → (∀ s ∈ l, s.Dual) → (Pipe.ofList l).Dual
  | [], _ => trivial
  | s :: r, h => ⟨h s (by simp), Pipe.dual_ofList r (fun x hx => h x (by simp [hx]))⟩

theorem Pipe.dual_append : (p q : Pipe) → p.Dual → q.Dual → (p.append q).Dual
  | .nil, _, _, hq => hq
  | .cons _ r, q, hp, hq => ⟨hp.1, Pipe.dual_append r q hp.2 hq⟩

/-- **closure**: pipelines assembled from dual stages by listing and appending are dual, so
`C01_pipeline` / `C01_transparent` apply to compositions of any depth -/
theorem C01_dual_closed :
    (∀ l : List Stage, (∀ s ∈ l, s.Dual) → (Pipe.ofList l).Dual) ∧
    (∀ p q : Pipe, p.Dual → q.Dual → (p.append q).Dual) :=
  ⟨Pipe.dual_ofList, Pipe.dual_append⟩

theorem dual_map (f : D.F1) : (D.map f).Dual := dual_of_sim (simMap f)
theorem dual_filter (p : D.F1) : (D.filter p).Dual := dual_of_sim (simFilter p Val.truthy)
theorem dual_scan (g : D.F2) (seed : Val) (r : Bool) (term : Option (Val → Val)) : (D.scan g seed r term).Dual :=
  dual_of_sim (simScan g seed r term)

theorem dual_batch (n : Nat) : (D.batch n).Dual := by
  refine ⟨⟨?_, ?_⟩, trivial⟩
  · exact startOK_comp _ _ (startOK_comp _ _ (startOK_comp _ _ (primSim_startOK _ _ (simScan _ _ _ _))
      (primSim_startOK _ _ (simFilter _ _))) (primSim_startOK _ _ (simMap _))) (primSim_startOK _ _ (simMap _))
  · exact agreeT_comp _ _ _ _
      (startOK_comp _ _ (startOK_comp _ _ (primSim_startOK _ _ (simScan _ _ _ _)) (primSim_startOK _ _ (simFilter _ _)))
        (primSim_startOK _ _ (simMap _)))
      (primSim_startOK _ _ (simMap _))
      (agreeT_comp _ _ _ _ (startOK_comp _ _ (primSim_startOK _ _ (simScan _ _ _ _)) (primSim_startOK _ _ (simFilter _ _)))
        (primSim_startOK _ _ (simMap _))
        (agreeT_comp _ _ _ _ (primSim_startOK _ _ (simScan _ _ _ _)) (primSim_startOK _ _ (simFilter _ _))
          (C01_stage_scan _ _ _ _) (C01_stage_filter _ _))
        (C01_stage_map _))
      (C01_stage_map _)

/-- **the dual-mode operators of the property's list**, as the code defines them (Derived.lean):
each is a dual stage or a dual pipeline, for every user function and parameter -/
theorem C01_builders :
    (∀ f, (D.map f).Dual) ∧ (∀ p, (D.filter p).Dual) ∧ D.flatMap.Dual ∧
    (∀ g seed r term, (D.scan g seed r term).Dual) ∧ D.first.Dual ∧ D.last.Dual ∧ (∀ n, (D.take n).Dual) ∧
    (∀ p, (D.assertS p).Dual) ∧ (∀ p, (D.assert1 p).Dual) ∧ D.toList.Dual ∧
    (∀ r, (D.count r).Dual) ∧ (∀ key r, (D.sum key r).Dual) ∧ (∀ m key r, (D.minmax m key r).Dual) ∧
    D.identity.Dual ∧ (∀ lo hi, (D.clip lo hi).Dual) ∧ (∀ x, (D.fillNone x).Dual) ∧
    (∀ key r, (D.mean key r).Dual) ∧ (∀ key r, (D.variance key r).Dual) ∧ (∀ key r, (D.stddev key r).Dual) ∧
    (∀ key r, (D.fvariance key r).Dual) ∧ (∀ key r, (D.fstddev key r).Dual) ∧
    (∀ n, (D.batch n).Dual) ∧ (∀ key, (D.duc key).Dual) := by
  have hsqrt : D.sqrtMap.Dual := dual_map _
  have hvar : ∀ key r, (D.variance key r).Dual := fun key r =>
    Pipe.dual_ofList _ (by intro s hs; simp at hs; rcases hs with rfl | rfl <;> first | exact dual_scan _ _ _ _ | exact dual_map _)
  have hfvar : ∀ key r, (D.fvariance key r).Dual := fun key r =>
    Pipe.dual_ofList _ (by intro s hs; simp at hs; rcases hs with rfl | rfl <;> first | exact dual_scan _ _ _ _ | exact dual_map _)
  refine ⟨dual_map, dual_filter, dual_of_sim (simFlatMap _), dual_scan, dual_of_sim simFirst, dual_of_sim simLast,
    fun n => dual_of_sim (simTake n), fun p => dual_of_sim (simAssert _ _), fun p => dual_of_sim (simAssert1 p _),
    dual_of_sim simToList, fun r => dual_scan _ _ _ _, fun key r => dual_scan _ _ _ _, fun m key r => dual_scan _ _ _ _,
    dual_map _, fun lo hi => dual_map _, fun x => dual_map _, ?_, hvar, ?_, hfvar, ?_, dual_batch, ?_⟩
  · intro key r
    exact Pipe.dual_ofList _ (by intro s hs; simp at hs; rcases hs with rfl | rfl <;> first | exact dual_scan _ _ _ _ | exact dual_map _)
  · intro key r
    exact Pipe.dual_append _ _ (hvar key r) (Pipe.dual_ofList _ (by intro s hs; simp at hs; subst hs; exact hsqrt))
  · intro key r
    exact Pipe.dual_append _ _ (hfvar key r) (Pipe.dual_ofList _ (by intro s hs; simp at hs; subst hs; exact hsqrt))
  · intro key
    exact Pipe.dual_ofList _ (by
      intro s hs; simp at hs
      rcases hs with rfl | rfl | rfl <;> first | exact dual_scan _ _ _ _ | exact dual_filter _ | exact dual_map _)

/-- non-vacuity: a concrete pipeline (filter | take 2 | last — early completion in the middle) is
dual, and a concrete interleaved trace with a reused slot index meets the hypotheses -/
example : (Pipe.ofList [D.filter (fun v => .ok v), D.take 2, D.last]).Dual :=
  Pipe.dual_ofList _ (by
    intro s hs; simp at hs
    rcases hs with rfl | rfl | rfl
    · exact dual_filter _
    · exact dual_of_sim (simTake 2)
    · exact dual_of_sim simLast)

example : WF ([.create [3, 0], .create [1, 0], .next [3, 0] (.int 1), .next [1, 0] (.int 5), .done [3, 0],
    .create [3, 0], .done [1, 0], .done [3, 0]] : List (Ev Val)) := by unfold WF; decide

end Rx

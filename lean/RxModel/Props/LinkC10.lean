import RxGen.Kernels
import RxModel.PyVal
/-!
# C10 link theorems: the model's `distinct_until_changed` is the stage list generated from
`rxsci/operators/distinct_until_changed.py` (`scan(_distinct, seed=(None, None, None)) | filter | map`),
for a given key mapper and for `key_mapper=None`.
-/
namespace Rx


theorem gen_duc_accumulate (key : D.F1) :
    Gen.duc_accumulate (V := Val) (some key) = (fun acc i => do
        let k ← key i
        if (acc.nth 0) = .none ∨ k ≠ acc.nth 2 then pure (Val.tup [.bool true, i, k])
        else pure (Val.tup [.bool false, i, k])) := by
  funext acc i
  simp only [Gen.duc_accumulate, Option.isSome_some, if_true]
  cases key i with
  | error e => rfl
  | ok k => simp [PyAlg.isNone, PyAlg.nth, PyAlg.eq, PyAlg.tup, PyAlg.bool]

/-- `key_mapper=None`: the item itself is the key -/
theorem gen_duc_accumulate_none :
    Gen.duc_accumulate (V := Val) none = (fun acc i =>
        if (acc.nth 0) = .none ∨ i ≠ acc.nth 2 then pure (Val.tup [.bool true, i, i])
        else pure (Val.tup [.bool false, i, i])) := by
  funext acc i
  simp [Gen.duc_accumulate, PyAlg.isNone, PyAlg.nth, PyAlg.eq, PyAlg.tup, PyAlg.bool]

theorem gen_duc_changed : Gen.duc_changed (V := Val) = (fun i => .ok (.bool ((i.nth 0) = .bool true))) := by
  funext i
  simp [Gen.duc_changed, PyAlg.isTrue, PyAlg.nth, PyAlg.bool, Val.isTrue]
  rfl

theorem gen_duc_item : Gen.duc_item (V := Val) = (fun i => .ok (i.nth 1)) := by
  funext i
  simp [Gen.duc_item, PyAlg.nth]
  rfl

theorem Link_duc (key : D.F1) : genPipe (Gen.duc_stages (some key)) = D.duc key := by
  simp only [genPipe, Gen.duc_stages, List.map, List.cons_append, List.nil_append, GStage.toStage, D.duc, Option.map,
    gen_duc_accumulate, gen_duc_changed, gen_duc_item]
  rfl


theorem Link_duc_none : genPipe (Gen.duc_stages none) = D.duc (fun v => .ok v) := by
  simp only [genPipe, Gen.duc_stages, List.map, List.cons_append, List.nil_append, GStage.toStage, D.duc, Option.map,
    gen_duc_accumulate_none, gen_duc_changed, gen_duc_item]
  rfl

end Rx

import RxGen.Kernels
import RxModel.PyVal
import RxModel.Props.C20
import RxModel.Lemmas.PlainDerived
/-!
# C10 link theorems: the model's `distinct_until_changed` is the stage list generated from
`rxsci/operators/distinct_until_changed.py` (`scan(_distinct, seed=(None, None, None)) | filter | map`),
for a given key mapper and for `key_mapper=None`; and `Link_batch`: the stage list generated from `rxsci/data/batch.py`, whose
scan state is a Python tuple `(list, flag)`, emits item by item what the model's typed `batchG` emits (a state-map simulation).
-/
namespace Rx


theorem gen_duc_accumulate (key : D.F1) :
    Gen.duc_accumulate (V := Val) (some key) = (fun acc i => do
        let k ← key i
        if (acc.nth 0) = .none ∨ k ≠ acc.nth 2 then pure (Val.tup [.bool true, i, k])
        else pure (Val.tup [.bool false, i, k])) := by
  funext acc i
  simp only [Gen.duc_accumulate, Option.isSome_some, if_true]
  cases key i with
  | error e => rfl
  | ok k => simp [PyAlg.isNone, PyAlg.nth, PyAlg.eq, PyAlg.tup, PyAlg.bool]

/-- `key_mapper=None`: the item itself is the key -/
theorem gen_duc_accumulate_none :
    Gen.duc_accumulate (V := Val) none = (fun acc i =>
        if (acc.nth 0) = .none ∨ i ≠ acc.nth 2 then pure (Val.tup [.bool true, i, i])
        else pure (Val.tup [.bool false, i, i])) := by
  funext acc i
  simp [Gen.duc_accumulate, PyAlg.isNone, PyAlg.nth, PyAlg.eq, PyAlg.tup, PyAlg.bool]

theorem gen_duc_changed : Gen.duc_changed (V := Val) = (fun i => .ok (.bool ((i.nth 0) = .bool true))) := by
  funext i
  simp [Gen.duc_changed, PyAlg.isTrue, PyAlg.nth, PyAlg.bool, Val.isTrue]
  rfl

theorem gen_duc_item : Gen.duc_item (V := Val) = (fun i => .ok (i.nth 1)) := by
  funext i
  simp [Gen.duc_item, PyAlg.nth]
  rfl

theorem Link_duc (key : D.F1) : genPipe (Gen.duc_stages (some key)) = D.duc key := by
  simp only [genPipe, Gen.duc_stages, List.map, List.cons_append, List.nil_append, GStage.toStage, D.duc, Option.map,
    gen_duc_accumulate, gen_duc_changed, gen_duc_item]
  rfl


theorem Link_duc_none : genPipe (Gen.duc_stages none) = D.duc (fun v => .ok v) := by
  simp only [genPipe, Gen.duc_stages, List.map, List.cons_append, List.nil_append, GStage.toStage, D.duc, Option.map,
    gen_duc_accumulate_none, gen_duc_changed, gen_duc_item]
  rfl

/-! ## batch -/
/-- the scan state of the model's `batch` as the Python tuple the generated accumulator works on -/
def encB (s : List Val × Bool) : Val := Val.tup [Val.lst s.1, .bool s.2]

theorem nth0_encB (s : List Val × Bool) : (encB s).nth 0 = Val.lst s.1 := by
  simp [encB, Val.nth, Val.elems, Val.tup, VList.ofList, VList.toList]
theorem nth1_encB (s : List Val × Bool) : (encB s).nth 1 = .bool s.2 := by
  simp [encB, Val.nth, Val.elems, Val.tup, VList.ofList, VList.toList]

theorem len_lst (l : List Val) : (PyAlg.len (Val.lst l) : Except Err Val) = .ok (.int l.length) := by
  show Val.lenV _ = _
  simp [Val.lenV, Val.lst, Val.elems, VList.toList_ofList]

theorem ok_bind2 {ε α β} (a : α) (f : α → Except ε β) : (Except.ok a >>= f) = f a := rfl

theorem int_beq_nat (a b : Nat) : (Val.int ((a : Int)) == Val.int (b : Int)) = (a == b) := by
  by_cases h : a = b
  · subst h; simp
  · have h2 : ¬ ((a : Int) = (b : Int)) := by omega
    have h3 : (a == b) = false := by simpa using h
    rw [h3]
    simpa using h2

theorem gen_batch_accumulate (n : Nat) (s : List Val × Bool) (i : Val) :
    Gen.batch_accumulate (V := Val) (.int n) (encB s) i = .ok (encB (batchAcc n s i)) := by
  obtain ⟨b, f⟩ := s
  cases f
  · simp only [Gen.batch_accumulate, PyAlg.nth, nth1_encB, nth0_encB, PyAlg.isTrue, Val.isTrue]
    have happ : (PyAlg.append (Val.lst b) i : Except Err Val) = .ok (Val.lst (b ++ [i])) := by
      simp [PyAlg.append, toListAcc, Val.lst, VList.toList_ofList]
    simp [happ, ok_bind2, len_lst, PyAlg.eq, PyAlg.tup, PyAlg.bool, batchAcc, encB]
    have := int_beq_nat (b.length + 1) n
    simp only [Int.natCast_add, Int.natCast_one] at this
    simp [Functor.map, Except.map, this]
  · simp only [Gen.batch_accumulate, PyAlg.nth, nth1_encB, nth0_encB, PyAlg.isTrue, Val.isTrue]
    simp [ok_bind2, len_lst, PyAlg.eq, PyAlg.tup, PyAlg.bool, PyAlg.lst, batchAcc, encB]
    have := int_beq_nat 1 n
    simp only [Int.natCast_one] at this
    simp [Functor.map, Except.map, this]

theorem lt_int_nat (a b : Nat) : (PyAlg.lt (Val.int (a : Int)) (Val.int (b : Int)) : Except Err Bool) = .ok (decide (a < b)) := by
  show Val.lt _ _ = _
  simp [Val.lt, Val.toInt?]

theorem gen_batch_terminate (s : List Val × Bool) :
    Gen.batch_terminate (V := Val) (encB s) = .ok (encB (batchTerm s)) := by
  obtain ⟨b, f⟩ := s
  have hl := lt_int_nat 0 b.length
  simp only [Int.natCast_zero] at hl
  simp only [Gen.batch_terminate, PyAlg.nth, nth1_encB, nth0_encB, PyAlg.isFalse, len_lst, PyAlg.int]
  cases f
  · simp [ok_bind2, hl, PyAlg.tup, PyAlg.bool, batchTerm, encB]; rfl
  · simp [PyAlg.tup, PyAlg.bool, batchTerm, encB]; rfl

theorem gen_batch_full (s : List Val × Bool) : Gen.batch_full (V := Val) (encB s) = .ok (.bool s.2) := by
  obtain ⟨b, f⟩ := s
  cases f <;> simp [Gen.batch_full, PyAlg.nth, nth1_encB, PyAlg.eq, PyAlg.bool] <;> rfl

theorem gen_batch_items (s : List Val × Bool) : Gen.batch_items (V := Val) (encB s) = .ok (Val.lst s.1) := by
  simp [Gen.batch_items, PyAlg.nth, nth0_encB]; rfl

/-- the three local operators of the generated stage list of `batch(n)` -/
def genBatchScan (n : Nat) : LocalOp Val Val :=
  scanOp (Gen.batch_accumulate (V := Val) (.int n)) (encB ([], false)) false
    (some (fun v => match Gen.batch_terminate (V := Val) v with | .ok x => x | .error _ => .none))

theorem gen_batch_stages_local (n : Nat) :
    (Gen.batch_stages (V := Val) (.int n)).map GStage.localOp
      = [genBatchScan n, filterOp (Gen.batch_full (V := Val)) Val.truthy, mapOp (Gen.batch_items (V := Val))] := rfl

/-- … composed as a pipeline composes them: `scan | filter | map` -/
def genBatchL (n : Nat) : LocalOp Val Val :=
  compLocal (compLocal (genBatchScan n) (filterOp (Gen.batch_full (V := Val)) Val.truthy)) (mapOp (Gen.batch_items (V := Val)))

/-- the model's `batch(n)` (the generic `batchG` with lists wrapped as values): the multiplexed side of `D.batch` -/
def modelBatchL (n : Nat) : LocalOp Val Val := compLocal (batchG n) (mapOp (fun l => Except.ok (Val.lst l)))

/-- states correspond: the model's typed scan state, encoded as the Python tuple, is the generated operator's scan state -/
abbrev MSt := ((Option (List Val × Bool) × Unit) × Unit) × Unit
abbrev GSt := (Option Val × Unit) × Unit
def phiB (t : MSt) : GSt := ((t.1.1.1.map encB, ()), ())

theorem getD_map_encB (s : Option (List Val × Bool)) (d : List Val × Bool) :
    (s.map encB).getD (encB d) = encB (s.getD d) := by cases s <;> rfl

theorem truthy_bool (b : Bool) : Val.truthy (.bool b) = b := rfl

theorem Link_batch_sim (n : Nat) (xs : List Val) (t : MSt) :
    runRaw (σ := GSt) (genBatchL n).next (genBatchL n).fin (phiB t) xs
      = runRaw (σ := MSt) (modelBatchL n).next (modelBatchL n).fin t xs := by
  apply runRaw_map_state (σ := GSt) (τ := MSt) (genBatchL n).next (genBatchL n).fin (modelBatchL n).next (modelBatchL n).fin phiB
  · intro t x
    obtain ⟨⟨⟨s, u1⟩, u2⟩, u3⟩ := t
    simp only [genBatchL, genBatchScan, modelBatchL, batchG, compLocal, scanOp, scanNext, filterOp, mapOp, feedL, phiB,
      getD_map_encB, gen_batch_accumulate, Bool.false_eq_true, if_false, gen_batch_full, truthy_bool, id]
    cases h : (batchAcc n (s.getD ([], false)) x).2 <;>
      simp [h, feedL, gen_batch_items, Option.map]
  · intro t
    obtain ⟨⟨⟨s, u1⟩, u2⟩, u3⟩ := t
    simp only [genBatchL, genBatchScan, modelBatchL, batchG, compLocal, scanOp, scanFin, filterOp, mapOp, feedL, phiB,
      getD_map_encB, gen_batch_terminate, Bool.false_eq_true, if_false, gen_batch_full, truthy_bool, id]
    cases h : (batchTerm (s.getD ([], false))).2 <;>
      simp [h, feedL, gen_batch_items]

/-- **Link_batch**: for every batch size and every item sequence the stage list generated from `rxsci/data/batch.py`
(`scan(_batch, seed=([], False), terminator=_terminate) | filter | map`, run as the model runs stage lists) emits, item by item
and at completion, exactly what the model's `batch(n)` emits -/
theorem Link_batch (n : Nat) (xs : List Val) :
    (genBatchL n).runL (genBatchL n).init xs = (modelBatchL n).runL (modelBatchL n).init xs :=
  Link_batch_sim n xs (((none, ()), ()), ())

end Rx

import RxGen.Handlers
import RxModel.Lemmas.HandlerSim
import RxModel.Plain
import RxModel.Derived
import RxModel.Props.LinkH
import RxModel.Props.LinkC01
/-!
# Link theorems for the remaining dual-mode operators rxsci writes by hand: `flat_map`, `assert_`, `assert_1`

Both paths of each: the multiplexed handler (`LinkH_flat_map`, `LinkH_assert`, `LinkH_assert1` = `idxStep` of `flatMapOp`,
`assertOp`, `assert1Op`) and the plain closure (`LinkP_flat_map_next` = `pFlatMap`, `LinkP_assert1_next` = `pAssert1`; plain
`assert_` is `ops.map` of a raising function: RxPY).  With `LinkH_scan` / `LinkP_scan_*` these are all hand-written pairs
C01's statement quantifies over; the other dual operators delegate their plain path to RxPY.
-/
namespace Rx
open HM

/-- `flat_map_mux` keeps no state: whatever the store, it emits what `idxStep (flatMapOp elems)` emits — one item per element,
in order — for every item that is a tuple or a list (anything else makes `for ii in i.item` raise: outside the model) -/
theorem LinkH_flat_map (st : Nat → Option Unit) (stores : Nat → Nat → Slot Val) (ev : Ev Val)
    (hlive : ∀ k v, ev = .next k v → st k.idx ≠ none)
    (hiter : ∀ k v, ev = .next k v → ∃ l, v.elems = some l) :
    runH (Gen.flat_map_mux_on_next ev) stores
      = (.ok (), stores, (idxStep (flatMapOp (fun v : Val => v.elems.getD [])) st ev).2) := by
  cases ev with
  | create k => hm_simp [Gen.flat_map_mux_on_next, idxStep, flatMapOp]
  | next k v =>
    cases h : st k.idx with
    | none => exact absurd h (hlive k v rfl)
    | some u =>
      obtain ⟨l, hl⟩ := hiter k v rfl
      have he : (PyAlg.elems v : Except Err (List Val)) = .ok l := by
        show Val.elemsE v = _
        simp [Val.elemsE, hl]
      rw [runH_eq]
      simp only [Gen.flat_map_mux_on_next, runS_bind, he, liftM, monadLift, runS_lift_ok, emit_loop (fun x => Ev.next k x)]
      simp [idxStep, flatMapOp, h, hl, liftOut, List.map_map, Function.comp_def, runS_pure]
  | done k => cases h : st k.idx <;> hm_simp [Gen.flat_map_mux_on_next, idxStep, flatMapOp, h, liftOut]
  | err k e => cases h : st k.idx <;> hm_simp [Gen.flat_map_mux_on_next, idxStep, flatMapOp, h, liftOut]
  | fatal e => hm_simp [Gen.flat_map_mux_on_next, idxStep]


/-- `assert_mux`: a predicate that does not return `True`, or raises, is `observer.on_error`; otherwise the item passes -/
theorem LinkH_assert (p : Val → Except Err Val) (err : Err) (st : Nat → Option Unit) (stores : Nat → Nat → Slot Val) (ev : Ev Val)
    (hlive : ∀ k v, ev = .next k v → st k.idx ≠ none) :
    runH (Gen.assert_mux_on_next p err ev) stores
      = (.ok (), stores, (idxStep (assertOp (fun v => (p v).map Val.isTrue) err) st ev).2) := by
  cases ev with
  | create k => hm_simp [Gen.assert_mux_on_next, idxStep, assertOp]
  | next k v =>
    cases h : st k.idx with
    | none => exact absurd h (hlive k v rfl)
    | some u =>
      cases hp : p v with
      | error e => hm_simp [Gen.assert_mux_on_next, idxStep, assertOp, h, hp, liftOut, Except.map]
      | ok r =>
        cases ht : Val.isTrue r <;>
          hm_simp [Gen.assert_mux_on_next, idxStep, assertOp, h, hp, liftOut, Except.map, PyAlg.isTrue, ht]
  | done k => cases h : st k.idx <;> hm_simp [Gen.assert_mux_on_next, idxStep, assertOp, h, liftOut]
  | err k e => cases h : st k.idx <;> hm_simp [Gen.assert_mux_on_next, idxStep, assertOp, h, liftOut]
  | fatal e => hm_simp [Gen.assert_mux_on_next, idxStep]

/-- `assert_1` (multiplexed): the previous item of the key in an `obj` state; every event on a live slot but an `OnErrorMux`
(the slot is deleted while the key stays live upstream: outside the model's domain) -/
theorem LinkH_assert1 (p : Val → Val → Bool) (err : Err) (st : Nat → Option (Option Val)) (ev : Ev Val)
    (hne : ∀ k e, ev ≠ .err k e)
    (hlive : ∀ k v, ev = .next k v → st k.idx ≠ none) :
    runH (Gen.assert1_mux_on_next (fun a b => .ok (.bool (p a b))) err ev) (repSt id st)
      = (.ok (), repSt id (idxStep (assert1Op p err) st ev).1, (idxStep (assert1Op p err) st ev).2) := by
  cases ev with
  | create k => hm_simp [Gen.assert1_mux_on_next, idxStep, assert1Op, repSt_upd]
  | next k v =>
    cases h : st k.idx with
    | none => exact absurd h (hlive k v rfl)
    | some s =>
      cases s with
      | none => hm_simp [Gen.assert1_mux_on_next, idxStep, assert1Op, repSt_upd, h, liftOut, repSt]
      | some prev =>
        cases hp : p prev v <;>
          hm_simp [Gen.assert1_mux_on_next, idxStep, assert1Op, repSt_upd, h, liftOut, repSt, hp, PyAlg.isTrue, PyAlg.bool, Val.isTrue]
  | done k =>
    cases h : st k.idx with
    | none => hm_simp [Gen.assert1_mux_on_next, idxStep, assert1Op, repSt_upd, h, liftOut]; exact repSt_same _ st k.idx _ h
    | some s => hm_simp [Gen.assert1_mux_on_next, idxStep, assert1Op, repSt_upd, h, liftOut]
  | err k e => exact absurd rfl (hne k e)
  | fatal e => hm_simp [Gen.assert1_mux_on_next, idxStep]


/-- the closure variables of the plain `assert_1` for the model state `s` (`none`: no previous item): #0 `last`, #1 `has_last` -/
def repA1 (s : Option Val) : Nat → Val := fun k =>
  if k = 0 then s.getD Val.none else if k = 1 then Val.bool s.isSome else Val.none

/-- what an observer of a plain operator has seen: the items, then `on_error` (called by the closure, or an escaped exception) -/
def obsOut2 (r : Except Err Unit × PSt Val) : List (LOut Val) :=
  r.2.out.map LOut.item ++ (match r.2.failed with | some e => [LOut.fatal e] | none => [])
    ++ (match r.1 with | .error e => [LOut.fatal e] | .ok _ => [])

theorem repA1_init : PM.initVars (Gen.assert1_obs_init (V := Val)) = repA1 none := by
  funext k
  match k with
  | 0 => rfl
  | 1 => rfl
  | k + 2 => simp [PM.initVars, Gen.assert1_obs_init, repA1]; rfl

/-- plain `assert_1` (`on_next` over the `nonlocal` variables `last`, `has_last`): the generated closure is `pAssert1.next` -/
theorem LinkP_assert1_next (p : Val → Val → Bool) (err : Err) (s : Option Val) (x : Val) :
    let r := PM.run (Gen.assert1_obs_on_next (fun a b => .ok (.bool (p a b))) err x) (repA1 s)
    let m := (pAssert1 p err).next s x
    r.2.vars = repA1 m.1 ∧ obsOut2 r = m.2.1 ∧ r.2.completed = m.2.2 := by
  cases s with
  | none =>
    pm_simp [Gen.assert1_obs_on_next, pAssert1, repA1, obsOut2, PyAlg.isTrue, PyAlg.bool, Val.isTrue]
    funext j; by_cases h0 : j = 0 <;> by_cases h1 : j = 1 <;> simp [repA1, h0, h1]
  | some prev =>
    cases hp : p prev x <;>
      pm_simp [Gen.assert1_obs_on_next, pAssert1, repA1, obsOut2, PyAlg.isTrue, PyAlg.bool, Val.isTrue, hp, PM.fail] <;>
      (funext j; by_cases h0 : j = 0 <;> by_cases h1 : j = 1 <;> simp [repA1, h0, h1])

def runP {α} (m : PM Val α) (s : PSt Val) : Except Err α × PSt Val := (ExceptT.run m).run s

theorem runP_bind {α β} (m : PM Val α) (f : α → PM Val β) (s : PSt Val) :
    runP (m >>= f) s = match runP m s with
      | (.ok a, s') => runP (f a) s'
      | (.error e, s') => (.error e, s') := by
  simp only [runP, ExceptT.run, bind, ExceptT.bind, ExceptT.mk, StateT.bind, StateT.run, ExceptT.bindCont]
  cases h : m s with
  | mk a s' => cases a <;> simp [pure, StateT.pure]

theorem runP_pure {α} (a : α) (s : PSt Val) : runP (pure a : PM Val α) s = (.ok a, s) := rfl
theorem runP_emit (v : Val) (s : PSt Val) : runP (PM.emit v) s = (.ok (), { s with out := s.out ++ [v] }) := rfl
theorem runP_lift_ok {α} (a : α) (s : PSt Val) : runP (MonadLift.monadLift (Except.ok a : Except Err α)) s = (.ok a, s) := rfl

theorem runP_tryCatch {α} (m : PM Val α) (h : Err → PM Val α) (s : PSt Val) :
    runP (tryCatch m h) s = match runP m s with
      | (.ok a, s') => (.ok a, s')
      | (.error e, s') => runP (h e) s' := by
  simp only [runP, tryCatch, tryCatchThe, MonadExceptOf.tryCatch, ExceptT.tryCatch, ExceptT.run, ExceptT.mk, bind, StateT.bind, StateT.run]
  cases hm : m s with
  | mk a s' => cases a <;> simp [pure, StateT.pure]

theorem emitP_loop (l : List Val) (s : PSt Val) :
    runP (forIn l PUnit.unit (fun ii (_ : PUnit) => do PM.emit ii; pure (ForInStep.yield PUnit.unit))) s
      = (.ok PUnit.unit, { s with out := s.out ++ l }) := by
  induction l generalizing s with
  | nil => simp [runP_pure]
  | cons a l ih =>
    simp only [List.forIn_cons, runP_bind, runP_emit, runP_pure, ih, List.append_assoc, List.singleton_append]

/-- plain `flat_map` (`flat_map_obs`): one item per element of an iterable item; anything else is `on_error` -/
theorem LinkP_flat_map_next (x : Val) (vars : Nat → Val) :
    obsOut2 (PM.run (Gen.flat_map_obs_on_next x) vars)
      = match x.elems with
        | some l => l.map LOut.item
        | none => [LOut.fatal "TypeError"] := by
  cases hx : x.elems with
  | none =>
    have he : (PyAlg.elems x : Except Err (List Val)) = .error "TypeError" := by
      show Val.elemsE x = _
      simp [Val.elemsE, hx]
    pm_simp [Gen.flat_map_obs_on_next, obsOut2, he, PM.fail, tryCatch, tryCatchThe, MonadExceptOf.tryCatch, ExceptT.tryCatch]
  | some l =>
    have he : (PyAlg.elems x : Except Err (List Val)) = .ok l := by
      show Val.elemsE x = _
      simp [Val.elemsE, hx]
    have hrun : PM.run (Gen.flat_map_obs_on_next x) vars = runP (Gen.flat_map_obs_on_next x) { vars := vars } := rfl
    rw [hrun]
    simp only [Gen.flat_map_obs_on_next, runP_tryCatch, runP_bind, he, liftM, monadLift, runP_lift_ok, emitP_loop, runP_pure]
    simp [obsOut2]

end Rx

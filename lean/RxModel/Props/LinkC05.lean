import RxGen.Handlers
import RxModel.Lemmas.HandlerSim
import RxModel.Split
/-!
# C05 link theorem: the `on_next` handler of `roll_mux._roll_count` (window = stride), generated from rxsci/data/roll.py,
IS the model's `rollCountStep` (the tumbling path, `C05_tumbling`).  The ring path `_roll` (window ≠ stride) is not generated:
its slot arithmetic mixes store integers and key indices (DESIGN.md §I.12).
-/
namespace Rx

open HM

def encCnt (c : Nat) : Option Val := some (.int (c : Int))

theorem eq_intZ (a b : Int) : PyAlg.eq (Val.int a) (Val.int b) = decide (a = b) := by
  show (Val.int a == Val.int b) = _
  by_cases h : a = b <;> simp [h]

theorem eq_intZ0 (a : Int) : PyAlg.eq (Val.int a) (Val.int 0) = decide (a = 0) := eq_intZ a 0

theorem add_intZ1 (a : Int) : (PyAlg.add (Val.int a) (Val.int 1) : Except Err Val) = .ok (.int (a + 1)) := by
  show Val.add _ _ = _
  simp [Val.add, Val.arith, Val.toInt?]

theorem lt_zeroZ (c : Int) : (PyAlg.lt (Val.int 0) (Val.int c) : Except Err Bool) = .ok (decide (0 < c)) := by
  show Val.lt _ _ = _
  simp [Val.lt, Val.toInt?]

/-- `_roll_count` (roll with window = stride): the generated handler is the model's `rollCountStep` -/
theorem LinkH_roll_count (w : Nat) (st : Nat → Option Nat) (ev : Ev Val)
    (hlive : ∀ k, ((∃ v, ev = .next k v) ∨ ev = .done k ∨ (∃ e, ev = .err k e)) → st k.idx ≠ none) :
    runH2 (Gen.roll_count_on_next (.int (w : Int)) ev) (repSt encCnt st)
      = (.ok (), repSt encCnt (rollCountStep w st ev).1, (rollCountStep w st ev).2.1, (rollCountStep w st ev).2.2.map OEv.toEv) := by
  cases ev with
  | create k => hm_simp [runH2, emitOuter, Gen.roll_count_on_next, rollCountStep, repSt_upd, OEv.toEv, encCnt, PyAlg.int]
  | next k v =>
    cases h : st k.idx with
    | none => exact absurd h (hlive k (Or.inl ⟨v, rfl⟩))
    | some c =>
      by_cases hw : c + 1 = w
      · subst hw
        by_cases h0 : c = 0
        · subst h0
          hm_simp [runH2, emitOuter, Gen.roll_count_on_next, rollCountStep, repSt_upd, h, repSt, ik, encCnt, eq_intZ0, add_intZ1, eq_intZ, PyAlg.int]
        · have e0 : ¬ ((c : Int) = 0) := by omega
          hm_simp [runH2, emitOuter, Gen.roll_count_on_next, rollCountStep, repSt_upd, h, repSt, ik, encCnt, eq_intZ0, add_intZ1, eq_intZ, PyAlg.int,
            h0, e0, Int.natCast_add]
      · have ew : ¬ (((c : Int) + 1) = (w : Int)) := by omega
        by_cases h0 : c = 0
        · subst h0
          have ew' : ¬ ((1 : Int) = (w : Int)) := by omega
          hm_simp [runH2, emitOuter, Gen.roll_count_on_next, rollCountStep, repSt_upd, h, repSt, ik, encCnt, eq_intZ0, add_intZ1, eq_intZ, PyAlg.int,
            hw, ew']
        · have e0 : ¬ ((c : Int) = 0) := by omega
          hm_simp [runH2, emitOuter, Gen.roll_count_on_next, rollCountStep, repSt_upd, h, repSt, ik, encCnt, eq_intZ0, add_intZ1, eq_intZ, PyAlg.int,
            h0, e0, hw, ew, Int.natCast_add]
  | done k =>
    cases h : st k.idx with
    | none => exact absurd h (hlive k (Or.inr (Or.inl rfl)))
    | some c =>
      by_cases h0 : 0 < c <;>
        hm_simp [runH2, emitOuter, Gen.roll_count_on_next, rollCountStep, repSt_upd, h, repSt, ik, encCnt, lt_zeroZ, h0, OEv.toEv, PyAlg.int]
  | err k e =>
    cases h : st k.idx with
    | none => exact absurd h (hlive k (Or.inr (Or.inr ⟨e, rfl⟩)))
    | some c =>
      by_cases h0 : 0 < c <;>
        hm_simp [runH2, emitOuter, Gen.roll_count_on_next, rollCountStep, repSt_upd, h, repSt, ik, encCnt, lt_zeroZ, h0, OEv.toEv, PyAlg.int]
  | fatal e => hm_simp [runH2, emitOuter, Gen.roll_count_on_next, rollCountStep]


end Rx

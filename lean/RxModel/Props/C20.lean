import RxModel.Parquet
import RxModel.Lemmas.Local
/-!
# C20 — parquet dump/load round-trips rows for every row count and batch size
(and the `batch` clause of C10)

`batchG n` is `batch(n)` as the code composes it (scan | filter | map); `chunksOf n` is the list
definition of the statement.  pyarrow's writer/reader are a library contract (the writer appends
the rows of each record, the reader yields all rows in order).
-/
namespace Rx

/-! ### chunksOf: the list definition -/

theorem chunksAux_fuel {α} (n : Nat) (hn : 0 < n) : ∀ (f : Nat) (xs : List α), xs.length ≤ f →
    chunksAux n f xs = chunksAux n xs.length xs := by
  intro f
  induction f using Nat.strongRecOn with
  | ind f ih =>
    intro xs hle
    cases xs with
    | nil => cases f <;> simp [chunksAux]
    | cons x xs =>
      cases f with
      | zero => simp at hle
      | succ f =>
        simp only [List.length_cons] at hle
        simp only [chunksAux, List.length_cons]
        congr 1
        have hd : ((x :: xs).drop n).length ≤ xs.length := by simp [List.length_drop]; omega
        rw [ih f (by omega) _ (by omega), ih xs.length (by omega) _ hd]

theorem chunksOf_nil {α} (n : Nat) : chunksOf n ([] : List α) = [] := rfl

theorem chunksOf_cons {α} (n : Nat) (hn : 0 < n) (x : α) (xs : List α) :
    chunksOf n (x :: xs) = (x :: xs).take n :: chunksOf n ((x :: xs).drop n) := by
  unfold chunksOf
  simp only [List.length_cons, chunksAux]
  congr 1
  exact chunksAux_fuel n hn xs.length _ (by simp [List.length_drop]; omega)

/-- a full chunk in front -/
theorem chunksOf_full {α} (n : Nat) (hn : 0 < n) (l r : List α) (hl : l.length = n) :
    chunksOf n (l ++ r) = l :: chunksOf n r := by
  cases l with
  | nil => simp at hl; omega
  | cons x l =>
    rw [List.cons_append, chunksOf_cons n hn]
    have h1 : (x :: (l ++ r)).take n = x :: l := by
      rw [← List.cons_append, List.take_append_of_le_length (by omega)]
      exact List.take_of_length_le (by omega)
    have h2 : (x :: (l ++ r)).drop n = r := by
      rw [← List.cons_append, List.drop_append_of_le_length (by omega)]
      simp [List.drop_eq_nil_of_le (Nat.le_of_eq hl)]
    rw [h1, h2]

/-- a short non-empty rest is one chunk -/
theorem chunksOf_short {α} (n : Nat) (hn : 0 < n) (l : List α) (h1 : l ≠ []) (h2 : l.length ≤ n) :
    chunksOf n l = [l] := by
  cases l with
  | nil => exact absurd rfl h1
  | cons x l =>
    rw [chunksOf_cons n hn, List.take_of_length_le h2, List.drop_eq_nil_of_le h2]
    rfl

/-- **the statement's characterisation of the chunks**: their concatenation is the input, every
chunk is non-empty and at most `n` long, and every chunk but the last is exactly `n` long -/
theorem C20_chunks_spec {α} (n : Nat) (hn : 0 < n) : ∀ (m : Nat) (xs : List α), xs.length = m →
    (chunksOf n xs).flatten = xs ∧ (∀ c ∈ chunksOf n xs, c ≠ [] ∧ c.length ≤ n) ∧
    (∀ c ∈ (chunksOf n xs).dropLast, c.length = n) := by
  intro m
  induction m using Nat.strongRecOn with
  | ind m ih =>
    intro xs hm
    cases xs with
    | nil => simp [chunksOf_nil]
    | cons x xs =>
      rw [chunksOf_cons n hn]
      have hlt : ((x :: xs).drop n).length < m := by
        rw [← hm]; simp only [List.length_drop, List.length_cons]; omega
      obtain ⟨r1, r2, r3⟩ := ih _ hlt ((x :: xs).drop n) rfl
      refine ⟨?_, ?_, ?_⟩
      · rw [List.flatten_cons, r1, List.take_append_drop]
      · intro c hc
        rcases List.mem_cons.mp hc with rfl | hc
        · refine ⟨?_, by simp [List.length_take]; omega⟩
          cases n with
          | zero => omega
          | succ n => simp
        · exact r2 c hc
      · intro c hc
        cases hrest : chunksOf n ((x :: xs).drop n) with
        | nil => rw [hrest] at hc; simp at hc
        | cons d ds =>
          rw [hrest] at hc r3
          rw [List.dropLast_cons_of_ne_nil (by simp)] at hc
          rcases List.mem_cons.mp hc with rfl | hc
          · -- the first chunk is followed by another one: the rest is non-empty, so it is full
            have hne : (x :: xs).drop n ≠ [] := by
              intro h; rw [h, chunksOf_nil] at hrest; cases hrest
            have : n < (x :: xs).length := by
              rcases Nat.lt_or_ge n (x :: xs).length with h | h
              · exact h
              · exact absurd (List.drop_eq_nil_of_le h) hne
            simp only [List.length_take]; omega
          · exact r3 c hc

/-! ### batch(n) = chunksOf n -/

/-- what `batch(n)` does with one item, and at completion, on its scan state -/
def bNext {α} (n : Nat) (s : Option (List α × Bool)) (x : α) : Option (List α × Bool) × List (LOut (List α)) :=
  let a := batchAcc n (s.getD ([], false)) x
  (some a, if a.2 then [.item a.1] else [])

def bFin {α} (s : Option (List α × Bool)) : List (LOut (List α)) :=
  let t := batchTerm (s.getD (([] : List α), false))
  if t.2 then [.item t.1] else []

/-- running two machines whose states correspond through `φ` gives the same outputs -/
theorem runRaw_map_state {σ τ α β : Type} (n1 : σ → α → σ × List β) (f1 : σ → List β)
    (n2 : τ → α → τ × List β) (f2 : τ → List β) (φ : τ → σ)
    (hn : ∀ t x, n1 (φ t) x = (φ (n2 t x).1, (n2 t x).2)) (hf : ∀ t, f1 (φ t) = f2 t) :
    ∀ (xs : List α) (t : τ), runRaw n1 f1 (φ t) xs = runRaw n2 f2 t xs := by
  intro xs
  induction xs with
  | nil => intro t; simp only [runRaw, hf]
  | cons x xs ih => intro t; simp only [runRaw, hn, ih]

/-- the scan state of `batch(n)` inside the composed operator's state -/
def batchSt {α : Type} (n : Nat) (s : Option (List α × Bool)) : (batchG (α := α) n).σ := ((s, ()), ())

theorem batchG_sim {α : Type} (n : Nat) (xs : List α) (s : Option (List α × Bool)) :
    runRaw (batchG n).next (batchG n).fin (batchSt n s) xs = runRaw (bNext n) bFin s xs := by
  apply runRaw_map_state
  · intro t x
    show (batchG n).next ((t, ()), ()) x = _
    simp only [batchG, compLocal, scanOp, scanNext, filterOp, mapOp, feedL, bNext, batchSt]
    cases h : (batchAcc n (t.getD ([], false)) x).2 <;> simp [h, feedL]
  · intro t
    show (batchG n).fin ((t, ()), ()) = _
    simp only [batchG, compLocal, scanOp, scanFin, filterOp, mapOp, feedL, bFin]
    cases h : (batchTerm (t.getD ([], false))).2 <;> simp [h, feedL]

/-- pending items of a state: nothing after a completed batch -/
def pendingOf {α} (s : Option (List α × Bool)) : List α :=
  match s with
  | none => []
  | some (b, fl) => if fl then [] else b

theorem pendingOf_true {α} (b : List α) : pendingOf (some (b, true)) = [] := rfl
theorem pendingOf_false {α} (b : List α) : pendingOf (some (b, false)) = b := rfl

theorem batch_run {α : Type} (n : Nat) (hn : 0 < n) : ∀ (xs : List α) (s : Option (List α × Bool)),
    (pendingOf s).length < n →
    items ((runRaw (bNext n) bFin s xs).1.flatten ++ (runRaw (bNext n) bFin s xs).2) =
      chunksOf n (pendingOf s ++ xs) := by
  intro xs
  induction xs with
  | nil =>
    intro s hp
    simp only [runRaw, List.flatten_nil, List.nil_append, List.append_nil, bFin, batchTerm]
    cases s with
    | none => simp [pendingOf, items, chunksOf_nil]
    | some bf =>
      obtain ⟨b, fl⟩ := bf
      cases fl with
      | true => simp [pendingOf, items, chunksOf_nil]
      | false =>
        simp only [pendingOf, Bool.false_eq_true, if_false, Option.getD_some, Bool.not_false, Bool.true_and] at hp ⊢
        cases b with
        | nil => simp [items, chunksOf_nil]
        | cons y ys =>
          rw [chunksOf_short n hn (y :: ys) (by simp) (by omega)]
          simp [items]
  | cons x xs ih =>
    intro s hp
    have hacc : batchAcc n (s.getD ([], false)) x = (pendingOf s ++ [x], (pendingOf s ++ [x]).length == n) := by
      cases s with
      | none => simp [batchAcc, pendingOf]
      | some bf => obtain ⟨b, fl⟩ := bf; cases fl <;> simp [batchAcc, pendingOf]
    simp only [runRaw, List.flatten_cons, bNext, hacc]
    by_cases hfull : (pendingOf s ++ [x]).length = n
    · have hbeq : ((pendingOf s ++ [x]).length == n) = true := by simp only [hfull, beq_self_eq_true]
      simp only [hbeq, if_true]
      have := ih (some (pendingOf s ++ [x], true)) (by rw [pendingOf_true]; exact hn)
      rw [pendingOf_true, List.nil_append] at this
      have e : pendingOf s ++ x :: xs = (pendingOf s ++ [x]) ++ xs := by simp
      rw [e, chunksOf_full n hn _ _ hfull, ← this]
      simp [items, List.filterMap_append, List.filterMap_cons]
    · have hbeq : ((pendingOf s ++ [x]).length == n) = false := by
        cases h : ((pendingOf s ++ [x]).length == n)
        · rfl
        · exact absurd (eq_of_beq h) hfull
      simp only [hbeq, Bool.false_eq_true, if_false, List.nil_append]
      have hlt : (pendingOf s ++ [x]).length < n := by
        rw [List.length_append, List.length_singleton] at hfull ⊢; omega
      have := ih (some (pendingOf s ++ [x], false)) (by rw [pendingOf_false]; exact hlt)
      rw [pendingOf_false] at this
      rw [this]
      simp

/-- **batch(n)** (clause of C10): consecutive chunks of exactly `n` items plus one final non-empty
shorter chunk, whose concatenation is the input; nothing for an empty sequence; `n = 1` included -/
theorem C20_batch {α : Type} (n : Nat) (hn : 0 < n) (xs : List α) :
    items ((batchG n).outL xs) = chunksOf n xs := by
  have h := batchG_sim n xs none
  have hb := batch_run n hn xs none hn
  have e : pendingOf (none : Option (List α × Bool)) = [] := rfl
  rw [e, List.nil_append] at hb
  rw [← hb, ← h]
  rfl

/-! ### the file -/

/-- with fresh column buffers per record, the file holds the concatenation of the batches -/
theorem parquetFileRows_fresh {α} : ∀ (bs : List (List α)) (buf : List α),
    parquetFileRows true buf bs = bs.flatten := by
  intro bs
  induction bs with
  | nil => intro buf; rfl
  | cons b bs ih => intro buf; simp [parquetFileRows, recordStep, ih]

/-- **C20**: for every row list, every dump batch size `n ≥ 1` and every load batch size `b ≥ 1`, the
file contains exactly the source rows, once each and in order, and loading returns them equal -/
theorem C20_rows {α} (n b : Nat) (hn : 0 < n) (hb : 0 < b) (rows : List α) :
    parquetDump n rows = rows ∧ parquetLoad b (parquetDump n rows) = rows := by
  have h1 : parquetDump n rows = rows := by
    unfold parquetDump
    rw [parquetFileRows_fresh]
    exact (C20_chunks_spec n hn rows.length rows rfl).1
  refine ⟨h1, ?_⟩
  rw [h1]
  exact (C20_chunks_spec b hb rows.length rows rfl).1

theorem parquetRecords_fresh {α} : ∀ (bs : List (List α)) (buf : List α), parquetRecords true buf bs = bs := by
  intro bs
  induction bs with
  | nil => intro buf; rfl
  | cons b bs ih => intro buf; simp [parquetRecords, recordStep, ih]

theorem rowGroups_flatten {α} (rg : Option Nat) (hrg : ∀ k, rg = some k → 0 < k) (records : List (List α)) :
    (rowGroups rg records).flatten = records.flatten := by
  cases rg with
  | none =>
    induction records with
    | nil => rfl
    | cons r rs ih =>
      cases r with
      | nil => simpa [rowGroups] using ih
      | cons x xs => simp only [rowGroups] at ih ⊢; simp [List.filter_cons, ih]
  | some k =>
    have hk := hrg k rfl
    induction records with
    | nil => rfl
    | cons r rs ih =>
      simp only [rowGroups, List.flatMap_cons, List.flatten_append, List.flatten_cons] at ih ⊢
      rw [ih, (C20_chunks_spec k hk r.length r rfl).1]

/-- **C20, over the operators as the code composes them**: the records handed to the writer are the
batches computed by the composed `batch(n)` operator; whatever the row count, the dump batch size,
the row-group size and the load batch size, the row groups of the file hold the source rows once
each and in order, and the loader returns them -/
theorem C20_file {α : Type} (n b : Nat) (rg : Option Nat) (hn : 0 < n) (hb : 0 < b)
    (hrg : ∀ k, rg = some k → 0 < k) (rows : List α) :
    let records := parquetRecords true [] (items ((batchG n).outL rows))
    (rowGroups rg records).flatten = rows ∧ parquetLoad b records.flatten = rows ∧
    (rg = none → rowGroups rg records = chunksOf n rows) := by
  have hrec : parquetRecords true [] (items ((batchG n).outL rows)) = chunksOf n rows := by
    rw [parquetRecords_fresh, C20_batch n hn]
  have hflat := (C20_chunks_spec n hn rows.length rows rfl).1
  simp only [hrec]
  refine ⟨by rw [rowGroups_flatten rg hrg, hflat], ?_, ?_⟩
  · rw [hflat]; exact (C20_chunks_spec b hb rows.length rows rfl).1
  · intro h
    subst h
    simp only [rowGroups]
    apply List.filter_eq_self.mpr
    intro c hc
    have := ((C20_chunks_spec n hn rows.length rows rfl).2.1 c hc).1
    cases c with
    | nil => exact absurd rfl this
    | cons _ _ => rfl

/-- what the unrepaired `create_record` (buffers created once) wrote: the witness of the defect -/
example : parquetFileRows false [] (chunksOf 2 [0, 1, 2, 3, 4]) = [0, 1, 0, 1, 2, 3, 0, 1, 2, 3, 4] := by decide
example : items ((batchG 3).outL [0, 1, 2, 3, 4, 5]) = [[0, 1, 2], [3, 4, 5]] := by decide
example : items ((batchG 1).outL [7, 8]) = [[7], [8]] := by decide

end Rx

import RxModel.Lemmas.Impl
import RxModel.Props.C09
import RxModel.Lemmas.Local
import RxModel.Catalog
/-!
# C13 — item-level errors on multiplexed streams are isolated and routable

Per key lifetime (the lifting to all keys and interleavings is `impl_eq_ref`): a raising user
function yields exactly one mux error at that position and leaves the operator's state unchanged;
`ignore` (and the main-stream side of the error router) drops it, `error.map` replaces it in place;
an unhandled mux error becomes `on_error` where the stream is demultiplexed.
-/
namespace Rx

/-- map / starmap: a raising mapper gives exactly one error for the key, in place of the item -/
theorem C13_map_one_error {α β} (f : α → Except Err β) (x : α) :
    (mapOp f).next () x = ((), match f x with | .ok y => [.item y] | .error e => [.err e]) := rfl

/-- filter: a raising predicate gives exactly one error, the item is not forwarded -/
theorem C13_filter_one_error {α γ} (p : α → Except Err γ) (t : γ → Bool) (x : α) (e : Err) (h : p x = .error e) :
    (filterOp p t).next () x = ((), [.err e]) := by simp [filterOp, h]

/-- scan: one error and the accumulator is untouched (see also `C09_error`, `C09_error_absent`) -/
theorem C13_scan_one_error {α γ} (g : γ → α → Except Err γ) (seed : γ) (r : Bool) (tm : Option (γ → γ))
    (s : Option γ) (x : α) (e : Err) (h : g (s.getD seed) x = .error e) :
    (scanOp g seed r tm).next s x = (s, [.err e]) := by
  show scanNext g seed r s x = _
  simp [scanNext, h]

/-- **ignore after map**: the pipeline `[map f, ignore]` emits, for a key, exactly the images of the
items on which `f` does not raise, each in the chunk of its own item — the later items of the key
continue as if the failing item were absent -/
theorem C13_ignore_map {α β} (f : α → Except Err β) (xs : List α) :
    (compLocal (mapOp f) ignoreOp).runL (compLocal (mapOp f) ignoreOp).init xs =
      (xs.map (fun x => match f x with | .ok y => [LOut.item y] | .error _ => []), []) := by
  unfold LocalOp.runL
  induction xs with
  | nil => rfl
  | cons x xs ih =>
    have hs : ((compLocal (mapOp f) ignoreOp).next (compLocal (mapOp f) ignoreOp).init x).1 =
        (compLocal (mapOp f) ignoreOp).init := rfl
    have ho : ((compLocal (mapOp f) ignoreOp).next (compLocal (mapOp f) ignoreOp).init x).2 =
        (match f x with | .ok y => [LOut.item y] | .error _ => []) := by
      cases hf : f x <;> simp [compLocal, mapOp, feedL, ignoreOp, hf]
    rw [runRaw_cons, hs, ho, ih]
    rfl

/-- **error.map after map**: the mapped item appears at the position of the failing item -/
theorem C13_map_err_in_place {α β} (f : α → Except Err β) (h : Err → β) (x : α) :
    ((compLocal (mapOp f) (mapErrOp (fun e => .ok (h e)))).next
      (compLocal (mapOp f) (mapErrOp (fun e => .ok (h e)))).init x).2 =
      [LOut.item (match f x with | .ok y => y | .error e => h e)] := by
  cases hf : f x <;> simp [compLocal, mapOp, mapErrOp, feedL, hf]

/-- **router**: on the main stream the router behaves as `ignore`; the dead letter receives the
errors that arrive at it, in arrival order (`errorsOf`), whatever else the key emits -/
def errorsOf {β} (os : List (LOut β)) : List Err :=
  os.filterMap (fun o => match o with | .err e => some e | _ => none)

theorem C13_router_dead_letters {α β} (f : α → Except Err β) (xs : List α) :
    errorsOf ((mapOp f).outL xs) = xs.filterMap (fun x => match f x with | .ok _ => none | .error e => some e) := by
  have key : ∀ xs : List α, (mapOp f).runL (mapOp f).init xs =
      (xs.map (fun x => match f x with | .ok y => [LOut.item y] | .error e => [LOut.err e]), []) := by
    intro xs
    unfold LocalOp.runL
    induction xs with
    | nil => rfl
    | cons x xs ih =>
      have hs : ((mapOp f).next (mapOp f).init x).1 = (mapOp f).init := rfl
      have ho : ((mapOp f).next (mapOp f).init x).2 =
          (match f x with | .ok y => [LOut.item y] | .error e => [LOut.err e]) := rfl
      rw [runRaw_cons, hs, ho, ih]
      rfl
  simp only [LocalOp.outL]
  rw [key xs]
  simp only [List.append_nil, errorsOf]
  induction xs with
  | nil => rfl
  | cons x xs ih =>
    simp only [List.map_cons, List.flatten_cons, List.filterMap_append, List.filterMap_cons, ih]
    cases hf : f x <;> simp

/-- **unhandled**: where the stream is demultiplexed, the first mux error surfaces as `on_error`
and nothing is delivered after it -/
theorem C13_unhandled {β} (pre post : List (Ev β)) (k : Key) (e : Err)
    (hpre : ∀ ev ∈ pre, match ev with | .err _ _ => False | .fatal _ => False | _ => True) :
    demuxTop (pre ++ .err k e :: post) = demuxTop pre ++ [.fatal e] := by
  induction pre with
  | nil => rfl
  | cons a pre ih =>
    have h1 := hpre a (by simp)
    have h2 := ih (fun ev hev => hpre ev (by simp [hev]))
    cases a with
    | create k' => simpa [demuxTop] using h2
    | next k' v => simpa [demuxTop] using h2
    | done k' => simpa [demuxTop] using h2
    | err k' e' => exact h1.elim
    | fatal e' => exact h1.elim

/-! ### "as if the item were absent": any operator whose user function raises, followed by a handler -/

/-- **isolation, general form.**  Let `L` be any per-key operator and suppose that in the state
reached after the items `pre` the item `x` makes the user function raise: one mux error, state
unchanged (what `map`, `starmap`, `filter` and `scan` do, `C13_*_one_error`).  Then `L | ignore`
emits over `pre ++ x :: post` exactly what it emits over `pre ++ post`: the key continues as if the
item were absent (the chunk of `x` itself is empty). -/
theorem C13_absent {α β} (L : LocalOp α β) (pre post : List α) (x : α) (e : Err)
    (h : L.next (stateAfter (compLocal L ignoreOp).next (compLocal L ignoreOp).init pre).1 x =
          ((stateAfter (compLocal L ignoreOp).next (compLocal L ignoreOp).init pre).1, [.err e])) :
    (compLocal L ignoreOp).outL (pre ++ x :: post) = (compLocal L ignoreOp).outL (pre ++ post) ∧
    ((compLocal L ignoreOp).runL (compLocal L ignoreOp).init (pre ++ x :: post)).1 =
      ((compLocal L ignoreOp).runL (compLocal L ignoreOp).init pre).1 ++ [[]] ++
        ((compLocal L ignoreOp).runL (stateAfter (compLocal L ignoreOp).next (compLocal L ignoreOp).init pre) post).1 := by
  have hstep : (compLocal L ignoreOp).next (stateAfter (compLocal L ignoreOp).next (compLocal L ignoreOp).init pre) x =
      (stateAfter (compLocal L ignoreOp).next (compLocal L ignoreOp).init pre, []) := by
    generalize stateAfter (compLocal L ignoreOp).next (compLocal L ignoreOp).init pre = st at h ⊢
    obtain ⟨s, u⟩ := st
    show (((L.next s x).1, (feedL ignoreOp u (L.next s x).2).1), (feedL ignoreOp u (L.next s x).2).2) = ((s, u), [])
    simp only at h
    rw [h]
    rfl
  unfold LocalOp.outL LocalOp.runL
  rw [runRaw_append, runRaw_append, runRaw_cons, hstep]
  simp

/-- the same with `error.map` as the handler: the mapped item takes the place of the failing one -/
theorem C13_replaced {α β} (L : LocalOp α β) (hm : Err → β) (s : L.σ) (x : α) (e : Err)
    (h : L.next s x = (s, [.err e])) :
    (compLocal L (mapErrOp (fun e => .ok (hm e)))).next (s, ()) x = ((s, ()), [.item (hm e)]) := by
  show (((L.next s x).1, (feedL (mapErrOp (fun e => .ok (hm e))) () (L.next s x).2).1),
    (feedL (mapErrOp (fun e => .ok (hm e))) () (L.next s x).2).2) = _
  rw [h]
  rfl

/-- instances: the hypothesis of `C13_absent` holds for scan whenever the accumulator raises -/
theorem C13_scan_absent {α γ} (g : γ → α → Except Err γ) (seed : γ) (r : Bool) (tm : Option (γ → γ))
    (pre post : List α) (x : α) (e : Err)
    (h : g ((stateAfter (compLocal (scanOp g seed r tm) ignoreOp).next (compLocal (scanOp g seed r tm) ignoreOp).init pre).1.getD seed) x = .error e) :
    (compLocal (scanOp g seed r tm) ignoreOp).outL (pre ++ x :: post) =
      (compLocal (scanOp g seed r tm) ignoreOp).outL (pre ++ post) :=
  (C13_absent (scanOp g seed r tm) pre post x e (C13_scan_one_error g seed r tm _ x e h)).1

theorem C13_filter_absent {α γ} (p : α → Except Err γ) (t : γ → Bool) (pre post : List α) (x : α) (e : Err)
    (h : p x = .error e) :
    (compLocal (filterOp p t) ignoreOp).outL (pre ++ x :: post) = (compLocal (filterOp p t) ignoreOp).outL (pre ++ post) :=
  (C13_absent (filterOp p t) pre post x e (C13_filter_one_error p t x e h)).1

/-! non-vacuity -/
example : (compLocal (mapOp (fun n : Nat => if n % 2 = 0 then Except.error "ValueError" else .ok (n + 10))) ignoreOp).outL [1, 2, 3]
    = [.item 11, .item 13] := by decide
example : errorsOf ((mapOp (fun n : Nat => if n % 2 = 0 then (Except.error "ValueError" : Except Err Nat) else .ok n)).outL [1, 2, 3, 4])
    = ["ValueError", "ValueError"] := by decide


/-! ### all failing items at once -/

/-- **every subset of failing items at once**: when whether the accumulator raises is decided by the item alone (`bad x = some e`),
`scan | ignore` over any item list is `scan | ignore` over the list without the failing items — first, last, consecutive, all. -/
theorem C13_scan_all_absent {α γ} (g : γ → α → Except Err γ) (seed : γ) (r : Bool) (tm : Option (γ → γ))
    (bad : α → Option Err) (hbad : ∀ a x e, bad x = some e → g a x = .error e) (xs : List α) :
    (compLocal (scanOp g seed r tm) ignoreOp).outL xs =
      (compLocal (scanOp g seed r tm) ignoreOp).outL (xs.filter (fun x => (bad x).isNone)) := by
  suffices h : ∀ pre : List α, (compLocal (scanOp g seed r tm) ignoreOp).outL (pre ++ xs) =
      (compLocal (scanOp g seed r tm) ignoreOp).outL (pre ++ xs.filter (fun x => (bad x).isNone)) by
    simpa using h []
  induction xs with
  | nil => intro pre; rfl
  | cons x xs ih =>
    intro pre
    cases hb : bad x with
    | none =>
      have := ih (pre ++ [x])
      simp only [List.append_assoc, List.singleton_append] at this
      simp only [List.filter_cons, hb, Option.isNone_none, if_true]
      exact this
    | some e =>
      rw [C13_scan_absent g seed r tm pre xs x e (hbad _ x e hb)]
      simp only [List.filter_cons, hb, Option.isNone_some]
      exact ih pre

example : (compLocal (scanOp (fun (a n : Nat) => if n % 2 = 0 then Except.error "ValueError" else .ok (a + n)) 0 false none) ignoreOp).outL [2, 1, 4, 4, 3]
    = [.item 1, .item 4] := by decide

/-- the catalog's failing accumulator (`raise_if_mod k r`: the harness's user function) meets the hypothesis: over int items,
the items with `x % k = r` are as if absent, all of them at once -/
theorem C13_scan_catalog_absent (k r : Nat) (exc : String) (seed : Val) (rd : Bool) (xs : List Int) :
    (compLocal (scanOp (Fn2.raiseIfMod k r exc).eval seed rd none) ignoreOp).outL (xs.map Val.int) =
      (compLocal (scanOp (Fn2.raiseIfMod k r exc).eval seed rd none) ignoreOp).outL
        ((xs.filter (fun i => !(i % (k : Int) == (r : Int)))).map Val.int) := by
  rw [C13_scan_all_absent (Fn2.raiseIfMod k r exc).eval seed rd none
    (fun x => match x with | .int i => if i % (k : Int) == (r : Int) then some exc else none | _ => none)]
  · congr 1
    induction xs with
    | nil => rfl
    | cons i xs ih =>
      simp only [List.map_cons, List.filter_cons]
      by_cases h : (i % (k : Int) == (r : Int)) = true
      · simp only [h, if_true, Option.isNone_some, Bool.not_true]; exact ih
      · simp only [h, Bool.not_false, List.map_cons]; rw [ih]; simp
  · intro a x e hb
    cases x with
    | int i =>
      simp only at hb
      by_cases h : (i % (k : Int) == (r : Int)) = true
      · simp only [h, if_true, Option.some.injEq] at hb
        subst hb
        simp [Fn2.eval, intOf, h, bind, Except.bind]
      · simp [h] at hb
    | _ => simp at hb

/-- `filter | ignore`: every item on which the predicate raises is as if absent, all of them at once -/
theorem C13_filter_all_absent {α γ} (p : α → Except Err γ) (t : γ → Bool) (xs : List α) :
    (compLocal (filterOp p t) ignoreOp).outL xs =
      (compLocal (filterOp p t) ignoreOp).outL (xs.filter (fun x => match p x with | .ok _ => true | .error _ => false)) := by
  suffices h : ∀ pre : List α, (compLocal (filterOp p t) ignoreOp).outL (pre ++ xs) =
      (compLocal (filterOp p t) ignoreOp).outL (pre ++ xs.filter (fun x => match p x with | .ok _ => true | .error _ => false)) by
    simpa using h []
  induction xs with
  | nil => intro pre; rfl
  | cons x xs ih =>
    intro pre
    cases hb : p x with
    | ok v =>
      have := ih (pre ++ [x])
      simp only [List.append_assoc, List.singleton_append] at this
      simp only [List.filter_cons, hb, if_true]
      exact this
    | error e =>
      rw [C13_filter_absent p t pre xs x e hb]
      simp only [List.filter_cons, hb]
      exact ih pre

example : (compLocal (filterOp (fun n : Nat => if n % 3 = 0 then (Except.error "ValueError" : Except Err Nat) else .ok n) (fun n => n % 2 == 1)) ignoreOp).outL [3, 1, 6, 2, 5, 9]
    = [.item 1, .item 5] := by decide
end Rx

import RxGen.Handlers
import RxModel.Lemmas.HandlerSim
import RxModel.Pipeline
import RxModel.Props.LinkH
/-!
# C08 link theorem: `on_next(i, x)` of the multiplexed join of `tee_map` (`_process_many.subscribe_mux`), generated from
rxsci/operators/tee_map.py, IS the model's `joinStep` (Tee.lean) — for `merge`, `zip` and `combine_latest`

The join keeps two Python lists in its closure, `queue` and `has_next`, addressed by `key[0]*n + branch`; the translator maps
them to `HSt.jq` / `HSt.jh` with `append`, item assignment (IndexError past the end) and slices.  The model keeps two total
functions; `qrep L` / `hrep L` are the lists of length `L` that hold them.  `grow_loop_j` evaluates the growth loop at the
creation of a key, `reset_loop_qh` / `reset_loop_hq` the two reset loops (completion of a key; after a zipped row) as
`clearQ` / `clearHas`, `allHas_range` / `sliceQ_range` relate `all(has_next[b:b+n])` and `tuple(queue[b:b+n])` to the model's
`allHas` / `mk (sliceQ …)`.  `join_inv`: the side conditions are invariants of the reachable states.
-/
namespace Rx
open HM

/-- the Python lists of the join for the model state `st`, at length `L` -/
def qrep (L : Nat) (q : Nat → Option Val) : List Val := (List.range L).map (fun j => (q j).getD Val.none)
def hrep (L : Nat) (h : Nat → Bool) : List Bool := (List.range L).map h

theorem qrep_length (L q) : (qrep L q).length = L := by simp [qrep]
theorem hrep_length (L h) : (hrep L h).length = L := by simp [hrep]

theorem slice_range {β} (f : Nat → β) (L a n : Nat) (h : a + n ≤ L) :
    (((List.range L).map f).take (a + n)).drop a = (List.range' a n).map f := by
  rw [← List.map_take, ← List.map_drop, List.take_range, Nat.min_eq_left h, List.range_eq_range', List.drop_range']
  simp

theorem allHas_range (h : Nat → Bool) (base n : Nat) : allHas h base n = ((List.range' base n).map h).all id := by
  induction n with
  | zero => simp [allHas]
  | succ n ih =>
    rw [allHas, ih, List.range'_concat]
    simp [Bool.and_comm]

theorem sliceQ_range (q : Nat → Option Val) (base n : Nat) :
    mkTupleV (sliceQ q base n) = Val.tup ((List.range' base n).map (fun j => (q j).getD Val.none)) := by
  unfold mkTupleV sliceQ
  congr 1
  rw [List.map_map, List.range_eq_range']
  have : ∀ (s : Nat), (List.range' s n).map ((fun o : Option Val => o.getD Val.none) ∘ fun i => q (base + i))
      = (List.range' (base + s) n).map (fun j => (q j).getD Val.none) := by
    induction n with
    | zero => simp
    | succ n ih => intro s; simp [List.range'_succ, ih (s + 1), Nat.add_assoc]
  simpa using this 0

theorem clearQ_spec {β} (q : Nat → Option β) (base n j : Nat) :
    clearQ q base n j = if base ≤ j ∧ j < base + n then none else q j := by
  induction n with
  | zero => simp [clearQ]; intro h; omega
  | succ n ih =>
    simp only [clearQ, ih]
    by_cases h1 : j = base + n
    · simp [h1]
    · by_cases h2 : base ≤ j ∧ j < base + n
      · have : base ≤ j ∧ j < base + (n + 1) := ⟨h2.1, by omega⟩
        simp [h1, h2, this]
      · have : ¬ (base ≤ j ∧ j < base + (n + 1)) := by omega
        simp [h1, h2, this]

theorem clearHas_spec (h : Nat → Bool) (base n j : Nat) :
    clearHas h base n j = if base ≤ j ∧ j < base + n then false else h j := by
  induction n with
  | zero => simp [clearHas]; intro hh; omega
  | succ n ih =>
    simp only [clearHas, ih]
    by_cases h1 : j = base + n
    · simp [h1]
    · by_cases h2 : base ≤ j ∧ j < base + n
      · have : base ≤ j ∧ j < base + (n + 1) := ⟨h2.1, by omega⟩
        simp [h1, h2, this]
      · have : ¬ (base ≤ j ∧ j < base + (n + 1)) := by omega
        simp [h1, h2, this]


theorem map_range_set {β} (f : Nat → β) (L i : Nat) (g : β) :
    ((List.range L).map f).set i g = (List.range L).map (fun j => if j = i then g else f j) := by
  apply List.ext_getElem?
  intro j
  by_cases hj : j < L
  · by_cases hji : j = i
    · subst hji; simp [hj]
    · have : ¬ i = j := fun h => hji h.symm
      simp [hj, hji, this]
  · have hj' : L ≤ j := Nat.le_of_not_lt hj
    simp [hj']

theorem qrep_set (L : Nat) (q : Nat → Option Val) (i : Nat) (o : Option Val) :
    (qrep L q).set i (o.getD Val.none) = qrep L (fun j => if j = i then o else q j) := by
  unfold qrep
  rw [map_range_set]
  apply List.map_congr_left
  intro j _
  by_cases h : j = i <;> simp [h]

theorem hrep_set (L : Nat) (h : Nat → Bool) (i : Nat) (b : Bool) :
    (hrep L h).set i b = hrep L (fun j => if j = i then b else h j) := by
  unfold hrep
  rw [map_range_set]

/-- a `for a in l` loop each pass of which is one step `f a` on a model state `m` represented as `S m` -/
theorem model_loop {σ : Type} (S : σ → HSt Val) (f : Nat → σ → σ) (body : Nat → PUnit → HM Val (ForInStep PUnit)) (l : List Nat)
    (hbody : ∀ a ∈ l, ∀ m, runS (body a PUnit.unit) (S m) = (.ok (ForInStep.yield PUnit.unit), S (f a m))) (m : σ) :
    runS (forIn l PUnit.unit body) (S m) = (.ok PUnit.unit, S (l.foldl (fun m a => f a m) m)) := by
  induction l generalizing m with
  | nil => simp [runS_pure]
  | cons a l ih =>
    rw [List.forIn_cons, runS_bind, hbody a (by simp) m]
    simp only [List.foldl_cons]
    exact ih (fun b hb => hbody b (by simp [hb])) (f a m)

theorem foldl_clear (q : Nat → Option Val) (h : Nat → Bool) (base n : Nat) :
    (List.range n).foldl (fun (qh : (Nat → Option Val) × (Nat → Bool)) a =>
        ((fun j => if j = base + a then none else qh.1 j), (fun j => if j = base + a then false else qh.2 j))) (q, h)
      = (clearQ q base n, clearHas h base n) := by
  induction n with
  | zero => simp [clearQ, clearHas]
  | succ n ih =>
    rw [List.range_succ, List.foldl_append, ih]
    simp [clearQ, clearHas]


theorem runS_lenQueue (s : HSt Val) : runS lenQueue s = (.ok s.jq.length, s) := rfl
theorem runS_queueAppend (v : Val) (s : HSt Val) : runS (queueAppend v) s = (.ok (), { s with jq := s.jq ++ [v] }) := rfl
theorem runS_hasAppend (b : Bool) (s : HSt Val) : runS (hasAppend b) s = (.ok (), { s with jh := s.jh ++ [b] }) := rfl
theorem runS_queueSlice (a b : Nat) (s : HSt Val) : runS (queueSlice a b) s = (.ok ((s.jq.take b).drop a), s) := rfl
theorem runS_hasSlice (a b : Nat) (s : HSt Val) : runS (hasSlice a b) s = (.ok ((s.jh.take b).drop a), s) := rfl
theorem runS_queueSet_ok (i : Nat) (v : Val) (s : HSt Val) (h : i < s.jq.length) :
    runS (queueSet i v) s = (.ok (), { s with jq := s.jq.set i v }) := by
  hm_simp [runS, queueSet, h, set, MonadStateOf.set, StateT.set]
theorem runS_hasSet_ok (i : Nat) (b : Bool) (s : HSt Val) (h : i < s.jh.length) :
    runS (hasSet i b) s = (.ok (), { s with jh := s.jh.set i b }) := by
  hm_simp [runS, hasSet, h, set, MonadStateOf.set, StateT.set]

theorem runS_tryCatch {α} (m : HM Val α) (h : Err → HM Val α) (s : HSt Val) :
    runS (tryCatch m h) s = match runS m s with
      | (.ok a, s') => (.ok a, s')
      | (.error e, s') => runS (h e) s' := by
  simp only [runS, tryCatch, tryCatchThe, MonadExceptOf.tryCatch, ExceptT.tryCatch, ExceptT.run, ExceptT.mk, bind, StateT.bind, StateT.run]
  cases hm : m s with
  | mk a s' => cases a <;> simp [pure, StateT.pure]

theorem runS_er_pure {ρ α} (r : α) (s : HSt Val) :
    runS (ExceptT.run (pure r : ExceptT ρ (HM Val) α)) s = (.ok (.ok r), s) := rfl

/-- `(zip, combine)` as the code's two flags -/
def Join.flags : Join → Bool × Bool
  | .merge => (false, false)
  | .zip => (true, false)
  | .combine => (false, true)

theorem key_base (k n i L : Nat) (hi : i < n) (hL : (k + 1) * n ≤ L) : k * n + i < L ∧ k * n + n ≤ L := by
  have : (k + 1) * n = k * n + n := by rw [Nat.add_mul, Nat.one_mul]
  omega

/-- the reset loop of the join (`has_next` first, as after a zipped row) -/
theorem reset_loop_hq (stores : Nat → Nat → Slot Val) (out outer : List (Ev Val)) (maps : Nat → Nat → Option (List (Val × Nat)))
    (nextIndex : Nat) (L base n : Nat) (hb : base + n ≤ L) (q : Nat → Option Val) (h : Nat → Bool) :
    runS (forIn (List.range n) PUnit.unit (fun index (_ : PUnit) => do
        hasSet (base + index) false
        queueSet (base + index) PyAlg.none
        pure (ForInStep.yield PUnit.unit))) { stores := stores, out := out, outer := outer, maps := maps, nextIndex := nextIndex, jq := qrep L q, jh := hrep L h }
      = (.ok PUnit.unit, { stores := stores, out := out, outer := outer, maps := maps, nextIndex := nextIndex, jq := qrep L (clearQ q base n),
                            jh := hrep L (clearHas h base n) }) := by
  have := model_loop (σ := (Nat → Option Val) × (Nat → Bool))
    (fun qh => { stores := stores, out := out, outer := outer, maps := maps, nextIndex := nextIndex, jq := qrep L qh.1, jh := hrep L qh.2 })
    (fun a qh => ((fun j => if j = base + a then none else qh.1 j), (fun j => if j = base + a then false else qh.2 j)))
    (fun index (_ : PUnit) => do
        hasSet (base + index) false
        queueSet (base + index) PyAlg.none
        pure (ForInStep.yield PUnit.unit)) (List.range n)
    (by
      intro a ha qh
      have ha' : a < n := by simpa using ha
      have h1 : base + a < (hrep L qh.2).length := by rw [hrep_length]; omega
      have h2 : base + a < (qrep L qh.1).length := by rw [qrep_length]; omega
      simp only [runS_bind]
      rw [runS_hasSet_ok _ _ _ (by exact h1)]
      simp only []
      rw [runS_queueSet_ok _ _ _ (by exact h2)]
      simp only [runS_pure, hrep_set]
      have : (PyAlg.none : Val) = (none : Option Val).getD Val.none := rfl
      rw [this, qrep_set])
    (q, h)
  rw [foldl_clear] at this
  exact this


/-- the reset loop at the completion of a key (`queue` first) -/
theorem reset_loop_qh (stores : Nat → Nat → Slot Val) (out outer : List (Ev Val)) (maps : Nat → Nat → Option (List (Val × Nat)))
    (nextIndex : Nat) (L base n : Nat) (hb : base + n ≤ L) (q : Nat → Option Val) (h : Nat → Bool) :
    runS (forIn (List.range n) PUnit.unit (fun index (_ : PUnit) => do
        queueSet (base + index) PyAlg.none
        hasSet (base + index) false
        pure (ForInStep.yield PUnit.unit))) { stores := stores, out := out, outer := outer, maps := maps, nextIndex := nextIndex, jq := qrep L q, jh := hrep L h }
      = (.ok PUnit.unit, { stores := stores, out := out, outer := outer, maps := maps, nextIndex := nextIndex, jq := qrep L (clearQ q base n),
                            jh := hrep L (clearHas h base n) }) := by
  have := model_loop (σ := (Nat → Option Val) × (Nat → Bool))
    (fun qh => { stores := stores, out := out, outer := outer, maps := maps, nextIndex := nextIndex, jq := qrep L qh.1, jh := hrep L qh.2 })
    (fun a qh => ((fun j => if j = base + a then none else qh.1 j), (fun j => if j = base + a then false else qh.2 j)))
    (fun index (_ : PUnit) => do
        queueSet (base + index) PyAlg.none
        hasSet (base + index) false
        pure (ForInStep.yield PUnit.unit)) (List.range n)
    (by
      intro a ha qh
      have ha' : a < n := by simpa using ha
      have h1 : base + a < (hrep L qh.2).length := by rw [hrep_length]; omega
      have h2 : base + a < (qrep L qh.1).length := by rw [qrep_length]; omega
      simp only [runS_bind]
      rw [runS_queueSet_ok _ _ _ (by exact h2)]
      simp only []
      rw [runS_hasSet_ok _ _ _ (by exact h1)]
      simp only [runS_pure, hrep_set]
      have : (PyAlg.none : Val) = (none : Option Val).getD Val.none := rfl
      rw [this, qrep_set])
    (q, h)
  rw [foldl_clear] at this
  exact this

/-- the growth loop at the creation of a key by branch 0 -/
theorem grow_loop_j (s : HSt Val) (l : List Nat) :
    runS (forIn l PUnit.unit (fun (_ : Nat) (_ : PUnit) => do
        queueAppend PyAlg.none
        hasAppend false
        pure (ForInStep.yield PUnit.unit))) s
      = (.ok PUnit.unit, { s with jq := s.jq ++ List.replicate l.length Val.none, jh := s.jh ++ List.replicate l.length false }) := by
  induction l generalizing s with
  | nil => simp [runS_pure]
  | cons a l ih =>
    rw [List.forIn_cons, runS_bind]
    simp only [runS_bind, runS_queueAppend, runS_hasAppend, runS_pure, ih, List.length_cons, List.replicate_succ, List.append_assoc,
      List.singleton_append]
    rfl

theorem qrep_grow (L k : Nat) (q : Nat → Option Val) (hout : ∀ j, L ≤ j → q j = none) :
    qrep L q ++ List.replicate k Val.none = qrep (L + k) q := by
  induction k with
  | zero => simp
  | succ k ih =>
    rw [List.replicate_succ', ← List.append_assoc, ih]
    unfold qrep
    rw [← Nat.add_assoc, List.range_succ, List.map_append]
    simp [hout (L + k) (by omega)]

theorem hrep_grow (L k : Nat) (h : Nat → Bool) (hout : ∀ j, L ≤ j → h j = false) :
    hrep L h ++ List.replicate k false = hrep (L + k) h := by
  induction k with
  | zero => simp
  | succ k ih =>
    rw [List.replicate_succ', ← List.append_assoc, ih]
    unfold hrep
    rw [← Nat.add_assoc, List.range_succ, List.map_append]
    simp [hout (L + k) (by omega)]


/-- the length of the two lists after an event -/
def joinLen (zc : Bool) (n i L : Nat) : Ev Val → Nat
  | .create k => if i = 0 ∧ zc = true then max L ((k.idx + 1) * n) else L
  | _ => L

theorem LinkH_join_create (zip combine : Bool) (n i L : Nat) (q : Nat → Option Val) (h : Nat → Bool) (s : HSt Val) (k : Key)
    (hq : s.jq = qrep L q) (hh : s.jh = hrep L h) (hout : ∀ j, L ≤ j → q j = none ∧ h j = false) :
    runS (Gen.tee_join_on_next zip combine n i (.create k)) s
      = (.ok (), { s with jq := qrep (joinLen (zip || combine) n i L (.create k)) q,
                          jh := hrep (joinLen (zip || combine) n i L (.create k)) h,
                          out := s.out ++ (if i = 0 then [Ev.create k] else []) }) := by
  obtain ⟨stores, out, outer, maps, nextIndex, jq, jh⟩ := s
  simp only at hq hh
  subst hq hh
  by_cases hi : i = 0
  · subst hi
    by_cases hzc : (zip || combine) = true
    · simp only [Gen.tee_join_on_next, decide_true, if_true, hzc, runS_bind, runS_lenQueue, qrep_length, joinLen, true_and,
        Int.ofNat_eq_natCast]
      by_cases hg : ((k.idx : Int) + ((1 : Nat) : Int)) * (n : Int) - (L : Int) > ((0 : Nat) : Int)
      · have hc : (((k.idx : Int) + ((1 : Nat) : Int)) * (n : Int) - (L : Int)).toNat = (k.idx + 1) * n - L := by
          have : ((k.idx : Int) + ((1 : Nat) : Int)) * (n : Int) = (((k.idx + 1) * n : Nat) : Int) := by simp [Int.natCast_mul]
          rw [this]; omega
        have hlt : L < (k.idx + 1) * n := by
          have : ((k.idx : Int) + ((1 : Nat) : Int)) * (n : Int) = (((k.idx + 1) * n : Nat) : Int) := by simp [Int.natCast_mul]
          rw [this] at hg; omega
        simp only [hg, decide_true, if_true, runS_bind, grow_loop_j, List.length_range, hc, runS_emit]
        have hmax : max L ((k.idx + 1) * n) = L + ((k.idx + 1) * n - L) := by omega
        rw [hmax, ← qrep_grow L _ q (fun j hj => (hout j hj).1), ← hrep_grow L _ h (fun j hj => (hout j hj).2)]
      · have hge : (k.idx + 1) * n ≤ L := by
          have : ((k.idx : Int) + ((1 : Nat) : Int)) * (n : Int) = (((k.idx + 1) * n : Nat) : Int) := by simp [Int.natCast_mul]
          rw [this] at hg; omega
        have hmax : max L ((k.idx + 1) * n) = L := by omega
        simp only [hg, decide_false, Bool.false_eq_true, if_false, runS_bind, runS_pure, runS_emit, hmax]
    · have hzc' : (zip || combine) = false := by simpa using hzc
      simp [Gen.tee_join_on_next, hzc', runS_bind, runS_pure, runS_emit, joinLen]
  · simp [Gen.tee_join_on_next, hi, runS_pure, joinLen]


theorem LinkH_join_done (mode : Join) (n i L : Nat) (st : JoinSt Val) (s : HSt Val) (k : Key)
    (hq : s.jq = qrep L st.queue) (hh : s.jh = hrep L st.has)
    (hlive : mode ≠ .merge → (k.idx + 1) * n ≤ L) :
    runS (Gen.tee_join_on_next mode.flags.1 mode.flags.2 n i (.done k)) s
      = (.ok (), { s with jq := qrep L (joinStep mode n mkTupleV id true st i (.done k)).1.queue,
                          jh := hrep L (joinStep mode n mkTupleV id true st i (.done k)).1.has,
                          out := s.out ++ (joinStep mode n mkTupleV id true st i (.done k)).2 }) := by
  obtain ⟨stores, out, outer, maps, nextIndex, jq, jh⟩ := s
  simp only at hq hh
  subst hq hh
  by_cases hi : i = n - 1
  · cases mode with
    | merge => simp [Gen.tee_join_on_next, Join.flags, joinStep, hi, runS_bind, runS_emit, runS_pure]
    | zip =>
      have hb : k.idx * n + n ≤ L := by
        have := hlive (by simp); have e : (k.idx + 1) * n = k.idx * n + n := by rw [Nat.add_mul, Nat.one_mul]
        omega
      simp only [Gen.tee_join_on_next, Join.flags, joinStep, hi, decide_true, if_true, Bool.true_or, runS_bind, runS_emit]
      first
        | rw [reset_loop_qh _ _ _ _ _ L (k.idx * n) n hb]
        | rw [reset_loop_hq _ _ _ _ _ L (k.idx * n) n hb]
      simp [runS_pure]
    | combine =>
      have hb : k.idx * n + n ≤ L := by
        have := hlive (by simp); have e : (k.idx + 1) * n = k.idx * n + n := by rw [Nat.add_mul, Nat.one_mul]
        omega
      simp only [Gen.tee_join_on_next, Join.flags, joinStep, hi, decide_true, if_true, Bool.or_true, runS_bind, runS_emit]
      first
        | rw [reset_loop_qh _ _ _ _ _ L (k.idx * n) n hb]
        | rw [reset_loop_hq _ _ _ _ _ L (k.idx * n) n hb]
      simp [runS_pure]
  · simp [Gen.tee_join_on_next, joinStep, hi, runS_pure]

theorem LinkH_join_other (mode : Join) (n i L : Nat) (st : JoinSt Val) (s : HSt Val) (ev : Ev Val)
    (hev : (∃ k e, ev = .err k e) ∨ (∃ e, ev = .fatal e)) :
    runS (Gen.tee_join_on_next mode.flags.1 mode.flags.2 n i ev) s
      = (.ok (), { s with out := s.out ++ (joinStep mode n mkTupleV id true st i ev).2 })
      ∧ (joinStep mode n mkTupleV id true st i ev).1 = st := by
  rcases hev with ⟨k, e, rfl⟩ | ⟨e, rfl⟩ <;> simp [Gen.tee_join_on_next, joinStep, runS_emit]


theorem hrep_slice (L a n : Nat) (h : Nat → Bool) (hb : a + n ≤ L) :
    ((hrep L h).take (a + n)).drop a = (List.range' a n).map h := slice_range h L a n hb

theorem qrep_slice (L a n : Nat) (q : Nat → Option Val) (hb : a + n ≤ L) :
    ((qrep L q).take (a + n)).drop a = (List.range' a n).map (fun j => (q j).getD Val.none) := slice_range _ L a n hb

theorem LinkH_join_next (mode : Join) (n i L : Nat) (st : JoinSt Val) (s : HSt Val) (k : Key) (x : Val)
    (hq : s.jq = qrep L st.queue) (hh : s.jh = hrep L st.has) (hi : i < n)
    (hlive : mode ≠ .merge → (k.idx + 1) * n ≤ L) :
    runS (Gen.tee_join_on_next mode.flags.1 mode.flags.2 n i (.next k x)) s
      = (.ok (), { s with jq := qrep L (joinStep mode n mkTupleV id true st i (.next k x)).1.queue,
                          jh := hrep L (joinStep mode n mkTupleV id true st i (.next k x)).1.has,
                          out := s.out ++ (joinStep mode n mkTupleV id true st i (.next k x)).2 }) := by
  obtain ⟨stores, out, outer, maps, nextIndex, jq, jh⟩ := s
  simp only at hq hh
  subst hq hh
  cases mode with
  | merge => simp [Gen.tee_join_on_next, Join.flags, joinStep, runS_emit]
  | zip =>
    obtain ⟨hidx, hb⟩ := key_base k.idx n i L hi (hlive (by simp))
    have h1 : k.idx * n + i < (qrep L st.queue).length := by rw [qrep_length]; exact hidx
    have h2 : k.idx * n + i < (hrep L st.has).length := by rw [hrep_length]; exact hidx
    have hx : x = (some x : Option Val).getD Val.none := rfl
    simp only [Gen.tee_join_on_next, Join.flags, Bool.true_or, if_true, runS_bind]
    rw [runS_queueSet_ok _ _ _ (by exact h1)]
    simp only []
    rw [runS_hasSet_ok _ _ _ (by exact h2)]
    simp only [runS_bind, runS_hasSlice]
    conv => lhs; rw [hx, qrep_set, hrep_set]
    simp only [hrep_slice _ _ _ _ hb, ← allHas_range]
    by_cases hall : allHas (fun j => if j = k.idx * n + i then true else st.has j) (k.idx * n) n = true
    · have hm : joinStep Join.zip n mkTupleV id true st i (Ev.next k x)
          = (⟨clearQ (fun j => if j = k.idx * n + i then some x else st.queue j) (k.idx * n) n,
              clearHas (fun j => if j = k.idx * n + i then true else st.has j) (k.idx * n) n⟩,
             [Ev.next k (mkTupleV (sliceQ (fun j => if j = k.idx * n + i then some x else st.queue j) (k.idx * n) n))]) := by
        simp only [joinStep, hall, if_true]
      rw [hm]
      simp only [hall, if_true, runS_bind, runS_tryCatch, runS_queueSlice, qrep_slice _ _ _ _ hb]
      first
        | rw [reset_loop_hq _ _ _ _ _ L (k.idx * n) n hb]
        | rw [reset_loop_qh _ _ _ _ _ L (k.idx * n) n hb]
      simp only [runS_emit, runS_er_pure, runS_bind, runS_pure, sliceQ_range, PyAlg.tup, EarlyReturn.runK]
    · have hm : joinStep Join.zip n mkTupleV id true st i (Ev.next k x)
          = (⟨(fun j => if j = k.idx * n + i then some x else st.queue j),
              (fun j => if j = k.idx * n + i then true else st.has j)⟩, []) := by
        simp only [joinStep, hall, if_false]
        rfl
      rw [hm]
      simp only [hall, if_false, runS_pure, List.append_nil]
      rfl
  | combine =>
    obtain ⟨hidx, hb⟩ := key_base k.idx n i L hi (hlive (by simp))
    have h1 : k.idx * n + i < (qrep L st.queue).length := by rw [qrep_length]; exact hidx
    have h2 : k.idx * n + i < (hrep L st.has).length := by rw [hrep_length]; exact hidx
    have hx : x = (some x : Option Val).getD Val.none := rfl
    have hm : joinStep Join.combine n mkTupleV id true st i (Ev.next k x)
        = (⟨(fun j => if j = k.idx * n + i then some x else st.queue j),
            (fun j => if j = k.idx * n + i then true else st.has j)⟩,
           [Ev.next k (mkTupleV (sliceQ (fun j => if j = k.idx * n + i then some x else st.queue j) (k.idx * n) n))]) := by
      simp only [joinStep]
    rw [hm]
    simp only [Gen.tee_join_on_next, Join.flags, Bool.or_true, if_true, runS_bind, Bool.false_eq_true, if_false]
    rw [runS_queueSet_ok _ _ _ (by exact h1)]
    simp only []
    rw [runS_hasSet_ok _ _ _ (by exact h2)]
    simp only [runS_bind]
    conv => lhs; rw [hx, qrep_set, hrep_set]
    simp only [runS_tryCatch, runS_bind, runS_queueSlice, qrep_slice _ _ _ _ hb, runS_emit, runS_er_pure, runS_pure, sliceQ_range,
      PyAlg.tup, EarlyReturn.runK]


/-- **`on_next(i, x)` of the multiplexed join of `tee_map`**, generated from rxsci/operators/tee_map.py, is the model's
`joinStep` (with the repaired completion handler): for every join mode, branch `i < n`, event and model state, from lists of
any length `L` that hold the model state (`qrep`, `hrep`), provided the key of an item or a completion was created
(`(key[0]+1)·n ≤ L`: the lists were grown at its `OnCreateMux` on branch 0, see `joinLen`) -/
theorem LinkH_tee_join (mode : Join) (n i L : Nat) (st : JoinSt Val) (s : HSt Val) (ev : Ev Val)
    (hq : s.jq = qrep L st.queue) (hh : s.jh = hrep L st.has)
    (hout : ∀ j, L ≤ j → st.queue j = none ∧ st.has j = false) (hi : i < n)
    (hlive : ∀ k, (ev = .done k ∨ ∃ v, ev = .next k v) → mode ≠ .merge → (k.idx + 1) * n ≤ L) :
    runS (Gen.tee_join_on_next mode.flags.1 mode.flags.2 n i ev) s
      = (.ok (), { s with jq := qrep (joinLen (mode.flags.1 || mode.flags.2) n i L ev) (joinStep mode n mkTupleV id true st i ev).1.queue,
                          jh := hrep (joinLen (mode.flags.1 || mode.flags.2) n i L ev) (joinStep mode n mkTupleV id true st i ev).1.has,
                          out := s.out ++ (joinStep mode n mkTupleV id true st i ev).2 }) := by
  cases ev with
  | create k =>
    rw [LinkH_join_create _ _ n i L st.queue st.has s k hq hh hout]
    simp [joinStep]
  | next k x => exact LinkH_join_next mode n i L st s k x hq hh hi (hlive k (Or.inr ⟨x, rfl⟩))
  | done k => exact LinkH_join_done mode n i L st s k hq hh (hlive k (Or.inl rfl))
  | err k e =>
    obtain ⟨h1, h2⟩ := LinkH_join_other mode n i L st s (.err k e) (Or.inl ⟨k, e, rfl⟩)
    rw [h1, h2]
    obtain ⟨stores, out, outer, maps, nextIndex, jq, jh⟩ := s
    simp only at hq hh
    subst hq hh
    rfl
  | fatal e =>
    obtain ⟨h1, h2⟩ := LinkH_join_other mode n i L st s (.fatal e) (Or.inr ⟨e, rfl⟩)
    rw [h1, h2]
    obtain ⟨stores, out, outer, maps, nextIndex, jq, jh⟩ := s
    simp only at hq hh
    subst hq hh
    rfl

/-- the lists never hold anything beyond their length: the hypothesis `hout` of `LinkH_tee_join` is an invariant, and after the
`OnCreateMux` of a key on branch 0 (zip / combine_latest) the lists cover the key: the hypothesis `hlive` for its later events -/
theorem join_inv (mode : Join) (n i L : Nat) (st : JoinSt Val) (ev : Ev Val)
    (hout : ∀ j, L ≤ j → st.queue j = none ∧ st.has j = false) (hi : i < n)
    (hlive : ∀ k, (ev = .done k ∨ ∃ v, ev = .next k v) → mode ≠ .merge → (k.idx + 1) * n ≤ L) :
    (∀ j, joinLen (mode.flags.1 || mode.flags.2) n i L ev ≤ j →
        (joinStep mode n mkTupleV id true st i ev).1.queue j = none ∧ (joinStep mode n mkTupleV id true st i ev).1.has j = false)
      ∧ L ≤ joinLen (mode.flags.1 || mode.flags.2) n i L ev
      ∧ (∀ k, ev = .create k → i = 0 → mode ≠ .merge → (k.idx + 1) * n ≤ joinLen (mode.flags.1 || mode.flags.2) n i L ev) := by
  refine ⟨?_, ?_, ?_⟩
  · intro j hj
    cases ev with
    | create k =>
      have : L ≤ j := by
        simp only [joinLen] at hj
        split at hj <;> omega
      simpa [joinStep] using hout j this
    | err k e => simpa [joinStep, joinLen] using hout j (by simpa [joinLen] using hj)
    | fatal e => simpa [joinStep, joinLen] using hout j (by simpa [joinLen] using hj)
    | done k =>
      have hj' : L ≤ j := by simpa [joinLen] using hj
      obtain ⟨h1, h2⟩ := hout j hj'
      simp only [joinStep]
      split
      · split
        · exact ⟨h1, h2⟩
        · simp [clearQ_spec, clearHas_spec, h1, h2]
      · exact ⟨h1, h2⟩
    | next k x =>
      have hj' : L ≤ j := by simpa [joinLen] using hj
      obtain ⟨h1, h2⟩ := hout j hj'
      cases mode with
      | merge => simpa [joinStep] using ⟨h1, h2⟩
      | zip =>
        obtain ⟨hidx, hb⟩ := key_base k.idx n i L hi (hlive k (Or.inr ⟨x, rfl⟩) (by simp))
        have hne : j ≠ k.idx * n + i := by omega
        simp only [joinStep]
        split <;> simp [clearQ_spec, clearHas_spec, h1, h2, hne]
      | combine =>
        obtain ⟨hidx, hb⟩ := key_base k.idx n i L hi (hlive k (Or.inr ⟨x, rfl⟩) (by simp))
        have hne : j ≠ k.idx * n + i := by omega
        simp [joinStep, h1, h2, hne]
  · cases ev <;> simp only [joinLen, Nat.le_refl]
    split <;> omega
  · intro k hk h0 hm
    subst hk h0
    have : (mode.flags.1 || mode.flags.2) = true := by cases mode <;> simp_all [Join.flags]
    simp only [joinLen, this, and_self, if_true]
    omega

/-- the hypotheses of `LinkH_tee_join` are satisfiable with a half-filled row (two branches, key 0 created, branch 0 delivered) -/
example :
    let st : JoinSt Val := ⟨fun j => if j = 0 then some (.int 7) else none, fun j => j = 0⟩
    (∀ j, 2 ≤ j → st.queue j = none ∧ st.has j = false) ∧ (Key.idx [0] + 1) * 2 ≤ 2 ∧ st.has 0 = true := by
  refine ⟨?_, by simp [Key.idx], by simp⟩
  intro j hj
  have : j ≠ 0 := by omega
  simp [this]

end Rx

import RxModel.Numeric
import Mathlib.Tactic.FieldSimp
import Mathlib.Tactic.Ring
import Mathlib.Tactic.Linarith
import Mathlib.Data.Rat.Defs
import Mathlib.Algebra.Order.Field.Rat
import Mathlib.Algebra.Order.Ring.Abs
import Mathlib.Algebra.Order.BigOperators.Group.List
/-!
# C12 — math aggregates: exact statistics over ℚ, stream = reduce, and a rounding bound for `sum`

`RxModel/Numeric.lean` defines the accumulators of rxsci.math generically over the carrier.  The
driver executes them at `Float` (compared bit for bit with CPython); here they are instantiated at
`ℚ`, where arithmetic is exact, and shown to compute the mathematical statistics for every input.
The floating-point forward-error bound is proved for `sum` in the standard model
`fl(a + b) = (a + b)(1 + δ)`, `|δ| ≤ u`; for the variance family it is NOT proved (testing only).
-/
namespace Rx

def sumsq (xs : List ℚ) : ℚ := (xs.map (fun x => x * x)).sum

theorem foldl_add_eq (xs : List ℚ) (a : ℚ) : xs.foldl (· + ·) a = a + xs.sum := by
  induction xs generalizing a with
  | nil => simp
  | cons x xs ih => simp [List.foldl_cons, ih, add_assoc]

/-- `sum` (streaming or reduce) computes the exact sum -/
theorem C12_sum (xs : List ℚ) : sumK xs = xs.sum := by
  simp [sumK, foldl_add_eq]

/-- `mean` computes sum / count -/
theorem C12_mean (xs : List ℚ) : meanK xs = xs.sum / xs.length := by
  simp [meanK, C12_sum]

/-- invariant of Welford's update: `m·n = Σx` and `s = Σx² − n·m²` -/
theorem wstep_inv (xs : List ℚ) (x : ℚ) (m s : ℚ) (hk : xs ≠ [])
    (hm : m * xs.length = xs.sum) (hs : s = sumsq xs - xs.length * m * m) :
    let r := wstep (some ⟨m, s, xs.length⟩) x
    r.m * ((xs ++ [x]).length : ℚ) = (xs ++ [x]).sum ∧
    r.s = sumsq (xs ++ [x]) - ((xs ++ [x]).length : ℚ) * r.m * r.m ∧ r.k = (xs ++ [x]).length := by
  have hlen : xs.length ≠ 0 := by simpa [List.length_eq_zero_iff] using hk
  have hpos : (0 : ℚ) < xs.length := by exact_mod_cast Nat.pos_of_ne_zero hlen
  simp only [wstep, List.length_append, List.length_singleton, List.sum_append,
    List.sum_singleton, sumsq, List.map_append, List.map_singleton, and_true]
  push_cast
  have h1 : ((xs.length : ℚ) + 1) ≠ 0 := by linarith
  refine ⟨?_, ?_⟩
  · field_simp; linarith [hm]
  · subst hs
    simp only [sumsq]
    have hm' : xs.sum = m * xs.length := hm.symm
    field_simp
    rw [hm'] at *
    ring

/-- Welford's state after any non-empty sequence: exact mean, exact sum of squares about it, count -/
theorem welford_state : ∀ (ys xs : List ℚ) (m s : ℚ), xs ≠ [] →
    m * xs.length = xs.sum → s = sumsq xs - xs.length * m * m →
    ∃ m' s', wfold (some ⟨m, s, xs.length⟩) ys = some ⟨m', s', (xs ++ ys).length⟩ ∧
      m' * ((xs ++ ys).length : ℚ) = (xs ++ ys).sum ∧
      s' = sumsq (xs ++ ys) - ((xs ++ ys).length : ℚ) * m' * m' := by
  intro ys
  induction ys with
  | nil => intro xs m s _ hm hs; exact ⟨m, s, by simp [wfold], by simpa using hm, by simpa using hs⟩
  | cons y ys ih =>
    intro xs m s hk hm hs
    obtain ⟨h1, h2, h3⟩ := wstep_inv xs y m s hk hm hs
    have := ih (xs ++ [y]) (wstep (some ⟨m, s, xs.length⟩) y).m (wstep (some ⟨m, s, xs.length⟩) y).s
      (by simp) h1 h2
    obtain ⟨m', s', e1, e2, e3⟩ := this
    refine ⟨m', s', ?_, by simpa using e2, by simpa using e3⟩
    simp only [wfold]
    have hst : wstep (some ⟨m, s, xs.length⟩) y =
        ⟨(wstep (some ⟨m, s, xs.length⟩) y).m, (wstep (some ⟨m, s, xs.length⟩) y).s, (xs ++ [y]).length⟩ := by
      rw [← h3]
    rw [hst, e1]
    simp

/-- **variance** (sample, n−1): for every sequence the Welford accumulator of rxsci.math.variance
yields `(Σx² − n·mean²)/(n−1)` — i.e. `Σ(x−mean)²/(n−1)`, see `sum_sq_dev` — for `n ≥ 2` and `0` for
fewer than two items -/
theorem C12_variance (xs : List ℚ) :
    wvar (wfold none xs) =
      if xs.length < 2 then 0
      else (sumsq xs - xs.length * (xs.sum / xs.length) * (xs.sum / xs.length)) / ((xs.length : ℚ) - 1) := by
  cases xs with
  | nil => simp [wfold, wvar]
  | cons x ys =>
    have h0 := welford_state ys [x] x 0 (by simp) (by simp) (by simp [sumsq])
    obtain ⟨m', s', e1, e2, e3⟩ := h0
    have hw : wfold none (x :: ys) = some ⟨m', s', ([x] ++ ys).length⟩ := by
      simp only [wfold]
      have : wstep (none : Option (WSt ℚ)) x = ⟨x, 0, [x].length⟩ := by simp [wstep]
      rw [this]; exact e1
    rw [hw]
    simp only [wvar, List.singleton_append, List.length_cons] at *
    by_cases hn : ys.length + 1 < 2
    · simp [hn]
    · simp only [hn, if_false]
      have hpos : ((ys.length : ℚ) + 1) ≠ 0 := by positivity
      have hm : m' = (x :: ys).sum / ((ys.length : ℚ) + 1) := by
        field_simp
        push_cast at e2
        linarith [e2]
      rw [e3, hm]
      have hcast : ((ys.length + 1 - 1 : ℕ) : ℚ) = ((ys.length : ℚ) + 1) - 1 := by
        simp
      push_cast
      simp [hcast]

/-- the sum of squared deviations from the mean, in the two forms used above -/
theorem sum_sq_dev (xs : List ℚ) (hn : xs ≠ []) :
    (xs.map (fun x => (x - xs.sum / xs.length) * (x - xs.sum / xs.length))).sum =
      sumsq xs - xs.length * (xs.sum / xs.length) * (xs.sum / xs.length) := by
  have hlen : (xs.length : ℚ) ≠ 0 := by
    have : xs.length ≠ 0 := by simpa [List.length_eq_zero_iff] using hn
    exact_mod_cast this
  have key : ∀ (c : ℚ) (ys : List ℚ),
      (ys.map (fun x => (x - c) * (x - c))).sum = sumsq ys - 2 * c * ys.sum + ys.length * c * c := by
    intro c ys
    induction ys with
    | nil => simp [sumsq]
    | cons y ys ih =>
      simp only [List.map_cons, List.sum_cons, ih, sumsq, List.length_cons]
      push_cast
      ring
  rw [key]
  field_simp
  ring

/-- **formal.variance** (population): the mean of the squared deviations from the mean; 0 for no item -/
theorem C12_formal (xs : List ℚ) :
    fvarK xs = if xs.length = 0 then 0
      else (xs.map (fun x => (x - xs.sum / xs.length) * (x - xs.sum / xs.length))).sum / xs.length := by
  unfold fvarK moment2K
  split
  · rfl
  · simp [C12_sum, C12_mean]

/-- **stream = reduce**: the last streamed variance is the variance of the whole sequence -/
theorem C12_stream_eq_reduce {K : Type} [Add K] [Sub K] [Mul K] [Div K] [NatCast K] [OfNat K 0] :
    ∀ (xs : List K) (st : Option (WSt K)), xs ≠ [] →
      (variances st xs).getLast? = some (wvar (wfold st xs)) := by
  intro xs
  induction xs with
  | nil => intro st h; exact absurd rfl h
  | cons x xs ih =>
    intro st _
    cases xs with
    | nil => simp [variances, wfold]
    | cons y ys =>
      have := ih (some (wstep st x)) (by simp)
      simp only [variances, wfold] at this ⊢
      rw [List.getLast?_cons_cons]
      exact this

/-! ### rounding bound for `sum` in the standard floating-point model -/

/-- floating-point summation with one rounding error `δ_i` per addition: `fl(a+b) = (a+b)(1+δ_i)` -/
def fsum : ℚ → List (ℚ × ℚ) → ℚ
  | acc, [] => acc
  | acc, (x, d) :: r => fsum ((acc + x) * (1 + d)) r

/-- `|fl-sum − exact sum| ≤ ((1+u)^n − 1) · Σ|x_i|` for all inputs and all rounding errors `|δ_i| ≤ u`
(the bound is proportional to machine epsilon, the item count and the conditioning `Σ|x| / |Σx|`) -/
theorem C12_sum_rounding (u : ℚ) (hu : 0 ≤ u) :
    ∀ (xs : List (ℚ × ℚ)) (acc e : ℚ), (∀ p ∈ xs, |p.2| ≤ u) →
      |fsum acc xs - (e + (xs.map (·.1)).sum)| ≤
        |acc - e| * (1 + u) ^ xs.length + ((1 + u) ^ xs.length - 1) * (|e| + (xs.map (fun p => |p.1|)).sum) := by
  intro xs
  induction xs with
  | nil => intro acc e _; simp [fsum]
  | cons p xs ih =>
    intro acc e hd
    obtain ⟨x, d⟩ := p
    have hdx : |d| ≤ u := hd (x, d) (by simp)
    have hrest : ∀ q ∈ xs, |q.2| ≤ u := fun q hq => hd q (by simp [hq])
    have := ih ((acc + x) * (1 + d)) (e + x) hrest
    simp only [fsum, List.map_cons, List.sum_cons, List.length_cons]
    have e1 : e + (x + (xs.map (·.1)).sum) = (e + x) + (xs.map (·.1)).sum := by ring
    rw [e1]
    refine le_trans this ?_
    -- |(acc+x)(1+d) − (e+x)| ≤ |acc−e|(1+u) + u(|e|+|x|)
    have h1 : |(acc + x) * (1 + d) - (e + x)| ≤ |acc - e| * (1 + u) + u * (|e| + |x|) := by
      have : (acc + x) * (1 + d) - (e + x) = (acc - e) * (1 + d) + (e + x) * d := by ring
      rw [this]
      calc |(acc - e) * (1 + d) + (e + x) * d|
          ≤ |(acc - e) * (1 + d)| + |(e + x) * d| := abs_add_le _ _
        _ = |acc - e| * |1 + d| + |e + x| * |d| := by rw [abs_mul, abs_mul]
        _ ≤ |acc - e| * (1 + u) + (|e| + |x|) * u := by
            have a1 : |1 + d| ≤ 1 + u := by
              calc |1 + d| ≤ |(1 : ℚ)| + |d| := abs_add_le _ _
                _ ≤ 1 + u := by rw [abs_one]; linarith
            have a2 : |e + x| ≤ |e| + |x| := abs_add_le _ _
            have n1 : 0 ≤ |acc - e| := abs_nonneg _
            have n2 : 0 ≤ |e| + |x| := by positivity
            nlinarith [abs_nonneg d, abs_nonneg (e + x)]
        _ = |acc - e| * (1 + u) + u * (|e| + |x|) := by ring
    have h2 : |e + x| ≤ |e| + |x| := abs_add_le _ _
    have hp : (0 : ℚ) ≤ (1 + u) ^ xs.length := by positivity
    have hp1 : (1 : ℚ) ≤ (1 + u) ^ xs.length := one_le_pow₀ (by linarith)
    have hS : 0 ≤ (xs.map (fun p => |p.1|)).sum := by
      apply List.sum_nonneg
      intro a ha
      simp only [List.mem_map] at ha
      obtain ⟨q, _, rfl⟩ := ha
      exact abs_nonneg _
    have hne : 0 ≤ |e| := abs_nonneg _
    have hnx : 0 ≤ |x| := abs_nonneg _
    have hnacc : 0 ≤ |acc - e| := abs_nonneg _
    rw [pow_succ]
    nlinarith [mul_le_mul_of_nonneg_right h1 hp, mul_nonneg hp hS, mul_nonneg hu hS,
      mul_nonneg (sub_nonneg.mpr hp1) hne, mul_nonneg (sub_nonneg.mpr hp1) hnx, mul_nonneg hu (mul_nonneg hp hS)]

/-! non-vacuity -/
example : wvar (wfold none [(1 : ℚ), 2, 4]) = 7 / 3 := by norm_num [wfold, wstep, wvar]

end Rx

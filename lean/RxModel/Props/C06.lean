import RxModel.Spec
/-!
# C06 — split cuts each key's stream into maximal runs of equal predicate value

About `splitLS p`, the splitter of one parent key lifetime written as `split_mux.on_next` (the
predicate value stored when the segment was opened, compared with `!=`); the observer
`LSplit.windows` collects what each segment received, in completion order.
-/
namespace Rx

/-- maximal runs of equal `p`-value -/
def runsBy {α κ : Type} [DecidableEq κ] (p : α → κ) : List α → List (List α)
  | [] => []
  | x :: xs =>
    match runsBy p xs with
    | [] => [[x]]
    | [] :: rs => [x] :: rs
    | (y :: r) :: rs => if p x = p y then (x :: y :: r) :: rs else [x] :: (y :: r) :: rs

/-! specification of `runsBy`: a partition into non-empty, constant, maximal runs -/

theorem runsBy_flatten {α κ : Type} [DecidableEq κ] (p : α → κ) (xs : List α) : (runsBy p xs).flatten = xs := by
  induction xs with
  | nil => rfl
  | cons x xs ih =>
    simp only [runsBy]
    split
    · next h => rw [h] at ih; simp at ih; simp [ih]
    · next rs h => rw [h] at ih; simpa using ih
    · next y r rs h =>
      rw [h] at ih
      split <;> simpa using ih

theorem runsBy_nonempty {α κ : Type} [DecidableEq κ] (p : α → κ) (xs : List α) : ∀ r ∈ runsBy p xs, r ≠ [] := by
  induction xs with
  | nil => simp [runsBy]
  | cons x xs ih =>
    simp only [runsBy]
    split
    · simp
    · next rs h => rw [h] at ih; intro r hr; have := ih [] (by simp); exact absurd rfl this
    · next y r rs h =>
      rw [h] at ih
      split
      · intro r' hr'
        rcases List.mem_cons.mp hr' with rfl | h2
        · simp
        · exact ih r' (by simp [h2])
      · intro r' hr'
        rcases List.mem_cons.mp hr' with rfl | h2
        · simp
        · exact ih r' h2

theorem runsBy_constant {α κ : Type} [DecidableEq κ] (p : α → κ) (xs : List α) :
    ∀ r ∈ runsBy p xs, ∀ a ∈ r, ∀ b ∈ r, p a = p b := by
  induction xs with
  | nil => simp [runsBy]
  | cons x xs ih =>
    simp only [runsBy]
    split
    · intro r hr a ha b hb; simp at hr; subst hr; simp at ha hb; rw [ha, hb]
    · next rs h => rw [h] at ih; intro r hr; have := ih [] (by simp); intro a ha b hb
                   rcases List.mem_cons.mp hr with rfl | h2
                   · simp at ha hb; rw [ha, hb]
                   · exact ih r (by simp [h2]) a ha b hb
    · next y r rs h =>
      rw [h] at ih
      have hy := ih (y :: r) (by simp)
      split
      · next hxy =>
        intro r' hr' a ha b hb
        rcases List.mem_cons.mp hr' with rfl | h2
        · have hall : ∀ c ∈ x :: y :: r, p c = p y := by
            intro c hc
            rcases List.mem_cons.mp hc with rfl | hc
            · exact hxy
            · exact hy c hc y (by simp)
          rw [hall a ha, hall b hb]
        · exact ih r' (by simp [h2]) a ha b hb
      · intro r' hr' a ha b hb
        rcases List.mem_cons.mp hr' with rfl | h2
        · simp at ha hb; rw [ha, hb]
        · exact ih r' h2 a ha b hb

/-- adjacent runs have different predicate values (runs are maximal) -/
def AdjDiff {α κ} (p : α → κ) : List (List α) → Prop
  | [] => True
  | [_] => True
  | r1 :: r2 :: rs => (∀ a ∈ r1.getLast?, ∀ b ∈ r2.head?, p a ≠ p b) ∧ AdjDiff p (r2 :: rs)

theorem runsBy_block {α κ : Type} [DecidableEq κ] (p : α → κ) (c : κ) :
    ∀ (cur : List α), cur ≠ [] → (∀ y ∈ cur, p y = c) → ∀ (x : α) (xs : List α), p x ≠ c →
      runsBy p (cur ++ x :: xs) = cur :: runsBy p (x :: xs) := by
  intro cur
  induction cur with
  | nil => intro h; exact absurd rfl h
  | cons a cur ih =>
    intro _ hall x xs hx
    have ha : p a = c := hall a (by simp)
    cases cur with
    | nil =>
      simp only [List.singleton_append, List.cons_append, List.nil_append]
      have hne : ∃ y r rs, runsBy p (x :: xs) = (y :: r) :: rs ∧ y = x := by
        simp only [runsBy]
        split
        · exact ⟨x, [], [], rfl, rfl⟩
        · exact ⟨x, [], _, rfl, rfl⟩
        · split
          · exact ⟨x, _, _, rfl, rfl⟩
          · exact ⟨x, [], _, rfl, rfl⟩
      obtain ⟨y, r, rs, hr, hyx⟩ := hne
      conv => lhs; unfold runsBy
      rw [hr]
      subst hyx
      have : p a ≠ p y := by rw [ha]; exact fun h => hx h.symm
      simp [this]
    | cons b cur =>
      have hb : p b = c := hall b (by simp)
      have := ih (by simp) (fun y hy => hall y (by simp [hy])) x xs hx
      simp only [List.cons_append] at this ⊢
      conv => lhs; unfold runsBy
      rw [this]
      simp [ha, hb]

theorem runsBy_const {α κ : Type} [DecidableEq κ] (p : α → κ) (c : κ) :
    ∀ (cur : List α), cur ≠ [] → (∀ y ∈ cur, p y = c) → runsBy p cur = [cur] := by
  intro cur
  induction cur with
  | nil => intro h; exact absurd rfl h
  | cons a cur ih =>
    intro _ hall
    cases cur with
    | nil => simp [runsBy]
    | cons b cur =>
      have := ih (by simp) (fun y hy => hall y (by simp [hy]))
      conv => lhs; unfold runsBy
      rw [this]
      simp [hall a (by simp), hall b (by simp)]

/-- simulation: from a state with an open segment `cur` (non-empty, all of predicate value `c`) -/
theorem split_run {α κ : Type} [DecidableEq κ] (p : α → κ) :
    ∀ (xs : List α) (c : κ) (cur : List α) (cl : List (List α)) (opn : Nat → Option (List α)),
      cur ≠ [] → (∀ y ∈ cur, p y = c) → opn 0 = some cur →
      let r := (splitLS p).runObs (some c, ⟨opn, cl⟩) xs
      ∃ c' cur', r.1 = some c' ∧ r.2.opn 0 = some cur' ∧
        r.2.closed ++ [cur'] = cl ++ runsBy p (cur ++ xs) := by
  intro xs
  induction xs with
  | nil =>
    intro c cur cl opn hne hall hop
    refine ⟨c, cur, rfl, hop, ?_⟩
    simp [LSplit.runObs, runObsRaw, runsBy_const p c cur hne hall]
  | cons x xs ih =>
    intro c cur cl opn hne hall hop
    simp only [LSplit.runObs, runObsRaw, splitLS]
    by_cases hx : p x = c
    · simp only [hx, ne_eq, not_true_eq_false, if_false]
      have := ih c (cur ++ [x]) cl (fun o' => if o' = 0 then (opn 0).map (· ++ [x]) else opn o')
        (by simp) (by intro y hy; rcases List.mem_append.mp hy with h | h; exact hall y h; simp at h; rw [h, hx])
        (by simp [hop])
      simp only [LSplit.runObs, splitLS] at this
      simpa [obsRun, obsStep, List.append_assoc] using this
    · simp only [hx, ne_eq, not_false_eq_true, if_true]
      have := ih (p x) [x] (cl ++ [cur])
        (fun o' => if o' = 0 then some [x] else (upd (upd opn 0 none) 0 (some [])) o')
        (by simp) (by simp) (by simp)
      simp only [LSplit.runObs, splitLS] at this
      obtain ⟨c', cur', h1, h2, h3⟩ := this
      refine ⟨c', cur', ?_, ?_, ?_⟩
      · simpa [obsRun, obsStep, hop, upd] using h1
      · simpa [obsRun, obsStep, hop, upd] using h2
      · have hb := runsBy_block p c cur hne hall x xs hx
        rw [hb]
        simp only [obsRun, obsStep, hop, upd, List.foldl_cons, List.foldl_nil, Option.getD_some,
          List.singleton_append, List.append_assoc, List.cons_append, List.nil_append] at h3 ⊢
        simpa using h3

/-- **C06**: the segments of one key (completed while items arrive, then the last one at the key's
completion) are exactly the maximal runs of equal predicate value, in order; a key that received
no item produces no segment; the last segment is the only one completed at the key's completion -/
theorem C06_segments {α κ : Type} [DecidableEq κ] (p : α → κ) (xs : List α) :
    ((splitLS p).windows xs).1 ++ ((splitLS p).windows xs).2 = runsBy p xs ∧
    ((splitLS p).windows xs).2.length = (if xs = [] then 0 else 1) := by
  cases xs with
  | nil => simp [LSplit.windows, LSplit.runObs, runObsRaw, splitLS, obsRun, Obs.empty, runsBy]
  | cons x xs =>
    have h := split_run p xs (p x) [x] [] (fun o' => if o' = 0 then some [x] else none)
      (by simp) (by simp) (by simp)
    obtain ⟨c', cur', h1, h2, h3⟩ := h
    have hstart : (splitLS p).runObs ((splitLS p).init, Obs.empty) (x :: xs) =
        (splitLS p).runObs (some (p x), ⟨fun o' => if o' = 0 then some [x] else none, []⟩) xs := by
      simp only [LSplit.runObs, runObsRaw, splitLS, Obs.empty, obsRun, obsStep, List.foldl_cons, List.foldl_nil, upd]
      congr 3
      funext o'
      by_cases ho : o' = 0 <;> simp [ho]
    simp only [LSplit.windows, hstart]
    simp only [LSplit.runObs, splitLS] at h1 h2 h3 ⊢
    rw [h1]
    simp only [obsRun, obsStep, List.foldl_cons, List.foldl_nil, h2, Option.getD_some, List.nil_append]
    simp only [List.nil_append, List.singleton_append] at h3
    exact ⟨by simpa using h3, by simp⟩

/-- the runs partition the input: concatenated they give back every item once, in order -/
theorem C06_runs_partition {α κ : Type} [DecidableEq κ] (p : α → κ) (xs : List α) :
    (runsBy p xs).flatten = xs ∧ (∀ r ∈ runsBy p xs, r ≠ []) ∧
    (∀ r ∈ runsBy p xs, ∀ a ∈ r, ∀ b ∈ r, p a = p b) :=
  ⟨runsBy_flatten p xs, runsBy_nonempty p xs, runsBy_constant p xs⟩

/-- a new run starts exactly when the predicate value changes: a block of equal predicate value
followed by an item of a different value is cut right there -/
theorem C06_runs_maximal {α κ : Type} [DecidableEq κ] (p : α → κ) (c : κ) (cur : List α) (hne : cur ≠ [])
    (hall : ∀ y ∈ cur, p y = c) :
    runsBy p cur = [cur] ∧ ∀ x xs, p x ≠ c → runsBy p (cur ++ x :: xs) = cur :: runsBy p (x :: xs) :=
  ⟨runsBy_const p c cur hne hall, runsBy_block p c cur hne hall⟩

/-! non-vacuity -/
example : (splitLS (fun n : Nat => n / 3)).windows [0, 1, 2, 3, 4, 6] = ([[0, 1, 2], [3, 4]], [[6]]) := by decide
example : runsBy (fun n : Nat => n % 2) [1, 3, 2, 4, 5] = [[1, 3], [2, 4], [5]] := by decide

end Rx

import RxModel.Spec
/-!
# C04 — group_by partitions the stream by key, preserving order within each group

About `groupByLS f`, the splitter of one parent key lifetime written as `group_by_mux.on_next`
(the mapper dict as an insertion-ordered association list, looked up with `==`, groups flushed in
dict order at parent completion).
-/
namespace Rx

/-- distinct key values in order of first appearance (`acc` = those already seen) -/
def keysAcc {α κ : Type} [DecidableEq κ] (f : α → κ) : List κ → List α → List κ
  | acc, [] => acc
  | acc, x :: xs => keysAcc f (if f x ∈ acc then acc else acc ++ [f x]) xs

def keysOf {α κ : Type} [DecidableEq κ] (f : α → κ) (xs : List α) : List κ := keysAcc f [] xs

/-- the groups: for each key in first-appearance order, the subsequence of its items -/
def groupsOf {α κ : Type} [DecidableEq κ] (f : α → κ) (xs : List α) : List (List α) :=
  (keysOf f xs).map fun k => xs.filter (fun x => f x = k)

theorem keysAcc_snoc {α κ : Type} [DecidableEq κ] (f : α → κ) : ∀ (xs : List α) (acc : List κ) (x : α),
    keysAcc f acc (xs ++ [x]) =
      if f x ∈ keysAcc f acc xs then keysAcc f acc xs else keysAcc f acc xs ++ [f x] := by
  intro xs
  induction xs with
  | nil => intro acc x; rfl
  | cons y ys ih => intro acc x; simp only [List.cons_append, keysAcc]; exact ih _ x

theorem keysOf_snoc {α κ : Type} [DecidableEq κ] (f : α → κ) (xs : List α) (x : α) :
    keysOf f (xs ++ [x]) = if f x ∈ keysOf f xs then keysOf f xs else keysOf f xs ++ [f x] :=
  keysAcc_snoc f xs [] x

theorem mem_keysAcc {α κ : Type} [DecidableEq κ] (f : α → κ) : ∀ (xs : List α) (acc : List κ) (k : κ),
    k ∈ keysAcc f acc xs ↔ k ∈ acc ∨ ∃ x ∈ xs, f x = k := by
  intro xs
  induction xs with
  | nil => intro acc k; simp [keysAcc]
  | cons y ys ih =>
    intro acc k
    simp only [keysAcc, ih, List.mem_cons]
    by_cases h : f y ∈ acc
    · simp only [h, if_true]
      constructor
      · rintro (h1 | ⟨x, hx, rfl⟩)
        · exact Or.inl h1
        · exact Or.inr ⟨x, Or.inr hx, rfl⟩
      · rintro (h1 | ⟨x, rfl | hx, rfl⟩)
        · exact Or.inl h1
        · exact Or.inl h
        · exact Or.inr ⟨x, hx, rfl⟩
    · simp only [h, if_false, List.mem_append, List.mem_singleton]
      constructor
      · rintro ((h1 | rfl) | ⟨x, hx, rfl⟩)
        · exact Or.inl h1
        · exact Or.inr ⟨y, Or.inl rfl, rfl⟩
        · exact Or.inr ⟨x, Or.inr hx, rfl⟩
      · rintro (h1 | ⟨x, rfl | hx, rfl⟩)
        · exact Or.inl (Or.inl h1)
        · exact Or.inl (Or.inr rfl)
        · exact Or.inr ⟨x, hx, rfl⟩

theorem mem_keysOf {α κ : Type} [DecidableEq κ] (f : α → κ) (xs : List α) (k : κ) :
    k ∈ keysOf f xs ↔ ∃ x ∈ xs, f x = k := by
  unfold keysOf; simpa using mem_keysAcc f xs [] k

theorem keysAcc_nodup {α κ : Type} [DecidableEq κ] (f : α → κ) : ∀ (xs : List α) (acc : List κ),
    acc.Nodup → (keysAcc f acc xs).Nodup := by
  intro xs
  induction xs with
  | nil => intro acc h; simpa [keysAcc] using h
  | cons y ys ih =>
    intro acc h
    simp only [keysAcc]
    apply ih
    by_cases hy : f y ∈ acc
    · simpa [hy] using h
    · simp only [hy, if_false]
      exact List.nodup_append.mpr ⟨h, by simp, by
        intro a ha b hb
        simp at hb; subst hb
        exact fun hab => hy (hab ▸ ha)⟩

theorem keysOf_nodup {α κ : Type} [DecidableEq κ] (f : α → κ) (xs : List α) : (keysOf f xs).Nodup :=
  keysAcc_nodup f xs [] List.nodup_nil

/-- invariant of `group_by` after the items `xs` of one parent lifetime -/
structure GInv {α κ : Type} [DecidableEq κ] (f : α → κ) (xs : List α) (m : List (κ × Nat)) (ob : Obs α) : Prop where
  keys : m.map (·.1) = keysOf f xs
  idx : ∀ j (h : j < m.length), (m[j]).2 = j
  opn : ∀ j, ob.opn j = if h : j < m.length then some (xs.filter (fun x => f x = (m[j]).1)) else none
  closed : ob.closed = []

theorem gbLookup_spec {κ} [DecidableEq κ] (m : List (κ × Nat)) (g : κ) (hnd : (m.map (·.1)).Nodup)
    (hidx : ∀ j (h : j < m.length), (m[j]).2 = j) :
    (g ∉ m.map (·.1) → gbLookup m g = none) ∧
    (∀ j (h : j < m.length), (m[j]).1 = g → gbLookup m g = some j) := by
  constructor
  · intro hg
    unfold gbLookup
    have : m.find? (fun p => decide (p.1 = g)) = none := by
      rw [List.find?_eq_none]
      intro p hp
      simp only [decide_eq_true_eq]
      intro h; exact hg (List.mem_map.mpr ⟨p, hp, h⟩)
    simp [this]
  · intro j hj hg
    unfold gbLookup
    have hfind : m.find? (fun p => decide (p.1 = g)) = some m[j] := by
      rw [List.find?_eq_some_iff_getElem]
      refine ⟨by simpa using hg, j, hj, rfl, ?_⟩
      intro i hi
      simp only [Bool.not_eq_true', decide_eq_false_iff_not]
      intro heq'
      have h1 : (m.map (·.1))[i]'(by simp; omega) = (m.map (·.1))[j]'(by simp; omega) := by
        simp [heq', hg]
      have := (List.getElem_inj hnd).mp h1
      omega
    simp [hfind, hidx j hj]

theorem ginv_step {α κ : Type} [DecidableEq κ] (f : α → κ) (xs : List α) (m : List (κ × Nat)) (ob : Obs α) (x : α)
    (h : GInv f xs m ob) :
    GInv f (xs ++ [x]) (gbNext f m x).1 (obsRun ob (gbNext f m x).2) := by
  obtain ⟨hk, hi, ho, hc⟩ := h
  have hnd : (m.map (·.1)).Nodup := by rw [hk]; exact keysOf_nodup f xs
  have hl := gbLookup_spec m (f x) hnd hi
  by_cases hmem : f x ∈ m.map (·.1)
  · -- existing group
    obtain ⟨j, hj, hjx⟩ := List.mem_iff_getElem.mp hmem
    have hj' : j < m.length := by simpa using hj
    have hg : (m[j]).1 = f x := by simpa using hjx
    have hlook := hl.2 j hj' hg
    simp only [gbNext, hlook]
    refine ⟨?_, hi, ?_, ?_⟩
    · have hmem' : f x ∈ keysOf f xs := by rw [← hk]; exact hmem
      rw [keysOf_snoc]; simp [hmem', hk]
    · intro j2
      simp only [obsRun, obsStep, List.foldl_cons, List.foldl_nil]
      by_cases hj2 : j2 = j
      · subst hj2
        simp [ho, hj', List.filter_append, hg]
      · simp only [hj2, if_false, ho]
        by_cases hlt : j2 < m.length
        · simp only [hlt, dite_true, List.filter_append]
          have hne : (m[j2]).1 ≠ f x := by
            intro heq
            have h1 : (m.map (·.1))[j2]'(by simp; omega) = (m.map (·.1))[j]'(by simp; omega) := by simp [heq, hg]
            exact hj2 ((List.getElem_inj hnd).mp h1)
          simp [List.filter_cons, Ne.symm hne]
        · simp [hlt]
    · simpa [obsRun, obsStep] using hc
  · -- new group
    have hlook := hl.1 hmem
    simp only [gbNext, hlook]
    have hkm : f x ∉ keysOf f xs := by rw [← hk]; exact hmem
    refine ⟨?_, ?_, ?_, ?_⟩
    · rw [keysOf_snoc]; simp [hkm, hk]
    · intro j hj
      simp only [List.length_append, List.length_singleton] at hj
      by_cases hlt : j < m.length
      · rw [List.getElem_append_left hlt]; exact hi j hlt
      · have : j = m.length := by omega
        subst this
        simp
    · intro j2
      simp only [obsRun, obsStep, List.foldl_cons, List.foldl_nil, List.length_append, List.length_singleton]
      by_cases hj2 : j2 = m.length
      · subst hj2
        simp only [if_true, upd, Option.map_some, List.nil_append, Nat.lt_add_one, dite_true]
        rw [List.getElem_append_right (Nat.le_refl _)]
        simp only [Nat.sub_self, List.getElem_cons_zero, List.filter_append]
        have : xs.filter (fun y => decide (f y = f x)) = [] := by
          rw [List.filter_eq_nil_iff]
          intro y hy
          simp only [decide_eq_true_eq]
          intro heq
          exact hkm ((mem_keysOf f xs (f x)).mpr ⟨y, hy, heq⟩)
        simp [this, List.filter_cons]
      · simp only [hj2, if_false, upd, ho]
        by_cases hlt : j2 < m.length
        · have hlt' : j2 < m.length + 1 := by omega
          simp only [hlt, hlt', dite_true, List.filter_append]
          rw [List.getElem_append_left hlt]
          have hne : (m[j2]).1 ≠ f x := by
            intro heq
            exact hmem (List.mem_map.mpr ⟨m[j2], List.getElem_mem _, heq⟩)
          simp [List.filter_cons, Ne.symm hne]
        · have hlt' : ¬ j2 < m.length + 1 := by omega
          simp [hlt, hlt']
    · simpa [obsRun, obsStep, upd] using hc

theorem ginv_run {α κ : Type} [DecidableEq κ] (f : α → κ) :
    ∀ (xs pre : List α) (m : List (κ × Nat)) (ob : Obs α), GInv f pre m ob →
      GInv f (pre ++ xs) (runObsRaw (gbNext f) (m, ob) xs).1 (runObsRaw (gbNext f) (m, ob) xs).2 := by
  intro xs
  induction xs with
  | nil => intro pre m ob h; simpa [runObsRaw] using h
  | cons x xs ih =>
    intro pre m ob h
    have h1 := ginv_step f pre m ob x h
    have h2 := ih (pre ++ [x]) _ _ h1
    simpa [runObsRaw, List.append_assoc] using h2

/-- flushing in dict order closes group `0, 1, …` in that order -/
theorem flush_closed {α} : ∀ (n : Nat) (start : Nat) (ob : Obs α),
    (obsRun ob ((List.range' start n).map Cmd.cls)).closed =
      ob.closed ++ (List.range' start n).map (fun j => (ob.opn j).getD []) := by
  intro n
  induction n with
  | zero => intro start ob; simp [obsRun]
  | succ n ih =>
    intro start ob
    simp only [List.range'_succ, List.map_cons, obsRun, List.foldl_cons]
    have := ih (start + 1) (obsStep ob (.cls start))
    simp only [obsRun] at this
    rw [this]
    simp only [obsStep, List.append_assoc, List.singleton_append, List.cons.injEq, true_and, List.append_cancel_left_eq]
    apply List.map_congr_left
    intro j hj
    have : j ≠ start := by
      have := List.mem_range'_1.mp hj
      omega
    simp [upd, this]

/-- **C04**: no group is completed before the parent completes; at parent completion the groups are
completed in order of first appearance, and group `k` received exactly the items whose key is `k`,
in source order.  (One group per distinct key value, every item in exactly one group: `keysOf_nodup`,
`mem_keysOf`.) -/
theorem C04_groups {α κ : Type} [DecidableEq κ] (f : α → κ) (xs : List α) :
    ((groupByLS f).windows xs).1 = [] ∧ ((groupByLS f).windows xs).2 = groupsOf f xs := by
  have h := ginv_run f xs [] [] Obs.empty ⟨by simp [keysOf, keysAcc], by simp, by simp [Obs.empty], rfl⟩
  simp only [List.nil_append] at h
  show (runObsRaw (gbNext f) ([], Obs.empty) xs).2.closed = [] ∧
    (obsRun ⟨(runObsRaw (gbNext f) ([], Obs.empty) xs).2.opn, []⟩
      (gbFin (runObsRaw (gbNext f) ([], Obs.empty) xs).1)).closed = groupsOf f xs
  generalize (runObsRaw (gbNext f) ([], Obs.empty) xs).1 = m at h
  generalize (runObsRaw (gbNext f) ([], Obs.empty) xs).2 = ob at h
  obtain ⟨hk, hi, ho, hc⟩ := h
  refine ⟨hc, ?_⟩
  have hfin : gbFin (α := α) m = (List.range' 0 m.length).map Cmd.cls := by
    unfold gbFin
    apply List.ext_getElem
    · simp
    · intro i h1 h2
      simp only [List.getElem_map, List.getElem_range', Nat.zero_add, Nat.one_mul]
      rw [hi i (by simpa using h1)]
  rw [hfin, flush_closed]
  simp only [List.nil_append, groupsOf, ← hk]
  apply List.ext_getElem
  · simp
  · intro i h1 h2
    simp only [List.length_map, List.length_range'] at h1
    simp [ho, h1]

/-- one group per distinct key value; every item belongs to exactly the group of its key -/
theorem C04_partition {α κ : Type} [DecidableEq κ] (f : α → κ) (xs : List α) :
    (keysOf f xs).Nodup ∧ (∀ k, k ∈ keysOf f xs ↔ ∃ x ∈ xs, f x = k) ∧
    (∀ x ∈ xs, ∀ k ∈ keysOf f xs, x ∈ xs.filter (fun y => f y = k) ↔ f x = k) := by
  refine ⟨keysOf_nodup f xs, mem_keysOf f xs, ?_⟩
  intro x hx k _
  simp [hx]

/-- keys are numbered in order of first appearance: a new key is appended, a known key changes nothing -/
theorem C04_first_appearance {α κ : Type} [DecidableEq κ] (f : α → κ) (xs : List α) (x : α) :
    keysOf f (xs ++ [x]) = if f x ∈ keysOf f xs then keysOf f xs else keysOf f xs ++ [f x] :=
  keysOf_snoc f xs x

/-! non-vacuity -/
example : (groupByLS (fun n : Nat => n % 2)).windows [1, 2, 3, 4, 5] = ([], [[1, 3, 5], [2, 4]]) := by decide

end Rx

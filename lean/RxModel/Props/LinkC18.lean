import RxGen.Text
import RxModel.Csv
/-!
# C18 link theorems: `is_closing_quote` and `merge_escape_parts` of rxsci/container/csv.py — the functions that re-join the pieces
of quoted fields containing the separator — generated from the source (`StrFnTranslator`: strings as `List Char`, indexing with
IndexError, short-circuit `and` / `or`, a variable that is `None` or a list, the `while` loop as a recursion whose fuel is the
loop counter + 1) ARE the model's `closingQuote` and `mergeParts` (Csv.lean), on which `C18_row` rests.
-/
namespace Rx

theorem idx_nat (n k : Nat) (h : k < n) : PyStr.idx n (k : Int) = some k := by
  simp [PyStr.idx, h]

theorem getChar_mid (xs sfx : List Char) (a : Char) :
    PyStr.getChar (xs ++ [a] ++ sfx) (xs.length : Int) = .ok [a] := by
  unfold PyStr.getChar
  rw [idx_nat _ _ (by simp)]
  simp

theorem getChar_last (xs : List Char) (a : Char) : PyStr.getChar (xs ++ [a]) (-1) = .ok [a] := by
  unfold PyStr.getChar
  have : PyStr.idx (xs ++ [a]).length (-1) = some xs.length := by
    simp [PyStr.idx]
  rw [this]
  simp

/-- the `while` loop of `is_closing_quote` counts the escape characters that end the text before the final quote -/
theorem closing_loop (esc : Char) : ∀ (r sfx : List Char) (count : Int),
    ∃ i, Gen.is_closing_quote_loop1 (r.reverse ++ sfx) [esc] r.length count ((r.length : Int) - 1)
      = .ok (count + ((r.takeWhile (· == esc)).length : Int), i) := by
  intro r
  induction r with
  | nil => intro sfx count; exact ⟨_, by simp [Gen.is_closing_quote_loop1]; rfl⟩
  | cons a r ih =>
    intro sfx count
    have hidx : ((a :: r).length : Int) - 1 = (r.length : Int) := by simp
    have hge : ((r.length : Int) ≥ 0) := by omega
    have ht : (a :: r).reverse ++ sfx = r.reverse ++ [a] ++ sfx := by simp
    have hg : PyStr.getChar (r.reverse ++ [a] ++ sfx) (r.length : Int) = .ok [a] := by
      have := getChar_mid r.reverse sfx a
      simpa using this
    rw [hidx, ht]
    simp only [List.length_cons, Gen.is_closing_quote_loop1, hge, decide_true, if_true, hg]
    by_cases hae : a = esc
    · subst hae
      obtain ⟨i, hi⟩ := ih ([a] ++ sfx) (count + 1)
      refine ⟨i, ?_⟩
      have e1 : r.reverse ++ [a] ++ sfx = r.reverse ++ ([a] ++ sfx) := by simp
      simp only [bind, Except.bind, pure, Except.pure, decide_true, if_true, e1]
      rw [hi]
      simp [List.takeWhile]
      omega
    · refine ⟨(r.length : Int), ?_⟩
      have hb : (a == esc) = false := by simp [hae]
      simp [bind, Except.bind, pure, Except.pure, hae, List.takeWhile, hb]


/-- **`is_closing_quote`**, generated from rxsci/container/csv.py, is the model's `closingQuote` -/
theorem Link_closing_quote (esc : Char) (t : List Char) :
    Gen.is_closing_quote t [esc] = .ok (closingQuote esc t) := by
  rcases List.eq_nil_or_concat t with rfl | ⟨init, c, rfl⟩
  · simp [Gen.is_closing_quote, closingQuote, bind, Except.bind, pure, Except.pure]
  · rw [List.concat_eq_append]
    have hlen : ¬ ((Int.ofNat (init ++ [c]).length) = (0 : Int)) := by simp; omega
    by_cases hc : c = '"'
    · subst hc
      obtain ⟨i, hi⟩ := closing_loop esc init.reverse ['"'] 0
      have hfuel : Int.toNat ((Int.ofNat (init ++ ['"']).length - 2) + 1) = init.length := by simp; omega
      have hindex : (Int.ofNat (init ++ ['"']).length - 2) = ((init.length : Int) - 1) := by simp; omega
      simp only [List.reverse_reverse, List.length_reverse] at hi
      have hmod : ∀ n : Nat, decide (Int.fmod (0 + (n : Int)) 2 = 0) = (n % 2 == 0) := by
        intro n
        rw [Int.fmod_eq_emod_of_nonneg _ (by omega)]
        by_cases h : n % 2 = 0
        · have : ((n : Int)) % 2 = 0 := by omega
          simp [h, this]
        · have : ¬ (((n : Int)) % 2 = 0) := by omega
          simp [h, this]
      simp only [Gen.is_closing_quote, bind, Except.bind, pure, Except.pure, hlen, decide_false, Bool.false_eq_true, if_false,
        getChar_last, ne_eq, not_true_eq_false, hindex]
      simp only [closingQuote, List.reverse_append, List.reverse_cons, List.reverse_nil, List.nil_append, List.singleton_append]
      have hfuel2 : ((init.length : Int) - 1 + 1).toNat = init.length := by omega
      rw [hfuel2, hi]
      have := hmod (List.takeWhile (fun x => x == esc) init.reverse).length
      simpa using this
    · have hq : ¬ ([c] = ['"']) := by simpa using hc
      simp [Gen.is_closing_quote, hlen, getChar_last, bind, Except.bind, pure, Except.pure, hq, closingQuote, hc]


/-- `len(t) > 0 and t[0] == '"'` -/
theorem head_quote (t : List Char) :
    (if decide (Int.ofNat t.length > 0) = true then (do
        let t3 ← PyStr.getChar t 0
        pure (decide (t3 = ['"'])))
      else pure false : Except Err Bool) = .ok (decide (t.head? = some '"')) := by
  cases t with
  | nil => simp [pure, Except.pure]
  | cons a r =>
    have : PyStr.getChar (a :: r) 0 = .ok [a] := by simp [PyStr.getChar, PyStr.idx]
    simp [this, bind, Except.bind, pure, Except.pure]

/-- one pass of the loop of `merge_escape_parts` on the model side: the pieces it completes and the new aggregate -/
def mergeOne (sep : List Char) (esc : Char) (agg : Option (List (List Char))) (t : List Char) :
    List (List Char) × Option (List (List Char)) :=
  if t = ['"'] then
    match agg with
    | none => ([], some [['"']])
    | some a => ([joinWith sep (a ++ [['"']])], none)
  else if t.head? = some '"' ∧ closingQuote esc t ∧ agg = none then ([t], none)
  else if closingQuote esc t ∧ agg ≠ none then
    match agg with
    | some a => ([joinWith sep (a ++ [t])], none)
    | none => ([t], none)
  else if t.head? = some '"' ∧ agg = none then ([], some [t])
  else match agg with
    | some a => ([], some (a ++ [t]))
    | none => ([t], none)

theorem mergeParts_cons (sep : List Char) (esc : Char) (agg : Option (List (List Char))) (t : List Char) (ts : List (List Char)) :
    mergeParts sep esc agg (t :: ts) = (mergeOne sep esc agg t).1 ++ mergeParts sep esc (mergeOne sep esc agg t).2 ts := by
  unfold mergeOne
  rw [mergeParts.eq_def]
  simp only []
  by_cases h1 : t = ['"'] <;> cases agg <;> by_cases hq : t.head? = some '"' <;> cases hcq : closingQuote esc t <;>
    simp [h1, hq, hcq]

theorem join_eq (sep : List Char) (l : List (List Char)) : PyStr.join sep l = joinWith sep l := by
  unfold PyStr.join
  induction l with
  | nil => simp [joinWith]
  | cons a r ih =>
    cases r with
    | nil => simp [joinWith]
    | cons b r' =>
      rw [joinWith, ← ih]
      simp [List.intercalate_cons_cons]

/-- a loop each pass of which is one `mergeOne` step computes `mergeParts` -/
theorem merge_main (sep : List Char) (esc : Char)
    (body : List Char → List (List Char) × Option (List (List Char)) → Except Err (ForInStep (List (List Char) × Option (List (List Char)))))
    (hbody : ∀ t m agg, body t (m, agg) = .ok (ForInStep.yield (m ++ (mergeOne sep esc agg t).1, (mergeOne sep esc agg t).2)))
    (parts : List (List Char)) :
    (do let s ← forIn parts (([] : List (List Char)), (none : Option (List (List Char)))) body; pure s.fst : Except Err (List (List Char)))
      = .ok (mergeParts sep esc none parts) := by
  have loop : ∀ (ps : List (List Char)) (m : List (List Char)) (agg : Option (List (List Char))),
      ∃ agg', forIn ps (m, agg) body = (Except.ok (m ++ mergeParts sep esc agg ps, agg') : Except Err _) := by
    intro ps
    induction ps with
    | nil => intro m agg; exact ⟨agg, by simp [mergeParts, pure, Except.pure]⟩
    | cons t ts ih =>
      intro m agg
      obtain ⟨agg', h⟩ := ih (m ++ (mergeOne sep esc agg t).1) (mergeOne sep esc agg t).2
      refine ⟨agg', ?_⟩
      rw [List.forIn_cons, hbody]
      simp only [bind, Except.bind]
      rw [h, mergeParts_cons, List.append_assoc]
  obtain ⟨agg', h⟩ := loop parts [] none
  rw [h]
  simp [bind, Except.bind, pure, Except.pure]

theorem closingQuote_nil (esc : Char) : closingQuote esc [] = false := by simp [closingQuote]

/-- **`merge_escape_parts`**, generated from rxsci/container/csv.py, is the model's `mergeParts` -/
theorem Link_merge_parts (sep : List Char) (esc : Char) (parts : List (List Char)) :
    Gen.merge_escape_parts parts sep [esc] = .ok (mergeParts sep esc none parts) := by
  unfold Gen.merge_escape_parts
  simp only [Link_closing_quote, head_quote]
  apply merge_main sep esc
  intro t m agg
  have hlen : (decide (Int.ofNat t.length > 0)) = decide (t ≠ []) := by
    cases t <;> simp
  by_cases h1 : t = ['"'] <;> cases agg <;> by_cases hq : t.head? = some '"' <;> cases hcq : closingQuote esc t <;>
    by_cases hnil : t = [] <;>
    simp_all [mergeOne, join_eq, PyStr.unwrap, bind, Except.bind, pure, Except.pure, closingQuote_nil]

theorem pyReplaceAux_one (a : Char) (new : Str) : ∀ (s : Str) (fuel : Nat), s.length < fuel →
    pyReplaceAux [a] new fuel s = replace1 a new s := by
  intro s
  induction s with
  | nil => intro fuel h; cases fuel <;> simp [pyReplaceAux, replace1]
  | cons c s ih =>
    intro fuel h
    cases fuel with
    | zero => simp at h
    | succ f =>
      have hf : s.length < f := by simpa using h
      by_cases hc : c = a
      · subst hc
        simp [pyReplaceAux, startsWith, replace1, List.flatMap_cons] 
        have := ih f hf
        simp [replace1] at this
        exact this
      · have hne : ([c] == [a]) = false := by simp [hc]
        simp [pyReplaceAux, startsWith, replace1, List.flatMap_cons, hc]
        have := ih f hf
        simp [replace1] at this
        exact this

theorem pyReplace_one (a : Char) (new s : Str) : pyReplace [a] new s = replace1 a new s := by
  simp [pyReplace, pyReplaceAux_one a new s (s.length + 1) (by omega)]

/-- the text `csv.dump` produces for one field (generated from the loop body of rxsci/container/csv.py `dump`) is the model's
`dumpField` -/
theorem Link_csv_dump_field (esc : Char) (f : CsvField) : Gen.csv_dump_field [esc] f = dumpField esc f := by
  cases f <;> simp [Gen.csv_dump_field, CsvField.pyTypeIn, CsvField.pyType, CsvField.pyStr, dumpField, escapeStr, pyReplace_one]

/-- **the row part of `csv.dump`'s `on_next`**, generated from rxsci/container/csv.py, is the model's `dumpRow` — the function
`C18_roundtrip` is about — for every separator, every escape character and every row of ints, floats, bools, strings and `None` -/
theorem Link_csv_dump_row (sep : Str) (esc : Char) (row : List CsvField) :
    Gen.csv_dump_row sep [esc] ['\n'] row = dumpRow sep esc row := by
  simp only [Gen.csv_dump_row, dumpRow, join_eq]
  congr 2
  apply List.map_congr_left
  intro f _
  exact Link_csv_dump_field esc f


theorem pyReplaceAux_two (a b : Char) (new : Str) : ∀ (n : Nat) (s : Str) (fuel : Nat), s.length ≤ n → s.length < fuel →
    pyReplaceAux [a, b] new fuel s = replace2 a b new s := by
  intro n
  induction n with
  | zero =>
    intro s fuel hn hf
    have : s = [] := by cases s <;> simp_all
    subst this
    cases fuel <;> simp [pyReplaceAux, replace2]
  | succ n ih =>
    intro s fuel hn hf
    match s, fuel with
    | [], fuel => cases fuel <;> simp [pyReplaceAux, replace2]
    | _, 0 => simp at hf
    | [c], f + 1 =>
      have : startsWith [a, b] [c] = false := by simp [startsWith]
      simp only [pyReplaceAux, this, replace2]
      cases f <;> simp [pyReplaceAux]
    | c :: d :: r, f + 1 =>
      have hlen : (d :: r).length ≤ n := by simp at hn ⊢; omega
      have hf' : (d :: r).length < f := by simp at hf ⊢; omega
      by_cases h : c = a ∧ d = b
      · obtain ⟨h1, h2⟩ := h
        subst h1 h2
        have : startsWith [c, d] (c :: d :: r) = true := by simp [startsWith]
        simp only [pyReplaceAux, this, if_true, replace2, and_self, List.length_cons, List.length_nil]
        congr 1
        have := ih r f (by simp at hlen ⊢; omega) (by simp at hf' ⊢; omega)
        simpa using this
      · have : startsWith [a, b] (c :: d :: r) = false := by
          simp only [startsWith, List.length_cons, List.length_nil, List.take]
          simp only [beq_eq_false_iff_ne, ne_eq, List.cons.injEq, and_true]
          exact h
        simp only [pyReplaceAux, this, replace2, h, if_false, Bool.false_eq_true]
        congr 1
        exact ih (d :: r) f hlen hf'

theorem pyReplace_two (a b : Char) (new s : Str) : pyReplace [a, b] new s = replace2 a b new s := by
  simp [pyReplace, pyReplaceAux_two a b new s.length s (s.length + 1) (Nat.le_refl _) (by omega)]

theorem getChar_zero (c : Char) (r : List Char) : PyStr.getChar (c :: r) 0 = .ok [c] := by
  simp [PyStr.getChar, PyStr.idx]

theorem slice_inner (c : Char) (r : List Char) : PyStr.slice (c :: r) 1 (-1) = r.dropLast := by
  simp only [PyStr.slice, PyStr.bound, List.length_cons]
  have h1 : ¬ (0 : Int) ≤ -1 := by omega
  have h2 : (0 : Int) ≤ 1 := by omega
  simp only [h1, h2, if_true, if_false]
  have : (-(-1 : Int)).toNat = 1 := by decide
  simp only [this]
  have e1 : min (Int.toNat 1) (r.length + 1) = 1 := by simp
  have e2 : r.length + 1 - min 1 (r.length + 1) = r.length := by omega
  rw [e1, e2]
  cases r <;> simp [List.dropLast_eq_take]

theorem Link_csv_parse_field (esc : Char) (i : List Char) : Gen.csv_parse_field [esc] i = .ok (unquote esc i) := by
  unfold Gen.csv_parse_field unquote
  cases i with
  | nil => simp; rfl
  | cons c r =>
    have hpos : decide (Int.ofNat (c :: r).length > 0) = true := by simp
    simp only [hpos, if_true, getChar_zero]
    by_cases hc : c = '"'
    · subst hc
      rcases List.eq_nil_or_concat r with hr | ⟨init, a, hr⟩
      · subst hr
        have : PyStr.getChar ['"'] (-1) = .ok ['"'] := getChar_last [] '"'
        simp [this, slice_inner, pyReplace_two, bind, Except.bind, pure, Except.pure]
      · rw [List.concat_eq_append] at hr
        subst hr
        have hl : PyStr.getChar ('"' :: (init ++ [a])) (-1) = .ok [a] := getChar_last ('"' :: init) a
        have hlast : ('"' :: (init ++ [a])).getLast? = some a := by
          rw [← List.cons_append, List.getLast?_append]; simp
        by_cases ha : a = '"'
        · subst ha
          simp [hl, hlast, slice_inner, pyReplace_two, bind, Except.bind, pure, Except.pure]
        · simp [hl, hlast, ha, bind, Except.bind, pure, Except.pure]
    · have : ¬ ([c] = ['"']) := by simpa using hc
      simp [this, hc, bind, Except.bind, pure, Except.pure]

/-- the typed parsers of a schema, as `columns_parser[index]` -/
def colParser (types : List CsvType) (index : Nat) (s : Str) : Except Err CsvField :=
  match types[index]? with
  | some ty => parseField ty s
  | none => .error "IndexError"

theorem tryCatch_rethrow {α} (m : Except Err (Option α)) :
    tryCatch m (fun e => if false = true then pure none else throw e) = m := by
  cases m <;> simp [tryCatch, tryCatchThe, MonadExceptOf.tryCatch, Except.tryCatch, throw, throwThe, MonadExceptOf.throw]

theorem mapM_gen_fields (esc : Char) (all : List CsvType) : ∀ (parts : List Str) (tys : List CsvType) (k : Nat),
    parts.length = tys.length → (∀ j, j < tys.length → all[k + j]? = tys[j]?) →
    (parts.zipIdx k).mapM (fun (p : List Char × Nat) => do
        let i := p.1
        let index := p.2
        let i ← Gen.csv_parse_field [esc] i
        if ([] : List (List Char)).contains i then pure none
        else do
          let t ← colParser all index i
          pure (some t))
      = ((parts.zip tys).mapM (fun p => parseField p.2 (unquote esc p.1))).map (List.map some) := by
  intro parts
  induction parts with
  | nil => intro tys k h _; cases tys <;> simp_all [pure, Except.pure, Except.map]
  | cons p ps ih =>
    intro tys k h hall
    cases tys with
    | nil => simp at h
    | cons ty tys =>
      have h0 : all[k]? = some ty := by simpa using hall 0 (by simp)
      have ih' := ih tys (k + 1) (by simpa using h) (by
        intro j hj
        have := hall (j + 1) (by simp; omega)
        simpa [Nat.add_assoc, Nat.add_comm 1 j] using this)
      rw [List.zipIdx_cons, List.mapM_cons, List.zip_cons_cons, List.mapM_cons, ih']
      simp only [Link_csv_parse_field, List.contains_nil, Bool.false_eq_true, if_false, colParser, h0]
      cases hp : parseField ty (unquote esc p) with
      | error e => simp [hp, bind, Except.bind, Except.map, pure, Except.pure]
      | ok v =>
        cases hr : (ps.zip tys).mapM (fun p => parseField p.2 (unquote esc p.1)) with
        | error e => simp [hp, hr, bind, Except.bind, Except.map, pure, Except.pure]
        | ok vs => simp [hp, hr, bind, Except.bind, Except.map, pure, Except.pure]

/-- **`parse_line`** of `create_line_parser` (generated from rxsci/container/csv.py), with the typed column parsers of a schema, no
`none_values` and `ignore_error=False`, is the model's `parseLine`: split, `merge_escape_parts` when the column count is off, the
column-count error, un-quoting and un-escaping of every field, the typed parser of its column -/
theorem Link_csv_parse_line (sep : Str) (esc : Char) (types : List CsvType) (line : Str) :
    Gen.csv_parse_line sep [esc] [] false (colParser types) types.length line
      = (parseLine sep esc types line).map (fun l => some (l.map some)) := by
  unfold Gen.csv_parse_line parseLine
  rw [tryCatch_rethrow]
  by_cases h1 : (pySplit sep line).length = types.length
  · have hb : ((pySplit sep line).length != types.length) = false := by simp [h1]
    have hn : ¬ (pySplit sep line).length ≠ types.length := by simp [h1]
    have := mapM_gen_fields esc types (pySplit sep line) types 0 h1 (by intro j _; simp)
    simp only [pure, Except.pure, bind, Except.bind] at this ⊢
    simp only [hb, hn, Bool.false_eq_true, if_false]
    rw [this]
    cases (List.mapM (fun p => parseField p.2 (unquote esc p.1)) ((pySplit sep line).zip types)) <;> simp [Except.map]
  · have hb : ((pySplit sep line).length != types.length) = true := by simp [h1]
    have hn : (pySplit sep line).length ≠ types.length := h1
    simp only [pure, Except.pure, bind, Except.bind]
    simp only [hb, hn, if_true, Link_merge_parts]
    by_cases h2 : (mergeParts sep esc none (pySplit sep line)).length = types.length
    · have hb2 : ((mergeParts sep esc none (pySplit sep line)).length != types.length) = false := by simp [h2]
      have hn2 : ¬ (mergeParts sep esc none (pySplit sep line)).length ≠ types.length := by simp [h2]
      have := mapM_gen_fields esc types (mergeParts sep esc none (pySplit sep line)) types 0 h2 (by intro j _; simp)
      simp only [pure, Except.pure, bind, Except.bind] at this
      simp only [hb2, Bool.false_eq_true, if_false]
      simp only [if_pos hn, if_neg hn2]
      rw [this]
      cases (List.mapM (fun p => parseField p.2 (unquote esc p.1)) ((mergeParts sep esc none (pySplit sep line)).zip types)) <;>
        simp [Except.map]
    · have hb2 : ((mergeParts sep esc none (pySplit sep line)).length != types.length) = true := by simp [h2]
      have hn2 : (mergeParts sep esc none (pySplit sep line)).length ≠ types.length := h2
      simp only [hb2, if_true, if_pos hn, if_pos hn2]
      simp [throw, throwThe, MonadExceptOf.throw, Except.map]

end Rx

import RxGen.Text
import RxModel.Csv
/-!
# C18 link theorems: `is_closing_quote` and `merge_escape_parts` of rxsci/container/csv.py — the functions that re-join the pieces
of quoted fields containing the separator — generated from the source (`StrFnTranslator`: strings as `List Char`, indexing with
IndexError, short-circuit `and` / `or`, a variable that is `None` or a list, the `while` loop as a recursion whose fuel is the
loop counter + 1) ARE the model's `closingQuote` and `mergeParts` (Csv.lean), on which `C18_row` rests.
-/
namespace Rx

theorem idx_nat (n k : Nat) (h : k < n) : PyStr.idx n (k : Int) = some k := by
  simp [PyStr.idx, h]

theorem getChar_mid (xs sfx : List Char) (a : Char) :
    PyStr.getChar (xs ++ [a] ++ sfx) (xs.length : Int) = .ok [a] := by
  unfold PyStr.getChar
  rw [idx_nat _ _ (by simp)]
  simp

theorem getChar_last (xs : List Char) (a : Char) : PyStr.getChar (xs ++ [a]) (-1) = .ok [a] := by
  unfold PyStr.getChar
  have : PyStr.idx (xs ++ [a]).length (-1) = some xs.length := by
    simp [PyStr.idx]
  rw [this]
  simp

/-- the `while` loop of `is_closing_quote` counts the escape characters that end the text before the final quote -/
theorem closing_loop (esc : Char) : ∀ (r sfx : List Char) (count : Int),
    ∃ i, Gen.is_closing_quote_loop1 (r.reverse ++ sfx) [esc] r.length count ((r.length : Int) - 1)
      = .ok (count + ((r.takeWhile (· == esc)).length : Int), i) := by
  intro r
  induction r with
  | nil => intro sfx count; exact ⟨_, by simp [Gen.is_closing_quote_loop1]; rfl⟩
  | cons a r ih =>
    intro sfx count
    have hidx : ((a :: r).length : Int) - 1 = (r.length : Int) := by simp
    have hge : ((r.length : Int) ≥ 0) := by omega
    have ht : (a :: r).reverse ++ sfx = r.reverse ++ [a] ++ sfx := by simp
    have hg : PyStr.getChar (r.reverse ++ [a] ++ sfx) (r.length : Int) = .ok [a] := by
      have := getChar_mid r.reverse sfx a
      simpa using this
    rw [hidx, ht]
    simp only [List.length_cons, Gen.is_closing_quote_loop1, hge, decide_true, if_true, hg]
    by_cases hae : a = esc
    · subst hae
      obtain ⟨i, hi⟩ := ih ([a] ++ sfx) (count + 1)
      refine ⟨i, ?_⟩
      have e1 : r.reverse ++ [a] ++ sfx = r.reverse ++ ([a] ++ sfx) := by simp
      simp only [bind, Except.bind, pure, Except.pure, decide_true, if_true, e1]
      rw [hi]
      simp [List.takeWhile]
      omega
    · refine ⟨(r.length : Int), ?_⟩
      have hb : (a == esc) = false := by simp [hae]
      simp [bind, Except.bind, pure, Except.pure, hae, List.takeWhile, hb]


/-- **`is_closing_quote`**, generated from rxsci/container/csv.py, is the model's `closingQuote` -/
theorem Link_closing_quote (esc : Char) (t : List Char) :
    Gen.is_closing_quote t [esc] = .ok (closingQuote esc t) := by
  rcases List.eq_nil_or_concat t with rfl | ⟨init, c, rfl⟩
  · simp [Gen.is_closing_quote, closingQuote, bind, Except.bind, pure, Except.pure]
  · rw [List.concat_eq_append]
    have hlen : ¬ ((Int.ofNat (init ++ [c]).length) = (0 : Int)) := by simp; omega
    by_cases hc : c = '"'
    · subst hc
      obtain ⟨i, hi⟩ := closing_loop esc init.reverse ['"'] 0
      have hfuel : Int.toNat ((Int.ofNat (init ++ ['"']).length - 2) + 1) = init.length := by simp; omega
      have hindex : (Int.ofNat (init ++ ['"']).length - 2) = ((init.length : Int) - 1) := by simp; omega
      simp only [List.reverse_reverse, List.length_reverse] at hi
      have hmod : ∀ n : Nat, decide (Int.fmod (0 + (n : Int)) 2 = 0) = (n % 2 == 0) := by
        intro n
        rw [Int.fmod_eq_emod_of_nonneg _ (by omega)]
        by_cases h : n % 2 = 0
        · have : ((n : Int)) % 2 = 0 := by omega
          simp [h, this]
        · have : ¬ (((n : Int)) % 2 = 0) := by omega
          simp [h, this]
      simp only [Gen.is_closing_quote, bind, Except.bind, pure, Except.pure, hlen, decide_false, Bool.false_eq_true, if_false,
        getChar_last, ne_eq, not_true_eq_false, hindex]
      simp only [closingQuote, List.reverse_append, List.reverse_cons, List.reverse_nil, List.nil_append, List.singleton_append]
      have hfuel2 : ((init.length : Int) - 1 + 1).toNat = init.length := by omega
      rw [hfuel2, hi]
      have := hmod (List.takeWhile (fun x => x == esc) init.reverse).length
      simpa using this
    · have hq : ¬ ([c] = ['"']) := by simpa using hc
      simp [Gen.is_closing_quote, hlen, getChar_last, bind, Except.bind, pure, Except.pure, hq, closingQuote, hc]


/-- `len(t) > 0 and t[0] == '"'` -/
theorem head_quote (t : List Char) :
    (if decide (Int.ofNat t.length > 0) = true then (do
        let t3 ← PyStr.getChar t 0
        pure (decide (t3 = ['"'])))
      else pure false : Except Err Bool) = .ok (decide (t.head? = some '"')) := by
  cases t with
  | nil => simp [pure, Except.pure]
  | cons a r =>
    have : PyStr.getChar (a :: r) 0 = .ok [a] := by simp [PyStr.getChar, PyStr.idx]
    simp [this, bind, Except.bind, pure, Except.pure]

/-- one pass of the loop of `merge_escape_parts` on the model side: the pieces it completes and the new aggregate -/
def mergeOne (sep : List Char) (esc : Char) (agg : Option (List (List Char))) (t : List Char) :
    List (List Char) × Option (List (List Char)) :=
  if t = ['"'] then
    match agg with
    | none => ([], some [['"']])
    | some a => ([joinWith sep (a ++ [['"']])], none)
  else if t.head? = some '"' ∧ closingQuote esc t ∧ agg = none then ([t], none)
  else if closingQuote esc t ∧ agg ≠ none then
    match agg with
    | some a => ([joinWith sep (a ++ [t])], none)
    | none => ([t], none)
  else if t.head? = some '"' ∧ agg = none then ([], some [t])
  else match agg with
    | some a => ([], some (a ++ [t]))
    | none => ([t], none)

theorem mergeParts_cons (sep : List Char) (esc : Char) (agg : Option (List (List Char))) (t : List Char) (ts : List (List Char)) :
    mergeParts sep esc agg (t :: ts) = (mergeOne sep esc agg t).1 ++ mergeParts sep esc (mergeOne sep esc agg t).2 ts := by
  unfold mergeOne
  rw [mergeParts.eq_def]
  simp only []
  by_cases h1 : t = ['"'] <;> cases agg <;> by_cases hq : t.head? = some '"' <;> cases hcq : closingQuote esc t <;>
    simp [h1, hq, hcq]

theorem join_eq (sep : List Char) (l : List (List Char)) : PyStr.join sep l = joinWith sep l := by
  unfold PyStr.join
  induction l with
  | nil => simp [joinWith]
  | cons a r ih =>
    cases r with
    | nil => simp [joinWith]
    | cons b r' =>
      rw [joinWith, ← ih]
      simp [List.intercalate_cons_cons]

/-- a loop each pass of which is one `mergeOne` step computes `mergeParts` -/
theorem merge_main (sep : List Char) (esc : Char)
    (body : List Char → List (List Char) × Option (List (List Char)) → Except Err (ForInStep (List (List Char) × Option (List (List Char)))))
    (hbody : ∀ t m agg, body t (m, agg) = .ok (ForInStep.yield (m ++ (mergeOne sep esc agg t).1, (mergeOne sep esc agg t).2)))
    (parts : List (List Char)) :
    (do let s ← forIn parts (([] : List (List Char)), (none : Option (List (List Char)))) body; pure s.fst : Except Err (List (List Char)))
      = .ok (mergeParts sep esc none parts) := by
  have loop : ∀ (ps : List (List Char)) (m : List (List Char)) (agg : Option (List (List Char))),
      ∃ agg', forIn ps (m, agg) body = (Except.ok (m ++ mergeParts sep esc agg ps, agg') : Except Err _) := by
    intro ps
    induction ps with
    | nil => intro m agg; exact ⟨agg, by simp [mergeParts, pure, Except.pure]⟩
    | cons t ts ih =>
      intro m agg
      obtain ⟨agg', h⟩ := ih (m ++ (mergeOne sep esc agg t).1) (mergeOne sep esc agg t).2
      refine ⟨agg', ?_⟩
      rw [List.forIn_cons, hbody]
      simp only [bind, Except.bind]
      rw [h, mergeParts_cons, List.append_assoc]
  obtain ⟨agg', h⟩ := loop parts [] none
  rw [h]
  simp [bind, Except.bind, pure, Except.pure]

theorem closingQuote_nil (esc : Char) : closingQuote esc [] = false := by simp [closingQuote]

/-- **`merge_escape_parts`**, generated from rxsci/container/csv.py, is the model's `mergeParts` -/
theorem Link_merge_parts (sep : List Char) (esc : Char) (parts : List (List Char)) :
    Gen.merge_escape_parts parts sep [esc] = .ok (mergeParts sep esc none parts) := by
  unfold Gen.merge_escape_parts
  simp only [Link_closing_quote, head_quote]
  apply merge_main sep esc
  intro t m agg
  have hlen : (decide (Int.ofNat t.length > 0)) = decide (t ≠ []) := by
    cases t <;> simp
  by_cases h1 : t = ['"'] <;> cases agg <;> by_cases hq : t.head? = some '"' <;> cases hcq : closingQuote esc t <;>
    by_cases hnil : t = [] <;>
    simp_all [mergeOne, join_eq, PyStr.unwrap, bind, Except.bind, pure, Except.pure, closingQuote_nil]

theorem pyReplaceAux_one (a : Char) (new : Str) : ∀ (s : Str) (fuel : Nat), s.length < fuel →
    pyReplaceAux [a] new fuel s = replace1 a new s := by
  intro s
  induction s with
  | nil => intro fuel h; cases fuel <;> simp [pyReplaceAux, replace1]
  | cons c s ih =>
    intro fuel h
    cases fuel with
    | zero => simp at h
    | succ f =>
      have hf : s.length < f := by simpa using h
      by_cases hc : c = a
      · subst hc
        simp [pyReplaceAux, startsWith, replace1, List.flatMap_cons] 
        have := ih f hf
        simp [replace1] at this
        exact this
      · have hne : ([c] == [a]) = false := by simp [hc]
        simp [pyReplaceAux, startsWith, replace1, List.flatMap_cons, hc]
        have := ih f hf
        simp [replace1] at this
        exact this

theorem pyReplace_one (a : Char) (new s : Str) : pyReplace [a] new s = replace1 a new s := by
  simp [pyReplace, pyReplaceAux_one a new s (s.length + 1) (by omega)]

/-- the text `csv.dump` produces for one field (generated from the loop body of rxsci/container/csv.py `dump`) is the model's
`dumpField` -/
theorem Link_csv_dump_field (esc : Char) (f : CsvField) : Gen.csv_dump_field [esc] f = dumpField esc f := by
  cases f <;> simp [Gen.csv_dump_field, CsvField.pyTypeIn, CsvField.pyType, CsvField.pyStr, dumpField, escapeStr, pyReplace_one]

/-- **the row part of `csv.dump`'s `on_next`**, generated from rxsci/container/csv.py, is the model's `dumpRow` — the function
`C18_roundtrip` is about — for every separator, every escape character and every row of ints, floats, bools, strings and `None` -/
theorem Link_csv_dump_row (sep : Str) (esc : Char) (row : List CsvField) :
    Gen.csv_dump_row sep [esc] ['\n'] row = dumpRow sep esc row := by
  simp only [Gen.csv_dump_row, dumpRow, join_eq]
  congr 2
  apply List.map_congr_left
  intro f _
  exact Link_csv_dump_field esc f


end Rx

import RxModel.Lemmas.Impl
import RxModel.Bounds
/-!
# C03 — the mux event protocol is well-formed at every operator boundary

`WF t`: the monitor `wfStep` accepts `t` — no item, error or completion for a key that is not live,
no second creation of a live key, no two live keys sharing a slot index.  `WFClosed t`: and every key
created has been completed.
-/
namespace Rx

/-- every per-key operator (the keyed semantics) maps well-formed to well-formed, closed to closed -/
theorem C03_ref_preserves {α β} (L : LocalOp α β) (t : List (Ev α)) :
    (WF t → WF ((refLift L).run t).flatten) ∧ (WFClosed t → WFClosed ((refLift L).run t).flatten) :=
  ⟨ref_wf L t, ref_wf_closed L t⟩

/-- a mux operator that implements a local operator preserves well-formedness -/
theorem implements_wf {α β} (Q : MuxOp α β) (L : LocalOp α β) (h : Implements Q L) (t : List (Ev α)) :
    (WF t → WF (Q.run t).flatten) ∧ (WFClosed t → WFClosed (Q.run t).flatten) := by
  have hwf_of_closed : WFClosed t → WF t := by
    intro hc; unfold WF; rw [wfFrom_eq]; unfold WFClosed at hc; rw [hc]; rfl
  refine ⟨fun ht => ?_, fun hc => ?_⟩
  · rw [h t ht]; exact ref_wf L t ht
  · rw [h t (hwf_of_closed hc)]; exact ref_wf_closed L t hc

/-- **output boundary** of a supported pipeline, on the real (index-addressed) implementation -/
theorem C03_output (P : Pipe) (h : P.Supported) (t : List (Ev Val)) :
    (WF t → WF (P.mux.run t).flatten) ∧ (WFClosed t → WFClosed (P.mux.run t).flatten) :=
  implements_wf P.mux P.loc (P.implements h) t

/-- the root: `mux_observable` emits a closed well-formed trace for every item list -/
theorem C03_root {α} (xs : List α) : WFClosed (rootTrace xs) := by
  unfold WFClosed rootTrace
  have key : ∀ xs : List α, wfLive [[0]] (xs.map (Ev.next [0]) ++ [Ev.done [0]]) = some [] := by
    intro xs; induction xs with
    | nil => simp [wfLive, wfStep]
    | cons x xs ih => simpa [wfLive, wfStep] using ih
  simpa [wfLive, wfStep] using key xs

/-- **every internal boundary** of a supported pipeline carries a well-formed trace, closed when
the input is (structural recursion over the pipeline: each boundary is the output of a prefix) -/
theorem C03_all_boundaries : ∀ (P : Pipe) (path : String) (i : Nat) (t : List (Ev Val)), P.Supported →
    (WF t → ∀ b ∈ P.bounds path i t, WF b.2) ∧ (WFClosed t → ∀ b ∈ P.bounds path i t, WFClosed b.2)
  | .nil, _, _, _, _ => by simp [Pipe.bounds]
  | .cons s rest, path, i, t, h => by
    simp only [Pipe.Supported] at h
    have hs := implements_wf s.mux s.loc (s.implements h.1) t
    have hsb : s.bounds (path ++ "/" ++ toString i) t = [] := by
      cases s with
      | prim L P => simp [Stage.bounds]
      | wrap sp ls inner => simp [Stage.Supported] at h
      | tee m bs => simp [Stage.Supported] at h
    have ih := C03_all_boundaries rest path (i + 1) (flatRun s.mux t) h.2
    simp only [Pipe.bounds, hsb, List.nil_append, List.cons_append, List.mem_cons]
    refine ⟨fun ht b hb => ?_, fun hc b hb => ?_⟩
    · rcases hb with rfl | hb
      · exact hs.1 ht
      · exact ih.1 (hs.1 ht) b hb
    · rcases hb with rfl | hb
      · exact hs.2 hc
      · exact ih.2 (hs.2 hc) b hb

/-! non-vacuity: a concrete well-formed trace with slot reuse -/
example : WF ([.create [5], .next [5] 1, .create [2], .done [5], .create [5, 1], .next [2] 3] : List (Ev Nat)) := by
  unfold WF; decide
example : ¬ WF ([.create [5], .create [5, 1]] : List (Ev Nat)) := by
  unfold WF; decide

end Rx

import RxModel.Lemmas.Impl
import RxModel.Lemmas.Nested
import RxModel.Bounds
/-!
# C03 — the mux event protocol is well-formed at every operator boundary

`WF t`: the monitor `wfStep` accepts `t` — no item, error or completion for a key that is not live,
no second creation of a live key, no two live keys sharing a slot index.  `WFClosed t`: and every key
created has been completed.
-/
namespace Rx

/-- every per-key operator (the keyed semantics) maps well-formed to well-formed, closed to closed -/
theorem C03_ref_preserves {α β} (L : LocalOp α β) (t : List (Ev α)) :
    (WF t → WF ((refLift L).run t).flatten) ∧ (WFClosed t → WFClosed ((refLift L).run t).flatten) :=
  ⟨ref_wf L t, ref_wf_closed L t⟩

/-- a mux operator that implements a local operator preserves well-formedness -/
theorem implements_wf {α β} (Q : MuxOp α β) (L : LocalOp α β) (h : Implements Q L) (t : List (Ev α)) :
    (WF t → WF (Q.run t).flatten) ∧ (WFClosed t → WFClosed (Q.run t).flatten) := by
  have hwf_of_closed : WFClosed t → WF t := by
    intro hc; unfold WF; rw [wfFrom_eq]; unfold WFClosed at hc; rw [hc]; rfl
  refine ⟨fun ht => ?_, fun hc => ?_⟩
  · rw [h t ht]; exact ref_wf L t ht
  · rw [h t (hwf_of_closed hc)]; exact ref_wf_closed L t hc

/-- **output boundary** of a supported pipeline, on the real (index-addressed) implementation -/
theorem C03_output (P : Pipe) (h : P.Supported) (t : List (Ev Val)) :
    (WF t → WF (P.mux.run t).flatten) ∧ (WFClosed t → WFClosed (P.mux.run t).flatten) :=
  implements_wf P.mux P.loc (P.implements h) t

/-- the root: `mux_observable` emits a closed well-formed trace for every item list -/
theorem C03_root {α} (xs : List α) : WFClosed (rootTrace xs) := by
  unfold WFClosed rootTrace
  have key : ∀ xs : List α, wfLive [[0]] (xs.map (Ev.next [0]) ++ [Ev.done [0]]) = some [] := by
    intro xs; induction xs with
    | nil => simp [wfLive, wfStep]
    | cons x xs ih => simpa [wfLive, wfStep] using ih
  simpa [wfLive, wfStep] using key xs

/-- **every internal boundary** of a supported pipeline carries a well-formed trace, closed when
the input is (structural recursion over the pipeline: each boundary is the output of a prefix) -/
theorem C03_all_boundaries : ∀ (P : Pipe) (path : String) (i : Nat) (t : List (Ev Val)), P.Supported →
    (WF t → ∀ b ∈ P.bounds path i t, WF b.2) ∧ (WFClosed t → ∀ b ∈ P.bounds path i t, WFClosed b.2)
  | .nil, _, _, _, _ => by simp [Pipe.bounds]
  | .cons s rest, path, i, t, h => by
    simp only [Pipe.Supported] at h
    have hs := implements_wf s.mux s.loc (s.implements h.1) t
    have hsb : s.bounds (path ++ "/" ++ toString i) t = [] := by
      cases s with
      | prim L P => simp [Stage.bounds]
      | wrap sp ls inner => simp [Stage.Supported] at h
      | tee m bs => simp [Stage.Supported] at h
    have ih := C03_all_boundaries rest path (i + 1) (flatRun s.mux t) h.2
    simp only [Pipe.bounds, hsb, List.nil_append, List.cons_append, List.mem_cons]
    refine ⟨fun ht b hb => ?_, fun hc b hb => ?_⟩
    · rcases hb with rfl | hb
      · exact hs.1 ht
      · exact ih.1 (hs.1 ht) b hb
    · rcases hb with rfl | hb
      · exact hs.2 hc
      · exact ih.2 (hs.2 hc) b hb

/-! ## nested pipelines -/

theorem impl_wf {α β} (Q : MuxOp α β) (L : LocalOp α β) (c : Bool) (h : Impl c Q L) (t : List (Ev α)) (hc : CleanTr t) :
    (WF t → WF (Q.run t).flatten) ∧ (WFClosed t → WFClosed (Q.run t).flatten) := by
  refine ⟨fun ht => ?_, fun hcl => ?_⟩
  · rw [h t ht (fun _ => hc)]; exact ref_wf L t ht
  · rw [h t (wf_of_closed hcl) (fun _ => hc)]; exact ref_wf_closed L t hcl

/-- **output boundary of a nested pipeline** (splitters, tee, any depth), index-addressed implementation -/
theorem C03_output_nested (P : Pipe) (h : P.Nested) (t : List (Ev Val)) (hc : CleanTr t) :
    (WF t → WF (P.mux.run t).flatten) ∧ (WFClosed t → WFClosed (P.mux.run t).flatten) :=
  impl_wf P.mux P.loc true (P.implN h) t hc

/-- **head of every inner pipeline**: what `group_by`, `roll`, `split`, `time_split` send into their
inner pipeline over a clean well-formed trace is a clean well-formed trace — no two live groups,
windows or segments share a slot index, every inner key is created before use and completed exactly
once — and it is closed when the input is closed -/
theorem C03_inner {α} {sp : Splitter α} {ls : LSplit α} (sim : SplitSim sp ls) (t : List (Ev α)) (ht : WF t) (hc : CleanTr t) :
    WF (sp.innerTrace sp.init t) ∧ CleanTr (sp.innerTrace sp.init t) ∧
      (WFClosed t → WFClosed (sp.innerTrace sp.init t)) := split_inner_wf sim t ht hc

/-- the five splitters of rxsci, for every key function, window/stride ≥ 1 and session configuration -/
theorem C03_inner_splitters (t : List (Ev Val)) (ht : WF t) (hc : CleanTr t) :
    (∀ f : Val → Val, WF ((groupBySp f).innerTrace (groupBySp f).init t) ∧
        (WFClosed t → WFClosed ((groupBySp f).innerTrace (groupBySp f).init t))) ∧
    (∀ w s, 0 < w → 0 < s → WF ((rollSp (α := Val) w s).innerTrace (rollSp w s).init t) ∧
        (WFClosed t → WFClosed ((rollSp (α := Val) w s).innerTrace (rollSp w s).init t))) ∧
    (∀ f : Val → Val, WF ((splitSp f).innerTrace (splitSp f).init t) ∧
        (WFClosed t → WFClosed ((splitSp f).innerTrace (splitSp f).init t))) ∧
    (∀ c : TsCfg Val, WF ((timeSplitSp c).innerTrace (timeSplitSp c).init t) ∧
        (WFClosed t → WFClosed ((timeSplitSp c).innerTrace (timeSplitSp c).init t))) :=
  ⟨fun f => ⟨(split_inner_wf (groupBySim f) t ht hc).1, (split_inner_wf (groupBySim f) t ht hc).2.2⟩,
   fun w s hw hs => ⟨(split_inner_wf (rollSim w s hs hw) t ht hc).1, (split_inner_wf (rollSim w s hs hw) t ht hc).2.2⟩,
   fun f => ⟨(split_inner_wf (splitSim f) t ht hc).1, (split_inner_wf (splitSim f) t ht hc).2.2⟩,
   fun c => ⟨(split_inner_wf (timeSplitSim c) t ht hc).1, (split_inner_wf (timeSplitSim c) t ht hc).2.2⟩⟩

mutual
/-- **every internal boundary of a nested pipeline** — between stages, at the head of every inner
pipeline, inside inner pipelines and tee branches, to any depth — carries a well-formed trace,
closed when the input is -/
theorem C03_stage_boundaries_nested : ∀ (s : Stage) (path : String) (t : List (Ev Val)), s.Nested → CleanTr t →
    (WF t → ∀ b ∈ s.bounds path t, WF b.2) ∧ (WFClosed t → ∀ b ∈ s.bounds path t, WFClosed b.2)
  | .prim _ _, _, _, _, _ => by simp [Stage.bounds]
  | .wrap sp ls inner, path, t, h, hc => by
    obtain ⟨⟨sim⟩, hin⟩ := h
    refine ⟨fun ht b hb => ?_, fun hcl b hb => ?_⟩
    · obtain ⟨w1, w2, _⟩ := split_inner_wf sim t ht hc
      have ih := C03_all_boundaries_nested inner path 0 (sp.innerTrace sp.init t) hin w2
      simp only [Stage.bounds, List.mem_cons] at hb
      rcases hb with rfl | hb
      · exact w1
      · exact ih.1 w1 b hb
    · obtain ⟨w1, w2, w3⟩ := split_inner_wf sim t (wf_of_closed hcl) hc
      have ih := C03_all_boundaries_nested inner path 0 (sp.innerTrace sp.init t) hin w2
      simp only [Stage.bounds, List.mem_cons] at hb
      rcases hb with rfl | hb
      · exact w3 hcl
      · exact ih.2 (w3 hcl) b hb
  | .tee _ bs, path, t, h, hc => by
    simp only [Stage.bounds]
    exact C03_branch_boundaries_nested bs path 0 t h.1 hc
theorem C03_all_boundaries_nested : ∀ (P : Pipe) (path : String) (i : Nat) (t : List (Ev Val)), P.Nested → CleanTr t →
    (WF t → ∀ b ∈ P.bounds path i t, WF b.2) ∧ (WFClosed t → ∀ b ∈ P.bounds path i t, WFClosed b.2)
  | .nil, _, _, _, _, _ => by simp [Pipe.bounds]
  | .cons s rest, path, i, t, h, hc => by
    obtain ⟨hs, hr, hor⟩ := h
    have hsb := C03_stage_boundaries_nested s (path ++ "/" ++ toString i) t hs hc
    have hout := impl_wf s.mux s.loc true (s.implN hs) t hc
    have hrest : WF t → (WF (flatRun s.mux t) → ∀ b ∈ rest.bounds path (i + 1) (flatRun s.mux t), WF b.2) ∧
        (WFClosed (flatRun s.mux t) → ∀ b ∈ rest.bounds path (i + 1) (flatRun s.mux t), WFClosed b.2) := by
      intro ht
      rcases hor with hsup | hcl
      · exact C03_all_boundaries rest path (i + 1) (flatRun s.mux t) hsup
      · have hclean : CleanTr (flatRun s.mux t) := by
          unfold flatRun
          rw [s.implN hs t ht (fun _ => hc)]
          exact clean_ref s.loc (s.clean_loc hcl) t _ hc
        exact C03_all_boundaries_nested rest path (i + 1) (flatRun s.mux t) hr hclean
    simp only [Pipe.bounds, List.mem_append, List.mem_cons, List.not_mem_nil, or_false]
    refine ⟨fun ht b hb => ?_, fun hcl b hb => ?_⟩
    · rcases hb with (hb | rfl) | hb
      · exact hsb.1 ht b hb
      · exact hout.1 ht
      · exact (hrest ht).1 (hout.1 ht) b hb
    · rcases hb with (hb | rfl) | hb
      · exact hsb.2 hcl b hb
      · exact hout.2 hcl
      · exact (hrest (wf_of_closed hcl)).2 (hout.2 hcl) b hb
theorem C03_branch_boundaries_nested : ∀ (bs : Pipes) (path : String) (n : Nat) (t : List (Ev Val)), bs.Nested → CleanTr t →
    (WF t → ∀ b ∈ bs.bounds path n t, WF b.2) ∧ (WFClosed t → ∀ b ∈ bs.bounds path n t, WFClosed b.2)
  | .nil, _, _, _, _, _ => by simp [Pipes.bounds]
  | .cons p rest, path, n, t, h, hc => by
    have h1 := C03_all_boundaries_nested p (path ++ "/b" ++ toString n) 0 t h.1 hc
    have h2 := C03_branch_boundaries_nested rest path (n + 1) t h.2 hc
    simp only [Pipes.bounds, List.mem_append]
    refine ⟨fun ht b hb => ?_, fun hcl b hb => ?_⟩
    · rcases hb with hb | hb
      · exact h1.1 ht b hb
      · exact h2.1 ht b hb
    · rcases hb with hb | hb
      · exact h1.2 hcl b hb
      · exact h2.2 hcl b hb
end

/-! non-vacuity: a concrete well-formed trace with slot reuse -/
example : WF ([.create [5], .next [5] 1, .create [2], .done [5], .create [5, 1], .next [2] 3] : List (Ev Nat)) := by
  unfold WF; decide
example : ¬ WF ([.create [5], .create [5, 1]] : List (Ev Nat)) := by
  unfold WF; decide

end Rx

import RxModel.Lemmas.Lift
import RxModel.Props.C05
import RxModel.Props.C09
import RxModel.Props.C02
import RxModel.Props.C20
/-!
# C11 — streaming promptness: results are emitted with the item that determines them

`MuxOp.run` yields one output chunk per input event: chunk `i` is what is emitted while event `i`
is processed.  Promptness statements are therefore equations about chunks.
-/
namespace Rx

/-- **causality** (every operator, every pipeline): the chunks emitted for a prefix of the input do
not depend on what follows — nothing is emitted for an input that has not been consumed yet, and
nothing already emitted is revised -/
theorem C11_causal {α β} (Q : MuxOp α β) (a b : List (Ev α)) :
    (Q.run (a ++ b)).take a.length = Q.run a := by
  unfold MuxOp.run
  rw [runSteps_append]
  have := runSteps_length Q.step a Q.init
  rw [List.take_left' this]

/-- the same for one key lifetime of a local operator -/
theorem C11_causal_local {α β} (L : LocalOp α β) (a b : List α) :
    ((L.runL L.init (a ++ b)).1).take a.length = (L.runL L.init a).1 := by
  unfold LocalOp.runL
  have h := runRaw_append L.next L.fin a b L.init
  rw [h]
  have := runRaw_fst_length L.next L.fin a L.init
  simp only
  rw [List.take_left' this]

/-- per-item operators: `map` emits the image of item `i` in chunk `i` -/
theorem C11_map_chunks {α β} (f : α → β) (xs : List α) :
    ((mapOp (fun x => Except.ok (f x))).runL () xs).1 = xs.map (fun x => [LOut.item (f x)]) := by
  show (runRaw (mapOp (fun x => Except.ok (f x))).next (mapOp (fun x => Except.ok (f x))).fin () xs).1 = _
  induction xs with
  | nil => rfl
  | cons x xs ih => simp only [runRaw, mapOp, List.map_cons] at ih ⊢; rw [ih]

/-- running aggregates: the i-th fold is emitted in chunk `i` (before the next item is consumed) -/
theorem C11_scan_chunks {α γ} (g : γ → α → γ) (seed : γ) (xs : List α) :
    ((scanOp (fun a x => .ok (g a x)) seed false none).runL none xs).1 =
      (scanl' g seed xs).map (fun a => [LOut.item a]) := by
  show (runRaw (scanNext (fun a x => Except.ok (g a x)) seed false) (scanFin seed false none) none xs).1 = _
  have key : ∀ (xs : List α) (s : Option γ),
      (runRaw (scanNext (fun a x => Except.ok (g a x)) seed false) (scanFin seed false none) s xs).1 =
        (scanl' g (s.getD seed) xs).map (fun a => [LOut.item a]) := by
    intro xs
    induction xs with
    | nil => intro s; rfl
    | cons x xs ih => intro s; simp [runRaw, scanNext, scanl', ih]
  exact key xs none

/-- `reduce=True`: nothing before the key completes; the result waits for the end of the key -/
theorem C11_reduce_chunks {α γ} (g : γ → α → γ) (seed : γ) (xs : List α) :
    ((scanOp (fun a x => .ok (g a x)) seed true none).runL none xs).1 = xs.map (fun _ => []) := by
  show (runRaw (scanNext (fun a x => Except.ok (g a x)) seed true) (scanFin seed true none) none xs).1 = _
  have key : ∀ (xs : List α) (s : Option γ),
      (runRaw (scanNext (fun a x => Except.ok (g a x)) seed true) (scanFin seed true none) s xs).1 =
        xs.map (fun _ => []) := by
    intro xs
    induction xs with
    | nil => intro s; rfl
    | cons x xs ih => intro s; simp [runRaw, scanNext, ih]
  exact key xs none

/-- `take(n)`: item `i < n` is forwarded in its own chunk -/
theorem C11_take_chunks {α} (n : Nat) (xs : List α) :
    ((takeOp (α := α) n).runL n xs).1 = xs.zipIdx.map (fun p => if p.2 < n then [LOut.item p.1] else []) := by
  show (runRaw (takeOp (α := α) n).next (takeOp (α := α) n).fin n xs).1 = _
  have key : ∀ (xs : List α) (c k : Nat), c = n - k →
      (runRaw (takeOp (α := α) n).next (takeOp (α := α) n).fin c xs).1 =
        (xs.zipIdx k).map (fun p => if p.2 < n then [LOut.item p.1] else []) := by
    intro xs
    induction xs with
    | nil => intro c k _; rfl
    | cons x xs ih =>
      intro c k hck
      simp only [runRaw, takeOp, List.zipIdx_cons, List.map_cons] at ih ⊢
      cases c with
      | zero =>
        have hk : ¬ k < n := by omega
        simp only [Nat.lt_irrefl, if_false, hk]
        rw [ih 0 (k + 1) (by omega)]
      | succ c =>
        have hk : k < n := by omega
        simp only [Nat.zero_lt_succ, if_true, hk, Nat.add_sub_cancel]
        rw [ih c (k + 1) (by omega)]
  exact key xs n 0 (by omega)

/-- **windows**: `roll` completes window `j` while the item that is its `w`-th is consumed:
after the first `n` items exactly the windows with `j*s + w ≤ n` are completed -/
theorem C11_roll_prompt {α} (w s : Nat) (hs : 0 < s) (hw : 0 < w) (xs : List α) (n : Nat) :
    ∃ c, (∀ j, j < c ↔ j * s + w ≤ (xs.take n).length) ∧
      ((rollRingLS w s).windows (xs.take n)).1 = (List.range c).map (window w s (xs.take n)) :=
  C05_full_windows w s hs hw (xs.take n)

/-- **compose**: in `wrap sp Q` (group_by / roll / split / time_split around an inner pipeline) the
chunk of an outer event is the inner pipeline run on the inner events the splitter produces for that
same event, demultiplexed, followed by the splitter's outer events: a window's result is emitted
with its closing item -/
theorem C11_wrap_chunk {α β} (sp : Splitter α) (Q : MuxOp α β) (st : sp.S × Q.S) (e : Ev α) :
    ((wrap sp Q).step st e).2 =
      demux (runGroup Q.step st.2 (sp.step st.1 e).2.1).2 ++ (sp.step st.1 e).2.2.map OEv.toEv := rfl

/-! ## nested pipelines: every output sits in the chunk of the item that determines it -/

theorem lifetime_wf {α} (k : Key) (xs : List α) : WFClosed ([Ev.create k] ++ xs.map (Ev.next k) ++ [Ev.done k]) := by
  unfold WFClosed
  have key : ∀ xs : List α, wfLive [k] (xs.map (Ev.next k) ++ [Ev.done k]) = some [] := by
    intro xs; induction xs with
    | nil => simp [wfLive, wfStep]
    | cons x xs ih => simpa [wfLive, wfStep] using ih
  simpa [wfLive, wfStep] using key xs

theorem lifetime_clean {α} (k : Key) (xs : List α) : CleanTr ([Ev.create k] ++ xs.map (Ev.next k) ++ [Ev.done k]) := by
  refine ⟨?_, ?_⟩
  · intro e he
    simp only [List.mem_append, List.mem_singleton, List.mem_map] at he
    rcases he with (rfl | ⟨_, _, rfl⟩) | rfl <;> rfl
  · intro e he
    simp only [List.mem_append, List.mem_singleton, List.mem_map] at he
    rcases he with (rfl | ⟨_, _, rfl⟩) | rfl <;> rfl

/-- **chunk by chunk, nested pipelines**: over one key lifetime, the index-addressed implementation
of any nested pipeline (group_by / roll / split / time_split around inner pipelines, tee_map around
branches, any depth) emits in the chunk of item `i` exactly what the pipeline's local meaning emits
for item `i`, and in the completion chunk what it emits at completion — nothing earlier, nothing
later.  (For `wrap`, the local chunk of an item is the inner pipelines' output on the commands the
splitter issues for that item: a window's result is emitted with its closing item.) -/
theorem C11_chunks_nested (P : Pipe) (h : P.Nested) (k : Key) (xs : List Val) :
    P.mux.run ([.create k] ++ xs.map (.next k) ++ [.done k]) =
      [[.create k]] ++ (P.loc.runL P.loc.init xs).1.map (fun c => c.map (liftOut k)) ++
        [(P.loc.runL P.loc.init xs).2.map (liftOut k) ++ [.done k]] := by
  rw [impl_eq_ref_nested P h _ (wf_of_closed (lifetime_wf k xs)) (lifetime_clean k xs)]
  exact (C02_lifetime P.loc k xs (fun _ => none)).1

/-- the local chunk of `wrap` for one item: the inner operator run on the commands of that item -/
theorem C11_wrap_local_chunk {α β} (ls : LSplit α) (L : LocalOp α β) (s : (localWrap ls L).σ) (x : α) :
    ((localWrap ls L).next s x).2 = (runGroup (cmdStep L) s.2 (ls.next s.1 x).2).2.map demuxL := rfl

/-! ## batch: a batch is emitted with its closing (n-th) item -/

theorem stateAfter_snoc {σ α β} (next : σ → α → σ × List β) : ∀ (xs : List α) (s : σ) (x : α),
    stateAfter next s (xs ++ [x]) = (next (stateAfter next s xs) x).1 := by
  intro xs
  induction xs with
  | nil => intro s x; rfl
  | cons y ys ih => intro s x; simp only [List.cons_append, stateAfter, ih]

/-- the scan state of `batch(n)` after any items: the pending items are those after the last full batch -/
theorem batch_pending {α : Type} (n : Nat) (hn : 0 < n) : ∀ (xs : List α) (s : Option (List α × Bool)),
    (pendingOf s).length < n →
    pendingOf (stateAfter (bNext n) s xs) = (pendingOf s ++ xs).drop ((pendingOf s ++ xs).length / n * n) := by
  intro xs
  induction xs with
  | nil =>
    intro s hp
    simp only [stateAfter, List.append_nil]
    have : (pendingOf s).length / n = 0 := Nat.div_eq_of_lt hp
    simp [this]
  | cons x xs ih =>
    intro s hp
    have hacc : batchAcc n (s.getD ([], false)) x = (pendingOf s ++ [x], (pendingOf s ++ [x]).length == n) := by
      cases s with
      | none => simp [batchAcc, pendingOf]
      | some bf => obtain ⟨b, fl⟩ := bf; cases fl <;> simp [batchAcc, pendingOf]
    simp only [stateAfter, bNext, hacc]
    by_cases hfull : (pendingOf s ++ [x]).length = n
    · have hbeq : ((pendingOf s ++ [x]).length == n) = true := by simp only [hfull, beq_self_eq_true]
      rw [hbeq, ih _ (by rw [pendingOf_true]; exact hn), pendingOf_true, List.nil_append]
      have e : pendingOf s ++ x :: xs = (pendingOf s ++ [x]) ++ xs := by simp
      rw [e]
      have hlen : ((pendingOf s ++ [x]) ++ xs).length = xs.length + n := by
        rw [List.length_append, hfull]; omega
      rw [hlen, Nat.add_div_right _ hn, Nat.add_mul, Nat.one_mul, Nat.add_comm (xs.length / n * n) n]
      rw [← List.drop_drop, List.drop_left' hfull]
    · have hbeq : ((pendingOf s ++ [x]).length == n) = false := by
        cases h : ((pendingOf s ++ [x]).length == n)
        · rfl
        · exact absurd (eq_of_beq h) hfull
      have hlt : (pendingOf s ++ [x]).length < n := by
        rw [List.length_append, List.length_singleton] at hfull ⊢; omega
      rw [hbeq, ih _ (by rw [pendingOf_false]; exact hlt), pendingOf_false]
      simp

/-- **batch promptness**: while the item that follows `xs` is consumed, `batch(n)` emits the batch
that this item completes — the last `n` items — if and only if it is the `n`-th item of its
batch; otherwise nothing.  (Stated on the scan|filter|map state machine `bNext`, which is the
composed operator `batchG n` by `batchG_sim`.) -/
theorem C11_batch_prompt {α : Type} (n : Nat) (hn : 0 < n) (xs : List α) (x : α) :
    (bNext n (stateAfter (bNext n) none xs) x).2 =
      if xs.length % n + 1 = n then [.item (xs.drop (xs.length / n * n) ++ [x])] else [] := by
  have hp := batch_pending n hn xs none (by simp [pendingOf]; exact hn)
  simp only [pendingOf, List.nil_append] at hp
  have hlen : (pendingOf (stateAfter (bNext n) none xs)).length = xs.length % n := by
    have hpend : pendingOf (stateAfter (bNext n) none xs) = xs.drop (xs.length / n * n) := hp
    rw [hpend, List.length_drop]
    have := Nat.div_add_mod xs.length n
    rw [Nat.mul_comm] at this
    omega
  have hacc : ∀ s : Option (List α × Bool), batchAcc n (s.getD ([], false)) x = (pendingOf s ++ [x], (pendingOf s ++ [x]).length == n) := by
    intro s
    cases s with
    | none => simp [batchAcc, pendingOf]
    | some bf => obtain ⟨b, fl⟩ := bf; cases fl <;> simp [batchAcc, pendingOf]
  have hpend : pendingOf (stateAfter (bNext n) none xs) = xs.drop (xs.length / n * n) := hp
  have hlen2 : (xs.drop (xs.length / n * n)).length = xs.length % n := by rw [← hpend]; exact hlen
  simp only [bNext, hacc, List.length_append, List.length_singleton, hpend, beq_iff_eq, hlen2]

/-- the chunk of the item at position `|xs|` of any longer stream is that step's output -/
theorem C11_batch_chunk_at {α : Type} (n : Nat) (xs ys : List α) (x : α) :
    (runRaw (bNext n) bFin none (xs ++ x :: ys)).1[xs.length]? = some (bNext n (stateAfter (bNext n) none xs) x).2 := by
  rw [runRaw_append]
  simp only [runRaw]
  have := runRaw_fst_length (bNext n) bFin xs none
  rw [List.getElem?_append_right (by omega), this]
  simp

end Rx

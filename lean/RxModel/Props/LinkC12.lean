import RxGen.Kernels
import RxModel.PyVal
import RxModel.Lemmas.PlainDerived
/-!
# C12 link theorems (1): the model's math operators ARE the stage lists generated from the source

`genPipe` interprets a generated stage list (`rx.pipe(scan(...), map(...))` of the source, kernels
translated by harness/pygen.py) as a model pipeline at `Val`.  Each theorem says that the hand-written
operator the driver executes (and the correspondence check compares with CPython bit for bit) equals
that pipeline, for every key mapper and both `reduce` settings.
-/
namespace Rx

theorem gen_sum_accumulate (key : D.F1) :
    Gen.sum_accumulate (V := Val) key = (fun acc i => do let k ← key i; Val.add acc k) := by
  funext acc i
  simp [Gen.sum_accumulate, PyAlg.add]

theorem Link_sum (key : D.F1) (r : Bool) : genPipe (Gen.sum_stages key r) = Pipe.ofList [D.sum key r] := by
  simp only [genPipe, Gen.sum_stages, List.map, GStage.toStage, D.sum, Option.map, gen_sum_accumulate]
  rfl

theorem gen_mean_accumulate (key : D.F1) :
    Gen.mean_accumulate (V := Val) key = (fun acc i => do
      let k ← key i
      let a ← Val.add (acc.nth 0) k
      let c ← Val.add (acc.nth 1) (.int 1)
      pure (Val.tup [a, c])) := by
  funext acc i
  simp [Gen.mean_accumulate, PyAlg.add, PyAlg.nth, PyAlg.tup, PyAlg.int]

theorem gen_mean_result :
    Gen.mean_result (V := Val) = (fun acc => if acc = .none then pure .none else Val.div (acc.nth 0) (acc.nth 1)) := by
  funext acc
  by_cases h : acc = .none <;> simp [Gen.mean_result, PyAlg.div, PyAlg.nth, PyAlg.isNone, PyAlg.none, h]

theorem Link_mean (key : D.F1) (r : Bool) : genPipe (Gen.mean_stages key r) = D.mean key r := by
  simp only [genPipe, Gen.mean_stages, List.map, List.cons_append, List.nil_append, GStage.toStage, D.mean, Option.map,
    gen_mean_accumulate, gen_mean_result]
  rfl

theorem gen_min_accumulate (key : D.F1) :
    Gen.min_accumulate (V := Val) key = (fun acc i => do
      let k ← key i
      if acc = .none then pure k
      else
        let b ← Val.lt k acc
        pure (if b then k else acc)) := by
  funext acc i
  by_cases h : acc = .none
  · subst h; simp [Gen.min_accumulate, PyAlg.isNone]
  · simp only [Gen.min_accumulate, PyAlg.isNone, PyAlg.lt, h, beq_iff_eq, if_false, Bool.false_eq_true]
    cases key i with
    | error e => rfl
    | ok k =>
      simp only [bind, Except.bind, pure, Except.pure]
      cases Val.lt k acc with
      | error e => rfl
      | ok b => cases b <;> rfl

theorem gen_max_accumulate (key : D.F1) :
    Gen.max_accumulate (V := Val) key = (fun acc i => do
      let k ← key i
      if acc = .none then pure k
      else
        let b ← Val.lt acc k
        pure (if b then k else acc)) := by
  funext acc i
  by_cases h : acc = .none
  · subst h; simp [Gen.max_accumulate, PyAlg.isNone]
  · simp only [Gen.max_accumulate, PyAlg.isNone, PyAlg.lt, h, beq_iff_eq, if_false, Bool.false_eq_true]
    cases key i with
    | error e => rfl
    | ok k =>
      simp only [bind, Except.bind, pure, Except.pure]
      cases Val.lt acc k with
      | error e => rfl
      | ok b => cases b <;> rfl

theorem Link_min (key : D.F1) (r : Bool) : genPipe (Gen.min_stages key r) = Pipe.ofList [D.minmax false key r] := by
  simp only [genPipe, Gen.min_stages, List.map, GStage.toStage, D.minmax, Option.map, gen_min_accumulate]
  rfl

theorem Link_max (key : D.F1) (r : Bool) : genPipe (Gen.max_stages key r) = Pipe.ofList [D.minmax true key r] := by
  simp only [genPipe, Gen.max_stages, List.map, GStage.toStage, D.minmax, Option.map, gen_max_accumulate]
  rfl

theorem gen_variance_accumulate (key : D.F1) : Gen.variance_accumulate (V := Val) key = D.welford key := by
  funext acc i
  by_cases h : acc.nth 0 = .none
  · simp [Gen.variance_accumulate, D.welford, PyAlg.isNone, PyAlg.nth, PyAlg.add, PyAlg.int, PyAlg.tup, h]
  · simp [Gen.variance_accumulate, D.welford, PyAlg.isNone, PyAlg.nth, PyAlg.add, PyAlg.sub, PyAlg.mul, PyAlg.div,
      PyAlg.int, PyAlg.tup, h]

theorem gen_variance_result : Gen.variance_result (V := Val) = D.welfordResult := by
  funext acc
  simp [Gen.variance_result, D.welfordResult, PyAlg.lt, PyAlg.nth, PyAlg.int, PyAlg.sub, PyAlg.div, PyAlg.flit, D.flit]

theorem gen_sqrt_result : Gen.stddev_result (V := Val) = (fun v => if v = .none then pure .none else Val.sqrt v) := by
  funext v
  by_cases h : v = .none <;> simp [Gen.stddev_result, PyAlg.isNone, PyAlg.sqrt, PyAlg.none, h]

theorem Link_variance (key : D.F1) (r : Bool) : genPipe (Gen.variance_stages key r) = D.variance key r := by
  simp only [genPipe, Gen.variance_stages, List.map, List.cons_append, List.nil_append, GStage.toStage, D.variance, Option.map,
    gen_variance_accumulate, gen_variance_result]
  rfl

theorem genPipe_append (a b : List (GStage Val)) : genPipe (a ++ b) = (genPipe a).append (genPipe b) := by
  induction a with
  | nil => rfl
  | cons s a ih => simp only [genPipe, List.cons_append, List.map, Pipe.ofList, Pipe.append] at *; rw [ih]

theorem Link_stddev (key : D.F1) (r : Bool) : genPipe (Gen.stddev_stages key r) = D.stddev key r := by
  simp only [Gen.stddev_stages, genPipe_append, Link_variance, D.stddev]
  simp only [genPipe, List.map, GStage.toStage, gen_sqrt_result, D.sqrtMap]

theorem ok_bind {ε α β} (a : α) (f : α → Except ε β) : (Except.ok a >>= f) = f a := rfl
theorem err_bind {ε α β} (e : ε) (f : α → Except ε β) : (Except.error e >>= f) = Except.error e := rfl

theorem append_lst (m0 : List Val) (v : Val) : (PyAlg.append (Val.lst m0) v : Except Err Val) = .ok (Val.lst (m0 ++ [v])) := by
  simp [PyAlg.append, toListAcc, Val.lst, VList.toList_ofList]

/-- the `for` loop of `_moment`: appending `(x_i - c) ** n` to `m` for every element -/
theorem moment_loop (c n : Val) (xs : List Val) (m0 : List Val) :
    (forIn xs (Val.lst m0) (fun x_i r => do
        let t2 ← PyAlg.sub x_i c
        let t3 ← PyAlg.pow t2 n
        let t4 ← PyAlg.append r t3
        pure (ForInStep.yield t4)) : Except Err Val)
      = (do let ms ← xs.mapM (fun x => do let d ← Val.sub x c; Val.pow d n); pure (Val.lst (m0 ++ ms))) := by
  induction xs generalizing m0 with
  | nil => simp
  | cons x xs ih =>
    simp only [List.forIn_cons, List.mapM_cons, bind_assoc]
    show ((Val.sub x c) >>= _) = _
    cases (Val.sub x c) with
    | error e => rfl
    | ok d =>
      simp only [ok_bind]
      show ((Val.pow d n) >>= _) = _
      cases (Val.pow d n) with
      | error e => rfl
      | ok p =>
        simp only [ok_bind, append_lst, pure_bind, ih, bind_assoc, List.append_assoc, List.singleton_append]

theorem gen_fvariance_accumulate (key : D.F1) :
    Gen.fvariance_accumulate (V := Val) key = (fun acc i => do let k ← key i; toListAcc acc k) := by
  funext acc i
  simp [Gen.fvariance_accumulate, PyAlg.append]

theorem lt_int (a b : Int) : (PyAlg.lt (Val.int a) (Val.int b) : Except Err Bool) = .ok (decide (a < b)) := rfl

theorem lenV_of_elemsE (x : Val) (xs : List Val) (h : x.elemsE = .ok xs) : x.lenV = .ok (.int xs.length) := by
  cases x <;> simp [Val.elemsE, Val.elems] at h <;> simp [Val.lenV, Val.elems, h]

theorem pow_nat (d : Val) (n : Nat) : Val.pow d (.int n) = D.powV d n := rfl

theorem sum_lst (ms : List Val) : (PyAlg.sum (Val.lst ms) : Except Err Val) = D.pySum ms := by
  show Val.sumV _ = _
  simp [Val.sumV, Val.elemsE, Val.elems, Val.lst, VList.toList_ofList]
  rfl

/-- the generated `_moment` on a Python value = the model's `momentV` -/
theorem gen_moment (x c : Val) (n : Nat) : Gen.moment x c (.int n) = D.momentV x c n := by
  simp only [Gen.moment, D.momentV, PyAlg.elems, PyAlg.lst]
  cases hx : x.elemsE with
  | error e => simp [bind, Except.bind]
  | ok xs =>
    simp only [ok_bind]
    have hloop := moment_loop c (.int n) xs []
    simp only [List.nil_append] at hloop
    rw [hloop]
    simp only [D.moment, PyAlg.len, lenV_of_elemsE x xs hx, PyAlg.int, lt_int, ok_bind, bind_assoc, pure_bind, pow_nat]
    have hd : decide ((0 : Int) < (xs.length : Int)) = decide (0 < xs.length) := by
      congr 1; simp
    simp only [hd, sum_lst, PyAlg.div, PyAlg.none, decide_eq_true_eq]

theorem gen_fvariance_result : Gen.fvariance_result (V := Val) = D.fvarianceResult := by
  funext acc
  simp only [Gen.fvariance_result, D.fvarianceResult, PyAlg.len, PyAlg.eq, PyAlg.int, PyAlg.flit, D.flit]
  cases Val.lenV acc with
  | error e => rfl
  | ok n =>
    simp only [ok_bind]
    by_cases h : n = .int 0
    · simp [h]
    · have hm1 : Gen.moment acc (Val.int 0) (Val.int 1) = D.momentV acc (.int 0) 1 := gen_moment acc (.int 0) 1
      simp only [beq_iff_eq, h, if_false, hm1]
      cases D.momentV acc (.int 0) 1 with
      | error e => rfl
      | ok m =>
        have hm2 : Gen.moment acc m (Val.int 2) = D.momentV acc m 2 := gen_moment acc m 2
        simp only [ok_bind, hm2, bind_pure]

theorem Link_formal_variance (key : D.F1) (r : Bool) : genPipe (Gen.fvariance_stages key r) = D.fvariance key r := by
  simp only [genPipe, Gen.fvariance_stages, List.map, List.cons_append, List.nil_append, GStage.toStage, D.fvariance, Option.map,
    gen_fvariance_accumulate, gen_fvariance_result]
  rfl

theorem gen_fsqrt_result : Gen.fstddev_result (V := Val) = (fun v => if v = .none then pure .none else Val.sqrt v) := by
  funext v
  by_cases h : v = .none <;> simp [Gen.fstddev_result, PyAlg.isNone, PyAlg.sqrt, PyAlg.none, h]

theorem Link_formal_stddev (key : D.F1) (r : Bool) : genPipe (Gen.fstddev_stages key r) = D.fstddev key r := by
  simp only [Gen.fstddev_stages, genPipe_append, Link_formal_variance, D.fstddev]
  simp only [genPipe, List.map, GStage.toStage, gen_fsqrt_result, D.sqrtMap]

end Rx

import RxModel.Lemmas.Codec
/-!
# C17 — incremental text encode/decode is chunk-boundary independent

`encodeRun` / `decodeRun` are rxsci's `encode` / `decode` operators over the incremental coders:
one coder state threaded through all items, one final flush.  The encodings themselves
(utf-8, utf-16, utf-32, latin-1) are implemented in the model, not assumed.
-/
namespace Rx

/-- the BOM is written exactly once, at the very start — also when there is no string at all -/
theorem C17_bom_once (e : Enc) (ss : List (List Nat)) :
    (encodeRun e false ss).flatten = bom e false ++ ss.flatten.flatMap (encChar e false) := by
  have key : ∀ (ss : List (List Nat)),
      (encodeRun e true ss).flatten = ss.flatten.flatMap (encChar e false) := by
    intro ss
    induction ss with
    | nil => simp [encodeRun, encFinish]
    | cons s ss ih => simp [encodeRun, encFeed, ih, List.flatMap_append]
  cases ss with
  | nil => simp [encodeRun, encFinish]
  | cons s ss => simp [encodeRun, encFeed, key, List.flatMap_append]

theorem decAll_fixed_nil (e : Enc) (big : Bool) (p : List Nat) (h1 : decAll e big p = ([], p))
    (h2 : (decAll e big p).2 = []) : p = [] := by
  rw [h1] at h2; exact h2

/-- once the byte order is known: feeding chunk by chunk = greedy decoding of the concatenation -/
theorem decodeRun_known (e : Enc) (big : Bool) : ∀ (cs : List (List Nat)) (pend : List Nat),
    decAll e big pend = ([], pend) → (decAll e big (pend ++ cs.flatten)).2 = [] →
    ∃ outs, decodeRun e ⟨some big, pend⟩ cs = .ok outs ∧ outs.flatten = (decAll e big (pend ++ cs.flatten)).1 := by
  intro cs
  induction cs with
  | nil =>
    intro pend h1 h2
    simp only [List.flatten_nil, List.append_nil] at h2 ⊢
    have hp : pend = [] := decAll_fixed_nil e big pend h1 h2
    subst hp
    refine ⟨[[]], ?_, ?_⟩
    · simp [decodeRun, decFinish]; rfl
    · rw [h1]; rfl
  | cons c cs ih =>
    intro pend _ h2
    simp only [List.flatten_cons] at h2 ⊢
    have happ := decAll_append e big (pend ++ c).length (pend ++ c) cs.flatten rfl
    rw [List.append_assoc] at happ
    have hid := decAll_idem e big (pend ++ c)
    have h2' : (decAll e big ((decAll e big (pend ++ c)).2 ++ cs.flatten)).2 = [] := by
      rw [happ] at h2; exact h2
    obtain ⟨outs, ho1, ho2⟩ := ih (decAll e big (pend ++ c)).2 (by rw [Prod.ext_iff]; exact ⟨hid.1, hid.2⟩) h2'
    refine ⟨(decAll e big (pend ++ c)).1 :: outs, ?_, ?_⟩
    · simp only [decodeRun, decFeed, bind, Except.bind, ho1, pure, Except.pure]
    · rw [List.flatten_cons, ho2, happ]

/-- utf-16 / utf-32: while the BOM is incomplete nothing is emitted; then as above -/
theorem decodeRun_bom (e : Enc) (he : e = .utf16 ∨ e = .utf32) (body : List Nat)
    (hbody : (decAll e false body).2 = []) :
    ∀ (cs : List (List Nat)) (pend : List Nat), pend.length < (bom e false).length →
      pend ++ cs.flatten = bom e false ++ body →
      ∃ outs, decodeRun e ⟨none, pend⟩ cs = .ok outs ∧ outs.flatten = (decAll e false body).1 := by
  intro cs
  induction cs with
  | nil =>
    intro pend hp hs
    simp only [List.flatten_nil, List.append_nil] at hs
    have : pend.length = (bom e false ++ body).length := by rw [hs]
    simp only [List.length_append] at this
    omega
  | cons c cs ih =>
    intro pend hp hs
    simp only [List.flatten_cons] at hs
    rw [← List.append_assoc] at hs
    by_cases hlen : (pend ++ c).length < (bom e false).length
    · obtain ⟨outs, ho1, ho2⟩ := ih (pend ++ c) hlen hs
      refine ⟨[] :: outs, ?_, by simpa using ho2⟩
      simp only [decodeRun, decFeed, hlen, if_true, bind, Except.bind, ho1, pure, Except.pure]
    · have hge : (bom e false).length ≤ (pend ++ c).length := by omega
      have htake : (pend ++ c).take (bom e false).length = bom e false := by
        have h1 : ((pend ++ c) ++ cs.flatten).take (bom e false).length = (pend ++ c).take (bom e false).length :=
          List.take_append_of_le_length hge
        rw [← h1, hs]
        simp
      have hdrop : (pend ++ c).drop (bom e false).length ++ cs.flatten = body := by
        have h1 : ((pend ++ c) ++ cs.flatten).drop (bom e false).length =
            (pend ++ c).drop (bom e false).length ++ cs.flatten := List.drop_append_of_le_length hge
        rw [← h1, hs]
        simp
      have happ := decAll_append e false ((pend ++ c).drop (bom e false).length).length
        ((pend ++ c).drop (bom e false).length) cs.flatten rfl
      rw [hdrop] at happ
      have hid := decAll_idem e false ((pend ++ c).drop (bom e false).length)
      have h2' : (decAll e false ((decAll e false ((pend ++ c).drop (bom e false).length)).2 ++ cs.flatten)).2 = [] := by
        rw [happ] at hbody; exact hbody
      obtain ⟨outs, ho1, ho2⟩ := decodeRun_known e false cs (decAll e false ((pend ++ c).drop (bom e false).length)).2
        (by rw [Prod.ext_iff]; exact ⟨hid.1, hid.2⟩) h2'
      refine ⟨(decAll e false ((pend ++ c).drop (bom e false).length)).1 :: outs, ?_, ?_⟩
      · simp only [decodeRun, decFeed, hlen, if_false, htake, if_true, bind, Except.bind, ho1, pure, Except.pure]
      · rw [List.flatten_cons, ho2, happ]

/-- **round trip under any re-chunking**: for every supported encoding, every list of strings the
encoding can represent, and EVERY way of cutting the encoded bytes into chunks (inside multi-byte
sequences, inside the BOM, empty chunks), decoding succeeds and the concatenated text equals the
concatenation of the original strings — nothing lost, duplicated or replaced at a boundary -/
theorem C17_roundtrip (e : Enc) (ss : List (List Nat)) (cs : List (List Nat))
    (hok : ∀ s ∈ ss, ∀ c ∈ s, e.ok c = true)
    (hcs : cs.flatten = (encodeRun e false ss).flatten) :
    ∃ outs, decodeRun e (decInit e) cs = .ok outs ∧ outs.flatten = ss.flatten := by
  rw [C17_bom_once] at hcs
  have hall : ∀ c ∈ ss.flatten, e.ok c = true := by
    intro c hc
    obtain ⟨s, hs, hcs'⟩ := List.mem_flatten.mp hc
    exact hok s hs c hcs'
  have henc := decAll_encoded e false ss.flatten hall
  cases e with
  | utf8 =>
    simp only [bom, List.nil_append] at hcs
    have h0 : decAll .utf8 false [] = ([], []) := by simpa using decAll_encoded .utf8 false [] (by simp)
    obtain ⟨outs, h1, h2⟩ := decodeRun_known .utf8 false cs [] h0 (by rw [List.nil_append, hcs, henc])
    exact ⟨outs, h1, by rw [h2, List.nil_append, hcs, henc]⟩
  | latin1 =>
    simp only [bom, List.nil_append] at hcs
    have h0 : decAll .latin1 false [] = ([], []) := by simpa using decAll_encoded .latin1 false [] (by simp)
    obtain ⟨outs, h1, h2⟩ := decodeRun_known .latin1 false cs [] h0 (by rw [List.nil_append, hcs, henc])
    exact ⟨outs, h1, by rw [h2, List.nil_append, hcs, henc]⟩
  | utf16 =>
    obtain ⟨outs, h1, h2⟩ := decodeRun_bom .utf16 (Or.inl rfl) _ (by rw [henc]) cs []
      (by simp [bom, unit16]) (by simpa using hcs)
    exact ⟨outs, h1, by rw [h2, henc]⟩
  | utf32 =>
    obtain ⟨outs, h1, h2⟩ := decodeRun_bom .utf32 (Or.inr rfl) _ (by rw [henc]) cs []
      (by simp [bom, utf32Enc]) (by simpa using hcs)
    exact ⟨outs, h1, by rw [h2, henc]⟩

/-- one character survives encode → decode for every encoding and either byte order -/
theorem C17_char_roundtrip (e : Enc) (big : Bool) (c : Nat) (rest : List Nat) (h : e.ok c = true) :
    dec1 e big (encChar e big c ++ rest) = some (c, rest) := dec1_enc e big c rest h

/-! non-vacuity: "a😀" then "é" in utf-16, cut inside the BOM and inside the surrogate pair -/
example : ∃ outs, decodeRun .utf16 (decInit .utf16) [[0xFF], [0xFE, 0x61, 0x00, 0x3D], [0xD8, 0x00], [0xDE, 0xE9, 0x00]] = .ok outs ∧
    outs.flatten = [0x61, 0x1F600, 0xE9] :=
  C17_roundtrip .utf16 [[0x61, 0x1F600], [0xE9]] _ (by decide) (by decide)

end Rx

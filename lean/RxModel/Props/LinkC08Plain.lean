import RxModel.Props.LinkC08
import RxModel.Props.LinkOps
/-!
# C08 / C01 link theorems for the join of `tee_map` on an ORDINARY observable (`_process_many.subscribe`)

`harness/pygen.py` (`PlainJoinTranslator`) translates the closures `on_next(i, x)` and `done(i)` of rxsci/operators/tee_map.py into
the monad `PM` (the three Python lists `queue`, `has_next`, `is_done` are the fields `jq`, `jh`, `jd` of `PSt`). The theorems say
that the generated closures are the model's `pJoinNext` (the join the plain `tee_map` of the model is built from, `Plain.lean`) and
the all-branches-done completion rule.
-/
namespace Rx
open PM

/-- the Python list `queue`: `None` where the model has no pending item -/
def jrep (q : List (Option Val)) : List Val := q.map (·.getD Val.none)

/-- the values of the items of an output list -/
def louts : List (LOut Val) → List Val
  | [] => []
  | .item v :: r => v :: louts r
  | _ :: r => louts r

theorem runP_queueSet_ok (i : Nat) (v : Val) (s : PSt Val) (h : i < s.jq.length) :
    runP (queueSet i v) s = (.ok (), { s with jq := s.jq.set i v }) := by
  simp [runP, queueSet, h, ExceptT.run, bind, ExceptT.bind, ExceptT.mk, ExceptT.bindCont, StateT.bind, get, getThe, MonadStateOf.get,
    StateT.get, liftM, monadLift, MonadLift.monadLift, ExceptT.lift, Functor.map, StateT.map, pure, set, MonadStateOf.set, StateT.set, StateT.run]
theorem runP_hasSet_ok (i : Nat) (b : Bool) (s : PSt Val) (h : i < s.jh.length) :
    runP (hasSet i b) s = (.ok (), { s with jh := s.jh.set i b }) := by
  simp [runP, hasSet, h, ExceptT.run, bind, ExceptT.bind, ExceptT.mk, ExceptT.bindCont, StateT.bind, get, getThe, MonadStateOf.get,
    StateT.get, liftM, monadLift, MonadLift.monadLift, ExceptT.lift, Functor.map, StateT.map, pure, set, MonadStateOf.set, StateT.set, StateT.run]
theorem runP_doneSet_ok (i : Nat) (b : Bool) (s : PSt Val) (h : i < s.jd.length) :
    runP (doneSet i b) s = (.ok (), { s with jd := s.jd.set i b }) := by
  simp [runP, doneSet, h, ExceptT.run, bind, ExceptT.bind, ExceptT.mk, ExceptT.bindCont, StateT.bind, get, getThe, MonadStateOf.get,
    StateT.get, liftM, monadLift, MonadLift.monadLift, ExceptT.lift, Functor.map, StateT.map, pure, set, MonadStateOf.set, StateT.set, StateT.run]
theorem runP_queueAll (s : PSt Val) : runP queueAll s = (.ok s.jq, s) := rfl
theorem runP_hasAll (s : PSt Val) : runP hasAll s = (.ok s.jh, s) := rfl
theorem runP_doneAll (s : PSt Val) : runP doneAll s = (.ok s.jd, s) := rfl
theorem runP_complete (s : PSt Val) : runP PM.complete s = (.ok (), { s with completed := true }) := rfl

theorem runP_er_pure {ρ α} (r : α) (s : PSt Val) :
    runP (ExceptT.run (pure r : ExceptT ρ (PM Val) α)) s = (.ok (.ok r), s) := rfl

/-- `for index in range(n): has_next[index] = False` -/
theorem reset_loop_plain (l : List Nat) (s : PSt Val) (hl : ∀ a ∈ l, a < s.jh.length) :
    runP (forIn l PUnit.unit (fun index (_ : PUnit) => do
        hasSet index false
        pure (ForInStep.yield PUnit.unit))) s
      = (.ok PUnit.unit, { s with jh := l.foldl (fun h a => h.set a false) s.jh }) := by
  induction l generalizing s with
  | nil => simp [runP_pure]
  | cons a l ih =>
    rw [List.forIn_cons, runP_bind, runP_bind, runP_hasSet_ok _ _ _ (hl a (by simp))]
    simp only [runP_pure, List.foldl_cons]
    rw [ih]
    intro b hb
    simp only [List.length_set]
    exact hl b (by simp [hb])

theorem foldl_set_getElem? (l : List Nat) (h : List Bool) (j : Nat) :
    (l.foldl (fun h a => h.set a false) h)[j]? = if j ∈ l then h[j]?.map (fun _ => false) else h[j]? := by
  induction l generalizing h with
  | nil => simp
  | cons a l ih =>
    rw [List.foldl_cons, ih]
    by_cases hj : j ∈ l
    · simp only [hj, if_true, List.mem_cons, or_true]
      by_cases ha : a = j
      · subst ha; simp [List.getElem?_set]; split <;> simp_all
      · simp [List.getElem?_set, ha]
    · by_cases ha : a = j
      · subst ha; simp [hj, List.getElem?_set]; split <;> simp_all
      · have : ¬ j = a := fun h => ha h.symm
        simp [hj, List.getElem?_set, ha, this]

theorem foldl_set_all (h : List Bool) :
    (List.range h.length).foldl (fun h a => h.set a false) h = h.map (fun _ => false) := by
  apply List.ext_getElem?
  intro j
  rw [foldl_set_getElem?]
  by_cases hj : j < h.length
  · simp [hj]
  · have : h[j]? = none := by simp; omega
    simp [hj, this]

theorem jrep_set (q : List (Option Val)) (i : Nat) (x : Val) : (jrep q).set i x = jrep (q.set i (some x)) := by
  simp [jrep, List.map_set]

/-- **the plain join of `tee_map`** (`_process_many.subscribe.on_next`, generated from rxsci/operators/tee_map.py) is the model's
`pJoinNext` with the tuple constructor of the pipelines: for every mode, every number of branches, every state of the two lists -/
theorem LinkP_tee_next (mode : Join) (n i : Nat) (st : PJoinSt Val) (x : Val) (s : PSt Val)
    (hq : st.queue.length = n) (hh : st.has.length = n) (hi : i < n)
    (hsq : s.jq = jrep st.queue) (hsh : s.jh = st.has) :
    runP (Gen.tee_plain_on_next n mode.flags.1 mode.flags.2 i x) s
      = (.ok (), { s with out := s.out ++ louts (pJoinNext mode mkTupleV id st i x).2,
                          jq := jrep (pJoinNext mode mkTupleV id st i x).1.queue,
                          jh := (pJoinNext mode mkTupleV id st i x).1.has }) := by
  have hiq : i < s.jq.length := by rw [hsq]; simp [jrep, hq, hi]
  have hih : i < s.jh.length := by rw [hsh, hh]; exact hi
  cases mode with
  | merge =>
    simp only [Gen.tee_plain_on_next, Join.flags, pJoinNext, louts, id, Bool.false_eq_true, if_false]
    rw [runP_emit]
    cases s; simp_all
  | combine =>
    simp only [Gen.tee_plain_on_next, Join.flags, pJoinNext, louts, id]
    simp only [Bool.false_eq_true, if_false, if_true, runP_bind]
    rw [runP_queueSet_ok _ _ _ hiq]
    simp only []
    rw [runP_hasSet_ok _ _ _ (by simpa using hih)]
    simp only [runP_queueAll, runP_emit, hsq, hsh, mkTupleV, jrep, List.map_set, Option.getD_some, PyAlg.tup]
  | zip =>
    simp only [Gen.tee_plain_on_next, Join.flags, pJoinNext, louts, id]
    simp only [if_true, runP_bind]
    rw [runP_queueSet_ok _ _ _ hiq]
    simp only []
    rw [runP_hasSet_ok _ _ _ (by simpa using hih)]
    simp only [runP_hasAll, hsh]
    by_cases hall : (st.has.set i true).all id = true
    · simp only [hall, if_true]
      simp only [runP_bind, runP_tryCatch, runP_queueAll]
      rw [reset_loop_plain]
      · have hlen : (st.has.set i true).length = n := by simp [hh]
        have := foldl_set_all (st.has.set i true)
        rw [hlen] at this
        simp only [runP_emit, runP_er_pure, runP_bind, runP_pure, louts, hsq, mkTupleV, jrep, this, EarlyReturn.runK,
          List.map_set, Option.getD_some, PyAlg.tup]
      · intro a ha
        have : a < n := by simpa using ha
        simp [hh, this]
    · simp only [hall, Bool.false_eq_true, if_false, runP_pure, louts, List.append_nil, hsq, jrep, List.map_set, Option.getD_some]

/-- **`done(i)` of the plain join**: branch `i` is marked done, and the join completes exactly when every branch is — whatever
the join mode -/
theorem LinkP_tee_done (n i : Nat) (zip combine : Bool) (s : PSt Val) (hi : i < s.jd.length) :
    runP (Gen.tee_plain_done (V := Val) n zip combine i) s
      = (.ok (), { s with jd := s.jd.set i true, completed := if (s.jd.set i true).all id then true else s.completed }) := by
  simp only [Gen.tee_plain_done, runP_bind]
  rw [runP_doneSet_ok _ _ _ hi]
  simp only [runP_doneAll]
  by_cases h : (s.jd.set i true).all id = true
  · simp only [h, if_true, runP_complete]
  · simp only [h, Bool.false_eq_true, if_false, runP_pure]

/-- non-vacuity: two branches, zip, branch 1 arrives while branch 0 is pending -/
example : louts (pJoinNext .zip mkTupleV id ⟨[some (.int 1), none], [true, false]⟩ 1 (.int 2)).2 = [Val.tup [.int 1, .int 2]] := by
  decide

end Rx

/-!
# Incremental text codecs (rxsci/data/codec.py over Python's `codecs` incremental coders)

Text is a list of Unicode scalar values (`Nat`), bytes are `Nat`s `< 256`.
Encodings: utf-8, utf-16 and utf-32 (BOM written once, little endian as CPython emits on this
platform; the decoder requires the BOM and accepts either byte order), latin-1.
-/
namespace Rx

inductive Enc where
  | utf8 | utf16 | utf32 | latin1
  deriving DecidableEq, Repr

/-- Unicode scalar value -/
def isScalar (c : Nat) : Bool := c < 0x110000 && !(0xD800 ≤ c && c < 0xE000)

/-- what the encoding can represent -/
def Enc.ok (e : Enc) (c : Nat) : Bool :=
  match e with
  | .latin1 => c < 256
  | _ => isScalar c

def utf8Enc (c : Nat) : List Nat :=
  if c < 0x80 then [c]
  else if c < 0x800 then [0xC0 + c / 64, 0x80 + c % 64]
  else if c < 0x10000 then [0xE0 + c / 4096, 0x80 + (c / 64) % 64, 0x80 + c % 64]
  else [0xF0 + c / 262144, 0x80 + (c / 4096) % 64, 0x80 + (c / 64) % 64, 0x80 + c % 64]

/-- a 16-bit unit as two bytes -/
def unit16 (big : Bool) (u : Nat) : List Nat := if big then [u / 256, u % 256] else [u % 256, u / 256]

def utf16Enc (big : Bool) (c : Nat) : List Nat :=
  if c < 0x10000 then unit16 big c
  else unit16 big (0xD800 + (c - 0x10000) / 1024) ++ unit16 big (0xDC00 + (c - 0x10000) % 1024)

def utf32Enc (big : Bool) (c : Nat) : List Nat :=
  if big then [c / 16777216, (c / 65536) % 256, (c / 256) % 256, c % 256]
  else [c % 256, (c / 256) % 256, (c / 65536) % 256, c / 16777216]

/-- bytes of one character; `big` only matters for utf-16/32 (the encoder always writes little endian) -/
def encChar (e : Enc) (big : Bool) (c : Nat) : List Nat :=
  match e with
  | .utf8 => utf8Enc c
  | .utf16 => utf16Enc big c
  | .utf32 => utf32Enc big c
  | .latin1 => [c]

def bom (e : Enc) (big : Bool) : List Nat :=
  match e with
  | .utf16 => unit16 big 0xFEFF
  | .utf32 => utf32Enc big 0xFEFF
  | _ => []

/-! ## incremental encoder: state = "the BOM has been written" -/

def encFeed (e : Enc) (written : Bool) (s : List Nat) : Bool × List Nat :=
  (true, (if written then [] else bom e false) ++ s.flatMap (encChar e false))

/-- `encoder.encode('', final=True)` -/
def encFinish (e : Enc) (written : Bool) : List Nat := if written then [] else bom e false

/-- `rs.data.encode`: one bytes item per string, then the final flush item -/
def encodeRun (e : Enc) : Bool → List (List Nat) → List (List Nat)
  | w, [] => [encFinish e w]
  | w, s :: ss => (encFeed e w s).2 :: encodeRun e (encFeed e w s).1 ss

/-! ## incremental decoder -/

/-- try to decode one character at the head of the buffer: `none` = incomplete (or invalid) -/
def dec1 (e : Enc) (big : Bool) (buf : List Nat) : Option (Nat × List Nat) :=
  match e with
  | .latin1 => match buf with | b :: r => some (b, r) | [] => none
  | .utf8 =>
    match buf with
    | [] => none
    | b0 :: r =>
      if b0 < 0x80 then some (b0, r)
      else if b0 < 0xE0 then
        match r with
        | b1 :: r => some ((b0 - 0xC0) * 64 + (b1 - 0x80), r)
        | _ => none
      else if b0 < 0xF0 then
        match r with
        | b1 :: b2 :: r => some ((b0 - 0xE0) * 4096 + (b1 - 0x80) * 64 + (b2 - 0x80), r)
        | _ => none
      else
        match r with
        | b1 :: b2 :: b3 :: r => some ((b0 - 0xF0) * 262144 + (b1 - 0x80) * 4096 + (b2 - 0x80) * 64 + (b3 - 0x80), r)
        | _ => none
  | .utf16 =>
    match buf with
    | a :: b :: r =>
      let u := if big then a * 256 + b else b * 256 + a
      if 0xD800 ≤ u ∧ u < 0xDC00 then
        match r with
        | c :: d :: r =>
          let v := if big then c * 256 + d else d * 256 + c
          some (0x10000 + (u - 0xD800) * 1024 + (v - 0xDC00), r)
        | _ => none
      else some (u, r)
    | _ => none
  | .utf32 =>
    match buf with
    | a :: b :: c :: d :: r =>
      some (if big then a * 16777216 + b * 65536 + c * 256 + d else d * 16777216 + c * 65536 + b * 256 + a, r)
    | _ => none

/-- decode greedily: characters decoded and the bytes carried over -/
def decAll (e : Enc) (big : Bool) (buf : List Nat) : List Nat × List Nat :=
  match h : dec1 e big buf with
  | none => ([], buf)
  | some (c, r) =>
    if r.length < buf.length then
      let rr := decAll e big r
      (c :: rr.1, rr.2)
    else ([], buf)
termination_by buf.length

/-- decoder state: byte order once the BOM has been seen (utf-16/32), pending bytes -/
structure DecSt where
  order : Option Bool        -- some big/little once known (always `some false` for utf-8 / latin-1)
  pending : List Nat

def decInit (e : Enc) : DecSt :=
  match e with
  | .utf16 | .utf32 => ⟨none, []⟩
  | _ => ⟨some false, []⟩

/-- `decoder.decode(chunk)`: `Except` = UnicodeError (stream does not start with a BOM) -/
def decFeed (e : Enc) (st : DecSt) (chunk : List Nat) : Except String (DecSt × List Nat) :=
  let buf := st.pending ++ chunk
  match st.order with
  | some big => let r := decAll e big buf; .ok (⟨some big, r.2⟩, r.1)
  | none =>
    let n := (bom e false).length
    if buf.length < n then .ok (⟨none, buf⟩, [])
    else if buf.take n = bom e false then
      let r := decAll e false (buf.drop n); .ok (⟨some false, r.2⟩, r.1)
    else if buf.take n = bom e true then
      let r := decAll e true (buf.drop n); .ok (⟨some true, r.2⟩, r.1)
    else .error "UnicodeError"

/-- `decoder.decode(b'', final=True)`: pending bytes are an error, otherwise nothing -/
def decFinish (st : DecSt) : Except String (List Nat) :=
  if st.pending = [] then .ok [] else .error "UnicodeDecodeError"

/-- `rs.data.decode`: one text item per chunk, then the final flush item -/
def decodeRun (e : Enc) : DecSt → List (List Nat) → Except String (List (List Nat))
  | st, [] => do let f ← decFinish st; pure [f]
  | st, c :: cs => do
    let r ← decFeed e st c
    let rest ← decodeRun e r.1 cs
    pure (r.2 :: rest)

end Rx

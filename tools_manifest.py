#!/usr/bin/env python3
"""Regenerates MANIFEST.json from the table below (development helper; MANIFEST.json is the committed interface)."""
import json, os
ROOT = os.path.dirname(os.path.abspath(__file__))
props = [json.loads(l) for l in open(os.path.join(ROOT, 'properties.jsonl'))]

CLAIMED = {
 'C15': dict(
    text='Kernel-checked Lean 4 theorems (C15_line, C15_line_rechunk, C15_lp, C15_lp_incomplete, C15_prefix_roundtrip, C15_lp_frame_guard) over an executable model of line.unframe and length_prefix.unframe: for every item list, every chunking (empty chunks, cuts anywhere), every prefix size >= 1 and both byte orders the un-framer returns exactly the items; the model is tied to /repo on every run by a differential check that drives the real operators chunk by chunk and compares per-chunk outputs with the compiled model.',
    design='§7 C15', technique='Lean 4 proof by induction over the chunk list (split-over-append lemma) + differential correspondence check',
    note='Trusted: Lean kernel, axioms propext/Classical.choice/Quot.sound, hand-written model (tested against the code each run), CPython str.split/bytes/BytesIO and RxPY plumbing are modelled not verified.'),
}
PENDING_REASON = 'check not built yet in this round (framework under construction; see DESIGN.md §7/§10)'

checks = []
na = []
for p in props:
    pid = p['id']
    if pid in CLAIMED:
        c = CLAIMED[pid]
        checks.append({
            'property_id': pid,
            'quick_cmd': './check %s quick' % pid,
            'thorough_cmd': './check %s thorough' % pid,
            'evidence_file': 'evidence/%s.json' % pid,
            'replay_cmd_template': './check --replay {path}',
            'engine': 'lean4-model+correspondence',
            'level_claimed': {'category': 'proof', 'text': c['text'], 'design_ref': c['design']},
            'level_note': c['note'],
            'technique': c['technique'],
        })
    else:
        na.append({'property_id': pid, 'reason': PENDING_REASON})

man = {
 'version': 1,
 'setup_cmd': 'cd lean && lake build RxModel Driver rxdriver',
 'hooks': {'guard': 'RXSCI_VERIF', 'enable': 'no source hooks are needed: every observation point is reached with ordinary operators and public classes', 'baseline_off_cmd': 'cd /repo && /venv/bin/python -m pytest -ra -q -p no:cacheprovider --timeout=900 --continue-on-collection-errors', 'source_commits': [], 'add_only': True},
 'engines': [{'name': 'lean4-model+correspondence', 'path': 'lean/ + harness/', 'serves_properties': sorted(CLAIMED), 'kind_free_text': 'Lean 4 executable model with kernel-checked theorems; Python differential harness drives the real rxsci code and the compiled model on the same cases'}],
 'checks': checks,
 'not_applicable': na,
 'notes': 'All checks: ./check <id> quick|thorough (cwd /verif). Exit 0 held / 1 VIOLATION / 2 infrastructure. VERIF_SEED seeds every random choice.',
}
json.dump(man, open(os.path.join(ROOT, 'MANIFEST.json'), 'w'), indent=1)
print('claimed', sorted(CLAIMED), 'pending', len(na))

#!/usr/bin/env python3
"""Regenerates MANIFEST.json from the table below (development helper; MANIFEST.json is the committed interface)."""
import json, os
ROOT = os.path.dirname(os.path.abspath(__file__))
props = [json.loads(l) for l in open(os.path.join(ROOT, 'properties.jsonl'))]

MUXNOTE = ('Trusted: Lean kernel + propext/Classical.choice/Quot.sound; the hand-written model (lean/RxModel) is tied to /repo by the '
           'differential correspondence check of every run (strict equality of per-source-event output chunks and of the mux traces at internal '
           'boundaries between the real code, the index-addressed model L1 and the keyed reference L2); RxPY, CPython ==/hash/dict order/deepcopy '
           'are modelled, not verified; the store is an index-addressed map (its refinement is C14). Theorems about nested splitters/tee_map '
           'refinement (tier 2) are not all proved yet: nesting beyond flat pipelines is covered by the L1=L2 comparison on every case.')

def mux(text, design, technique):
    return dict(text=text, design=design, technique=technique, note=MUXNOTE)

CLAIMED = {
 'C01': mux('Theorems: C01_transparent (for EVERY flat pipeline of dual-mode operators, any length, and every well-formed multiplexed input - any groups, interleaving, sparse/reused slot indices - the items the index-addressed implementation delivers for a group equal the items the plain pipeline delivers on that group alone, whenever the plain run does not raise), built from impl_eq_ref / C02_confinement (mux side), C01_stage_map/filter/flat_map/scan/first/last/take/assert/assert1/to_list (each *_mux handler vs its RxPY / plain twin, as step simulations incl. early completion), agreeT_comp via C01_pipeline (plain composition = function composition on totals even when take/first stop the upstream and mask later errors), C01_builders (count, sum, min, max, mean, variance, stddev, formal.*, batch, distinct_until_changed, clip, fill_none, identity as the code composes them), C01_dual_closed. tee_map (three joins) and nesting under splitters are decided by the correspondence check (real mux path, real plain path, model L1/L2/plain) and by the oracle real-mux-per-group vs real-plain.', '§I.5, §7 C01', 'Lean 4 proof (refinement by induction over trace and pipeline syntax; compositional plain/keyed simulation) + differential correspondence; oracle: real keyed run per group vs real plain run'),
 'C02': mux('Theorems: C02_impl_eq_ref, C02_other_keys (events emitted for a key are a function of that key\'s own events), C02_lifetime (a lifetime emits the local meaning of its items and leaves the slot empty), C02_confinement (the same for the index-addressed implementation on every well-formed trace incl. sparse/reused indices) for flat pipelines of per-key operators; splitters/tee nesting by correspondence + oracle (context run vs standalone run of every observed lifetime).', '§7 C02', 'Lean 4 proof (simulation invariant between index-addressed store and keyed state) + differential correspondence; oracle: lifetime in context vs standalone real run'),
 'C03': mux('Theorems: C03_ref_preserves, C03_output, C03_root, C03_all_boundaries (every boundary of a supported pipeline carries a well-formed trace, closed when the input is); for splitters/tee the monitor is run on every real boundary trace (oracle) and boundary traces are compared with the model.', '§7 C03', 'Lean 4 proof (protocol monitor preserved by the keyed lift; structural recursion over the pipeline) + protocol monitor on real boundary traces'),
 'C04': mux('Theorems: C04_groups (no group completes before the parent; at completion groups are completed in first-appearance order and group k holds exactly the items of key k in source order), C04_partition, C04_first_appearance, about the mapper-dict splitter of one parent lifetime.', '§7 C04', 'Lean 4 proof (invariant over the item list) + differential correspondence; oracle on real boundary traces'),
 'C05': mux('Theorems: C05_full_windows (after any prefix the completed windows are exactly windows 0..c-1 in opening order, each with its w consecutive items), C05_ring_invariant, C05_slots_suffice, for all window/stride >= 1 and all lengths; the completion-time flush order is decided by correspondence + oracle (exhaustive small (w,s,length) sweep).', '§7 C05', 'Lean 4 proof (ring-slot invariant, unbounded w/s/length) + exhaustive small sweep + differential correspondence'),
 'C06': mux('Theorems: C06_segments (segments = maximal runs of equal predicate value, last one completed at key completion, none for an empty key), C06_runs_partition, C06_runs_maximal.', '§7 C06', 'Lean 4 proof (simulation against a run-splitting function) + differential correspondence; oracle on real boundary traces'),
 'C07': mux('Theorems: C07_partition (every item in exactly one session, in order), C07_step (the per-item rule: inclusive timeouts, closing item inclusive/exclusive, reference/previous timestamps), C07_last_is_previous, for all four None/present timeout combinations.', '§7 C07', 'Lean 4 proof (invariant + case analysis of the rule) + exhaustive small timelines + differential correspondence'),
 'C08': mux('Theorems: C08_decompose (per source event the tee output is the join, in branch order, of the chunks the branches emit when run alone), C08_branch_alone, C08_merge, C08_zip, C08_combine, C08_lifecycle (all slots of a key reset at completion); oracle: branches run alone on the real code, joined by the rule of the statement, vs the real tee_map (mux, plain, under key-reusing parents).', '§7 C08', 'Lean 4 proof (decomposition lemma) + differential correspondence; oracle: real branches alone + join rule vs real tee_map'),
 'C09': mux('Theorems: C09_stream, C09_reduce, C09_agree, C09_term, C09_error, C09_error_absent, C09_plain, for every accumulator/seed/terminator/item list; seed isolation across keys and lifetimes is decided by the correspondence check with mutating accumulators and by C02.', '§7 C09', 'Lean 4 proof (fold algebra by induction) + differential correspondence with mutating accumulators'),
 'C10': mux('Theorems: C10_first, C10_last, C10_take, C10_distinct (= eraseDupsBy), C10_lag1, C10_pad_start, C10_pad_end, C10_start_with, C10_sort (stable ordered permutation); lag(n), batch, distinct_until_changed and the plain variants are decided by the exhaustive small-sequence correspondence sweep and the list-semantics oracle.', '§7 C10', 'Lean 4 proof (list semantics by induction) + exhaustive short sequences x parameters + differential correspondence'),
 'C11': mux('Theorems: C11_causal (chunks of a prefix never depend on what follows, for every operator), C11_causal_local, C11_map_chunks, C11_scan_chunks, C11_reduce_chunks, C11_take_chunks, C11_roll_prompt, C11_wrap_chunk; the position of every real output is compared with the model chunk index and with the position required by the statement.', '§7 C11', 'Lean 4 proof (chunk equations) + per-source-position differential correspondence'),
 'C12': mux('Theorems over exact rationals (the same generic accumulators the driver executes at Float): C12_sum, C12_mean, C12_variance (Welford state = exact mean and sum of squared deviations; variance 0 for fewer than two items), C12_formal, C12_stream_eq_reduce, C12_sum_rounding (|fl-sum - sum| <= ((1+u)^n - 1) * sum|x| in the standard rounding model). The forward-error bound of the variance family is NOT proved: it is decided by bit-for-bit correspondence with the Welford/two-pass model and by differential testing against exact fractions (labelled testing).', '§7 C12', 'Lean 4 proof over Q (Mathlib field_simp/ring/nlinarith) + bit-exact differential correspondence at Float + exact-rational accuracy oracle'),
 'C13': mux('Theorems: C13_map_one_error, C13_filter_one_error, C13_scan_one_error, C13_ignore_map, C13_map_err_in_place, C13_router_dead_letters, C13_unhandled; handlers after filter/scan, the dead-letter channel and interleavings by correspondence + oracle (real run without the failing items).', '§7 C13', 'Lean 4 proof + differential correspondence; oracle: real run on the input without the failing items'),
 'C14': dict(
    text='Kernel-checked Lean 4 theorems over an executable L0 model of MemoryStore (parallel values/state/keys arrays, NOTSET/SET/CLEARED markers, growth, typed coercion, mapper dicts and index counter): C14_inv_new/step/run (arrays stay parallel over every history), C14_get (get reads the abstract per-index map), C14_add_fresh, C14_read_your_write, C14_del_add, C14_frame (no operation on index i changes another allocated index), C14_add_map_index, C14_indices_fresh (indices handed out over any history are pairwise distinct), C14_map_lookup; the model is tied to /repo by replaying random operation histories on the real MemoryStore / StoreManager and comparing every return value and iterate() dump.',
    design='§7 C14', technique='Lean 4 proof (data refinement of the concrete arrays to an abstract per-index map, induction over the operation history) + differential correspondence on random histories',
    note='Trusted: Lean kernel, propext/Classical.choice/Quot.sound, hand-written model (tested each run), CPython list/array.array/dict semantics modelled not verified.'),
 'C16': dict(
    text='Kernel-checked Lean 4 theorems about rxsci\'s streaming compression wrappers, modulo an explicit library contract (CodecContract: what zlib/zstandard streaming objects are assumed to do): C16_roundtrip (any re-chunking, empty chunks anywhere: payload = original, completion, no error), C16_truncated (strict prefix: on_error, never completion), C16_roundtrip_zlib, C16_compress_shape, C16_nonvacuous (a toy codec satisfies the contract). The libraries themselves are not modelled; the wrapper model is tied to /repo by replaying the recorded library transcript through it and comparing event sequences; the round trip and truncation are judged on the real libraries by the oracle.',
    design='§7 C16', technique='Lean 4 proof of the wrapper logic under an explicit codec contract + transcript-replay correspondence + real round-trip / truncation oracle',
    note='Trusted: Lean kernel, propext/Classical.choice/Quot.sound; zlib and zstandard behaviour is an assumption (contract), tested not proved.'),
 'C17': dict(
    text='Kernel-checked Lean 4 theorems over a model that IMPLEMENTS utf-8, utf-16, utf-32 and latin-1 encoders and incremental decoders (not assumed from Python): C17_roundtrip (every string list, every cutting of the encoded bytes incl. inside multi-byte sequences and the BOM, empty chunks: decoding succeeds and the text is unchanged), C17_bom_once, C17_char_roundtrip. The model is compared byte for byte / character for character with Python codecs through rxsci.data.encode/decode on every run, incl. re-subscription and the json dump_to_file path.',
    design='§7 C17', technique='Lean 4 proof (prefix-code decoder monotonicity + split-over-append induction, omega bit arithmetic) + differential correspondence with Python codecs',
    note='Trusted: Lean kernel, propext/Classical.choice/Quot.sound; hand-written codec model tested against CPython codecs each run.'),
 'C15': dict(
    text='Kernel-checked Lean 4 theorems (C15_line, C15_line_rechunk, C15_lp, C15_lp_incomplete, C15_prefix_roundtrip, C15_lp_frame_guard) over an executable model of line.unframe and length_prefix.unframe: for every item list, every chunking (empty chunks, cuts anywhere), every prefix size >= 1 and both byte orders the un-framer returns exactly the items; the model is tied to /repo on every run by a differential check that drives the real operators chunk by chunk and compares per-chunk outputs with the compiled model.',
    design='§7 C15', technique='Lean 4 proof by induction over the chunk list (split-over-append lemma) + differential correspondence check',
    note='Trusted: Lean kernel, axioms propext/Classical.choice/Quot.sound, hand-written model (tested against the code each run), CPython str.split/bytes/BytesIO and RxPY plumbing are modelled not verified.'),
 'C18': dict(
    text='Kernel-checked Lean 4 theorems over a model of the csv dumper and parser (escape of quote/escape characters, quoting, split on the separator, merge_escape_parts / is_closing_quote, unquote, int printing and parsing): C18_unescape (unescape . escape = id for every string), C18_str_field (a dumped string field alone on a line is parsed back for every string and separator), C18_int, C18_bool. The full multi-column row round trip with separators inside quoted fields is decided by the correspondence check (dumped lines and parsed rows of the real code vs the model) and by the round-trip oracle on the real code; floats are carried as tokens (contract float(str(x)) == x).',
    design='§7 C18', technique='Lean 4 proof (string rewriting lemmas by induction) + differential correspondence + real round-trip oracle',
    note='Trusted: Lean kernel, propext/Classical.choice/Quot.sound; CPython str.split/replace/join/int/float are modelled not verified; the multi-column theorem is partial (single field).'),
 'C19': dict(
    text='Kernel-checked Lean 4 theorems composing the proved parts: C19_roundtrip (objects -> serialised lines -> utf-8 bytes -> any chunking -> decode -> unframe gives the lines back, for every object list incl. empty and every chunking), C19_empty, C19_roundtrip_compressed (through any codec meeting the C16 contract, any re-chunking of the compressed stream). orjson/json loads(dumps(o)) == o is a library contract; the model reads the real file bytes with the real 64 KiB chunking each run and is compared with the real loader; the round trip is judged on the real code (path, open_obj, file objects incl. short reads).',
    design='§7 C19', technique='Lean 4 proof (composition of C15, C16, C17 theorems) + differential correspondence on real file bytes + real round-trip oracle',
    note='Trusted: Lean kernel, propext/Classical.choice/Quot.sound; JSON serialiser and compression libraries by contract.'),
 'C20': dict(
    text='Kernel-checked Lean 4 theorems: C20_batch (the composed scan|filter|map operator batch(n) emits exactly chunksOf n of its input, for every n >= 1 and every input), C20_chunks_spec (chunks concatenate to the input, are non-empty, at most n long, all but the last exactly n), C20_rows and C20_file (for every row list, dump batch size, row-group size and load batch size the file row groups hold the source rows once each in order and the loader returns them; with row_group_size None the row groups are the batches). pyarrow writer/reader are a library contract; the model is tied to /repo by comparing row ids, row-group sizes and loaded rows of real files with the model on every run.',
    design='§7 C20', technique='Lean 4 proof (operator simulation + strong induction on chunking) + differential correspondence on real parquet files + real round-trip oracle',
    note='Trusted: Lean kernel, propext/Classical.choice/Quot.sound; pyarrow ParquetWriter/ParquetFile/pa.array behaviour by contract (tested, incl. NaN/None/nested values).'),
}
PENDING_REASON = 'check not built yet in this round (framework under construction; see DESIGN.md §7/§10)'

checks = []
na = []
for p in props:
    pid = p['id']
    if pid in CLAIMED:
        c = CLAIMED[pid]
        checks.append({
            'property_id': pid,
            'quick_cmd': './check %s quick' % pid,
            'thorough_cmd': './check %s thorough' % pid,
            'evidence_file': 'evidence/%s.json' % pid,
            'replay_cmd_template': './check --replay {path}',
            'engine': 'lean4-model+correspondence',
            'level_claimed': {'category': 'proof', 'text': c['text'], 'design_ref': c['design']},
            'level_note': c['note'],
            'technique': c['technique'],
        })
    else:
        na.append({'property_id': pid, 'reason': PENDING_REASON})

man = {
 'version': 1,
 'setup_cmd': 'cd lean && lake build RxModel Driver rxdriver',
 'hooks': {'guard': 'RXSCI_VERIF', 'enable': 'no source hooks are needed: every observation point is reached with ordinary operators and public classes', 'baseline_off_cmd': 'cd /repo && /venv/bin/python -m pytest -ra -q -p no:cacheprovider --timeout=900 --continue-on-collection-errors', 'source_commits': [], 'add_only': True},
 'engines': [{'name': 'lean4-model+correspondence', 'path': 'lean/ + harness/', 'serves_properties': sorted(CLAIMED), 'kind_free_text': 'Lean 4 executable model with kernel-checked theorems; Python differential harness drives the real rxsci code and the compiled model on the same cases'}],
 'checks': checks,
 'not_applicable': na,
 'notes': 'All checks: ./check <id> quick|thorough (cwd /verif). Exit 0 held / 1 VIOLATION / 2 infrastructure. VERIF_SEED seeds every random choice.',
}
json.dump(man, open(os.path.join(ROOT, 'MANIFEST.json'), 'w'), indent=1)
print('claimed', sorted(CLAIMED), 'pending', len(na))

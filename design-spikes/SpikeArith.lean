theorem dvd_sub_of_mod_eq (d a b : Nat) (h : a ≤ b) (hm : a % d = b % d) : d ∣ (b - a) := by
  have ha := Nat.div_add_mod a d
  have hb := Nat.div_add_mod b d
  refine ⟨b / d - a / d, ?_⟩
  have hle : a / d ≤ b / d := Nat.div_le_div_right h
  rw [Nat.mul_sub]
  omega

/-- density = ⌈w/s⌉ slots suffice: density * s ≥ w -/
theorem density_mul (w s : Nat) (hs : 0 < s) : w ≤ ((w + s - 1) / s) * s := by
  have h := Nat.div_add_mod (w + s - 1) s
  have h2 := Nat.mod_lt (w + s - 1) hs
  have : s * ((w + s - 1) / s) = ((w + s - 1) / s) * s := Nat.mul_comm _ _
  omega

/-- two windows that are open at the same time never share a ring slot -/
theorem slot_unique (w s d j1 j2 n : Nat) (hd : w ≤ d * s)
    (h1 : j1 * s < n ∧ n < j1 * s + w) (h2 : j2 * s < n ∧ n < j2 * s + w)
    (hm : j1 % d = j2 % d) : j1 = j2 := by
  rcases Nat.lt_trichotomy j1 j2 with h | h | h
  · exfalso
    have hlt : (j2 - j1) * s < d * s := by
      have : j2 * s = j1 * s + (j2 - j1) * s := by
        rw [← Nat.add_mul]; congr 1; omega
      omega
    have hlt' : j2 - j1 < d := Nat.lt_of_mul_lt_mul_right hlt
    have hdvd : d ∣ (j2 - j1) := dvd_sub_of_mod_eq d j1 j2 (Nat.le_of_lt h) hm
    have := Nat.le_of_dvd (by omega) hdvd
    omega
  · exact h
  · exfalso
    have hlt : (j1 - j2) * s < d * s := by
      have : j1 * s = j2 * s + (j1 - j2) * s := by
        rw [← Nat.add_mul]; congr 1; omega
      omega
    have hlt' : j1 - j2 < d := Nat.lt_of_mul_lt_mul_right hlt
    have hdvd : d ∣ (j1 - j2) := dvd_sub_of_mod_eq d j2 j1 (Nat.le_of_lt h) hm.symm
    have := Nat.le_of_dvd (by omega) hdvd
    omega
#print axioms slot_unique
#print axioms density_mul

import Mathlib.Tactic.FieldSimp
import Mathlib.Tactic.Ring
import Mathlib.Tactic.Linarith
import Mathlib.Data.Rat.Defs
import Mathlib.Algebra.Order.Field.Rat

/-- one step of rxsci.math.variance.accumulate over ℚ; state (m, s, k) -/
def wstep (st : ℚ × ℚ × ℕ) (x : ℚ) : ℚ × ℚ × ℕ :=
  let (m, s, k) := st
  let k' := k + 1
  if k = 0 then (x, s, k') else
    let m' := m + (x - m) / k'
    (m', s + (x - m) * (x - m'), k')

def sumsq (xs : List ℚ) : ℚ := (xs.map (fun x => x * x)).sum

/-- invariant step: m·n = Σx and s = Σx² − n·m² (= Σ(x−m)²) are preserved -/
theorem wstep_inv (xs : List ℚ) (x : ℚ) (m s : ℚ)
    (hk : xs ≠ [])
    (hm : m * xs.length = xs.sum) (hs : s = sumsq xs - xs.length * m * m) :
    let r := wstep (m, s, xs.length) x
    r.1 * ((xs ++ [x]).length : ℚ) = (xs ++ [x]).sum ∧
    r.2.1 = sumsq (xs ++ [x]) - ((xs ++ [x]).length : ℚ) * r.1 * r.1 ∧ r.2.2 = (xs ++ [x]).length := by
  have hlen : xs.length ≠ 0 := by simpa [List.length_eq_zero_iff] using hk
  have hpos : (0 : ℚ) < xs.length := by exact_mod_cast Nat.pos_of_ne_zero hlen
  simp only [wstep, hlen, if_false, List.length_append, List.length_singleton, List.sum_append,
    List.sum_singleton, sumsq, List.map_append, List.map_singleton, and_true]
  push_cast
  have h1 : ((xs.length : ℚ) + 1) ≠ 0 := by linarith
  refine ⟨?_, ?_⟩
  · field_simp; linarith [hm]
  · subst hs
    simp only [sumsq]
    have hm' : xs.sum = m * xs.length := hm.symm
    field_simp
    rw [hm'] at *
    ring
#print axioms wstep_inv
